"""C07 -- regularization matrices: symmetric, PSD/PD, stated quadratic form; block assembly in order."""
import itertools, sys, types
if "pylops" not in sys.modules:          # stand-in (pylops is not installed): lets Interferometer / TransformerDFT be built (phase 4: interferometer inversions)
    _p = types.ModuleType("pylops")
    _p.LinearOperator = type("LinearOperator", (object,), {"__init__": lambda self, *a, **k: None})
    _p.Diagonal = None
    sys.modules["pylops"] = _p
import numpy as np
from fractions import Fraction
from harness.common import cz, cq, cnat, cbool, clist, ctup, cres, import_aa, frac, exn_name

ID = "C07"
GEN = []
PROPS = "Props/C07.v"
COQ_CHECK = ("Model.C07", "check")
COQ_FALLBACK = None
COQ_IMPORTS = ""
SHARD = 40
RULE = ("mock mappers over random symmetric multigraph neighbour arrays (rings, stars, paths, isolated pixels, duplicate edges, "
        "shuffled row order, padded with -1; 2-10 pixels) with dyadic coefficients of either sign, dyadic signals in and outside [0,1], "
        "random split-cross tables (1, 3 or 4 distinct vertices, barycentric or signed dyadic weights, own pixel present/absent); real "
        "MapperRectangular on meshes 3x3..5x6 and real MapperDelaunay on 5-9 lattice points with positive adapt images and "
        "signal_scale 1/2; all seven schemes through regularization_matrix_from / regularization_weights_from / "
        "linear_obj.regularization_matrix and the util functions; reg_split_from directly (incl. MeshException / appended vertex); "
        "MockInversion with 1-3 objects with and without regularization in every order (regularization_matrix, _reduced, "
        "regularization_weights_from(index)); rectangular_neighbors_from on EVERY shape 1..8 x 1..8 (thorough 1..12), also through "
        "Mesh2DRectangular.neighbors; Gaussian / exponential kernel schemes on 2-7 half-lattice points (covariance assembly, inverse "
        "contract, Cholesky); a malformed stream (neighbour index out of range -> IndexError, negative index wrap, asymmetric lists "
        "where the spec is silent); REAL inversions (aa.Inversion on a real masked Imaging dataset with use_w_tilde False/True, "
        "InversionImagingMapping / InversionImagingWTilde directly, MockInversion): 1-3 linear objects mixing real MapperRectangular / "
        "MapperDelaunay (seven schemes + both kernel schemes or None), MockLinearObjFuncList and a harness subclass of "
        "AbstractLinearObjFuncList (Constant / ConstantZeroth / Zeroth or None), a plain LinearObj (Zeroth or None), every order of every "
        "list, regularization_matrix and regularization_matrix_reduced (fresh and cached); kernel schemes on EXTENDED meshes (60-150 points, "
        "spacing 1/2-3/4 of the scale, separations 5.5-18 scale lengths: rectangular blocks and strips, staggered point sets), every covariance "
        "entry against the profile table (RELATIVE 1e-11), SPD observed with margins. PHASE 3: (ii) Delaunay meshes with ONE VERTEX OF DEGREE "
        "21..40 (a vertex inside a ring, exact or jittered; a lone vertex facing a dense arc), all schemes that read the neighbour table, and on "
        "EVERY real Delaunay mesh Mesh2DDelaunay.neighbors against delaunay.simplices / vertex_neighbor_vertices (case KDelNb: exactly the edge "
        "set, symmetric, padding -1) and the shape of the split-cross table; (i) READ-ORDER HISTORIES ON ONE real inversion (aa.Inversion, mapping and "
        "w-tilde formalism, 4 settings combinations, all objects regularized / mixed / single / kernel scheme; with and without "
        "Preloads(regularization_matrix=...)): regularization_matrix, regularization_matrix_reduced, log_det_regularization_matrix_term, "
        "regularization_term, curvature_reg_matrix(_reduced), log_det_curvature_reg_matrix_term, reconstruction(_reduced) read in 9 orders, "
        "EVERY observation against the specification (block assembly of the matrices fresh objects' schemes return; regularization_term = "
        "s^T H s, case KTerm; log det; F + H), arrays handed out re-checked at the end, bytes of the preload before/after, the objects' own "
        "matrices afterwards; (a)(c)(d) REUSE / EDIT histories: one scheme object on a second, different linear object (same or different "
        "parameter count) and on the first again, its coefficients edited in place and re-read, one linear object given a second scheme "
        "(LinearObj.regularization_matrix read twice), the adapt image edited in place, every scheme call repeated on the same real mapper, "
        "fingerprints of the neighbour arrays / signals / mapping arrays / mesh / adapt image against an untouched twin; (b) derived adapt "
        "images (arithmetic after .native) and derived Delaunay meshes (arithmetic after the triangulation was read); (e) coefficients 2^-20 .. "
        "2^-12 (squares around and far below the 1e-8 ridge) and 2^12, 2^20 for every scheme, tiny / tied / zero signals and adapt images "
        "(2^-40, 2^40, all equal, zeros), anisotropic pixel scales with a shifted origin and non-square data at the class layer; all matrix "
        "comparisons RELATIVE to the scale of the entry (sqrt(H_aa H_bb)); PIXEL SIGNALS: mapper.pixel_signals_from on every real mapper "
        "whose scheme reads signals and mapper_util.adaptive_pixel_signals_from directly (single-vertex and interpolated rows, padded rows, "
        "pixels nobody maps to, powers 0..3, zeros / ties / 2^-34 data, out-of-range index / size / slim -> exception) against the model (case "
        "KSignals). PHASE 4 (pre-emptive hardening): (f) INPUT KINDS -- every scheme on objects of 1..4 parameters with the coefficients given as "
        "Python ints / numpy.int64 / numpy.float32 / numpy.float64 / 0-d arrays, the signals as int64 / bool / float32 arrays, the neighbour and "
        "split-cross arrays as int8 / int32 arrays, Fortran-ordered arrays and non-contiguous views into larger buffers, through the class, "
        "LinearObj.regularization_matrix and the util functions: every observation bit-equal to the float64 one (all values few-bit dyadic, so "
        "float32 arithmetic is exact), a differing one goes to Coq; SUBCLASS instances of every scheme class, of MockMapper / MapperRectangular / "
        "MapperDelaunay, of Mesh2DRectangular / Mesh2DDelaunay (the Mapper factory must still build the right mapper), of mesh.Rectangular / "
        "mesh.Delaunay; Delaunay vertices as Grid2DIrregular / Grid2DIrregularUniform / ndarray / list; integer- and float32-typed adapt images, "
        "data of shape 1 x 5 / 5 x 1; shape_native as list / ndarray / numpy ints; pixel-signal util with integer data, int8 / int32 indexes, float32 "
        "weights, views; real inversions on a SINGLE unmasked pixel / two pixels; (g) the shared DEFAULT-ARGUMENT objects of every callable on the "
        "route (SettingsInversion(), Preloads(), OverSamplingDataset() of aa.Inversion, the factories, the six inversion classes, "
        "mesh.*.mapper_grids_from, Imaging, Interferometer) and one caller-owned settings / preloads pair fingerprinted before / after; SEQUENCES of "
        "2-3 DIFFERENT inversions in one process through those shared objects (imaging and INTERFEROMETER datasets -- real and imaginary noise "
        "differing --, no regularized object at all, then the first one again), each against the block assembly of what fresh objects return, the "
        "caller's list of linear objects left alone; the public mesh-class route mesh.Rectangular / mesh.Delaunay .mapper_grids_from -> Mapper "
        "factory against the direct route; (a) sequences through module-level functions: rectangular_neighbors_from for the transposed shape, a "
        "shape with the same pixel count, the same first / second dimension, then this shape again (also through Mesh2DRectangular.neighbors); one "
        "kernel scheme object on two point sets of the same size and on the first again, scale / coefficient edited in place, the sibling kernel on "
        "the same points (case KCov + KKernel per observation); one real mapper asked for ANOTHER signal scale and the scheme's signal_scale edited "
        "in place, against a fresh mapper; the pixel-signal util on a second data image; two Delaunay meshes of the same vertex count in one process, "
        "both neighbour tables against their triangulations; the attached scheme's coefficients edited in place / detached (regularization = None); "
        "(d) every util function's array arguments compared with copies after the call (reg_split_from works in place by design); sibling mesh: "
        "Mesh2DVoronoi / MapperVoronoi with Constant / ConstantZeroth / Zeroth, the neighbour table against voronoi.ridge_points. "
        "Non-trivial = at least 3 parameters and 2 neighbour pairs / cross rows (high-degree meshes: a vertex of degree > 20); "
        "distinct = distinct JSON input.")
EXHAUSTIVE = {"quick": "rectangular_neighbors_from: all shapes 1..8 x 1..8", "thorough": "rectangular_neighbors_from: all shapes 1..12 x 1..12"}
TRUSTED = ["hand-written Gallina model coq/Model/C07.v (update lists in the code's loop order + scatter), tied to /repo by this "
           "correspondence run, evaluated inside Coq by vm_compute at exact rationals; comparison tolerance 1e-11 RELATIVE to the scale of "
           "the entry, (a-b)^2 <= 1e-22 |H_aa| |H_bb|, because the 1e-8 ridge is not a dyadic number (all other generated quantities of the "
           "mock streams are dyadic, so only the diagonal is inexact there)",
           "scipy.linalg.block_diag and numpy.delete modelled by contract; scipy.spatial.Delaunay / find_simplex are oracles: the neighbour "
           "table is checked against delaunay.simplices on every real mesh (and proved to be the edge relation GIVEN the documented contract "
           "of vertex_neighbor_vertices, which is itself checked per case: vnv_ok); split-cross tables are fed to both sides, their "
           "distinctness being checked per case (and proved given valid simplices, through property C06's model of the mapping routine)",
           "pixel signals: modelled (adaptive_pixel_signals_from) for integer powers; the mapping arrays (pix_indexes / sizes / weights / "
           "slim index: property C06's subject) are taken from the implementation",
           "extended-mesh kernel cases: the returned covariance matrix is handed to Coq as indexes into the list of its distinct values "
           "(exact; decoded inside Coq); its inverse is checked in Python only (contract to 1e-4, eigenvalue margins)",
           "read-order histories: log-determinants and F + H are compared in Python (numpy slogdet of the specification's matrix; a fresh "
           "inversion's curvature matrix); the regularization term is compared inside Coq at 1e-9 of the sum of the absolute terms"]
ASSUMPTIONS = ["real arithmetic (no rounding): theorems over R with the ridge a parameter eps > 0",
               "neighbour lists symmetric and in range: proved for rectangular meshes of every shape and, given scipy's contract for "
               "vertex_neighbor_vertices, for every Delaunay mesh; checked on every generated mesh; split-cross rows have distinct "
               "vertices and at least one vertex: proved for Delaunay meshes given valid simplices",
               "GaussianKernel / ExponentialKernel: see level_note (partial beyond 2 points / 3 points exponential)"]

SCHEMES = ["Constant", "ConstantZeroth", "Zeroth", "AdaptiveBrightness", "BrightnessZeroth", "ConstantSplit", "AdaptiveBrightnessSplit"]
COEFS = ["1/4", "1/2", "1", "3/2", "2", "3", "5/4"]
COEFS_ANY = COEFS + ["-1", "0", "-3/2"]

# ------------------------------------------------------------------ Coq printing
def cqv(v): return clist([cq(x) for x in v])
def cqm(M): return clist([cqv(r) for r in M])
def czl(v): return clist([cz(x) for x in v])
def czm(M): return clist([czl(r) for r in M])
def cnl(v): return clist([cnat(x) for x in v])

def cscheme(s):
    n, p = s["name"], [cq(Fraction(x)) for x in s["par"]]
    tag = {"Constant": "SConstant", "ConstantZeroth": "SConstantZeroth", "Zeroth": "SZeroth", "AdaptiveBrightness": "SAdaptive",
           "BrightnessZeroth": "SBrightnessZeroth", "ConstantSplit": "SConstantSplit", "AdaptiveBrightnessSplit": "SAdaptiveSplit"}[n]
    return "(" + tag + " " + " ".join(p) + ")"

def clobj(o):
    return ("{| o_params := %s; o_nbz := %s; o_sizes := %s; o_signals := %s; o_smap := %s; o_ssizes := %s; o_sw := %s |}" %
            (cnat(o["params"]), czm(o["nb"]), cnl(o["sizes"]), cqv(o["signals"]), czm(o["smap"]), cnl(o["ssizes"]), cqm(o["sw"])))

def mat_out(H):
    H = np.asarray(H, dtype=float)
    if H.ndim != 2: H = H.reshape((0, 0))
    return [[frac(x) for x in r] for r in H]

def cres_m(out): return cres(out, cqm)

# ------------------------------------------------------------------ generators
def sym_graph(rng, n, style):
    """returns directed neighbour lists (symmetric as a multiset of ordered pairs)"""
    adj = [[] for _ in range(n)]
    def edge(a, b):
        adj[a].append(b); adj[b].append(a)
    if style == "ring":
        if n == 2: edge(0, 1)
        elif n >= 3:
            for i in range(n): edge(i, (i + 1) % n)
    elif style == "star":
        for i in range(1, n): edge(0, i)
    elif style == "path":
        for i in range(n - 1): edge(i, i + 1)
    else:
        p = rng.choice([0.2, 0.4, 0.7])
        for a in range(n):
            for b in range(a + 1, n):
                if rng.random() < p: edge(a, b)
        if style == "multi" and n >= 2:
            a, b = rng.sample(range(n), 2); edge(a, b); edge(a, b)      # duplicate edge on both sides
    for r in adj: rng.shuffle(r)
    return adj

def pad(adj, rng, extra=0):
    w = max([len(r) for r in adj] + [1]) + extra
    return [r + [-1] * (w - len(r)) for r in adj], [len(r) for r in adj]

def rand_signals(rng, n, wide=False):
    if wide: return [str(Fraction(rng.randint(-4, 12), 8)) for _ in range(n)]
    s = [Fraction(rng.randint(0, 8), 8) for _ in range(n)]
    if n: s[rng.randrange(n)] = Fraction(1)
    return [str(x) for x in s]

BARY = [("1/4", "1/4", "1/2"), ("1/2", "1/4", "1/4"), ("1/8", "3/8", "1/2"), ("1/2", "1/2", "0"), ("1", "0", "0"), ("3/4", "1/8", "1/8")]
def rand_split(rng, n, signed=False, width=4):
    smap, ssz, sw = [], [], []
    for k in range(4 * n):
        if n >= 3 and rng.random() < 0.6:
            size = 3 if width == 4 or n < 4 else rng.choice([3, 4])
            size = min(size, width - 1)
            vs = rng.sample(range(n), size)
            if rng.random() < 0.4 and (k // 4) not in vs: vs[rng.randrange(size)] = k // 4
            if signed: ws = [str(Fraction(rng.randint(-6, 6), 4)) for _ in range(size)]
            else:
                ws = list(rng.choice(BARY)); rng.shuffle(ws); ws = (ws + ["0"] * size)[:size]
        else:
            size = 1; vs = [rng.randrange(n) if rng.random() < 0.5 else k // 4]; ws = ["1"] if not signed else [str(Fraction(rng.randint(-4, 4), 4))]
        smap.append(vs + [-1] * (width - size)); ssz.append(size); sw.append(ws + ["0"] * (width - size))
    return smap, ssz, sw

def rand_scheme(rng, name=None, anysign=False):
    name = name or rng.choice(SCHEMES)
    C = COEFS_ANY if anysign else COEFS
    npar = {"Constant": 1, "ConstantZeroth": 2, "Zeroth": 1, "AdaptiveBrightness": 2, "BrightnessZeroth": 1, "ConstantSplit": 1,
            "AdaptiveBrightnessSplit": 2}[name]
    return {"name": name, "par": [rng.choice(C) for _ in range(npar)]}

def rand_mock_obj(rng, n, style=None, wide=False, signed=False):
    style = style or rng.choice(["ring", "star", "path", "random", "random", "multi"])
    nb, sizes = pad(sym_graph(rng, n, style), rng, extra=rng.choice([0, 0, 1]))
    smap, ssz, sw = rand_split(rng, n, signed=signed, width=rng.choice([4, 4, 5]))
    return {"params": n, "nb": nb, "sizes": sizes, "signals": rand_signals(rng, n, wide), "smap": smap, "ssizes": ssz, "sw": sw}

def gen_inputs(tier, rng):
    """the streams differ a lot in what a case costs inside Coq (extended-mesh kernel cases, real inversions): deal them out
    with a stride, so that every shard of consecutive cases gets the same mix"""
    items = list(gen_inputs0(tier, rng))
    S = 11
    for r in range(S):
        for j in range(r, len(items), S): yield items[j]

def gen_inputs0(tier, rng):
    big = tier == "thorough"
    # A. mock mappers, every scheme
    for i in range(900 if big else 56):
        n = rng.randint(2, 10 if big else 8)
        o = rand_mock_obj(rng, n, wide=(i % 5 == 0), signed=(i % 4 == 0))
        yield {"op": "mock", "scheme": rand_scheme(rng, SCHEMES[i % 7], anysign=(i % 6 == 0)), "obj": o}
    # B. real rectangular mappers
    shapes = [(h, w) for h in range(3, 6) for w in range(3, 7)] if big else [(3, 3), (3, 4), (4, 3), (3, 5), (4, 4), (5, 3), (4, 5)]
    for i in range(72 if big else 10):
        h, w = shapes[i % len(shapes)] if big else rng.choice(shapes)
        yield {"op": "rect", "shape": [h, w], "scheme": rand_scheme(rng, rng.choice(SCHEMES[:5])), "signal_scale": rng.choice([1, 2]),
               "data_shape": [rng.randint(3, 5), rng.randint(3, 5)], "seed": rng.randrange(10 ** 9)}
    # C. real Delaunay mappers (all seven schemes)
    for i in range(150 if big else 14):
        yield {"op": "delaunay", "npts": rng.randint(5, 9), "scheme": rand_scheme(rng, SCHEMES[i % 7]), "signal_scale": rng.choice([1, 2]),
               "seed": rng.randrange(10 ** 9), "derived": i % 5 == 4}
    # D. reg_split_from directly (valid and malformed)
    for i in range(300 if big else 30):
        n = rng.randint(1, 6)
        width = rng.choice([2, 3, 4, 5])
        smap, ssz, sw = rand_split(rng, n, signed=(i % 2 == 0), width=max(width, 2)) if width >= 4 else split_small(rng, n, width)
        if i % 7 == 3:   # a full row: size == width -> MeshException
            k = rng.randrange(4 * n); ssz[k] = len(smap[k]); smap[k] = [rng.randrange(n) for _ in smap[k]]
        yield {"op": "split", "params": n, "smap": smap, "ssizes": ssz, "sw": sw}
    # E. inversion assembly: 1-3 objects, with / without regularization, every order
    for i in range(250 if big else 24):
        k = rng.randint(1, 3)
        objs = []
        for j in range(k):
            n = rng.randint(1, 4)
            if rng.random() < 0.4: objs.append({"scheme": None, "obj": {"params": n, "nb": [], "sizes": [], "signals": [], "smap": [], "ssizes": [], "sw": []}})
            else: objs.append({"scheme": rand_scheme(rng), "obj": rand_mock_obj(rng, max(n, 2))})
        yield {"op": "inversion", "objs": objs}
    # H. rectangular_neighbors_from on every shape up to 8 x 8 (12 x 12 thorough), degenerate 1 x N / N x 1 included
    top = 12 if big else 8
    for h in range(1, top + 1):
        for w in range(1, top + 1):
            yield {"op": "rectnb", "shape": [h, w]}
    # G. kernel schemes (partial): covariance assembly + inverse contract + observed SPD
    for i in range(120 if big else 12):
        yield {"op": "kernel", "gauss": bool(i % 2), "npts": rng.randint(4 if i % 3 == 0 else 2, 7), "scale": rng.choice(["1/2", "1", "3/2"]),
               "coef": rng.choice(COEFS), "real": bool(i % 3 == 0), "seed": rng.randrange(10 ** 9)}
    # F. malformed neighbour arrays
    for i in range(80 if big else 12):
        n = rng.randint(2, 6)
        o = rand_mock_obj(rng, n, style="random")
        rows = [r for r in range(n) if o["sizes"][r] > 0]
        kind = ["oob", "neg", "asym"][i % 3]
        if rows:
            r = rng.choice(rows); j = rng.randrange(o["sizes"][r])
            # (never the row's own index: a self-loop adds and subtracts c^2 on the diagonal, and (1e-8 + c^2) - c^2 is not 1e-8 in
            #  doubles -- a rounding error of 3e-11 relative to the ridge, outside the 1e-11 comparison; no mesh lists a pixel as its own neighbour)
            if kind == "oob": o["nb"][r][j] = n + rng.randint(0, 2)
            elif kind == "neg": o["nb"][r][j] = -rng.choice([k for k in range(1, n + 1) if n - k != r])
            else: o["nb"][r][j] = [v for v in ((o["nb"][r][j] + 1) % n, (o["nb"][r][j] + 2) % n) if v != r][0]
        yield {"op": "mock", "scheme": rand_scheme(rng, rng.choice(["Constant", "ConstantZeroth", "AdaptiveBrightness"])), "obj": o, "malformed": kind}

    # R. REAL inversions (aa.Inversion / InversionImagingMapping / InversionImagingWTilde on a real Imaging dataset): block assembly
    #    of the real AbstractInversion.regularization_matrix(_reduced) over mappers AND non-mapper objects, every order
    for base in realinv_bases(rng, big):
        for k, perm in enumerate(itertools.permutations(range(len(base["objs"])))):
            # the blocks of a list with kernel schemes are checked one by one in its first order only (same blocks in every order)
            yield {"op": "realinv", "mask": base["mask"], "seed": base["seed"], "objs": [base["objs"][i] for i in perm], "check_blocks": k == 0}
    # X. kernel schemes on EXTENDED meshes (some pair further than 5 scale lengths apart, spacing well below the scale)
    for inp in kernelx_inputs(rng, big):
        yield inp
    # P. phase 3: high-degree Delaunay meshes, read-order histories on ONE inversion, reuse histories, pixel signals, scales
    for inp in phase3_inputs(rng, big):
        yield inp
    # Q. phase 4: input kinds, subclass instances, shared default objects / sequences of inversions, sibling classes and routes
    for inp in phase4_inputs(rng, big):
        yield inp

FUNC_SCHEMES = ["Constant", "ConstantZeroth", "Zeroth"]
KERNELS = ["GaussianKernel", "ExponentialKernel"]
def rand_real_obj(rng, kind, regd):
    """one linear object of a real inversion; regd: with a regularization?"""
    o = {"kind": kind, "scheme": None, "signal_scale": rng.choice([1, 2])}
    if kind in ("func", "funcsub", "lin"):
        o["params"] = rng.randint(1, 4)
        if regd: o["scheme"] = rand_scheme(rng, "Zeroth" if kind == "lin" else rng.choice(FUNC_SCHEMES))
    elif kind == "rect":
        o["shape"] = list(rng.choice([(3, 3), (3, 4), (4, 3)]))
        if regd:
            n = rng.choice(SCHEMES[:5] + SCHEMES[:5] + KERNELS)
            o["scheme"] = rand_scheme(rng, n) if n in SCHEMES else {"name": n, "par": [rng.choice(COEFS), rng.choice(["1", "3/2", "2"])]}
    else:
        o["npts"] = rng.randint(5, 7); o["seed"] = rng.randrange(10 ** 9)
        if regd:
            n = rng.choice(SCHEMES + SCHEMES + KERNELS)
            o["scheme"] = rand_scheme(rng, n) if n in SCHEMES else {"name": n, "par": [rng.choice(COEFS), rng.choice(["1", "3/2", "2"])]}
    return o

def realinv_bases(rng, big):
    C3 = {"name": "Constant", "par": ["3"]}
    fixed = [
        [("func", None), ("func", C3), ("rect", {"name": "Constant", "par": ["2"]})],          # the prompt's class
        [("func", {"name": "Zeroth", "par": ["3/2"]}), ("rect", None), ("delaunay", {"name": "ConstantSplit", "par": ["1"]})],
        [("funcsub", {"name": "ConstantZeroth", "par": ["2", "1/2"]}), ("lin", None)],
        [("lin", {"name": "Zeroth", "par": ["2"]}), ("delaunay", None)],
        [("func", None), ("funcsub", C3)],
        [("func", C3), ("func", None), ("lin", {"name": "Zeroth", "par": ["5/4"]})],
        [("delaunay", {"name": "AdaptiveBrightness", "par": ["1/2", "2"]}), ("func", {"name": "ConstantZeroth", "par": ["1", "3"]}), ("lin", None)],
        [("rect", {"name": "GaussianKernel", "par": ["2", "3/2"]}), ("func", None), ("funcsub", C3)],
        [("delaunay", {"name": "ExponentialKernel", "par": ["1/2", "1"]}), ("lin", {"name": "Zeroth", "par": ["3"]})],
    ]
    for spec in fixed:
        objs = []
        for kind, sch in spec:
            o = rand_real_obj(rng, kind, False); o["scheme"] = sch
            if kind in ("func", "funcsub", "lin"): o["params"] = rng.randint(2, 4)
            objs.append(o)
        yield {"mask": rng.choice(MASKS), "seed": rng.randrange(10 ** 9), "objs": objs}
    for i in range(60 if big else 8):
        k = [1, 2, 3, 3, 2, 3][i % 6]
        kinds = [rng.choice(["func", "func", "funcsub", "lin", "rect", "delaunay"]) for _ in range(k)]
        regs = [rng.random() < 0.6 for _ in range(k)]
        if k >= 2 and i % 2 == 0:
            # force the mixed class: an object without regularization, a regularized non-mapper object (and a mapper when k = 3)
            kinds[0] = rng.choice(["func", "funcsub", "lin"]); regs[0] = True
            regs[1] = False
            if k == 3: kinds[2] = rng.choice(["rect", "delaunay"])
        yield {"mask": rng.choice(MASKS), "seed": rng.randrange(10 ** 9), "objs": [rand_real_obj(rng, kd, rg) for kd, rg in zip(kinds, regs)]}

# small masks of a 5 x 5 (6 x 5) image: True = masked
MASKS = [["11111", "10001", "10001", "10001", "11111"], ["11111", "11011", "10001", "11011", "11111"],
         ["11111", "10001", "10101", "10001", "11111"], ["11111", "10011", "10001", "10001", "11001", "11111"]]

def kernelx_inputs(rng, big):
    """extended meshes: separations reach 5.5 - 12 scale lengths, spacing 1/2 .. 3/4 of the scale; 60 - 150 points"""
    shapes = [(12, 12), (7, 20), (6, 16), (10, 10), (5, 24), (8, 14)]
    todo = [(True, "rect", (12, 12), "1/2"), (False, "rect", (6, 18), "5/8"), (True, "hex", (9, 12), "5/8"), (False, "hex", (10, 10), "5/8"),
            (True, "rect", (6, 16), "1/2"),
            # strips: few points, separations up to 15 scale lengths
            (True, "rect", (3, 24), "1/2"), (False, "rect", (3, 30), "5/8"), (True, "hex", (4, 20), "1/2")]
    if big:
        todo += [(True, "rect", (7, 20), "5/8"), (False, "rect", (7, 20), "5/8"), (False, "rect", (12, 12), "1/2")]
        for i in range(24):
            todo.append((bool(i % 2), ["rect", "hex"][(i // 2) % 2], rng.choice(shapes), rng.choice(["1/2", "5/8", "3/4", "1/2"])))
    for gauss, mesh, shape, spacing in todo:
        yield {"op": "kernelx", "gauss": gauss, "mesh": mesh, "shape": list(shape), "spacing": spacing, "scale": rng.choice(["1", "1/2", "2"]),
               "coef": rng.choice(COEFS), "drop": rng.randint(4, 20) if mesh == "hex" else 0, "seed": rng.randrange(10 ** 9)}

def split_small(rng, n, width):
    smap, ssz, sw = [], [], []
    for k in range(4 * n):
        size = rng.randint(1, width)
        vs = [rng.randrange(n) for _ in range(size)]
        smap.append(vs + [-1] * (width - size)); ssz.append(size)
        sw.append([str(Fraction(rng.randint(-4, 4), 4)) for _ in range(size)] + ["0"] * (width - size))
    return smap, ssz, sw

# ------------------------------------------------------------------ implementation side
_SUB = {}
def subcls(c):
    """a trivial user subclass of a library class (dispatch must go through isinstance, never type(x) is C)"""
    if c not in _SUB: _SUB[c] = type("Sub" + c.__name__, (c,), {})
    return _SUB[c]

COEF_KINDS = {"float": float, "pyint": lambda v: int(v), "npint": lambda v: np.int64(int(v)), "f32": lambda v: np.float32(v),
              "arr0": lambda v: np.array(float(v)), "npf64": lambda v: np.float64(v)}
def make_reg(aa, s, sub=False, ckind="float", ss_int=False):
    cv = COEF_KINDS[ckind]
    p = [cv(float(Fraction(x))) for x in s["par"]]
    n = s["name"]
    K = (lambda c: subcls(c)) if sub else (lambda c: c)
    ss = s.get("signal_scale", 1)
    ss = int(ss) if ss_int else float(ss)
    if n == "Constant": return K(aa.reg.Constant)(coefficient=p[0])
    if n == "ConstantZeroth": return K(aa.reg.ConstantZeroth)(coefficient_neighbor=p[0], coefficient_zeroth=p[1])
    if n == "Zeroth": return K(aa.reg.Zeroth)(coefficient=p[0])
    if n == "AdaptiveBrightness": return K(aa.reg.AdaptiveBrightness)(inner_coefficient=p[0], outer_coefficient=p[1], signal_scale=ss)
    if n == "BrightnessZeroth": return K(aa.reg.BrightnessZeroth)(coefficient=p[0], signal_scale=ss)
    if n == "ConstantSplit": return K(aa.reg.ConstantSplit)(coefficient=p[0])
    if n == "AdaptiveBrightnessSplit": return K(aa.reg.AdaptiveBrightnessSplit)(inner_coefficient=p[0], outer_coefficient=p[1], signal_scale=ss)
    raise ValueError(n)

def fo(o):
    """exact-rational view of an object description"""
    return {"params": o["params"], "nb": o["nb"], "sizes": o["sizes"], "signals": [Fraction(x) for x in o["signals"]],
            "smap": o["smap"], "ssizes": o["ssizes"], "sw": [[Fraction(x) for x in r] for r in o["sw"]]}

def conv_arr(a, dtype=None, layout="C"):
    """the same values as another KIND of array: dtype, Fortran order, or a non-contiguous view into a larger buffer"""
    a = np.asarray(a)
    if dtype is not None: a = a.astype(dtype)
    if layout == "F": return np.asfortranarray(a)
    if layout == "view":
        if a.ndim == 1:
            big = np.zeros(2 * len(a) + 1, dtype=a.dtype); big[1::2] = a; return big[1::2]
        big = np.zeros((a.shape[0] + 2, 2 * a.shape[1] + 1), dtype=a.dtype); big[1:-1, 1::2] = a; return big[1:-1, 1::2]
    return a

def split_arrays(o, ak=None):
    ak = ak or {}
    w = len(o["sw"][0]) if o["sw"] else 0
    lay = ak.get("layout", "C")
    return (conv_arr(np.array(o["smap"], dtype=int).reshape((len(o["smap"]), w)), ak.get("int"), lay),
            conv_arr(np.array(o["ssizes"], dtype=int), ak.get("int"), lay),
            conv_arr(np.array([[float(Fraction(x)) for x in r] for r in o["sw"]], dtype=float).reshape((len(o["sw"]), w)), ak.get("float"), lay))

def nb_arrays(o, ak=None):
    ak = ak or {}
    nbw = len(o["nb"][0]) if o["nb"] else 0
    lay = ak.get("layout", "C")
    return (conv_arr(np.array(o["nb"], dtype=int).reshape((len(o["nb"]), nbw)), ak.get("int"), lay),
            conv_arr(np.array(o["sizes"], dtype=int), ak.get("int"), lay))

def sig_array(o, ak=None):
    ak = ak or {}
    return conv_arr(np.array([float(Fraction(x)) for x in o["signals"]]), ak.get("sig", ak.get("float")), ak.get("layout", "C"))

def mock_mapper(aa, o, reg=None, ak=None, sub=False):
    from autoarray.inversion.pixelization.mappers.abstract import PixSubWeights
    nb, sz = nb_arrays(o, ak)
    mesh = aa.m.MockMeshGrid(neighbors=nb, neighbors_sizes=sz)
    m, z, w = split_arrays(o, ak)     # fresh arrays: reg_split_from works in place
    cls = subcls(aa.m.MockMapper) if sub else aa.m.MockMapper
    return cls(source_plane_mesh_grid=mesh, parameters=o["params"], pixel_signals=sig_array(o, ak),
               pix_sub_weights_split_cross=PixSubWeights(mappings=m, sizes=z, weights=w), regularization=reg)

def call(f):
    try: return ("ok", mat_out(f()))
    except Exception as e: return ("raise", exn_name(e))

def util_call(aa, s, o, ak=None, ckind="float", intact=None):
    """the util-layer route; intact (a list) receives the names of caller-owned arrays a util function modified (d)"""
    U = aa.util.regularization
    cv = COEF_KINDS[ckind]
    p = [cv(float(Fraction(x))) for x in s["par"]]
    nb, sz = nb_arrays(o, ak)
    sig = sig_array(o, ak)
    n = s["name"]
    def guarded(f, **arrs):
        """call f(**arrs), then compare every array argument with its copy"""
        before = {k: (v.copy(), v.dtype, v.shape) for k, v in arrs.items()}
        out = f(**arrs)
        if intact is not None:
            for k, v in arrs.items():
                c, dt, sh = before[k]
                if v.dtype != dt or v.shape != sh or not np.array_equal(v, c): intact.append(k)
        return out
    if n == "Constant": return lambda: guarded(lambda **a: U.constant_regularization_matrix_from(coefficient=p[0], **a), neighbors=nb, neighbors_sizes=sz)
    if n == "ConstantZeroth": return lambda: guarded(lambda **a: U.constant_zeroth_regularization_matrix_from(coefficient=p[0], coefficient_zeroth=p[1], **a), neighbors=nb, neighbors_sizes=sz)
    if n == "Zeroth": return lambda: U.zeroth_regularization_matrix_from(coefficient=p[0], pixels=o["params"])
    if n == "AdaptiveBrightness":
        def ab():
            rw = guarded(lambda **a: U.adaptive_regularization_weights_from(inner_coefficient=p[0], outer_coefficient=p[1], **a), pixel_signals=sig)
            return guarded(lambda **a: U.weighted_regularization_matrix_from(**a), regularization_weights=rw, neighbors=nb, neighbors_sizes=sz)
        return ab
    if n == "BrightnessZeroth":
        def bz():
            rw = guarded(lambda **a: U.brightness_zeroth_regularization_weights_from(coefficient=p[0], **a), pixel_signals=sig)
            return guarded(lambda **a: U.brightness_zeroth_regularization_matrix_from(**a), regularization_weights=rw)
        return bz
    def split():
        m, z, w = split_arrays(o, ak)
        m, z, w = U.reg_split_from(splitted_mappings=m, splitted_sizes=z, splitted_weights=w)      # works in place by design
        P = int(len(m) / 4)
        rw = np.full(fill_value=p[0], shape=(P,)) if n == "ConstantSplit" else \
            guarded(lambda **a: U.adaptive_regularization_weights_from(inner_coefficient=p[0], outer_coefficient=p[1], **a), pixel_signals=sig)
        return guarded(lambda **a: U.pixel_splitted_regularization_matrix_from(**a), regularization_weights=rw, splitted_mappings=m, splitted_sizes=z, splitted_weights=w)
    return split

PD_SCHEMES = {"Constant", "ConstantZeroth", "AdaptiveBrightness", "ConstantSplit", "AdaptiveBrightnessSplit"}

def nb_ok(o, n):
    """in range and symmetric (python mirror of scheme_wf's neighbour part; used only to decide whether PD is demanded)"""
    E = []
    if len(o["nb"]) != len(o["sizes"]) or len(o["nb"]) != n: return False
    for i, (r, s) in enumerate(zip(o["nb"], o["sizes"])):
        if s > len(r): return False
        for k in r[:s]:
            if not (0 <= k < n): return False
            E.append((i, k))
    from collections import Counter
    c = Counter(E)
    return all(c[(a, b)] == c[(b, a)] for (a, b) in c)

def split_ok(o):
    P = len(o["smap"]) // 4
    if len(o["smap"]) != 4 * P or len(o["sw"]) != 4 * P or len(o["ssizes"]) != 4 * P: return False
    for r, s, w in zip(o["smap"], o["ssizes"], o["sw"]):
        if not (1 <= s < len(w)) or len(r) != len(w): return False
        if any(not (0 <= k < P) for k in r[:s]) or len(set(r[:s])) != s: return False
    return True

def pd_observed(out, name, wf):
    """Cholesky exists / symmetric to 1e-10: demanded only where the property demands it"""
    if out[0] != "ok" or not wf: return None
    H = np.array([[float(x) for x in r] for r in out[1]], dtype=float)
    if H.size == 0: return None
    if np.abs(H - H.T).max() > 1e-10 * max(1.0, np.abs(H).max()): return False
    if name in PD_SCHEMES and np.abs(H).max() <= 1e5:
        # (beyond 1e5 the 1e-8 ridge is below the resolution of a double next to the entries: definiteness is a theorem about the
        # real-number model, observable in floating point only as positive SEMI-definiteness)
        try: np.linalg.cholesky(H)
        except Exception: return False
    else:
        if np.linalg.eigvalsh(H).min() < -1e-9 * max(1.0, np.abs(H).max()): return False
    return True

def scheme_cases(aa, s, o, mapper, label):
    """the three public observations on one (scheme, linear object) + Coq cases"""
    reg = make_reg(aa, s)
    O = fo(o)
    out_m = call(lambda: reg.regularization_matrix_from(linear_obj=mapper))
    terms = [f"(KMatrix {cscheme(s)} {clobj(O)} {cres_m(out_m)})"]
    try:
        w = [frac(x) for x in np.asarray(reg.regularization_weights_from(linear_obj=mapper), dtype=float)]
        terms.append(f"(KWeights {cscheme(s)} {clobj(O)} {cqv(w)})")
    except Exception as e:
        w = "EXC " + type(e).__name__
    return reg, out_m, w, terms

def run_case(inp):
    aa = import_aa()
    op = inp["op"]
    if op == "mock": return run_mock(aa, inp)
    if op == "rect": return run_rect(aa, inp)
    if op == "delaunay": return run_delaunay(aa, inp)
    if op == "split": return run_split(aa, inp)
    if op == "inversion": return run_inversion(aa, inp)
    if op == "kernel": return run_kernel(aa, inp)
    if op == "rectnb": return run_rectnb(aa, inp)
    if op == "realinv": return run_realinv(aa, inp)
    if op == "kernelx": return run_kernelx(aa, inp)
    if op == "hist": return run_hist(aa, inp)
    if op == "reuse": return run_reuse(aa, inp)
    if op == "signals": return run_signals(aa, inp)
    if op == "kinds": return run_kinds(aa, inp)
    if op == "seq": return run_seq(aa, inp)
    if op == "kreuse": return run_kreuse(aa, inp)
    if op == "voronoi": return run_voronoi(aa, inp)
    raise ValueError(op)

def size_of(s, o):
    n = s["name"]
    if n in ("Constant", "ConstantZeroth"): return len(o["nb"])
    if n == "Zeroth": return o["params"]
    if n in ("AdaptiveBrightness", "BrightnessZeroth"): return len(o["signals"])
    return len(o["smap"]) // 4

def wf_of(s, o):
    n = s["name"]
    if n in ("Constant", "ConstantZeroth"): return nb_ok(o, len(o["nb"]))
    if n == "AdaptiveBrightness": return nb_ok(o, len(o["signals"]))
    if n in ("Zeroth", "BrightnessZeroth"): return True
    return split_ok(o) and (n == "ConstantSplit" or len(o["signals"]) == len(o["smap"]) // 4)

def summary(out):
    if out[0] != "ok": return str(out)
    return [[str(x) if x.denominator < 10 ** 6 else float(x) for x in r] for r in out[1]][:12]

def run_mock(aa, inp):
    s, o = inp["scheme"], inp["obj"]
    mapper = mock_mapper(aa, o)
    reg, out_m, w, terms = scheme_cases(aa, s, o, mapper, "mock")
    # the util function, and LinearObj.regularization_matrix with the scheme attached
    # (an observation identical to the first one has the same verdict: only a differing one is sent to Coq as well)
    touched = []
    out_u = call(util_call(aa, s, o, intact=touched))
    if out_u != out_m: terms.append(f"(KMatrix {cscheme(s)} {clobj(fo(o))} {cres_m(out_u)})")
    out_l = call(lambda: mock_mapper(aa, o, reg=reg).regularization_matrix)
    if out_l != out_m: terms.append(f"(KMatrix {cscheme(s)} {clobj(fo(o))} {cres_m(out_l)})")
    wf = wf_of(s, o)
    ok = pd_observed(out_m, s["name"], wf)
    if touched: ok = False          # (d) a util function modified an array of its caller
    edges = sum(o["sizes"]) // 2
    return {"coq": terms[0], "extra_coq": terms[1:], "out": {"matrix": summary(out_m), "weights": [str(x) for x in w] if isinstance(w, list) else w},
            "py_ok": ok, "kind": "mock:" + s["name"] + (":" + inp["malformed"] if inp.get("malformed") else ""),
            "nontrivial": o["params"] >= 3 and edges >= 2, "detail": {"util_modified_its_arguments": touched} if touched else {}}

def obj_from_mapper(mapper, s, signal_scale, with_split):
    nb = np.asarray(mapper.source_plane_mesh_grid.neighbors)
    sizes = np.asarray(mapper.source_plane_mesh_grid.neighbors.sizes)
    need_sig = s["name"] in ("AdaptiveBrightness", "BrightnessZeroth", "AdaptiveBrightnessSplit")
    sig = [frac(x) for x in np.asarray(mapper.pixel_signals_from(signal_scale=float(signal_scale)), dtype=float)] if need_sig else []
    o = {"params": int(mapper.params), "nb": [[int(x) for x in r] for r in nb], "sizes": [int(x) for x in sizes],
         "signals": [str(x) for x in sig], "smap": [], "ssizes": [], "sw": []}
    if with_split:
        sc = mapper.pix_sub_weights_split_cross
        o["smap"] = [[int(x) for x in r] for r in sc.mappings]; o["ssizes"] = [int(x) for x in sc.sizes]
        o["sw"] = [[str(frac(x)) for x in r] for r in sc.weights]
    return o

def vec_out(f):
    try: return ("ok", [frac(x) for x in np.asarray(f(), dtype=float).reshape(-1)])
    except Exception as e: return ("raise", exn_name(e))

def signals_term(pixels, pw, idx, sizes, wts, slim, adapt, out):
    rows = clist([ctup([czl([int(v) for v in r]), cnat(int(k)), cqv([frac(x) for x in w]), cnat(int(sl))]) for r, k, w, sl in zip(idx, sizes, wts, slim)])
    return f"(KSignals {cnat(pixels)} {cnat(pw)} {rows} {cqv([frac(x) for x in adapt])} {cres(out, cqv)})"

def mapper_signals_case(mapper, signal_scale):
    """mapper.pixel_signals_from against the model of adaptive_pixel_signals_from, fed with the mapper's own mapping arrays"""
    out = vec_out(lambda: mapper.pixel_signals_from(signal_scale=float(signal_scale)))
    return signals_term(int(mapper.pixels), int(signal_scale), np.asarray(mapper.pix_indexes_for_sub_slim_index), np.asarray(mapper.pix_sizes_for_sub_slim_index),
                        np.asarray(mapper.pix_weights_for_sub_slim_index, dtype=float), np.asarray(mapper.over_sampler.slim_for_sub_slim),
                        np.array(mapper.adapt_data, dtype=float), out), out

def fingerprint(mapper):
    """bytes of everything a scheme reads from a mapper"""
    mg = mapper.source_plane_mesh_grid
    parts = [np.asarray(mg.neighbors), np.asarray(mg.neighbors.sizes), np.asarray(mg), np.asarray(mapper.adapt_data) if mapper.adapt_data is not None else np.zeros(0),
             np.asarray(mapper.pix_indexes_for_sub_slim_index), np.asarray(mapper.pix_sizes_for_sub_slim_index), np.asarray(mapper.pix_weights_for_sub_slim_index)]
    return [np.ascontiguousarray(a).tobytes() for a in parts]

SIGNAL_SCHEMES = ("AdaptiveBrightness", "BrightnessZeroth", "AdaptiveBrightnessSplit")
def real_common(aa, inp, mapper, s, kind, with_split, fresh=None):
    s = dict(s, signal_scale=inp["signal_scale"])
    o = obj_from_mapper(mapper, s, inp["signal_scale"], with_split)
    reg, out_m, w, terms = scheme_cases(aa, s, o, mapper, kind)
    wf = wf_of(s, o)
    ok = pd_observed(out_m, s["name"], True)
    if not wf: ok = False        # a real mesh must hand symmetric in-range neighbours / distinct cross vertices to the schemes
    detail = {"wf": wf}
    # (a) the same scheme object on the same mapper a second time, then LinearObj.regularization_matrix (twice) on that mapper
    out_2 = call(lambda: reg.regularization_matrix_from(linear_obj=mapper))
    if out_2 != out_m: terms.append(f"(KMatrix {cscheme(s)} {clobj(fo(o))} {cres_m(out_2)})"); ok = False; detail["second_call"] = "differs from the first"
    mapper.regularization = reg
    for rep in range(2):
        out_l = call(lambda: mapper.regularization_matrix)
        if out_l != out_m: terms.append(f"(KMatrix {cscheme(s)} {clobj(fo(o))} {cres_m(out_l)})")
    # the signals the scheme used: pixel_signals_from against the model of adaptive_pixel_signals_from
    if s["name"] in SIGNAL_SCHEMES:
        t, so = mapper_signals_case(mapper, inp["signal_scale"])
        terms.append(t)
        if so[0] != "ok" or [str(x) for x in so[1]] != o["signals"]: ok = False; detail["signals"] = "pixel_signals_from changed between two calls"
    # (f) a user SUBCLASS of the scheme class, coefficients / signal_scale given as Python ints where they are integral
    variants = [("subclass", dict(sub=True))]
    if all(Fraction(x).denominator == 1 for x in s["par"]): variants.append(("int coefficients", dict(ckind="pyint", ss_int=True)))
    variants.append(("numpy.float64 coefficients", dict(ckind="npf64")))
    for label, kw in variants:
        out_v = call(lambda: make_reg(aa, s, **kw).regularization_matrix_from(linear_obj=mapper))
        if out_v != out_m:
            terms.append(f"(KMatrix {cscheme(s)} {clobj(fo(o))} {cres_m(out_v)})"); ok = False; detail[label] = "differs from the plain scheme object's matrix"
    # (a) the same mapper asked for ANOTHER signal scale (state remembered from the previous call), then the scheme object's
    #     signal_scale edited in place: both must equal what a fresh mapper gives a fresh scheme object
    if s["name"] in SIGNAL_SCHEMES and fresh is not None:
        s_o = dict(s, signal_scale=3 - int(inp["signal_scale"]) if int(inp["signal_scale"]) in (1, 2) else 1)
        f_m = fresh()
        want = call(lambda: make_reg(aa, s_o).regularization_matrix_from(linear_obj=f_m))
        got = call(lambda: make_reg(aa, s_o).regularization_matrix_from(linear_obj=mapper))
        reg.signal_scale = float(s_o["signal_scale"])
        got2 = call(lambda: reg.regularization_matrix_from(linear_obj=mapper))
        reg.signal_scale = float(s["signal_scale"])
        for label, g in (("other_signal_scale", got), ("signal_scale_edited", got2)):
            if g != want:
                ok = False; detail[label] = "differs from a fresh mapper / scheme object with that signal scale"
                o_o = obj_from_mapper(f_m, s_o, s_o["signal_scale"], with_split)
                terms.append(f"(KMatrix {cscheme(s_o)} {clobj(fo(o_o))} {cres_m(g)})")
    # (d) nothing the schemes read was modified: compare with an identically built, untouched mapper
    if fresh is not None:
        if fingerprint(mapper) != fingerprint(fresh()): ok = False; detail["inputs"] = "the mapper's arrays were modified by the calls"
    return {"coq": terms[0], "extra_coq": terms[1:], "out": {"matrix": summary(out_m), "neighbors": o["nb"] if len(o["nb"]) <= 12 else o["nb"][:6], "sizes": o["sizes"]},
            "py_ok": ok, "kind": kind + ":" + s["name"], "nontrivial": True, "detail": detail}

ADAPT_KINDS = {"ties": lambda rng: 4.0, "zeros": lambda rng: float(rng.choice([0, 0, 3, 8])), "tiny": lambda rng: rng.randint(1, 16) * 2.0 ** -40,
               "huge": lambda rng: rng.randint(1, 16) * 2.0 ** 40, "derived": lambda rng: float(rng.randint(1, 16))}
def default_objects(aa):
    """the shared DEFAULT-ARGUMENT objects (SettingsInversion(), Preloads(), OverSamplingDataset() ...) of the callables on the routes
    to the regularization matrices: (label, object)"""
    import inspect
    from autoarray.inversion.inversion import factory
    from autoarray.inversion.inversion.abstract import AbstractInversion
    fs = [("Inversion", aa.Inversion), ("inversion_imaging_from", factory.inversion_imaging_from), ("inversion_interferometer_from", factory.inversion_interferometer_from),
          ("AbstractInversion", AbstractInversion.__init__), ("InversionImagingMapping", aa.InversionImagingMapping.__init__),
          ("InversionImagingWTilde", aa.InversionImagingWTilde.__init__), ("InversionInterferometerMapping", aa.InversionInterferometerMapping.__init__),
          ("InversionInterferometerWTilde", aa.InversionInterferometerWTilde.__init__), ("MockInversion", aa.m.MockInversion.__init__),
          ("mesh.Rectangular.mapper_grids_from", aa.mesh.Rectangular.mapper_grids_from), ("mesh.Delaunay.mapper_grids_from", aa.mesh.Delaunay.mapper_grids_from),
          ("Imaging", aa.Imaging.__init__), ("Interferometer", aa.Interferometer.__init__)]
    out = []
    for label, f in fs:
        try: ps = inspect.signature(f).parameters
        except Exception: continue
        for k, v in ps.items():
            d = v.default
            if d is not inspect.Parameter.empty and hasattr(d, "__dict__") and not isinstance(d, type) and not callable(d):
                out.append((label + "." + k, d))
    return out

def fp_value(v, depth=0):
    if isinstance(v, np.ndarray): return ("nd", str(v.dtype), v.shape, np.ascontiguousarray(v).tobytes())
    if isinstance(v, (list, tuple)): return (type(v).__name__, [fp_value(x, depth + 1) for x in v]) if depth < 3 else (type(v).__name__, len(v))
    if isinstance(v, dict): return ("dict", sorted((str(k), fp_value(x, depth + 1)) for k, x in v.items())) if depth < 3 else ("dict", len(v))
    if v is None or isinstance(v, (bool, int, float, str, complex)): return repr(v)
    if hasattr(v, "__dict__") and depth < 2: return (type(v).__name__, sorted((k, fp_value(x, depth + 1)) for k, x in vars(v).items()))
    return type(v).__name__

def fp_objects(objs):
    return [(label, fp_value(vars(o))) for label, o in objs]

def run_rect(aa, inp):
    import random
    dh, dw = inp["data_shape"]
    ps = tuple(inp["pixel_scales"]) if inp.get("pixel_scales") else 1.0
    org = tuple(inp.get("origin") or (0.0, 0.0))
    sub = bool(inp.get("sub"))
    classes = {}
    def mk():
        rng = random.Random(inp["seed"])
        mask = aa.Mask2D.all_false(shape_native=(dh, dw), pixel_scales=ps, origin=org)
        grid = aa.Grid2D.from_mask(mask=mask)
        gen = ADAPT_KINDS.get(inp.get("adapt"), lambda r: float(r.randint(1, 16)))
        vals = np.array([gen(rng) for _ in range(dh * dw)])
        if inp.get("adapt") == "zeros": vals[rng.randrange(len(vals))] = 5.0      # a positive maximum
        if inp.get("adapt_dtype"): vals = vals.astype(inp["adapt_dtype"])          # (f) integer- / float32-typed adapt image (integral values)
        adapt = aa.Array2D(values=vals, mask=mask)
        if inp.get("adapt") == "derived":
            # (b) a DERIVED adapt image: arithmetic on an array whose native form was read before
            adapt.native
            adapt = (adapt * 2.0 + 1.0)
        if inp.get("via") == "meshclass":
            # (g) the public route: mesh class -> mapper_grids_from (shared default Preloads object) -> Mapper factory
            mc = subcls(aa.mesh.Rectangular) if sub else aa.mesh.Rectangular
            mg = mc(shape=tuple(inp["shape"])).mapper_grids_from(mask=mask, source_plane_data_grid=grid, adapt_data=adapt)
        else:
            mesh = aa.Mesh2DRectangular.overlay_grid(shape_native=tuple(inp["shape"]), grid=grid)
            if sub:
                # (f) a subclass instance of the mesh structure: the Mapper factory must still build a MapperRectangular
                mesh = subcls(aa.Mesh2DRectangular)(values=np.array(mesh), shape_native=mesh.shape_native, pixel_scales=mesh.pixel_scales, origin=mesh.origin)
            mg = aa.MapperGrids(mask=mask, source_plane_data_grid=grid, source_plane_mesh_grid=mesh, adapt_data=adapt)
        mp = aa.Mapper(mapper_grids=mg, over_sampler=aa.OverSamplerUniform(mask=mask, sub_size=1), border_relocator=None, regularization=None)
        classes["mapper"] = type(mp).__name__
        if sub and isinstance(mp, aa.MapperRectangular):
            mp = subcls(aa.MapperRectangular)(mapper_grids=mg, over_sampler=aa.OverSamplerUniform(mask=mask, sub_size=1), border_relocator=None, regularization=None)
        return mp
    defs = default_objects(aa); fp0 = fp_objects(defs)
    mapper = mk()
    if not isinstance(mapper, aa.MapperRectangular):
        return {"coq": None, "out": {"classes": classes}, "py_ok": False, "kind": "rect:factory", "nontrivial": True,
                "detail": "the Mapper factory did not return a MapperRectangular for a (subclass of a) rectangular mesh"}
    kind = "rect" + (":" + inp["adapt"] if inp.get("adapt") else "") + (":" + inp["adapt_dtype"] if inp.get("adapt_dtype") else "") + \
           (":meshclass" if inp.get("via") else "") + (":sub" if sub else "")
    r = real_common(aa, inp, mapper, inp["scheme"], kind, False, fresh=mk)
    if fp_objects(defs) != fp0:
        r["py_ok"] = False; r.setdefault("detail", {})["defaults"] = "a shared default-argument object was modified"
    if inp.get("via") or sub or inp.get("adapt_dtype"):
        # the plain route (overlay_grid, float64 adapt image, library classes) must give the very same matrix
        plain = dict(inp); [plain.pop(k, None) for k in ("via", "sub", "adapt_dtype")]
        want = run_rect(aa, plain)
        if want["out"]["matrix"] != r["out"]["matrix"]:
            r["py_ok"] = False; r.setdefault("detail", {})["route"] = "differs from the plain route's matrix"
    return r

def mesh_points(inp, rng):
    """vertex sets of the Delaunay streams.  lattice: 5-9 quarter-lattice points (degrees 2-6);
    ring / ringj: one vertex inside a ring of inp["ring"] points (exact / radially jittered): the centre has degree = ring size;
    clump: a lone vertex facing a dense arc of inp["ring"] points (plus three outliers): degree >= ring size"""
    import math
    kind = inp.get("mesh", "lattice")
    if kind == "lattice":
        pts = set()
        while len(pts) < inp["npts"]: pts.add((rng.randint(-8, 8) / 4.0, rng.randint(-8, 8) / 4.0))
        pts = sorted(pts); rng.shuffle(pts)
        return pts
    N = inp["ring"]; ph = rng.random()
    if kind in ("ring", "ringj"):
        R = 2.25; cy, cx = rng.choice([(0.0, 0.0), (0.125, -0.25), (-0.25, 0.125)])
        pts = [(cy, cx)]
        for i in range(N):
            r = R * (1.0 + (rng.uniform(-0.004, 0.004) if kind == "ringj" else 0.0))
            pts.append((cy + r * math.sin(2 * math.pi * (i + ph) / N), cx + r * math.cos(2 * math.pi * (i + ph) / N)))
    else:
        vy, vx = 0.125, -1.5
        R = 3.0
        pts = [(vy, vx), (vy, vx - 3.0), (vy + 4.5, vx + 3.0), (vy - 4.5, vx + 3.0)]
        for i in range(N):
            t = math.radians(-60.0 + 120.0 * (i + 0.5 * ph) / (N - 1 + 0.5))
            pts.append((vy + R * math.sin(t), vx + R * math.cos(t)))
    rng.shuffle(pts)
    return pts

def delnb_case(mesh, coq=True):
    """Mesh2DDelaunay.neighbors against the triangulation it comes from: (Coq term | None, python verdict, max degree).
    Python side: the table lists every directed edge of delaunay.simplices exactly once, nothing else (hence symmetric)."""
    d = mesh.delaunay
    indptr, indices = d.vertex_neighbor_vertices
    simplices = [[int(v) for v in t] for t in d.simplices]
    n = int(len(d.points))
    nb = mesh.neighbors
    arr = np.asarray(nb); sizes = np.asarray(nb.sizes)
    E = {(a, b) for t in simplices for a in t for b in t if a != b}
    ok = arr.ndim == 2 and arr.shape[0] == n and sizes.shape == (n,)
    T = []
    if ok:
        for i in range(n):
            k = int(sizes[i])
            if k < 0 or k > arr.shape[1]: ok = False; break
            T += [(i, int(v)) for v in arr[i][:k]]
            if any(int(v) != -1 for v in arr[i][k:]): ok = False       # padding is -1
    ok = bool(ok and len(T) == len(set(T)) and set(T) == E)
    deg = {}
    for a, b in E: deg[a] = deg.get(a, 0) + 1
    term = None
    if coq:
        term = "(KDelNb %s %s %s %s %s %s)" % (cnat(n), clist([cnl(t) for t in simplices]), cnl(indptr), cnl(indices),
                                              czm([[int(v) for v in r] for r in arr]) if arr.ndim == 2 else "[]", cnl([max(int(v), 0) for v in sizes]))
    return term, ok, max(deg.values()) if deg else 0

def run_delaunay(aa, inp):
    import random
    pts = mesh_points(inp, random.Random(inp["seed"]))
    def mk():
        rng = random.Random(inp["seed"] + 1)
        mask = aa.Mask2D.all_false(shape_native=(4, 4), pixel_scales=1.0)
        grid = aa.Grid2D.from_mask(mask=mask)
        adapt = aa.Array2D(values=np.array([float(rng.randint(1, 16)) for _ in range(16)]), mask=mask)
        vk = inp.get("values", "irregular")
        # (f) the KIND of vertex container: Grid2DIrregular (usual), its subclass Grid2DIrregularUniform, a plain ndarray, a list of tuples
        vals = {"irregular": lambda: aa.Grid2DIrregular(pts), "ndarray": lambda: np.array(pts, dtype=float), "list": lambda: [tuple(p) for p in pts],
                "uniform": lambda: aa.Grid2DIrregularUniform(values=pts, shape_native=(1, len(pts)), pixel_scales=1.0)}[vk]()
        MC = subcls(aa.Mesh2DDelaunay) if inp.get("sub") else aa.Mesh2DDelaunay
        dm = MC(values=vals)
        if inp.get("derived"):
            # (b) a DERIVED mesh: arithmetic on a mesh whose triangulation and neighbours were read before
            dm0 = aa.Mesh2DDelaunay(values=aa.Grid2DIrregular([(y * 0.5 - 1.0, x * 0.5 + 2.0) for (y, x) in pts]))
            dm0.delaunay; dm0.neighbors
            dm = (dm0 - np.array([-1.0, 2.0])) * 2.0
        dm.delaunay
        if inp.get("via") == "meshclass":
            # (g) the public route: mesh class -> mapper_grids_from (shared default Preloads object) -> Mapper factory
            mc = subcls(aa.mesh.Delaunay) if inp.get("sub") else aa.mesh.Delaunay
            mg = mc().mapper_grids_from(mask=mask, source_plane_data_grid=grid, source_plane_mesh_grid=aa.Grid2DIrregular(pts), adapt_data=adapt)
        else:
            mg = aa.MapperGrids(mask=mask, source_plane_data_grid=grid, source_plane_mesh_grid=dm, adapt_data=adapt)
        mp = aa.Mapper(mapper_grids=mg, over_sampler=aa.OverSamplerUniform(mask=mask, sub_size=1), border_relocator=None, regularization=None)
        if inp.get("sub") and isinstance(mp, aa.MapperDelaunay):
            mp = subcls(aa.MapperDelaunay)(mapper_grids=mg, over_sampler=aa.OverSamplerUniform(mask=mask, sub_size=1), border_relocator=None, regularization=None)
        return mp
    try: aa.Mesh2DDelaunay(values=aa.Grid2DIrregular(pts)).delaunay
    except Exception as e:
        return {"coq": None, "out": "degenerate point set: " + type(e).__name__, "py_ok": None, "kind": "delaunay:skipped", "nontrivial": False}
    defs = default_objects(aa); fp0 = fp_objects(defs)
    mapper = mk()
    if not isinstance(mapper, aa.MapperDelaunay):
        return {"coq": None, "out": type(mapper).__name__, "py_ok": False, "kind": "delaunay:factory", "nontrivial": True,
                "detail": "the Mapper factory did not return a MapperDelaunay for a (subclass of a) Delaunay mesh"}
    dm = mapper.source_plane_mesh_grid
    variant = "".join(":" + str(inp[k]) if k == "values" else ":" + k for k in ("values", "via", "sub") if inp.get(k))
    r = real_common(aa, inp, mapper, inp["scheme"], "delaunay" + (":" + inp["mesh"] if inp.get("mesh") else "") + (":derived" if inp.get("derived") else "") + variant, True, fresh=mk)
    if fp_objects(defs) != fp0:
        r["py_ok"] = False; r.setdefault("detail", {})["defaults"] = "a shared default-argument object was modified"
    if variant:
        plain = dict(inp); [plain.pop(k, None) for k in ("values", "via", "sub")]
        want = run_delaunay(aa, plain)
        if want["out"].get("matrix") != r["out"].get("matrix"):
            r["py_ok"] = False; r.setdefault("detail", {})["route"] = "differs from the plain route's matrix"
    r["out"]["points"] = pts
    # the neighbour table itself: the edges of the triangulation, every real mesh
    t, ok, deg = delnb_case(dm)
    r["extra_coq"] = list(r.get("extra_coq") or []) + [t]
    if not ok: r["py_ok"] = False; r.setdefault("detail", {})["neighbors"] = "not the edge set of delaunay.simplices"
    if inp.get("derived") and not same(np.asarray(dm), np.array(pts, dtype=float)): r["py_ok"] = None; r["kind"] += ":inexact"
    # the split-cross table has the shape the model [split_table] gives it: 4 rows per vertex, 3 mapping columns + a column of -1 / 0.0
    sc = mapper.pix_sub_weights_split_cross
    scm, scs, scw = np.asarray(sc.mappings), np.asarray(sc.sizes), np.asarray(sc.weights)
    if not (scm.shape == (4 * len(pts), 4) and scw.shape == scm.shape and scs.shape == (4 * len(pts),) and bool(np.all(scm[:, 3] == -1))
            and bool(np.all(scw[:, 3] == 0.0)) and bool(np.all((scs == 1) | (scs == 3)))):
        r["py_ok"] = False; r.setdefault("detail", {})["split_table"] = "not 4 rows per vertex of 3 mappings + (-1, 0.0)"
    r["out"]["max_degree"] = deg
    if inp.get("mesh"): r["nontrivial"] = deg > 20
    return r

def run_split(aa, inp):
    o = {"params": inp["params"], "nb": [], "sizes": [], "signals": [], "smap": inp["smap"], "ssizes": inp["ssizes"], "sw": inp["sw"]}
    m, z, w = split_arrays(o)
    try:
        m2, z2, w2 = aa.util.regularization.reg_split_from(splitted_mappings=m, splitted_sizes=z, splitted_weights=w)
        out = ("ok", ([[int(x) for x in r] for r in m2], [int(x) for x in z2], [[frac(x) for x in r] for r in w2]))
    except Exception as e:
        out = ("raise", exn_name(e))
    term = f"(KSplit {clobj(fo(o))} " + cres(out, lambda v: ctup([czm(v[0]), cnl(v[1]), cqm(v[2])])) + ")"
    return {"coq": term, "out": str(out)[:400], "py_ok": None, "kind": "split:" + out[0], "nontrivial": inp["params"] >= 2}

def run_inversion(aa, inp):
    terms_objs = []
    for d in inp["objs"]:
        if d["scheme"] is None: terms_objs.append("(None, " + clobj(fo(d["obj"])) + ")")
        else: terms_objs.append("(Some " + cscheme(d["scheme"]) + ", " + clobj(fo(d["obj"])) + ")")
    def build():
        # fresh objects for every observation: reg_split_from works in place on the arrays a MockMapper stores
        # (a real mapper recomputes pix_sub_weights_split_cross on every access)
        objs = []
        for d in inp["objs"]:
            if d["scheme"] is None: objs.append(aa.m.MockLinearObj(parameters=d["obj"]["params"], regularization=None))
            else: objs.append(mock_mapper(aa, dict(d["obj"], params=size_of(d["scheme"], d["obj"])), reg=make_reg(aa, d["scheme"])))
        return objs
    H = mat_out(aa.m.MockInversion(linear_obj_list=build()).regularization_matrix)
    Hr = mat_out(aa.m.MockInversion(linear_obj_list=build()).regularization_matrix_reduced)
    blocks = [mat_out(lo.regularization_matrix) for lo in build()]
    term = f"(KInversion {clist(terms_objs)} {clist([cqm(b) for b in blocks])} {cqm(H)} {cqm(Hr)})"
    # relation only Python sees: the weights reported per object (zeros for an object without regularization)
    ok = True
    objs = build()
    inv = aa.m.MockInversion(linear_obj_list=objs)
    for i, (d, lo) in enumerate(zip(inp["objs"], objs)):
        w = np.asarray(inv.regularization_weights_from(index=i), dtype=float)
        if d["scheme"] is None: ok = ok and w.shape == (d["obj"]["params"],) and bool(np.all(w == 0.0))
        else: ok = ok and bool(np.all(w == np.asarray(lo.regularization.regularization_weights_from(linear_obj=lo), dtype=float)))
    return {"coq": term, "out": {"shape": [len(H), len(Hr)], "order": [d["scheme"]["name"] if d["scheme"] else None for d in inp["objs"]]},
            "py_ok": ok, "kind": "inversion:%d" % len(objs), "nontrivial": len(objs) >= 2}

def run_kernel(aa, inp):
    """GaussianKernel / ExponentialKernel: (a) covariance assembly vs the model (profile values handed over as a table keyed by the
    exact squared distance), (b) the returned matrix against the contract of the inverse, (c) SPD observed (Cholesky)."""
    import random, math
    rng = random.Random(inp["seed"])
    pts = set()
    while len(pts) < inp["npts"]: pts.add((rng.randint(-6, 6) / 2.0, rng.randint(-6, 6) / 2.0))
    pts = sorted(pts); rng.shuffle(pts)
    scale = float(Fraction(inp["scale"])); coef = float(Fraction(inp["coef"]))
    if inp["gauss"]:
        from autoarray.inversion.regularization.gaussian_kernel import gauss_cov_matrix_from as cov_from
        reg = aa.reg.GaussianKernel(coefficient=coef, scale=scale)
        prof = lambda d2: float(np.exp(-1.0 * np.sqrt(d2) ** 2 / (2 * scale ** 2)))
    else:
        from autoarray.inversion.regularization.exponential_kernel import exp_cov_matrix_from as cov_from
        reg = aa.reg.ExponentialKernel(coefficient=coef, scale=scale)
        prof = lambda d2: float(np.exp(-1.0 * np.sqrt(d2) / scale))
    arr = np.array(pts, dtype=float)
    if inp["real"]:
        try:
            dm = aa.Mesh2DDelaunay(values=aa.Grid2DIrregular(pts)); dm.delaunay
        except Exception as e:
            return {"coq": None, "out": "degenerate point set: " + type(e).__name__, "py_ok": None, "kind": "kernel:skipped", "nontrivial": False}
        mask = aa.Mask2D.all_false(shape_native=(3, 3), pixel_scales=1.0)
        grid = aa.Grid2D.from_mask(mask=mask)
        mg = aa.MapperGrids(mask=mask, source_plane_data_grid=grid, source_plane_mesh_grid=dm)
        mapper = aa.Mapper(mapper_grids=mg, over_sampler=aa.OverSamplerUniform(mask=mask, sub_size=1), border_relocator=None, regularization=None)
    else:
        mapper = aa.m.MockMapper(source_plane_mesh_grid=arr, parameters=len(pts))
    C = np.asarray(cov_from(scale=scale, pixel_points=arr), dtype=float)
    H = np.asarray(reg.regularization_matrix_from(linear_obj=mapper), dtype=float)
    w = np.asarray(reg.regularization_weights_from(linear_obj=mapper), dtype=float)
    tbl = {}
    for (y1, x1) in pts:
        for (y2, x2) in pts:
            d2 = (Fraction(x1) - Fraction(x2)) ** 2 + (Fraction(y1) - Fraction(y2)) ** 2
            tbl[d2] = frac(prof(np.float64(float(d2))))
    cpts = clist([ctup([cq(frac(y)), cq(frac(x))]) for (y, x) in pts])
    ctbl = clist([ctup([cq(k), cq(v)]) for k, v in sorted(tbl.items())])
    t1 = f"(KCov {cpts} {ctbl} {cqm(mat_out(C))})"
    t2 = f"(KKernel {cq(Fraction(inp['coef']))} {cqm(mat_out(C))} {cqm(mat_out(H))})"
    ok = bool(np.abs(H - H.T).max() <= 1e-9 * max(1.0, np.abs(H).max())) and w.shape == (len(pts),) and bool(np.all(w == coef))
    try: np.linalg.cholesky(H); np.linalg.cholesky(C)
    except Exception: ok = False
    return {"coq": t1, "extra_coq": [t2], "out": {"points": pts, "cond": float(np.linalg.cond(C)), "min_eig": float(np.linalg.eigvalsh((H + H.T) / 2).min())},
            "py_ok": ok, "kind": "kernel:" + ("gauss" if inp["gauss"] else "exp"), "nontrivial": len(pts) >= 3}

def run_rectnb(aa, inp):
    h, w = inp["shape"]
    def table(hh, ww):
        nb, sz = aa.util.mesh.rectangular_neighbors_from(shape_native=(hh, ww))
        return [[int(x) for x in r[:int(k)]] for r, k in zip(nb, sz)]
    def table_cls(hh, ww):
        mesh = aa.Mesh2DRectangular.overlay_grid(shape_native=(hh, ww), grid=np.array([[0.0, 0.0], [1.0, 1.0]]))
        return [[int(x) for x in r[:int(k)]] for r, k in zip(np.asarray(mesh.neighbors), np.asarray(mesh.neighbors.sizes))], int(mesh.pixels)
    rows = table(h, w)
    ok = None
    extra, detail = [], {}
    if h >= 3 and w >= 3:
        # the class layer (astype("int"), Neighbors) must hand over the same table
        rows2, px = table_cls(h, w)
        ok = rows2 == rows and px == h * w
    # (a) the same functions asked for OTHER shapes in between (the transposed shape; shapes with the same pixel count, the same
    #     first / second dimension), then for this shape again
    others = [(w, h)] if h != w else []
    n = h * w
    others += [(a, n // a) for a in range(1, n + 1) if n % a == 0 and (a, n // a) not in ((h, w), (w, h))][:1]
    others += [(h, w + 1), (h + 1, w)]
    for (a, b) in others:
        t = table(a, b)
        if (a, b) == (w, h):
            extra.append(f"(KRect {cnat(a)} {cnat(b)} {czm(t)})")
            if rect_table_py(a, b) is not None and [sorted(r) for r in t] != rect_table_py(a, b): ok = False; detail["transposed"] = "not the 4-neighbourhood of the transposed shape"
        elif rect_table_py(a, b) is None or [sorted(r) for r in t] != rect_table_py(a, b): extra.append(f"(KRect {cnat(a)} {cnat(b)} {czm(t)})"); detail["other"] = [a, b]
        if a >= 3 and b >= 3 and table_cls(a, b)[0] != t: ok = False; detail["class_other"] = [a, b]
    # (f) the shape given as a list / an integer ndarray / numpy integers
    for label, sn in (("list", [h, w]), ("ndarray", np.array([h, w])), ("numpy ints", (np.int64(h), np.int32(w)))):
        nbk, szk = aa.util.mesh.rectangular_neighbors_from(shape_native=sn)
        if [[int(x) for x in r[:int(k)]] for r, k in zip(nbk, szk)] != rows:
            ok = False; detail["shape as " + label] = "differs"; extra.append(f"(KRect {cnat(h)} {cnat(w)} {czm([[int(x) for x in r[:int(k)]] for r, k in zip(nbk, szk)])})")
    again = table(h, w)
    if again != rows: ok = False; detail["again"] = "the second call for this shape differs from the first"; extra.append(f"(KRect {cnat(h)} {cnat(w)} {czm(again)})")
    if h >= 3 and w >= 3 and table_cls(h, w)[0] != rows: ok = False; detail["class_again"] = "Mesh2DRectangular.neighbors differs after other shapes were asked for"
    return {"coq": f"(KRect {cnat(h)} {cnat(w)} {czm(rows)})", "extra_coq": extra, "out": rows if h * w <= 12 else rows[:6], "py_ok": ok,
            "kind": "rectnb" + (":degenerate" if min(h, w) < 2 else ""), "nontrivial": min(h, w) >= 2, "detail": detail}

def rect_table_py(h, w):
    """the grid's 4-neighbourhood in the order the routine lists it (up, left, right, down); used only to decide whether an
    in-between observation needs to be sent to Coq as well (the verdict is Coq's)"""
    if h < 2 or w < 2: return None          # degenerate shapes: always sent to Coq
    out = []
    for r in range(h):
        for c in range(w):
            row = []
            if r > 0: row.append((r - 1) * w + c)
            if c > 0: row.append(r * w + c - 1)
            if c < w - 1: row.append(r * w + c + 1)
            if r < h - 1: row.append((r + 1) * w + c)
            out.append(sorted(row))
    return out

# ------------------------------------------------------------------ real inversions
_HFUNC = {}
def hfunc_cls(aa):
    """a function-list linear object that is neither a mapper nor one of the repo's mocks"""
    if "c" not in _HFUNC:
        class HarnessFuncList(aa.AbstractLinearObjFuncList):
            def __init__(self, n, grid, regularization):
                super().__init__(grid=grid, regularization=regularization)
                self._n = n
            @property
            def params(self): return self._n
            @property
            def mapping_matrix(self): return getattr(self, "_cols", None) if getattr(self, "_cols", None) is not None else np.ones((self.grid.shape[0], self._n))
        _HFUNC["c"] = HarnessFuncList
    return _HFUNC["c"]

def make_any_reg(aa, s, sub=False):
    if s is None: return None
    if s["name"] in KERNELS:
        c, sc = [float(Fraction(x)) for x in s["par"]]
        K = aa.reg.GaussianKernel if s["name"] == "GaussianKernel" else aa.reg.ExponentialKernel
        return (subcls(K) if sub else K)(coefficient=c, scale=sc)
    return make_reg(aa, s, sub=sub)

def real_dataset(aa, inp):
    import random
    rng = random.Random(inp["seed"])
    m = np.array([[c == "1" for c in r] for r in inp["mask"]])
    mask = aa.Mask2D(mask=m, pixel_scales=1.0)
    sh = m.shape
    data = aa.Array2D.no_mask(values=np.array([[float(rng.randint(1, 16)) for _ in range(sh[1])] for _ in range(sh[0])]), pixel_scales=1.0)
    noise = aa.Array2D.no_mask(values=np.full(sh, 2.0), pixel_scales=1.0)
    psf = aa.Kernel2D.no_mask(values=np.array([[0.0, 0.0, 0.0], [0.0, 1.0, 0.0], [0.0, 0.0, 0.0]]), pixel_scales=1.0)
    ds = aa.Imaging(data=data, noise_map=noise, psf=psf).apply_mask(mask=mask)
    return ds, mask, rng

def build_real_obj(aa, d, mask, grid, adapt):
    """returns the linear object (scheme attached) or None when the generated point set is degenerate"""
    reg = make_any_reg(aa, dict(d["scheme"], signal_scale=d["signal_scale"]) if d["scheme"] else None)
    k = d["kind"]
    if k == "func": return aa.m.MockLinearObjFuncList(parameters=d["params"], grid=grid, mapping_matrix=np.ones((grid.shape[0], d["params"])), regularization=reg)
    if k == "funcsub": return hfunc_cls(aa)(d["params"], grid, reg)
    if k == "lin": return aa.m.MockLinearObj(parameters=d["params"], grid=grid, mapping_matrix=np.ones((grid.shape[0], d["params"])), regularization=reg)
    if k == "rect":
        mesh = aa.Mesh2DRectangular.overlay_grid(shape_native=tuple(d["shape"]), grid=grid)
    else:
        import random
        r2 = random.Random(d["seed"])
        pts = set()
        while len(pts) < d["npts"]: pts.add((r2.randint(-8, 8) / 4.0, r2.randint(-8, 8) / 4.0))
        pts = sorted(pts); r2.shuffle(pts)
        try:
            mesh = aa.Mesh2DDelaunay(values=aa.Grid2DIrregular(pts)); mesh.delaunay
        except Exception:
            return None
    mg = aa.MapperGrids(mask=mask, source_plane_data_grid=grid, source_plane_mesh_grid=mesh, adapt_data=adapt)
    return aa.Mapper(mapper_grids=mg, over_sampler=aa.OverSamplerUniform(mask=mask, sub_size=1), regularization=reg)

def lobj_of(d, lo):
    """what the object hands to its scheme, as the Coq record (exact rationals)"""
    s = d["scheme"]
    empty = {"params": int(lo.params), "nb": [], "sizes": [], "signals": [], "smap": [], "ssizes": [], "sw": []}
    if s is None or s["name"] in KERNELS: return empty
    if d["kind"] in ("rect", "delaunay"):
        return obj_from_mapper(lo, s, d["signal_scale"], d["kind"] == "delaunay")
    if s["name"] == "Zeroth": return empty
    nb = lo.neighbors
    return dict(empty, nb=[[int(x) for x in r] for r in np.asarray(nb)], sizes=[int(x) for x in np.asarray(nb.sizes)])

def run_realinv(aa, inp):
    ds, mask, rng = real_dataset(aa, inp)
    grid = aa.Grid2D.from_mask(mask=mask)
    npix = grid.shape[0]
    adapt = aa.Array2D(values=np.array([float(rng.randint(1, 16)) for _ in range(npix)]), mask=mask)
    def build():
        return [build_real_obj(aa, d, mask, grid, adapt) for d in inp["objs"]]
    objs = build()
    if any(o is None for o in objs):
        return {"coq": None, "out": "degenerate point set", "py_ok": None, "kind": "realinv:skipped", "nontrivial": False}
    has_mapper = any(d["kind"] in ("rect", "delaunay") for d in inp["objs"])
    # the routes to the real AbstractInversion.regularization_matrix / _reduced (fresh inversion per route: cached properties)
    routes = [("Inversion", lambda L: aa.Inversion(dataset=ds, linear_obj_list=L, settings=aa.SettingsInversion(use_w_tilde=False))),
              ("Inversion:w_tilde", lambda L: aa.Inversion(dataset=ds, linear_obj_list=L, settings=aa.SettingsInversion(use_w_tilde=True))),
              ("InversionImagingMapping", lambda L: aa.InversionImagingMapping(dataset=ds, linear_obj_list=L, settings=aa.SettingsInversion())),
              ("MockInversion", lambda L: aa.m.MockInversion(linear_obj_list=L))]
    if has_mapper:
        routes.append(("InversionImagingWTilde", lambda L: aa.InversionImagingWTilde(dataset=ds, w_tilde=ds.w_tilde, linear_obj_list=L, settings=aa.SettingsInversion())))
    obs, classes = [], {}
    for name, mk in routes:
        inv = mk(objs)
        classes[name] = type(inv).__name__
        H = mat_out(inv.regularization_matrix)
        Hr = mat_out(mk(objs).regularization_matrix_reduced)       # on a fresh inversion: not through the cached full matrix
        Hr2 = mat_out(inv.regularization_matrix_reduced)
        obs.append((name, H, Hr))
        if Hr2 != Hr: obs.append((name + ":cached", H, Hr2))
    blocks = [mat_out(lo.regularization_matrix) for lo in objs]
    kernel = any(d["scheme"] and d["scheme"]["name"] in KERNELS for d in inp["objs"])
    L = [lobj_of(d, lo) for d, lo in zip(inp["objs"], objs)]
    def term(H, Hr):
        if kernel:
            sz = clist([ctup([cnat(int(lo.params)), cbool(d["scheme"] is not None)]) for d, lo in zip(inp["objs"], objs)])
            return f"(KAssembly {sz} {clist([cqm(b) for b in blocks])} {cqm(H)} {cqm(Hr)})"
        to = []
        for d, o in zip(inp["objs"], L):
            to.append("(None, " + clobj(fo(o)) + ")" if d["scheme"] is None else "(Some " + cscheme(d["scheme"]) + ", " + clobj(fo(o)) + ")")
        return f"(KInversion {clist(to)} {clist([cqm(b) for b in blocks])} {cqm(H)} {cqm(Hr)})"
    terms, seen = [], []
    for name, H, Hr in obs:
        if (H, Hr) not in seen:
            seen.append((H, Hr)); terms.append(term(H, Hr))
    ok = True
    notes = {}
    if kernel and inp.get("check_blocks", True):
        # the blocks themselves: scheme model for the seven schemes, the inverse contract for the kernel schemes
        for d, o, lo, B in zip(inp["objs"], L, objs, blocks):
            s = d["scheme"]
            if s is None: continue
            if s["name"] in KERNELS:
                if s["name"] == "GaussianKernel": from autoarray.inversion.regularization.gaussian_kernel import gauss_cov_matrix_from as cov_from
                else: from autoarray.inversion.regularization.exponential_kernel import exp_cov_matrix_from as cov_from
                C = np.asarray(cov_from(scale=float(Fraction(s["par"][1])), pixel_points=np.array(lo.source_plane_mesh_grid)), dtype=float)
                terms.append(f"(KKernel {cq(Fraction(s['par'][0]))} {cqm(mat_out(C))} {cqm(B)})")
                try: np.linalg.cholesky(C)
                except Exception: ok = False; notes["kernel"] = "covariance not positive definite"
            else:
                terms.append(f"(KMatrix {cscheme(s)} {clobj(fo(o))} {cres_m(('ok', B))})")
    # Python-side observations: every regularized block symmetric and PD / PSD as the theorems state; the reduced matrix PD when
    # every regularized block is; weights per object
    all_pd = True
    for d, o, lo, B in zip(inp["objs"], L, objs, blocks):
        s = d["scheme"]
        if s is None: continue
        if s["name"] in KERNELS:
            Bn = np.array([[float(x) for x in r] for r in B])
            # B = coefficient * numpy.linalg.inv(cov): the computed inverse of a matrix of condition number c is symmetric /
            # definite only up to a relative error ~ c * machine epsilon (c reaches 1e8-1e9 when the kernel scale is large
            # against the pixel spacing: cov is then singular up to its 1e-8 ridge). A fixed 1e-9 would be a false alarm there
            # (met once: ExponentialKernel scale 3/2 on a 3x4 mesh, asymmetry 4e-9 relative at cond 2e8).
            cond = float(np.linalg.cond(Bn))
            tol = max(1e-9, 200.0 * cond * 2.3e-16)
            notes.setdefault("kernel_cond", []).append(cond)
            if np.abs(Bn - Bn.T).max() > tol * max(1.0, np.abs(Bn).max()): ok = False; notes["sym"] = d["kind"]
            if np.linalg.eigvalsh((Bn + Bn.T) / 2).min() <= -tol * max(1.0, np.abs(Bn).max()): ok = False; notes["pd"] = d["kind"]
            continue
        wf = wf_of(s, o)
        if not wf: ok = False; notes["wf"] = d["kind"]     # a real object (mesh or function list) must hand over a well-formed table
        r = pd_observed(("ok", B), s["name"], wf)
        if r is False: ok = False; notes["pd"] = d["kind"] + ":" + s["name"]
        if s["name"] not in PD_SCHEMES or not wf: all_pd = False
        if s["name"] == "Zeroth" and Fraction(s["par"][0]) == 0: all_pd = False
    Hr0 = np.array([[float(x) for x in r] for r in obs[0][2]], dtype=float)
    if all_pd and Hr0.size:
        try: np.linalg.cholesky(Hr0)
        except Exception: ok = False; notes["reduced"] = "not positive definite"
    inv = routes[0][1](objs)
    for i, (d, lo) in enumerate(zip(inp["objs"], objs)):
        w = np.asarray(inv.regularization_weights_from(index=i), dtype=float)
        if d["scheme"] is None: good = w.shape == (int(lo.params),) and bool(np.all(w == 0.0))
        else: good = bool(np.array_equal(w, np.asarray(lo.regularization.regularization_weights_from(linear_obj=lo), dtype=float)))
        if not good: ok = False; notes["weights"] = i
    order = [d["kind"] + ":" + (d["scheme"]["name"] if d["scheme"] else "None") for d in inp["objs"]]
    mixed = any(d["scheme"] is None for d in inp["objs"]) and any(d["scheme"] and d["kind"] in ("func", "funcsub", "lin") for d in inp["objs"])
    return {"coq": terms[0], "extra_coq": terms[1:],
            "out": {"order": order, "classes": classes, "shape": [len(obs[0][1]), len(obs[0][2])], "routes_distinct": len(seen), "notes": notes,
                    "matrix": summary(("ok", obs[0][1]))},
            "py_ok": ok, "kind": "realinv:%d%s%s" % (len(objs), ":mixed" if mixed else "", ":kernel" if kernel else ""),
            "nontrivial": len(objs) >= 2}

def run_kernelx(aa, inp):
    """kernel schemes on an extended mesh: every covariance entry (far pairs included) against the profile table, and the
    Python-side SPD observation (thresholds with margins: the covariance is near-singular up to its 1e-8 ridge by design)"""
    import random
    rng = random.Random(inp["seed"])
    h, w = inp["shape"]
    scale = Fraction(inp["scale"]); sp = Fraction(inp["spacing"]) * scale
    if inp["mesh"] == "rect":
        pts = [(sp * (h - 1) / 2 - sp * r, sp * c - sp * (w - 1) / 2) for r in range(h) for c in range(w)]     # row-major, top row first
    else:
        pts = [(sp * r, sp * c + (sp / 2 if r % 2 else 0)) for r in range(h) for c in range(w)]                 # staggered rows
        for _ in range(inp["drop"]): pts.pop(rng.randrange(len(pts)))
        rng.shuffle(pts)
    arr = np.array([[float(y), float(x)] for y, x in pts])
    fs, coef = float(scale), float(Fraction(inp["coef"]))
    if inp["gauss"]:
        from autoarray.inversion.regularization.gaussian_kernel import gauss_cov_matrix_from as cov_from
        reg = aa.reg.GaussianKernel(coefficient=coef, scale=fs)
        prof = lambda d2: float(np.exp(-1.0 * np.sqrt(d2) ** 2 / (2 * fs ** 2)))
    else:
        from autoarray.inversion.regularization.exponential_kernel import exp_cov_matrix_from as cov_from
        reg = aa.reg.ExponentialKernel(coefficient=coef, scale=fs)
        prof = lambda d2: float(np.exp(-1.0 * np.sqrt(d2) / fs))
    mask = aa.Mask2D.all_false(shape_native=(3, 3), pixel_scales=1.0)
    grid = aa.Grid2D.from_mask(mask=mask)
    if inp["mesh"] == "rect": mesh = aa.Mesh2DRectangular(values=arr, shape_native=(h, w), pixel_scales=float(sp))
    else: mesh = aa.Mesh2DDelaunay(values=aa.Grid2DIrregular(arr))
    mg = aa.MapperGrids(mask=mask, source_plane_data_grid=grid, source_plane_mesh_grid=mesh)
    mapper = aa.Mapper(mapper_grids=mg, over_sampler=aa.OverSamplerUniform(mask=mask, sub_size=1), regularization=reg)
    C = np.asarray(cov_from(scale=fs, pixel_points=arr), dtype=float)
    H = np.asarray(mapper.regularization_matrix, dtype=float)            # LinearObj.regularization_matrix -> scheme -> covariance -> inv
    tbl, far = {}, 0
    for i, (y1, x1) in enumerate(pts):
        for (y2, x2) in pts[i:]:
            d2 = (x1 - x2) ** 2 + (y1 - y2) ** 2
            if d2 > 25 * scale * scale: far += 1
            if d2 not in tbl: tbl[d2] = frac(prof(np.float64(float(d2))))
    cpts = clist([ctup([cq(y), cq(x)]) for (y, x) in pts])
    ctbl = clist([ctup([cq(k), cq(v)]) for k, v in sorted(tbl.items())])
    # the matrix as indexes into the list of its distinct values (exact; a 144 x 144 matrix of 53-bit rationals takes Coq a
    # minute to parse)
    M = mat_out(C)
    vals = sorted({x for r in M for x in r}); pos = {x: i for i, x in enumerate(vals)}
    t1 = f"(KCovX {cpts} {ctbl} {cqv(vals)} {clist([czl([pos[x] for x in r]) for r in M])})"
    n = len(pts)
    notes = {}
    ok = H.shape == (n, n)
    hmax = max(1.0, float(np.abs(H).max()))
    if ok:
        if np.abs(H - H.T).max() > 1e-6 * hmax: ok = False; notes["sym"] = float(np.abs(H - H.T).max() / hmax)
        try: np.linalg.cholesky(C)
        except Exception: ok = False; notes["cov"] = "Cholesky of the covariance fails"
        emin = float(np.linalg.eigvalsh((C + C.T) / 2).min())
        if emin < 0.5e-8: ok = False; notes["cov_min_eig"] = emin              # exact arithmetic: >= 1e-8 (ridge + PSD kernel)
        hmin = float(np.linalg.eigvalsh((H + H.T) / 2).min())
        if hmin < -1e-6 * hmax: ok = False; notes["reg_min_eig"] = hmin
        res = float(np.abs(C @ H / coef - np.eye(n)).max())
        if res > 1e-4: ok = False; notes["inverse_contract"] = res
        notes.update(min_eig_cov=emin, min_eig_reg=hmin, residual=res)
    return {"coq": t1, "out": {"n": n, "far_pairs": far, "distinct_d2": len(tbl), "extent_in_scales": float(max(np.ptp(arr[:, 0]), np.ptp(arr[:, 1])) / fs), "notes": notes},
            "py_ok": bool(ok), "kind": "kernelx:" + ("gauss" if inp["gauss"] else "exp") + ":" + inp["mesh"], "nontrivial": far > 0}

# ====================================================================== phase 3
# (i) read-order histories on ONE inversion; (ii) high-degree Delaunay vertices; (a) objects used twice / for a second input;
# (c) read -> in-place edit -> re-read; (d) the caller's arrays after a call; (e) tiny / huge scales, ties, zeros, anisotropic
# pixel scales and shifted origins at the class layer; pixel signals (mapper_util.adaptive_pixel_signals_from) against the model.
TINY = ["1/1048576", "1/65536", "1/4096"]          # 2^-20 .. 2^-12: squares 1e-12 .. 6e-8 (around and below the 1e-8 ridge)
HUGE = ["4096", "1048576"]

ATTR = {"RM": "regularization_matrix", "RMR": "regularization_matrix_reduced", "LD": "log_det_regularization_matrix_term",
        "RT": "regularization_term", "CR": "curvature_reg_matrix", "RC": "reconstruction", "CRR": "curvature_reg_matrix_reduced",
        "LDC": "log_det_curvature_reg_matrix_term", "RCR": "reconstruction_reduced"}
HISTORIES = [["RMR", "LD", "CR", "RMR", "RT", "RM"], ["LD", "RC", "RT", "RMR"], ["RM", "CR", "RM", "RMR", "LD"],
             ["RMR", "RC", "RMR", "RT", "LD"], ["RT", "RMR", "RM"], ["CR", "RM", "RMR", "RT"],
             ["RM", "RMR", "LDC", "CRR", "RMR", "RT"], ["RMR", "CRR", "LDC", "RT", "RM", "LD"], ["LD", "CR", "LD", "RMR", "RCR", "RT"]]

def hist_bases(rng, big):
    C2 = {"name": "Constant", "par": ["2"]}; C3 = {"name": "Constant", "par": ["3"]}
    fixed = [
        # every object regularized, >= 2 objects (regularization_matrix_reduced IS the cached regularization_matrix array)
        [("func", C3), ("rect", C2)],
        [("rect", {"name": "AdaptiveBrightness", "par": ["1/2", "2"]}), ("func", {"name": "ConstantZeroth", "par": ["1", "3"]}), ("delaunay", {"name": "ConstantSplit", "par": ["1"]})],
        [("delaunay", {"name": "Constant", "par": ["3/2"]}), ("rect", {"name": "ConstantZeroth", "par": ["2", "1/2"]})],
        [("funcsub", C2), ("func", {"name": "Zeroth", "par": ["3/2"]})],
        # mixed: objects without regularization among them
        [("func", None), ("func", C3), ("rect", C2)],
        [("rect", {"name": "Constant", "par": ["1"]}), ("func", None), ("delaunay", {"name": "AdaptiveBrightnessSplit", "par": ["1", "2"]})],
        [("func", None), ("rect", {"name": "BrightnessZeroth", "par": ["2"]}), ("func", None)],
        # a single regularized object (curvature_reg_matrix takes its in-place branch)
        [("rect", C2)],
        [("func", None), ("delaunay", {"name": "GaussianKernel", "par": ["2", "3/2"]})],
    ]
    for spec in fixed:
        objs = []
        for kind, sch in spec:
            o = rand_real_obj(rng, kind, False); o["scheme"] = sch
            if kind in ("func", "funcsub", "lin"): o["params"] = rng.randint(1, 2)
            objs.append(o)
        yield objs
    for i in range(40 if big else 0):
        k = rng.choice([2, 2, 3])
        kinds = [rng.choice(["func", "funcsub", "rect", "delaunay"]) for _ in range(k)]
        regs = [True] * k if i % 2 == 0 else [kd in ("rect", "delaunay") or rng.random() < 0.5 for kd in kinds]
        objs = [rand_real_obj(rng, kd, rg) for kd, rg in zip(kinds, regs)]
        for o in objs:
            if o["kind"] in ("func", "funcsub"): o["params"] = rng.randint(1, 2)
        yield objs

def phase3_inputs(rng, big):
    # (ii) one vertex of degree 21..40: neighbour table and every scheme that reads it
    rings = list(range(21, 41)) if big else [21, 24, 29, 33, 40]
    plan = {21: [("ring", "ConstantSplit"), ("clump", "AdaptiveBrightness")], 24: [("ringj", "AdaptiveBrightnessSplit"), ("clump", "Constant")],
            29: [("ring", "Constant"), ("ringj", "ConstantZeroth")], 33: [("clump", "ConstantZeroth"), ("ring", "Zeroth")],
            40: [("ringj", "Constant"), ("clump", "ConstantZeroth")]}
    # (the schemes that read pixel signals cost the Coq side ~n^3 operations on 400-bit rationals: they get the rings up to 24 / 26)
    names = ["Constant", "ConstantZeroth", "AdaptiveBrightness", "BrightnessZeroth", "Zeroth", "ConstantSplit", "AdaptiveBrightnessSplit"]
    for j, N in enumerate(rings):
        todo = [(m, (names if N <= 26 else ["Constant", "ConstantZeroth", "Zeroth"])[(j + 3 * kk) % (7 if N <= 26 else 3)]) for kk, m in enumerate(["ring", "ringj", "clump"])] if big else plan[N]
        for mesh, name in todo:
            yield {"op": "delaunay", "mesh": mesh, "ring": N, "scheme": rand_scheme(rng, name), "signal_scale": rng.choice([1, 2]),
                   "seed": rng.randrange(10 ** 9)}
    # (i) read-order histories on one real inversion
    j = 0
    for objs in hist_bases(rng, big):
        hs = list(range(len(HISTORIES))) if big and j < 9 else [(2 * j) % len(HISTORIES), (2 * j + 5) % len(HISTORIES)]
        for t, h in enumerate(hs):
            yield {"op": "hist", "mask": rng.choice(MASKS), "seed": rng.randrange(10 ** 9), "objs": objs, "reads": HISTORIES[h],
                   "w_tilde": bool((j + t) % 2), "preload": (t == 1) if not big else (t % 3 == 2),
                   "settings": [{}, {"use_positive_only_solver": False}, {"force_edge_pixels_to_zeros": False},
                                {"use_positive_only_solver": False, "force_edge_pixels_to_zeros": False}][(j + 2 * t) % 4]}
        j += 1
    # (a)(c)(d) reuse / edit histories of scheme objects and linear objects
    for i in range(120 if big else 14):
        n1, n2 = rng.randint(2, 5), rng.randint(2, 5)
        if i % 2 == 0: n2 = n1                  # same parameter count, different neighbour table / signals
        name = SCHEMES[i % 7]
        s1 = rand_scheme(rng, name); s2 = rand_scheme(rng, name)
        if s2["par"] == s1["par"]: s2["par"] = [str(Fraction(x) + 1) for x in s2["par"]]
        yield {"op": "reuse", "real": i % 3 == 2, "scheme": s1, "scheme_edit": s2, "scheme_other": rand_scheme(rng, SCHEMES[(i + 3) % 7]),
               "objA": rand_mock_obj(rng, n1), "objB": rand_mock_obj(rng, n2), "seed": rng.randrange(10 ** 9),
               "mesh": ["rect", "delaunay"][(i // 3) % 2], "signal_scale": rng.choice([1, 2]), "same_count": i % 2 == 1}
    # (e) tiny / huge coefficients and signals (mock mappers: exact), real meshes with anisotropic pixels and shifted origins
    for i in range(168 if big else 42):
        n = rng.randint(3, 6)
        o = rand_mock_obj(rng, n)
        sc = rand_scheme(rng, SCHEMES[i % 7])
        pool = TINY if i % 2 == 0 else HUGE
        # every scheme meets every tiny coefficient (2^-20: its square 9e-13 lies far below the 1e-8 ridge)
        sc["par"] = [pool[(i // 7) % len(pool)] if k == 0 else (rng.choice(pool) if rng.random() < 0.5 else p) for k, p in enumerate(sc["par"])]
        if i % 4 == 1:    # tiny / tied / zero signals
            o["signals"] = [rng.choice(["0", "1/1073741824", "1/1073741824", "1", "1/2"]) for _ in range(n)]
        yield {"op": "mock", "scheme": sc, "obj": o, "scale": "tiny" if i % 2 == 0 else "huge"}
    for i in range(60 if big else 10):
        sc = rand_scheme(rng, SCHEMES[:5][i % 5])
        if i % 3 == 0: sc["par"] = [rng.choice(TINY + HUGE) for _ in sc["par"]]
        yield {"op": "rect", "shape": list(rng.choice([(3, 5), (5, 3), (4, 4), (3, 4), (4, 3)])), "scheme": sc, "signal_scale": rng.choice([1, 2]),
               "data_shape": list(rng.choice([(3, 6), (6, 3), (4, 5), (5, 3)])), "pixel_scales": rng.choice([[0.5, 2.0], [2.0, 0.25], [1.0, 0.5]]),
               "origin": rng.choice([[1.0, -2.0], [-0.5, 3.0], [0.25, 0.25]]), "adapt": ["ties", "zeros", "tiny", "huge", "derived"][(i + i // 5) % 5],
               "seed": rng.randrange(10 ** 9)}
    # pixel signals at the util layer: every branch of the loop (single-vertex rows, interpolated rows, padded rows, pixels nobody maps to)
    for i in range(200 if big else 24):
        pixels = rng.randint(1, 7)
        width = rng.choice([1, 3, 3, 4])
        nsub = rng.randint(1, 9)
        nslim = rng.randint(1, nsub)
        rows = []
        for k in range(nsub):
            if width > 1 and pixels >= width and rng.random() < 0.6:
                vs = rng.sample(range(pixels), width); size = width
                ws = [str(Fraction(rng.randint(0, 8), 8)) for _ in range(width)]
            else:
                vs = [rng.randrange(pixels)] + [-1] * (width - 1); size = 1
                ws = ["1"] + ["0"] * (width - 1)
            rows.append({"idx": vs, "size": size, "w": ws, "slim": rng.randrange(nslim)})
        kind = ["plain", "zeros", "ties", "tiny", "malformed"][i % 5]
        adapt = [str(Fraction(rng.randint(1, 16), rng.choice([1, 4])) if kind != "tiny" else Fraction(rng.randint(1, 16), 2 ** 34)) for _ in range(nslim)]
        if kind == "zeros":
            adapt = [a if rng.random() < 0.5 else "0" for a in adapt]
            adapt[rows[0]["slim"]] = "3"; rows[0]["w"][0] = "1"          # a positive maximum (0 / 0 = nan otherwise: outside the model)
        if kind == "ties": adapt = [adapt[0]] * nslim
        if kind == "malformed" and rows:
            r = rng.choice(rows); c = rng.choice(["oob", "size", "slim"])
            if c == "oob": r["idx"][0] = pixels + rng.randint(0, 2)
            elif c == "size" and width > 2: r["size"] = 2
            else: r["slim"] = nslim + 1
        yield {"op": "signals", "pixels": pixels, "rows": rows, "adapt": adapt, "signal_scale": rng.choice([0, 1, 1, 2, 2, 3]), "kind": kind}

# ---------------------------------------------------------------------- helpers
def np_mat(M): return np.array([[float(x) for x in r] for r in M], dtype=float).reshape((len(M), len(M[0]) if M else 0))

def assemble(blocks):
    """the specification's block placement, written here independently of scipy.linalg.block_diag"""
    n = sum(len(b) for b in blocks)
    H = np.zeros((n, n)); off = 0
    for b in blocks:
        p = len(b)
        if p: H[off:off + p, off:off + p] = np.asarray(b, dtype=float)
        off += p
    return H

def same(a, b):
    a = np.asarray(a); b = np.asarray(b)
    return a.shape == b.shape and a.tobytes() == np.asarray(b, dtype=a.dtype).tobytes()

def objs_term(inp_objs, objs, L, blocks, H, Hr, kernel):
    """the Coq case of one observation (regularization_matrix, regularization_matrix_reduced) of an inversion"""
    if kernel:
        sz = clist([ctup([cnat(int(lo.params)), cbool(d["scheme"] is not None)]) for d, lo in zip(inp_objs, objs)])
        return f"(KAssembly {sz} {clist([cqm(b) for b in blocks])} {cqm(H)} {cqm(Hr)})"
    to = []
    for d, o in zip(inp_objs, L):
        to.append("(None, " + clobj(fo(o)) + ")" if d["scheme"] is None else "(Some " + cscheme(d["scheme"]) + ", " + clobj(fo(o)) + ")")
    return f"(KInversion {clist(to)} {clist([cqm(b) for b in blocks])} {cqm(H)} {cqm(Hr)})"

def run_hist(aa, inp):
    """ONE inversion, its properties read in a given order; every observation against the specification (block assembly of the
    matrices the objects' schemes return on FRESH objects)"""
    from autoarray.preloads import Preloads
    ds, mask, rng = real_dataset(aa, inp)
    grid = aa.Grid2D.from_mask(mask=mask)
    npix = grid.shape[0]
    adapt = aa.Array2D(values=np.array([float(rng.randint(1, 16)) for _ in range(npix)]), mask=mask)
    colseed = rng.randrange(10 ** 6)
    def build():
        rs = np.random.RandomState(colseed)
        out = []
        for d in inp["objs"]:
            lo = build_real_obj(aa, d, mask, grid, adapt)
            if lo is not None and d["kind"] in ("func", "funcsub"):
                cols = rs.randint(1, 9, size=(npix, d["params"])).astype(float)        # independent columns: the curvature matrix is regular
                if d["kind"] == "func": lo._mapping_matrix = cols
                else: lo._cols = cols
            out.append(lo)
        return out
    objs, objs2 = build(), build()
    if any(o is None for o in objs):
        return {"coq": None, "out": "degenerate point set", "py_ok": None, "kind": "hist:skipped", "nontrivial": False}
    regd = [d["scheme"] is not None for d in inp["objs"]]
    blocks_np = [np.asarray(lo.regularization_matrix, dtype=float) for lo in objs2]
    blocks = [mat_out(b) for b in blocks_np]
    Hs = assemble(blocks_np); Hrs = assemble([b for b, r in zip(blocks_np, regd) if r])
    keep = np.array([r for b, r in zip(blocks_np, regd) for _ in range(len(b))], dtype=bool)
    kernel = any(d["scheme"] and d["scheme"]["name"] in KERNELS for d in inp["objs"])
    L = [lobj_of(d, lo) for d, lo in zip(inp["objs"], objs2)]
    # non-default settings combinations (they change the reconstruction, never the regularization matrices); ONE settings object
    # serves both inversions; without a preload the library's own (shared) default Preloads object is used
    opts = inp.get("settings") or {}
    settings = aa.SettingsInversion(use_w_tilde=bool(inp["w_tilde"]), **opts)
    F = np.array(aa.Inversion(dataset=ds, linear_obj_list=objs2, settings=settings).curvature_matrix, dtype=float)
    P = Hs.copy() if inp["preload"] else None
    P_bytes = P.tobytes() if P is not None else None
    if P is not None: inv = aa.Inversion(dataset=ds, linear_obj_list=objs, settings=settings, preloads=Preloads(regularization_matrix=P))
    else: inv = aa.Inversion(dataset=ds, linear_obj_list=objs, settings=settings)
    notes, ok = {}, True
    pairs, terms_x = [], []            # (H, Hr) observations sent to Coq; regularization_term observations
    state = {"H": None, "Hr": None}
    all_pd = True
    for d, o, b in zip(inp["objs"], L, blocks_np):
        s = d["scheme"]
        if s is None: continue
        if s["name"] in KERNELS: continue
        if s["name"] not in PD_SCHEMES or not wf_of(s, o): all_pd = False
    def fail(key, val):
        nonlocal ok
        ok = False; notes.setdefault(key, val)
    trace, held = [], []
    def read(name, step):
        try: v = getattr(inv, ATTR[name])
        except Exception as e:
            trace.append(name + ":" + type(e).__name__)
            if name in ("RM", "RMR"): fail("raised", f"{name}@{step}: {type(e).__name__}")
            return
        trace.append(name)
        if name in ("RM", "RMR"): held.append((name, step, v))
        if name == "RM":
            v = np.asarray(v, dtype=float)
            if not same(v, Hs): fail("RM", f"step {step}: regularization_matrix is not the block assembly")
            if state["H"] is None or not same(v, state["H"]): state["H"] = v.copy(); state["dirty"] = True
        elif name == "RMR":
            v = np.asarray(v, dtype=float)
            if not same(v, Hrs): fail("RMR", f"step {step}: regularization_matrix_reduced is not the assembly of the regularized blocks")
            if state["Hr"] is None or not same(v, state["Hr"]): state["Hr"] = v.copy(); state["dirty"] = True
        elif name in ("CR", "CRR"):
            v = np.asarray(v, dtype=float); want = F + Hs
            if name == "CRR": want = want[keep][:, keep] if not all(regd) else want
            if v.shape != want.shape or np.abs(v - want).max() > 1e-9 * max(1.0, np.abs(want).max()):
                fail(name, f"step {step}: not curvature_matrix + regularization_matrix")
        elif name == "LD":
            if all_pd and Hrs.size:
                want = float(np.linalg.slogdet(Hrs)[1])
                if not np.isfinite(v) or abs(float(v) - want) > 1e-6 * max(1.0, abs(want)): fail("LD", f"step {step}: {float(v)} != log det {want}")
        elif name == "RT":
            try: x = np.asarray(inv.reconstruction, dtype=float)
            except Exception: return
            xr = x[keep] if not all(regd) else x
            want = float(xr @ Hrs @ xr) if Hrs.size else 0.0
            scale = float(np.abs(xr) @ np.abs(Hrs) @ np.abs(xr)) if Hrs.size else 0.0
            if abs(float(v) - want) > 1e-9 * scale + 1e-300: fail("RT", f"step {step}: {float(v)} != s^T H s = {want}")
            key = (x.tobytes(), float(v))
            if any(regd) and key not in [k for k, _ in terms_x]:
                sz = clist([ctup([cnat(len(b)), cbool(r)]) for b, r in zip(blocks_np, regd)])
                terms_x.append((key, f"(KTerm {sz} {clist([cqm(b) for b in blocks])} {cqv([frac(t) for t in x])} {cq(frac(float(v)))})"))
        if state.get("dirty") and state["H"] is not None and state["Hr"] is not None:
            pairs.append((mat_out(state["H"]), mat_out(state["Hr"]))); state["dirty"] = False
    seq = list(inp["reads"]) + ["RMR", "RM", "RT", "LD", "RMR", "RM"]
    for step, name in enumerate(seq): read(name, step)
    if state["H"] is None or state["Hr"] is None: fail("unread", "regularization_matrix(_reduced) could not be read")
    if P is not None:
        if P.tobytes() != P_bytes: fail("preload", "the preloaded regularization_matrix was modified in place")
    for name, step, v in held:          # an array handed to the caller keeps its value
        if not same(np.asarray(v, dtype=float), Hs if name == "RM" else Hrs):
            fail("held", f"the {ATTR[name]} returned at step {step} was modified afterwards")
            pairs.append((mat_out(np.asarray(v, dtype=float)), mat_out(state["Hr"])) if name == "RM" else (mat_out(state["H"]), mat_out(np.asarray(v, dtype=float))))
    # the objects afterwards: their own matrices unchanged
    for i, (lo, b) in enumerate(zip(objs, blocks_np)):
        if not same(np.asarray(lo.regularization_matrix, dtype=float), b): fail("object", f"object {i}: regularization_matrix changed after the history")
    terms = [objs_term(inp["objs"], objs2, L, blocks, H, Hr, kernel) for H, Hr in pairs] + [t for _, t in terms_x]
    order = [d["kind"] + ":" + (d["scheme"]["name"] if d["scheme"] else "None") for d in inp["objs"]]
    return {"coq": terms[0] if terms else None, "extra_coq": terms[1:], "py_ok": ok,
            "out": {"order": order, "class": type(inv).__name__, "trace": trace, "notes": notes, "distinct_observations": len(pairs),
                    "shape": [int(Hs.shape[0]), int(Hrs.shape[0])]},
            "kind": "hist:%s%s%s" % ("all" if all(regd) else "mixed", ":preload" if P is not None else "", ":w" if inp["w_tilde"] else ""),
            "nontrivial": len(objs) >= 2}

# ---------------------------------------------------------------------- (a)(c)(d): reuse / edit histories
def set_pars(reg, s):
    """in-place edit of a scheme object's coefficients by the user"""
    p = [float(Fraction(x)) for x in s["par"]]
    n = s["name"]
    if n in ("Constant", "Zeroth", "BrightnessZeroth", "ConstantSplit"): reg.coefficient = p[0]
    elif n == "ConstantZeroth": reg.coefficient_neighbor, reg.coefficient_zeroth = p[0], p[1]
    else: reg.inner_coefficient, reg.outer_coefficient = p[0], p[1]

def run_reuse(aa, inp):
    """one scheme object used for a second, different linear object and again for the first; its coefficients edited in place and
    re-read; one linear object given a second scheme; every observation is a KMatrix / KWeights case of its own"""
    import random
    rng = random.Random(inp["seed"])
    s1, s1e, s2 = inp["scheme"], inp["scheme_edit"], inp["scheme_other"]
    ss = inp["signal_scale"]
    terms, ok, notes = [], True, {}
    if not inp["real"]:
        oA, oB = inp["objA"], inp["objB"]
        mk = {"A": lambda reg=None: mock_mapper(aa, oA, reg=reg), "B": lambda reg=None: mock_mapper(aa, oB, reg=reg)}
        desc = {"A": lambda s: oA, "B": lambda s: oB}
        fresh_each_call = True          # reg_split_from edits the arrays a MockMapper stores: a mock mapper serves ONE split call
    else:
        def mk_real(which):
            def f(reg=None):
                mask = aa.Mask2D.all_false(shape_native=(4, 4) if which == "A" else (3, 5), pixel_scales=1.0)
                grid = aa.Grid2D.from_mask(mask=mask)
                r2 = random.Random(inp["seed"] + (0 if which == "A" else 7))
                adapt = aa.Array2D(values=np.array([float(r2.randint(1, 16)) for _ in range(grid.shape[0])]), mask=mask)
                if inp["mesh"] == "rect":
                    mesh = aa.Mesh2DRectangular.overlay_grid(shape_native=(3, 3) if which == "A" else (3, 4), grid=grid)
                else:
                    pts = set()
                    while len(pts) < (6 if which == "A" or inp.get("same_count") else 8): pts.add((r2.randint(-8, 8) / 4.0, r2.randint(-8, 8) / 4.0))
                    pts = sorted(pts); r2.shuffle(pts)
                    mesh = aa.Mesh2DDelaunay(values=aa.Grid2DIrregular(pts)); mesh.delaunay
                mg = aa.MapperGrids(mask=mask, source_plane_data_grid=grid, source_plane_mesh_grid=mesh, adapt_data=adapt)
                return aa.Mapper(mapper_grids=mg, over_sampler=aa.OverSamplerUniform(mask=mask, sub_size=1), regularization=reg)
            return f
        mk = {"A": mk_real("A"), "B": mk_real("B")}
        if inp["mesh"] == "rect":
            for s in (s1, s1e, s2):
                if s["name"] in ("ConstantSplit", "AdaptiveBrightnessSplit"): s["name"] = {"ConstantSplit": "Constant", "AdaptiveBrightnessSplit": "AdaptiveBrightness"}[s["name"]]
        try: mk["A"](); mk["B"]()
        except Exception as e:
            return {"coq": None, "out": "degenerate point set: " + type(e).__name__, "py_ok": None, "kind": "reuse:skipped", "nontrivial": False}
        desc = {w: (lambda s, w=w: obj_from_mapper(mk[w](), dict(s, signal_scale=ss), ss, inp["mesh"] == "delaunay")) for w in "AB"}
        fresh_each_call = False
    split = s1["name"] in ("ConstantSplit", "AdaptiveBrightnessSplit")
    S1, S1e, S2 = dict(s1, signal_scale=ss), dict(s1e, signal_scale=ss), dict(s2, signal_scale=ss)
    def observe(label, s, which, f):
        out = call(f)
        terms.append(f"(KMatrix {cscheme(s)} {clobj(fo(desc[which](s)))} {cres_m(out)})")
        notes[label] = out[0] if out[0] != "ok" else [len(out[1])]
        return out
    reg = make_reg(aa, S1)
    mA, mB = mk["A"](), mk["B"]()
    a1 = observe("1:A", s1, "A", lambda: reg.regularization_matrix_from(linear_obj=mA))
    b1 = observe("2:B", s1, "B", lambda: reg.regularization_matrix_from(linear_obj=mB))               # the same scheme object, another object
    mA2 = mk["A"]() if (fresh_each_call and split) else mA
    a2 = observe("3:A", s1, "A", lambda: reg.regularization_matrix_from(linear_obj=mA2))              # ... and the first one again
    if a2 != a1: ok = False; notes["again"] = "third call (first object again) differs from the first call"
    try:
        w = [frac(x) for x in np.asarray(reg.regularization_weights_from(linear_obj=mB), dtype=float)]
        terms.append(f"(KWeights {cscheme(s1)} {clobj(fo(desc['B'](s1)))} {cqv(w)})")
    except Exception as e: notes["weights"] = type(e).__name__
    # (c) the user edits the coefficients of the scheme object in place and reads again
    set_pars(reg, S1e)
    mB2 = mk["B"]() if (fresh_each_call and split) else mB
    observe("4:B edited", s1e, "B", lambda: reg.regularization_matrix_from(linear_obj=mB2))
    try:
        w = [frac(x) for x in np.asarray(reg.regularization_weights_from(linear_obj=mB2), dtype=float)]
        terms.append(f"(KWeights {cscheme(s1e)} {clobj(fo(desc['B'](s1e)))} {cqv(w)})")
    except Exception as e: notes["weights2"] = type(e).__name__
    # (c) one linear object: scheme attached, matrix read, another scheme attached, matrix read again (LinearObj.regularization_matrix)
    mC = mk["A"](reg=make_reg(aa, S1))
    c1 = observe("5:A.regularization_matrix", s1, "A", lambda: mC.regularization_matrix)
    if not (fresh_each_call and split):
        set_pars(mC.regularization, S1e)             # (c) the attached scheme's coefficients edited in place, the property read again
        observe("5b:A.regularization_matrix, coefficients edited", s1e, "A", lambda: mC.regularization_matrix)
    split2 = s2["name"] in ("ConstantSplit", "AdaptiveBrightnessSplit")
    if not (fresh_each_call and split and split2):
        mC.regularization = make_reg(aa, S2)
        observe("6:A.regularization_matrix, other scheme", s2, "A", lambda: mC.regularization_matrix)
    # (c) the scheme detached again: an all-zero block of the object's size
    mC.regularization = None
    Z = np.asarray(mC.regularization_matrix)
    if Z.shape != (int(mC.params), int(mC.params)) or bool(np.any(Z != 0.0)): ok = False; notes["detached"] = "regularization = None does not give an all-zero params x params block"
    if inp["real"]:
        # (c) the adapt image edited in place by the user: the signals (and the weights) follow
        mD = mk["A"]()
        if s1["name"] in SIGNAL_SCHEMES:
            regD = make_reg(aa, S1)
            regD.regularization_matrix_from(linear_obj=mD)
            mD.adapt_data[0] = mD.adapt_data[0] * 4.0 + 64.0
            t, so = mapper_signals_case(mD, ss); terms.append(t)
            oD = obj_from_mapper(mD, S1, ss, inp["mesh"] == "delaunay")
            outD = call(lambda: regD.regularization_matrix_from(linear_obj=mD))
            terms.append(f"(KMatrix {cscheme(s1)} {clobj(fo(oD))} {cres_m(outD)})")
        if inp["mesh"] == "delaunay":
            for which, m in (("A", mA), ("B", mB)):
                if not delnb_case(m.source_plane_mesh_grid, coq=False)[1]: ok = False; notes["neighbors " + which] = "not the edge set of delaunay.simplices"
        # (d) the arrays of the objects after all these calls
        if fingerprint(mA) != fingerprint(mk["A"]()) or fingerprint(mB) != fingerprint(mk["B"]()):
            ok = False; notes["inputs"] = "a mapper's arrays were modified by the calls"
    else:
        # (d) the neighbour arrays and signals handed to the schemes (mock objects keep what they were given)
        for m, o in ((mA, oA), (mB, oB)):
            nbw = len(o["nb"][0]) if o["nb"] else 0
            if not (same(np.asarray(m.source_plane_mesh_grid.neighbors), np.array(o["nb"], dtype=int).reshape((len(o["nb"]), nbw)))
                    and same(np.asarray(m.source_plane_mesh_grid.neighbors.sizes), np.array(o["sizes"], dtype=int))
                    and same(np.asarray(m.pixel_signals_from(signal_scale=1.0)), np.array([float(Fraction(x)) for x in o["signals"]]))):
                ok = False; notes["inputs"] = "the arrays handed to the scheme were modified"
    return {"coq": terms[0], "extra_coq": terms[1:], "py_ok": ok, "out": {"schemes": [s1, s1e, s2], "notes": notes},
            "kind": "reuse:" + ("real:" + inp["mesh"] if inp["real"] else "mock") + ":" + s1["name"], "nontrivial": True}

# ---------------------------------------------------------------------- pixel signals, util layer
def run_signals(aa, inp):
    from autoarray.inversion.pixelization.mappers import mapper_util
    rows = inp["rows"]
    width = len(rows[0]["idx"]) if rows else 1
    idx = np.array([r["idx"] for r in rows], dtype=int).reshape((len(rows), width))
    sizes = np.array([r["size"] for r in rows], dtype=int)
    wts = np.array([[float(Fraction(x)) for x in r["w"]] for r in rows], dtype=float).reshape((len(rows), width))
    slim = np.array([r["slim"] for r in rows], dtype=int)
    adapt = np.array([float(Fraction(x)) for x in inp["adapt"]], dtype=float)
    fp = [a.tobytes() for a in (idx, sizes, wts, slim, adapt)]
    if inp["kind"] != "malformed" and not any(adapt[r["slim"]] > 0 and (r["size"] <= 1 or any(Fraction(x) > 0 for x in r["w"])) for r in rows):
        return {"coq": None, "out": "vanishing maximum (nan in numpy): outside the model", "py_ok": None, "kind": "signals:skipped", "nontrivial": False}
    out = vec_out(lambda: mapper_util.adaptive_pixel_signals_from(pixels=inp["pixels"], pixel_weights=wts, signal_scale=float(inp["signal_scale"]),
                                                                 pix_indexes_for_sub_slim_index=idx, pix_size_for_sub_slim_index=sizes,
                                                                 slim_index_for_sub_slim_index=slim, adapt_data=adapt))
    ok = None
    if [a.tobytes() for a in (idx, sizes, wts, slim, adapt)] != fp: ok = False                      # (d) the caller's arrays
    if out[0] == "ok" and any(x != x for x in [float(v) for v in out[1]]):                            # nan: 0 / 0 (vanishing maximum)
        out = ("raise", "OtherException")
    if out[0] == "raise" and out[1] not in ("IndexError", "OtherException"): out = ("raise", "OtherException")
    term = signals_term(inp["pixels"], inp["signal_scale"], idx, sizes, wts, slim, adapt, out)
    extra, notes = [], {}
    if inp["kind"] == "kinds":
        def go(ix, sz, wt, sl, ad, pw=float(inp["signal_scale"])):
            return vec_out(lambda: mapper_util.adaptive_pixel_signals_from(pixels=inp["pixels"], pixel_weights=wt, signal_scale=pw, pix_indexes_for_sub_slim_index=ix,
                                                                           pix_size_for_sub_slim_index=sz, slim_index_for_sub_slim_index=sl, adapt_data=ad))
        # (a) another data image through the same function, then the first one again
        adapt2 = np.array([float(Fraction(x)) for x in inp["adapt2"]], dtype=float)
        out2 = go(idx, sizes, wts, slim, adapt2)
        extra.append(signals_term(inp["pixels"], inp["signal_scale"], idx, sizes, wts, slim, adapt2, out2))
        # (f) the same values as other kinds of arrays (the weights are quarters, the data integers: float32 holds them exactly)
        variants = {"again": (idx, sizes, wts, slim, adapt),
                    "integer data image": (idx, sizes, wts, slim, adapt.astype("int64")),
                    "int32 index arrays": (idx.astype("int32"), sizes.astype("int32"), wts, slim.astype("int32"), adapt),
                    "float32 weights": (idx, sizes, wts.astype("float32"), slim, adapt),
                    "views": tuple(conv_arr(a, None, "view") for a in (idx, sizes, wts, slim, adapt)),
                    "Fortran order, int8": (conv_arr(idx, "int8", "F"), sizes.astype("int8"), conv_arr(wts, None, "F"), slim.astype("int8"), adapt)}
        for label, arrs in variants.items():
            o_v = go(*arrs)
            if o_v != out:
                ok = False; notes[label] = "differs from the float64 observation"
                extra.append(signals_term(inp["pixels"], inp["signal_scale"], idx, sizes, wts, slim, adapt, o_v))
        o_i = go(idx, sizes, wts, slim, adapt, pw=int(inp["signal_scale"]))          # signal_scale as a Python int: compared by Coq (a power, not bit-exact)
        if o_i != out: extra.append(signals_term(inp["pixels"], inp["signal_scale"], idx, sizes, wts, slim, adapt, o_i))
    return {"coq": term, "extra_coq": extra, "out": {"signals": [float(x) for x in out[1]] if out[0] == "ok" else out[1], "notes": notes}, "py_ok": ok,
            "kind": "signals:" + inp["kind"] + ":" + out[0], "nontrivial": inp["pixels"] >= 3 and len(rows) >= 3, "detail": notes}

# ====================================================================== phase 4 (pre-emptive hardening)
# (f) input KINDS (integer / float32 / 0-d coefficients, integer / bool / float32 signals, int8 / int32 index arrays, Fortran-ordered
#     and non-contiguous arrays, size-1 objects, subclass instances of schemes / mappers / meshes / mesh classes);
# (g) shared DEFAULT-ARGUMENT objects and caller-owned settings / preloads fingerprinted, SEQUENCES of different inversions through the
#     same defaults; (a) sequences through module-level functions; (h) directed rare states; siblings: interferometer inversions,
#     Voronoi meshes, the mesh-class route (mesh.Rectangular / mesh.Delaunay .mapper_grids_from).
KIND_COEFS_INT = ["1", "2", "3"]
KIND_COEFS = ["1/2", "1", "3/2", "2", "3"]
def kinds_obj(rng, n, intsig):
    o = rand_mock_obj(rng, n, style=rng.choice(["ring", "star", "path", "random"]) if n > 1 else "path")
    # few-bit dyadic values only: every float32 computation on them is exact
    o["signals"] = [rng.choice(["0", "1"] if intsig else ["0", "1/2", "1", "1"]) for _ in range(n)]
    if n: o["signals"][rng.randrange(n)] = "1"
    o["sw"] = [[w if Fraction(w).denominator <= 4 else "1/4" for w in r] for r in o["sw"]]
    return o

def phase4_inputs(rng, big):
    # (f) kinds: every scheme x {integral, dyadic} coefficients x {0/1, dyadic} signals; sizes 1..4 (size-1 objects included)
    for i in range(140 if big else 21):
        name = SCHEMES[i % 7]
        integral = (i // 7) % 2 == 0
        sc = rand_scheme(rng, name)
        sc["par"] = [rng.choice(KIND_COEFS_INT if integral else KIND_COEFS) for _ in sc["par"]]
        n = [1, 3, 4, 2, 3][(i // 7 + i) % 5]
        yield {"op": "kinds", "scheme": sc, "obj": kinds_obj(rng, n, intsig=(i // 7) % 3 != 1)}
    # (g)(a) sequences of DIFFERENT inversions through the shared default settings / preloads, caller-owned shared objects, interferometer siblings
    C2 = {"name": "Constant", "par": ["2"]}; C3 = {"name": "Constant", "par": ["3"]}
    plans = [
        ("default", [[("func", C3), ("rect", C2)], [("rect", {"name": "ConstantZeroth", "par": ["1", "2"]}), ("func", C2)], [("func", None), ("func", C3)]]),
        ("shared", [[("rect", C2)], [("rect", {"name": "Zeroth", "par": ["3/2"]})], [("func", C2), ("func", None)]]),
        ("ifm", [[("func", None), ("rect", C2)], [("rect", {"name": "AdaptiveBrightness", "par": ["1/2", "2"]}), ("func", C3)]]),
        ("ifm_shared", [[("delaunay", {"name": "ConstantSplit", "par": ["1"]})], [("delaunay", {"name": "Constant", "par": ["3/2"]}), ("func", None)]]),
        ("default", [[("func", None), ("lin", None)], [("funcsub", C3)], [("func", None)]]),          # no regularized object at all first
        ("mixed", [[("func", C2), ("delaunay", {"name": "AdaptiveBrightnessSplit", "par": ["1", "2"]})], [("func", C3), ("delaunay", C2)]]),
    ]
    if big:
        for i in range(18):
            stages = []
            for _ in range(rng.choice([2, 3])):
                k = rng.choice([1, 2, 2])
                kinds = [rng.choice(["func", "funcsub", "rect", "delaunay", "lin"]) for _ in range(k)]
                stages.append([(kd, (rand_real_obj(rng, kd, True)["scheme"] if rng.random() < 0.7 else None)) for kd in kinds])
            plans.append((["default", "shared", "ifm", "ifm_shared", "mixed"][i % 5], stages))
    for j, (route, stages) in enumerate(plans):
        st = []
        for spec in stages:
            objs = []
            for kind, sch in spec:
                o = rand_real_obj(rng, kind, False); o["scheme"] = sch
                if kind in ("func", "funcsub", "lin"): o["params"] = rng.randint(1, 3)
                if kind == "rect": o["shape"] = list(rng.choice([(3, 3), (3, 4), (4, 3)]))
                objs.append(o)
            st.append(objs)
        yield {"op": "seq", "route": route, "mask": MASKS[j % len(MASKS)], "seed": rng.randrange(10 ** 9), "stages": st, "sub": j % 2 == 1}
    # (f)(h) real inversions on a SINGLE unmasked pixel, two pixels, a one-row mask
    small = [["111", "101", "111"], ["1111", "1001", "1111"], ["111", "101", "101", "111"]]
    for i in range(12 if big else 3):
        kinds = [["func", "rect"], ["delaunay", "func"], ["rect", "lin"]][i % 3]
        objs = [rand_real_obj(rng, kd, rng.random() < 0.8) for kd in kinds]
        if i % 3 == 0: objs[1]["scheme"] = rand_scheme(rng, rng.choice(["AdaptiveBrightness", "BrightnessZeroth"]))
        yield {"op": "realinv", "mask": small[(i + i // 3) % 3], "seed": rng.randrange(10 ** 9), "objs": objs, "check_blocks": True}
    # (a)(c)(f) kernel schemes: one scheme object on two point sets of the same size and on the first again, scale / coefficient edited in
    #     place, the sibling kernel on the same points, subclass, integer-typed coordinates
    for i in range(24 if big else 4):
        yield {"op": "kreuse", "gauss": bool(i % 2), "npts": rng.randint(2, 4), "scale": rng.choice(["1/2", "1", "3/2"]), "scale2": rng.choice(["2", "3"]),
               "coef": rng.choice(COEFS), "coef2": rng.choice(["4", "5/2"]), "integral": i % 2 == 0, "seed": rng.randrange(10 ** 9)}
    # sibling mesh: Voronoi (neighbour table from the ridge points), the schemes that need neither signals nor a split-cross table
    for i in range(18 if big else 3):
        yield {"op": "voronoi", "npts": rng.randint(5, 8), "scheme": rand_scheme(rng, ["Constant", "ConstantZeroth", "Zeroth"][i % 3]), "seed": rng.randrange(10 ** 9)}
    # (f)(g) real meshes through other routes / kinds: mesh-class route, subclass instances, integer / float32 adapt images, vertex containers
    todo = [dict(via="meshclass"), dict(sub=True), dict(adapt_dtype="int64"), dict(adapt_dtype="float32"), dict(via="meshclass", sub=True, adapt_dtype="int32")]
    for i in range(30 if big else 5):
        sc = rand_scheme(rng, SCHEMES[:5][(i + 3) % 5] if i % 5 < 2 else rng.choice(["AdaptiveBrightness", "BrightnessZeroth"]))
        yield dict({"op": "rect", "shape": list(rng.choice([(3, 4), (4, 3), (3, 3)])), "scheme": sc, "signal_scale": rng.choice([1, 2]),
                    "data_shape": list(rng.choice([(3, 4), (4, 3), (1, 5), (5, 1)])), "seed": rng.randrange(10 ** 9)}, **todo[i % 5])
    todo = [dict(values="uniform"), dict(values="ndarray", sub=True), dict(via="meshclass"), dict(values="list"), dict(via="meshclass", sub=True)]
    for i in range(30 if big else 5):
        yield dict({"op": "delaunay", "npts": rng.randint(5, 7), "scheme": rand_scheme(rng, SCHEMES[(2 * i + 3) % 7]), "signal_scale": rng.choice([1, 2]),
                    "seed": rng.randrange(10 ** 9)}, **todo[i % 5])
    # (f)(a) pixel signals at the util layer: integer / float32 / non-contiguous arrays, two data images through the same function
    for i in range(40 if big else 6):
        pixels = rng.randint(1, 5); width = rng.choice([1, 3]); nsub = rng.randint(1, 7); nslim = rng.randint(1, nsub)
        rows = []
        for k in range(nsub):
            if width > 1 and pixels >= width and rng.random() < 0.6:
                rows.append({"idx": rng.sample(range(pixels), width), "size": width, "w": [rng.choice(["0", "1/4", "1/2", "1"]) for _ in range(width)], "slim": rng.randrange(nslim)})
            else:
                rows.append({"idx": [rng.randrange(pixels)] + [-1] * (width - 1), "size": 1, "w": ["1"] + ["0"] * (width - 1), "slim": rng.randrange(nslim)})
        adapt = [str(rng.randint(1, 16)) for _ in range(nslim)]
        rows[0]["w"][0] = "1"
        yield {"op": "signals", "pixels": pixels, "rows": rows, "adapt": adapt, "signal_scale": rng.choice([1, 2, 3]), "kind": "kinds",
               "adapt2": [str(rng.randint(1, 16)) for _ in range(nslim)]}

# ---------------------------------------------------------------------- (f) kinds
def run_kinds(aa, inp):
    """one (scheme, object) through every route with the inputs given as OTHER KINDS of the same values: the first (float64, C order,
    library classes) observation goes to Coq; every other one must be bit-equal to it (all values are few-bit dyadic numbers, so
    float32 arithmetic on them is exact) -- a differing one is sent to Coq as well"""
    s, o = inp["scheme"], inp["obj"]
    O = fo(o)
    reg, out_m, w, terms = scheme_cases(aa, s, o, mock_mapper(aa, o), "kinds")
    integral = all(Fraction(x).denominator == 1 for x in s["par"])
    sig01 = all(x in ("0", "1") for x in o["signals"])
    variants = [("float32", dict(ckind="f32"), dict(float="float32")),
                ("int32 index arrays", dict(), dict(int="int32")),
                ("int8 index arrays, Fortran order", dict(), dict(int="int8", layout="F")),
                ("non-contiguous views", dict(), dict(layout="view")),
                ("0-d array coefficients", dict(ckind="arr0"), dict()),
                ("numpy.float64 coefficients, float32 arrays as views", dict(ckind="npf64"), dict(float="float32", layout="view")),
                ("subclasses", dict(sub=True), dict(sub=True))]
    if integral: variants += [("python int coefficients", dict(ckind="pyint"), dict()), ("numpy.int64 coefficients, int32 arrays", dict(ckind="npint"), dict(int="int32"))]
    if sig01: variants += [("integer signals", dict(), dict(sig="int64")), ("bool signals", dict(), dict(sig="bool"))]
    if integral and sig01: variants.append(("everything integer-typed", dict(ckind="pyint"), dict(sig="int64", int="int64")))
    ok, notes = True, {}
    ws = [str(x) for x in w] if isinstance(w, list) else w
    for label, rk, ak0 in variants:
        ak = dict(ak0); sub = ak.pop("sub", False)
        outs = {}
        regv = make_reg(aa, s, **rk)
        outs["class"] = call(lambda: regv.regularization_matrix_from(linear_obj=mock_mapper(aa, o, ak=ak, sub=sub)))
        outs["linear_obj"] = call(lambda: mock_mapper(aa, o, reg=make_reg(aa, s, **rk), ak=ak, sub=sub).regularization_matrix)
        touched = []
        outs["util"] = call(util_call(aa, s, o, ak=ak, ckind=rk.get("ckind", "float"), intact=touched))
        if touched: ok = False; notes[label + ":modified"] = touched
        for route, out in outs.items():
            if out != out_m:
                ok = False; notes[label + ":" + route] = "differs from the float64 observation"
                terms.append(f"(KMatrix {cscheme(s)} {clobj(O)} {cres_m(out)})")
        try:
            wv = [frac(x) for x in np.asarray(regv.regularization_weights_from(linear_obj=mock_mapper(aa, o, ak=ak, sub=sub)), dtype=float)]
            if [str(x) for x in wv] != ws:
                ok = False; notes[label + ":weights"] = "differ"; terms.append(f"(KWeights {cscheme(s)} {clobj(O)} {cqv(wv)})")
        except Exception as e:
            if not (isinstance(ws, str) and ws == "EXC " + type(e).__name__): ok = False; notes[label + ":weights"] = type(e).__name__
    pd = pd_observed(out_m, s["name"], wf_of(s, o))
    if pd is False: ok = False; notes["pd"] = "not symmetric positive (semi-)definite"
    return {"coq": terms[0], "extra_coq": terms[1:], "py_ok": ok, "out": {"matrix": summary(out_m), "weights": ws, "variants": len(variants), "notes": notes},
            "kind": "kinds:" + s["name"] + (":size1" if o["params"] == 1 else ""), "nontrivial": o["params"] >= 3, "detail": notes}

# ---------------------------------------------------------------------- (g)(a) sequences of inversions
def interferometer_dataset(aa, mask, rng):
    nv = 7
    uv = np.array([[rng.randint(-12, 12) / 4.0, rng.randint(-12, 12) / 4.0] for _ in range(nv)])
    vis = aa.Visibilities(visibilities=np.array([complex(rng.randint(-8, 8) / 2.0, rng.randint(-8, 8) / 2.0) for _ in range(nv)]))
    # real and imaginary noise differ
    nm = aa.VisibilitiesNoiseMap(visibilities=np.array([complex(rng.choice([1.0, 2.0, 4.0]), rng.choice([0.5, 2.0, 3.0])) for _ in range(nv)]))
    return aa.Interferometer(data=vis, noise_map=nm, uv_wavelengths=uv, real_space_mask=mask, transformer_class=aa.TransformerDFT)

def run_seq(aa, inp):
    """several DIFFERENT inversions one after the other in one process, through the shared default-argument objects or through ONE
    caller-owned settings / preloads pair; every regularization_matrix(_reduced) against the block assembly of what FRESH objects'
    schemes return; then the first stage again; the default and caller-owned objects fingerprinted before / after"""
    from autoarray.preloads import Preloads
    ds, mask, rng = real_dataset(aa, inp)
    grid = aa.Grid2D.from_mask(mask=mask)
    npix = grid.shape[0]
    adapt = aa.Array2D(values=np.array([float(rng.randint(1, 16)) for _ in range(npix)]), mask=mask)
    route = inp["route"]
    ifm = interferometer_dataset(aa, mask, rng) if route.startswith("ifm") or route == "mixed" else None
    shared_settings, shared_preloads = aa.SettingsInversion(), Preloads()
    watched = default_objects(aa) + [("caller.settings", shared_settings), ("caller.preloads", shared_preloads)]
    fp0 = fp_objects(watched)
    colseed = rng.randrange(10 ** 6)
    def build(spec):
        rs = np.random.RandomState(colseed)
        out = []
        for d in spec:
            lo = build_real_obj(aa, d, mask, grid, adapt)
            if lo is None: return None
            if d["kind"] in ("func", "funcsub"):
                cols = rs.randint(1, 9, size=(npix, d["params"])).astype(float)
                if d["kind"] == "func": lo._mapping_matrix = cols
                else: lo._cols = cols
            if inp.get("sub") and lo.regularization is not None and type(lo.regularization).__name__ in SCHEMES + KERNELS:
                lo.regularization = make_any_reg(aa, dict(d["scheme"], signal_scale=d["signal_scale"]), sub=True)
            out.append(lo)
        return out
    def invert(k, objs):
        r = route if route != "mixed" else ["default", "ifm", "shared", "ifm_shared"][k % 4]
        # (the timed path of @profile_func -- run_time_dict given -- cannot be exercised under the library's own default configuration:
        #  general.yaml has no profiling.repeats entry, every profiled property raises KeyError there; outside this property)
        kw = {}
        if r == "default": return aa.Inversion(dataset=ds, linear_obj_list=objs, **kw)
        if r == "shared": return aa.Inversion(dataset=ds, linear_obj_list=objs, settings=shared_settings, preloads=shared_preloads, **kw)
        if r == "ifm": return aa.Inversion(dataset=ifm, linear_obj_list=objs, **kw)
        return aa.Inversion(dataset=ifm, linear_obj_list=objs, settings=shared_settings, preloads=shared_preloads, **kw)
    ok, notes, terms, classes, shapes = True, {}, [], [], []
    first = None
    stages = list(inp["stages"]) + [inp["stages"][0]]
    for k, spec in enumerate(stages):
        objs, objs2 = build(spec), build(spec)
        if objs is None or objs2 is None:
            return {"coq": None, "out": "degenerate point set", "py_ok": None, "kind": "seq:skipped", "nontrivial": False}
        regd = [d["scheme"] is not None for d in spec]
        blocks_np = [np.asarray(lo.regularization_matrix, dtype=float) for lo in objs2]
        blocks = [mat_out(b) for b in blocks_np]
        Hs = assemble(blocks_np); Hrs = assemble([b for b, r in zip(blocks_np, regd) if r])
        ids = [id(x) for x in objs]
        try:
            inv = invert(k, objs)
            H = np.asarray(inv.regularization_matrix, dtype=float); Hr = np.asarray(inv.regularization_matrix_reduced, dtype=float)
        except Exception as e:
            ok = False; notes[f"stage {k}"] = "raised " + type(e).__name__ + ": " + str(e)[:200]; continue
        if [id(x) for x in objs] != ids: ok = False; notes[f"stage {k}:list"] = "the caller's list of linear objects was modified"      # (d)
        classes.append(type(inv).__name__); shapes.append([int(H.shape[0]), int(Hr.shape[0]) if Hr.ndim == 2 else -1])
        good = same(H, Hs) and same(Hr.reshape(Hrs.shape) if Hr.size == Hrs.size else Hr, Hrs)
        if not good: ok = False; notes[f"stage {k}"] = "regularization_matrix(_reduced) is not the block assembly of this stage's objects"
        last = k == len(stages) - 1
        if last and first is not None and not (same(H, first[0]) and same(Hr, first[1])):
            ok = False; notes["again"] = "the first stage's inversion, built again at the end, gives another matrix"
        if k == 0: first = (H.copy(), Hr.copy())
        if not last or not good:
            kernel = any(d["scheme"] and d["scheme"]["name"] in KERNELS for d in spec)
            L = [lobj_of(d, lo) for d, lo in zip(spec, objs2)]
            terms.append(objs_term(spec, objs2, L, blocks, mat_out(H), mat_out(Hr), kernel))
        # the evidence terms exist where every regularized block is positive definite; the weights per object
        all_pd = all(d["scheme"] is None or (d["scheme"]["name"] in PD_SCHEMES) for d in spec) and any(regd)
        if all_pd:
            try:
                ld = float(inv.log_det_regularization_matrix_term); want = float(np.linalg.slogdet(Hrs)[1])
                if not np.isfinite(ld) or abs(ld - want) > 1e-6 * max(1.0, abs(want)): ok = False; notes[f"stage {k}:logdet"] = [ld, want]
            except Exception as e:
                ok = False; notes[f"stage {k}:logdet"] = "raised " + type(e).__name__
        for i, (d, lo) in enumerate(zip(spec, objs)):
            wv = np.asarray(inv.regularization_weights_from(index=i), dtype=float)
            if d["scheme"] is None: gw = wv.shape == (int(lo.params),) and bool(np.all(wv == 0.0))
            else: gw = bool(np.array_equal(wv, np.asarray(objs2[i].regularization.regularization_weights_from(linear_obj=objs2[i]), dtype=float)))
            if not gw: ok = False; notes[f"stage {k}:weights"] = i
    if fp_objects(watched) != fp0:
        changed = [a[0] for a, b in zip(fp_objects(watched), fp0) if a != b]
        ok = False; notes["shared objects"] = "modified: " + ", ".join(changed)
    order = [[d["kind"] + ":" + (d["scheme"]["name"] if d["scheme"] else "None") for d in spec] for spec in inp["stages"]]
    return {"coq": terms[0] if terms else None, "extra_coq": terms[1:], "py_ok": ok,
            "out": {"stages": order, "classes": classes, "shapes": shapes, "notes": notes},
            "kind": "seq:" + route + (":sub" if inp.get("sub") else ""), "nontrivial": True, "detail": notes}

# ---------------------------------------------------------------------- kernel schemes: reuse / edit / sibling
def run_kreuse(aa, inp):
    import random
    rng = random.Random(inp["seed"])
    def points():
        pts = set()
        while len(pts) < inp["npts"]:
            pts.add((float(rng.randint(-3, 3)), float(rng.randint(-3, 3))) if inp["integral"] else (rng.randint(-6, 6) / 2.0, rng.randint(-6, 6) / 2.0))
        pts = sorted(pts); rng.shuffle(pts)
        return pts
    A, B = points(), points()
    while B == A: B = points()
    from autoarray.inversion.regularization.gaussian_kernel import gauss_cov_matrix_from
    from autoarray.inversion.regularization.exponential_kernel import exp_cov_matrix_from
    def profile(gauss, fs):
        if gauss: return lambda d2: float(np.exp(-1.0 * np.sqrt(d2) ** 2 / (2 * fs ** 2)))
        return lambda d2: float(np.exp(-1.0 * np.sqrt(d2) / fs))
    terms, notes, ok = [], {}, True
    def mapper(pts, dtype=float):
        return aa.m.MockMapper(source_plane_mesh_grid=np.array(pts, dtype=dtype), parameters=len(pts))
    def observe(label, reg, gauss, pts, scale, coef, dtype=float):
        """scheme output H against the covariance the util function gives for these points (inverse contract), that covariance
        against the model"""
        fs = float(Fraction(scale))
        arr = np.array(pts, dtype=float)
        C = np.asarray((gauss_cov_matrix_from if gauss else exp_cov_matrix_from)(scale=fs, pixel_points=arr), dtype=float)
        H = np.asarray(reg.regularization_matrix_from(linear_obj=mapper(pts, dtype)), dtype=float)
        prof = profile(gauss, fs)
        tbl = {}
        for (y1, x1) in pts:
            for (y2, x2) in pts:
                d2 = (Fraction(x1) - Fraction(x2)) ** 2 + (Fraction(y1) - Fraction(y2)) ** 2
                tbl[d2] = frac(prof(np.float64(float(d2))))
        cpts = clist([ctup([cq(frac(y)), cq(frac(x))]) for (y, x) in pts])
        ctbl = clist([ctup([cq(k), cq(v)]) for k, v in sorted(tbl.items())])
        terms.append(f"(KCov {cpts} {ctbl} {cqm(mat_out(C))})")
        terms.append(f"(KKernel {cq(Fraction(coef))} {cqm(mat_out(C))} {cqm(mat_out(H))})")
        wv = np.asarray(reg.regularization_weights_from(linear_obj=mapper(pts, dtype)), dtype=float)
        nonlocal ok
        if not (wv.shape == (len(pts),) and bool(np.all(wv == float(Fraction(coef))))): ok = False; notes[label + ":weights"] = "not coefficient * ones(params)"
        try: np.linalg.cholesky(H); np.linalg.cholesky(C)
        except Exception: ok = False; notes[label + ":pd"] = "Cholesky fails"
        res = float(np.abs(C @ H / float(Fraction(coef)) - np.eye(len(pts))).max()) if H.shape == C.shape else float("inf")
        if not res <= 1e-6: ok = False; notes[label + ":contract"] = res          # (Coq checks the same contract at 1e-7 |coefficient|)
        return H
    g = inp["gauss"]
    K = lambda gauss: (aa.reg.GaussianKernel if gauss else aa.reg.ExponentialKernel)
    reg = K(g)(coefficient=float(Fraction(inp["coef"])), scale=float(Fraction(inp["scale"])))
    h1 = observe("1:A", reg, g, A, inp["scale"], inp["coef"])
    observe("2:B", reg, g, B, inp["scale"], inp["coef"])                         # the same scheme object, other points of the same count
    h3 = observe("3:A", reg, g, A, inp["scale"], inp["coef"])
    if not same(h1, h3): ok = False; notes["again"] = "third call (first points again) differs from the first call"
    reg.scale = float(Fraction(inp["scale2"]))                                   # (c) edited in place
    observe("4:A scale edited", reg, g, A, inp["scale2"], inp["coef"])
    reg.coefficient = float(Fraction(inp["coef2"]))
    observe("5:B coefficient edited", reg, g, B, inp["scale2"], inp["coef2"])
    sib = K(not g)(coefficient=float(Fraction(inp["coef"])), scale=float(Fraction(inp["scale"])))     # the sibling kernel right after, same points
    observe("6:B sibling kernel", sib, not g, B, inp["scale"], inp["coef"])
    # (f) subclass instance, numpy-typed parameters, integer-typed coordinates: bit-equal to the plain observation
    plain = np.asarray(K(g)(coefficient=float(Fraction(inp["coef"])), scale=float(Fraction(inp["scale"]))).regularization_matrix_from(linear_obj=mapper(A)), dtype=float)
    kinds = [("subclass", subcls(K(g))(coefficient=float(Fraction(inp["coef"])), scale=float(Fraction(inp["scale"]))), float),
             ("numpy.float64 parameters", K(g)(coefficient=np.float64(Fraction(inp["coef"])), scale=np.float64(Fraction(inp["scale"]))), float)]
    if inp["integral"]: kinds.append(("integer coordinates", K(g)(coefficient=float(Fraction(inp["coef"])), scale=float(Fraction(inp["scale"]))), int))
    for label, r, dt in kinds:
        Hk = np.asarray(r.regularization_matrix_from(linear_obj=mapper(A, dt)), dtype=float)
        if not same(Hk, plain):
            notes[label] = "differs from the plain observation"
            if Hk.shape != plain.shape or np.abs(Hk - plain).max() > 1e-9 * max(1.0, np.abs(plain).max()): ok = False
    return {"coq": terms[0], "extra_coq": terms[1:], "py_ok": ok, "out": {"A": A, "B": B, "notes": notes},
            "kind": "kreuse:" + ("gauss" if g else "exp"), "nontrivial": len(A) >= 3, "detail": notes}

# ---------------------------------------------------------------------- sibling mesh: Voronoi
def run_voronoi(aa, inp):
    import random
    rng = random.Random(inp["seed"])
    pts = set()
    while len(pts) < inp["npts"]: pts.add((rng.randint(-8, 8) / 4.0, rng.randint(-8, 8) / 4.0))
    pts = sorted(pts); rng.shuffle(pts)
    s = inp["scheme"]
    try:
        mesh = aa.Mesh2DVoronoi(values=aa.Grid2DIrregular(pts)); mesh.voronoi
    except Exception as e:
        return {"coq": None, "out": "degenerate point set: " + type(e).__name__, "py_ok": None, "kind": "voronoi:skipped", "nontrivial": False}
    mask = aa.Mask2D.all_false(shape_native=(3, 3), pixel_scales=1.0)
    grid = aa.Grid2D.from_mask(mask=mask)
    mg = aa.MapperGrids(mask=mask, source_plane_data_grid=grid, source_plane_mesh_grid=mesh)
    mapper = aa.Mapper(mapper_grids=mg, over_sampler=aa.OverSamplerUniform(mask=mask, sub_size=1), border_relocator=None, regularization=None)
    nb = mesh.neighbors
    o = {"params": int(mapper.params), "nb": [[int(x) for x in r] for r in np.asarray(nb)], "sizes": [int(x) for x in np.asarray(nb.sizes)],
         "signals": [], "smap": [], "ssizes": [], "sw": []}
    reg, out_m, w, terms = scheme_cases(aa, s, o, mapper, "voronoi")
    # the table is the set of ridges of the Voronoi diagram (both directions, once each)
    E = set()
    for a, b in np.asarray(mesh.voronoi.ridge_points):
        E.add((int(a), int(b))); E.add((int(b), int(a)))
    T = [(i, k) for i, (r, z) in enumerate(zip(o["nb"], o["sizes"])) for k in r[:z]]
    ok = isinstance(mapper, aa.MapperVoronoi) and len(T) == len(set(T)) and set(T) == E and wf_of(s, o)
    pd = pd_observed(out_m, s["name"], True)
    if pd is False: ok = False
    mapper.regularization = reg
    out_l = call(lambda: mapper.regularization_matrix)
    if out_l != out_m: terms.append(f"(KMatrix {cscheme(s)} {clobj(fo(o))} {cres_m(out_l)})")
    return {"coq": terms[0], "extra_coq": terms[1:], "py_ok": bool(ok), "out": {"points": pts, "neighbors": o["nb"], "sizes": o["sizes"], "matrix": summary(out_m)},
            "kind": "voronoi:" + s["name"], "nontrivial": True}
