(* C01 -- proofs about the slim / native model (Model/C01.v). Everything is polymorphic in the value
   type and closed under the global context. *)
From Coq Require Import List Arith Bool Lia Permutation Sorting.Sorted ZArith.
From PAV Require Import Model.C01.
Import ListNotations.

Section P.
Context {A : Type} (zero : A).
Notation grid := (list (list A)).

(* ------------------------------------------------------------------ generic list facts *)
Lemma nth_ext_len {B} (l1 l2 : list B) d :
  length l1 = length l2 -> (forall k, k < length l1 -> nth k l1 d = nth k l2 d) -> l1 = l2.
Proof.
  revert l2. induction l1 as [|a l1 IH]; intros [|b l2] Hl Hn; cbn in *; try discriminate; auto.
  f_equal.
  - apply (Hn 0). lia.
  - apply IH; [lia|]. intros k Hk. apply (Hn (S k)). lia.
Qed.

Lemma filter_map_comm {B C} (f : B -> C) (p : C -> bool) l :
  filter p (map f l) = map f (filter (fun x => p (f x)) l).
Proof. induction l as [|a l IH]; cbn; auto. destruct (p (f a)); cbn; now rewrite IH. Qed.
Lemma filter_flat_map {B C} (g : B -> list C) (p : C -> bool) l :
  filter p (flat_map g l) = flat_map (fun y => filter p (g y)) l.
Proof. induction l as [|a l IH]; cbn; auto. now rewrite filter_app, IH. Qed.
Lemma flat_map_ext_in {B C} (f g : B -> list C) l :
  (forall x, In x l -> f x = g x) -> flat_map f l = flat_map g l.
Proof. induction l as [|a l IH]; cbn; intros H; auto. rewrite H, IH; auto. Qed.
Lemma filter_ext_in' {B} (f g : B -> bool) l : (forall x, In x l -> f x = g x) -> filter f l = filter g l.
Proof. induction l as [|a l IH]; cbn; intros H; auto. rewrite (H a), IH; auto. Qed.

Lemma NoDup_app_intro' {B} (l1 l2 : list B) :
  NoDup l1 -> NoDup l2 -> (forall x, In x l1 -> In x l2 -> False) -> NoDup (l1 ++ l2).
Proof.
  induction 1 as [|a l1 Ha Hd IH]; intros H2 Hx; cbn; auto. constructor.
  - rewrite in_app_iff. intros [H|H]; [contradiction | apply (Hx a); [now left | assumption]].
  - apply IH; auto. intros x H1 H2'. apply (Hx x); [now right | assumption].
Qed.

Lemma nth_repeat_lt' {B} (a d : B) m : forall n, n < m -> nth n (repeat a m) d = a.
Proof. induction m as [|m IH]; intros [|n] Hn; cbn; try lia; auto. apply IH. lia. Qed.

Lemma nth_map_lt {B C} (f : B -> C) l k d d' : k < length l -> nth k (map f l) d' = f (nth k l d).
Proof. revert k. induction l as [|a l IH]; intros [|k] Hk; cbn in *; try lia; auto. apply IH. lia. Qed.

(* ------------------------------------------------------------------ upd / get *)
Lemma upd_length {B} (l : list B) i v : length (upd l i v) = length l.
Proof. revert i. induction l as [|x l IH]; intros [|i]; cbn; auto. Qed.
Lemma nth_upd_same {B} (l : list B) i v d : i < length l -> nth i (upd l i v) d = v.
Proof. revert i. induction l as [|x l IH]; intros [|i] H; cbn in *; try lia; auto with arith. Qed.
Lemma nth_upd_other {B} (l : list B) i j v d : i <> j -> nth j (upd l i v) d = nth j l d.
Proof.
  revert i j. induction l as [|x l IH]; intros [|i] [|j] H; cbn; auto; try congruence.
Qed.

Definition inb (g : grid) (p : nat * nat) : Prop := fst p < length g /\ snd p < length (nth (fst p) g []).

Lemma get2_upd2_same (g : grid) p v : inb g p -> get2 zero (upd2 g p v) p = v.
Proof.
  intros [H1 H2]. unfold get2, upd2. rewrite nth_upd_same by assumption. apply nth_upd_same. assumption.
Qed.
Lemma get2_upd2_other (g : grid) p q v : p <> q -> get2 zero (upd2 g p v) q = get2 zero g q.
Proof.
  intros Hne. unfold get2, upd2. destruct p as [py px], q as [qy qx]. cbn [fst snd].
  destruct (Nat.eq_dec py qy) as [E|E].
  - subst qy. destruct (Nat.lt_ge_cases py (length g)) as [Hl|Hl].
    + rewrite nth_upd_same by assumption. apply nth_upd_other. congruence.
    + assert (upd g py (upd (nth py g []) px v) = g) as ->; [|reflexivity].
      clear -Hl. revert py Hl. induction g as [|r g IH]; intros [|py] Hl; cbn in *; auto; try lia.
      f_equal. apply IH. lia.
  - rewrite nth_upd_other by assumption. reflexivity.
Qed.
Lemma upd2_rows (g : grid) p (v : A) : length (upd2 g p v) = length g.
Proof. unfold upd2. apply upd_length. Qed.
Lemma upd2_row_len (g : grid) p (v : A) y : length (nth y (upd2 g p v) []) = length (nth y g []).
Proof.
  unfold upd2. destruct (Nat.eq_dec (fst p) y) as [E|E].
  - subst y. destruct (Nat.lt_ge_cases (fst p) (length g)) as [Hl|Hl].
    + rewrite nth_upd_same by assumption. apply upd_length.
    + rewrite !nth_overflow; auto. rewrite upd_length. lia.
  - now rewrite nth_upd_other by assumption.
Qed.
Lemma inb_upd2 (g : grid) p (v : A) q : inb (upd2 g p v) q <-> inb g q.
Proof. unfold inb. rewrite upd2_rows, upd2_row_len. tauto. Qed.

(* ------------------------------------------------------------------ scatter: pointwise reading *)
Lemma scatter_rows idx : forall (g : grid) (s : list A), length (scatter_set g idx s) = length g.
Proof. induction idx as [|p idx IH]; intros g [|v s]; cbn; auto. rewrite IH. apply upd2_rows. Qed.
Lemma scatter_row_len idx : forall (g : grid) (s : list A) y, length (nth y (scatter_set g idx s) []) = length (nth y g []).
Proof. induction idx as [|p idx IH]; intros g [|v s] y; cbn; auto. rewrite IH. apply upd2_row_len. Qed.

Lemma scatter_other idx : forall (g : grid) (s : list A) q, ~ In q idx -> get2 zero (scatter_set g idx s) q = get2 zero g q.
Proof.
  induction idx as [|p idx IH]; intros g [|v s] q Hn; cbn [scatter_set]; auto.
  rewrite IH by (intro; apply Hn; now right).
  apply get2_upd2_other. intro; subst. apply Hn. now left.
Qed.
Lemma scatter_nth idx : forall (g : grid) (s : list A) k d,
  NoDup idx -> (forall p, In p idx -> inb g p) -> k < length idx -> length idx <= length s ->
  get2 zero (scatter_set g idx s) (nth k idx d) = nth k s zero.
Proof.
  induction idx as [|p idx IH]; intros g s k d Hnd Hin Hk Hl; cbn in Hk; [lia|].
  destruct s as [|v s]; cbn in Hl; [lia|]. inversion Hnd as [|? ? Hp Hnd']; subst.
  destruct k as [|k]; cbn [scatter_set nth].
  - rewrite scatter_other by assumption. apply get2_upd2_same. apply Hin. now left.
  - apply IH; auto; try lia. intros q Hq. apply inb_upd2. apply Hin. now right.
Qed.

(* ------------------------------------------------------------------ coordinates = filtered enumeration *)
Lemma row_coords_spec y r : forall x0,
  row_coords y r x0 = map (fun x => (y, x)) (filter (fun x => negb (nth (x - x0) r true)) (seq x0 (length r))).
Proof.
  induction r as [|b r IH]; intros x0; cbn [row_coords length seq filter map]; auto.
  rewrite Nat.sub_diag. change (nth 0 (b :: r) true) with b.
  assert (E : filter (fun x => negb (nth (x - x0) (b :: r) true)) (seq (S x0) (length r))
              = filter (fun x => negb (nth (x - S x0) r true)) (seq (S x0) (length r))).
  { apply filter_ext_in'. intros x Hx. apply in_seq in Hx.
    replace (x - x0) with (S (x - S x0)) by lia. reflexivity. }
  destruct b; cbn [negb map]; rewrite E, IH; reflexivity.
Qed.

Lemma coords_from_spec m : forall y0,
  coords_from m y0 =
  flat_map (fun y => map (fun x => (y, x))
                         (filter (fun x => negb (nth x (nth (y - y0) m []) true)) (seq 0 (length (nth (y - y0) m [])))))
           (seq y0 (length m)).
Proof.
  induction m as [|r m IH]; intros y0; cbn [coords_from length seq flat_map]; auto.
  rewrite Nat.sub_diag. change (nth 0 (r :: m) []) with r. rewrite row_coords_spec. f_equal.
  - f_equal. apply filter_ext_in'. intros x _. now rewrite Nat.sub_0_r.
  - rewrite IH. apply flat_map_ext_in. intros y Hy. apply in_seq in Hy.
    replace (y - y0) with (S (y - S y0)) by lia. reflexivity.
Qed.

Lemma rectb_spec {B} H W (g : list (list B)) :
  rectb H W g = true <-> length g = H /\ forall r, In r g -> length r = W.
Proof.
  unfold rectb. rewrite andb_true_iff, Nat.eqb_eq, forallb_forall. split; intros [H1 H2]; split; auto.
  - intros r Hr. apply Nat.eqb_eq. auto.
  - intros r Hr. apply Nat.eqb_eq. auto.
Qed.
Lemma rect_row_len {B} H W (g : list (list B)) y : rectb H W g = true -> y < H -> length (nth y g []) = W.
Proof. intros Hr Hy. apply rectb_spec in Hr. destruct Hr as [Hl Hrows]. apply Hrows. apply nth_In. lia. Qed.
Lemma rect_width {B} H W (g : list (list B)) : rectb H W g = true -> 0 < H -> width g = W.
Proof.
  intros Hr Hy. unfold width. rewrite <- (rect_row_len H W g 0 Hr Hy). destruct g; reflexivity.
Qed.

Theorem native_for_slim_is_spec (m : mask) H W :
  rectb H W m = true -> 0 < H -> native_for_slim m = unmasked_spec m.
Proof.
  intros Hr HH. unfold native_for_slim, unmasked_spec, all_coords. rewrite coords_from_spec.
  rewrite (rect_width H W m Hr HH). pose proof Hr as Hr'. apply rectb_spec in Hr'. destruct Hr' as [Hl _]. rewrite Hl.
  rewrite filter_flat_map. apply flat_map_ext_in. intros y Hy. apply in_seq in Hy.
  rewrite filter_map_comm. rewrite Nat.sub_0_r. rewrite (rect_row_len H W m y Hr) by lia.
  reflexivity.
Qed.

Lemma all_coords_in H W (p : nat * nat) : In p (all_coords H W) <-> fst p < H /\ snd p < W.
Proof.
  unfold all_coords. rewrite in_flat_map. split.
  - intros [y [Hy Hp]]. apply in_map_iff in Hp. destruct Hp as [x [E Hx]]. subst p. cbn.
    apply in_seq in Hy, Hx. lia.
  - intros [H1 H2]. exists (fst p). split; [apply in_seq; lia|]. apply in_map_iff. exists (snd p).
    split; [now destruct p | apply in_seq; lia].
Qed.
Lemma all_coords_nodup H W : NoDup (all_coords H W).
Proof.
  unfold all_coords. assert (G : forall l : list nat, NoDup l -> NoDup (flat_map (fun y => map (fun x => (y, x)) (seq 0 W)) l)).
  { induction 1 as [|y l Hn Hd IH]; cbn; [constructor|].
    apply NoDup_app_intro'; auto.
    - apply FinFun.Injective_map_NoDup; [intros a b E; congruence | apply seq_NoDup].
    - intros p Hp Hq. apply in_map_iff in Hp. destruct Hp as [x [E _]]. subst p.
      apply in_flat_map in Hq. destruct Hq as [y' [Hy' Hq]]. apply in_map_iff in Hq.
      destruct Hq as [x' [E _]]. inversion E; subst. contradiction. }
  apply G, seq_NoDup.
Qed.

Lemma unmasked_spec_in (m : mask) (p : nat * nat) :
  In p (unmasked_spec m) <-> fst p < length m /\ snd p < width m /\ mget m p = false.
Proof.
  unfold unmasked_spec. rewrite filter_In, all_coords_in, negb_true_iff. tauto.
Qed.
Lemma unmasked_spec_nodup (m : mask) : NoDup (unmasked_spec m).
Proof. apply NoDup_filter, all_coords_nodup. Qed.

(* ------------------------------------------------------------------ slim is the row-major gather *)
Lemma slim_row_spec y r : forall v x0, length v = length r ->
  slim_row r v = map (fun p => nth (snd p - x0) v zero) (row_coords y r x0).
Proof.
  induction r as [|b r IH]; intros [|a v] x0 Hl; cbn in *; try discriminate; auto.
  assert (E : forall l, (forall p, In p l -> S x0 <= snd p) ->
              map (fun p : nat * nat => nth (snd p - x0) (a :: v) zero) l = map (fun p => nth (snd p - S x0) v zero) l).
  { intros l Hl'. apply map_ext_in. intros p Hp. specialize (Hl' p Hp).
    replace (snd p - x0) with (S (snd p - S x0)) by lia. reflexivity. }
  assert (Hge : forall p, In p (row_coords y r (S x0)) -> S x0 <= snd p).
  { intros p Hp. rewrite row_coords_spec in Hp. apply in_map_iff in Hp. destruct Hp as [x [Ex Hx]]. subst p.
    apply filter_In in Hx. destruct Hx as [Hx _]. apply in_seq in Hx. cbn. lia. }
  destruct b; cbn [map]; rewrite ?Nat.sub_diag; cbn [nth snd].
  - rewrite (IH v (S x0)) by lia. symmetry. apply E, Hge.
  - f_equal. rewrite (IH v (S x0)) by lia. symmetry. apply E, Hge.
Qed.

Lemma slim_from_spec (m : mask) : forall (n : grid) y0,
  length n = length m -> (forall y, y < length m -> length (nth y n []) = length (nth y m [])) ->
  slim_from m n = map (fun p => get2 zero n (fst p - y0, snd p)) (coords_from m y0).
Proof.
  induction m as [|r m IH]; intros [|v n] y0 Hl Hrows; cbn in *; try discriminate; auto.
  rewrite map_app. f_equal.
  - rewrite (slim_row_spec y0 r v 0) by (apply (Hrows 0); lia).
    apply map_ext_in. intros p Hp. rewrite row_coords_spec in Hp. apply in_map_iff in Hp.
    destruct Hp as [x [E _]]. subst p. unfold get2. cbn [fst snd]. rewrite Nat.sub_diag, Nat.sub_0_r. reflexivity.
  - rewrite (IH n (S y0)) by (try lia; intros y Hy; apply (Hrows (S y)); lia).
    apply map_ext_in. intros p Hp. rewrite coords_from_spec in Hp. apply in_flat_map in Hp.
    destruct Hp as [y [Hy Hp]]. apply in_seq in Hy. apply in_map_iff in Hp. destruct Hp as [x [E _]]. subst p.
    unfold get2. cbn [fst snd]. replace (y - y0) with (S (y - S y0)) by lia. reflexivity.
Qed.

Theorem slim_is_rowmajor_gather (m : mask) (n : grid) H W :
  rectb H W m = true -> rectb H W n = true ->
  slim_from m n = map (get2 zero n) (native_for_slim m).
Proof.
  intros Hm Hn. unfold native_for_slim.
  pose proof Hm as Hm'. pose proof Hn as Hn'. apply rectb_spec in Hm', Hn'. destruct Hm' as [Lm _], Hn' as [Ln _].
  rewrite (slim_from_spec m n 0).
  - apply map_ext. intros [y x]. cbn. now rewrite Nat.sub_0_r.
  - lia.
  - intros y Hy. rewrite (rect_row_len H W m y Hm), (rect_row_len H W n y Hn); lia.
Qed.

(* ------------------------------------------------------------------ native: pointwise, shape *)
Lemma zeros2_rect H W : rectb H W (zeros2 zero H W) = true.
Proof.
  apply rectb_spec. unfold zeros2. split; [apply repeat_length|].
  intros r Hr. apply repeat_spec in Hr. subst. apply repeat_length.
Qed.
Lemma get2_zeros2 H W p : get2 zero (zeros2 zero H W) p = zero.
Proof.
  unfold get2, zeros2. destruct (Nat.lt_ge_cases (fst p) H) as [Hy|Hy].
  - rewrite nth_repeat_lt' by assumption. destruct (Nat.lt_ge_cases (snd p) W) as [Hx|Hx].
    + now rewrite nth_repeat_lt'.
    + apply nth_overflow. now rewrite repeat_length.
  - rewrite (nth_overflow (repeat (repeat zero W) H)) by (now rewrite repeat_length). now destruct (snd p).
Qed.

Lemma native_from_rect (m : mask) s H W : rectb H W m = true -> 0 < H -> rectb H W (native_from zero m s) = true.
Proof.
  intros Hm HH. unfold native_from, via_indexes. rewrite (rect_width H W m Hm HH).
  pose proof Hm as Hm'. apply rectb_spec in Hm'. destruct Hm' as [Lm _]. rewrite Lm.
  apply rectb_spec. split.
  - rewrite scatter_rows. unfold zeros2. apply repeat_length.
  - intros r Hr. apply (In_nth _ _ []) in Hr. destruct Hr as [y [Hy E]]. subst r.
    rewrite scatter_row_len. rewrite scatter_rows in Hy. unfold zeros2 in *. rewrite repeat_length in Hy.
    rewrite nth_repeat_lt' by assumption. apply repeat_length.
Qed.

Lemma inb_zeros2 H W p : fst p < H -> snd p < W -> inb (zeros2 zero H W) p.
Proof.
  intros H1 H2. unfold inb, zeros2. rewrite repeat_length. split; auto.
  rewrite nth_repeat_lt' by assumption. now rewrite repeat_length.
Qed.

(* value of slim index k sits at the k-th unmasked pixel (row-major); masked pixels hold zero *)
Theorem native_at_kth_unmasked (m : mask) s H W k d :
  rectb H W m = true -> 0 < H -> length s = count m -> k < count m ->
  get2 zero (native_from zero m s) (nth k (native_for_slim m) d) = nth k s zero.
Proof.
  intros Hm HH Hs Hk. unfold native_from, via_indexes, count in *.
  apply scatter_nth; auto; try lia.
  - rewrite (native_for_slim_is_spec m H W Hm HH). apply unmasked_spec_nodup.
  - intros p Hp. rewrite (native_for_slim_is_spec m H W Hm HH) in Hp. apply unmasked_spec_in in Hp.
    apply inb_zeros2; tauto.
Qed.
Theorem native_at_masked (m : mask) s H W p :
  rectb H W m = true -> 0 < H -> mget m p = true -> get2 zero (native_from zero m s) p = zero.
Proof.
  intros Hm HH Hp. unfold native_from, via_indexes. rewrite scatter_other.
  - apply get2_zeros2.
  - rewrite (native_for_slim_is_spec m H W Hm HH). intro Hin. apply unmasked_spec_in in Hin.
    destruct Hin as (_ & _ & E). congruence.
Qed.

(* ------------------------------------------------------------------ round trips *)
Theorem slim_native_roundtrip (m : mask) s H W :
  rectb H W m = true -> 0 < H -> length s = count m ->
  slim_from m (native_from zero m s) = s.
Proof.
  intros Hm HH Hs.
  rewrite (slim_is_rowmajor_gather m _ H W Hm (native_from_rect m s H W Hm HH)).
  apply (nth_ext_len _ _ zero).
  - rewrite map_length. unfold count in Hs. lia.
  - intros k Hk. rewrite map_length in Hk.
    rewrite (nth_map_lt _ _ _ (0, 0)) by assumption.
    apply native_at_kth_unmasked with (H := H) (W := W); auto.
Qed.

Lemma grid_ext (g1 g2 : grid) H W :
  rectb H W g1 = true -> rectb H W g2 = true ->
  (forall p, fst p < H -> snd p < W -> get2 zero g1 p = get2 zero g2 p) -> g1 = g2.
Proof.
  intros R1 R2 Hp. pose proof R1 as R1'. pose proof R2 as R2'. apply rectb_spec in R1', R2'.
  destruct R1' as [L1 _], R2' as [L2 _].
  apply (nth_ext_len _ _ []); [lia|]. intros y Hy. rewrite L1 in Hy.
  apply (nth_ext_len _ _ zero).
  - rewrite (rect_row_len H W g1 y R1), (rect_row_len H W g2 y R2); lia.
  - intros x Hx. rewrite (rect_row_len H W g1 y R1) in Hx by lia. apply (Hp (y, x)); assumption.
Qed.

Lemma zero_masked_rect (m : mask) (n : grid) H W :
  rectb H W m = true -> rectb H W n = true -> rectb H W (zero_masked zero m n) = true.
Proof.
  intros Hm Hn. pose proof Hm as Hm'. pose proof Hn as Hn'. apply rectb_spec in Hm', Hn'.
  destruct Hm' as [Lm Rm], Hn' as [Ln Rn]. apply rectb_spec. unfold zero_masked. split.
  - rewrite map_length, combine_length. lia.
  - intros r Hr. apply in_map_iff in Hr. destruct Hr as [[rm rn] [E Hin]]. subst r. cbn [fst snd].
    rewrite map_length, combine_length. apply in_combine_l in Hin as H1. apply in_combine_r in Hin as H2.
    rewrite (Rm _ H1), (Rn _ H2). lia.
Qed.
Lemma get2_zero_masked (m : mask) (n : grid) H W p :
  rectb H W m = true -> rectb H W n = true -> fst p < H -> snd p < W ->
  get2 zero (zero_masked zero m n) p = if mget m p then zero else get2 zero n p.
Proof.
  intros Hm Hn Hy Hx. pose proof Hm as Hm'. pose proof Hn as Hn'. apply rectb_spec in Hm', Hn'.
  destruct Hm' as [Lm _], Hn' as [Ln _].
  unfold get2, mget, zero_masked.
  pose proof (rect_row_len H W m (fst p) Hm Hy) as Lr. pose proof (rect_row_len H W n (fst p) Hn Hy) as Lv.
  rewrite (nth_map_lt _ _ _ ([], [])) by (rewrite combine_length; lia).
  rewrite combine_nth by lia. cbn [fst snd].
  rewrite (nth_map_lt _ _ _ (true, zero)) by (rewrite combine_length; lia).
  rewrite combine_nth by lia. reflexivity.
Qed.

Theorem native_slim_roundtrip (m : mask) (n : grid) H W :
  rectb H W m = true -> rectb H W n = true -> 0 < H ->
  native_from zero m (slim_from m n) = zero_masked zero m n.
Proof.
  intros Hm Hn HH.
  apply (grid_ext _ _ H W); [apply native_from_rect; auto | apply zero_masked_rect; auto |].
  intros p Hy Hx. rewrite (get2_zero_masked m n H W) by assumption.
  destruct (mget m p) eqn:Em.
  - apply native_at_masked with (H := H) (W := W); auto.
  - assert (Hin : In p (native_for_slim m)).
    { rewrite (native_for_slim_is_spec m H W Hm HH). apply unmasked_spec_in.
      pose proof Hm as Hm'. apply rectb_spec in Hm'. destruct Hm' as [Lm _].
      rewrite (rect_width H W m Hm HH). rewrite Lm. tauto. }
    apply (In_nth _ _ (0, 0)) in Hin. destruct Hin as [k [Hk Ek]]. rewrite <- Ek.
    rewrite (native_at_kth_unmasked m _ H W k (0, 0)); auto.
    + rewrite (slim_is_rowmajor_gather m n H W Hm Hn).
      now rewrite (nth_map_lt _ _ _ (0, 0)) by assumption.
    + rewrite (slim_is_rowmajor_gather m n H W Hm Hn). now rewrite map_length.
Qed.

(* ------------------------------------------------------------------ any construction mode *)
Theorem construct_from_native (m : mask) (n : grid) H W sn :
  rectb H W m = true -> rectb H W n = true -> 0 < H ->
  let f := convert zero m (Native n) sn in
  to_slim m f = map (get2 zero n) (native_for_slim m) /\ to_native zero m f = zero_masked zero m n.
Proof.
  intros Hm Hn HH.
  assert (E : slim_from m (zero_masked zero m n) = map (get2 zero n) (native_for_slim m)).
  { rewrite (slim_is_rowmajor_gather m _ H W Hm (zero_masked_rect m n H W Hm Hn)).
    apply map_ext_in. intros p Hp. rewrite (native_for_slim_is_spec m H W Hm HH) in Hp.
    apply unmasked_spec_in in Hp. destruct Hp as (Hy & Hx & Em).
    pose proof Hm as Hm'. apply rectb_spec in Hm'. destruct Hm' as [Lm _].
    rewrite (rect_width H W m Hm HH) in Hx. rewrite Lm in Hy.
    rewrite (get2_zero_masked m n H W) by assumption. now rewrite Em. }
  destruct sn; cbn [convert to_slim to_native].
  - split; [exact E | reflexivity].
  - split; [exact E |]. rewrite E, <- (slim_is_rowmajor_gather m n H W Hm Hn).
    apply (native_slim_roundtrip m n H W Hm Hn HH).
Qed.
Theorem construct_from_slim (m : mask) s H W sn :
  rectb H W m = true -> 0 < H -> length s = count m ->
  let f := convert zero m (Slim s) sn in
  to_slim m f = s /\ to_native zero m f = native_from zero m s.
Proof.
  intros Hm HH Hs. destruct sn; cbn [convert to_slim to_native]; split; auto.
  apply (slim_native_roundtrip m s H W); auto.
Qed.
End P.

(* ------------------------------------------------------------------ index lists of the mask *)
Lemma msi_spec l flag : forall i,
  msi l flag i = filter (fun k => Bool.eqb (nth (k - i) l true) flag) (seq i (length l)).
Proof.
  induction l as [|b l IH]; intros i; cbn [msi length seq filter]; auto.
  rewrite Nat.sub_diag. change (nth 0 (b :: l) true) with b.
  assert (E : filter (fun k => Bool.eqb (nth (k - i) (b :: l) true) flag) (seq (S i) (length l))
              = filter (fun k => Bool.eqb (nth (k - S i) l true) flag) (seq (S i) (length l))).
  { apply filter_ext_in'. intros k Hk. apply in_seq in Hk. replace (k - i) with (S (k - S i)) by lia. reflexivity. }
  destruct (Bool.eqb b flag); rewrite E, IH; reflexivity.
Qed.
Theorem mask_slim_indexes_spec (m : mask) flag :
  mask_slim_indexes m flag = filter (fun k => Bool.eqb (nth k (concat m) true) flag) (seq 0 (length (concat m))).
Proof.
  unfold mask_slim_indexes. rewrite msi_spec. apply filter_ext_in'. intros k _. now rewrite Nat.sub_0_r.
Qed.
Lemma msi_partition l : forall i, Permutation (msi l false i ++ msi l true i) (seq i (length l)).
Proof.
  induction l as [|b l IH]; intros i; cbn [msi length seq]; [constructor|].
  destruct b; cbn [Bool.eqb].
  - apply Permutation_sym, Permutation_cons_app, Permutation_sym, IH.
  - cbn [app]. constructor. apply IH.
Qed.
Theorem index_lists_partition (m : mask) :
  Permutation (mask_slim_indexes m false ++ mask_slim_indexes m true) (seq 0 (length (concat m))).
Proof. apply msi_partition. Qed.

Lemma filter_seq_sorted f : forall n i, StronglySorted lt (filter f (seq i n)).
Proof.
  induction n as [|n IH]; intros i; cbn; [constructor|].
  destruct (f i).
  - constructor; [apply IH|]. apply Forall_forall. intros k Hk. apply filter_In in Hk. destruct Hk as [Hk _].
    apply in_seq in Hk. lia.
  - apply IH.
Qed.
Theorem index_lists_increasing (m : mask) flag : StronglySorted lt (mask_slim_indexes m flag).
Proof. rewrite mask_slim_indexes_spec. apply filter_seq_sorted. Qed.

(* flat index of the k-th unmasked pixel = k-th entry of the unmasked index list *)
Lemma msi_app l1 l2 flag : forall i, msi (l1 ++ l2) flag i = msi l1 flag i ++ msi l2 flag (i + length l1).
Proof.
  induction l1 as [|b l1 IH]; intros i; cbn [msi app length].
  - now rewrite Nat.add_0_r.
  - rewrite IH. replace (S i + length l1) with (i + S (length l1)) by lia.
    destruct (Bool.eqb b flag); reflexivity.
Qed.
Lemma row_coords_flat y r W : forall x0,
  map (fun p => fst p * W + snd p) (row_coords y r x0) = msi r false (y * W + x0).
Proof.
  induction r as [|b r IH]; intros x0; cbn [row_coords msi map]; auto.
  replace (S (y * W + x0)) with (y * W + S x0) by lia.
  destruct b; cbn [Bool.eqb map fst snd]; rewrite IH; reflexivity.
Qed.
Lemma coords_from_flat (m : mask) W : (forall r, In r m -> length r = W) -> forall y0,
  map (fun p => fst p * W + snd p) (coords_from m y0) = msi (concat m) false (y0 * W).
Proof.
  induction m as [|r m IH]; intros Hr y0; cbn [coords_from concat map msi]; auto.
  rewrite map_app, msi_app, row_coords_flat, Nat.add_0_r. f_equal.
  rewrite IH by (intros; apply Hr; now right). f_equal. rewrite (Hr r) by now left. cbn. lia.
Qed.
Theorem slim_index_k_is_kth_unmasked (m : mask) H W :
  rectb H W m = true ->
  map (fun p => fst p * W + snd p) (native_for_slim m) = mask_slim_indexes m false.
Proof.
  intros Hm. apply rectb_spec in Hm. destruct Hm as [_ Hr]. unfold native_for_slim, mask_slim_indexes.
  now rewrite (coords_from_flat m W Hr 0).
Qed.

(* ------------------------------------------------------------------ 1-D *)
Section P1.
Context {A : Type} (zero : A).

Lemma native_for_slim_1d_row r : forall x0, map (fun x => (0, x)) (native_for_slim_1d r x0) = row_coords 0 r x0.
Proof. induction r as [|b r IH]; intros x0; cbn; auto. destruct b; cbn; now rewrite IH. Qed.

Lemma scatter_1d_as_2d idx : forall (g : list A) s,
  [scatter_set_1d g idx s] = scatter_set [g] (map (fun x => (0, x)) idx) s.
Proof.
  induction idx as [|i idx IH]; intros g [|v s]; cbn [scatter_set_1d scatter_set map]; auto.
  rewrite IH. reflexivity.
Qed.

(* the 1-D functions are the one-row instance of the 2-D ones *)
Theorem native_from_1d_is_one_row r (s : list A) : [native_from_1d zero r s] = native_from zero [r] s.
Proof.
  unfold native_from_1d, native_from, via_indexes, native_for_slim, width, zeros2. cbn [length hd coords_from repeat].
  rewrite app_nil_r, <- native_for_slim_1d_row. apply scatter_1d_as_2d.
Qed.
Theorem slim_from_1d_is_one_row r (v : list A) : slim_from_1d r v = slim_from [r] [v].
Proof. unfold slim_from_1d. cbn. now rewrite app_nil_r. Qed.
Theorem zero_masked_1d_is_one_row r (v : list A) : [zero_masked_1d zero r v] = zero_masked zero [r] [v].
Proof. reflexivity. Qed.

Theorem slim_native_roundtrip_1d r (s : list A) :
  length s = length (native_for_slim_1d r 0) -> slim_from_1d r (native_from_1d zero r s) = s.
Proof.
  intros Hs. rewrite slim_from_1d_is_one_row, native_from_1d_is_one_row.
  apply (slim_native_roundtrip zero [r] s 1 (length r)).
  - apply rectb_spec. split; auto. intros r' [E|[]]. now subst.
  - lia.
  - unfold count, native_for_slim. cbn [coords_from]. rewrite app_nil_r, <- native_for_slim_1d_row, map_length. exact Hs.
Qed.
Theorem native_slim_roundtrip_1d r (v : list A) :
  length v = length r -> native_from_1d zero r (slim_from_1d r v) = zero_masked_1d zero r v.
Proof.
  intros Hl. assert (E : [native_from_1d zero r (slim_from_1d r v)] = [zero_masked_1d zero r v]); [|congruence].
  rewrite native_from_1d_is_one_row, slim_from_1d_is_one_row, zero_masked_1d_is_one_row.
  apply (native_slim_roundtrip zero [r] [v] 1 (length r)).
  - apply rectb_spec. split; auto. intros r' [E|[]]. now subst.
  - apply rectb_spec. split; auto. intros r' [E|[]]. now subst.
  - lia.
Qed.
End P1.


(* ================================================================== phase 2: objects and masks with a history *)
Section P2.
Context {A : Type} (zero : A).
Notation grid := (list (list A)).

Lemma slim_row_map (g : A -> A) r : forall v, slim_row r (map g v) = map g (slim_row r v).
Proof. induction r as [|b r IH]; intros [|a v]; cbn; auto. destruct b; cbn; now rewrite IH. Qed.
Lemma slim_from_map (g : A -> A) (m : mask) : forall n : grid, slim_from m (map (map g) n) = map g (slim_from m n).
Proof.
  induction m as [|r m IH]; intros [|v n]; cbn; auto. now rewrite map_app, slim_row_map, IH.
Qed.
Lemma map_map_rect (g : A -> A) (n : grid) H W : rectb H W n = true -> rectb H W (map (map g) n) = true.
Proof.
  intros Hn. apply rectb_spec in Hn. destruct Hn as [L R]. apply rectb_spec. split; [now rewrite map_length|].
  intros r Hr. apply in_map_iff in Hr. destruct Hr as [r' [E Hin]]. subst r. rewrite map_length. auto.
Qed.

(* masked entries of a native array are never gathered *)
Lemma slim_from_zero_masked (m : mask) (n : grid) H W :
  rectb H W m = true -> rectb H W n = true -> 0 < H -> slim_from m (zero_masked zero m n) = slim_from m n.
Proof.
  intros Hm Hn HH. pose proof (construct_from_native zero m n H W false Hm Hn HH) as [E _]. cbn [convert to_slim] in E.
  rewrite E. symmetry. apply (slim_is_rowmajor_gather zero m n H W Hm Hn).
Qed.
Lemma zero_masked_idem (m : mask) (n : grid) H W :
  rectb H W m = true -> rectb H W n = true -> 0 < H ->
  zero_masked zero m (zero_masked zero m n) = zero_masked zero m n.
Proof.
  intros Hm Hn HH. pose proof (zero_masked_rect zero m n H W Hm Hn) as Hz.
  rewrite <- (native_slim_roundtrip zero m (zero_masked zero m n) H W Hm Hz HH).
  rewrite (slim_from_zero_masked m n H W Hm Hn HH). apply (native_slim_roundtrip zero m n H W Hm Hn HH).
Qed.
Lemma slim_from_length (m : mask) (n : grid) H W :
  rectb H W m = true -> rectb H W n = true -> length (slim_from m n) = count m.
Proof. intros Hm Hn. rewrite (slim_is_rowmajor_gather zero m n H W Hm Hn). now rewrite map_length. Qed.

(* ---- what is read from an object whose stored array is ANY well-shaped array (e.g. the result of arithmetic) *)
Theorem obs_of_stored_native (m : mask) (n : grid) H W :
  rectb H W m = true -> rectb H W n = true -> 0 < H ->
  obs_slim zero m (Native n) = map (get2 zero n) (native_for_slim m) /\
  obs_native zero m (Native n) = zero_masked zero m n.
Proof.
  intros Hm Hn HH. unfold obs_slim, obs_native, acc_slim, acc_native. split.
  - apply (construct_from_native zero m n H W false Hm Hn HH).
  - apply (construct_from_native zero m n H W true Hm Hn HH).
Qed.
Theorem obs_of_stored_slim (m : mask) (s : list A) :
  obs_slim zero m (Slim s) = s /\ obs_native zero m (Slim s) = native_from zero m s.
Proof. split; reflexivity. Qed.

(* the native reading is always the scatter of the slim reading: with native_at_kth_unmasked / native_at_masked this
   says: slim value k at the k-th unmasked pixel, zero at every masked pixel, whatever the stored array holds there *)
Theorem obs_native_is_scatter_of_obs_slim (m : mask) (f : form) H W :
  rectb H W m = true -> 0 < H -> wfb m H W f = true ->
  obs_native zero m f = native_from zero m (obs_slim zero m f) /\ length (obs_slim zero m f) = count m.
Proof.
  intros Hm HH Hf. destruct f as [s|n]; cbn [wfb] in Hf.
  - apply Nat.eqb_eq in Hf. split; [reflexivity | exact Hf].
  - destruct (obs_of_stored_native m n H W Hm Hf HH) as [Es En]. rewrite Es, En. split.
    + rewrite <- (slim_is_rowmajor_gather zero m n H W Hm Hf). symmetry.
      apply (native_slim_roundtrip zero m n H W Hm Hf HH).
    + now rewrite map_length.
Qed.
Theorem obs_native_masked_is_zero (m : mask) (f : form) H W p :
  rectb H W m = true -> 0 < H -> wfb m H W f = true -> mget m p = true -> get2 zero (obs_native zero m f) p = zero.
Proof.
  intros Hm HH Hf Hp. destruct (obs_native_is_scatter_of_obs_slim m f H W Hm HH Hf) as [E _]. rewrite E.
  apply (native_at_masked zero m _ H W p Hm HH Hp).
Qed.
Theorem obs_native_at_kth_unmasked (m : mask) (f : form) H W k d :
  rectb H W m = true -> 0 < H -> wfb m H W f = true -> k < count m ->
  get2 zero (obs_native zero m f) (nth k (native_for_slim m) d) = nth k (obs_slim zero m f) zero.
Proof.
  intros Hm HH Hf Hk. destruct (obs_native_is_scatter_of_obs_slim m f H W Hm HH Hf) as [E L]. rewrite E.
  apply (native_at_kth_unmasked zero m _ H W k d Hm HH L Hk).
Qed.

(* ---- constructing / re-reading does not change what is read (accessor chains, a new object from an old one) *)
Lemma convert_wf (m : mask) (f : form) sn H W :
  rectb H W m = true -> 0 < H -> wfb m H W f = true -> wfb m H W (convert zero m f sn) = true.
Proof.
  intros Hm HH Hf. destruct f as [s|n], sn; cbn [convert wfb] in *; auto.
  - apply (native_from_rect zero m s H W Hm HH).
  - apply (zero_masked_rect zero m n H W Hm Hf).
  - apply Nat.eqb_eq. apply (slim_from_length m _ H W Hm). apply (zero_masked_rect zero m n H W Hm Hf).
Qed.
Theorem obs_of_convert (m : mask) (f : form) sn H W :
  rectb H W m = true -> 0 < H -> wfb m H W f = true ->
  obs_slim zero m (convert zero m f sn) = obs_slim zero m f /\
  obs_native zero m (convert zero m f sn) = obs_native zero m f.
Proof.
  intros Hm HH Hf. destruct f as [s|n]; cbn [wfb] in Hf.
  - apply Nat.eqb_eq in Hf. destruct sn; cbn [convert]; [|split; reflexivity].
    pose proof (native_from_rect zero m s H W Hm HH) as Hr.
    destruct (obs_of_stored_native m _ H W Hm Hr HH) as [Es En]. rewrite Es, En. cbn [obs_slim obs_native acc_slim acc_native convert to_slim to_native].
    split.
    + rewrite <- (slim_is_rowmajor_gather zero m _ H W Hm Hr). apply (slim_native_roundtrip zero m s H W Hm HH Hf).
    + rewrite <- (native_slim_roundtrip zero m _ H W Hm Hr HH). now rewrite (slim_native_roundtrip zero m s H W Hm HH Hf).
  - pose proof (zero_masked_rect zero m n H W Hm Hf) as Hz.
    unfold obs_slim, obs_native, acc_slim, acc_native. destruct sn; cbn [convert to_slim to_native].
    + split; [| apply (zero_masked_idem m n H W Hm Hf HH)].
      now rewrite (zero_masked_idem m n H W Hm Hf HH).
    + split; [reflexivity|].
      rewrite (native_slim_roundtrip zero m _ H W Hm Hz HH). apply (zero_masked_idem m n H W Hm Hf HH).
Qed.

(* ---- apply_mask (phase 3): the object read under its own mask m, re-masked with a second mask m2 of the same shape:
   the slim reading is the row-major gather, over the unmasked pixels of m2, of the native reading under m (so a pixel
   that m masks reads zero even where m2 unmasks it), the native reading is the native reading under m with the pixels
   masked by m2 zeroed as well; and the result is again a well-shaped object of m2 *)
Lemma obs_native_rect (m : mask) (f : form) H W :
  rectb H W m = true -> 0 < H -> wfb m H W f = true -> rectb H W (obs_native zero m f) = true.
Proof.
  intros Hm HH Hf. destruct (obs_native_is_scatter_of_obs_slim m f H W Hm HH Hf) as [E _]. rewrite E.
  apply (native_from_rect zero m _ H W Hm HH).
Qed.
Theorem obs_of_apply_mask (m m2 : mask) (f : form) H W :
  rectb H W m = true -> rectb H W m2 = true -> 0 < H -> wfb m H W f = true ->
  obs_slim zero m2 (apply_mask zero m m2 f) = map (get2 zero (obs_native zero m f)) (native_for_slim m2) /\
  obs_native zero m2 (apply_mask zero m m2 f) = zero_masked zero m2 (obs_native zero m f) /\
  wfb m2 H W (apply_mask zero m m2 f) = true.
Proof.
  intros Hm Hm2 HH Hf. pose proof (obs_native_rect m f H W Hm HH Hf) as Hr. unfold apply_mask.
  assert (Hw : wfb m2 H W (Native (obs_native zero m f)) = true) by exact Hr.
  destruct (obs_of_convert m2 _ false H W Hm2 HH Hw) as [Es En].
  destruct (obs_of_stored_native m2 _ H W Hm2 Hr HH) as [Es' En'].
  split; [now rewrite Es | split; [now rewrite En |]].
  apply (convert_wf m2 _ false H W Hm2 HH Hw).
Qed.
(* a pixel masked by EITHER mask reads zero, a pixel unmasked in both keeps the value read under m *)
Theorem apply_mask_pointwise (m m2 : mask) (f : form) H W p :
  rectb H W m = true -> rectb H W m2 = true -> 0 < H -> wfb m H W f = true -> fst p < H -> snd p < W ->
  get2 zero (obs_native zero m2 (apply_mask zero m m2 f)) p =
  if mget m2 p || mget m p then zero else get2 zero (obs_native zero m f) p.
Proof.
  intros Hm Hm2 HH Hf Hy Hx. destruct (obs_of_apply_mask m m2 f H W Hm Hm2 HH Hf) as [_ [En _]]. rewrite En.
  pose proof (obs_native_rect m f H W Hm HH Hf) as Hr.
  rewrite (get2_zero_masked zero m2 _ H W p Hm2 Hr Hy Hx).
  destruct (mget m2 p); [reflexivity|]. cbn [orb].
  destruct (mget m p) eqn:E; [|reflexivity].
  apply (obs_native_masked_is_zero m f H W p Hm HH Hf E).
Qed.

(* ---- elementwise arithmetic on the stored array commutes with the slim reading; the native reading is re-zeroed *)
Theorem obs_of_fmap (g : A -> A) (m : mask) (f : form) H W :
  rectb H W m = true -> 0 < H -> wfb m H W f = true ->
  obs_slim zero m (fmap g f) = map g (obs_slim zero m f) /\
  obs_native zero m (fmap g f) = zero_masked zero m (map (map g) (obs_native zero m f)).
Proof.
  intros Hm HH Hf. destruct f as [s|n]; cbn [wfb fmap] in *.
  - apply Nat.eqb_eq in Hf. split; [reflexivity|].
    cbn [obs_native acc_native convert to_native].
    pose proof (native_from_rect zero m s H W Hm HH) as Hr.
    rewrite <- (native_slim_roundtrip zero m _ H W Hm (map_map_rect g _ H W Hr) HH).
    now rewrite slim_from_map, (slim_native_roundtrip zero m s H W Hm HH Hf).
  - pose proof (map_map_rect g n H W Hf) as Hg. pose proof (zero_masked_rect zero m n H W Hm Hf) as Hz.
    unfold obs_slim, obs_native, acc_slim, acc_native. cbn [convert to_slim to_native]. split.
    + rewrite (slim_from_zero_masked m _ H W Hm Hg HH), slim_from_map.
      now rewrite (slim_from_zero_masked m n H W Hm Hf HH).
    + rewrite <- (native_slim_roundtrip zero m _ H W Hm Hg HH).
      rewrite <- (native_slim_roundtrip zero m _ H W Hm (map_map_rect g _ H W Hz) HH).
      now rewrite !slim_from_map, (slim_from_zero_masked m n H W Hm Hf HH).
Qed.

(* ---- an in-place assignment to a MASKED entry of a natively stored array is never visible *)
Lemma in_upd {B} (l : list B) i v x : In x (upd l i v) -> (i < length l /\ x = v) \/ In x l.
Proof.
  revert i. induction l as [|a l IH]; intros [|i] Hin; cbn in *; auto.
  - destruct Hin as [E|Hin]; [left; split; [lia | auto] | right; auto].
  - destruct Hin as [E|Hin]; [right; auto|]. destruct (IH i Hin) as [[Hl E]|Hr]; [left; split; [lia|auto] | right; auto].
Qed.
Lemma upd2_rect (n : grid) p v H W : rectb H W n = true -> rectb H W (upd2 n p v) = true.
Proof.
  intros Hn. pose proof Hn as Hn'. apply rectb_spec in Hn'. destruct Hn' as [L R]. apply rectb_spec. split.
  - now rewrite upd2_rows.
  - intros r Hr. unfold upd2 in Hr. apply in_upd in Hr. destruct Hr as [[Hl E]|Hr]; auto.
    subst r. rewrite upd_length. apply R. now apply nth_In.
Qed.
Theorem set_masked_entry_invisible (m : mask) (n : grid) p v H W :
  rectb H W m = true -> rectb H W n = true -> 0 < H -> mget m p = true ->
  obs_slim zero m (Native (upd2 n p v)) = obs_slim zero m (Native n) /\
  obs_native zero m (Native (upd2 n p v)) = obs_native zero m (Native n).
Proof.
  intros Hm Hn HH Hp. pose proof (upd2_rect n p v H W Hn) as Hu.
  assert (E : zero_masked zero m (upd2 n p v) = zero_masked zero m n).
  { apply (grid_ext zero _ _ H W); try (apply zero_masked_rect; assumption).
    intros q Hy Hx. rewrite !(get2_zero_masked zero m _ H W) by assumption.
    destruct (mget m q) eqn:Eq; [reflexivity|]. apply get2_upd2_other. intro; subst q. congruence. }
  unfold obs_slim, obs_native, acc_slim, acc_native. cbn [convert to_slim to_native]. now rewrite E.
Qed.

(* ---- any history: every reading satisfies the invariant *)
Lemma step_wf (m : mask) (f : form) o H W :
  rectb H W m = true -> 0 < H -> wfb m H W f = true -> hop_ok m H W o = true -> wfb m H W (step zero m f o) = true.
Proof.
  intros Hm HH Hf Ho. destruct o as [g|f'|f' sn|k i j v| |]; cbn [step hop_ok] in *; auto.
  - destruct f as [s|n]; cbn [fmap wfb] in *; [now rewrite map_length | now apply map_map_rect].
  - now apply convert_wf.
  - destruct f as [s|n]; cbn [wfb] in *; [now rewrite upd_length | now apply upd2_rect].
  - now apply convert_wf.
  - now apply convert_wf.
Qed.
Theorem history_readings (m : mask) H W : rectb H W m = true -> 0 < H ->
  forall ops (f : form), wfb m H W f = true -> forallb (hop_ok m H W) ops = true ->
  forall so, In so (run_hist zero m f ops) ->
    snd so = native_from zero m (fst so) /\ length (fst so) = count m.
Proof.
  intros Hm HH. induction ops as [|o ops IH]; intros f Hf Hops so Hin; cbn [run_hist] in Hin.
  - destruct Hin as [E|[]]. subst so. apply (obs_native_is_scatter_of_obs_slim m f H W Hm HH Hf).
  - cbn [forallb] in Hops. apply andb_true_iff in Hops. destruct Hops as [Ho Hops].
    destruct Hin as [E|Hin].
    + subst so. apply (obs_native_is_scatter_of_obs_slim m f H W Hm HH Hf).
    + apply (IH (step zero m f o)); auto. now apply step_wf.
Qed.
End P2.

(* ---- 1-D objects read as the one-row 2-D objects *)
Section P2_1d.
Context {A : Type} (zero : A).
Definition lift1 (f : @form1 A) : @form A := match f with Slim1 s => Slim s | Native1 n => Native [n] end.
Lemma one_row_rect {B} (r : list B) : rectb 1 (length r) [r] = true.
Proof. apply rectb_spec. split; auto. intros r' [E|[]]. now subst. Qed.
Theorem obs_1d_is_one_row (r : list bool) (f : form1) :
  match f with Slim1 _ => True | Native1 n => length n = length r end ->
  obs_slim_1d zero r f = obs_slim zero [r] (lift1 f) /\ [obs_native_1d zero r f] = obs_native zero [r] (lift1 f).
Proof.
  intros Hf. destruct f as [s|n]; cbn [lift1].
  - split; [reflexivity|]. cbn [obs_native_1d convert_1d to_native_1d obs_native acc_native convert to_native].
    apply native_from_1d_is_one_row.
  - assert (Hn : rectb 1 (length r) [n] = true) by (rewrite <- Hf; apply one_row_rect).
    unfold obs_slim_1d, obs_native_1d, obs_slim, obs_native, acc_slim, acc_native.
    cbn [convert_1d to_slim_1d to_native_1d convert to_slim to_native]. split; [|reflexivity].
    rewrite (slim_from_zero_masked zero [r] [n] 1 (length r) (one_row_rect r) Hn) by lia.
    apply slim_from_1d_is_one_row.
Qed.
End P2_1d.

(* ---- a mask edited in place: the mask after `mask[y, x] = b` and its index lists *)
Lemma mset_rect (m : mask) p b H W : rectb H W m = true -> rectb H W (mset m p b) = true.
Proof.
  intros Hm. pose proof Hm as Hm'. apply rectb_spec in Hm'. destruct Hm' as [L R]. apply rectb_spec. split.
  - unfold mset. now rewrite upd_length.
  - intros r Hr. unfold mset in Hr. apply in_upd in Hr. destruct Hr as [[Hl E]|Hr]; auto.
    subst r. rewrite upd_length. apply R. now apply nth_In.
Qed.
Lemma mget_mset (m : mask) p b q H W :
  rectb H W m = true -> fst p < H -> snd p < W ->
  mget (mset m p b) q = if pair_eqb q p then b else mget m q.
Proof.
  intros Hm Hy Hx. pose proof Hm as Hm'. apply rectb_spec in Hm'. destruct Hm' as [L _].
  unfold mget, mset, pair_eqb. destruct (Nat.eqb_spec (fst q) (fst p)) as [Ey|Ey]; cbn [andb].
  - rewrite Ey. rewrite nth_upd_same by lia.
    destruct (Nat.eqb_spec (snd q) (snd p)) as [Ex|Ex].
    + rewrite Ex. apply nth_upd_same. rewrite (rect_row_len H W m (fst p) Hm Hy). exact Hx.
    + apply nth_upd_other. congruence.
  - rewrite nth_upd_other by congruence. reflexivity.
Qed.
Theorem indexes_after_edit (m : mask) p b H W :
  rectb H W m = true -> 0 < H -> fst p < H -> snd p < W ->
  native_for_slim (mset m p b) = filter (fun q => negb (if pair_eqb q p then b else mget m q)) (all_coords H W).
Proof.
  intros Hm HH Hy Hx. pose proof (mset_rect m p b H W Hm) as Hr.
  rewrite (native_for_slim_is_spec _ H W Hr HH). unfold unmasked_spec.
  rewrite (rect_width H W _ Hr HH). pose proof Hr as Hr'. apply rectb_spec in Hr'. destruct Hr' as [L _]. rewrite L.
  apply filter_ext. intros q. now rewrite (mget_mset m p b q H W Hm Hy Hx).
Qed.
Lemma mstep_rect (m : mask) o H W : rectb H W m = true -> mop_ok H W o = true -> rectb H W (mstep m o) = true.
Proof.
  intros Hm Ho. destruct o as [y x b|m'| |]; cbn [mstep mop_ok] in *; auto.
  - now apply mset_rect.
  - apply rectb_spec in Hm. destruct Hm as [L R]. apply rectb_spec. split; [now rewrite map_length|].
    intros r Hr. apply in_map_iff in Hr. destruct Hr as [r' [E Hin]]. subst r. rewrite map_length. auto.
Qed.
(* every reading along a mask history is the specification applied to the mask held at that moment *)
Theorem mask_history_readings (n : zgrid) H W : 0 < H -> rectb H W n = true ->
  forall ops (m : mask), rectb H W m = true -> forallb (mop_ok H W) ops = true ->
  run_mhist n m ops = map (mobs n) (mstates m ops) /\
  forall m', In m' (mstates m ops) ->
    rectb H W m' = true /\
    native_for_slim m' = unmasked_spec m' /\
    mask_slim_indexes m' false = flat_filter m' false /\ mask_slim_indexes m' true = flat_filter m' true /\
    map (fun p => fst p * W + snd p) (native_for_slim m') = mask_slim_indexes m' false /\
    slim_from m' n = map (get2 0%Z n) (unmasked_spec m').
Proof.
  intros HH Hn. induction ops as [|o ops IH]; intros m Hm Hops.
  - split; [reflexivity|]. intros m' [E|[]]. subst m'. repeat split; auto.
    + apply (native_for_slim_is_spec m H W Hm HH).
    + apply mask_slim_indexes_spec.
    + apply mask_slim_indexes_spec.
    + apply (slim_index_k_is_kth_unmasked m H W Hm).
    + rewrite <- (native_for_slim_is_spec m H W Hm HH). apply (slim_is_rowmajor_gather 0%Z m n H W Hm Hn).
  - cbn [forallb] in Hops. apply andb_true_iff in Hops. destruct Hops as [Ho Hops].
    destruct (IH (mstep m o) (mstep_rect m o H W Hm Ho) Hops) as [E1 E2].
    split; [cbn [run_mhist mstates map]; now rewrite E1|].
    intros m' [E|Hin]; [|apply E2; exact Hin]. subst m'. repeat split; auto.
    + apply (native_for_slim_is_spec m H W Hm HH).
    + apply mask_slim_indexes_spec.
    + apply mask_slim_indexes_spec.
    + apply (slim_index_k_is_kth_unmasked m H W Hm).
    + rewrite <- (native_for_slim_is_spec m H W Hm HH). apply (slim_is_rowmajor_gather 0%Z m n H W Hm Hn).
Qed.

(* ---- session 4: the number of slim entries is the number of False entries of the mask (any mask, ragged or not) *)
Lemma row_coords_length y r : forall x, length (row_coords y r x) = length (filter negb r).
Proof. induction r as [|b t IH]; intro x; cbn [row_coords filter negb]; [reflexivity|]. destruct b; cbn [negb length]; rewrite IH; reflexivity. Qed.
Lemma coords_from_length m : forall y, length (coords_from m y) = length (filter negb (concat m)).
Proof.
  induction m as [|r t IH]; intro y; cbn [coords_from concat]; [reflexivity|].
  rewrite app_length, filter_app, app_length, row_coords_length, IH. reflexivity.
Qed.
Theorem count_is_number_of_unmasked (m : mask) : count m = length (filter negb (concat m)).
Proof. unfold count, native_for_slim. apply coords_from_length. Qed.
Theorem slim_length_is_number_of_unmasked {A : Type} (zero : A) (m : mask) (n : list (list A)) H W :
  rectb H W m = true -> rectb H W n = true -> length (slim_from m n) = length (filter negb (concat m)).
Proof. intros Hm Hn. rewrite (slim_from_length zero m n H W Hm Hn). apply count_is_number_of_unmasked. Qed.
Theorem index_list_false_length (m : mask) H W : rectb H W m = true -> length (mask_slim_indexes m false) = count m.
Proof. intro Hm. rewrite <- (slim_index_k_is_kth_unmasked m H W Hm), map_length. reflexivity. Qed.
