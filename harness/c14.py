"""C14 -- resize, pad and trim keep data centred and attached to its coordinates."""
import itertools, contextlib, copy
from fractions import Fraction
import numpy as np
from harness.common import cz, cq, cbool, clist, ctup, copt, cres, call_res, import_aa

ID = "C14"
GEN = []
PROPS = "Props/C14.v"
COQ_CHECK = ("Model.C14k", "check")
COQ_FALLBACK = ("Model.C14k", "spec_ok")
COQ_IMPORTS = ""
SHARD = 400
RULE = ("exhaustive enumeration (see exhaustive_subspace) of (input shape, target shape) pairs in every parity "
        "combination through array_2d_util.resized_array_2d_from, Array2D.resized_from and Mask2D.resized_from; all odd "
        "kernels in {1,3,5,7}^2 (plus some even ones) through padded_before_convolution_from / "
        "trimmed_after_convolution_from / Mask2D.trimmed_array_from and their compositions; all masks of small shapes "
        "with buffers 0..2 through Mask2D.zoom_region / Array2D.zoomed_around_mask; Imaging.apply_mask (automatic "
        "padding) over masks, kernels, pixel scales and origins observing .data/.noise_map/.grids.uniform/.mask; "
        "Mask2D.resized_from + Grid2D.from_mask for the coordinate clause; Imaging.apply_mask followed by "
        "AbstractDataset.trimmed_after_convolution_from on inputs that get padded; the output geometry of the zoom routines "
        "(Array2D.zoomed_around_mask: shape / pixel scales / origin for buffers -3..3; Mask2D.mask_centre, zoom_centre, "
        "zoom_offset_pixels, zoom_offset_scaled, zoom_shape_native, zoom_mask_unmasked) over all small masks and 9 geometries "
        "(anisotropic, asymmetric origins, pixel scales 2**-30 .. 2**21); HISTORIES on one object: an Array2D observed 6-12 "
        "times (same shape with both mask pad values, pad, trim, zoom) with in-place edits arr[...] = v in between, a Mask2D "
        "read / edited mask[y, x] = ... / re-read, an Imaging dataset masked several times, re-masked from a masked / padded / "
        "trimmed result, its data edited in place; every array under test is built in 7 ways (fresh, .native, "
        "store_native=True, from slim values, result of arithmetic, deep copy, general.yaml native_binned_only=True) and the "
        "data of Imaging in 6; values are integers (including 0 and 31-bit mantissas) times 2**sc, sc in {0, -40, 40, -70, 30}; "
        "every call is followed by a fingerprint comparison of the objects the caller still holds; plus a random stream of larger shapes; "
        "PHASE 4: the util functions on int / bool / uint8 / float32 ndarrays (Fortran order, strided views, read-only) with fractional pad "
        "values; Array2D entry points on integer / float32 / list values, Kernel2D and user-subclass instances, subclass masks, shape arguments as "
        "tuple / list / numpy integers, default arguments omitted; masks from Mask2D.all_false / circular / from_pixel_coordinates; "
        "Imaging(..., pad_for_convolver=True/False) directly, explicit OverSamplingDataset, PSF pixel scales independent of the data's, "
        "non-positive noise at masked pixels, noise-map edits in histories, Imaging / Kernel2D subclasses; sibling entry points "
        "(preprocess.array_with_new_shape, Mask2D.unmasked_blurred_array_from, Mask2D.from_fits(resized_mask_shape), "
        "Array2D.extent_of_zoomed_array, Grid2D.padded_grid_from); the default-argument objects of the anchored callables are fingerprinted "
        "after every case. "
        "Every case is non-trivial (it runs an anchored routine); distinct = distinct JSON input.")
EXHAUSTIVE = {
    "quick": "util resize: all shapes 1..5 x 1..5 to all targets 0..6 x 0..6; Array2D/Mask2D.resized_from: shapes 1..4^2 to "
             "targets 1..6^2 (mask drawn per case); pad / trim / pad-then-trim / trimmed_array_from: shapes 1..4^2 x kernels "
             "{1,3,5,7}^2; enlarge-then-shrink: shapes 1..4^2 x enlargements 0..3 per axis; zoom: every mask with H*W <= 7, "
             "buffer cycling 0,1,2 (negative buffers -1,-2 on every third); zoom geometry (mask properties and "
             "zoomed_around_mask's mask with buffers cycling 0,1,-1,2,-2,0,-3 on every second one) for the same masks; apply_mask: every mask with H*W <= 6 with kernel (3,3); "
             "Grid2D.padded_grid_from: shapes 1..3^2 x kernels {1,3,5,7}^2",
    "thorough": "util resize: shapes 1..8^2 to targets 0..9^2; Array2D/Mask2D.resized_from: shapes 1..7^2 to targets 1..9^2; "
                "pad/trim family: shapes 1..6^2 x kernels {1,3,5,7}^2; enlarge-then-shrink: shapes 1..6^2 x enlargements 0..4; "
                "zoom: every mask with H*W <= 9 (each buffer 0,1,2 up to H*W <= 8, cycling above), zoom geometry for the same masks; apply_mask: every mask with H*W <= 8, kernels (3,3),(1,5),(5,3); "
                "Grid2D.padded_grid_from: shapes 1..5^2 x kernels {1,3,5,7}^2",
}
TRUSTED = ["correspondence harness harness/c14.py (exact: integer data times powers of two, dyadic pixel scales / origins, outputs converted with "
           "Fraction); for histories with in-place edits the harness tracks which content a re-masked dataset refers to (the live unmasked "
           "dataset, or the snapshot held by a dataset whose own mask is all False)",
           "numpy slicing a[lo:hi] (Model.C14.pyslice incl. negative bounds), element-wise array *= invert(mask) "
           "(Model.C14.mask_apply), np.where/amin/amax (Model.C14.zoom_region), bool<->float casts of Mask2D.resized_from",
           "Array2D slim<->native storage (property C01): the model keeps the native array; the harness reads .native/.slim"]
ASSUMPTIONS = ["kernels of the proved clauses are odd and >= 1 per axis (the property's quantifier); even kernels are exercised for "
               "correspondence only (the automatic padding then changes parity and shifts coordinates by half a pixel)",
               "target shapes >= 0, noise maps positive on unmasked pixels (Imaging's own check), pixel scales non-zero; "
               "Mask2D.trimmed_array_from with an image shape LARGER than the mask (negative pad sizes, python negative slice indices) is "
               "exercised for correspondence only",
               "array values arbitrary (theorems polymorphic in the element type / over R); correspondence uses integers"]

_tally = {}
def tally(k): _tally[k] = _tally.get(k, 0) + 1
def extra_evidence(): return {"distribution": dict(sorted(_tally.items()))}

# ------------------------------------------------------------------ printing
def czarr(m): return clist([clist([cz(x) for x in row]) for row in m])
def cbarr(m): return clist([clist([cbool(x) for x in row]) for row in m])
def cpair(p): return ctup([cz(p[0]), cz(p[1])])
def ca2(a): return ctup([czarr(a[0]), cbarr(a[1])])
def cgeom(g): return ctup([cq(Fraction(x)) for x in g])
def cqq(p): return ctup([cq(p[0]), cq(p[1])])

def to_int(v, sc=0):
    """the integer n with v == n * 2**sc exactly (values are generated as integers times a power of two)"""
    fv = Fraction(float(v)) / (Fraction(2) ** sc)
    if fv.denominator != 1: raise ValueError("value is not an integer multiple of the case's scale")
    return int(fv)
def zout(a, sc=0): return [[to_int(v, sc) for v in row] for row in np.asarray(a).tolist()] if np.asarray(a).ndim == 2 else []
def bout(a): return [[bool(v) for v in row] for row in np.asarray(a).tolist()] if np.asarray(a).ndim == 2 else []
def a2out(arr, sc=0): return [zout(np.array(arr.native), sc), bout(np.array(arr.mask))]
def fr(x): return Fraction(float(x))

# ------------------------------------------------------------------ generators
BIGV = [2 ** 30 + 1, 2 ** 31 - 3, 16777217, 2 ** 29 + 5]      # > 24 significant bits: not representable in float32
def values(h, w, rng, lo=-9, hi=9, wide=False):
    """non-zero small integers; wide=True mixes in exact zeros and integers with > 24 significant bits"""
    pool = [v for v in range(lo, hi + 1) if v != 0]
    def one():
        if wide:
            u = rng.random()
            if u < 0.12 and lo <= 0: return 0
            if u < 0.30: return rng.choice(BIGV) * (1 if lo > 0 else rng.choice([1, -1]))
        return rng.choice(pool)
    return [[one() for _ in range(w)] for _ in range(h)]
DVS = ["fresh", "native", "sn", "arith", "resized", "cfg"]           # how the data / noise map of an Imaging were obtained
VARS = ["fresh", "native", "sn", "slim", "arith", "cfg", "copy"]          # how the Array2D under test was obtained
# phase 4: input KINDS (integer / float32 / bool-free python-list values), SUBCLASS instances (Kernel2D, a user subclass of
# Array2D, a user subclass of Mask2D as the mask), arrays obtained through other constructors (no_mask + Array2D.apply_mask, full)
VARS2 = ["int", "f32", "list", "kernel", "sub", "applied", "submask"]
DVS2 = ["int", "f32", "list", "sub", "submask"]                  # the same for the data / noise map handed to Imaging
SKS = ["tuple", "list", "npint"]                                 # how shape / kernel-shape / buffer arguments are passed
SCS = [0, -40, 0, 40, 0, -70, 30]                                  # values are integers times 2**sc
def rmask(h, w, rng, p=None):
    p = rng.choice([0.0, 0.3, 0.6, 0.85]) if p is None else p
    return [[rng.random() < p for _ in range(w)] for _ in range(h)]
def all_masks(h, w):
    for bits in itertools.product([False, True], repeat=h * w):
        yield [list(bits[y * w:(y + 1) * w]) for y in range(h)]
GEOMS = [("1", "1", "0", "0"), ("1/2", "2", "1", "-2"), ("2", "1/4", "-1/2", "3/4"), ("1/4", "1/2", "1/4", "0"),
         ("3/2", "3", "3", "-3/2"), ("1", "3/2", "-2", "3"),
         ("1/1073741824", "1/536870912", "3/1073741824", "-5/536870912"),      # tiny pixel scales (2**-30), origin of the same order
         ("1048576", "2097152", "-3145728", "1048576"), ("1/1024", "512", "5", "-256")]
ODD = [1, 3, 5, 7]

def needs_pad(m, k):
    """an unmasked pixel whose (odd) kernel footprint leaves the frame: Imaging pads"""
    h, w = len(m), len(m[0]); c0, c1 = (k[0] - 1) // 2, (k[1] - 1) // 2
    return any((not m[y][x]) and (y < c0 or y + c0 >= h or x < c1 or x + c1 >= w) for y in range(h) for x in range(w))

def gen_inputs(tier, rng):
    """all streams; the environment variable C14_ONLY=op1,op2 (development aid) keeps only those ops (the PRNG stream is the same)"""
    import os
    only = [x for x in os.environ.get("C14_ONLY", "").split(",") if x]
    for inp in _gen_inputs(tier, rng):
        if not only or inp["op"] in only or inp.get("tag") in only: yield inp

def _gen_inputs(tier, rng):
    big = tier == "thorough"
    # --- util resize, exhaustive over shapes and targets (all parity combinations)
    S, R = (8, 9) if big else (5, 6)
    for h, w in itertools.product(range(1, S + 1), repeat=2):
        for r0, r1 in itertools.product(range(0, R + 1), repeat=2):
            off = rng.randint(0, 40)          # same shape, other content: a result remembered per shape would show
            m = [[off + 1 + y * w + x for x in range(w)] for y in range(h)]
            yield {"op": "resize_u", "m": m, "rs": [r0, r1], "origin": [-1, -1], "pad": -7 if (r0 + r1) % 3 == 0 else 0}
    for _ in range(600 if big else 150):   # explicit origin, negative shapes: correspondence only
        h, w = rng.randint(1, 6), rng.randint(1, 6)
        yield {"op": "resize_u", "m": values(h, w, rng), "rs": [rng.randint(-1, 8), rng.randint(0, 8)],
               "origin": [rng.randint(-2, 7), rng.randint(-2, 7)], "pad": rng.randint(-3, 3)}
    for _ in range(1500 if big else 300):
        h, w = rng.randint(1, 6), rng.randint(1, 6)
        y0, x0 = rng.randint(-3, h + 1), rng.randint(-3, w + 1)
        yield {"op": "extract_u", "m": values(h, w, rng), "r": [y0, rng.randint(y0 - 1, h + 3), x0, rng.randint(x0 - 1, w + 3)]}
    # --- Array2D.resized_from / Mask2D.resized_from
    S, R = (7, 9) if big else (4, 6)
    i = 0
    for h, w in itertools.product(range(1, S + 1), repeat=2):
        for r0, r1 in itertools.product(range(1, R + 1), repeat=2):
            i += 1
            yield {"op": "arr_resize", "a": [values(h, w, rng, wide=True), rmask(h, w, rng)], "rs": [r0, r1], "mpv": i % 2,
                   "var": VARS[i % len(VARS)], "sc": SCS[i % 7]}
            yield {"op": "mask_resize", "m": rmask(h, w, rng, 0.5), "rs": [r0, r1], "padv": [0, 1, 0, 2, -1][i % 5]}
            if (r0 - h) % 2 == 0 and (r1 - w) % 2 == 0 or i % 4 == 0:
                yield {"op": "resize_coords", "m": rmask(h, w, rng, 0.4), "rs": [r0, r1], "g": list(GEOMS[i % len(GEOMS)])}
    for rs in ([0, 0], [0, 2], [2, 0]):
        yield {"op": "arr_resize", "a": [values(2, 3, rng), rmask(2, 3, rng)], "rs": rs, "mpv": 0}
        yield {"op": "mask_resize", "m": rmask(2, 3, rng, 0.5), "rs": rs, "padv": 1}
    # --- pad / trim family
    S = 6 if big else 4
    for h, w in itertools.product(range(1, S + 1), repeat=2):
        for k0, k1 in itertools.product(ODD, repeat=2):
            i += 1
            a = [values(h, w, rng, wide=True), rmask(h, w, rng)]
            vs = {"var": VARS[i % len(VARS)], "sc": SCS[i % 7]}
            yield {"op": "arr_pad", "a": a, "k": [k0, k1], "mpv": i % 2, **vs}
            yield {"op": "arr_trim", "a": [values(h, w, rng, wide=True), rmask(h, w, rng)], "k": [k0, k1], **vs}
            yield {"op": "pad_trim", "a": a, "k": [k0, k1], "mpv": (i // 2) % 2, **vs}
            yield {"op": "pad_trimarr", "a": a, "k": [k0, k1], **vs}
        for k0, k1 in ((2, 2), (4, 3), (3, 6), (2, 1)):   # even kernels: correspondence only
            a = [values(h, w, rng), rmask(h, w, rng)]
            yield {"op": "arr_pad", "a": a, "k": [k0, k1], "mpv": 1}
            yield {"op": "arr_trim", "a": a, "k": [k0, k1]}
            yield {"op": "pad_trim", "a": a, "k": [k0, k1], "mpv": 0}
            yield {"op": "pad_trimarr", "a": a, "k": [k0, k1]}
        for e0, e1 in itertools.product(range(0, 5 if big else 4), repeat=2):
            i += 1
            yield {"op": "enlarge_shrink", "a": [values(h, w, rng, wide=True), rmask(h, w, rng)], "rs": [h + e0, w + e1], "mpv": i % 2,
                   "var": VARS[i % len(VARS)], "sc": SCS[i % 7]}
        for d0, d1 in itertools.product(range(-2, 5), repeat=2):   # trimmed_array_from with arbitrary image shapes
            ish = [h - d0, w - d1]
            if ish[0] < 0 or ish[1] < 0: continue
            yield {"op": "trimarr", "p": values(h, w, rng), "is": ish}
    # --- zoom
    lim = 9 if big else 7
    for h in range(1, lim + 1):
        for w in range(1, lim // h + 1):
            for mk in all_masks(h, w):
                i += 1
                yield {"op": "zoom_region", "m": mk}
                if not all(all(r) for r in mk) or i % 8 == 0:
                    yield {"op": "mask_zoom", "m": mk, "g": list(GEOMS[i % len(GEOMS)])}
                    if big or i % 2 == 0:
                        yield {"op": "zoom_geo", "m": mk, "v": values(h, w, rng), "g": list(GEOMS[(i // 3) % len(GEOMS)]),
                               "b": [0, 1, -1, 2, -2, 0, -3][(i // 2) % 7], "var": VARS[i % len(VARS)]}
                    if i % 3 == 0: yield {"op": "zoom", "a": [values(h, w, rng, wide=True), mk], "b": -1 - (i // 3) % 2, "var": VARS[i % len(VARS)], "sc": SCS[i % 7]}
                for b in ((0, 1, 2) if big and h * w <= 8 else (i % 3,)):
                    yield {"op": "zoom", "a": [values(h, w, rng, wide=True), mk], "b": b, "var": VARS[i % len(VARS)], "sc": SCS[i % 7]}
    yield {"op": "zoom", "a": [values(2, 2, rng), rmask(2, 2, rng, 0.5)], "b": -1}
    # --- Imaging.apply_mask
    lim = 8 if big else 6
    kers = [(3, 3), (1, 5), (5, 3)] if big else [(3, 3)]
    for h in range(1, lim + 1):
        for w in range(1, lim // h + 1):
            for mk in all_masks(h, w):
                for k in kers:
                    i += 1
                    yield {"op": "apply_mask", "data": values(h, w, rng, wide=True), "noise": values(h, w, rng, 1, 9, wide=True), "m": mk,
                           "k": list(k), "g": list(GEOMS[i % len(GEOMS)]), "dv": DVS[i % 6], "sc": SCS[i % 7]}
    for _ in range(3000 if big else 300):
        h, w = rng.randint(1, 7), rng.randint(1, 7)
        k = rng.choice([None, None] + [[a, b] for a in ODD for b in ODD] + [[2, 2], [4, 3]])
        yield {"op": "apply_mask", "data": values(h, w, rng, wide=True), "noise": values(h, w, rng, 1, 9, wide=True),
               "m": rmask(h, w, rng, rng.choice([0.3, 0.6, 0.9])), "k": k, "g": list(rng.choice(GEOMS)),
               "dv": rng.choice(DVS), "sc": rng.choice(SCS)}
    # --- Imaging.apply_mask (padding) then AbstractDataset.trimmed_after_convolution_from (inputs of the padded class only)
    n = 0
    while n < (1500 if big else 250):
        h, w = rng.randint(1, 6), rng.randint(1, 6)
        k = [rng.choice(ODD), rng.choice(ODD)]
        mk = rmask(h, w, rng, rng.choice([0.3, 0.6, 0.9]))
        if not needs_pad(mk, k): continue
        n += 1
        yield {"op": "apply_mask_trim", "data": values(h, w, rng, wide=True), "noise": values(h, w, rng, 1, 9, wide=True), "m": mk, "k": k,
               "g": list(rng.choice(GEOMS)), "touch": n % 2 == 0, "dv": DVS[n % 5], "sc": SCS[n % 7]}
    # --- histories: ONE object observed several times / edited in place / re-read (every observation is a Coq case)
    def arr_steps(h, w, mk):
        st = []
        for _ in range(rng.randint(5, 8)):
            c = rng.random()
            if c < 0.3:
                rs = [rng.randint(1, 6), rng.randint(1, 6)]
                st.append(["resize", rs, 0]); st.append(["resize", rs, 1])          # same object, same shape, other pad value
            elif c < 0.42: st.append(["pad", [rng.choice(ODD), rng.choice(ODD)], rng.randint(0, 1)])
            elif c < 0.54: st.append(["trim", [rng.choice(ODD[:3]), rng.choice(ODD[:3])]])
            elif c < 0.62: st.append(["padtrim", [rng.choice(ODD), rng.choice(ODD)], rng.randint(0, 1)])
            elif c < 0.70: st.append(["enlshr", [h + rng.randint(0, 3), w + rng.randint(0, 3)], rng.randint(0, 1)])
            elif c < 0.78 and not all(all(r) for r in mk): st.append(["zoom", rng.randint(-1, 2)])
            elif c < 0.84 and not all(all(r) for r in mk): st.append(["zoomgeo", rng.randint(-1, 2)])
            else: st.append(["edit", rng.randrange(h), rng.randrange(w), rng.randint(11, 99)])
        if st[0][0] == "edit": st.reverse()
        if st[0][0] == "edit": st.insert(0, ["resize", [h + 1, w], 0])
        return st + [list(x) for x in st[:2] if x[0] != "edit"]                         # and the first observations once more
    for n in range(500 if big else 130):
        h, w = rng.randint(1, 5), rng.randint(1, 5); mk = rmask(h, w, rng, rng.choice([0.0, 0.3, 0.6]))
        yield {"op": "hist_arr", "a": [values(h, w, rng, wide=True), mk], "var": VARS[n % len(VARS)], "sc": SCS[n % 7], "steps": arr_steps(h, w, mk)}
    for n in range(400 if big else 110):
        h, w = rng.randint(1, 5), rng.randint(1, 5); mk = rmask(h, w, rng, rng.choice([0.3, 0.6, 0.85])); cur = [list(r) for r in mk]
        st = []
        for _ in range(rng.randint(5, 8)):
            c = rng.random()
            if c < 0.15: st.append(["zoom_region"])
            elif c < 0.25: st.append(["mask_zoom"])
            elif c < 0.45: st.append(["resize", [rng.randint(1, 6), rng.randint(1, 6)], rng.choice([0, 1, 1, 2])])
            elif c < 0.55: st.append(["coords", [h + 2 * rng.randint(-1, 2), w + 2 * rng.randint(-1, 2)]])
            elif c < 0.65: st.append(["trimarr", values(h, w, rng), [h - 2 * rng.randint(0, h // 2), w - 2 * rng.randint(0, w // 2)]])
            else:
                y, x = rng.randrange(h), rng.randrange(w)
                cur[y][x] = not cur[y][x]
                if all(all(r) for r in cur): cur[y][x] = False; continue          # keep one unmasked pixel
                st.append(["edit", y, x]); st.append(rng.choice([["zoom_region"], ["mask_zoom"]]))
        st = [x for x in st if x[0] != "coords" or min(x[1]) >= 1]
        if not st or st[0][0] == "edit": st.insert(0, ["zoom_region"])
        if all(all(r) for r in mk): st = [x for x in st if x[0] != "edit"]
        yield {"op": "hist_mask", "m": mk, "g": list(rng.choice(GEOMS)), "steps": st}
    for n in range(400 if big else 110):
        h, w = rng.randint(1, 5), rng.randint(1, 5)
        k = rng.choice([None, [1, 1], [3, 3], [3, 3], [1, 3], [5, 3], [3, 5]])
        st = []
        for j in range(rng.randint(3, 5)):
            c = rng.random()
            mkj = rmask(h, w, rng, rng.choice([0.0, 0.3, 0.6, 0.9]))
            if c < 0.2 and j > 0: st.append(["edit", rng.randrange(h), rng.randrange(w), rng.randint(11, 99)])
            st.append([rng.choice(["mask", "mask", "chain", "trimchain"]) if j > 0 else "mask", mkj])
        st.append(["mask", st[0][1]])                                                   # the first mask once more
        yield {"op": "hist_img", "data": values(h, w, rng, wide=True), "noise": values(h, w, rng, 1, 9, wide=True), "k": k,
               "g": list(rng.choice(GEOMS)), "dv": DVS[n % 6], "sc": SCS[n % 7], "steps": st}
    # --- random larger shapes
    for _ in range(1200 if big else 200):
        h, w = rng.randint(5, 12), rng.randint(5, 12)
        r = [rng.randint(1, 14), rng.randint(1, 14)]
        a = [values(h, w, rng, -99, 99), rmask(h, w, rng)]
        yield {"op": "arr_resize", "a": a, "rs": r, "mpv": rng.randint(0, 1)}
        yield {"op": "enlarge_shrink", "a": a, "rs": [h + rng.randint(0, 5), w + rng.randint(0, 5)], "mpv": rng.randint(0, 1)}
        k = [rng.choice(ODD + [9]), rng.choice(ODD + [9])]
        yield {"op": "pad_trim", "a": a, "k": k, "mpv": rng.randint(0, 1)}
        if not all(all(row) for row in a[1]):
            yield {"op": "zoom", "a": a, "b": rng.randint(-2, 3)}
            yield {"op": "zoom_geo", "m": a[1], "v": a[0], "g": list(rng.choice(GEOMS)), "b": rng.randint(-3, 3), "var": rng.choice(VARS)}
            yield {"op": "mask_zoom", "m": a[1], "g": list(rng.choice(GEOMS))}
        r2 = [h + 2 * rng.randint(-2, 3), w + 2 * rng.randint(-2, 3)]
        yield {"op": "resize_coords", "m": a[1], "rs": r2, "g": list(rng.choice(GEOMS))}

    # ================= phase 4: input kinds, subclasses, argument objects, sibling entry points, directed states
    # --- util functions on integer / bool / float32 / uint8 ndarrays, Fortran order, strided views, read-only; fractional pad value
    DTS = ["int64", "int32", "bool", "float32", "uint8", "float64"]; LAYS = ["c", "f", "view", "ro"]
    def kind_vals(h, w, dt):
        if dt == "bool": return [[rng.randint(0, 1) for _ in range(w)] for _ in range(h)]
        if dt == "uint8": return [[rng.randint(0, 9) for _ in range(w)] for _ in range(h)]
        return values(h, w, rng)
    for n in range(600 if big else 130):
        h, w = rng.randint(1, 5), rng.randint(1, 5); dt = DTS[n % 6]; omit = n % 3 == 0
        yield {"op": "resize_u", "tag": "kinds", "m": kind_vals(h, w, dt), "dt": dt, "lay": LAYS[(n // 6) % 4], "rs": [rng.randint(0, 7), rng.randint(0, 7)],
               "origin": [-1, -1] if omit else [rng.choice([-1, -1, 0, 1, 2, 3]), rng.choice([-1, 0, 1, 2, 4])], "omit": omit,
               "pad2": rng.choice([1, -3, 5, 7, 2, 0]), "sk": SKS[n % 3]}
    for n in range(300 if big else 60):
        h, w = rng.randint(1, 5), rng.randint(1, 5); dt = DTS[n % 6]
        y0, x0 = rng.randint(-2, h), rng.randint(-2, w)
        yield {"op": "extract_u", "tag": "kinds", "m": kind_vals(h, w, dt), "dt": dt, "lay": LAYS[(n // 6) % 4], "sk": SKS[n % 3],
               "r": [y0, rng.randint(y0, h + 2), x0, rng.randint(x0, w + 2)]}
    # --- Array2D entry points on other input kinds / subclass instances, shape arguments as list / numpy integers, defaults omitted,
    #     resize through dataset.preprocess.array_with_new_shape
    for n in range(1300 if big else 270):
        h, w = rng.randint(1, 6), rng.randint(1, 6)
        mk = rmask(h, w, rng); a = [values(h, w, rng, wide=(n % 2 == 0)), mk]
        vs = {"tag": "kinds", "var": VARS2[n % 7], "sc": SCS[(n // 7) % 7], "sk": SKS[(n + n // 9) % 3], "omit": (n // 3) % 2 == 0, "pre": n % 4 == 1}
        kk = [rng.choice(ODD), rng.choice(ODD)]
        c = n % 9
        if c == 0: yield {"op": "arr_resize", "a": a, "rs": [rng.randint(1, 7), rng.randint(1, 7)], "mpv": (n // 9) % 2, **vs}
        elif c == 1: yield {"op": "arr_pad", "a": a, "k": kk, "mpv": (n // 9) % 2, **vs}
        elif c == 2:      # a kernel that leaves something (k <= shape per axis) three times out of four
            kt = kk if n % 4 == 3 else [rng.choice([k for k in ODD if k <= h]), rng.choice([k for k in ODD if k <= w])]
            yield {"op": "arr_trim", "a": a, "k": kt, **vs}
        elif c == 3: yield {"op": "pad_trim", "a": a, "k": kk, "mpv": (n // 9) % 2, **vs}
        elif c == 4: yield {"op": "enlarge_shrink", "a": a, "rs": [h + rng.randint(0, 3), w + rng.randint(0, 3)], "mpv": (n // 9) % 2, **vs}
        elif c == 5: yield {"op": "pad_trimarr", "a": a, "k": kk, **vs}
        elif c == 6: yield {"op": "arr_resize", "a": a, "rs": [h + 2 * rng.randint(-1, 2), w + 2 * rng.randint(-1, 2)], "mpv": 0, **vs}
        else:
            if all(all(r) for r in mk): mk[rng.randrange(h)][rng.randrange(w)] = False
            if c == 7: yield {"op": "zoom", "a": a, "b": rng.choice([1, 1, 0, 2, -1]), **vs}
            else: yield {"op": "zoom_geo", "m": mk, "v": a[0], "g": list(rng.choice(GEOMS)), "b": rng.choice([1, 1, 0, 2, -1]), **vs}
    for n in range(150 if big else 40):
        h, w = rng.randint(1, 5), rng.randint(1, 5); mk = rmask(h, w, rng, rng.choice([0.0, 0.3, 0.6]))
        yield {"op": "hist_arr", "tag": "kinds", "a": [values(h, w, rng, wide=True), mk], "var": VARS2[n % 7], "sc": SCS[(n // 7) % 7],
               "sk": SKS[n % 3], "omit": n % 2 == 0, "pre": n % 4 == 1, "steps": arr_steps(h, w, mk)}
    # --- masks obtained through other constructors (classmethods, a user subclass, python lists)
    def mc_rand():
        h, w = rng.randint(1, 7), rng.randint(1, 7); c = rng.random()
        if c < 0.2: return ["sub", rmask(h, w, rng, 0.5)]
        if c < 0.35: return ["list", rmask(h, w, rng, 0.5)]
        if c < 0.45: return ["all_false", h, w]
        if c < 0.75: return ["circular", h, w, rng.randint(1, 6), rng.randint(-3, 3), rng.randint(-3, 3)]
        return ["pixcoords", h, w, [[rng.randrange(h), rng.randrange(w)] for _ in range(rng.randint(1, 3))], rng.choice([0, 0, 1])]
    for n in range(450 if big else 100):
        mc = mc_rand(); g = list(rng.choice(GEOMS)); c = n % 5
        base = {"tag": "kinds", "mc": mc, "m": None, "sk": SKS[n % 3], "omit": n % 2 == 0}
        if c == 0: yield {"op": "zoom_region", **base}
        elif c == 1: yield {"op": "mask_zoom", "g": g, **base}
        elif c == 2: yield {"op": "mask_resize", "rs": [rng.randint(0, 8), rng.randint(0, 8)], "padv": rng.choice([0, 0, 1, 2]), **base}
        elif c == 3: yield {"op": "resize_coords", "rs": [rng.randint(1, 8), rng.randint(1, 8)], "g": g, **base}
        else:
            if mc[0] not in ("sub", "list"): mc = ["sub", rmask(rng.randint(1, 5), rng.randint(1, 5), rng, 0.5)]
            m0 = mc[1]
            if all(all(r) for r in m0): m0[0][0] = False
            h, w = len(m0), len(m0[0])
            st = [["zoom_region"], ["resize", [rng.randint(1, 6), rng.randint(1, 6)], rng.choice([0, 1])], ["mask_zoom"],
                  ["resize", [rng.randint(1, 6), rng.randint(1, 6)], 0], ["trimarr", values(h, w, rng), [h - 2 * rng.randint(0, h // 2), w - 2 * rng.randint(0, w // 2)]],
                  ["coords", [h + 2 * rng.randint(0, 2), w + 2 * rng.randint(0, 2)]], ["zoom_region"]]
            rng.shuffle(st)
            yield {"op": "hist_mask", "g": g, "steps": st, "blur": n % 2 == 1, **{**base, "mc": mc}}
    # --- Grid2D.padded_grid_from (the PSF padding of a grid): exhaustive over small shapes and odd kernels, some even kernels
    S = 5 if big else 3
    for h, w in itertools.product(range(1, S + 1), repeat=2):
        for k0, k1 in list(itertools.product(ODD, repeat=2)) + [(2, 2), (4, 3), (1, 2)]:
            i += 1
            yield {"op": "pad_grid", "m": rmask(h, w, rng, 0.4), "k": [k0, k1], "g": list(GEOMS[i % len(GEOMS)]), "sk": SKS[i % 3],
                   "via": ["from_mask", "uniform", "no_mask"][i % 3], "twice": i % 2 == 0}
    for n in range(60 if big else 16):          # Mask2D.from_fits(resized_mask_shape=..., invert=...)
        h, w = rng.randint(1, 5), rng.randint(1, 5)
        yield {"op": "mask_fits", "m": rmask(h, w, rng, 0.5), "rs": [rng.randint(1, 7), rng.randint(1, 7)], "inv": n % 2 == 1, "sk": SKS[n % 3]}
    for n in range(250 if big else 60):         # trimmed_array_from: through unmasked_blurred_array_from, argument kinds, subclass mask
        h, w = rng.randint(1, 6), rng.randint(1, 6)
        yield {"op": "trimarr", "tag": "kinds", "p": values(h, w, rng, wide=(n % 3 == 0)), "is": [rng.randint(0, h), rng.randint(0, w)],
               "blur": n % 2 == 0, "sk": SKS[n % 3], "submask": n % 4 == 0}
    # --- Imaging: the three geometries (mask, unmasked data, PSF) varied independently; Imaging(..., pad_for_convolver=...) reached
    #     directly; explicit OverSamplingDataset argument; non-positive noise at masked pixels; subclass instances; input kinds
    def border_masks(h, w):
        for y in range(h):
            for x in range(w):
                if y in (0, h - 1) or x in (0, w - 1): yield [[not (yy == y and xx == x) for xx in range(w)] for yy in range(h)]
    directed = [(mk, k) for h, w in ((3, 4), (1, 3), (4, 1)) for mk in border_masks(h, w) for k in ([1, 3], [3, 1], [5, 1], [1, 5], [3, 5])]
    if not big: directed = directed[::3]
    nrand = 1200 if big else 200
    for n in range(nrand + len(directed)):
        if n < nrand:
            h, w = rng.randint(1, 6), rng.randint(1, 6)
            mk = rmask(h, w, rng, rng.choice([0.3, 0.6, 0.9])); k = rng.choice([None] + [[a, b] for a in ODD[:3] for b in ODD[:3]] + [[2, 2]])
        else:
            mk, k = directed[n - nrand]; h, w = len(mk), len(mk[0])    # one unmasked border pixel, kernels extended along one axis only
        noise = values(h, w, rng, 1, 9, wide=(n % 2 == 1))
        nneg = n % 3 == 0
        if nneg: noise = [[(rng.choice([0, -1, -7]) if mk[y][x] else noise[y][x]) for x in range(w)] for y in range(h)]
        g = list(rng.choice(GEOMS))
        yield {"op": "apply_mask", "tag": "kinds", "data": values(h, w, rng, wide=(n % 2 == 1)), "noise": noise, "m": mk, "k": k, "g": g,
               "gp": list(rng.choice(GEOMS))[:2] if n % 4 < 3 else g[:2],
               "dv": (DVS + DVS2)[n % 11], "sc": SCS[(n // 11) % 7], "entry": ["apply", "direct", "apply", "direct_nopad"][n % 4] if not nneg else ["apply", "direct"][n % 2],
               "nocheck": nneg, "os": [rng.randint(1, 3), rng.randint(1, 3)] if n % 5 < 2 else None, "subimg": n % 7 == 0, "subpsf": n % 7 == 3}
    for n in range(150 if big else 40):
        h, w = rng.randint(1, 5), rng.randint(1, 5)
        k = rng.choice([None, [3, 3], [3, 3], [1, 3], [5, 3]])
        st = []
        for j in range(rng.randint(3, 5)):
            mkj = rmask(h, w, rng, rng.choice([0.0, 0.3, 0.6, 0.9]))
            if j > 0 and rng.random() < 0.4: st.append([rng.choice(["edit", "nedit"]), rng.randrange(h), rng.randrange(w), rng.randint(11, 99)])
            st.append([rng.choice(["mask", "mask", "chain", "trimchain"]) if j > 0 else "mask", mkj])
        st.append(["mask", st[0][1]])
        g = list(rng.choice(GEOMS))
        yield {"op": "hist_img", "tag": "kinds", "data": values(h, w, rng, wide=True), "noise": values(h, w, rng, 1, 9, wide=True), "k": k,
               "g": g, "gp": list(rng.choice(GEOMS))[:2], "dv": (DVS + DVS2)[n % 11], "sc": SCS[(n // 11) % 7], "steps": st,
               "os": [rng.randint(1, 3), rng.randint(1, 3)] if n % 2 == 0 else None, "subimg": n % 3 == 0, "sk": SKS[n % 3]}

# ------------------------------------------------------------------ implementation calls
_SUB = {}
def subclasses(aa):
    """user-defined subclasses of the accepted classes (dispatch on type(x) instead of isinstance would show)"""
    if not _SUB:
        class SubArray2D(aa.Array2D): pass
        class SubMask2D(aa.Mask2D): pass
        class SubImaging(aa.Imaging): pass
        class SubKernel2D(aa.Kernel2D): pass
        _SUB.update(arr=SubArray2D, mask=SubMask2D, img=SubImaging, ker=SubKernel2D)
    return _SUB
def mk_mask(aa, m, g=("1", "1", "0", "0"), sub=False, aslist=False):
    g = [float(Fraction(x)) for x in g]
    cls = subclasses(aa)["mask"] if sub else aa.Mask2D
    mm = np.array(m, dtype=bool).reshape(len(m), len(m[0]))
    return cls(mask=(mm.tolist() if aslist and mm.size else mm), pixel_scales=(g[0], g[1]), origin=(g[2], g[3]))
def mk_mask2(aa, inp, g):
    """the Mask2D under test and its content: built from inp["m"], or through another constructor inp["mc"] =
    ["sub"|"list", m] (user subclass / python lists), ["all_false", h, w], ["circular", h, w, radius*2, cy*2, cx*2],
    ["pixcoords", h, w, [[y, x], ...], buffer] (the content is then read off the object: it is the input of the routine under test)"""
    mc = inp.get("mc")
    if mc is None: return mk_mask(aa, inp["m"], g), [list(map(bool, r)) for r in inp["m"]]
    gf = [float(Fraction(x)) for x in g]; ps, org = (gf[0], gf[1]), (gf[2], gf[3])
    if mc[0] == "sub": mask = mk_mask(aa, mc[1], g, sub=True)
    elif mc[0] == "list": mask = mk_mask(aa, mc[1], g, aslist=True)
    elif mc[0] == "all_false": mask = aa.Mask2D.all_false(shape_native=(mc[1], mc[2]), pixel_scales=ps, origin=org)
    elif mc[0] == "circular":
        mask = aa.Mask2D.circular(shape_native=(mc[1], mc[2]), radius=mc[3] / 2.0 * abs(gf[0]), pixel_scales=ps, origin=org,
                                  centre=(org[0] + mc[4] / 2.0 * gf[0], org[1] + mc[5] / 2.0 * gf[1]))
    elif mc[0] == "pixcoords":
        mask = aa.Mask2D.from_pixel_coordinates(shape_native=(mc[1], mc[2]), pixel_coordinates=mc[3], pixel_scales=ps, origin=org, buffer=mc[4])
    else: raise ValueError(mc[0])
    tally("mask built by " + mc[0])
    return mask, bout(np.array(mask))
def f32_ok(vals): return all(abs(v) < 2 ** 24 for r in vals for v in r)
def eff_var(var, vals, sc):
    """integer dtype needs sc == 0, float32 needs 24-bit mantissas: otherwise the python-list kind is used (decided from the input)"""
    if var == "int" and sc != 0: return "list"
    if var == "f32" and not f32_ok(vals): return "list"
    return var
def shp(x, sk):
    """a shape / kernel-shape argument as a tuple, a list, or a tuple of numpy integers"""
    if sk == "list": return list(x)
    if sk == "npint": return tuple(np.int64(v) for v in x)
    return tuple(x)
def mk_arr(aa, a, g=("1", "1", "0", "0"), var="fresh", sc=0):
    """the Array2D under test: freshly built, or DERIVED (.native of a slim array, store_native=True, built from slim
    values, result of arithmetic); values are the integers a[0] times 2**sc"""
    var = eff_var(var, a[0], sc)
    mask = mk_mask(aa, a[1], g, sub=(var == "submask"))
    v = np.array(a[0], dtype=float).reshape(len(a[0]), len(a[0][0])) * (2.0 ** sc)
    if var == "int": return aa.Array2D(values=np.array(a[0], dtype=np.int64).reshape(v.shape), mask=mask)
    if var == "f32": return aa.Array2D(values=v.astype(np.float32), mask=mask)
    if var == "list": return aa.Array2D(values=v.tolist(), mask=mask)
    if var == "kernel": return aa.Kernel2D(values=v, mask=mask)
    if var == "sub": return subclasses(aa)["arr"](values=v, mask=mask)
    if var == "applied":      # Array2D.no_mask (all-False mask, same geometry) then Array2D.apply_mask
        gf = [float(Fraction(x)) for x in g]
        return aa.Array2D.no_mask(values=v, pixel_scales=(gf[0], gf[1]), origin=(gf[2], gf[3])).apply_mask(mask=mask)
    if var == "native": return aa.Array2D(values=v, mask=mask).native
    if var == "sn": return aa.Array2D(values=v, mask=mask, store_native=True)
    if var == "slim" and not all(all(r) for r in a[1]): return aa.Array2D(values=v[~np.array(a[1], dtype=bool)], mask=mask)
    if var == "arith":
        x = aa.Array2D(values=v, mask=mask)
        return (x * 2.0) - x
    if var == "copy": return copy.deepcopy(aa.Array2D(values=v, mask=mask))
    return aa.Array2D(values=v, mask=mask)
@contextlib.contextmanager
def cfg_native(on):
    """general.yaml structures.native_binned_only = True (non-default configuration: every Array2D is stored native)"""
    from autoconf import conf
    sect = conf.instance["general"]["structures"]
    old = sect["native_binned_only"]
    try:
        if on: sect["native_binned_only"] = True
        yield
    finally:
        sect["native_binned_only"] = old
def fp_arr(arr):
    """fingerprint of an Array2D a caller still holds: stored values, mask, geometry"""
    m = arr.mask
    return (np.array(arr._array).copy(), np.array(m).copy(), tuple(float(x) for x in m.pixel_scales), tuple(float(x) for x in m.origin))
def fp_mask(m):
    return (np.array(m).copy(), tuple(float(x) for x in m.pixel_scales), tuple(float(x) for x in m.origin))
def fp_eq(f, g):
    return all((np.array_equal(x, y) if isinstance(x, np.ndarray) else x == y) for x, y in zip(f, g)) and len(f) == len(g)
def masked0(a):
    """what an Array2D built from (values, mask) holds natively: masked entries are zero"""
    return [[[0 if mk else v for v, mk in zip(rv, rm)] for rv, rm in zip(a[0], a[1])], [list(map(bool, r)) for r in a[1]]]
GEOM_CHK = GEOMS[1]
def geom_kept(obj):
    """the resized / padded / trimmed object keeps pixel scales and origin (objects are built with GEOM_CHK)"""
    want = [float(Fraction(x)) for x in GEOM_CHK]
    mask = obj if type(obj).__name__ == "Mask2D" else obj.mask
    return tuple(mask.pixel_scales) == (want[0], want[1]) and tuple(mask.origin) == (want[2], want[3])
def parity(s, t): return "".join("e" if (x - y) % 2 == 0 else "o" for x, y in zip(s, t))

def qgeom_of(mask):
    return [fr(mask.pixel_scales[0]), fr(mask.pixel_scales[1]), fr(mask.origin[0]), fr(mask.origin[1])]
def cshape_geom(o): return ctup([cpair(o[0]), cgeom(o[1])])
def str_geom(o): return [o[0], [str(x) for x in o[1]]]
def mask_zoom_obs(mask):
    mc, zc, op, os_ = mask.mask_centre, mask.zoom_centre, mask.zoom_offset_pixels, mask.zoom_offset_scaled
    zs, zm = mask.zoom_shape_native, mask.zoom_mask_unmasked
    if tuple(int(v) for v in zs) != tuple(int(v) for v in zm.shape_native): raise ValueError("zoom_shape_native != shape of zoom_mask_unmasked")
    if np.array(zm).any(): raise ValueError("zoom_mask_unmasked is not all False")
    pq = lambda t: [fr(t[0]), fr(t[1])]
    return [[pq(mc), pq(zc)], [pq(op), pq(os_)], [[int(zm.shape_native[0]), int(zm.shape_native[1])], qgeom_of(zm)]]
def cmask_zoom(o):
    return ctup([ctup([cqq(o[0][0]), cqq(o[0][1])]), ctup([cqq(o[1][0]), cqq(o[1][1])]), cshape_geom(o[2])])
def str_mask_zoom(o):
    return [[[str(x) for x in q] for q in o[0]], [[str(x) for x in q] for q in o[1]], str_geom(o[2])]

def zoom_geo_obs(arr, b, bad, opt=None):
    """shape, pixel scales and origin of the mask of arr.zoomed_around_mask(buffer=b)"""
    opt = opt or {}
    bb = np.int64(b) if opt.get("sk") == "npint" else b
    z = arr.zoomed_around_mask() if (opt.get("omit") and b == 1) else arr.zoomed_around_mask(buffer=bb)
    if np.array(z.mask).any(): bad.append("the zoomed array's mask is not all False")
    if tuple(np.array(z.native).shape) != tuple(z.mask.shape_native): bad.append("zoomed array and its mask differ in shape")
    # the sibling Array2D.extent_of_zoomed_array describes the same frame
    ext = arr.extent_of_zoomed_array() if (opt.get("omit") and b == 1) else arr.extent_of_zoomed_array(buffer=bb)
    if [float(v) for v in ext] != [float(v) for v in z.mask.geometry.extent]:
        bad.append("extent_of_zoomed_array differs from the extent of zoomed_around_mask's mask")
    return [[int(z.mask.shape_native[0]), int(z.mask.shape_native[1])], qgeom_of(z.mask)]
def arr_step(aa, arr, st, sc, bad, opt=None):
    """one observation on the Array2D `arr` (which the caller keeps): returns the converted result.
    opt: sk = how shape arguments are passed, omit = leave out arguments that have their default value,
    pre = go through the sibling entry point dataset.preprocess.array_with_new_shape"""
    opt = opt or {}
    sk, omit = opt.get("sk", "tuple"), opt.get("omit", False)
    kind = st[0]
    held = []                                 # mutable argument objects the caller still holds
    def S(x):
        o = shp(x, sk)
        if isinstance(o, list): held.append((o, list(o)))
        return o
    def mpv(v): return {} if (omit and v == 0) else {"mask_pad_value": v}
    if kind == "resize":
        if opt.get("pre") and st[2] == 0:
            from autoarray.dataset import preprocess
            r = preprocess.array_with_new_shape(array=arr, new_shape=S(st[1]))
        else: r = arr.resized_from(new_shape=S(st[1]), **mpv(st[2]))
    elif kind == "pad": r = arr.padded_before_convolution_from(kernel_shape=S(st[1]), **mpv(st[2]))
    elif kind == "trim": r = arr.trimmed_after_convolution_from(kernel_shape=S(st[1]))
    elif kind == "padtrim":
        ks = S(st[1])                         # the SAME argument object for both calls
        r = arr.padded_before_convolution_from(kernel_shape=ks, **mpv(st[2])).trimmed_after_convolution_from(kernel_shape=ks)
    elif kind == "enlshr":
        r = arr.resized_from(new_shape=S(st[1]), **mpv(st[2])).resized_from(new_shape=S(arr.shape_native), **mpv(st[2]))
    elif kind == "zoom":
        bb = np.int64(st[1]) if sk == "npint" else st[1]
        z = arr.zoomed_around_mask() if (omit and st[1] == 1) else arr.zoomed_around_mask(buffer=bb)
        return zout(np.array(z.native), sc)
    elif kind == "zoomgeo":
        return zoom_geo_obs(arr, st[1], bad, opt)
    else: raise ValueError(kind)
    for o, o0 in held:
        if o != o0: bad.append("a shape argument (list) was modified by " + kind)
    if not isinstance(r, aa.Array2D): bad.append(kind + " returned a " + type(r).__name__)
    if not geom_kept(r): bad.append("pixel scales / origin not kept by " + kind)
    return a2out(r, sc)
def arr_case(st, h, out, g=None):
    kind = st[0]
    if kind == "zoomgeo": return f"KZoomGeo {cbarr(h[1])} {cgeom(g)} {cz(st[1])} {cres(out, cshape_geom)}"
    if kind == "resize": return f"KArrResize {ca2(h)} {cpair(st[1])} {cz(st[2])} {cres(out, ca2)}"
    if kind == "pad": return f"KArrPad {ca2(h)} {cpair(st[1])} {cz(st[2])} {cres(out, ca2)}"
    if kind == "trim": return f"KArrTrim {ca2(h)} {cpair(st[1])} {cres(out, ca2)}"
    if kind == "padtrim": return f"KPadTrim {ca2(h)} {cpair(st[1])} {cz(st[2])} {cres(out, ca2)}"
    if kind == "enlshr": return f"KEnlargeShrink {ca2(h)} {cpair(st[1])} {cz(st[2])} {cres(out, ca2)}"
    if kind == "zoom": return f"KZoom {ca2(h)} {cz(st[1])} {cres(out, czarr)}"
    raise ValueError(kind)
OLD_ARR = {"arr_resize": lambda i: ["resize", i["rs"], i["mpv"]], "arr_pad": lambda i: ["pad", i["k"], i["mpv"]],
           "arr_trim": lambda i: ["trim", i["k"]], "pad_trim": lambda i: ["padtrim", i["k"], i["mpv"]],
           "enlarge_shrink": lambda i: ["enlshr", i["rs"], i["mpv"]], "zoom": lambda i: ["zoom", i["b"]]}

def mask_step(aa, mask, st, m, g, bad, opt=None):
    """one observation on the Mask2D `mask` (content m, geometry g); returns (converted output, coq case).
    opt: sk / omit as in arr_step, blur = trimmed_array_from reached through Mask2D.unmasked_blurred_array_from (1x1 unit PSF)"""
    opt = opt or {}
    sk, omit = opt.get("sk", "tuple"), opt.get("omit", False)
    kind = st[0]
    if kind == "resize":
        def f():
            ns = shp(st[1], sk); ns0 = list(ns)
            pv = bool(st[2]) if (sk == "list" and st[2] in (0, 1)) else st[2]          # pad value given as a bool
            r = mask.resized_from(new_shape=ns) if (omit and st[2] == 0) else mask.resized_from(new_shape=ns, pad_value=pv)
            if list(ns) != ns0: bad.append("Mask2D.resized_from modified its new_shape argument")
            if not isinstance(r, aa.Mask2D): bad.append("Mask2D.resized_from returned a " + type(r).__name__)
            if not fp_eq(fp_mask(r)[1:], fp_mask(mask)[1:]): bad.append("pixel scales / origin not kept by Mask2D.resized_from")
            return bout(np.array(r))
        out = call_res(f)
        return out, f"KMaskResize {cbarr(m)} {cpair(st[1])} {cz(st[2])} {cres(out, cbarr)}"
    if kind == "zoom_region":
        out = call_res(lambda: [int(v) for v in mask.zoom_region])
        return out, f"KZoomRegion {cbarr(m)} {cres(out, lambda r: ctup([cz(v) for v in r]))}"
    if kind == "mask_zoom":
        out = call_res(lambda: mask_zoom_obs(mask))
        coq = f"KMaskZoom {cbarr(m)} {cgeom(g)} {cres(out, cmask_zoom)}"
        return (("ok", str_mask_zoom(out[1])) if out[0] == "ok" else out), coq
    if kind == "trimarr":
        pv, ish = st[1], st[2]
        padded = aa.Array2D.no_mask(values=np.array(pv, dtype=float), pixel_scales=(0.25, 4.0), origin=(7.0, 9.0))
        f0 = fp_arr(padded)
        ishp = shp(ish, sk)
        if opt.get("blur"):       # sibling entry point: convolution with the 1x1 unit kernel, then trimmed_array_from
            psf = aa.Kernel2D.no_mask(values=[[1.0]], pixel_scales=(3.0, 5.0))
            t = mask.unmasked_blurred_array_from(padded_array=padded, psf=psf, image_shape=ishp)
        else: t = mask.trimmed_array_from(padded_array=padded, image_shape=ishp)
        if list(ishp) != list(ish): bad.append("trimmed_array_from modified its image_shape argument")
        if not fp_eq(f0, fp_arr(padded)): bad.append("trimmed_array_from modified its padded_array argument")
        if not fp_eq(fp_mask(t.mask)[1:], fp_mask(mask)[1:]): bad.append("trimmed_array_from: geometry of the mask not kept")
        out = zout(np.array(t.native))
        return out, f"KTrimArr {cpair((len(m), len(m[0])))} {czarr(pv)} {cpair(ish)} {czarr(out)}"
    if kind == "coords":
        def f():
            m2 = mask.resized_from(new_shape=shp(st[1], sk), pad_value=1)
            grid = np.array(aa.Grid2D.from_mask(mask=m2)).reshape(-1, 2)
            return [bout(np.array(m2)), [[fr(p[0]), fr(p[1])] for p in grid]]
        out = call_res(f)
        pr = lambda o: ctup([cbarr(o[0]), clist([cqq(p) for p in o[1]])])
        coq = f"KResizeCoords {cbarr(m)} {cpair(st[1])} {cgeom(g)} {cres(out, pr)}"
        if out[0] == "ok": out = ("ok", [out[1][0], [[str(a), str(b)] for a, b in out[1][1]]])
        return out, coq
    raise ValueError(kind)

def img_obs(ds, sc, cfg):
    grid = np.array(ds.grids.uniform).reshape(-1, 2)
    mk = np.array(ds.mask).astype(bool)
    if cfg:    # native_binned_only: .slim is stored native too; the unmasked entries are read off in row-major order
        d = np.array(ds.data.native)[~mk]; n = np.array(ds.noise_map.native)[~mk]
    else:
        d = np.array(ds.data.slim); n = np.array(ds.noise_map.slim)
        if d.ndim != 1 or n.ndim != 1: raise ValueError(".slim is not one-dimensional")
    return [bout(mk), [to_int(v, sc) for v in d], [to_int(v, sc) for v in n], [[fr(p[0]), fr(p[1])] for p in grid]]
def img_case(data, noise, m, k, g, out, chain=None):
    pr = lambda o: ctup([cbarr(o[0]), ctup([clist([cz(v) for v in o[1]]), clist([cz(v) for v in o[2]])]),
                         clist([cqq(p) for p in o[3]])])
    if chain is not None:
        return (f"KApplyChain {czarr(data)} {czarr(noise)} {cbarr(chain[0])} {cbarr(m)} {copt(k, cpair)} {cbool(chain[1])} "
                f"{cgeom(g)} {cres(out, pr)}")
    return (f"KApplyMask {czarr(data)} {czarr(noise)} {cbarr(m)} {copt(k, cpair)} {cgeom(g)} {cres(out, pr)}")
def img_str(out):
    return ("ok", [out[1][0], out[1][1], out[1][2], [[str(a), str(b)] for a, b in out[1][3]]]) if out[0] == "ok" else out
def fp_obj(o):
    """fingerprint of a plain argument object (OverSamplingDataset ...): its attributes, one level down"""
    if o is None: return None
    return repr(sorted((k, (repr(sorted((kk, repr(vv)) for kk, vv in vars(v).items())) if hasattr(v, "__dict__") else repr(v)))
                       for k, v in vars(o).items()))
def mk_os(aa, os_):
    if os_ is None: return None
    from autoarray.dataset.over_sampling import OverSamplingDataset
    return OverSamplingDataset(uniform=aa.OverSamplingUniform(sub_size=os_[0]), pixelization=aa.OverSamplingUniform(sub_size=os_[1]))
def mk_psf(aa, k, gp, sub=False):
    if k is None: return None
    cls = subclasses(aa)["ker"] if sub else aa.Kernel2D
    return cls.no_mask(values=np.ones(tuple(k)), pixel_scales=(float(Fraction(gp[0])), float(Fraction(gp[1]))))
def mk_data(aa, v, gf, dv, sc):
    """the unmasked data / noise-map Array2D handed to Imaging: fresh, or derived (see mk_arr)"""
    ps, org = (gf[0], gf[1]), (gf[2], gf[3])
    x = np.array(v, dtype=float).reshape(len(v), len(v[0])) * (2.0 ** sc)
    dv = eff_var(dv, v, sc)
    if dv == "int": return aa.Array2D.no_mask(values=np.array(v, dtype=np.int64).reshape(x.shape), pixel_scales=ps, origin=org)
    if dv == "f32": return aa.Array2D.no_mask(values=x.astype(np.float32), pixel_scales=ps, origin=org)
    if dv == "list": return aa.Array2D.no_mask(values=x.tolist(), pixel_scales=ps, origin=org)
    if dv == "sub": return subclasses(aa)["arr"](values=x, mask=aa.Mask2D.all_false(shape_native=x.shape, pixel_scales=ps, origin=org))
    if dv == "resized":      # a larger frame cut down with resized_from (a derived, natively computed array)
        big = np.pad(x, ((1, 1), (2, 2)), constant_values=77.0)
        return aa.Array2D.no_mask(values=big, pixel_scales=ps, origin=org).resized_from(new_shape=x.shape)
    a = aa.Array2D.no_mask(values=x, pixel_scales=ps, origin=org)
    if dv == "native": return a.native
    if dv == "sn": return aa.Array2D(values=x, mask=aa.Mask2D.all_false(shape_native=x.shape, pixel_scales=ps, origin=org), store_native=True)
    if dv == "arith": return (a * 2.0) - a
    return a

def util_array(m, dt, lay):
    """the ndarray handed to the util functions: dtype dt, memory layout lay"""
    a = np.array(m, dtype=(bool if dt == "bool" else dt))
    if lay == "f": a = np.asfortranarray(a)
    elif lay == "view":       # every second entry of a larger buffer (non-contiguous)
        big = np.full((2 * a.shape[0] + 1, 2 * a.shape[1] + 1), 55, dtype=a.dtype); big[::2, ::2][:a.shape[0], :a.shape[1]] = a
        a = big[::2, ::2][:a.shape[0], :a.shape[1]]
    elif lay == "ro": a.setflags(write=False)
    return a

_DEF0 = []
def defaults_fp(aa):
    """fingerprint of the DEFAULT ARGUMENT objects of the anchored callables (shared between all calls: OverSamplingDataset() ...)"""
    from autoarray.structures.arrays import array_2d_util
    from autoarray.dataset.abstract.dataset import AbstractDataset
    fns = [aa.Imaging.__init__, AbstractDataset.__init__, aa.Imaging.apply_mask, aa.Imaging.apply_over_sampling, aa.Imaging.from_fits.__func__, aa.Array2D.resized_from, aa.Array2D.zoomed_around_mask,
           aa.Array2D.padded_before_convolution_from, aa.Mask2D.resized_from, aa.Mask2D.__init__, aa.Array2D.__init__,
           array_2d_util.resized_array_2d_from]
    out = []
    for f in fns:
        for d in (getattr(f, "__defaults__", None) or ()):
            out.append((type(d).__name__, repr(sorted((k, repr(v)) for k, v in vars(d).items())) if hasattr(d, "__dict__") else repr(d)))
    return out

def run_case(inp):
    """every case is followed by a comparison of the shared default-argument objects with their first fingerprint"""
    aa = import_aa()
    if not _DEF0: _DEF0.append(defaults_fp(aa))
    r = _run_case(inp)
    if defaults_fp(aa) != _DEF0[0]:
        r["py_ok"] = False; r["detail"] = ((r.get("detail") or "") + "; a shared default argument object was modified").strip("; ")
        _DEF0[0] = defaults_fp(aa)
    return r

def _run_case(inp):
    aa = import_aa()
    import logging; logging.disable(logging.CRITICAL)
    from autoarray.structures.arrays import array_2d_util
    op = inp["op"]
    geom_bad = []
    var, sc = inp.get("var", "fresh"), inp.get("sc", 0)
    opt = {"sk": inp.get("sk", "tuple"), "omit": inp.get("omit", False), "pre": inp.get("pre", False), "blur": inp.get("blur", False)}
    extra = []
    if op == "resize_u" and "dt" in inp:
        # input KINDS: integer / bool / float32 ndarray, Fortran-ordered, a strided view, a read-only array; the pad value
        # is pad2 / 2 (a fraction when pad2 is odd), so everything is counted in halves on the Coq side
        m = util_array(inp["m"], inp["dt"], inp["lay"]); m0 = m.copy()
        kw = {} if inp.get("omit") else {"origin": tuple(inp["origin"])}
        out = call_res(lambda: zout(array_2d_util.resized_array_2d_from(
            array_2d=m, resized_shape=shp(inp["rs"], inp.get("sk", "tuple")), pad_value=inp["pad2"] / 2.0, **kw), -1))
        if not np.array_equal(m, m0) or m.dtype != m0.dtype: geom_bad.append("resized_array_2d_from modified its argument")
        tally("resize_u dtype " + inp["dt"]); tally("util layout " + inp["lay"])
        m2 = [[2 * int(v) for v in r] for r in inp["m"]]
        coq = f"KResizeU {czarr(m2)} {cpair(inp['rs'])} {cpair(inp['origin'])} {cz(inp['pad2'])} {cres(out, czarr)}"
    elif op == "extract_u" and "dt" in inp:
        m = util_array(inp["m"], inp["dt"], inp["lay"]); r = inp["r"]; m0 = m.copy()
        rr = [np.int64(v) for v in r] if inp.get("sk") == "npint" else r
        out = call_res(lambda: zout(array_2d_util.extracted_array_2d_from(array_2d=m, y0=rr[0], y1=rr[1], x0=rr[2], x1=rr[3])))
        if not np.array_equal(m, m0) or m.dtype != m0.dtype: geom_bad.append("extracted_array_2d_from modified its argument")
        tally("extract_u dtype " + inp["dt"]); tally("util layout " + inp["lay"])
        coq = f"KExtractU {czarr(inp['m'])} {cz(r[0])} {cz(r[1])} {cz(r[2])} {cz(r[3])} {cres(out, czarr)}"
    elif op == "resize_u":
        m = np.array(inp["m"], dtype=float); m0 = m.copy()
        out = call_res(lambda: zout(array_2d_util.resized_array_2d_from(
            array_2d=m, resized_shape=tuple(inp["rs"]), origin=tuple(inp["origin"]), pad_value=float(inp["pad"]))))
        if not np.array_equal(m, m0): geom_bad.append("resized_array_2d_from modified its argument")
        tally("resize_u parity " + parity(inp["rs"], m.shape) + (" grow" if inp["rs"][0] >= m.shape[0] else " shrink")
              + ("/grow" if inp["rs"][1] >= m.shape[1] else "/shrink"))
        coq = f"KResizeU {czarr(inp['m'])} {cpair(inp['rs'])} {cpair(inp['origin'])} {cz(inp['pad'])} {cres(out, czarr)}"
    elif op == "extract_u":
        m = np.array(inp["m"], dtype=float); r = inp["r"]; m0 = m.copy()
        out = call_res(lambda: zout(array_2d_util.extracted_array_2d_from(array_2d=m, y0=r[0], y1=r[1], x0=r[2], x1=r[3])))
        if not np.array_equal(m, m0): geom_bad.append("extracted_array_2d_from modified its argument")
        coq = f"KExtractU {czarr(inp['m'])} {cz(r[0])} {cz(r[1])} {cz(r[2])} {cz(r[3])} {cres(out, czarr)}"
    elif op == "mask_resize":
        mask, m = mk_mask2(aa, inp, GEOM_CHK); f0 = fp_mask(mask)
        out, coq = mask_step(aa, mask, ["resize", inp["rs"], inp["padv"]], m, GEOM_CHK, geom_bad, opt)
        if not fp_eq(f0, fp_mask(mask)): geom_bad.append("Mask2D.resized_from modified the mask")
    elif op == "mask_fits":
        # sibling entry point: Mask2D.from_fits(resized_mask_shape=...) resizes the loaded mask (pad value 0), after `invert`
        import os
        os.makedirs("/tmp/scratch_C14", exist_ok=True)
        path = "/tmp/scratch_C14/mask_%d.fits" % os.getpid()
        gf = [float(Fraction(x)) for x in GEOM_CHK]
        mk_mask(aa, inp["m"], GEOM_CHK).output_to_fits(file_path=path, overwrite=True)
        def f():
            r = aa.Mask2D.from_fits(file_path=path, pixel_scales=(gf[0], gf[1]), origin=(gf[2], gf[3]),
                                    resized_mask_shape=shp(inp["rs"], opt["sk"]), invert=inp["inv"])
            if not geom_kept(r): geom_bad.append("Mask2D.from_fits: pixel scales / origin")
            return bout(np.array(r))
        try: out = call_res(f)
        finally:
            if os.path.exists(path): os.remove(path)
        m = [[(not v) if inp["inv"] else bool(v) for v in r] for r in inp["m"]]
        coq = f"KMaskResize {cbarr(m)} {cpair(inp['rs'])} {cz(0)} {cres(out, cbarr)}"
    elif op in OLD_ARR:
        st = OLD_ARR[op](inp)
        with cfg_native(var == "cfg"):
            arr = mk_arr(aa, inp["a"], ("1", "1", "0", "0") if op == "zoom" else GEOM_CHK, var, sc); f0 = fp_arr(arr)
            out = call_res(lambda: arr_step(aa, arr, st, sc, geom_bad, opt))
            if not fp_eq(f0, fp_arr(arr)): geom_bad.append("the Array2D was modified by " + st[0])
        h, w = len(inp["a"][0]), len(inp["a"][0][0])
        if op == "arr_resize": tally("arr_resize parity " + parity(inp["rs"], (h, w)))
        if op == "pad_trim": tally("pad_trim kernel " + ("odd" if st[1][0] % 2 and st[1][1] % 2 else "even"))
        if op == "enlarge_shrink": tally("enlarge_shrink parity " + parity(inp["rs"], (h, w)))
        if op == "zoom": tally("zoom buffer %d" % inp["b"])
        tally("array variant " + eff_var(var, inp["a"][0], sc) + (" scaled" if sc else ""))
        if "sk" in inp: tally("shape arguments as " + opt["sk"] + (", defaults omitted" if opt["omit"] else ""))
        coq = arr_case(st, masked0(inp["a"]), out)
    elif op == "hist_arr":
        # ONE Array2D goes through a history of observations and in-place edits; every observation must be what a
        # freshly built array with the current content gives (model + spec decide, in Coq)
        a = [[list(r) for r in inp["a"][0]], [list(r) for r in inp["a"][1]]]
        outs, cases = [], []
        with cfg_native(var == "cfg"):
            arr = mk_arr(aa, a, GEOM_CHK, var, sc); f0 = fp_arr(arr)
            for st in inp["steps"]:
                if st[0] == "edit":      # arr[...] = v by the user
                    y, x, v = st[1], st[2], st[3]
                    if arr.ndim == 2: arr[y, x] = v * 2.0 ** sc
                    elif not a[1][y][x]: arr[sum(1 for yy in range(len(a[1])) for xx in range(len(a[1][0])) if not a[1][yy][xx] and (yy, xx) < (y, x))] = v * 2.0 ** sc
                    else: continue
                    a[0][y][x] = v; f0 = fp_arr(arr); continue
                o = call_res(lambda: arr_step(aa, arr, st, sc, geom_bad, opt))
                if not fp_eq(f0, fp_arr(arr)): geom_bad.append("the Array2D was modified by " + st[0])
                cases.append("(" + arr_case(st, masked0(a), o, GEOM_CHK) + ")")
                outs.append(("ok", str_geom(o[1])) if st[0] == "zoomgeo" and o[0] == "ok" else o)
        tally("hist_arr variant " + var)
        return {"coq": cases[0], "extra_coq": cases[1:], "out": outs, "py_ok": (False if geom_bad else None),
                "detail": "; ".join(geom_bad) or None, "nontrivial": True, "kind": op}
    elif op == "hist_mask":
        g = inp["g"]
        mask, m = mk_mask2(aa, inp, g); f0 = fp_mask(mask)
        outs, cases = [], []
        for st in inp["steps"]:
            if st[0] == "edit":          # mask[y, x] = ... by the user
                y, x = st[1], st[2]; m[y][x] = not m[y][x]; mask[y, x] = m[y][x]; f0 = fp_mask(mask); continue
            o, c = mask_step(aa, mask, st, m, g, geom_bad, opt)
            if not fp_eq(f0, fp_mask(mask)): geom_bad.append("the Mask2D was modified by " + st[0])
            outs.append(o); cases.append("(" + c + ")")
        return {"coq": cases[0], "extra_coq": cases[1:], "out": outs, "py_ok": (False if geom_bad else None),
                "detail": "; ".join(geom_bad) or None, "nontrivial": True, "kind": op}
    elif op == "hist_img":
        # ONE Imaging dataset: several masks applied one after the other to the same object, to a masked result
        # (which must go back to the unmasked data), to a trimmed result; in-place edits of the unmasked data / noise map
        g = inp["g"]; gf = [float(Fraction(x)) for x in g]; k = inp["k"]; dv = inp["dv"]; cfg = dv == "cfg"
        data = [list(r) for r in inp["data"]]; noise = [list(r) for r in inp["noise"]]
        outs, cases = [], []
        with cfg_native(cfg):
            d0, n0 = mk_data(aa, data, gf, dv, sc), mk_data(aa, noise, gf, dv, sc)
            psf = mk_psf(aa, k, inp.get("gp", g[:2]))
            osd = mk_os(aa, inp.get("os")); kw = {} if osd is None else {"over_sampling": osd}
            ds = (subclasses(aa)["img"] if inp.get("subimg") else aa.Imaging)(data=d0, noise_map=n0, psf=psf, **kw)
            fp = lambda: (fp_arr(ds.data), fp_arr(ds.noise_map), (np.array(psf.native).copy() if psf is not None else 0), fp_obj(osd))
            f0 = fp(); last = None     # last = (dataset, base, content, allfalse, mask given): see below
            fresh_last = False         # `last` came from ds.apply_mask and ds was not edited since: the chain is a model case too
            H, W = len(data), len(data[0])
            for st in inp["steps"]:
                if st[0] in ("edit", "nedit"):
                    y, x, v = st[1], st[2], st[3]
                    tgt, cur = (ds.data, data) if st[0] == "edit" else (ds.noise_map, noise)
                    if tgt.ndim == 2: tgt[y, x] = v * 2.0 ** sc
                    else: tgt[y * W + x] = v * 2.0 ** sc
                    cur[y][x] = v; f0 = fp(); fresh_last = False; continue
                mobj = mk_mask(aa, st[1], g, sub=(dv == "submask")); fm = fp_mask(mobj)
                chain_case = None
                # which data does the code mask?  apply_mask on the unmasked dataset `ds`: its current content.  On a masked
                # dataset: its `.unmasked` (the LIVE object it was made from) -- unless its own mask is all False, then the
                # dataset itself (a snapshot of the data at the time it was made) is taken as the unmasked one.
                src, base = ds, "live"
                if st[0] in ("chain", "trimchain") and last is not None:
                    lobj, lbase, lcontent, lallfalse, lmask = last
                    src = lobj
                    padded = tuple(lobj.mask.shape_native) != (H, W)
                    trimmed = False
                    if st[0] == "trimchain" and k is not None and padded:            # only a padded dataset is trimmed back
                        src = lobj.trimmed_after_convolution_from(kernel_shape=shp(k, opt["sk"]))
                        lallfalse = not any(any(r) for r in lmask); trimmed = True
                    if fresh_last: chain_case = (lmask, trimmed)
                    base = lcontent if lallfalse else lbase
                content = [[list(r) for r in data], [list(r) for r in noise]] if base == "live" else [[list(r) for r in base[0]], [list(r) for r in base[1]]]
                def f():
                    nonlocal last
                    r = src.apply_mask(mask=mobj)
                    o = img_obs(r, sc, cfg)
                    allfalse = (not any(any(r_) for r_ in st[1])) and not (k is not None and needs_pad(st[1], k))
                    last = (r, base, content, allfalse, st[1])
                    return o
                o = call_res(f)
                f1 = fp()
                if not fp_eq(f0[0], f1[0]) or not fp_eq(f0[1], f1[1]) or not np.array_equal(f0[2], f1[2]):
                    geom_bad.append("apply_mask modified the unmasked dataset (" + st[0] + ")")
                if f0[3] != f1[3]: geom_bad.append("apply_mask modified the over_sampling object")
                if not fp_eq(fm, fp_mask(mobj)): geom_bad.append("apply_mask modified the mask it was given")
                outs.append(img_str(o)); cases.append("(" + img_case(content[0], content[1], st[1], k, g, o) + ")")
                if chain_case is not None:
                    cases.append("(" + img_case(content[0], content[1], st[1], k, g, o, chain_case) + ")")
                    tally("hist_img chain case" + (" after trim" if chain_case[1] else ""))
                fresh_last = st[0] == "mask" and o[0] == "ok"
        tally("hist_img data variant " + eff_var(dv, inp["data"], sc))
        return {"coq": cases[0], "extra_coq": cases[1:], "out": outs, "py_ok": (False if geom_bad else None),
                "detail": "; ".join(geom_bad) or None, "nontrivial": True, "kind": op}
    elif op == "trimarr":
        p = inp["p"]; h, w = len(p), len(p[0])
        # the mask carries the geometry of the result (GEOMS[1]); the padded array has ANOTHER one
        mask = mk_mask(aa, [[False] * w for _ in range(h)], GEOMS[1], sub=inp.get("submask", False))
        out, coq = mask_step(aa, mask, ["trimarr", p, inp["is"]], [[False] * w for _ in range(h)], GEOMS[1], geom_bad, opt)
        if opt["blur"]: tally("trimarr through unmasked_blurred_array_from")
    elif op == "pad_trimarr":
        def f():
            arr = mk_arr(aa, inp["a"], var=var, sc=sc)
            padded = arr.padded_before_convolution_from(kernel_shape=tuple(inp["k"]))
            return zout(np.array(padded.mask.trimmed_array_from(padded_array=padded, image_shape=arr.shape_native).native), sc)
        with cfg_native(var == "cfg"): out = call_res(f)
        coq = f"KPadTrimArr {ca2(masked0(inp['a']))} {cpair(inp['k'])} {cres(out, czarr)}"
    elif op == "zoom_geo":
        with cfg_native(var == "cfg"):
            arr = mk_arr(aa, [inp["v"], inp["m"]], inp["g"], var, sc); f0 = fp_arr(arr)
            out = call_res(lambda: zoom_geo_obs(arr, inp["b"], geom_bad, opt))
            if not fp_eq(f0, fp_arr(arr)): geom_bad.append("the Array2D was modified by zoomed_around_mask")
        tally("zoom_geo buffer %d" % inp["b"])
        coq = f"KZoomGeo {cbarr(inp['m'])} {cgeom(inp['g'])} {cz(inp['b'])} {cres(out, cshape_geom)}"
        if out[0] == "ok": out = ("ok", str_geom(out[1]))
    elif op == "mask_zoom":
        mask, m = mk_mask2(aa, inp, inp["g"]); f0 = fp_mask(mask)
        out, coq = mask_step(aa, mask, ["mask_zoom"], m, inp["g"], geom_bad)
        if not fp_eq(f0, fp_mask(mask)): geom_bad.append("the Mask2D was modified by its zoom properties")
    elif op == "zoom_region":
        mask, m = mk_mask2(aa, inp, ("1", "1", "0", "0"))
        out, coq = mask_step(aa, mask, ["zoom_region"], m, None, geom_bad)
    elif op == "apply_mask":
        # g: geometry of the mask and of the unmasked data; gp: pixel scales of the PSF (usually the same as the data's: varied
        # independently, they must not influence anything).  (gd: geometry of the unmasked data where it differs from the mask's --
        # the code then works on the mask's frame; not generated, the property text does not say which of the two is kept.)  entry: "apply" (Imaging.apply_mask),
        # "direct" (Imaging(data=Array2D(values, mask), ..., pad_for_convolver=True): the anchored __init__ lines reached without
        # apply_mask), "direct_nopad" (pad_for_convolver=False: never padded).  os: an explicit OverSamplingDataset argument.
        g = inp["g"]; gd = inp.get("gd", g); gp = inp.get("gp", g[:2]); gf = [float(Fraction(x)) for x in gd]
        dv = inp.get("dv", "fresh"); cfg = dv == "cfg"; entry = inp.get("entry", "apply")
        def f():
            data, noise = mk_data(aa, inp["data"], gf, dv, sc), mk_data(aa, inp["noise"], gf, dv, sc)
            psf = mk_psf(aa, inp["k"], gp, inp.get("subpsf", False))
            osd = mk_os(aa, inp.get("os")); kw = {} if osd is None else {"over_sampling": osd}
            mobj = mk_mask(aa, inp["m"], g, sub=(dv == "submask")); fm = fp_mask(mobj)
            f0 = (fp_arr(data), fp_arr(noise), fp_obj(osd), (None if psf is None else np.array(psf.native).copy()))
            cls = subclasses(aa)["img"] if inp.get("subimg") else aa.Imaging
            if entry == "apply":
                if inp.get("nocheck"): kw["check_noise_map"] = False          # non-positive noise values, at masked pixels only
                ds = cls(data=data, noise_map=noise, psf=psf, **kw).apply_mask(mask=mobj)
            else:
                ds = cls(data=aa.Array2D(values=data.native, mask=mobj), noise_map=aa.Array2D(values=noise.native, mask=mobj), psf=psf,
                         pad_for_convolver=(entry == "direct"), **kw)
            o = img_obs(ds, sc, cfg)
            if not isinstance(ds, aa.Imaging): geom_bad.append("the masked dataset is a " + type(ds).__name__)
            if not fp_eq(f0[0], fp_arr(data)) or not fp_eq(f0[1], fp_arr(noise)): geom_bad.append("apply_mask modified the arrays the dataset was built from")
            if f0[2] != fp_obj(osd): geom_bad.append("the over_sampling argument was modified")
            if psf is not None and not np.array_equal(f0[3], np.array(psf.native)): geom_bad.append("the psf argument was modified")
            if not fp_eq(fm, fp_mask(mobj)): geom_bad.append("the mask argument was modified")
            return o
        with cfg_native(cfg): out = call_res(f)
        kmod = inp["k"] if entry != "direct_nopad" else None
        if out[0] == "ok":
            tally("apply_mask " + ("no psf" if kmod is None else
                                   ("padded" if len(out[1][0]) != len(inp["m"]) or len(out[1][0][0]) != len(inp["m"][0]) else "not padded")))
        tally("apply_mask data variant " + eff_var(dv, inp["data"], sc) + (" scaled" if sc else ""))
        if entry != "apply": tally("apply_mask entry " + entry)
        if gd != g or list(gp) != list(g[:2]): tally("apply_mask with PSF pixel scales different from the data's")
        coq = img_case(inp["data"], inp["noise"], inp["m"], kmod, g, out)
        out = img_str(out)
    elif op == "apply_mask_trim":
        g = inp["g"]; gf = [float(Fraction(x)) for x in g]; dv = inp.get("dv", "fresh")
        def f():
            data, noise = mk_data(aa, inp["data"], gf, dv, sc), mk_data(aa, inp["noise"], gf, dv, sc)
            psf = aa.Kernel2D.no_mask(values=np.ones(tuple(inp["k"])), pixel_scales=(gf[0], gf[1]))
            ds = aa.Imaging(data=data, noise_map=noise, psf=psf).apply_mask(mask=mk_mask(aa, inp["m"], g))
            if inp["touch"]: _ = ds.grids.uniform      # the cached grids exist before the trim
            f0 = (fp_arr(ds.data), fp_arr(ds.noise_map))
            ds2 = ds.trimmed_after_convolution_from(kernel_shape=tuple(inp["k"]))
            if not fp_eq(f0[0], fp_arr(ds.data)) or not fp_eq(f0[1], fp_arr(ds.noise_map)): geom_bad.append("the trim modified the padded dataset")
            grid = np.array(ds2.grids.uniform).reshape(-1, 2)
            # the grid lives on the frame of the trimmed data (not on a cached copy of the padded frame)
            if tuple(ds2.grids.uniform.mask.shape_native) != tuple(ds2.data.shape_native): geom_bad.append("grid of the trimmed dataset is on another frame")
            return [bout(np.array(ds2.mask)), zout(np.array(ds2.data.native), sc), zout(np.array(ds2.noise_map.native), sc),
                    [[fr(p[0]), fr(p[1])] for p in grid]]
        out = call_res(f)
        tally("apply_mask_trim" + (" grids touched before" if inp["touch"] else ""))
        pr = lambda o: ctup([cbarr(o[0]), ctup([czarr(o[1]), czarr(o[2])]), clist([cqq(p) for p in o[3]])])
        coq = (f"KApplyMaskTrim {czarr(inp['data'])} {czarr(inp['noise'])} {cbarr(inp['m'])} {cpair(inp['k'])} "
               f"{cgeom(g)} {cres(out, pr)}")
        if out[0] == "ok": out = ("ok", [out[1][0], out[1][1], out[1][2], [[str(a), str(b)] for a, b in out[1][3]]])
    elif op == "pad_grid":
        g = inp["g"]; gf = [float(Fraction(x)) for x in g]; m = inp["m"]; h, w = len(m), len(m[0])
        def f():
            if inp["via"] == "from_mask": grid = aa.Grid2D.from_mask(mask=mk_mask(aa, m, g))
            elif inp["via"] == "uniform": grid = aa.Grid2D.uniform(shape_native=(h, w), pixel_scales=(gf[0], gf[1]), origin=(gf[2], gf[3]))
            else:
                base = np.array(aa.Grid2D.uniform(shape_native=(h, w), pixel_scales=(gf[0], gf[1]), origin=(gf[2], gf[3])).native)
                grid = aa.Grid2D.no_mask(values=base, pixel_scales=(gf[0], gf[1]), origin=(gf[2], gf[3]))
            g0 = np.array(grid).copy(); fm = fp_mask(grid.mask)
            ks = shp(inp["k"], opt["sk"])
            if inp.get("twice"):      # the same grid object padded for ANOTHER kernel first
                _ = np.array(grid.padded_grid_from(kernel_shape_native=(inp["k"][0] + 2, inp["k"][1] + 4)))
            pg = grid.padded_grid_from(kernel_shape_native=ks)
            if list(ks) != list(inp["k"]): geom_bad.append("padded_grid_from modified its kernel shape argument")
            if not np.array_equal(g0, np.array(grid)) or not fp_eq(fm, fp_mask(grid.mask)): geom_bad.append("padded_grid_from modified the grid")
            if np.array(pg.mask).any(): geom_bad.append("the padded grid's mask is not all False")
            if not fp_eq(fp_mask(pg.mask)[1:], fm[1:]): geom_bad.append("padded_grid_from: pixel scales / origin not kept")
            return [[int(pg.mask.shape_native[0]), int(pg.mask.shape_native[1])], [[fr(p[0]), fr(p[1])] for p in np.array(pg).reshape(-1, 2)]]
        out = call_res(f)
        pr = lambda o: ctup([cpair(o[0]), clist([cqq(p) for p in o[1]])])
        coq = f"KPadGrid {cpair((h, w))} {cpair(inp['k'])} {cgeom(g)} {cres(out, pr)}"
        tally("pad_grid kernel " + ("odd" if inp["k"][0] % 2 and inp["k"][1] % 2 else "even") + " via " + inp["via"])
        if out[0] == "ok": out = ("ok", [out[1][0], [[str(a), str(b)] for a, b in out[1][1]]])
    elif op == "resize_coords":
        mask, m = mk_mask2(aa, inp, inp["g"])
        out, coq = mask_step(aa, mask, ["coords", inp["rs"]], m, inp["g"], geom_bad, opt)
        tally("resize_coords parity " + parity(inp["rs"], (len(m), len(m[0]))))
    else:
        raise ValueError(op)
    return {"coq": "(" + coq + ")", "out": out, "py_ok": (False if geom_bad else None), "detail": "; ".join(map(str, geom_bad)) or None,
            "nontrivial": True, "kind": op}
