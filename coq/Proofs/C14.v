(* C14 -- lemmas about the model and the specification of Model/C14.v (part 1: arrays, the scatter loop,
   entry formulas of every routine). *)
From Coq Require Import ZArith List Bool Lia.
From PAV Require Import Base.Res Base.Check Model.C14.
Import ListNotations.
Local Open Scope Z_scope.

Ltac zdiv := Z.div_mod_to_equations; lia.
Ltac boolp :=
  repeat match goal with
  | H : _ && _ = true |- _ => apply andb_prop in H; destruct H
  | H : (_ <=? _) = true |- _ => apply Z.leb_le in H
  | H : (_ <? _) = true |- _ => apply Z.ltb_lt in H
  | H : (_ =? _) = true |- _ => apply Z.eqb_eq in H
  | H : (_ <=? _) = false |- _ => apply Z.leb_gt in H
  | H : (_ <? _) = false |- _ => apply Z.ltb_ge in H
  | H : (_ =? _) = false |- _ => apply Z.eqb_neq in H
  | H : negb _ = true |- _ => apply negb_true_iff in H
  end.

(* ------------------------------------------------------------------ lists *)
Lemma nth_firstn_lt {B} (l : list B) : forall n i d, (i < n)%nat -> nth i (firstn n l) d = nth i l d.
Proof. induction l as [|h t IH]; intros [|n] [|i] d Hi; cbn; try reflexivity; try lia. apply IH. lia. Qed.
Lemma nth_skipn_add {B} (l : list B) : forall n i d, nth i (skipn n l) d = nth (n + i) l d.
Proof. induction l as [|h t IH]; intros [|n] i d; cbn; try reflexivity; [destruct i; reflexivity | apply IH]. Qed.
Lemma nth_repeat_lt {B} (a : B) : forall k i d, (i < k)%nat -> nth i (repeat a k) d = a.
Proof. induction k as [|k IH]; intros [|i] d Hi; cbn; try lia; try reflexivity. apply IH. lia. Qed.
Lemma nth_combine {B C} (l : list B) : forall (l' : list C) i d d', (i < length l)%nat -> (i < length l')%nat ->
  nth i (combine l l') (d, d') = (nth i l d, nth i l' d').
Proof.
  induction l as [|h t IH]; intros [|h' t'] [|i] d d' H1 H2; cbn in *; try lia; try reflexivity. apply IH; lia.
Qed.
Lemma flat_map_nil {B C} (f : B -> list C) (l : list B) : (forall x, In x l -> f x = []) -> flat_map f l = [].
Proof. induction l as [|h t IH]; intros Hf; cbn; [reflexivity|]. rewrite Hf by (left; reflexivity). apply IH. intros; apply Hf; right; assumption. Qed.
Lemma flat_map_ext_in {B C} (f g : B -> list C) (l : list B) : (forall x, In x l -> f x = g x) -> flat_map f l = flat_map g l.
Proof. induction l as [|h t IH]; intros Hf; cbn; [reflexivity|]. rewrite Hf by (left; reflexivity). f_equal. apply IH. intros; apply Hf; right; assumption. Qed.
Lemma flat_map_map {B C D} (f : C -> list D) (g : B -> C) (l : list B) : flat_map f (map g l) = flat_map (fun x => f (g x)) l.
Proof. induction l as [|h t IH]; cbn; [reflexivity|]. now rewrite IH. Qed.
Lemma map_flat_map {B C D} (f : C -> D) (g : B -> list C) (l : list B) : map f (flat_map g l) = flat_map (fun x => map f (g x)) l.
Proof. induction l as [|h t IH]; cbn; [reflexivity|]. now rewrite map_app, IH. Qed.

(* ------------------------------------------------------------------ set1 / set2 *)
Lemma set1_length {B} (l : list B) : forall i v, length (set1 l i v) = length l.
Proof. induction l as [|h t IH]; intros [|i] v; cbn; try reflexivity. now rewrite IH. Qed.
Lemma nth_set1 {B} (l : list B) : forall i v j d,
  nth j (set1 l i v) d = if (Nat.eqb j i && Nat.ltb i (length l))%bool then v else nth j l d.
Proof.
  induction l as [|h t IH]; intros [|i] v [|j] d; cbn; try reflexivity.
  - destruct (Nat.eqb j i); reflexivity.
  - rewrite IH. reflexivity.
Qed.

(* rectangular with R0 rows of R1 entries *)
Definition Rect {B} (R0 R1 : nat) (m : list (list B)) : Prop :=
  length m = R0 /\ forall a, (a < R0)%nat -> length (nth a m []) = R1.

Lemma Rect_zeros {B} (z : B) R0 R1 : Rect R0 R1 (zeros z R0 R1).
Proof. split; [apply repeat_length|]. intros a Ha. unfold zeros. rewrite nth_repeat_lt by assumption. apply repeat_length. Qed.
Lemma get2_zeros {B} (z d : B) R0 R1 a b : (a < R0)%nat -> (b < R1)%nat -> get2 d (zeros z R0 R1) a b = z.
Proof. intros. unfold get2, zeros. rewrite nth_repeat_lt by assumption. now apply nth_repeat_lt. Qed.

Lemma Rect_set2 {B} R0 R1 (m : list (list B)) y x v : Rect R0 R1 m -> Rect R0 R1 (set2 m y x v).
Proof.
  intros [HL HR]. unfold set2. split; [now rewrite set1_length|].
  intros a Ha. rewrite nth_set1. destruct (Nat.eqb a y && Nat.ltb y (length m))%bool eqn:E; [|now apply HR].
  apply andb_prop in E. destruct E as [E _]. apply Nat.eqb_eq in E. subst a. rewrite set1_length. now apply HR.
Qed.
Lemma get2_set2 {B} R0 R1 (m : list (list B)) y x v a b d :
  Rect R0 R1 m -> (y < R0)%nat -> (x < R1)%nat ->
  get2 d (set2 m y x v) a b = if (Nat.eqb a y && Nat.eqb b x)%bool then v else get2 d m a b.
Proof.
  intros [HL HR] Hy Hx. unfold get2, set2. rewrite nth_set1.
  assert (Ly : Nat.ltb y (length m) = true) by (apply Nat.ltb_lt; lia). rewrite Ly, andb_true_r.
  destruct (Nat.eqb a y) eqn:E; cbn [andb]; [|reflexivity].
  apply Nat.eqb_eq in E. subst a. rewrite nth_set1.
  assert (Lx : Nat.ltb x (length (nth y m [])) = true) by (apply Nat.ltb_lt; rewrite HR; lia). rewrite Lx, andb_true_r.
  reflexivity.
Qed.

Lemma Rect_ext {B} R0 R1 (m m' : list (list B)) (d : B) :
  Rect R0 R1 m -> Rect R0 R1 m' ->
  (forall a b, (a < R0)%nat -> (b < R1)%nat -> get2 d m a b = get2 d m' a b) -> m = m'.
Proof.
  intros [L1 C1] [L2 C2] HE. apply (nth_ext m m' [] []); [lia|].
  intros a Ha. rewrite L1 in Ha. apply (nth_ext _ _ d d); [rewrite C1, C2; lia|].
  intros b Hb. rewrite C1 in Hb by assumption. now apply HE.
Qed.

(* ------------------------------------------------------------------ the scatter loop *)
Section Loop.
  Context {B : Type} (R0 R1 : nat) (w : nat -> nat -> option B).
  Hypothesis guard : forall yr xr v, w yr xr = Some v -> (yr < R0)%nat /\ (xr < R1)%nat.
  Definition wr (o : list (list B)) (yr xr : nat) := match w yr xr with Some v => set2 o yr xr v | None => o end.

  Lemma wr_spec o yr xr : Rect R0 R1 o ->
    Rect R0 R1 (wr o yr xr) /\
    forall a b d, get2 d (wr o yr xr) a b =
      if (Nat.eqb a yr && Nat.eqb b xr)%bool then match w yr xr with Some v => v | None => get2 d o a b end else get2 d o a b.
  Proof.
    intros HR. unfold wr. destruct (w yr xr) as [v|] eqn:E.
    - destruct (guard _ _ _ E) as [G1 G2]. split; [now apply Rect_set2|]. intros a b d. now apply (get2_set2 R0 R1).
    - split; [assumption|]. intros a b d. destruct (Nat.eqb a yr && Nat.eqb b xr)%bool; reflexivity.
  Qed.

  Lemma inner_spec yr : forall n s o, Rect R0 R1 o ->
    let o' := fold_left (fun o xr => wr o yr xr) (seq s n) o in
    Rect R0 R1 o' /\
    forall a b d, get2 d o' a b =
      if (Nat.eqb a yr && Nat.leb s b && Nat.ltb b (s + n))%bool
      then match w yr b with Some v => v | None => get2 d o a b end else get2 d o a b.
  Proof.
    induction n as [|n IH]; intros s o HR; cbn [seq fold_left].
    - split; [assumption|]. intros a b d.
      destruct (Nat.eqb a yr && Nat.leb s b && Nat.ltb b (s + 0))%bool eqn:E; [|reflexivity].
      apply andb_prop in E. destruct E as [E E3]. apply andb_prop in E. destruct E as [_ E2].
      apply Nat.leb_le in E2. apply Nat.ltb_lt in E3. lia.
    - destruct (wr_spec o yr s HR) as [HR1 G1]. destruct (IH (S s) _ HR1) as [HR2 G2].
      split; [exact HR2|]. intros a b d. rewrite G2, G1.
      destruct (Nat.eqb a yr) eqn:Ea; cbn [andb]; [|reflexivity].
      destruct (Nat.eqb b s) eqn:Eb.
      + apply Nat.eqb_eq in Eb. subst b.
        assert (X1 : Nat.leb (S s) s = false) by (apply Nat.leb_gt; lia).
        assert (X2 : Nat.leb s s = true) by (apply Nat.leb_le; lia).
        assert (X3 : Nat.ltb s (s + S n) = true) by (apply Nat.ltb_lt; lia).
        rewrite X1, X2, X3. cbn [andb]. reflexivity.
      + apply Nat.eqb_neq in Eb.
        destruct (Nat.leb (S s) b) eqn:E1.
        * apply Nat.leb_le in E1. assert (X2 : Nat.leb s b = true) by (apply Nat.leb_le; lia). rewrite X2. cbn [andb].
          replace (s + S n)%nat with (S s + n)%nat by lia. destruct (Nat.ltb b (S s + n)); [|reflexivity].
          destruct (w yr b); reflexivity.
        * apply Nat.leb_gt in E1. assert (X2 : Nat.leb s b = false) by (apply Nat.leb_gt; lia). rewrite X2. reflexivity.
  Qed.

  Lemma outer_spec n1 : forall n s o, Rect R0 R1 o ->
    let o' := fold_left (fun o yr => fold_left (fun o xr => wr o yr xr) (seq 0 n1) o) (seq s n) o in
    Rect R0 R1 o' /\
    forall a b d, get2 d o' a b =
      if (Nat.leb s a && Nat.ltb a (s + n) && Nat.ltb b n1)%bool
      then match w a b with Some v => v | None => get2 d o a b end else get2 d o a b.
  Proof.
    induction n as [|n IH]; intros s o HR; cbn [seq fold_left].
    - split; [assumption|]. intros a b d.
      destruct (Nat.leb s a && Nat.ltb a (s + 0) && Nat.ltb b n1)%bool eqn:E; [|reflexivity].
      apply andb_prop in E. destruct E as [E _]. apply andb_prop in E. destruct E as [E1 E2].
      apply Nat.leb_le in E1. apply Nat.ltb_lt in E2. lia.
    - destruct (inner_spec s n1 0%nat o HR) as [HR1 G1]. destruct (IH (S s) _ HR1) as [HR2 G2].
      split; [exact HR2|]. intros a b d. rewrite G2, G1.
      change (Nat.leb 0 b) with true. change (0 + n1)%nat with n1. rewrite andb_true_r.
      destruct (Nat.eqb a s) eqn:Ea.
      + apply Nat.eqb_eq in Ea. subst a.
        assert (X1 : Nat.leb (S s) s = false) by (apply Nat.leb_gt; lia).
        assert (X2 : Nat.leb s s = true) by (apply Nat.leb_le; lia).
        assert (X3 : Nat.ltb s (s + S n) = true) by (apply Nat.ltb_lt; lia).
        rewrite X1, X2, X3. cbn [andb]. reflexivity.
      + apply Nat.eqb_neq in Ea. cbn [andb].
        destruct (Nat.leb (S s) a) eqn:E1.
        * apply Nat.leb_le in E1. assert (X2 : Nat.leb s a = true) by (apply Nat.leb_le; lia). rewrite X2. cbn [andb].
          replace (s + S n)%nat with (S s + n)%nat by lia. reflexivity.
        * apply Nat.leb_gt in E1. assert (X2 : Nat.leb s a = false) by (apply Nat.leb_gt; lia). rewrite X2. reflexivity.
  Qed.

  Lemma loop2_spec n0 n1 o : Rect R0 R1 o ->
    Rect R0 R1 (loop2 n0 n1 w o) /\
    forall a b d, get2 d (loop2 n0 n1 w o) a b =
      if (Nat.ltb a n0 && Nat.ltb b n1)%bool then match w a b with Some v => v | None => get2 d o a b end else get2 d o a b.
  Proof. intros HR. destruct (outer_spec n1 n0 0%nat o HR) as [H1 H2]. split; [exact H1|]. intros a b d. exact (H2 a b d). Qed.
End Loop.

(* ------------------------------------------------------------------ entry view of an array (indices in Z) *)
Definition inr (i n : Z) : bool := (0 <=? i) && (i <? n).
Definition Entries {B} (m : list (list B)) (R0 R1 : Z) (f : Z -> Z -> B) : Prop :=
  0 <= R0 /\ 0 <= R1 /\ Rect (Z.to_nat R0) (Z.to_nat R1) m /\
  forall i j d, 0 <= i < R0 -> 0 <= j < R1 -> zget2 d m i j = f i j.

Lemma hd_nth0 {B} (m : list (list B)) : hd [] m = nth 0 m [].
Proof. destruct m; reflexivity. Qed.
Lemma Entries_shape {B} (m : list (list B)) R0 R1 f : Entries m R0 R1 f -> 0 < R0 -> nrows m = R0 /\ ncols m = R1.
Proof.
  intros (H0 & H1 & [HL HC] & _) HP. unfold nrows, ncols. split; [lia|].
  rewrite hd_nth0, HC by lia. lia.
Qed.
Lemma Entries_ext {B} (d : B) (m m' : list (list B)) R0 R1 f g :
  Entries m R0 R1 f -> Entries m' R0 R1 g ->
  (forall i j, 0 <= i < R0 -> 0 <= j < R1 -> f i j = g i j) -> m = m'.
Proof.
  intros (H0 & H1 & HR & HE) (_ & _ & HR' & HE') HF. apply (Rect_ext _ _ m m' d HR HR').
  intros a b Ha Hb. specialize (HE (Z.of_nat a) (Z.of_nat b) d). specialize (HE' (Z.of_nat a) (Z.of_nat b) d).
  unfold zget2 in HE, HE'. rewrite !Nat2Z.id in HE, HE'. rewrite HE, HE' by lia. apply HF; lia.
Qed.
Lemma Entries_fext {B} (m : list (list B)) R0 R1 f g :
  Entries m R0 R1 f -> (forall i j, 0 <= i < R0 -> 0 <= j < R1 -> f i j = g i j) -> Entries m R0 R1 g.
Proof. intros (H0 & H1 & HR & HE) HF. repeat split; try assumption; try apply HR. intros. rewrite HE by assumption. now apply HF. Qed.

Lemma if_same {B} (b : bool) (x : B) : (if b then x else x) = x.
Proof. destruct b; reflexivity. Qed.
Lemma int_half_div n : 0 <= n -> int_half n = n / 2.
Proof. intros. unfold int_half. apply Z.quot_div_nonneg; lia. Qed.

(* resized_array_2d_from, default origin: the entry formula new[i, j] = old[i + H/2 - r0/2, j + W/2 - r1/2] or pad *)
Definition resized_fun {B} (H W r0 r1 : Z) (pad : B) (f : Z -> Z -> B) : Z -> Z -> B :=
  fun i j => if inr (i + (H / 2 - r0 / 2)) H && inr (j + (W / 2 - r1 / 2)) W
             then f (i + (H / 2 - r0 / 2)) (j + (W / 2 - r1 / 2)) else pad.

Lemma resized_entries {B} (zero pad : B) (a : list (list B)) H W f r0 r1 :
  Entries a H W f -> 0 < H -> 0 <= r0 -> 0 <= r1 ->
  exists m', resized_array_2d_from zero a (r0, r1) (-1, -1) pad = Ok m' /\ Entries m' r0 r1 (resized_fun H W r0 r1 pad f).
Proof.
  intros HE HP Hr0 Hr1. destruct (Entries_shape _ _ _ _ HE HP) as [HnR HnC].
  destruct HE as (HH & HW & HR & HE).
  unfold resized_array_2d_from. rewrite HnR, HnC. cbn [fst snd]. rewrite !if_same.
  change ((-1 =? -1) && (-1 =? -1)) with true. cbv iota. cbn [fst snd].
  assert (E0 : (r0 <? 0) || (r1 <? 0) = false) by (apply orb_false_iff; split; apply Z.ltb_ge; lia).
  rewrite E0. rewrite !int_half_div by lia.
  eexists. split; [reflexivity|].
  match goal with |- Entries (loop2 ?n0 ?n1 ?w ?o) _ _ _ =>
    assert (G : forall yr xr v, w yr xr = Some v -> (yr < Z.to_nat r0)%nat /\ (xr < Z.to_nat r1)%nat);
    [| destruct (loop2_spec (Z.to_nat r0) (Z.to_nat r1) w G n0 n1 o (Rect_zeros zero _ _)) as [LR LG]] end.
  { intros yr xr v. cbv beta zeta.
    destruct ((0 <=? Z.of_nat yr) && (Z.of_nat yr <? r0) && (0 <=? Z.of_nat xr) && (Z.of_nat xr <? r1)) eqn:D.
    - intros _. boolp. lia.
    - rewrite !if_same. discriminate. }
  split; [lia|]. split; [lia|]. split; [exact LR|].
  intros i j d Hi Hj. unfold zget2. rewrite LG. cbv beta zeta.
  assert (X1 : Nat.ltb (Z.to_nat i) (Z.to_nat (H / 2 + r0 / 2 + 1 - (H / 2 - r0 / 2))) = true) by (apply Nat.ltb_lt; zdiv).
  assert (X2 : Nat.ltb (Z.to_nat j) (Z.to_nat (W / 2 + r1 / 2 + 1 - (W / 2 - r1 / 2))) = true) by (apply Nat.ltb_lt; zdiv).
  rewrite X1, X2. cbn [andb]. rewrite !Z2Nat.id by lia.
  assert (D : (0 <=? i) && (i <? r0) && (0 <=? j) && (j <? r1) = true).
  { rewrite !andb_true_iff. repeat split; try (apply Z.leb_le; lia); apply Z.ltb_lt; lia. }
  rewrite D. unfold resized_fun, inr.
  replace (H / 2 - r0 / 2 + i) with (i + (H / 2 - r0 / 2)) by lia.
  replace (W / 2 - r1 / 2 + j) with (j + (W / 2 - r1 / 2)) by lia.
  set (y := i + (H / 2 - r0 / 2)). set (x := j + (W / 2 - r1 / 2)).
  destruct (Z.leb_spec 0 y), (Z.ltb_spec y H), (Z.leb_spec 0 x), (Z.ltb_spec x W); cbn [andb]; try reflexivity.
  apply HE; lia.
Qed.
