From Coq Require Import ZArith List Bool Lia.
From PAV Require Import Base.Res Base.Check Model.C10.
Import ListNotations.
Local Open Scope Z_scope.
