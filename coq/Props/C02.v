(* C02 -- pixel indices and scaled (y,x) coordinates are consistent inverse maps; shape-based mask constructors.
   Statements only.  Every function named here without a `_spec` / `_inside` suffix is a definition GENERATED from /repo
   (Gen/Gen_geometry.v) except mask_2d_elliptical(_annular)_from_cs (executable (cos, sin) form, Model/C02x.v, proved equal
   to the generated trigonometric code).  All statements are at
   ROps (Coq's real numbers): for all shapes, all real pixel scales > 0 (<> 0 where that suffices), all real origins. *)
From Coq Require Import ZArith Reals Lra List Bool QArith.
From PAV Require Import Base.NumOps Gen.Gen_geometry Model.C02 Model.C02x Proofs.C02 Proofs.C02r Proofs.C02c Proofs.C02n.
From PAV Require Model.C01.
Import ListNotations.
Local Open Scope R_scope.


(* ---- 1. pixel (i,j) has centre  y = o_y + ((H-1)/2 - i) s_y ,  x = o_x + (j - (W-1)/2) s_x : the pixel-centre grid of any mask (row-major over
   the unmasked pixels), the scalar routine at real-valued pixel positions, and the 1-D counterparts (any origin, any pixel scale) *)
Theorem C02_centre_formulas :
  (* centre_formula_grid *)
  (forall (m : mask) sy sx oy ox, sy <> 0 -> sx <> 0 ->
  @grid_2d_slim_via_mask_from ROps m (sy, sx) (oy, ox) =
  map (fun p => (oy + (IZR (rows m - 1) / 2 - IZR (fst p)) * sy, ox + (IZR (snd p) - IZR (cols m - 1) / 2) * sx)) (unmasked m)) /\
  (* centre_formula_scalar *)
  (forall H W sy sx oy ox pi pj, sy <> 0 -> sx <> 0 ->
  @scaled_coordinates_2d_from ROps (pi, pj) (H, W) (sy, sx) (oy, ox) =
  (oy + (IZR (H - 1) / 2 - pi) * sy, ox + (pj - IZR (W - 1) / 2) * sx)) /\
  (* centre_formula_1d *)
  (forall (m : list bool) s o, s <> 0 ->
  @grid_1d_slim_via_mask_from ROps m s o = map (fun j => o + (IZR j - IZR (Z.of_nat (length m) - 1) / 2) * s) (unmasked1 m)) /\
  (* centre_formula_scalar_1d *)
  (forall n s o p, s <> 0 ->
  @scaled_coordinates_1d_from ROps p n s o = o + (p - IZR (n - 1) / 2) * s).
Proof. exact (conj grid_mask_centres (conj scaled2_is_centre (conj grid1_mask_centres (scaled1_is_centre)))). Qed.

(* y decreases with the row index, x increases with the column index *)
Theorem C02_orientation : forall H W sy sx oy ox i i' j j', 0 < sy -> 0 < sx -> (i < i')%Z -> (j < j')%Z ->
  fst (@centre_spec ROps (H, W) (sy, sx) (oy, ox) (i', j)) < fst (@centre_spec ROps (H, W) (sy, sx) (oy, ox) (i, j)) /\
  snd (@centre_spec ROps (H, W) (sy, sx) (oy, ox) (i, j)) < snd (@centre_spec ROps (H, W) (sy, sx) (oy, ox) (i, j')).
Proof. exact orientation. Qed.

(* ---- 2. the reported extent (x_min, x_max, y_min, y_max) is exactly the union of the closed pixel squares *)
Theorem C02_extent_is_union_of_squares : forall H W sy sx oy ox y x, (1 <= H)%Z -> (1 <= W)%Z -> 0 < sy -> 0 < sx ->
  let '(xmin, xmax, ymin, ymax) := @Geometry2D_extent ROps (H, W) (sy, sx) (oy, ox) in
  (xmin <= x <= xmax /\ ymin <= y <= ymax) <->
  exists i j, (0 <= i < H)%Z /\ (0 <= j < W)%Z /\ @in_square ROps (H, W) (sy, sx) (oy, ox) (i, j) (y, x) = true.
Proof. exact extent_is_union_of_squares. Qed.

(* the extent is (o -+ n s / 2); its edges are the outermost pixel centres -/+ half a pixel; every pixel centre of the array lies at least half a pixel inside it *)
Theorem C02_extent_formula_and_edges :
  (* extent_formula *)
  (forall H W sy sx oy ox,
  @Geometry2D_extent ROps (H, W) (sy, sx) (oy, ox) =
  (ox - IZR W * sx / 2, ox + IZR W * sx / 2, oy - IZR H * sy / 2, oy + IZR H * sy / 2)) /\
  (* extent_edges_half_pixel *)
  (forall H W sy sx oy ox,
  @Geometry2D_extent ROps (H, W) (sy, sx) (oy, ox) =
  (@cx_spec ROps W sx ox 0 - sx / 2, @cx_spec ROps W sx ox (IZR (W - 1)) + sx / 2,
   @cy_spec ROps H sy oy (IZR (H - 1)) - sy / 2, @cy_spec ROps H sy oy 0 + sy / 2)) /\
  (* centres_half_pixel_inside_extent *)
  (forall H W sy sx oy ox i j, 0 < sy -> 0 < sx -> (0 <= i < H)%Z -> (0 <= j < W)%Z ->
  let '(xmin, xmax, ymin, ymax) := @Geometry2D_extent ROps (H, W) (sy, sx) (oy, ox) in
  let c := @centre_spec ROps (H, W) (sy, sx) (oy, ox) (i, j) in
  xmin + sx / 2 <= snd c <= xmax - sx / 2 /\ ymin + sy / 2 <= fst c <= ymax - sy / 2).
Proof. exact (conj extent2_eq (conj extent_edges (centres_half_pixel_inside_extent))). Qed.

(* 1-D: union of the closed pixel intervals; edges = outermost centres -/+ half a pixel *)
Theorem C02_extent_1d :
  (* extent_1d_is_union_of_intervals *)
  (forall n s o x, (1 <= n)%Z -> 0 < s ->
  let '(xmin, xmax) := @Geometry1D_extent ROps n s o in
  (xmin <= x <= xmax) <-> exists j, (0 <= j < n)%Z /\ @in_interval ROps (@centre1_spec ROps n s o j) s x = true) /\
  (* extent_edges_half_pixel_1d *)
  (forall n s o,
  @Geometry1D_extent ROps n s o = (@cx_spec ROps n s o 0 - s / 2, @cx_spec ROps n s o (IZR (n - 1)) + s / 2)).
Proof. exact (conj extent1_is_union_of_intervals (extent1_edges)). Qed.

(* ---- 3. EVERY coordinate of the (half-open) extent has its pixel: the index it converts to is a pixel of the array, the point lies in that
   pixel's half-open square, and the flattened index is i * W + j -- no hypothesis about a pixel, only about the extent *)
Theorem C02_every_point_of_extent_has_its_pixel : forall H W sy sx oy ox y x, 0 < sy -> 0 < sx ->
  let '(xmin, xmax, ymin, ymax) := @Geometry2D_extent ROps (H, W) (sy, sx) (oy, ox) in
  ymin < y <= ymax -> xmin <= x < xmax ->
  let p := @pixel_coordinates_2d_from ROps (y, x) (H, W) (sy, sx) (oy, ox) in
  in_array (H, W) p /\ in_pixel (H, W) (sy, sx) (oy, ox) p (y, x) /\
  @grid_pixel_indexes_2d_slim_from ROps [(y, x)] (H, W) (sy, sx) (oy, ox) = [IZR (fst p * W + snd p)].
Proof. exact every_point_of_extent. Qed.
Theorem C02_every_point_of_extent_has_its_pixel_1d : forall n s o x, 0 < s ->
  let '(xmin, xmax) := @Geometry1D_extent ROps n s o in
  xmin <= x < xmax ->
  let j := @pixel_coordinates_1d_from ROps x n s o in
  (0 <= j < n)%Z /\ @cx_spec ROps n s o (IZR j) - s / 2 <= x < @cx_spec ROps n s o (IZR j) + s / 2.
Proof. exact every_point_of_extent_1d. Qed.

(* the pixel is unique: half-open squares of distinct pixels are disjoint *)
Theorem C02_pixel_of_point_unique : forall H W sy sx oy ox p q c, 0 < sy -> 0 < sx ->
  in_pixel (H, W) (sy, sx) (oy, ox) p c -> in_pixel (H, W) (sy, sx) (oy, ox) q c -> p = q.
Proof. exact in_pixel_unique. Qed.

(* every coordinate in the half-open square of pixel p = (i,j) of the array converts to (i,j) and to the flat index i*W+j: scalar routine,
   slim-grid routines on one point, and on whole grids *)
Theorem C02_index_of_interior_points :
  (* index_of_interior_point *)
  (forall H W sy sx oy ox c p, 0 < sy -> 0 < sx ->
  in_array (H, W) p -> in_pixel (H, W) (sy, sx) (oy, ox) p c ->
  @pixel_coordinates_2d_from ROps c (H, W) (sy, sx) (oy, ox) = p /\
  @grid_pixel_centres_2d_slim_from ROps [c] (H, W) (sy, sx) (oy, ox) = [(IZR (fst p), IZR (snd p))] /\
  @grid_pixel_indexes_2d_slim_from ROps [c] (H, W) (sy, sx) (oy, ox) = [IZR (fst p * W + snd p)]) /\
  (* index_of_interior_points *)
  (forall H W sy sx oy ox g ps, 0 < sy -> 0 < sx ->
  Forall2 (fun c p => in_array (H, W) p /\ in_pixel (H, W) (sy, sx) (oy, ox) p c) g ps ->
  @grid_pixel_centres_2d_slim_from ROps g (H, W) (sy, sx) (oy, ox) = map (fun p => (IZR (fst p), IZR (snd p))) ps /\
  @grid_pixel_indexes_2d_slim_from ROps g (H, W) (sy, sx) (oy, ox) = map (fun p => IZR (fst p * W + snd p)) ps).
Proof. exact (conj index_of_interior_point (index_of_interior_points)). Qed.
Theorem C02_index_of_interior_point_1d : forall n s o x j, 0 < s -> (0 <= j)%Z ->
  @cx_spec ROps n s o (IZR j) - s / 2 <= x < @cx_spec ROps n s o (IZR j) + s / 2 ->
  @pixel_coordinates_1d_from ROps x n s o = j.
Proof. exact pix1_inside. Qed.

(* OUTSIDE the extent (what int() = truncation toward zero does; the property claims nothing there): a point less than one pixel below the
   low edge still converts to index 0 -- a valid index although the point is outside --; one pixel or more below: a negative index; at or
   above the high edge: an index >= n *)
Theorem C02_index_outside_extent_1d : forall n s o x, 0 < s ->
  (@lo_spec ROps n s o - s < x < @lo_spec ROps n s o -> @pixel_coordinates_1d_from ROps x n s o = 0%Z) /\
  (x <= @lo_spec ROps n s o - s -> (@pixel_coordinates_1d_from ROps x n s o <= -1)%Z) /\
  (@hi_spec ROps n s o <= x -> (n <= @pixel_coordinates_1d_from ROps x n s o)%Z).
Proof. exact index_outside_extent_1d. Qed.

(* ---- 4. pixel centre -> index -> centre and index -> centre -> index are the identity (2-D, 1-D) *)
Theorem C02_round_trips :
  (* index_centre_index *)
  (forall H W sy sx oy ox i j, 0 < sy -> 0 < sx -> (0 <= i)%Z -> (0 <= j)%Z ->
  @pixel_coordinates_2d_from ROps (@scaled_coordinates_2d_from ROps (IZR i, IZR j) (H, W) (sy, sx) (oy, ox)) (H, W) (sy, sx) (oy, ox) = (i, j)) /\
  (* centre_index_centre *)
  (forall H W sy sx oy ox i j, 0 < sy -> 0 < sx -> (0 <= i)%Z -> (0 <= j)%Z ->
  let c := @centre_spec ROps (H, W) (sy, sx) (oy, ox) (i, j) in
  let p := @pixel_coordinates_2d_from ROps c (H, W) (sy, sx) (oy, ox) in
  @scaled_coordinates_2d_from ROps (IZR (fst p), IZR (snd p)) (H, W) (sy, sx) (oy, ox) = c) /\
  (* index_centre_index_1d *)
  (forall n s o j, 0 < s -> (0 <= j)%Z ->
  @pixel_coordinates_1d_from ROps (@scaled_coordinates_1d_from ROps (IZR j) n s o) n s o = j).
Proof. exact (conj pix2_of_centre (conj centre_of_pix2_of_centre (pix1_of_centre))). Qed.

(* array form: the pixel-centre grid of ANY mask converts back to the (row, column) of each unmasked pixel, in row-major order, and to its
   flat index row * W + column; 1-D: back to the indices of the unmasked pixels *)
Theorem C02_grid_of_mask_indexes_to_itself :
  (* grid_of_mask_indexes_to_itself *)
  (forall (m : mask) sy sx oy ox, 0 < sy -> 0 < sx ->
  let g := @grid_2d_slim_via_mask_from ROps m (sy, sx) (oy, ox) in
  @grid_pixel_centres_2d_slim_from ROps g (rows m, cols m) (sy, sx) (oy, ox) = map (fun p => (IZR (fst p), IZR (snd p))) (unmasked m) /\
  @grid_pixel_indexes_2d_slim_from ROps g (rows m, cols m) (sy, sx) (oy, ox) = map (fun p => IZR (fst p * cols m + snd p)) (unmasked m)) /\
  (* grid1_of_mask_indexes_to_itself *)
  (forall (m : list bool) s o, 0 < s ->
  map (fun x => @pixel_coordinates_1d_from ROps x (Z.of_nat (length m)) s o) (@grid_1d_slim_via_mask_from ROps m s o) = unmasked1 m).
Proof. exact (conj grid_of_mask_indexes_to_itself (grid1_of_mask_indexes_to_itself)). Qed.

(* ---- 5. continuous pixel coordinates: they are the distance from the top-left corner of the extent in pixel units; the conversion and
   its inverse compose to the identity both ways; the integer index is their floor *)
Theorem C02_continuous_pixel_coordinates :
  (* pixels_formula *)
  (forall g H W sy sx oy ox, sy <> 0 -> sx <> 0 ->
  @grid_pixels_2d_slim_from ROps g (H, W) (sy, sx) (oy, ox) =
  map (fun c => (((oy + IZR H * sy / 2) - fst c) / sy, (snd c - (ox - IZR W * sx / 2)) / sx)) g) /\
  (* scaled_of_pixels *)
  (forall g H W sy sx oy ox, sy <> 0 -> sx <> 0 ->
  @grid_scaled_2d_slim_from ROps (@grid_pixels_2d_slim_from ROps g (H, W) (sy, sx) (oy, ox)) (H, W) (sy, sx) (oy, ox) = g) /\
  (* pixels_of_scaled *)
  (forall g H W sy sx oy ox, sy <> 0 -> sx <> 0 ->
  @grid_pixels_2d_slim_from ROps (@grid_scaled_2d_slim_from ROps g (H, W) (sy, sx) (oy, ox)) (H, W) (sy, sx) (oy, ox) = g) /\
  (* centres_are_floor_of_pixels *)
  (forall g H W sy sx oy ox, sy <> 0 -> sx <> 0 ->
  Forall (fun p => 0 <= fst p /\ 0 <= snd p) (@grid_pixels_2d_slim_from ROps g (H, W) (sy, sx) (oy, ox)) ->
  @grid_pixel_centres_2d_slim_from ROps g (H, W) (sy, sx) (oy, ox) =
  map (fun p => (IZR (Rfloor (fst p)), IZR (Rfloor (snd p)))) (@grid_pixels_2d_slim_from ROps g (H, W) (sy, sx) (oy, ox))).
Proof. exact (conj pixels_are_spec (conj scaled_of_pixels (conj pixels_of_scaled (centres_are_floor_of_pixels)))). Qed.

(* ---- 6. shape-based mask constructors (util layer): pixel (i,j) is unmasked iff its centre, measured with origin (0,0) (centre_spec with
   origin (0,0)), satisfies the radial inequality about the requested centre.  [offset] is that centre minus the requested centre, as (dy, dx). *)
Theorem C02_circular_exact :
  (* circular_exact *)
  (forall H W sy sx r cy cx, sy <> 0 -> sx <> 0 ->
  @mask_2d_circular_from ROps (H, W) (sy, sx) r (cy, cx) = mask_of (H, W) (@circ_inside ROps (H, W) (sy, sx) r (cy, cx))) /\
  (* circular_element *)
  (forall H W sy sx r cy cx i j, sy <> 0 -> sx <> 0 -> (0 <= i < H)%Z -> (0 <= j < W)%Z ->
  getm (@mask_2d_circular_from ROps (H, W) (sy, sx) r (cy, cx)) (i, j) = false <->
  sqrt (((IZR (H - 1) / 2 - IZR i) * sy - cy) ^ 2 + ((IZR j - IZR (W - 1) / 2) * sx - cx) ^ 2) <= r).
Proof. exact (conj circular_is_spec (circular_element_explicit)). Qed.
Theorem C02_annular_and_anti_annular_exact :
  (* annular_exact *)
  (forall H W sy sx ri ro cy cx, sy <> 0 -> sx <> 0 ->
  @mask_2d_circular_annular_from ROps (H, W) (sy, sx) ri ro (cy, cx) =
  mask_of (H, W) (@ann_inside ROps (H, W) (sy, sx) ri ro (cy, cx))) /\
  (* anti_annular_exact *)
  (forall H W sy sx ri ro ro2 cy cx, sy <> 0 -> sx <> 0 ->
  @mask_2d_circular_anti_annular_from ROps (H, W) (sy, sx) ri ro ro2 (cy, cx) =
  mask_of (H, W) (@anti_inside ROps (H, W) (sy, sx) ri ro ro2 (cy, cx))).
Proof. exact (conj annular_is_spec (anti_annular_is_spec)). Qed.

(* the squared predicates used by the *_inside specifications are the inequalities on the distance itself *)
Theorem C02_sqrt_predicates_meaning :
  (* sqrt_le_meaning *)
  (forall a r, 0 <= a -> (@sqrt_le ROps a r = true <-> sqrt a <= r)) /\
  (* sqrt_ge_meaning *)
  (forall a r, 0 <= a -> (@sqrt_ge ROps a r = true <-> r <= sqrt a)).
Proof. exact (conj sqrt_le_iff (sqrt_ge_iff)). Qed.

(* ---- 7. elliptical constructors.  mask_2d_elliptical_from / mask_2d_elliptical_annular_from / elliptical_radius_from are GENERATED over R only
   (np.arctan2, np.radians, np.sin, np.cos -> atan2R, radiansR, sin, cos; NumPy's oracle contract is spelled out in the header of Gen_geometry.v).
   The unmasked pixels are exactly those whose offset (dy, dx), rotated clockwise by the angle (degrees, counter-clockwise from the positive
   x-axis), satisfies sqrt(x'^2 + (y'/q)^2) <= R  (annular: inner ellipse >= R_in and outer ellipse <= R_out). *)
Theorem C02_elliptical_exact :
  (* elliptical_exact *)
  (forall H W sy sx R q angle cy cx, sy <> 0 -> sx <> 0 -> q <> 0 ->
  mask_2d_elliptical_from (H, W) (sy, sx) R q angle (cy, cx) =
  mask_of (H, W) (@ell_inside ROps (H, W) (sy, sx) R q (cos (angle * PI / 180), sin (angle * PI / 180)) (cy, cx))) /\
  (* elliptical_annular_exact *)
  (forall H W sy sx Ri qi ai Ro qo ao cy cx, sy <> 0 -> sx <> 0 -> qi <> 0 -> qo <> 0 ->
  mask_2d_elliptical_annular_from (H, W) (sy, sx) Ri qi ai Ro qo ao (cy, cx) =
  mask_of (H, W) (@ellann_inside ROps (H, W) (sy, sx) Ri qi (cos (ai * PI / 180), sin (ai * PI / 180)) Ro qo
                                 (cos (ao * PI / 180), sin (ao * PI / 180)) (cy, cx))).
Proof. exact (conj elliptical_R_is_spec (elliptical_annular_R_is_spec)). Qed.

(* the executable forms run against the implementation (Model/C02x.v: the angle enters as its (cos, sin) pair; util and class layer) are
   the generated code, for every angle: the angle-addition step is proved, not assumed *)
Theorem C02_elliptical_executable_models :
  (* elliptical_executable_model *)
  (forall H W sy sx R q angle cy cx, sy <> 0 -> sx <> 0 -> q <> 0 ->
  mask_2d_elliptical_from (H, W) (sy, sx) R q angle (cy, cx) =
  @mask_2d_elliptical_from_cs ROps (H, W) (sy, sx) R q (cos (angle * PI / 180), sin (angle * PI / 180)) (cy, cx)) /\
  (* elliptical_annular_executable_model *)
  (forall H W sy sx Ri qi ai Ro qo ao cy cx,
  sy <> 0 -> sx <> 0 -> qi <> 0 -> qo <> 0 ->
  mask_2d_elliptical_annular_from (H, W) (sy, sx) Ri qi ai Ro qo ao (cy, cx) =
  @mask_2d_elliptical_annular_from_cs ROps (H, W) (sy, sx) Ri qi (cos (ai * PI / 180), sin (ai * PI / 180)) Ro qo
                                       (cos (ao * PI / 180), sin (ao * PI / 180)) (cy, cx)) /\
  (* elliptical_radius_executable_model *)
  (forall y x angle q,
  elliptical_radius_from y x angle q = @elliptical_radius_from_cs ROps y x (cos (angle * PI / 180), sin (angle * PI / 180)) q) /\
  (* Mask2D_elliptical_executable_model *)
  (forall H W R q angle sy sx o cy cx inv, sy <> 0 -> sx <> 0 -> q <> 0 ->
  Mask2D_elliptical (H, W) R q angle (sy, sx) o (cy, cx) inv =
  @Mask2D_elliptical_cs ROps (H, W) R q (cos (angle * PI / 180), sin (angle * PI / 180)) (sy, sx) o (cy, cx) inv) /\
  (* Mask2D_elliptical_annular_executable_model *)
  (forall H W Ri qi ai Ro qo ao sy sx o cy cx inv,
  sy <> 0 -> sx <> 0 -> qi <> 0 -> qo <> 0 ->
  Mask2D_elliptical_annular (H, W) Ri qi ai Ro qo ao (sy, sx) o (cy, cx) inv =
  @Mask2D_elliptical_annular_cs ROps (H, W) Ri qi (cos (ai * PI / 180), sin (ai * PI / 180)) Ro qo
                                (cos (ao * PI / 180), sin (ao * PI / 180)) (sy, sx) o (cy, cx) inv).
Proof. exact (conj elliptical_R_is_cs (conj elliptical_annular_R_is_cs (conj elliptical_radius_R_is_cs (conj Mask2D_elliptical_is_cs (Mask2D_elliptical_annular_is_cs))))). Qed.
Theorem C02_polar_form : forall y x, let r := sqrt (x * x + y * y) in r * cos (atan2R y x) = x /\ r * sin (atan2R y x) = y.
Proof. exact polar. Qed.

(* ---- 8. the CLASS layer of the mask constructors (Mask2D.all_false / circular / circular_annular / circular_anti_annular / elliptical /
   elliptical_annular, generated from mask_2d.py).  An object is (content, pixel_scales, origin).  The content is the documented shape with
   pixel centres measured from origin (0,0): the `origin` argument is stored and does NOT enter the shape; invert = True complements it. *)
Theorem C02_Mask2D_constructor_objects :
  (* Mask2D_all_false_object *)
  (forall sh s o inv, @Mask2D_all_false ROps sh s o inv = (mask_inv inv (mask_of sh (fun _ => true)), s, o)) /\
  (* Mask2D_circular_object *)
  (forall H W r sy sx o cy cx inv, sy <> 0 -> sx <> 0 ->
  @Mask2D_circular ROps (H, W) r (sy, sx) o (cy, cx) inv = (mask_inv inv (mask_of (H, W) (@circ_inside ROps (H, W) (sy, sx) r (cy, cx))), (sy, sx), o)) /\
  (* Mask2D_circular_annular_object *)
  (forall H W ri ro sy sx o cy cx inv, sy <> 0 -> sx <> 0 ->
  @Mask2D_circular_annular ROps (H, W) ri ro (sy, sx) o (cy, cx) inv =
  (mask_inv inv (mask_of (H, W) (@ann_inside ROps (H, W) (sy, sx) ri ro (cy, cx))), (sy, sx), o)) /\
  (* Mask2D_circular_anti_annular_object *)
  (forall H W ri ro ro2 sy sx o cy cx inv, sy <> 0 -> sx <> 0 ->
  @Mask2D_circular_anti_annular ROps (H, W) ri ro ro2 (sy, sx) o (cy, cx) inv =
  (mask_inv inv (mask_of (H, W) (@anti_inside ROps (H, W) (sy, sx) ri ro ro2 (cy, cx))), (sy, sx), o)).
Proof. exact (conj Mask2D_all_false_obj (conj Mask2D_circular_obj (conj Mask2D_annular_obj (Mask2D_anti_annular_obj)))). Qed.
Theorem C02_Mask2D_elliptical_objects :
  (* Mask2D_elliptical_object *)
  (forall H W R q angle sy sx o cy cx inv, sy <> 0 -> sx <> 0 -> q <> 0 ->
  Mask2D_elliptical (H, W) R q angle (sy, sx) o (cy, cx) inv =
  (mask_inv inv (mask_of (H, W) (@ell_inside ROps (H, W) (sy, sx) R q (cos (angle * PI / 180), sin (angle * PI / 180)) (cy, cx))), (sy, sx), o)) /\
  (* Mask2D_elliptical_annular_object *)
  (forall H W Ri qi ai Ro qo ao sy sx o cy cx inv, sy <> 0 -> sx <> 0 -> qi <> 0 -> qo <> 0 ->
  Mask2D_elliptical_annular (H, W) Ri qi ai Ro qo ao (sy, sx) o (cy, cx) inv =
  (mask_inv inv (mask_of (H, W) (@ellann_inside ROps (H, W) (sy, sx) Ri qi (cos (ai * PI / 180), sin (ai * PI / 180)) Ro qo
                                                (cos (ao * PI / 180), sin (ao * PI / 180)) (cy, cx))), (sy, sx), o)).
Proof. exact (conj Mask2D_elliptical_obj (Mask2D_elliptical_annular_obj)). Qed.

(* the geometry handed out by the constructed mask (Mask2D.geometry): the requested shape, the pixel scales and origin as given *)
Theorem C02_Mask2D_circular_geometry : forall H W r sy sx o cy cx, (1 <= H)%Z -> (0 <= W)%Z -> sy <> 0 -> sx <> 0 ->
  @Mask2D_geometry ROps (@Mask2D_circular ROps (H, W) r (sy, sx) o (cy, cx) false) = ((H, W), (sy, sx), o).
Proof. exact Mask2D_circular_geometry. Qed.

(* WHERE the shape sits in the mask's own coordinate system (the one Grid2D.from_mask / the extent report, which includes the origin): the
   offset (dy, dx) that all five shape predicates are evaluated at is the pixel's centre in the mask's own coordinates -- for ANY mask origin
   o -- minus (o + centre); so pixel (i,j) of Mask2D.circular is unmasked iff its centre y = o_y + ((H-1)/2 - i) s_y, x = o_x + (j - (W-1)/2) s_x
   lies within the radius of the point origin + centre.  `centre` is an offset from the mask origin -- that is exactly what the code does. *)
Theorem C02_shapes_are_about_origin_plus_centre :
  (* offset_is_relative_to_origin_plus_centre *)
  (forall H W sy sx oy ox cy cx i j,
  @offset ROps (H, W) (sy, sx) (cy, cx) (i, j) =
  (fst (@centre_spec ROps (H, W) (sy, sx) (oy, ox) (i, j)) - (oy + cy), snd (@centre_spec ROps (H, W) (sy, sx) (oy, ox) (i, j)) - (ox + cx))) /\
  (* circular_about_origin_plus_centre *)
  (forall H W r sy sx oy ox cy cx i j, sy <> 0 -> sx <> 0 -> (0 <= i < H)%Z -> (0 <= j < W)%Z ->
  let M := @Mask2D_circular ROps (H, W) r (sy, sx) (oy, ox) (cy, cx) false in
  let p := @centre_spec ROps (H, W) (sy, sx) (oy, ox) (i, j) in
  getm (fst (fst M)) (i, j) = false <-> sqrt ((fst p - (oy + cy)) ^ 2 + (snd p - (ox + cx)) ^ 2) <= r).
Proof. exact (conj offset_relative_to_origin_plus_centre (circular_about_origin_plus_centre)). Qed.

(* Grid2D.from_mask of the constructed mask: the centres (with the origin) of the pixels inside the circle, row-major, carrying the mask *)
Theorem C02_circular_grid : forall H W r sy sx oy ox cy cx, (1 <= H)%Z -> (0 <= W)%Z -> sy <> 0 -> sx <> 0 ->
  let M := @Mask2D_circular ROps (H, W) r (sy, sx) (oy, ox) (cy, cx) false in
  @Grid2D_from_mask ROps M =
  (map (@centre_spec ROps (H, W) (sy, sx) (oy, ox)) (filter (@circ_inside ROps (H, W) (sy, sx) r (cy, cx)) (coords H W)), M).
Proof. exact circular_grid. Qed.

(* ---- 9. Grid2D.uniform / from_mask, Mask2D.derive_grid.all_false / unmasked (generated from uniform_2d.py, derive/grid_2d.py).  A Grid2D object
   is (slim values, mask object).  Entry i * W + j of the uniform grid is the centre of pixel (i,j) -- the flattened index IS the position in the
   grid -- and the grid converts to the flat indices 0 .. H W - 1 *)
Theorem C02_uniform_grid :
  (* uniform_grid_object *)
  (forall H W sy sx oy ox, (1 <= H)%Z -> (0 <= W)%Z -> sy <> 0 -> sx <> 0 ->
  @Grid2D_uniform ROps (H, W) (sy, sx) (oy, ox) =
  (map (@centre_spec ROps (H, W) (sy, sx) (oy, ox)) (coords H W), (mask_of (H, W) (fun _ => true), (sy, sx), (oy, ox)))) /\
  (* uniform_grid_nth *)
  (forall H W sy sx oy ox i j d, (0 <= i < H)%Z -> (0 <= j < W)%Z -> sy <> 0 -> sx <> 0 ->
  nth (Z.to_nat (i * W + j)) (fst (@Grid2D_uniform ROps (H, W) (sy, sx) (oy, ox))) d =
  (oy + (IZR (H - 1) / 2 - IZR i) * sy, ox + (IZR j - IZR (W - 1) / 2) * sx)) /\
  (* uniform_grid_indexes *)
  (forall H W sy sx oy ox, (1 <= H)%Z -> (0 <= W)%Z -> 0 < sy -> 0 < sx ->
  @grid_pixel_indexes_2d_slim_from ROps (fst (@Grid2D_uniform ROps (H, W) (sy, sx) (oy, ox))) (H, W) (sy, sx) (oy, ox) = map IZR (seqZ (H * W))).
Proof. exact (conj uniform_obj (conj uniform_nth (uniform_indexes))). Qed.
Theorem C02_coords_flat_index : forall H W, (0 <= H)%Z -> (0 <= W)%Z -> map (fun p => (fst p * W + snd p)%Z) (coords H W) = seqZ (H * W).
Proof. exact coords_flat_index. Qed.
Theorem C02_from_mask_and_derive_grid_objects :
  (* from_mask_object *)
  (forall (m : mask) sy sx oy ox, sy <> 0 -> sx <> 0 ->
  @Grid2D_from_mask ROps (m, (sy, sx), (oy, ox)) =
  (map (@centre_spec ROps (rows m, cols m) (sy, sx) (oy, ox)) (unmasked m), (m, (sy, sx), (oy, ox)))) /\
  (* derive_unmasked_is_from_mask *)
  (forall M, @DeriveGrid2D_unmasked ROps M = @Grid2D_from_mask ROps M) /\
  (* derive_all_false_object *)
  (forall (m : mask) sy sx oy ox, (1 <= rows m)%Z -> sy <> 0 -> sx <> 0 ->
  @DeriveGrid2D_all_false ROps (m, (sy, sx), (oy, ox)) =
  (map (@centre_spec ROps (rows m, cols m) (sy, sx) (oy, ox)) (coords (rows m) (cols m)),
   (mask_of (rows m, cols m) (fun _ => true), (sy, sx), (oy, ox)))).
Proof. exact (conj from_mask_obj (conj derive_unmasked_is_from_mask (derive_all_false_obj))). Qed.

(* ---- 10. Geometry2D methods (generated from geometry_2d.py) applied to a Grid2D (vals, GM) that carries its OWN mask GM -- any content, any
   shape, any pixel scales / origin.  The conversions use the GEOMETRY's shape (H, W), scales and origin; GM is only passed on.  The scalar
   methods are the util functions at the geometry's attributes. *)
Theorem C02_geometry_methods_use_geometry_shape :
  (* geometry_grid_methods_use_geometry_shape *)
  (forall sh s o vals GM,
  @Geometry2D_grid_pixels_2d_from ROps sh s o (vals, GM) = (@grid_pixels_2d_slim_from ROps vals sh s o, GM) /\
  @Geometry2D_grid_pixel_centres_2d_from ROps sh s o (vals, GM) = (@grid_pixel_centres_2d_slim_from ROps vals sh s o, GM) /\
  @Geometry2D_grid_pixel_indexes_2d_from ROps sh s o (vals, GM) = (@grid_pixel_indexes_2d_slim_from ROps vals sh s o, GM) /\
  @Geometry2D_grid_scaled_2d_from ROps sh s o (vals, GM) = (@grid_scaled_2d_slim_from ROps vals sh s o, GM)) /\
  (* geometry_scalar_methods *)
  (forall sh s o c p,
  @Geometry2D_pixel_coordinates_2d_from ROps sh s o c = @pixel_coordinates_2d_from ROps c sh s o /\
  @Geometry2D_scaled_coordinates_2d_from ROps sh s o p = @scaled_coordinates_2d_from ROps p sh s o /\
  @Geometry2D_central_pixel_coordinates ROps sh s o = @central_pixel_coordinates_2d_from ROps sh /\
  @Geometry2D_central_scaled_coordinates ROps sh s o = @central_scaled_coordinate_2d_from ROps sh s o).
Proof. exact (conj geometry_grid_methods (geometry_scalar_methods)). Qed.
Theorem C02_geometry_index_of_interior_points : forall H W sy sx oy ox vals GM ps, 0 < sy -> 0 < sx ->
  Forall2 (fun c p => in_array (H, W) p /\ in_pixel (H, W) (sy, sx) (oy, ox) p c) vals ps ->
  @Geometry2D_grid_pixel_centres_2d_from ROps (H, W) (sy, sx) (oy, ox) (vals, GM) = (map (fun p => (IZR (fst p), IZR (snd p))) ps, GM) /\
  @Geometry2D_grid_pixel_indexes_2d_from ROps (H, W) (sy, sx) (oy, ox) (vals, GM) = (map (fun p => IZR (fst p * W + snd p)) ps, GM).
Proof. exact geometry_index_of_interior_points. Qed.
Theorem C02_geometry_pixels_scaled_inverse : forall H W sy sx oy ox vals GM, sy <> 0 -> sx <> 0 ->
  @Geometry2D_grid_scaled_2d_from ROps (H, W) (sy, sx) (oy, ox) (@Geometry2D_grid_pixels_2d_from ROps (H, W) (sy, sx) (oy, ox) (vals, GM)) = (vals, GM) /\
  @Geometry2D_grid_pixels_2d_from ROps (H, W) (sy, sx) (oy, ox) (@Geometry2D_grid_scaled_2d_from ROps (H, W) (sy, sx) (oy, ox) (vals, GM)) = (vals, GM).
Proof. exact geometry_pixels_scaled_inverse. Qed.

(* scaled_coordinate_2d_to_scaled_at_pixel_centre_from: a point of the half-open square of pixel p of the array snaps to p's centre; idempotent *)
Theorem C02_snap_to_pixel_centre :
  (* snap_to_pixel_centre *)
  (forall H W sy sx oy ox c p, 0 < sy -> 0 < sx -> in_array (H, W) p -> in_pixel (H, W) (sy, sx) (oy, ox) p c ->
  @Geometry2D_scaled_coordinate_2d_to_scaled_at_pixel_centre_from ROps (H, W) (sy, sx) (oy, ox) c = @centre_spec ROps (H, W) (sy, sx) (oy, ox) p) /\
  (* snap_idempotent *)
  (forall H W sy sx oy ox c p, 0 < sy -> 0 < sx -> in_array (H, W) p -> in_pixel (H, W) (sy, sx) (oy, ox) p c ->
  let snap := @Geometry2D_scaled_coordinate_2d_to_scaled_at_pixel_centre_from ROps (H, W) (sy, sx) (oy, ox) in snap (snap c) = snap c).
Proof. exact (conj snap_to_pixel_centre (snap_idempotent)). Qed.

(* ---- 11. the native (3-D) index routine geometry_util.grid_pixel_centres_2d_from: row by row it is the slim routine *)
Theorem C02_native_routine :
  (* native_is_rowwise *)
  (forall g sh s o,
  @grid_pixel_centres_2d_from ROps g sh s o = map (fun row => @grid_pixel_centres_2d_slim_from ROps row sh s o) g) /\
  (* native_index_of_interior_points *)
  (forall H W sy sx oy ox g ps, 0 < sy -> 0 < sx ->
  Forall2 (Forall2 (fun c p => in_array (H, W) p /\ in_pixel (H, W) (sy, sx) (oy, ox) p c)) g ps ->
  @grid_pixel_centres_2d_from ROps g (H, W) (sy, sx) (oy, ox) = map (map (fun p => (IZR (fst p), IZR (snd p)))) ps).
Proof. exact (conj native_is_rowwise (native_index_of_interior_points)). Qed.

(* ---- 12. 1-D class layer (any origin, any pixel scale): Grid1D.uniform, Grid1D.from_mask, Mask1D.geometry.extent *)
Theorem C02_1d_objects :
  (* uniform_1d_object *)
  (forall n s o, (0 <= n)%Z -> s <> 0 ->
  @Grid1D_uniform ROps n s o = (map (fun j => o + (IZR j - IZR (n - 1) / 2) * s) (seqZ n), (full1 false n, s, o))) /\
  (* from_mask_1d_object *)
  (forall (m : list bool) s o, s <> 0 ->
  @Grid1D_from_mask ROps (m, s, o) = (map (@centre1_spec ROps (Z.of_nat (length m)) s o) (unmasked1 m), (m, s, o))) /\
  (* Mask1D_geometry_extent *)
  (forall (m : list bool) s o,
  let g := @Mask1D_geometry ROps (m, s, o) in
  @Geometry1D_extent ROps (fst (fst g)) (snd (fst g)) (snd g) = (o - IZR (Z.of_nat (length m)) * s / 2, o + IZR (Z.of_nat (length m)) * s / 2)).
Proof. exact (conj uniform1_obj (conj from_mask1_obj (Mask1D_geometry_extent))). Qed.

(* KNOWN FINDING (props/C02.findings.json, fixes/C02_derive_grid_1d_all_false.diff): the body of Mask1D.derive_grid.all_false as it is in the
   repository pairs the grid of the UNMASKED pixels with the all-false mask: fewer values than the mask has pixels *)
Theorem C02_derive_all_false_1d_refuted : exists M, length (fst (DeriveGrid1D_all_false_current M)) <> length (unmasked1 (fst (fst (snd (DeriveGrid1D_all_false_current M))))).
Proof. exact derive_all_false_1d_refuted. Qed.
(* ... and the REPAIRED body (values from grid_1d_slim_via_shape_slim_from, as DeriveGrid2D.all_false does) returns every pixel's centre *)
Theorem C02_derive_all_false_1d_repaired : forall (m : list bool) s o, s <> 0 ->
  DeriveGrid1D_all_false_repaired (m, s, o) =
  (map (@centre1_spec ROps (Z.of_nat (length m)) s o) (seqZ (Z.of_nat (length m))), (full1 false (Z.of_nat (length m)), s, o)).
Proof. exact derive_all_false_1d_repaired_ok. Qed.
(* ... the sibling constructor Grid1D.uniform_from_zero (hand model in the code's shape, Model/C02x.v: the origin-0 pixel centres minus
   their minimum, handed to no_mask): entry k is k pixel scales from zero, on the all-false mask with origin 0 *)
Theorem C02_uniform_from_zero : forall n s k, (0 <= k < n)%Z -> 0 < s ->
  nth (Z.to_nat k) (fst (@Grid1D_uniform_from_zero ROps n s)) 0 = IZR k * s /\
  snd (@Grid1D_uniform_from_zero ROps n s) = (full1 false n, s, 0).
Proof. exact uniform_from_zero_nth. Qed.
Example C02_uniform_from_zero_nonvacuous : (0 <= 2 < 4)%Z /\ 0 < 1 / 2.
Proof. split; [split; [discriminate | reflexivity] | lra]. Qed.

(* ---- 13. with property C01's development (slim <-> native): Grid2D.from_mask(mask).native -- C01's native_from applied to the slim values --
   holds the centre of the k-th unmasked pixel AT that pixel and (0, 0) at masked pixels.  C01 indexes pixels by nat pairs (native_for_slim =
   the row-major unmasked pixels, C01_native_for_slim_is_rowmajor_unmasked); zpair injects them into Z; the two enumerations agree. *)
Theorem C02_from_mask_native :
  (* from_mask_native *)
  (forall (m : mask) H W sy sx oy ox k d, Model.C01.rectb H W m = true -> (0 < H)%nat -> sy <> 0 -> sx <> 0 ->
  (k < Model.C01.count m)%nat ->
  let G := @Grid2D_from_mask ROps (m, (sy, sx), (oy, ox)) in
  let p := nth k (Model.C01.native_for_slim m) d in
  Model.C01.get2 (0, 0) (Model.C01.native_from (0, 0) m (fst G)) p = @centre_spec ROps (rows m, cols m) (sy, sx) (oy, ox) (zpair p)) /\
  (* from_mask_native_masked *)
  (forall (m : mask) H W sy sx oy ox p, Model.C01.rectb H W m = true -> (0 < H)%nat ->
  Model.C01.mget m p = true ->
  Model.C01.get2 (0, 0) (Model.C01.native_from (0, 0) m (fst (@Grid2D_from_mask ROps (m, (sy, sx), (oy, ox))))) p = (0, 0)) /\
  (* unmasked_is_C01_unmasked *)
  (forall (m : mask), unmasked m = map zpair (Model.C01.unmasked_spec m)).
Proof. exact (conj from_mask_native (conj from_mask_native_masked (unmasked_is_C01))). Qed.

(* ------------------------------------------------------------------ non-vacuity: the hypothesis sets are met by non-trivial
   inputs (non-square shape, anisotropic scales, unequal non-zero origin), and the models run (QOps) *)
Example C02_ex_interior_point_hypotheses :
  0 < 2 /\ 0 < 1 / 2 /\ in_array (3, 4)%Z (2, 1)%Z /\ in_pixel (3, 4)%Z (2, 1 / 2) (1, -1) (2, 1)%Z (- 1 / 5, - 13 / 10).
Proof.
  unfold in_array, in_pixel, cy_spec, cx_spec, two. cbn [T add sub mul div ofZ ROps fst snd].
  change (3 - 1)%Z with 2%Z. change (4 - 1)%Z with 3%Z.
  repeat split; try (cbv; congruence); lra.
Qed.
Example C02_ex_interior_points_hypotheses :
  Forall2 (fun c p => in_array (3, 4)%Z p /\ in_pixel (3, 4)%Z (2, 1 / 2) (1, -1) p c)
          [(- 1 / 5, - 13 / 10); (3, 0 - 2)] [(2, 1)%Z; (0, 0)%Z].
Proof.
  repeat constructor; unfold in_pixel, cy_spec, cx_spec, two; cbn [T add sub mul div ofZ ROps fst snd];
    change (3 - 1)%Z with 2%Z; change (4 - 1)%Z with 3%Z; try (cbv; congruence); lra.
Qed.
Example C02_ex_run_index : @pixel_coordinates_2d_from QOps (- 1 # 5, - 13 # 10)%Q (3, 4)%Z (2, 1 # 2)%Q (1, - 1)%Q = (2, 1)%Z
  /\ @grid_pixel_indexes_2d_slim_from QOps [(- 1 # 5, - 13 # 10)%Q] (3, 4)%Z (2, 1 # 2)%Q (1, - 1)%Q = [9%Q].
Proof. split; vm_compute; reflexivity. Qed.
Example C02_ex_run_extent : @Geometry2D_extent QOps (3, 4)%Z (2, 1 # 2)%Q (1, - 1)%Q = (- 2, 0, - 2, 4)%Q.
Proof. vm_compute. reflexivity. Qed.
Example C02_ex_run_grid :     (* a mask with a hole and an outer-ring pixel, 3 x 4 *)
  let m := [[false; true; false; false]; [false; true; true; false]; [false; false; false; true]] in
  @grid_2d_slim_via_mask_from QOps m (2, 1 # 2)%Q (1, - 1)%Q = map (@centre_spec QOps (3, 4)%Z (2, 1 # 2)%Q (1, - 1)%Q) (unmasked m)
  /\ length (unmasked m) = 8%nat.
Proof. split; vm_compute; reflexivity. Qed.
Example C02_ex_run_circular :  (* radius tie: pixel centres at distance exactly 1 from the requested centre are unmasked *)
  @mask_2d_circular_from QOps (3, 4)%Z (1, 1)%Q 1%Q (0, 1 # 2)%Q =
  [[true; true; false; true]; [true; false; false; false]; [true; true; false; true]]
  /\ mask_of (3, 4)%Z (@circ_inside QOps (3, 4)%Z (1, 1)%Q 1%Q (0, 1 # 2)%Q) =
  [[true; true; false; true]; [true; false; false; false]; [true; true; false; true]].
Proof. split; vm_compute; reflexivity. Qed.
Example C02_ex_run_elliptical :  (* 3-4-5 angle, axis ratio 1/2 *)
  @mask_2d_elliptical_from_cs QOps (5, 5)%Z (1, 1)%Q 2%Q (1 # 2)%Q (4 # 5, 3 # 5)%Q (0, 0)%Q =
  mask_of (5, 5)%Z (@ell_inside QOps (5, 5)%Z (1, 1)%Q 2%Q (1 # 2)%Q (4 # 5, 3 # 5)%Q (0, 0)%Q)
  /\ length (unmasked (mask_of (5, 5)%Z (@ell_inside QOps (5, 5)%Z (1, 1)%Q 2%Q (1 # 2)%Q (4 # 5, 3 # 5)%Q (0, 0)%Q))) = 7%nat.
Proof. split; vm_compute; reflexivity. Qed.

Example C02_ex_run_class_circular :   (* origin (5, -3) does not move the circle; invert complements *)
  @Mask2D_circular QOps (3, 4)%Z 1%Q (1, 1)%Q (5, - 3)%Q (0, 1 # 2)%Q false =
  ([[true; true; false; true]; [true; false; false; false]; [true; true; false; true]], (1, 1)%Q, (5, - 3)%Q)
  /\ fst (fst (@Mask2D_circular QOps (3, 4)%Z 1%Q (1, 1)%Q (5, - 3)%Q (0, 1 # 2)%Q true)) =
  [[false; false; true; false]; [false; true; true; true]; [false; false; true; false]].
Proof. split; vm_compute; reflexivity. Qed.
Example C02_ex_run_uniform :
  @Grid2D_uniform QOps (2, 3)%Z (2, 1 # 2)%Q (1, - 1)%Q =
  ([(2, - 3 # 2); (2, - 1); (2, - 1 # 2); (0, - 3 # 2); (0, - 1); (0, - 1 # 2)]%Q, ([[false; false; false]; [false; false; false]], (2, 1 # 2)%Q, (1, - 1)%Q)).
Proof. vm_compute. reflexivity. Qed.
Example C02_ex_run_geometry_foreign_grid :   (* a 2 x 1 Grid2D queried against a 3 x 4 geometry: flat index with the geometry's W = 4 *)
  fst (@Geometry2D_grid_pixel_indexes_2d_from QOps (3, 4)%Z (2, 1 # 2)%Q (1, - 1)%Q
         ([(- 1 # 5, - 13 # 10); (3, 0 - 2)]%Q, ([[false]; [false]], (1, 1)%Q, (0, 0)%Q))) = [9; 0]%Q.
Proof. vm_compute. reflexivity. Qed.
Example C02_ex_native_hypotheses :
  Forall2 (Forall2 (fun c p => in_array (3, 4)%Z p /\ in_pixel (3, 4)%Z (2, 1 / 2) (1, -1) p c))
          [[(- 1 / 5, - 13 / 10)]; [(3, 0 - 2)]] [[(2, 1)%Z]; [(0, 0)%Z]].
Proof.
  repeat constructor; unfold in_pixel, cy_spec, cx_spec, two; cbn [T add sub mul div ofZ ROps fst snd];
    change (3 - 1)%Z with 2%Z; change (4 - 1)%Z with 3%Z; try (cbv; congruence); lra.
Qed.
Example C02_ex_run_1d :
  @Grid1D_uniform QOps 4%Z (1 # 2)%Q 1%Q = ([1 # 4; 3 # 4; 5 # 4; 7 # 4]%Q, ([false; false; false; false], (1 # 2)%Q, 1%Q))
  /\ fst (@Grid1D_from_mask QOps ([false; true; false; false], (1 # 2)%Q, 1%Q)) = [1 # 4; 5 # 4; 7 # 4]%Q.
Proof. split; vm_compute; reflexivity. Qed.

Example C02_ex_extent_point_hypotheses :   (* a point of the half-open extent of the 3 x 4 geometry of the other examples *)
  let '(xmin, xmax, ymin, ymax) := @Geometry2D_extent ROps (3, 4)%Z (2, 1 / 2) (1, -1) in ymin < - 1 / 5 <= ymax /\ xmin <= - 13 / 10 < xmax.
Proof. rewrite (proj1 C02_extent_formula_and_edges). cbn [IZR IPR IPR_2]. lra. Qed.
Example C02_ex_outside_hypotheses : @lo_spec ROps 4 (1 / 2) 1 - 1 / 2 < - 1 / 10 < @lo_spec ROps 4 (1 / 2) 1
  /\ @pixel_coordinates_1d_from QOps (- 1 # 10)%Q 4%Z (1 # 2)%Q 1%Q = 0%Z.
Proof. split; [unfold lo_spec, two; cbn [T add sub mul div ofZ ROps]; lra | vm_compute; reflexivity]. Qed.

Example C02_ex_native_hypotheses_C01 :
  let m := [[false; true; false; false]; [false; true; true; false]; [false; false; false; true]] in
  Model.C01.rectb 3 4 m = true /\ Model.C01.count m = 8%nat /\ nth 2 (Model.C01.native_for_slim m) (0, 0)%nat = (0, 3)%nat.
Proof. repeat split; vm_compute; reflexivity. Qed.

Print Assumptions C02_centre_formulas.
Print Assumptions C02_orientation.
Print Assumptions C02_extent_is_union_of_squares.
Print Assumptions C02_extent_formula_and_edges.
Print Assumptions C02_extent_1d.
Print Assumptions C02_every_point_of_extent_has_its_pixel.
Print Assumptions C02_every_point_of_extent_has_its_pixel_1d.
Print Assumptions C02_pixel_of_point_unique.
Print Assumptions C02_index_of_interior_points.
Print Assumptions C02_index_of_interior_point_1d.
Print Assumptions C02_index_outside_extent_1d.
Print Assumptions C02_round_trips.
Print Assumptions C02_grid_of_mask_indexes_to_itself.
Print Assumptions C02_continuous_pixel_coordinates.
Print Assumptions C02_circular_exact.
Print Assumptions C02_annular_and_anti_annular_exact.
Print Assumptions C02_sqrt_predicates_meaning.
Print Assumptions C02_elliptical_exact.
Print Assumptions C02_elliptical_executable_models.
Print Assumptions C02_polar_form.
Print Assumptions C02_Mask2D_constructor_objects.
Print Assumptions C02_Mask2D_elliptical_objects.
Print Assumptions C02_Mask2D_circular_geometry.
Print Assumptions C02_shapes_are_about_origin_plus_centre.
Print Assumptions C02_circular_grid.
Print Assumptions C02_uniform_grid.
Print Assumptions C02_coords_flat_index.
Print Assumptions C02_from_mask_and_derive_grid_objects.
Print Assumptions C02_geometry_methods_use_geometry_shape.
Print Assumptions C02_geometry_index_of_interior_points.
Print Assumptions C02_geometry_pixels_scaled_inverse.
Print Assumptions C02_snap_to_pixel_centre.
Print Assumptions C02_native_routine.
Print Assumptions C02_1d_objects.
Print Assumptions C02_derive_all_false_1d_refuted.
Print Assumptions C02_derive_all_false_1d_repaired.
Print Assumptions C02_from_mask_native.
Print Assumptions C02_uniform_from_zero.
