(* C18 -- totality of the sub-border selection and the closed form of the pixel-unit sub-grid (at ROps),
   combining Proofs/C18.v (reals) and Proofs/C18idx.v (indexes). *)
From Coq Require Import ZArith QArith Reals Lra Lia List Bool Arith.
From PAV Require Import Base.NumOps Base.Res Base.Check Base.Sum Model.C18 Proofs.C18 Proofs.C18idx.
Import ListNotations.
Local Open Scope R_scope.

(* shape predicate of a BorderRelocator: rectangular mask with at least one unmasked pixel, one sub-size >= 1 per
   unmasked pixel *)
Definition shape_ok (m : mask) (ss : list nat) : bool :=
  rectb m && (length ss =? total_pixels_2d_from m)%nat && negb (total_pixels_2d_from m =? 0)%nat
  && forallb (fun s => 1 <=? s)%nat ss.

Lemma shape_ok_inv m ss : shape_ok m ss = true ->
  rectb m = true /\ length ss = total_pixels_2d_from m /\ total_pixels_2d_from m <> 0%nat /\
  forall i, (i < length ss)%nat -> (1 <= sz ss i)%nat.
Proof.
  unfold shape_ok. rewrite !andb_true_iff, negb_true_iff, Nat.eqb_eq, Nat.eqb_neq.
  intros [[[H1 H2] H3] H4]. repeat split; auto.
  intros i Hi. rewrite forallb_forall in H4. apply Nat.leb_le. apply H4. unfold sz. apply nth_In. exact Hi.
Qed.

Lemma sub_pixel_points_ne (ps c : R * R) yx s : (1 <= s)%nat -> @sub_pixel_points ROps ps c yx s <> [].
Proof.
  intros Hs. destruct s as [|k]; [lia|]. unfold sub_pixel_points. cbn [seq flat_map map app]. discriminate.
Qed.
Lemma unit_grid_ne m ss : shape_ok m ss = true -> @unit_grid ROps m ss <> [].
Proof.
  intros H. destruct (shape_ok_inv _ _ H) as (_ & Hl & Hn & Hs).
  unfold unit_grid, grid_2d_slim_over_sampled_via_mask_from. unfold total_pixels_2d_from in *.
  destruct (native_index_for_slim_index_2d_from m) as [|yx rest]; [cbn in Hn; congruence|].
  cbn [length seq combine flat_map fst snd]. intros E. apply app_eq_nil in E. destruct E as [E _].
  revert E. apply sub_pixel_points_ne. apply (Hs 0%nat). rewrite Hl. cbn. lia.
Qed.

Lemma all_some_total {A B} (F : A -> option B) (l : list A) :
  (forall x, In x l -> F x <> None) -> exists out, all_some (map F l) = Ok out /\ length out = length l.
Proof.
  induction l as [|a l IH]; intros H.
  - exists []. split; reflexivity.
  - destruct IH as (out & Ho & Hl); [intros x Hx; apply H; right; exact Hx|].
    cbn [map all_some]. destruct (F a) as [b|] eqn:E; [|exfalso; apply (H a); [left; reflexivity|exact E]].
    rewrite Ho. exists (b :: out). split; [reflexivity|]. cbn. rewrite Hl. reflexivity.
Qed.

(* with a well-shaped mask / sub-size map the selection never fails and returns one index per border pixel *)
Theorem sub_border_total m ss : shape_ok m ss = true ->
  exists out, @sub_border_pixel_slim_indexes_from ROps m ss = Ok out /\
              length out = length (border_slim_spec m).
Proof.
  intros H. destruct (shape_ok_inv _ _ H) as (Hr & Hl & Hn & Hs).
  unfold sub_border_pixel_slim_indexes_from.
  destruct (centre_total _ (unit_grid_ne m ss H)) as [cc Hc]. rewrite Hc.
  rewrite <- (border_slim_is_spec m Hr).
  apply all_some_total. intros bp Hbp.
  pose proof (border_slim_lt m bp Hr Hbp) as Hlt.
  intros E. apply furthest_none_iff in E. rewrite block_is_range in E by exact Hlt.
  specialize (Hs bp). rewrite Hl in Hs. specialize (Hs Hlt).
  destruct (sz ss bp) as [|k]; [lia|]. cbn in E. discriminate.
Qed.

(* a 3x3 mask with the corners masked, sub-size 2 everywhere: five unmasked pixels *)
Lemma example_shape_ok :
  shape_ok [[true; false; true]; [false; false; false]; [true; false; true]] [2; 2; 2; 2; 2]%nat = true /\
  border_slim_spec [[true; false; true]; [false; false; false]; [true; false; true]] = [0; 1; 3; 4]%nat.
Proof. split; vm_compute; reflexivity. Qed.

(* ================================================================= closed form of the pixel-unit sub-grid *)
Lemma length_flat_map {A B} (g : A -> list B) l : length (flat_map g l) = list_sum (map (fun x => length (g x)) l).
Proof. unfold list_sum. induction l as [|a l IH]; cbn [flat_map map fold_right length]; [reflexivity|]. rewrite app_length, IH. reflexivity. Qed.
Lemma list_sum_const {A} (l : list A) k : list_sum (map (fun _ => k) l) = (length l * k)%nat.
Proof. unfold list_sum. induction l as [|a l IH]; cbn [map fold_right length Nat.mul]; [reflexivity|]. rewrite IH. reflexivity. Qed.
Lemma firstn_seq : forall i s n, (i <= n)%nat -> firstn i (seq s n) = seq s i.
Proof.
  induction i as [|i IH]; intros s n H; [reflexivity|]. destruct n as [|n]; [lia|].
  cbn [seq firstn]. rewrite IH by lia. reflexivity.
Qed.
Lemma map_fst_combine {A B} (l1 : list A) : forall (l2 : list B), length l1 = length l2 -> map fst (combine l1 l2) = l1.
Proof.
  induction l1 as [|a l1 IH]; intros [|b l2] H; cbn in *; try reflexivity; try discriminate.
  rewrite IH by lia. reflexivity.
Qed.
Lemma nth_flat_map {A B} (g : A -> list B) d0 d : forall l i j,
  (i < length l)%nat -> (j < length (g (nth i l d0)))%nat ->
  nth (length (flat_map g (firstn i l)) + j) (flat_map g l) d = nth j (g (nth i l d0)) d.
Proof.
  induction l as [|a l IH]; intros i j Hi Hj; cbn in Hi; [lia|].
  destruct i as [|i].
  - cbn [firstn flat_map length plus nth] in *. apply app_nth1. exact Hj.
  - cbn [firstn flat_map nth] in *. rewrite app_length, <- Nat.add_assoc.
    rewrite app_nth2 by lia. replace (length (g a) + (length (flat_map g (firstn i l)) + j) - length (g a))%nat
      with (length (flat_map g (firstn i l)) + j)%nat by lia.
    apply IH; [lia|exact Hj].
Qed.

Lemma nth_grid {B} (E : nat -> nat -> B) s a b d : (a < s)%nat -> (b < s)%nat ->
  nth (a * s + b) (flat_map (fun y1 => map (fun x1 => E y1 x1) (seq 0 s)) (seq 0 s)) d = E a b.
Proof.
  intros Ha Hb.
  assert (Hoff : length (flat_map (fun y1 => map (fun x1 => E y1 x1) (seq 0 s)) (firstn a (seq 0 s))) = (a * s)%nat).
  { rewrite length_flat_map. rewrite (map_ext _ (fun _ => s)) by (intros; rewrite map_length, seq_length; reflexivity).
    rewrite list_sum_const, firstn_length, seq_length, Nat.min_l by lia. reflexivity. }
  rewrite <- Hoff.
  rewrite (nth_flat_map (fun y1 => map (fun x1 => E y1 x1) (seq 0 s)) 0%nat d);
    [|rewrite seq_length; exact Ha | rewrite map_length, seq_length; exact Hb].
  rewrite seq_nth by exact Ha. cbn [plus].
  rewrite (nth_map_lt' (fun x1 => E a x1) (seq 0 s) b 0%nat d) by (rewrite seq_length; exact Hb).
  rewrite seq_nth by exact Hb. reflexivity.
Qed.

Section Closed.
  Variable m : mask.
  Variable ss : list nat.
  Let n := total_pixels_2d_from m.
  Let native := native_index_for_slim_index_2d_from m.
  Let centres : R * R := @central_scaled_coordinate_2d_from ROps (nrows m) (ncols m) (1, 1) (0, 0).
  Let G (iyx : nat * (nat * nat)) : list (R * R) :=
    @sub_pixel_points ROps (1, 1) centres (snd iyx) (sz ss (fst iyx)).

  Lemma unit_grid_unfold : @unit_grid ROps m ss = flat_map G (combine (seq 0 n) native).
  Proof. reflexivity. Qed.

  Lemma sub_pixel_points_length (c : R * R) yx s : length (@sub_pixel_points ROps (1, 1) c yx s) = (s * s)%nat.
  Proof.
    unfold sub_pixel_points. rewrite length_flat_map.
    rewrite (map_ext _ (fun _ => s)) by (intros a; rewrite map_length, seq_length; reflexivity).
    rewrite list_sum_const, seq_length. reflexivity.
  Qed.

  Lemma offset_agrees i : (i <= n)%nat ->
    length (flat_map G (firstn i (combine (seq 0 n) native))) = sub_offset ss i.
  Proof.
    intros Hi. unfold sub_offset. rewrite !length_flat_map.
    rewrite (map_ext _ (fun iyx => (fun j => sz ss j * sz ss j)%nat (fst iyx)))
      by (intros a; unfold G; apply sub_pixel_points_length).
    rewrite <- (map_map fst (fun j => (sz ss j * sz ss j)%nat)).
    rewrite <- firstn_map, map_fst_combine by (rewrite seq_length; reflexivity).
    rewrite firstn_seq by exact Hi.
    f_equal. apply map_ext. intros j. rewrite repeat_length. reflexivity.
  Qed.

  (* the (a, b) sub-pixel of the i-th unmasked pixel (y, x), sub-size s: its centre in pixel units, y upwards,
     origin at the centre of the array *)
  Theorem unit_grid_closed_form i a b :
    (i < n)%nat -> (a < sz ss i)%nat -> (b < sz ss i)%nat ->
    let y := fst (nth i native (0, 0)%nat) in let x := snd (nth i native (0, 0)%nat) in let s := sz ss i in
    nth (sub_offset ss i + (a * s + b)) (@unit_grid ROps m ss) (0, 0) =
      ((INR (nrows m) - 1) / 2 - INR y + 1 / 2 - (2 * INR a + 1) / (2 * INR s),
       INR x - (INR (ncols m) - 1) / 2 - 1 / 2 + (2 * INR b + 1) / (2 * INR s)).
  Proof.
    intros Hi Ha Hb y x s. rewrite unit_grid_unfold.
    assert (Hlen : length (combine (seq 0 n) native) = n).
    { rewrite combine_length, seq_length. unfold n, total_pixels_2d_from. fold native. apply Nat.min_id. }
    assert (Hnth : nth i (combine (seq 0 n) native) (0, (0, 0))%nat = (i, nth i native (0, 0)%nat)).
    { rewrite combine_nth by (rewrite seq_length; reflexivity). rewrite seq_nth by exact Hi. reflexivity. }
    rewrite <- (offset_agrees i) by lia.
    rewrite (nth_flat_map G (0, (0, 0))%nat (0, 0)); [|rewrite Hlen; exact Hi|].
    2:{ rewrite Hnth. unfold G. rewrite sub_pixel_points_length. cbn [fst]. fold s. nia. }
    rewrite Hnth. unfold G. cbn [fst snd]. fold s.
    unfold sub_pixel_points. cbv zeta.
    rewrite nth_grid by assumption.
    unfold centres, central_scaled_coordinate_2d_from, ofNat, two.
    cbn [add sub mul div opp ofZ ROps fst snd]. fold y x.
    rewrite !minus_IZR, <- !INR_IZR_INZ.
    assert (Hs : INR s <> 0) by (apply not_0_INR; unfold s; lia).
    change (@one ROps) with 1. change (@zero ROps) with 0.
    f_equal; field; exact Hs.
  Qed.
End Closed.

(* ================================================================= the sub-border statement in one piece *)
Lemma Forall2_imp_in {A B} (P Q : A -> B -> Prop) l l' :
  (forall a b, In a l -> P a b -> Q a b) -> Forall2 P l l' -> Forall2 Q l l'.
Proof.
  intros H F. induction F as [|a b l l' Hab F IH]; constructor.
  - apply H; [left; reflexivity|exact Hab].
  - apply IH. intros a' b' Ha'. apply H. right. exact Ha'.
Qed.

Theorem sub_border_farthest_in_range m ss : shape_ok m ss = true ->
  exists out cc,
    @sub_border_pixel_slim_indexes_from ROps m ss = Ok out /\ bbox_centre_of (@unit_grid ROps m ss) cc /\
    Forall2 (fun bp k =>
        (bp < total_pixels_2d_from m)%nat /\
        (sub_offset ss bp <= k < sub_offset ss bp + sz ss bp * sz ss bp)%nat /\
        forall k', (sub_offset ss bp <= k' < sub_offset ss bp + sz ss bp * sz ss bp)%nat ->
          dist (nth k' (@unit_grid ROps m ss) (0, 0)) cc <= dist (nth k (@unit_grid ROps m ss) (0, 0)) cc)
      (border_slim_spec m) out.
Proof.
  intros H. destruct (sub_border_total m ss H) as (out & Hout & _).
  destruct (shape_ok_inv _ _ H) as (Hr & _).
  destruct (sub_border_in_block_and_farthest m ss out Hout) as (cc & Hcc & HF).
  exists out, cc. split; [exact Hout|]. split; [exact Hcc|].
  rewrite (border_slim_is_spec m Hr) in HF.
  eapply Forall2_imp_in; [|exact HF]. cbv beta. intros bp k Hbp [Hin Hmax].
  apply in_border_slim_spec in Hbp. destruct Hbp as [Hlt _].
  unfold block in *. rewrite block_is_range in * by exact Hlt.
  split; [exact Hlt|]. split.
  - apply in_seq in Hin. lia.
  - intros k' Hk'. apply Hmax. apply in_seq. lia.
Qed.
