(* C10 -- lemmas, part 4: histories (Model/C10.v Part 5).  Objects are edited in place, copied, derived from one
   another and read again; every read must be the single-operation function of the CURRENT contents of the object.
     - the acceptance test of the specification accepts whatever the model returns, also along a history;
     - [hist_ok] is exactly "every read / derivation, judged on the state reached by the steps before it";
     - reads (HTouch, HRead) change no object; an edit changes one entry of one object; a copy is independent
       of its original. *)
From Coq Require Import ZArith List Bool Lia.
From PAV Require Import Base.Res Base.Check Model.C10 Proofs.C10 Proofs.C10b Proofs.C10c.
Import ListNotations.
Local Open Scope Z_scope.

(* ------------------------------------------------------------------ derived masks: model accepted by the specification *)
Lemma build_ext H W f g : (forall y x, 0 <= y < H -> 0 <= x < W -> f (y, x) = g (y, x)) -> build H W f = build H W g.
Proof.
  intros E. unfold build. apply map_ext_in. intros y Hy. apply map_ext_in. intros x Hx.
  apply zrange_In in Hy. apply zrange_In in Hx. apply E; lia.
Qed.

Lemma mask_edge_is_build m : mask_edge m = build (shape0 m) (shape1 m) (fun q => negb (edge_sel m q)).
Proof.
  destruct (views_agree_edge m (0, 0, 0, 0)) as (_ & M & _). rewrite M. unfold mask_of. apply build_ext.
  intros y x Hy Hx. f_equal. apply eq_bool_iff. rewrite memp_In, edge_native_scan, filter_In, scan_In.
  unfold inarr. cbn [fst snd]. tauto.
Qed.
Lemma mask_border_is_build m : mask_border m = build (shape0 m) (shape1 m) (fun q => negb (border_sel m q)).
Proof.
  destruct (views_agree_border m (0, 0, 0, 0)) as (_ & M & _). rewrite M. unfold mask_of. apply build_ext.
  intros y x Hy Hx. f_equal. apply eq_bool_iff. rewrite memp_In, border_native_scan, filter_In, scan_In.
  unfold inarr. cbn [fst snd]. tauto.
Qed.

(* np.invert, entry by entry *)
Lemma invert_sameshape m : rectb m = true -> sameshape (map (map negb) m) m.
Proof.
  intros Hr. unfold sameshape.
  assert (S0 : shape0 (map (map negb) m) = shape0 m) by (unfold shape0; now rewrite map_length).
  assert (S1 : shape1 (map (map negb) m) = shape1 m) by (unfold shape1; destruct m; cbn [map hd length]; [reflexivity|now rewrite map_length]).
  split; [exact S0|]. split; [exact S1|].
  unfold rectb. rewrite S1. apply forallb_forall. intros r Hin. apply in_map_iff in Hin. destruct Hin as (r0 & <- & Hin).
  rewrite map_length. unfold rectb in Hr. rewrite forallb_forall in Hr. now apply Hr.
Qed.
Lemma get_invert m y x : rectb m = true -> inarr m y x -> get (map (map negb) m) y x = negb (get m y x).
Proof.
  intros Hr (Hy & Hx). rewrite !get_nn by lia. unfold shape0 in Hy.
  rewrite nth_map' with (d' := []) by lia.
  rewrite nth_map' with (d' := true); [reflexivity|].
  pose proof (rect_row m (Z.to_nat y) Hr). lia.
Qed.
Lemma invert_is_build m : rectb m = true -> map (map negb) m = build (shape0 m) (shape1 m) (fun q => negb (getp m q)).
Proof.
  intros Hr. apply mask_ext with (m := m); [now apply invert_sameshape|apply build_sameshape|].
  intros y x Hin. rewrite get_invert by assumption. rewrite get_build by apply Hin. reflexivity.
Qed.

Lemma derive_agree_spec c d out : derive_agree c d out = true -> derive_spec_ok c d out = true.
Proof.
  unfold derive_agree. intros H. apply rmask_eqb_eq in H. destruct d as [| | |kh kw|]; cbn [derive] in H; cbn [derive_spec_ok].
  - injection H as <-. rewrite mask_edge_is_build. unfold edge_sel. apply mask_eqb_refl.
  - injection H as <-. rewrite mask_border_is_build. unfold border_sel, edge_sel. apply mask_eqb_refl.
  - injection H as <-. destruct (rectb c) eqn:Hr; cbn [negb orb]; [|reflexivity].
    rewrite edge_buffed_is_spec by assumption. apply mask_eqb_refl.
  - apply agree1_implies_spec_ok1. cbn [agree1]. rewrite H. apply rmask_eqb_refl.
  - injection H as <-. destruct (rectb c) eqn:Hr; cbn [negb orb]; [|reflexivity].
    rewrite invert_is_build by assumption. apply mask_eqb_refl.
Qed.

(* ------------------------------------------------------------------ hist_ok *)
Lemma hist_ok_mono (P Q : case1 -> bool) (D E : mask -> dsel -> mask -> bool) :
  (forall k, P k = true -> Q k = true) -> (forall c d out, D c d out = true -> E c d out = true) ->
  forall steps st, hist_ok P D st steps = true -> hist_ok Q E st steps = true.
Proof.
  intros HP HD. induction steps as [|s t IH]; intros st; cbn [hist_ok]; [reflexivity|].
  rewrite !andb_true_iff. intros (H1 & H2). split; [|now apply IH].
  destruct s; cbn [step_ok] in *; try reflexivity.
  - now apply HD.
  - rewrite andb_true_iff in *. destruct H1 as (Hc & Hk). split; [exact Hc|now apply HP].
Qed.

Lemma agree_implies_spec_ok k : agree k = true -> spec_ok k = true.
Proof.
  destruct k as [k|steps]; cbn [agree spec_ok].
  - apply agree1_implies_spec_ok1.
  - apply hist_ok_mono; [exact agree1_implies_spec_ok1|exact derive_agree_spec].
Qed.

Lemma check_zero_iff_agree k : check k = 0%nat <-> agree k = true.
Proof.
  unfold check. split.
  - destruct (agree k), (spec_ok k); cbn; intros H; try discriminate; reflexivity.
  - intros H. rewrite H, (agree_implies_spec_ok k H). reflexivity.
Qed.

(* [hist_ok] = every step is judged on the state reached by the steps before it *)
Lemma hist_ok_iff P D : forall steps st,
  hist_ok P D st steps = true <->
  forall i s, nth_error steps i = Some s -> step_ok P D (fold_left step_state (firstn i steps) st) s = true.
Proof.
  induction steps as [|s t IH]; intros st; cbn [hist_ok].
  - split; [|reflexivity]. intros _ [|i] s' E; discriminate.
  - rewrite andb_true_iff, IH. split.
    + intros (H1 & H2) [|i] s' E; cbn [nth_error firstn fold_left] in *.
      * now injection E as <-.
      * now apply H2.
    + intros H. split.
      * apply (H 0%nat). reflexivity.
      * intros i s' E. apply (H (S i)). exact E.
Qed.

(* the statement for [agree]: a history agrees iff every read returns the single-operation model function of the
   contents the object has at that moment, and shows exactly those contents *)
Lemma hist_agree_iff steps :
  agree (KHist steps) = true <->
  forall i, match nth_error steps i with
            | Some (HRead o k) => case_mask k = contents (state_after steps i) o /\ agree1 k = true
            | Some (HDerive o d out) => derive (contents (state_after steps i) o) d = Ok out
            | _ => True
            end.
Proof.
  cbn [agree]. rewrite hist_ok_iff. unfold state_after. split.
  - intros H i. destruct (nth_error steps i) as [s|] eqn:E; [|exact I]. specialize (H i s E).
    destruct s; try exact I; cbn [step_ok] in H.
    + unfold derive_agree in H. now apply rmask_eqb_eq in H.
    + rewrite andb_true_iff in H. destruct H as (Hc & Hk). split; [now apply mask_eqb_eq in Hc|exact Hk].
  - intros H i s E. specialize (H i). rewrite E in H.
    destruct s; cbn [step_ok]; try reflexivity.
    + unfold derive_agree. rewrite H. apply rmask_eqb_refl.
    + destruct H as (-> & Hk). rewrite mask_eqb_refl. exact Hk.
Qed.

(* ... and then the specification accepts every one of these reads on the current contents *)
Lemma hist_reads_accepted steps : agree (KHist steps) = true ->
  forall i o k, nth_error steps i = Some (HRead o k) ->
  case_mask k = contents (state_after steps i) o /\ agree1 k = true /\ spec_ok1 k = true.
Proof.
  intros H i o k E. apply hist_agree_iff with (i := i) in H. rewrite E in H. destruct H as (Hc & Hk).
  split; [exact Hc|]. split; [exact Hk|now apply agree1_implies_spec_ok1].
Qed.

(* the views of one full read on the current contents c: the record is the model's, hence all its fields denote the
   same pixels (C10_views_agree_edge / _border apply to c) *)
Lemma hist_views_current steps : agree (KHist steps) = true ->
  forall i o m g v, nth_error steps i = Some (HRead o (KViews m g v)) ->
  let c := contents (state_after steps i) o in
  m = c /\ v_edge_slim v = edge_slim c /\ v_edge_native v = edge_native c /\ v_border_slim v = border_slim c
  /\ v_border_native v = border_native c /\ v_mask_edge v = mask_edge c /\ v_mask_border v = mask_border c
  /\ v_mask_buffed v = mask_edge_buffed c /\ v_grid_edge v = grid_edge c g /\ v_grid_edge_mask v = mask_edge c
  /\ v_grid_border v = grid_border c g /\ v_grid_border_mask v = mask_border c.
Proof.
  intros H i o m g v E. destruct (hist_reads_accepted steps H i o _ E) as (Hc & Hk & _). cbn [case_mask] in Hc. cbn zeta.
  rewrite <- Hc. split; [reflexivity|]. cbn [agree1] in Hk. rewrite !andb_true_iff in Hk.
  destruct Hk as ((((((((((H1 & H2) & H3) & H4) & H5) & H6) & H7) & H8) & H9) & H10) & H11).
  apply zl_eqb_eq in H1, H3. apply pxl_eqb_eq in H2, H4, H8, H10. apply mask_eqb_eq in H5, H6, H7, H9, H11.
  repeat split; symmetry; assumption.
Qed.

(* ------------------------------------------------------------------ reading changes nothing *)
Definition is_touch (s : hstep) : bool := match s with HTouch _ _ => true | _ => false end.
Lemma hist_ok_drop_touch P D : forall steps st,
  hist_ok P D st (filter (fun s => negb (is_touch s)) steps) = hist_ok P D st steps.
Proof.
  induction steps as [|s t IH]; intros st; [reflexivity|].
  destruct s; cbn [filter is_touch negb hist_ok step_ok step_state andb]; rewrite ?IH; reflexivity.
Qed.
Lemma read_keeps_state st o k : step_state st (HRead o k) = st.
Proof. reflexivity. Qed.
Lemma touch_keeps_state st o l : step_state st (HTouch o l) = st.
Proof. reflexivity. Qed.

(* ------------------------------------------------------------------ edits and copies *)
Lemma edit_contents st o y x v o' : (o < length st)%nat ->
  contents (step_state st (HEdit o y x v)) o' = if Nat.eqb o' o then set (contents st o) y x v else contents st o'.
Proof.
  intros Ho. cbn [step_state]. unfold contents. destruct (Nat.eqb_spec o' o) as [->|Hne].
  - now rewrite nth_upd_same.
  - now rewrite nth_upd_other.
Qed.
Lemma edit_length st o y x v : length (step_state st (HEdit o y x v)) = length st.
Proof. cbn [step_state]. apply length_upd. Qed.

Lemma copy_contents st o o' : (o' <= length st)%nat ->
  contents (step_state st (HCopy o)) o' = if Nat.eqb o' (length st) then contents st o else contents st o'.
Proof.
  intros Ho. cbn [step_state]. unfold contents. destruct (Nat.eqb_spec o' (length st)) as [->|Hne].
  - now rewrite app_nth2, Nat.sub_diag by lia.
  - rewrite app_nth1 by lia. reflexivity.
Qed.

(* copy, then edit the copy: the original keeps its contents, the copy has the edited ones; and the other way round *)
Lemma copy_then_edit_copy st o y x v : (o < length st)%nat ->
  let st2 := step_state (step_state st (HCopy o)) (HEdit (length st) y x v) in
  contents st2 o = contents st o /\ contents st2 (length st) = set (contents st o) y x v.
Proof.
  intros Ho st2. subst st2.
  assert (L : (length st < length (step_state st (HCopy o)))%nat) by (cbn [step_state]; rewrite app_length; cbn; lia).
  rewrite !edit_contents by exact L. rewrite Nat.eqb_refl.
  destruct (Nat.eqb_spec o (length st)) as [E|_]; [lia|].
  rewrite !copy_contents by lia. rewrite Nat.eqb_refl. destruct (Nat.eqb_spec o (length st)) as [E|_]; [lia|]. auto.
Qed.
Lemma copy_then_edit_original st o y x v : (o < length st)%nat ->
  let st2 := step_state (step_state st (HCopy o)) (HEdit o y x v) in
  contents st2 (length st) = contents st o /\ contents st2 o = set (contents st o) y x v.
Proof.
  intros Ho st2. subst st2.
  assert (L : (o < length (step_state st (HCopy o)))%nat) by (cbn [step_state]; rewrite app_length; cbn; lia).
  rewrite !edit_contents by exact L. rewrite Nat.eqb_refl.
  destruct (Nat.eqb_spec (length st) o) as [E|_]; [lia|].
  rewrite !copy_contents by lia. rewrite Nat.eqb_refl. destruct (Nat.eqb_spec o (length st)) as [E|_]; [lia|]. auto.
Qed.

(* obj[y, x] = v with numpy's negative-index wrap: exactly one entry changes *)
Lemma get_set_wrap b y x v y' x' : rectb b = true ->
  - shape0 b <= y < shape0 b -> - shape1 b <= x < shape1 b -> inarr b y' x' ->
  get (set b y x v) y' x' = if (norm (shape0 b) y =? y') && (norm (shape1 b) x =? x') then v else get b y' x'.
Proof.
  intros Hr Hy Hx (Hy' & Hx').
  assert (E : set b y x v = set b (norm (shape0 b) y) (norm (shape1 b) x) v).
  { unfold set, norm. destruct (y <? 0) eqn:E1, (x <? 0) eqn:E2;
      repeat match goal with |- context [?a <? 0] => destruct (a <? 0) eqn:? end; try lia; reflexivity. }
  rewrite E. apply get_set; try assumption; unfold inarr, norm; try lia.
  destruct (y <? 0) eqn:E1, (x <? 0) eqn:E2; lia.
Qed.
Lemma set_keeps_shape b y x v : rectb b = true -> - shape0 b <= y < shape0 b -> - shape1 b <= x < shape1 b ->
  shape0 (set b y x v) = shape0 b /\ shape1 (set b y x v) = shape1 b /\ rectb (set b y x v) = true.
Proof.
  intros Hr Hy Hx.
  assert (E : set b y x v = set b (norm (shape0 b) y) (norm (shape1 b) x) v).
  { unfold set, norm. destruct (y <? 0) eqn:E1, (x <? 0) eqn:E2;
      repeat match goal with |- context [?a <? 0] => destruct (a <? 0) eqn:? end; try lia; reflexivity. }
  rewrite E. apply (set_sameshape b b); [now apply sameshape_refl| |]; unfold norm; destruct (y <? 0) eqn:E1, (x <? 0) eqn:E2; lia.
Qed.

(* ------------------------------------------------------------------ a concrete history (used by the Example of Props/C10.v);
   the values are what /repo returned (harness/c10.py, geometry: pixel scales (2, 1), origin (0, 3)) *)
Local Notation T := true.
Local Notation F := false.
Definition ex_m0 : mask := [[T; T; T]; [T; F; T]; [T; T; T]].
Definition ex_m1 : mask := [[T; T; T]; [F; F; T]; [T; T; T]].       (* after  obj0[1, 0] = False *)
Definition ex_m2 : mask := [[T; T; T]; [F; T; T]; [T; T; T]].       (* the copy after  obj1[-2, -2] = True *)
Definition ex_g : geom := (2, 1, 0, 3).
Definition ex_v0 : views :=
  Build_views [0] [(1, 1)] [0] [(1, 1)] ex_m0 ex_m0 [[F; F; F]; [F; F; F]; [F; F; F]] [(0, 6)] ex_m0 [(0, 6)] ex_m0.
Definition ex_v1 : views :=
  Build_views [0; 1] [(1, 0); (1, 1)] [0; 1] [(1, 0); (1, 1)] ex_m1 ex_m1 [[F; F; F]; [F; F; F]; [F; F; F]]
              [(0, 4); (0, 6)] ex_m1 [(0, 4); (0, 6)] ex_m1.
Definition ex_v2 : views :=
  Build_views [0] [(1, 0)] [0] [(1, 0)] ex_m2 ex_m2 [[F; F; T]; [F; F; T]; [F; F; T]] [(0, 4)] ex_m2 [(0, 4)] ex_m2.
Definition ex_hist : list hstep :=
  [HNew ex_m0; HRead 0 (KViews ex_m0 ex_g ex_v0); HEdit 0 1 0 F; HRead 0 (KViews ex_m1 ex_g ex_v1);
   HCopy 0; HEdit 1 (-2) (-2) T; HRead 1 (KViews ex_m2 ex_g ex_v2); HRead 0 (KViews ex_m1 ex_g ex_v1)].
(* what a cached view would give: after the edit the object shows the new contents but returns the old views *)
Definition ex_hist_stale : list hstep :=
  [HNew ex_m0; HRead 0 (KViews ex_m0 ex_g ex_v0); HEdit 0 1 0 F; HRead 0 (KViews ex_m1 ex_g ex_v0)].
(* what a copy sharing its original's array would give: the edit of the copy shows up in the original *)
Definition ex_hist_alias : list hstep :=
  [HNew ex_m0; HEdit 0 1 0 F; HCopy 0; HEdit 1 (-2) (-2) T; HRead 1 (KViews ex_m2 ex_g ex_v2); HRead 0 (KViews ex_m2 ex_g ex_v2)].
