(* C19 -- Layout regions rotate and extract consistently with the arrays they index.
   Statements only; every proof is [exact <lemma of Proofs/C19.v>].  The definitions the
   statements are about (Region1D_*, Region2D_*, x0x1_after_extraction, region_after_extraction,
   rotate_*_via_roe_corner_from) are GENERATED from /repo by py2v on every run. *)
From Coq Require Import ZArith List Bool.
From PAV Require Import Base.Res Gen.Gen_layout Model.C19 Model.C19x Proofs.C19 Proofs.C19h.
Import ListNotations.
Local Open Scope Z_scope.

(* invalid regions (negative or empty extents) are rejected, valid ones are kept as given *)
Theorem C19_region1d_validation : forall r, Region1D_init r = if valid1b r then Ok r else Raise RegionException.
Proof. exact init1_spec. Qed.
Theorem C19_region2d_validation : forall r, Region2D_init r = if valid2b r then Ok r else Raise RegionException.
Proof. exact init2_spec. Qed.

(* rotating the array and the region commute; the generated rotations are the spec rotations *)
Theorem C19_rotate_array_is_spec : forall (A : Type) (m : list (list A)) c,
  cornerb c = true -> rotate_array_via_roe_corner_from m c = Some (rot_array_spec m c).
Proof. exact @rot_array_ok. Qed.
Theorem C19_rotate_region_is_spec : forall r s c,
  inside2b s r = true -> cornerb c = true ->
  rotate_region_via_roe_corner_from (Some r) s c = Ok (Some (rot_region_spec r s c)).
Proof. exact rot_region_ok. Qed.
Theorem C19_rotate_commutes : forall (A : Type) (m : list (list A)) H W r c,
  rectb H W m = true -> inside2b (H, W) r = true -> cornerb c = true ->
  slice2 (rot_array_spec m c) (rot_region_spec r (H, W) c) = rot_array_spec (slice2 m r) c.
Proof. exact @rotate_commutes. Qed.
Theorem C19_rotate_array_twice : forall (A : Type) (m : list (list A)) c, rot_array_spec (rot_array_spec m c) c = m.
Proof. exact @rot_array_involutive. Qed.
Theorem C19_rotate_region_twice : forall r s c, rot_region_spec (rot_region_spec r s c) s c = r.
Proof. exact rot_region_involutive. Qed.
Theorem C19_rotated_region_stays_inside : forall r s c, inside2b s r = true -> inside2b s (rot_region_spec r s c) = true.
Proof. exact rot_region_inside. Qed.

(* extraction: the returned region is the overlap in window coordinates, absent iff empty *)
Theorem C19_extraction_1d : forall x0o x1o x0e x1e,
  valid1b (x0o, x1o) = true -> valid1b (x0e, x1e) = true ->
  x0x1_after_extraction x0o x1o x0e x1e =
  match overlap1 x0o x1o x0e x1e with Some (u, v) => (Some u, Some v) | None => (None, None) end.
Proof. exact x0x1_is_overlap. Qed.
Theorem C19_extraction_2d : forall o e,
  valid2b o = true -> valid2b e = true -> region_after_extraction (Some o) e = Ok (overlap2 o e).
Proof. exact extraction_is_overlap. Qed.
Theorem C19_overlap_is_intersection : forall o e i j,
  let '(ey0, ey1, ex0, ex1) := e in
  0 <= i < ey1 - ey0 -> 0 <= j < ex1 - ex0 ->
  (match overlap2 o e with Some r => in_reg r i j | None => False end) <-> in_reg o (i + ey0) (j + ex0).
Proof. exact overlap2_is_intersection. Qed.

(* front / trailing sub-regions: exact rows / columns counted from the named edge
   (want* = the region if it is valid, RegionException otherwise) *)
Theorem C19_front_1d : forall s a b, Region1D_front_region_from s (Some (a, b)) None = want1 (fst s + a, fst s + b).
Proof. exact front1_pixels. Qed.
Theorem C19_front_1d_from_end : forall s p n, Region1D_front_region_from s p (Some n) = want1 (snd s - n, snd s).
Proof. exact front1_from_end. Qed.
Theorem C19_trailing_1d : forall s a b, Region1D_trailing_region_from s (a, b) = want1 (snd s + a, snd s + b).
Proof. exact trail1_pixels. Qed.
Theorem C19_parallel_front : forall y0 y1 x0 x1 a b,
  Region2D_parallel_front_region_from (y0, y1, x0, x1) (Some (a, b)) None = want2 (y0 + a, y0 + b, x0, x1).
Proof. exact par_front_pixels. Qed.
Theorem C19_parallel_front_from_end : forall y0 y1 x0 x1 p n,
  Region2D_parallel_front_region_from (y0, y1, x0, x1) p (Some n) = want2 (y1 - n, y1, x0, x1).
Proof. exact par_front_from_end. Qed.
Theorem C19_parallel_trailing : forall y0 y1 x0 x1 a b,
  Region2D_parallel_trailing_region_from (y0, y1, x0, x1) (a, b) = want2 (y1 + a, y1 + b, x0, x1).
Proof. exact par_trail_pixels. Qed.
Theorem C19_parallel_full : forall y0 y1 x0 x1 sh,
  Region2D_parallel_full_region_from (y0, y1, x0, x1) sh = want2 (y0, y1, 0, snd sh).
Proof. exact par_full. Qed.
Theorem C19_serial_front : forall y0 y1 x0 x1 a b,
  Region2D_serial_front_region_from (y0, y1, x0, x1) (Some (a, b)) None = want2 (y0, y1, x0 + a, x0 + b).
Proof. exact ser_front_pixels. Qed.
Theorem C19_serial_front_from_end : forall y0 y1 x0 x1 p n,
  Region2D_serial_front_region_from (y0, y1, x0, x1) p (Some n) = want2 (y0, y1, x1 - n, x1).
Proof. exact ser_front_from_end. Qed.
Theorem C19_serial_trailing : forall y0 y1 x0 x1 a b,
  Region2D_serial_trailing_region_from (y0, y1, x0, x1) (a, b) = want2 (y0, y1, x1 + a, x1 + b).
Proof. exact ser_trail_pixels. Qed.
Theorem C19_serial_towards_roe : forall y0 y1 x0 x1 sh a b,
  Region2D_serial_towards_roe_full_region_from (y0, y1, x0, x1) sh (a, b) = want2 (0, fst sh, x0 + a, x0 + b).
Proof. exact ser_roe_full. Qed.

(* ---- in-place writes through a region (array[region.slice] = v) ---- *)
(* the slice assignment changes exactly the pixels of the region *)
Theorem C19_write_is_pixelwise : forall (A : Type) (m : list (list A)) r v,
  valid2b r = true -> fill2 m r v = fill_spec m r v.
Proof. exact @fill2_valid_spec. Qed.
(* writing through the region and rotating = rotating and writing through the rotated region *)
Theorem C19_write_rotate_commute : forall (A : Type) (m : list (list A)) H W r c v,
  rectb H W m = true -> inside2b (H, W) r = true -> cornerb c = true ->
  rot_array_spec (fill2 m r v) c = fill2 (rot_array_spec m c) (rot_region_spec r (H, W) c) v.
Proof. exact @write_rotate_commute. Qed.
(* what was written through a region is what the region reads back *)
Theorem C19_write_then_slice : forall (A : Type) (m : list (list A)) H W r v,
  rectb H W m = true -> inside2b (H, W) r = true ->
  slice2 (fill2 m r v) r = map (map (fun _ => v)) (slice2 m r).
Proof. exact @slice2_fill2_same. Qed.

(* ---- histories on ONE array object (model: Model.C19x.arun over the generated rotation) ----
   whatever came before -- reads, edits of returned arrays, copies, earlier writes, corner changes -- a read returns the
   rotation of the CURRENT contents for the CURRENT corner, a slice the current content of the region *)
Theorem C19_history_read_is_rotation_of_current_contents : forall pre post m c last,
  nth_error (arun (pre ++ ARead :: post) m c last) (nobs pre) =
  Some (rotate_array_via_roe_corner_from (mwrites pre m) (acorner pre c)).
Proof. exact hist_read_current. Qed.
Theorem C19_history_slice_is_current_content : forall pre post r m c last,
  nth_error (arun (pre ++ ASlice r :: post) m c last) (nobs pre) = Some (Some (slice2 (mwrites pre m) r)).
Proof. exact hist_slice_current. Qed.
Theorem C19_history_contents : forall s pre m,
  forallb (astep_okb s) pre = true -> mwrites pre m = awrites pre m.
Proof. exact mwrites_awrites. Qed.
(* every observation of the model run satisfies the independent specification of histories *)
Theorem C19_history_model_meets_spec : forall m0 c0 steps,
  ahist_okb m0 c0 steps = true -> aspec_from steps 0 steps m0 c0 None (arun steps m0 c0 None) = true.
Proof. exact hist_model_meets_spec. Qed.

(* ---- whole layouts (hand model of Layout2D.new_rotated_from / layout_extracted_from over the generated functions) ---- *)
Theorem C19_layout_rotate_is_spec : forall l c,
  lay_insideb l = true -> cornerb c = true -> lay_rot l c = Ok (lay_rot_spec l c).
Proof. exact lay_rot_ok. Qed.
Theorem C19_layout_extract_is_spec : forall l e,
  lay_validb l = true -> valid2b e = true -> lay_ext l e = Ok (lay_ext_spec l e).
Proof. exact lay_ext_ok. Qed.
Theorem C19_layout_rotate_twice : forall l c,
  lay_insideb l = true -> cornerb c = true ->
  rbind (lay_rot l c) (fun l' => lay_rot l' c) = Ok (let '(s, c0, po, sp, so) := l in (s, c, po, sp, so)).
Proof. exact lay_rot_twice_model. Qed.

(* ---- phase 3: read-only attributes of a region object (generated accessors; slices modelled as (start, stop)) and the
   rotation of a LIST of regions (hand model of rotate_pattern_ci_via_roe_corner_from over the generated rotation) ---- *)
Theorem C19_region1d_attributes : forall s, props1 s = props1_spec s.
Proof. exact props1_ok. Qed.
Theorem C19_region2d_attributes : forall s p, props2 s p = props2_spec s p.
Proof. exact props2_ok. Qed.
Theorem C19_pattern_rotate_is_spec : forall rs s c,
  forallb (oforall (inside2b s)) rs = true -> cornerb c = true -> pat_rot rs s c = Ok (pat_rot_spec rs s c).
Proof. exact pat_rot_ok. Qed.
Theorem C19_pattern_rotate_twice : forall rs s c,
  forallb (oforall (inside2b s)) rs = true -> cornerb c = true ->
  rbind (pat_rot rs s c) (fun rs' => pat_rot rs' s c) = Ok rs.
Proof. exact pat_rot_twice. Qed.

(* non-vacuity: the hypotheses are met by concrete non-trivial inputs *)
Example C19_pattern_hyps_satisfiable :
  forallb (oforall (inside2b (3, 4))) [Some (1, 3, 0, 2); None; Some (0, 1, 3, 4)] = true
  /\ pat_rot [Some (1, 3, 0, 2); None; Some (0, 1, 3, 4)] (3, 4) (0, 1) = Ok [Some (0, 2, 2, 4); None; Some (2, 3, 0, 1)]
  /\ props2 (1, 3, 0, 2) (0, 1) = [1; 3; 0; 2; 2; 2; 2; 2; 0; 1; 1; 3; 0; 2; 1; 3; 0; 2].
Proof. vm_compute. repeat split. Qed.
Example C19_hyps_satisfiable :
  rectb 3 4 [[1;2;3;4];[5;6;7;8];[9;10;11;12]] = true /\ inside2b (3, 4) (1, 3, 0, 2) = true /\ cornerb (0, 1) = true
  /\ slice2 (rot_array_spec [[1;2;3;4];[5;6;7;8];[9;10;11;12]] (0,1)) (rot_region_spec (1,3,0,2) (3,4) (0,1))
     = [[10; 9]; [6; 5]]
  /\ valid2b (2, 6, 1, 4) = true /\ overlap2 (2, 6, 1, 4) (5, 7, 0, 2) = Some (0, 1, 1, 2).
Proof. vm_compute. repeat split. Qed.

Example C19_history_hyps_satisfiable :
  let m := [[1;2;3;4];[5;6;7;8];[9;10;11;12]] in
  let steps := [ARead; AWrite (1, 3, 0, 2) 0; AEditOut (0, 1, 0, 1) 7; ALast; ACorner (0, 0); ADerive; ASlice (0, 2, 1, 3); ARead] in
  ahist_okb m (0, 1) steps = true
  /\ arun steps m (0, 1) None =
     [Some [[12;11;10;9];[8;7;6;5];[4;3;2;1]]; Some [[7;11;10;9];[8;7;6;5];[4;3;2;1]]; Some [[7;11;10;9];[8;7;6;5];[4;3;2;1]];
      Some [[2;3];[0;7]]; Some [[0;0;11;12];[0;0;7;8];[1;2;3;4]]]
  /\ lay_insideb ((3, 4), (1, 0), Some (1, 3, 0, 2), None, Some (0, 1, 3, 4)) = true
  /\ lay_validb ((3, 4), (1, 0), Some (1, 3, 0, 2), None, Some (0, 1, 3, 4)) = true
  /\ lay_rot ((3, 4), (1, 0), Some (1, 3, 0, 2), None, Some (0, 1, 3, 4)) (0, 1)
     = Ok ((3, 4), (0, 1), Some (0, 2, 2, 4), None, Some (2, 3, 0, 1)).
Proof. vm_compute. repeat split. Qed.

Print Assumptions C19_write_is_pixelwise. Print Assumptions C19_write_rotate_commute. Print Assumptions C19_write_then_slice.
Print Assumptions C19_history_read_is_rotation_of_current_contents. Print Assumptions C19_history_slice_is_current_content.
Print Assumptions C19_history_contents. Print Assumptions C19_history_model_meets_spec.
Print Assumptions C19_layout_rotate_is_spec. Print Assumptions C19_layout_extract_is_spec. Print Assumptions C19_layout_rotate_twice.
Print Assumptions C19_region1d_validation. Print Assumptions C19_region2d_validation.
Print Assumptions C19_rotate_array_is_spec. Print Assumptions C19_rotate_region_is_spec.
Print Assumptions C19_rotate_commutes. Print Assumptions C19_rotate_array_twice.
Print Assumptions C19_rotate_region_twice. Print Assumptions C19_rotated_region_stays_inside.
Print Assumptions C19_extraction_1d. Print Assumptions C19_extraction_2d. Print Assumptions C19_overlap_is_intersection.
Print Assumptions C19_front_1d. Print Assumptions C19_front_1d_from_end. Print Assumptions C19_trailing_1d.
Print Assumptions C19_parallel_front. Print Assumptions C19_parallel_front_from_end.
Print Assumptions C19_parallel_trailing. Print Assumptions C19_parallel_full.
Print Assumptions C19_serial_front. Print Assumptions C19_serial_front_from_end.
Print Assumptions C19_serial_trailing. Print Assumptions C19_serial_towards_roe.
Print Assumptions C19_region1d_attributes. Print Assumptions C19_region2d_attributes.
Print Assumptions C19_pattern_rotate_is_spec. Print Assumptions C19_pattern_rotate_twice.
