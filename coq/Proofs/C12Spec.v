(* C12 (continued) -- "model = origin-free form + origin" for the entry points that were correspondence-only:
   mask_centre, the zoom quantities and zoomed masks, the Overlay image mesh, the rectangular mapper, the radial projection
   (any angle), the Hilbert radius cut; plus BorderRelocator.sub_border_grid / relocated_mesh_grid_from. *)
From Coq Require Import ZArith QArith List Bool Reals Lra Lia Psatz.
From PAV Require Import Base.Res Base.Check Base.NumOps Model.C12 Proofs.C12 Proofs.C12Reloc.
Import ListNotations.
Local Open Scope R_scope.

(* ------------------------------------------------------------------ extremes of an affine image of a list of integers *)
Definition aff (a b : R) (z : Z) : R := a * IZR z + b.

Lemma maxT_aff_up a b x y : 0 <= a -> @maxT ROps (aff a b x) (aff a b y) = aff a b (Z.max x y).
Proof.
  intros Ha. unfold maxT, aff; rs. destruct (Rltb _ _) eqn:E; rbool.
  - destruct (Z.max_spec x y) as [[Hl ->]|[Hl ->]]; [reflexivity|]. apply IZR_le in Hl. nra.
  - destruct (Z.max_spec x y) as [[Hl ->]|[Hl ->]]; [|reflexivity]. apply IZR_lt in Hl. nra.
Qed.
Lemma minT_aff_up a b x y : 0 <= a -> @minT ROps (aff a b x) (aff a b y) = aff a b (Z.min x y).
Proof.
  intros Ha. unfold minT, aff; rs. destruct (Rltb _ _) eqn:E; rbool.
  - destruct (Z.min_spec x y) as [[Hl ->]|[Hl ->]]; [|reflexivity]. apply IZR_lt in Hl. nra.
  - destruct (Z.min_spec x y) as [[Hl ->]|[Hl ->]]; [reflexivity|]. apply IZR_le in Hl. nra.
Qed.
Lemma maxT_aff_down a b x y : a <= 0 -> @maxT ROps (aff a b x) (aff a b y) = aff a b (Z.min x y).
Proof.
  intros Ha. unfold maxT, aff; rs. destruct (Rltb _ _) eqn:E; rbool.
  - destruct (Z.min_spec x y) as [[Hl ->]|[Hl ->]]; [|reflexivity]. apply IZR_lt in Hl. nra.
  - destruct (Z.min_spec x y) as [[Hl ->]|[Hl ->]]; [reflexivity|]. apply IZR_le in Hl. nra.
Qed.
Lemma minT_aff_down a b x y : a <= 0 -> @minT ROps (aff a b x) (aff a b y) = aff a b (Z.max x y).
Proof.
  intros Ha. unfold minT, aff; rs. destruct (Rltb _ _) eqn:E; rbool.
  - destruct (Z.max_spec x y) as [[Hl ->]|[Hl ->]]; [reflexivity|]. apply IZR_le in Hl. nra.
  - destruct (Z.max_spec x y) as [[Hl ->]|[Hl ->]]; [|reflexivity]. apply IZR_lt in Hl. nra.
Qed.
Lemma maxl_aff_up a b l : 0 <= a -> forall x, @maxl ROps (aff a b x) (map (aff a b) l) = aff a b (zmax_list x l).
Proof. intros Ha. unfold maxl, zmax_list. induction l as [|y l IH]; intros x; cbn [map fold_left]; [reflexivity|]. rewrite maxT_aff_up by exact Ha. apply IH. Qed.
Lemma minl_aff_up a b l : 0 <= a -> forall x, @minl ROps (aff a b x) (map (aff a b) l) = aff a b (zmin_list x l).
Proof. intros Ha. unfold minl, zmin_list. induction l as [|y l IH]; intros x; cbn [map fold_left]; [reflexivity|]. rewrite minT_aff_up by exact Ha. apply IH. Qed.
Lemma maxl_aff_down a b l : a <= 0 -> forall x, @maxl ROps (aff a b x) (map (aff a b) l) = aff a b (zmin_list x l).
Proof. intros Ha. unfold maxl, zmin_list. induction l as [|y l IH]; intros x; cbn [map fold_left]; [reflexivity|]. rewrite maxT_aff_down by exact Ha. apply IH. Qed.
Lemma minl_aff_down a b l : a <= 0 -> forall x, @minl ROps (aff a b x) (map (aff a b) l) = aff a b (zmax_list x l).
Proof. intros Ha. unfold minl, zmax_list. induction l as [|y l IH]; intros x; cbn [map fold_left]; [reflexivity|]. rewrite minT_aff_down by exact Ha. apply IH. Qed.

(* whatever the sign of the slope, max + min is the sum of the images of the two integer extremes *)
Lemma sum_extremes a b x l :
  @maxl ROps (aff a b x) (map (aff a b) l) + @minl ROps (aff a b x) (map (aff a b) l) = aff a b (zmin_list x l) + aff a b (zmax_list x l).
Proof.
  destruct (Rle_or_lt 0 a) as [Ha|Ha].
  - rewrite maxl_aff_up, minl_aff_up by exact Ha. ring.
  - rewrite maxl_aff_down, minl_aff_down by lra. ring.
Qed.

(* ------------------------------------------------------------------ mask_centre = centre of the bounding box + origin *)
Lemma fst_rel_centre H W (ps : RP) p : fst (rel_centre H W ps p) = aff (- fst ps) (IZR (H - 1) / 2 * fst ps) (fst p).
Proof. destruct ps, p. unfold rel_centre, aff; unf. unfold Rdiv; ring. Qed.
Lemma snd_rel_centre H W (ps : RP) p : snd (rel_centre H W ps p) = aff (snd ps) (- (IZR (W - 1) / 2) * snd ps) (snd p).
Proof. destruct ps, p. unfold rel_centre, aff; unf. unfold Rdiv; ring. Qed.

Theorem grid_centre_rel_grid m (ps : RP) : grid_centre (rel_grid m ps) = rel_box_centre m ps.
Proof.
  unfold rel_grid, rel_box_centre, bbox. destruct (unmasked m) as [|[y x] t]; [reflexivity|].
  cbn [map grid_centre]. f_equal.
  assert (E1 : map fst (map (rel_centre (rows m) (cols m) ps) t) = map (aff (- fst ps) (IZR (rows m - 1) / 2 * fst ps)) (map fst t)).
  { rewrite !map_map. apply map_ext. intros p. apply fst_rel_centre. }
  assert (E2 : map snd (map (rel_centre (rows m) (cols m) ps) t) = map (aff (snd ps) (- (IZR (cols m - 1) / 2) * snd ps)) (map snd t)).
  { rewrite !map_map. apply map_ext. intros p. apply snd_rel_centre. }
  rewrite E1, E2, !fst_rel_centre, !snd_rel_centre. cbn [fst snd]. rs.
  apply pt_eq; rewrite sum_extremes; reflexivity.
Qed.

Theorem mask_centre_spec (M : RM) : ps_ok (mps M) -> mask_centre M = oshift (morg M) (rel_box_centre (mk M) (mps M)).
Proof. intros Hps. unfold mask_centre. rewrite from_mask_spec by exact Hps. rewrite grid_centre_shift, grid_centre_rel_grid. reflexivity. Qed.

(* ------------------------------------------------------------------ zoom *)
Lemma grid_pixels_of_centre H W (ps o : RP) p : ps_ok ps ->
  grid_pixels H W ps o (centre_of_pixel (central_scaled H W ps o) ps p) = (aff 1 (/ 2) (fst p), aff 1 (/ 2) (snd p)).
Proof.
  intros [A B]. destruct ps, o, p. unfold grid_pixels, centre_of_pixel, aff; unf. apply pt_eq; field; assumption.
Qed.

Theorem zoom_centre_spec (M : RM) : ps_ok (mps M) -> zoom_centre M = rel_zoom_centre (mk M).
Proof.
  intros Hps. unfold zoom_centre, rel_zoom_centre, bbox, from_mask, grid_via_mask. rewrite map_map.
  destruct (unmasked (mk M)) as [|[y x] t]; [reflexivity|]. cbn [map].
  rewrite !grid_pixels_of_centre by exact Hps. cbn [fst snd]. f_equal.
  assert (E1 : map fst (map (fun p => grid_pixels (rows (mk M)) (cols (mk M)) (mps M) (morg M)
                 (centre_of_pixel (central_scaled (rows (mk M)) (cols (mk M)) (mps M) (morg M)) (mps M) p)) t)
               = map (aff 1 (/ 2)) (map fst t)).
  { rewrite !map_map. apply map_ext. intros p. rewrite grid_pixels_of_centre by exact Hps. reflexivity. }
  assert (E2 : map snd (map (fun p => grid_pixels (rows (mk M)) (cols (mk M)) (mps M) (morg M)
                 (centre_of_pixel (central_scaled (rows (mk M)) (cols (mk M)) (mps M) (morg M)) (mps M) p)) t)
               = map (aff 1 (/ 2)) (map snd t)).
  { rewrite !map_map. apply map_ext. intros p. rewrite grid_pixels_of_centre by exact Hps. reflexivity. }
  rewrite E1, E2. unfold one, two; rs. rewrite !sum_extremes. unfold aff. rewrite !plus_IZR. apply pt_eq; field.
Qed.
Theorem zoom_offset_pixels_spec (M : RM) : ps_ok (mps M) ->
  zoom_offset_pixels M = option_map (fun z => psub z (centre_px (rows (mk M)) (cols (mk M)))) (rel_zoom_centre (mk M)).
Proof. intros Hps. unfold zoom_offset_pixels. rewrite zoom_centre_spec by exact Hps. destruct (rel_zoom_centre (mk M)); reflexivity. Qed.
Theorem zoom_offset_scaled_spec (M : RM) : ps_ok (mps M) -> zoom_offset_scaled M = rel_box_centre (mk M) (mps M).
Proof.
  intros Hps. unfold zoom_offset_scaled. rewrite zoom_offset_pixels_spec by exact Hps.
  unfold rel_zoom_centre, rel_box_centre. destruct (bbox (mk M)) as [[[[y0 y1] x0] x1]|]; [|reflexivity].
  cbn [option_map]. f_equal. destruct (mps M) as [py px]. unfold rel_centre; unf. rewrite !plus_IZR. apply pt_eq; field.
Qed.
(* the zoomed masks: shape from the (squared) bounding box, pixel scales kept, origin = origin + centre of the bounding box *)
Theorem zoom_mask_unmasked_spec (M : RM) : ps_ok (mps M) ->
  zoom_mask_unmasked M =
  match zoom_shape (mk M), rel_box_centre (mk M) (mps M) with
  | Some s, Some c => Some (m_all_false (fst s) (snd s) (mps M) (padd (morg M) c))
  | _, _ => None
  end.
Proof. intros Hps. unfold zoom_mask_unmasked. rewrite zoom_offset_scaled_spec by exact Hps. reflexivity. Qed.
Theorem zoomed_around_mask_spec (M : RM) b : ps_ok (mps M) ->
  zoomed_around_mask M b =
  match zoom_region (mk M), rel_box_centre (mk M) (mps M) with
  | Some (y0, y1, x0, x1), Some c => Some (m_all_false ((y1 + b) - (y0 - b)) ((x1 + b) - (x0 - b)) (mps M) (padd c (morg M)))
  | _, _ => None
  end.
Proof.
  intros Hps. unfold zoomed_around_mask. rewrite mask_centre_spec by exact Hps.
  destruct (zoom_region (mk M)) as [[[[y0 y1] x0] x1]|]; [|reflexivity].
  destruct (rel_box_centre (mk M) (mps M)); reflexivity.
Qed.

(* ------------------------------------------------------------------ Overlay image mesh = origin-free form + origin *)
Lemma diff_extremes_up a b x l : 0 <= a ->
  @maxl ROps (aff a b x) (map (aff a b) l) - @minl ROps (aff a b x) (map (aff a b) l) = aff a b (zmax_list x l) - aff a b (zmin_list x l).
Proof. intros Ha. rewrite maxl_aff_up, minl_aff_up by exact Ha. reflexivity. Qed.
Lemma diff_extremes_down a b x l : a <= 0 ->
  @maxl ROps (aff a b x) (map (aff a b) l) - @minl ROps (aff a b x) (map (aff a b) l) = aff a b (zmin_list x l) - aff a b (zmax_list x l).
Proof. intros Ha. rewrite maxl_aff_down, minl_aff_down by exact Ha. reflexivity. Qed.

Theorem interior_rel_grid m (ps : RP) : ps_pos ps ->
  interior (rel_grid m ps) =
  match bbox m with Some (y0, y1, x0, x1) => Some (IZR (y1 - y0) * fst ps, IZR (x1 - x0) * snd ps) | None => None end.
Proof.
  intros [P0 P1]. unfold rel_grid, bbox. destruct (unmasked m) as [|[y x] t]; [reflexivity|].
  cbn [map interior]. f_equal.
  assert (E1 : map fst (map (rel_centre (rows m) (cols m) ps) t) = map (aff (- fst ps) (IZR (rows m - 1) / 2 * fst ps)) (map fst t)).
  { rewrite !map_map. apply map_ext. intros p. apply fst_rel_centre. }
  assert (E2 : map snd (map (rel_centre (rows m) (cols m) ps) t) = map (aff (snd ps) (- (IZR (cols m - 1) / 2) * snd ps)) (map snd t)).
  { rewrite !map_map. apply map_ext. intros p. apply snd_rel_centre. }
  rewrite E1, E2, !fst_rel_centre, !snd_rel_centre. cbn [fst snd]. rs.
  rewrite diff_extremes_down by lra. rewrite diff_extremes_up by lra. unfold aff. rewrite !minus_IZR. apply pt_eq; ring.
Qed.

Lemma psub_padd (q o : RP) : psub (padd q o) o = q.
Proof. destruct q, o; unf. apply pt_eq; ring. Qed.
Lemma rows_all_false H W : (0 <= H)%Z -> rows (all_false H W) = H.
Proof. intros Hh. unfold rows, all_false. rewrite repeat_length. apply Z2Nat.id. exact Hh. Qed.
Lemma cols_all_false H W : (0 < H)%Z -> (0 <= W)%Z -> cols (all_false H W) = W.
Proof.
  intros Hh Hw. unfold cols, all_false. destruct (Z.to_nat H) eqn:E; [lia|]. cbn [repeat hd]. rewrite repeat_length. apply Z2Nat.id. exact Hw.
Qed.

Theorem overlay_spec (M : RM) sy sx : ps_pos (mps M) -> (0 < sy)%Z -> (0 < sx)%Z ->
  overlay M sy sx = rshift (morg M) (rel_overlay (mk M) (mps M) sy sx).
Proof.
  intros Hpos Hsy Hsx. pose proof (ps_pos_ok _ Hpos) as Hps. unfold overlay, overlay_with, rel_overlay.
  rewrite (from_mask_spec M Hps), interior_shift, grid_centre_shift, grid_centre_rel_grid.
  destruct (interior (rel_grid (mk M) (mps M))) as [i|] eqn:Ei.
  2:{ rewrite interior_rel_grid in Ei by exact Hpos. destruct (bbox (mk M)) as [[[[y0 y1] x0] x1]|]; [discriminate|reflexivity]. }
  pose proof (interior_nonneg _ _ Ei) as [I0 I1].
  rewrite interior_rel_grid in Ei by exact Hpos.
  destruct (bbox (mk M)) as [[[[y0 y1] x0] x1]|] eqn:Eb; [|discriminate]. injection Ei as <-.
  destruct (rel_box_centre (mk M) (mps M)) as [cb|] eqn:Ec.
  2:{ unfold rel_box_centre in Ec. rewrite Eb in Ec. discriminate. }
  cbn [oshift option_map fst snd] in *.
  set (ps' := (div ROps (mul ROps (ofZ ROps (y1 - y0 + 1)) (fst (mps M))) (ofZ ROps sy),
               div ROps (mul ROps (ofZ ROps (x1 - x0 + 1)) (snd (mps M))) (ofZ ROps sx))).
  set (psm := (div ROps (add ROps _ (fst (mps M))) (ofZ ROps sy), div ROps (add ROps _ (snd (mps M))) (ofZ ROps sx))).
  assert (Eps : psm = ps').
  { unfold psm, ps'. rs. rewrite !plus_IZR. apply IZR_lt in Hsy, Hsx. apply pt_eq; field; lra. }
  clearbody psm. subst psm.
  assert (Hps' : ps_ok ps').
  { destruct Hpos as [P0 P1]. unfold ps', ps_ok; rs. rewrite !plus_IZR. apply IZR_lt in Hsy, Hsx.
    split; apply Rgt_not_eq; apply Rdiv_lt_0_compat; nra. }
  unfold grid_via_shape. rewrite (grid_via_mask_spec (all_false sy sx) ps' (padd cb (morg M)) Hps').
  unfold rel_grid. rewrite rows_all_false, cols_all_false by lia.
  set (U := unmasked (all_false sy sx)).
  assert (Eug : shift (padd cb (morg M)) (map (rel_centre sy sx ps') U) = shift (morg M) (map (fun p => padd (rel_centre sy sx ps' p) cb) U)).
  { unfold shift. rewrite !map_map. apply map_ext. intros p. symmetry. apply padd_assoc. }
  rewrite Eug. set (ug := map (fun p => padd (rel_centre sy sx ps' p) cb) U).
  assert (Ecen : map (grid_pixel_centres (rows (mk M)) (cols (mk M)) (mps M) (morg M)) (shift (morg M) ug)
                 = map (rel_pixel (rows (mk M)) (cols (mk M)) (mps M)) ug).
  { unfold shift. rewrite map_map. apply map_ext. intros q. rewrite grid_pixel_centres_spec, psub_padd. reflexivity. }
  rewrite Ecen. set (cen := map _ ug).
  match goal with |- context [forallb ?f cen] => destruct (forallb f cen) end; [|reflexivity]. cbn [rshift]. f_equal.
  apply (filter_combine_shift (fun q => match np_get (mk M) (fst q) (snd q) with Some b => negb b | None => false end)).
Qed.

(* ------------------------------------------------------------------ rectangular mesh / mapper *)
Theorem rect_mapper_spec sy sx (g : list RP) (b : R) : rect_mapper sy sx g b = rel_rect_mapper sy sx g b.
Proof.
  unfold rect_mapper, rect_overlay_grid, rel_rect_mapper. destruct g as [|p t]; [reflexivity|].
  unfold rect_mappings. cbn [r_shape r_ps r_org fst snd]. f_equal. apply map_ext. intros q.
  unfold grid_pixel_indexes. rewrite grid_pixel_centres_spec. reflexivity.
Qed.
(* hence the index table depends only on the positions relative to the grid (a common translation does not change it) *)
Theorem rel_rect_mapper_invariant sy sx (g : list RP) (b : R) (d : RP) : rel_rect_mapper sy sx (shift d g) b = rel_rect_mapper sy sx g b.
Proof. rewrite <- !rect_mapper_spec. apply rect_mapper_invariant. Qed.
Theorem rect_mesh_grid_spec (r : @rmesh ROps) : ps_ok (r_ps r) ->
  rect_mesh_grid r = shift (r_org r) (rel_grid (all_false (fst (r_shape r)) (snd (r_shape r))) (r_ps r)).
Proof. intros Hps. unfold rect_mesh_grid, grid_via_shape. apply grid_via_mask_spec. exact Hps. Qed.

(* ------------------------------------------------------------------ Hilbert radius cut: sqrt(y^2 + x^2) <= r  <=>  0 <= r /\ y^2 + x^2 <= r^2 *)
Lemma sqrt_le_iff (s r : R) : 0 <= s -> Rleb (sqrt s) r = Rleb 0 r && Rleb s (r * r).
Proof.
  intros Hs. destruct (Rleb 0 r) eqn:E0; cbn [andb]; rbool.
  - destruct (Rleb s (r * r)) eqn:E1; rbool.
    + apply Rleb_true. rewrite <- (sqrt_square r) by exact E0. apply sqrt_le_1; nra.
    + apply Rleb_false. rewrite <- (sqrt_square r) by exact E0. apply sqrt_lt_1; nra.
  - apply Rleb_false. pose proof (sqrt_pos s). lra.
Qed.
Theorem hilbert_cut_spec (curve : list RP) (r : R) : hilbert_cut curve r = rel_hilbert_cut curve r.
Proof.
  unfold hilbert_cut, rel_hilbert_cut. apply filter_ext. intros [a b]. unfold zero, sq; rs. apply sqrt_le_iff. nra.
Qed.
Theorem hilbert_curve_grid_spec (M : RM) curve r : hilbert_curve_grid M curve r = shift (morg M) (rel_hilbert_cut curve r).
Proof. unfold hilbert_curve_grid. rewrite hilbert_cut_spec. reflexivity. Qed.
Theorem hilbert_image_grid_spec (M : RM) n : ps_ok (mps M) -> hilbert_image_grid M n = shift (morg M) (rel_grid (all_false n n) (mps M)).
Proof. intros Hps. unfold hilbert_image_grid, grid_via_shape. apply grid_via_mask_spec. exact Hps. Qed.

(* ------------------------------------------------------------------ radial projection at any angle *)
Lemma frame_a_shift (cssn c p d : RP) : frame_a cssn (padd c d) (padd p d) = padd (frame_a cssn c p) d.
Proof.
  destruct c as [cy cx], p as [py px], d as [dy dx], cssn as [cs sn]. unfold frame_a; unf.
  replace (py + dy - (cy + dy)) with (py - cy) by ring. replace (px + dx - (cx + dx)) with (px - cx) by ring.
  apply pt_eq; ring.
Qed.
Theorem radial_projected_a_translates cssn (e : @ext ROps) (c ps d : RP) ss rm :
  radial_projected_a cssn (ext_shift d e) (padd c d) ps ss rm = shift d (radial_projected_a cssn e c ps ss rm).
Proof.
  unfold radial_projected_a. rewrite radial_shape_invariant, radial_scale_invariant.
  set (n := Z.to_nat (radial_shape e c ps ss)). set (st := snd (radial_scale e c ps)).
  assert (E : map (fun r => frame_a cssn (padd c d) (add ROps zero (fst (padd c d)), r)) (radii_from n (snd (padd c d)) st)
              = shift d (map (fun r => frame_a cssn c (add ROps zero (fst c), r)) (radii_from n (snd c) st))).
  { destruct c as [cy cx], d as [dy dx]. unfold padd at 3; rs. rewrite radii_from_shift. unfold shift. rewrite !map_map.
    apply map_ext. intros r. rewrite <- frame_a_shift. f_equal. unf. apply pt_eq; ring. }
  rewrite E. destruct rm; [apply tl_shift|reflexivity].
Qed.
Theorem radial_projected_from_a_translates cssn (d : RP) (M : RM) (c : RP) ss rm :
  radial_projected_from_a cssn (translate d M) (padd c d) ss rm = shift d (radial_projected_from_a cssn M c ss rm).
Proof. unfold radial_projected_from_a. rewrite mask_extent_translates. cbn [translate mps]. apply radial_projected_a_translates. Qed.

(* angle 0 is the instance (cos, sin) = (1, 0) *)
Lemma frame_a_angle0 (c p : RP) : frame_a ((1, 0) : RP) c p = frame0 c p.
Proof. destruct c, p. unfold frame_a, frame0; unf. apply pt_eq; ring. Qed.
Theorem radial_projected_a_angle0 (e : @ext ROps) (c ps : RP) ss rm :
  radial_projected_a ((1, 0) : RP) e c ps ss rm = radial_projected e c ps ss rm.
Proof.
  unfold radial_projected_a, radial_projected.
  rewrite (map_ext (fun r => frame_a ((1, 0) : RP) c (add ROps zero (fst c), r)) (fun r => frame0 c (add ROps zero (fst c), r)))
    by (intros r; apply frame_a_angle0).
  reflexivity.
Qed.

(* closed form *)
Lemma radial_scale_ext (e : @ext ROps) (c ps : RP) (a1 a2 a3 a4 : R) :
  (let '(x0, x1, y0, y1) := e in x1 - snd c = a1 /\ y1 - fst c = a2 /\ snd c - x0 = a3 /\ fst c - y0 = a4) ->
  radial_scale e c ps =
  (let sd := @maxT ROps (@maxT ROps (@maxT ROps a1 a2) a3) a4 in (sd, if Reqb sd a2 || Reqb sd a4 then fst ps else snd ps)).
Proof. destruct e as [[[x0 x1] y0] y1]. intros (<- & <- & <- & <-). reflexivity. Qed.
Lemma radial_scale_spec H W (ps o c : RP) : radial_scale (extent H W ps o) c ps = rel_radial_scale H W ps (psub c o).
Proof.
  unfold rel_radial_scale. destruct ps as [py px], o as [oy ox], c as [cy cx]. unf.
  apply radial_scale_ext. unfold extent; unf. repeat split; field.
Qed.
Lemma rel_radial_scale_step_pos H W (ps r : RP) : ps_pos ps -> 0 < snd (rel_radial_scale H W ps r).
Proof. intros [P0 P1]. unfold rel_radial_scale. cbn [snd]. match goal with |- context [if ?b then _ else _] => destruct b end; assumption. Qed.

Lemma radii_from_closed n (x0 step : R) : forall a,
  @radii_from ROps n (x0 + IZR (Z.of_nat a) * step) step = map (fun i => x0 + IZR (Z.of_nat i) * step) (seq a n).
Proof.
  induction n as [|n IH]; intros a; cbn [radii_from seq map]; [reflexivity|]. f_equal. rs.
  replace (x0 + IZR (Z.of_nat a) * step + step) with (x0 + IZR (Z.of_nat (S a)) * step) by (rewrite Nat2Z.inj_succ, succ_IZR; ring).
  apply IH.
Qed.
Lemma radii_from_zrange (N : Z) (x0 step : R) : @radii_from ROps (Z.to_nat N) x0 step = map (fun i => x0 + IZR i * step) (zrange N).
Proof.
  unfold zrange. rewrite map_map. rewrite <- radii_from_closed. f_equal. cbn. ring.
Qed.
Lemma frame_a_on_ray (cssn c : RP) (rho : R) : 0 <= rho ->
  frame_a cssn c (add ROps zero (fst c), snd c + rho) = (fst c + rho * snd cssn, snd c + rho * fst cssn).
Proof.
  intros Hr. destruct c as [cy cx], cssn as [cs sn]. unfold frame_a; unf.
  replace (0 + cy - cy) with 0 by ring. replace (cx + rho - cx) with rho by ring.
  replace (0 * 0 + rho * rho) with (rho * rho) by ring. rewrite sqrt_square by exact Hr. apply pt_eq; ring.
Qed.
Lemma In_zrange N i : In i (zrange N) -> (0 <= i < N)%Z.
Proof. unfold zrange. rewrite in_map_iff. intros (k & <- & Hk). apply in_seq in Hk. lia. Qed.

Theorem radial_projected_a_spec cssn H W (ps o c : RP) ss rm : ps_pos ps ->
  radial_projected_a cssn (extent H W ps o) c ps ss rm = shift o (rel_radial_a cssn H W ps (psub c o) ss rm).
Proof.
  intros Hpos. unfold radial_projected_a, rel_radial_a, radial_shape. rewrite radial_scale_spec.
  pose proof (rel_radial_scale_step_pos H W ps (psub c o) Hpos) as Hst.
  set (sp := rel_radial_scale H W ps (psub c o)) in *.
  set (n := if (ss =? 0)%Z then (trunc (div ROps (fst sp) (snd sp)) + 1)%Z else ss).
  rewrite radii_from_zrange, map_map.
  assert (E : map (fun i => frame_a cssn c (add ROps zero (fst c), snd c + IZR i * snd sp)) (zrange n)
              = shift o (map (fun i => let rho := mul ROps (ofZ ROps i) (snd sp) in
                                       (add ROps (fst (psub c o)) (mul ROps rho (snd cssn)), add ROps (snd (psub c o)) (mul ROps rho (fst cssn)))) (zrange n))).
  { unfold shift. rewrite map_map. apply map_ext_in. intros i Hi. apply In_zrange in Hi.
    rewrite frame_a_on_ray. 2:{ apply Rmult_le_pos; [apply IZR_le; lia|lra]. }
    destruct c as [cy cx], o as [oy ox], cssn as [cs sn]. unf. apply pt_eq; ring. }
  destruct rm; [rewrite <- tl_shift; f_equal|]; exact E.
Qed.
Theorem radial_projected_from_a_spec cssn (M : RM) (c : RP) ss rm : ps_pos (mps M) ->
  radial_projected_from_a cssn M c ss rm = shift (morg M) (rel_radial_a cssn (rows (mk M)) (cols (mk M)) (mps M) (psub c (morg M)) ss rm).
Proof. intros Hpos. unfold radial_projected_from_a, mask_extent. apply radial_projected_a_spec. exact Hpos. Qed.
Theorem radial_projected_from_spec (M : RM) (c : RP) ss rm : ps_pos (mps M) ->
  radial_projected_from M c ss rm = shift (morg M) (rel_radial (rows (mk M)) (cols (mk M)) (mps M) (psub c (morg M)) ss rm).
Proof.
  intros Hpos. unfold radial_projected_from. rewrite <- radial_projected_a_angle0.
  change (radial_projected_a ((1, 0) : RP) (mask_extent M) c (mps M) ss rm) with (radial_projected_from_a ((1, 0) : RP) M c ss rm).
  rewrite radial_projected_from_a_spec by exact Hpos. reflexivity.
Qed.

(* with cos^2 + sin^2 = 1 the i-th point of the origin-free form lies at distance i * step from the centre, on the ray of the angle *)
Theorem rel_radial_a_points (cssn : RP) H W (ps r : RP) ss rm p : ps_pos ps -> fst cssn * fst cssn + snd cssn * snd cssn = 1 ->
  In p (rel_radial_a cssn H W ps r ss rm) ->
  exists i, (0 <= i)%Z /\ p = (fst r + IZR i * snd (rel_radial_scale H W ps r) * snd cssn, snd r + IZR i * snd (rel_radial_scale H W ps r) * fst cssn)
            /\ radius r p = IZR i * snd (rel_radial_scale H W ps r).
Proof.
  intros Hpos Hcs Hin. pose proof (rel_radial_scale_step_pos H W ps r Hpos) as Hst. unfold rel_radial_a in Hin.
  set (sp := rel_radial_scale H W ps r) in *.
  assert (Hin' : In p (map (fun i => let rho := mul ROps (ofZ ROps i) (snd sp) in
                                      (add ROps (fst r) (mul ROps rho (snd cssn)), add ROps (snd r) (mul ROps rho (fst cssn))))
                            (zrange (if (ss =? 0)%Z then (trunc (div ROps (fst sp) (snd sp)) + 1)%Z else ss)))).
  { destruct rm; [|exact Hin]. match type of Hin with In _ (tl ?l) => destruct l; [destruct Hin|right; exact Hin] end. }
  apply in_map_iff in Hin'. destruct Hin' as (i & <- & Hi). apply In_zrange in Hi. exists i. split; [lia|]. rs. split; [reflexivity|].
  destruct r as [ry rx], cssn as [cs sn]. unfold radius; unf. cbn [fst snd] in *.
  assert (Hrho : 0 <= IZR i * snd sp). { apply Rmult_le_pos; [apply IZR_le; lia|lra]. }
  set (rho := IZR i * snd sp) in *.
  replace ((ry + rho * sn - ry) * (ry + rho * sn - ry) + (rx + rho * cs - rx) * (rx + rho * cs - rx)) with (rho * rho * (cs * cs + sn * sn)) by ring.
  rewrite Hcs, Rmult_1_r. apply sqrt_square. exact Hrho.
Qed.

(* ------------------------------------------------------------------ BorderRelocator.sub_border_grid, relocated_mesh_grid_from *)
Theorem sub_border_grid_translates (d : RP) (M : RM) subs idx : ps_ok (mps M) ->
  Forall (fun i => (i < length (over_sampled_grid M subs))%nat) idx ->
  sub_border_grid (translate d M) subs idx = shift d (sub_border_grid M subs idx).
Proof.
  intros Hps HF. unfold sub_border_grid. rewrite over_sampled_grid_translates by exact Hps. apply gather_shift. exact HF.
Qed.
Theorem sub_border_grid_spec (M : RM) subs idx : ps_ok (mps M) ->
  sub_border_grid M subs idx = gather zpt (shift (morg M) (rel_over (mk M) (mps M) subs)) idx.
Proof. intros Hps. unfold sub_border_grid. rewrite over_sampled_grid_spec by exact Hps. reflexivity. Qed.
Theorem relocated_mesh_grid_from_translates (d : RP) (idx : list nat) (g mesh : list RP) :
  Forall (fun i => (i < length g)%nat) idx ->
  relocated_mesh_grid_from idx (shift d g) (shift d mesh) = shift d (relocated_mesh_grid_from idx g mesh).
Proof. intros HF. unfold relocated_mesh_grid_from. rewrite gather_shift by assumption. apply relocate_translates. Qed.

(* ------------------------------------------------------------------ the remaining grid-valued call sites, for completeness *)
Theorem derive_grid_all_false_spec (M : RM) : ps_ok (mps M) ->
  derive_grid_all_false M = shift (morg M) (rel_grid (all_false (rows (mk M)) (cols (mk M))) (mps M)).
Proof. intros Hps. unfold derive_grid_all_false, grid_via_shape. apply grid_via_mask_spec. exact Hps. Qed.
Theorem blurring_grid_from_spec (bl : mask -> mask) (M : RM) : ps_ok (mps M) ->
  blurring_grid_from bl M = shift (morg M) (rel_grid (bl (mk M)) (mps M)).
Proof. intros Hps. unfold blurring_grid_from. rewrite from_mask_spec by exact Hps. reflexivity. Qed.
Theorem padded_grid_from_spec (M : RM) kh kw : ps_ok (mps M) ->
  padded_grid_from M kh kw = shift (morg M) (rel_grid (all_false (rows (mk M) + kh - 1) (cols (mk M) + kw - 1)) (mps M)).
Proof. intros Hps. unfold padded_grid_from. rewrite from_mask_spec by exact Hps. reflexivity. Qed.
Theorem subtracted_grid_spec (M : RM) (off : RP) : ps_ok (mps M) ->
  subtracted_grid M off = shift (psub (morg M) off) (rel_grid (mk M) (mps M)) /\ subtracted_grid M off = from_mask (subtracted_mask M off).
Proof.
  intros Hps. assert (E : subtracted_grid M off = shift (psub (morg M) off) (rel_grid (mk M) (mps M))).
  { unfold subtracted_grid. rewrite from_mask_spec by exact Hps. unfold shift. rewrite map_map. apply map_ext. intros p.
    destruct p, (morg M), off; unf. apply pt_eq; ring. }
  split; [exact E|]. rewrite E. symmetry. apply (from_mask_spec (subtracted_mask M off)). exact Hps.
Qed.
Theorem dataset_grid_spec (ds : @imaging ROps) : ps_ok (mps (i_data ds)) ->
  dataset_grid ds = shift (morg (i_data ds)) (rel_grid (mk (i_data ds)) (mps (i_data ds))).
Proof. intros Hps. apply from_mask_spec. exact Hps. Qed.

(* ================================================================== statements with the hypotheses spelled out (used by Props/C12.v) *)
Section ExportSpecM.
  Variables (M : RM) (HY : fst (mps M) <> 0) (HX : snd (mps M) <> 0).
  Let Hps : ps_ok (mps M) := conj HY HX.
  Lemma x_mask_centre_spec : mask_centre M = oshift (morg M) (rel_box_centre (mk M) (mps M)).
  Proof. apply mask_centre_spec, Hps. Qed.
  Lemma x_zoom_centre_spec : zoom_centre M = rel_zoom_centre (mk M).
  Proof. apply zoom_centre_spec, Hps. Qed.
  Lemma x_zoom_offset_pixels_spec :
    zoom_offset_pixels M = option_map (fun z => psub z (centre_px (rows (mk M)) (cols (mk M)))) (rel_zoom_centre (mk M)).
  Proof. apply zoom_offset_pixels_spec, Hps. Qed.
  Lemma x_zoom_offset_scaled_spec : zoom_offset_scaled M = rel_box_centre (mk M) (mps M).
  Proof. apply zoom_offset_scaled_spec, Hps. Qed.
  Lemma x_zoom_mask_unmasked_spec :
    zoom_mask_unmasked M =
    match zoom_shape (mk M), rel_box_centre (mk M) (mps M) with
    | Some s, Some c => Some (m_all_false (fst s) (snd s) (mps M) (padd (morg M) c))
    | _, _ => None
    end.
  Proof. apply zoom_mask_unmasked_spec, Hps. Qed.
  Lemma x_zoomed_around_mask_spec b :
    zoomed_around_mask M b =
    match zoom_region (mk M), rel_box_centre (mk M) (mps M) with
    | Some (y0, y1, x0, x1), Some c => Some (m_all_false ((y1 + b) - (y0 - b)) ((x1 + b) - (x0 - b)) (mps M) (padd c (morg M)))
    | _, _ => None
    end.
  Proof. apply zoomed_around_mask_spec, Hps. Qed.
  Lemma x_hilbert_image_grid_spec n : hilbert_image_grid M n = shift (morg M) (rel_grid (all_false n n) (mps M)).
  Proof. apply hilbert_image_grid_spec, Hps. Qed.
  Lemma x_sub_border_grid_translates d subs idx : Forall (fun i => (i < length (over_sampled_grid M subs))%nat) idx ->
    sub_border_grid (translate d M) subs idx = shift d (sub_border_grid M subs idx).
  Proof. apply sub_border_grid_translates, Hps. Qed.
  Lemma x_derive_grid_all_false_spec : derive_grid_all_false M = shift (morg M) (rel_grid (all_false (rows (mk M)) (cols (mk M))) (mps M)).
  Proof. apply derive_grid_all_false_spec, Hps. Qed.
  Lemma x_blurring_grid_from_spec bl : blurring_grid_from bl M = shift (morg M) (rel_grid (bl (mk M)) (mps M)).
  Proof. apply blurring_grid_from_spec, Hps. Qed.
  Lemma x_padded_grid_from_spec kh kw :
    padded_grid_from M kh kw = shift (morg M) (rel_grid (all_false (rows (mk M) + kh - 1) (cols (mk M) + kw - 1)) (mps M)).
  Proof. apply padded_grid_from_spec, Hps. Qed.
  Lemma x_subtracted_grid_spec off :
    subtracted_grid M off = shift (psub (morg M) off) (rel_grid (mk M) (mps M)) /\ subtracted_grid M off = from_mask (subtracted_mask M off).
  Proof. apply subtracted_grid_spec, Hps. Qed.
  Lemma x_sub_border_grid_spec subs idx : sub_border_grid M subs idx = gather zpt (shift (morg M) (rel_over (mk M) (mps M) subs)) idx.
  Proof. apply sub_border_grid_spec, Hps. Qed.
End ExportSpecM.
Section ExportSpecPos.
  Variables (M : RM) (HY : 0 < fst (mps M)) (HX : 0 < snd (mps M)).
  Let Hpos : ps_pos (mps M) := conj HY HX.
  Lemma x_overlay_spec sy sx : (0 < sy)%Z -> (0 < sx)%Z -> overlay M sy sx = rshift (morg M) (rel_overlay (mk M) (mps M) sy sx).
  Proof. apply overlay_spec, Hpos. Qed.
  Lemma x_radial_projected_from_a_spec cssn c ss rm :
    radial_projected_from_a cssn M c ss rm = shift (morg M) (rel_radial_a cssn (rows (mk M)) (cols (mk M)) (mps M) (psub c (morg M)) ss rm).
  Proof. apply radial_projected_from_a_spec, Hpos. Qed.
  Lemma x_radial_projected_from_spec c ss rm :
    radial_projected_from M c ss rm = shift (morg M) (rel_radial (rows (mk M)) (cols (mk M)) (mps M) (psub c (morg M)) ss rm).
  Proof. apply radial_projected_from_spec, Hpos. Qed.
End ExportSpecPos.
Lemma x_interior_rel_grid m (ps : RP) : 0 < fst ps -> 0 < snd ps ->
  interior (rel_grid m ps) =
  match bbox m with Some (y0, y1, x0, x1) => Some (IZR (y1 - y0) * fst ps, IZR (x1 - x0) * snd ps) | None => None end.
Proof. intros A B. apply interior_rel_grid. split; assumption. Qed.
Lemma x_rect_mesh_grid_spec (r : @rmesh ROps) : fst (r_ps r) <> 0 -> snd (r_ps r) <> 0 ->
  rect_mesh_grid r = shift (r_org r) (rel_grid (all_false (fst (r_shape r)) (snd (r_shape r))) (r_ps r)).
Proof. intros A B. apply rect_mesh_grid_spec. split; assumption. Qed.
Lemma x_rel_radial_a_points (cssn : RP) H W (ps r : RP) ss rm p : 0 < fst ps -> 0 < snd ps ->
  fst cssn * fst cssn + snd cssn * snd cssn = 1 ->
  In p (rel_radial_a cssn H W ps r ss rm) ->
  exists i, (0 <= i)%Z /\ p = (fst r + IZR i * snd (rel_radial_scale H W ps r) * snd cssn, snd r + IZR i * snd (rel_radial_scale H W ps r) * fst cssn)
            /\ radius r p = IZR i * snd (rel_radial_scale H W ps r).
Proof. intros A B. apply rel_radial_a_points. split; assumption. Qed.
Lemma x_dataset_grid_spec (ds : @imaging ROps) : fst (mps (i_data ds)) <> 0 -> snd (mps (i_data ds)) <> 0 ->
  dataset_grid ds = shift (morg (i_data ds)) (rel_grid (mk (i_data ds)) (mps (i_data ds))).
Proof. intros A B. apply dataset_grid_spec. split; assumption. Qed.
