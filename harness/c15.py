"""C15 -- preloaded and cached intermediate results never change inversion outputs."""
import itertools, pickle
import numpy as np
from fractions import Fraction
from harness.common import cz, cq, cnat, cbool, clist, copt, import_aa, frac, call_res

ID = "C15"
GEN = []
PROPS = "Props/C15.v"
COQ_CHECK = ("Model.C15", "check")
COQ_FALLBACK = None
COQ_IMPORTS = ""
SHARD = 12
RULE = ("aa.Inversion(dataset, linear_obj_list, settings, preloads=Preloads(...)) against the same call without preloads. Datasets: "
        "masks with 3-10 unmasked pixels of any shape in 4x4..6x6 frames, signed integer data, noise in {1/2,1,2,4}, signed integer "
        "PSFs 1x1/1x3/3x1/3x3 (not normalised); 1-4 linear objects in every order mixing rectangular mappers (mesh 2x2..3x3, sub-size "
        "1/2, Constant regularization of several coefficients or none) and function lists (1-2 columns, with / without "
        "operated_mapping_matrix_override, with / without regularization); both formalisms (settings.use_w_tilde and the Preloads "
        "use_w_tilde slot), both solvers, default and dyadic diagonal term. 'hist' cases: a random subset of the 11 consulted slots "
        "filled from a separate fresh inversion, 1-4 successive inversions sharing the Preloads object, each reading a random "
        "sequence of 16 attributes (curvature_matrix before and after curvature_reg_matrix included); outputs, oracle tables and the "
        "final content of every slot go to Coq. 'subsets' cases (Python level): ALL subsets of the available slots x 2 inversions, "
        "byte fingerprints of every preloaded array. 'noise' cases: a preloaded w_tilde whose noise_map_value differs. "
        "Non-trivial = at least one slot filled and at least one mapper; distinct = distinct JSON input.")
EXHAUSTIVE = {"quick": "per 'subsets' case: all subsets of the slots available for that object mix (up to 2^10), 2 inversions each",
              "thorough": "per 'subsets' case: all subsets of the slots available for that object mix (up to 2^10), 3 inversions each"}
TRUSTED = ["hand-written Gallina model coq/Model/C15.v (slot look-ups, cache, references/aliases into the Preloads object, in-place "
           "statements) tied to /repo by this correspondence run: the model is executed at Q with dense reference semantics of the "
           "numeric kernels (C = convolver applied to the identity, W = P + P^T expanded from the w-tilde triple); the comparison is "
           "evaluated inside Coq by vm_compute",
           "oracle tables (execution device only): reconstruction, log det of the curvature-reg matrix and of the regularization matrix "
           "are looked up by their computed arguments in tables recorded from a separate inversion without preloads",
           "Python reference semantics (attribute = reference; numpy slice assignment and += write the referenced array)",
           "doubles: inputs are small integers / dyadic rationals, so data vector and curvature matrix are exact; quantities involving "
           "1e-8 / 1e-3 constants or a linear solve are compared with relative tolerance 1e-9"]
ASSUMPTIONS = ["slot values are those a fresh inversion of the same class computes from the identical dataset and objects",
               "imaging inversions only (the interferometer classes consult the same AbstractInversion slots; not exercised)",
               "kernel identities F_wtilde = F_mapping etc. are C04's; here they are hypotheses of the cross-formalism theorem and "
               "checked numerically"]

SLOTS = ["w_tilde", "operated_mapping_matrix", "linear_func_operated_mapping_matrix_dict", "data_linear_func_matrix_dict",
         "mapper_operated_mapping_matrix_dict", "curvature_matrix", "data_vector_mapper", "curvature_matrix_mapper_diag",
         "regularization_matrix", "log_det_regularization_matrix_term"]
ATTR = {"QLf": "linear_func_operated_mapping_matrix_dict", "QMomm": "mapper_operated_mapping_matrix_dict",
        "QOmm": "operated_mapping_matrix", "QDv": "data_vector", "QCurv": "curvature_matrix", "QReg": "regularization_matrix",
        "QRegRed": "regularization_matrix_reduced", "QCrm": "curvature_reg_matrix", "QCrmRed": "curvature_reg_matrix_reduced",
        "QRec": "reconstruction", "QRecRed": "reconstruction_reduced", "QMapped": "mapped_reconstructed_data",
        "QRegTerm": "regularization_term", "QLdc": "log_det_curvature_reg_matrix_term", "QLdr": "log_det_regularization_matrix_term"}
KIND = {"QLf": "L", "QMomm": "L", "QOmm": "M", "QDv": "V", "QCurv": "M", "QReg": "M", "QRegRed": "M", "QCrm": "M", "QCrmRed": "M",
        "QRec": "RV", "QRecRed": "RV", "QMapped": "RV", "QRegTerm": "RT", "QLdc": "RT", "QLdr": "RT"}
STD = ["QDv", "QCurv", "QReg", "QCrm", "QCurv", "QRec", "QMapped", "QRegTerm", "QLdc", "QLdr", "QOmm", "QRecRed", "QCrmRed",
       "QRegRed", "QLf", "QMomm"]

# ----------------------------------------------------------------------------------------------- generators
PSFS = [[[1]], [[2]], [[1, 2, -1]], [[1], [2], [1]], [[0, 1, 0], [1, 2, 1], [0, -1, 0]], [[1, 0, -1], [2, 1, 0], [0, 1, 1]]]
MIXES = ["m", "mm", "mf", "fm", "mfm", "fmf", "mff", "mfmf", "f", "ff", "mmm"]

def gen_base(rng, mix=None):
    H, W = rng.randint(4, 6), rng.randint(4, 6)
    cells = [(y, x) for y in range(1, H - 1) for x in range(1, W - 1)]
    k = rng.randint(3, min(10, len(cells)))
    un = set(rng.sample(cells, k))
    mask = [[(y, x) not in un for x in range(W)] for y in range(H)]
    data = [[rng.randint(-3, 6) for _ in range(W)] for _ in range(H)]
    noise = [[rng.choice(["1/2", "1", "2", "4"]) for _ in range(W)] for _ in range(H)]
    mix = mix or rng.choice(MIXES)
    objs = []
    for c in mix:
        if c == "m":
            objs.append({"k": "m", "shape": rng.choice([[2, 2], [2, 3], [3, 2], [3, 3], [3, 3]]), "sub": rng.choice([1, 1, 2]),
                         "coef": rng.choice(["1", "1", "2", "1/2", None])})
        else:
            objs.append({"k": "f", "p": rng.choice([1, 2]), "seed": rng.randrange(10 ** 6), "ovr": rng.random() < 0.3,
                         "coef": rng.choice([None, None, None, "1"])})
    return {"mask": mask, "data": data, "noise": noise, "psf": rng.choice(PSFS), "objs": objs,
            "use_w_tilde": rng.random() < 0.7, "pos": rng.random() < 0.4, "eps": rng.choice([None, "1/1024", "1/4"])}

def gen_inputs(tier, rng):
    big = tier == "thorough"
    # the defect witness of fixes/C15_mapping_data_vector_mapper.md stays in the stream
    yield {"op": "hist", "mask": [[True] * 4, [True, False, False, True], [True, False, False, True], [True] * 4],
           "data": [[0, 1, 2, 3], [4, 5, 6, 7], [8, 9, 10, 11], [12, 13, 14, 15]], "noise": [["1"] * 4] * 4, "psf": [[1]],
           "objs": [{"k": "m", "shape": [2, 2], "sub": 1, "coef": "1"}, {"k": "f", "p": 1, "seed": 1, "ovr": False, "coef": None}],
           "use_w_tilde": False, "pos": False, "eps": None, "slots": ["data_vector_mapper"], "pre_use_wt": None,
           "hist": [["QDv", "QRec"], ["QDv", "QRec"]]}
    for i in range(420 if big else 64):
        b = gen_base(rng, MIXES[i % len(MIXES)] if i < 2 * len(MIXES) else None)
        b["op"] = "hist"
        r = rng.random()
        b["slots"] = ([s for s in SLOTS if rng.random() < 0.5] if r < 0.6 else
                      [rng.choice(SLOTS)] if r < 0.8 else list(SLOTS) if r < 0.9 else [])
        b["pre_use_wt"] = rng.choice([None, None, True, False])
        hist = []
        for _ in range(rng.randint(1, 4)):
            if rng.random() < 0.5: qs = list(STD)
            else:
                qs = [rng.choice(list(ATTR)) for _ in range(rng.randint(1, 8))]
            hist.append(qs)
        if rng.random() < 0.5 and len(hist) > 1: hist[1] = list(hist[0])
        b["hist"] = hist
        yield b
    # directed: ONE regularized linear object (the only configuration in which curvature_reg_matrix adds the
    # regularization matrix IN PLACE into the array curvature_matrix returned) with the curvature matrix preloaded
    for i in range(40 if big else 8):
        b = gen_base(rng, "m")
        b["objs"][0]["coef"] = rng.choice(["1", "2", "1/2"])
        b["op"] = "hist"; b["use_w_tilde"] = bool(i % 2); b["pre_use_wt"] = None
        b["slots"] = ["curvature_matrix"] + [s for s in SLOTS if s != "curvature_matrix" and rng.random() < 0.3]
        b["hist"] = [list(STD), list(STD)] if i % 4 < 2 else [["QCrm", "QCurv", "QRec"], ["QCrm"], ["QCurv", "QCrm", "QLdc"]]
        yield b
    for i in range(28 if big else 5):
        b = gen_base(rng, ["mfmf", "mf", "mm", "fm", "m", "mff", "fmf"][i % 7])
        b["op"] = "subsets"; b["k"] = 3 if big else 2
        b["use_w_tilde"] = bool(i % 2 == 0) if i < 4 else b["use_w_tilde"]
        yield b
    for i in range(40 if big else 6):
        b = gen_base(rng, ["m", "mf", "f", "mm"][i % 4])
        b["op"] = "noise"; b["pre_use_wt"] = rng.choice([None, True, False]); b["bad"] = rng.random() < 0.7
        yield b

# ----------------------------------------------------------------------------------------------- building the objects
def build(inp):
    aa = import_aa()
    m = aa.Mask2D(mask=np.array(inp["mask"], dtype=bool), pixel_scales=1.0)
    noise = np.array([[float(Fraction(v)) for v in r] for r in inp["noise"]])
    ds = aa.Imaging(data=aa.Array2D.no_mask(values=np.array(inp["data"], dtype=float), pixel_scales=1.0),
                    noise_map=aa.Array2D.no_mask(values=noise, pixel_scales=1.0),
                    psf=aa.Kernel2D.no_mask(values=np.array(inp["psf"], dtype=float), pixel_scales=1.0, normalize=False),
                    use_normalized_psf=False).apply_mask(mask=m)
    npix = int(np.sum(~np.array(inp["mask"], dtype=bool)))
    grid_f = aa.Grid2D.from_mask(mask=m)
    objs = []
    for o in inp["objs"]:
        reg = None if o["coef"] is None else aa.reg.Constant(coefficient=float(Fraction(o["coef"])))
        if o["k"] == "m":
            os_ = aa.OverSamplerUniform(mask=m, sub_size=o["sub"])
            grid = os_.over_sampled_grid
            mesh = aa.Mesh2DRectangular.overlay_grid(shape_native=tuple(o["shape"]), grid=grid)
            mg = aa.MapperGrids(mask=m, source_plane_data_grid=grid, source_plane_mesh_grid=mesh)
            objs.append(aa.MapperRectangular(mapper_grids=mg, over_sampler=os_, border_relocator=None, regularization=reg))
        else:
            r = np.random.RandomState(o["seed"])
            mm = r.randint(-2, 4, size=(npix, o["p"])).astype(float)
            ovr = r.randint(-2, 4, size=(npix, o["p"])).astype(float) if o["ovr"] else None
            objs.append(aa.m.MockLinearObjFuncList(parameters=o["p"], grid=grid_f, mapping_matrix=mm, regularization=reg,
                                                   operated_mapping_matrix_override=ovr))
    eps = None if inp["eps"] is None else float(Fraction(inp["eps"]))
    def settings():
        return aa.SettingsInversion(use_w_tilde=inp["use_w_tilde"], use_positive_only_solver=inp["pos"],
                                    no_regularization_add_to_curvature_diag_value=eps)
    return aa, ds, objs, settings

def new_w_tilde(aa, ds, noise_value=None):
    """a WTildeImaging built the way Preloads.set_w_tilde_imaging builds it (a separate object from dataset.w_tilde)"""
    from autoarray.inversion.inversion.imaging import inversion_imaging_util
    from autoarray.dataset.imaging.w_tilde import WTildeImaging
    pre, idx, ln = inversion_imaging_util.w_tilde_curvature_preload_imaging_from(
        noise_map_native=np.array(ds.noise_map.native), kernel_native=np.array(ds.psf.native),
        native_index_for_slim_index=np.array(ds.mask.derive_indexes.native_for_slim))
    return WTildeImaging(curvature_preload=pre, indexes=idx.astype("int"), lengths=ln.astype("int"),
                         noise_map_value=ds.noise_map[0] if noise_value is None else noise_value)

def wt_chosen(inp, pre_use_wt):
    """factory.inversion_imaging_from, from the INPUT"""
    if all(o["k"] == "f" for o in inp["objs"]): u = False
    elif pre_use_wt is not None: u = pre_use_wt
    else: u = inp["use_w_tilde"]
    return u and inp["use_w_tilde"]

def slot_values(aa, ds, objs, settings, inp, pre_use_wt, names):
    """values of the named slots computed by a separate fresh inversion of the class the factory will choose"""
    inv0 = aa.Inversion(dataset=ds, linear_obj_list=objs, settings=settings(), preloads=aa.Preloads(use_w_tilde=pre_use_wt))
    has_f = any(o["k"] == "f" for o in inp["objs"]); has_m = any(o["k"] == "m" for o in inp["objs"])
    wt = wt_chosen(inp, pre_use_wt)
    total = sum(o.params for o in objs)
    out = {}
    for s in names:
        if s == "w_tilde": v = new_w_tilde(aa, ds)
        elif s == "data_vector_mapper":
            if not has_m: continue
            v = inv0._data_vector_mapper
        elif s == "curvature_matrix_mapper_diag":
            if not has_m: continue
            # the mapping class never consults this slot on the way to an output: any array will do there
            v = inv0._curvature_matrix_mapper_diag if wt else np.full((total, total), 7.0)
        elif s in ("linear_func_operated_mapping_matrix_dict", "data_linear_func_matrix_dict"):
            if not has_f: continue
            v = dict(getattr(inv0, s))
        elif s == "mapper_operated_mapping_matrix_dict":
            if not has_m: continue
            v = dict(getattr(inv0, s))
        elif s == "log_det_regularization_matrix_term":
            r = call_res(lambda: inv0.log_det_regularization_matrix_term)
            if r[0] != "ok": continue
            v = float(r[1])
        else:
            v = np.array(getattr(inv0, s), dtype=float)
        out[s] = v
    return out

def arrays_of(v):
    if isinstance(v, dict): return list(v.values())
    if hasattr(v, "curvature_preload"): return [v.curvature_preload, v.indexes, v.lengths, np.array([v.noise_map_value])]
    if isinstance(v, float): return [np.array([v])]
    return [v]
def fingerprint(v):
    return [(np.asarray(a).shape, str(np.asarray(a).dtype), np.asarray(a).tobytes()) for a in arrays_of(v)]

# ----------------------------------------------------------------------------------------------- Coq printing
def qm(a): return clist([clist([cq(frac(x)) for x in r]) for r in np.asarray(a, dtype=float).reshape(len(a), -1)]) if len(a) else "[]"
def qv(a): return clist([cq(frac(x)) for x in np.asarray(a, dtype=float).ravel()])
def cresq(r, f): return f"(Ok {f(r[1])})" if r[0] == "ok" else f"(Raise {r[1]})"

def observe(inv, q):
    k = KIND[q]
    if k in ("RV", "RT"):
        r = call_res(lambda: getattr(inv, ATTR[q]))
        if r[0] == "ok": r = ("ok", np.array(r[1], dtype=float).copy())
        return (k, r)
    v = getattr(inv, ATTR[q])
    if k == "L": return (k, [np.array(x, dtype=float).copy() for x in v.values()])
    return (k, np.array(v, dtype=float).copy())

def cpval(o):
    k, v = o
    if k == "M": return f"(@PM Q {qm(v)})"
    if k == "V": return f"(@PV Q {qv(v)})"
    if k == "L": return f"(@PL Q {clist([qm(x) for x in v])})"
    if k == "RV": return f"(@PRV Q {cresq(v, qv)})"
    return f"(@PRT Q {cresq(v, lambda x: cq(frac(x)))})"
def couts(vs): return "(Ok " + clist([cpval(o) for o in vs]) + ")"

def jval(o):
    k, v = o
    if k in ("RV", "RT"): return [k, v[0], (np.asarray(v[1]).tolist() if v[0] == "ok" else v[1])]
    if k == "L": return [k, [x.tolist() for x in v]]
    return [k, v.tolist()]

def same(a, b, tol=1e-9):
    (ka, va), (kb, vb) = a, b
    if ka != kb: return False
    if ka in ("RV", "RT"):
        if va[0] != vb[0]: return False
        if va[0] != "ok": return va[1] == vb[1]
        va, vb = va[1], vb[1]
    if ka == "L":
        return len(va) == len(vb) and all(same(("M", x), ("M", y)) for x, y in zip(va, vb))
    va, vb = np.asarray(va, dtype=float), np.asarray(vb, dtype=float)
    return va.shape == vb.shape and bool(np.all(np.abs(va - vb) <= tol * (1 + np.abs(vb))))

def dense_w(w, npix):
    W = np.zeros((npix, npix)); k = 0
    for i in range(npix):
        for _ in range(int(w.lengths[i])):
            j = int(w.indexes[k]); v = float(w.curvature_preload[k]); k += 1
            if i == j: W[i, i] += 2 * v
            else: W[i, j] += v; W[j, i] += v
    return W
def cwt(w, npix): return f"{{| wt_w := {qm(dense_w(w, npix))}; wt_nv := {cq(frac(w.noise_map_value))} |}}"

def cstore(pre, npix):
    def om(v): return "None" if v is None else f"(Some {qm(v)})"
    def ol(v): return "None" if v is None else "(Some " + clist([qm(x) for x in v.values()]) + ")"
    return ("{| s_use_wt := " + copt(pre.use_w_tilde, cbool) + "; s_wt := " + ("None" if pre.w_tilde is None else f"(Some {cwt(pre.w_tilde, npix)})")
            + "; s_omm := " + om(pre.operated_mapping_matrix) + "; s_curv := " + om(pre.curvature_matrix)
            + "; s_cmd := " + om(pre.curvature_matrix_mapper_diag) + "; s_reg := " + om(pre.regularization_matrix)
            + "; s_dvm := " + ("None" if pre.data_vector_mapper is None else f"(Some {qv(pre.data_vector_mapper)})")
            + "; s_lf := " + ol(pre.linear_func_operated_mapping_matrix_dict) + "; s_dlf := " + ol(pre.data_linear_func_matrix_dict)
            + "; s_momm := " + ol(pre.mapper_operated_mapping_matrix_dict)
            + "; s_ldr := " + ("None" if pre.log_det_regularization_matrix_term is None else f"(Some {cq(frac(pre.log_det_regularization_matrix_term))})")
            + " |}")

def cinput(aa, ds, objs, settings, inp, npix):
    from autoarray.inversion.pixelization.mappers.abstract import AbstractMapper
    los = []
    for o in objs:
        ism = isinstance(o, AbstractMapper)
        ovr = o.operated_mapping_matrix_override
        reg = None if o.regularization is None else np.array(o.regularization_matrix, dtype=float)
        los.append(f"{{| lo_mapper := {cbool(ism)}; lo_mm := {qm(np.array(o.mapping_matrix, dtype=float))}; "
                   f"lo_ovr := {'None' if ovr is None else '(Some ' + qm(ovr) + ')'}; lo_p := {cnat(o.params)}; "
                   f"lo_reg := {'None' if reg is None else '(Some ' + qm(reg) + ')'} |}}")
    st = settings()
    dsw = new_w_tilde(aa, ds)
    return (f"{{| in_ds := {{| ds_d := {qv(np.array(ds.data))}; ds_n := {qv(np.array(ds.noise_map))}; ds_wt := {cwt(dsw, npix)} |}}; "
            f"in_objs := {clist(los)}; in_use_wt := {cbool(inp['use_w_tilde'])}; "
            f"in_eps := {cq(frac(st.no_regularization_add_to_curvature_diag_value))} |}}")

def oracle(aa, ds, objs, settings, pre_use_wt):
    inv = aa.Inversion(dataset=ds, linear_obj_list=objs, settings=settings(), preloads=aa.Preloads(use_w_tilde=pre_use_wt))
    crm = np.array(inv.curvature_reg_matrix, dtype=float).copy(); dv = np.array(inv.data_vector, dtype=float).copy()
    rec = call_res(lambda: np.array(inv.reconstruction, dtype=float))
    solve = f"(({qm(crm)}, {qv(dv)}), {cresq(rec, qv)})"
    ldc, ldr = [], []
    from autoarray.inversion.regularization.abstract import AbstractRegularization
    if inv.has(cls=AbstractRegularization):
        crr = np.array(inv.curvature_reg_matrix_reduced, dtype=float)
        r = call_res(lambda: float(inv.log_det_curvature_reg_matrix_term))
        ldc.append(f"({qm(crr)}, {cresq(r, lambda x: cq(frac(x)))})")
        rr = np.array(inv.regularization_matrix_reduced, dtype=float)
        r = call_res(lambda: float(inv.log_det_regularization_matrix_term))
        ldr.append(f"({qm(rr)}, {cresq(r, lambda x: cq(frac(x)))})")
    return f"{{| or_solve := [{solve}]; or_ldc := {clist(ldc)}; or_ldr := {clist(ldr)} |}}"

# ----------------------------------------------------------------------------------------------- cases
def run_hist(inp):
    aa, ds, objs, settings = build(inp)
    npix = ds.data.shape[0]
    pre_use_wt = inp.get("pre_use_wt")
    wt = wt_chosen(inp, pre_use_wt)
    has_f = any(o["k"] == "f" for o in inp["objs"]); nm = sum(1 for o in inp["objs"] if o["k"] == "m")
    vals = slot_values(aa, ds, objs, settings, inp, pre_use_wt, inp["slots"])
    pre = aa.Preloads(use_w_tilde=pre_use_wt, **vals)
    pre_coq = cstore(pre, npix)
    C = ds.convolver.convolve_mapping_matrix(mapping_matrix=np.eye(npix))
    hist = inp["hist"]
    fresh_inv = aa.Inversion(dataset=ds, linear_obj_list=objs, settings=settings())
    fresh = [observe(fresh_inv, q) for q in hist[0]]
    before = {s: fingerprint(v) for s, v in vals.items()}
    outs, py_ok, why = [], True, ""
    for qs in hist:
        inv = aa.Inversion(dataset=ds, linear_obj_list=objs, settings=settings(), preloads=pre)
        o = [observe(inv, q) for q in qs]
        outs.append(o)
        if qs == hist[0] and not all(same(a, b) for a, b in zip(o, fresh)):
            py_ok = False; why = "outputs differ from the inversion without preloads"
    # the only array an inversion may write in place: data_vector_mapper, by the w-tilde class with a function object
    allowed = {"data_vector_mapper"} if (wt and has_f) else set()
    for s, v in vals.items():
        if fingerprint(v) != before[s] and s not in allowed:
            py_ok = False; why = f"preloaded {s} was modified in place"
    coq = (f"(KHist {qm(C)} {oracle(aa, ds, objs, settings, pre_use_wt)} {cinput(aa, ds, objs, settings, inp, npix)} {pre_coq} "
           f"{clist([clist(qs) for qs in hist])} {couts(fresh)} {clist([couts(o) for o in outs])} {cstore(pre, npix)})")
    kind = ("wtilde" if wt else "mapping") + ":" + "".join(o["k"] for o in inp["objs"]) + f":{len(vals)}slots:{len(hist)}inv"
    return {"coq": coq, "out": {"fresh": [jval(x) for x in fresh][:4], "first": [jval(x) for x in outs[0]][:4], "why": why},
            "py_ok": py_ok, "kind": kind, "nontrivial": bool(vals) and nm > 0}

def run_subsets(inp):
    import copy
    aa, ds, objs, settings = build(inp)
    wt = wt_chosen(inp, None)
    has_f = any(o["k"] == "f" for o in inp["objs"]); nm = sum(1 for o in inp["objs"] if o["k"] == "m")
    vals = slot_values(aa, ds, objs, settings, inp, None, SLOTS)
    names = list(vals)
    fresh_inv = aa.Inversion(dataset=ds, linear_obj_list=objs, settings=settings())
    fresh = [observe(fresh_inv, q) for q in STD]
    allowed = {"data_vector_mapper"} if (wt and has_f) else set()
    bad = None; n = 0
    for r in range(len(names) + 1):
        for sub in itertools.combinations(names, r):
            mine = {}
            for s in sub:     # private copies: an in-place completion by one subset must not leak into the next
                v = vals[s]
                mine[s] = ({k: np.array(a).copy() for k, a in v.items()} if isinstance(v, dict) else
                           new_w_tilde(aa, ds) if s == "w_tilde" else v if isinstance(v, float) else np.array(v).copy())
            pre = aa.Preloads(**mine)
            before = {s: fingerprint(v) for s, v in mine.items()}
            for k in range(inp["k"]):
                inv = aa.Inversion(dataset=ds, linear_obj_list=objs, settings=settings(), preloads=pre)
                o = [observe(inv, q) for q in STD]; n += 1
                d = [q for q, a, b in zip(STD, o, fresh) if not same(a, b)]
                if d and bad is None: bad = {"subset": list(sub), "inversion": k, "differs": d}
            for s, v in mine.items():
                if fingerprint(v) != before[s] and s not in allowed and bad is None:
                    bad = {"subset": list(sub), "modified_in_place": s}
    kind = "subsets:" + ("wtilde" if wt else "mapping") + ":" + "".join(o["k"] for o in inp["objs"])
    return {"coq": None, "py_ok": bad is None, "out": {"slots": names, "inversions": n, "failure": bad}, "kind": kind,
            "nontrivial": nm > 0}

def run_noise(inp):
    aa, ds, objs, settings = build(inp)
    npix = ds.data.shape[0]
    pre_use_wt = inp.get("pre_use_wt")
    nv = float(ds.noise_map[0]) * (3.0 if inp["bad"] else 1.0)
    pre = aa.Preloads(use_w_tilde=pre_use_wt, w_tilde=new_w_tilde(aa, ds, noise_value=nv))
    r = call_res(lambda: aa.Inversion(dataset=ds, linear_obj_list=objs, settings=settings(), preloads=pre))
    raised = r[0] != "ok"
    if raised and r[1] != "InversionException": raise AssertionError("unexpected exception class " + r[1])
    coq = f"(KNoise {cinput(aa, ds, objs, settings, inp, npix)} {cstore(pre, npix)} {cbool(raised)})"
    return {"coq": coq, "out": {"raised": raised}, "kind": "noise:" + ("bad" if inp["bad"] else "good"), "nontrivial": inp["bad"]}

def run_case(inp):
    if inp["op"] == "hist": return run_hist(inp)
    if inp["op"] == "subsets": return run_subsets(inp)
    return run_noise(inp)
