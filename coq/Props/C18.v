From PAV Require Import Model.C18.
