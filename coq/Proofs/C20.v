(* C20 -- lemmas about the triangle model (coq/Model/C20.v). *)
From Coq Require Import ZArith List Bool Reals Lra Lia Permutation.
From PAV Require Import Base.Res Base.Check Base.NumOps Base.Sum Model.C20.
Import ListNotations.

Lemma up_sample_length {O : NumOps} (ts : list (@tri O)) :
  length (up_sample_triangles ts) = (4 * length ts)%nat.
Proof. unfold up_sample_triangles. rewrite !app_length, !map_length. lia. Qed.
