(* C08x -- extension of Model/C08.v (phase 3): executable definitions only.

   (a) MODEL of the parts of the anchored files that Model/C08.v leaves out:
       * the non-finite results of numpy's divisions: [xval] = a finite number, +inf, -inf or nan;
         signal_to_noise_map = data / noise_map followed by  s[s < 0] = 0  on EVERY stored pixel (the code does
         not mask this map), and np.divide(residual_map, data, ...) of the residual-flux-fraction functions
         (fit_util.py, util level, and FitDataset.residual_flux_fraction_map);
       * the noise-covariance branch of FitDataset.chi_squared:
         fit_util.chi_squared_with_noise_covariance_from = residual_map @ C_inv @ residual_map  (evaluated left to
         right: a vector-matrix product, then a dot product) with C_inv = dataset.noise_covariance_matrix_inv,
         and the likelihood / evidence composition on top of it (the noise normalization is still that of the
         noise map: this is what the code does);
       * the complex (interferometer) variants of fit_util.py and FitInterferometer (fit_interferometer.py): a
         complex number is a pair (re, im); mask = all False; chi-squared = sum(re part) + sum(im part);
         reduced chi-squared divides by the number of VISIBILITIES (not of real components).
   (b) SPECIFICATION: closed forms that never mention the code's evaluation order.
   (c) correspondence: [case] (wraps [case] of Model/C08.v, which it shadows), [agreex], [spec_okx], [check]. *)
From Coq Require Import ZArith QArith Qabs List Bool Arith.
From PAV Require Import Base.NumOps Base.Res Base.Check.
From PAV Require Export Model.C08.
Import ListNotations.
Local Open Scope nat_scope.

(* the value of a double division: finite, +inf, -inf, nan *)
Inductive xval (A : Type) : Type := XFin (a : A) | XPInf | XNInf | XNaN.
Arguments XFin {A} _. Arguments XPInf {A}. Arguments XNInf {A}. Arguments XNaN {A}.

Record vfit (A : Type) := {
  vuse_mask : bool;                               (* use_mask_in_fit *)
  vdata : list (A * A); vnoise : list (A * A); vmodel : list (A * A);   (* visibilities (re, im) *)
  vinversion : option (inv A) }.
Arguments vuse_mask {A} _. Arguments vdata {A} _. Arguments vnoise {A} _. Arguments vmodel {A} _.
Arguments vinversion {A} _.

(* the two preloaded quantities the anchored inversion terms look at *)
Record pre (A : Type) := {
  pre_H : option (list (list A));     (* preloads.regularization_matrix *)
  pre_ldr : option A }.               (* preloads.log_det_regularization_matrix_term *)
Arguments pre_H {A} _. Arguments pre_ldr {A} _.

(* ================================================================== (a) the model *)
Section ModelX.
  Context {O : NumOps}.
  Variable tp : T O.    (* 2 * np.pi *)

  (* ---- numpy's a / b on finite doubles *)
  Definition xdiv (a b : T O) : xval (T O) :=
    if eqb O b zero then (if ltb O a zero then XNInf else if ltb O zero a then XPInf else XNaN)
    else XFin (div O a b).
  (* s[s < 0] = 0   (nan < 0 is False) *)
  Definition xclip (x : xval (T O)) : xval (T O) :=
    match x with
    | XFin s => XFin (if ltb O s zero then zero else s)
    | XNInf => XFin zero
    | XPInf => XPInf
    | XNaN => XNaN
    end.
  (* AbstractFit.signal_to_noise_map *)
  Definition fit_signal_to_noise_map_x (f : fit (T O)) : list (xval (T O)) :=
    map xclip (map2 xdiv (fit_data f) (noise f)).
  (* fit_util.residual_flux_fraction_map_from / _with_mask_from *)
  Definition residual_flux_fraction_map_from_x (r d : list (T O)) : list (xval (T O)) := map2 xdiv r d.
  Definition residual_flux_fraction_map_with_mask_from_x (r d : list (T O)) (mk : list bool) : list (xval (T O)) :=
    map2w (XFin zero) xdiv mk r d.
  Definition fit_residual_flux_fraction_map_x (f : fit (T O)) : list (xval (T O)) :=
    if use_mask f then residual_flux_fraction_map_with_mask_from_x (fit_residual_map f) (fit_data f) (mask f)
    else residual_flux_fraction_map_from_x (fit_residual_map f) (fit_data f).

  (* ---- the composition layer of FitDataset, as functions of (chi-squared, noise normalization, inversion) *)
  Definition ll_from (chi nn : T O) : T O := log_likelihood_from chi nn.
  Definition llreg_from (chi nn : T O) (ivo : option (inv (T O))) : option (T O) :=
    match ivo with
    | Some iv => Some (log_likelihood_with_regularization_from chi (regularization_term iv) nn)
    | None => None
    end.
  Definition evidence_from (chi nn : T O) (ivo : option (inv (T O))) : option (T O) :=
    match ivo with
    | Some iv => Some (log_evidence_from chi (regularization_term iv) (log_det_curvature_reg_matrix_term iv)
                                         (log_det_regularization_matrix_term iv) nn)
    | None => None
    end.
  Definition fom_from (chi nn : T O) (ivo : option (inv (T O))) : option (T O) :=
    match ivo with Some _ => evidence_from chi nn ivo | None => Some (ll_from chi nn) end.
  (* chi_squared / int(np.size(mask) - np.sum(mask)) *)
  Definition redchi_from (chi : T O) (npix : nat) : res (T O) :=
    if Nat.eqb npix 0 then Raise OtherException else Ok (div O chi (ofNat npix)).

  (* ---- noise covariance: residual_map @ noise_covariance_matrix_inv @ residual_map *)
  Definition ncols (M : list (list (T O))) : nat := match M with [] => 0 | r :: _ => length r end.
  Definition col (M : list (list (T O))) (j : nat) : list (T O) := map (fun row => nth j row zero) M.
  (* v @ M *)
  Definition vecmat (v : list (T O)) (M : list (list (T O))) : list (T O) :=
    map (fun j => dotT v (col M j)) (seq 0 (ncols M)).
  Definition chi_squared_with_noise_covariance_from (r : list (T O)) (Ci : list (list (T O))) : T O :=
    dotT (vecmat r Ci) r.
  (* FitDataset.chi_squared with dataset.noise_covariance_matrix is not None *)
  Definition cfit_chi_squared (f : fit (T O)) (Ci : list (list (T O))) : T O :=
    chi_squared_with_noise_covariance_from (fit_residual_map f) Ci.
  Definition cfit_npix (f : fit (T O)) : nat := length (mask f) - count_true (mask f).
  Definition cfit_reduced_chi_squared f Ci := redchi_from (cfit_chi_squared f Ci) (cfit_npix f).
  Definition cfit_log_likelihood f Ci := ll_from (cfit_chi_squared f Ci) (fit_noise_normalization tp f).
  Definition cfit_log_likelihood_with_regularization f Ci :=
    llreg_from (cfit_chi_squared f Ci) (fit_noise_normalization tp f) (inversion f).
  Definition cfit_log_evidence f Ci := evidence_from (cfit_chi_squared f Ci) (fit_noise_normalization tp f) (inversion f).
  Definition cfit_figure_of_merit f Ci := fom_from (cfit_chi_squared f Ci) (fit_noise_normalization tp f) (inversion f).

  (* ---- preloads (inversion/abstract.py): a preloaded regularization matrix replaces the block-diagonal assembly
          wherever H is used; a preloaded log-determinant replaces ln det of the reduced H (after the
          has-regularization test) *)
  Definition p_regularization_matrix (p : pre (T O)) (iv : inv (T O)) : list (list (T O)) :=
    match pre_H p with Some H => H | None => regularization_matrix iv end.
  Definition p_curvature_reg_matrix (p : pre (T O)) (iv : inv (T O)) : list (list (T O)) :=
    if negb (has_reg (objs iv)) then curv iv
    else map2 (map2 (add O)) (curv iv) (p_regularization_matrix p iv).
  Definition p_regularization_matrix_reduced p iv := reduce_matrix (objs iv) (p_regularization_matrix p iv).
  Definition p_curvature_reg_matrix_reduced p iv := reduce_matrix (objs iv) (p_curvature_reg_matrix p iv).
  Definition p_regularization_term (p : pre (T O)) (iv : inv (T O)) : T O :=
    if negb (has_reg (objs iv)) then zero
    else dotT (reconstruction_reduced iv) (matvec (p_regularization_matrix_reduced p iv) (reconstruction_reduced iv)).
  Definition p_log_det_curvature_reg_matrix_term (p : pre (T O)) (iv : inv (T O)) : T O :=
    if negb (has_reg (objs iv)) then zero else logdet (p_curvature_reg_matrix_reduced p iv).
  Definition p_log_det_regularization_matrix_term (p : pre (T O)) (iv : inv (T O)) : T O :=
    if negb (has_reg (objs iv)) then zero
    else match pre_ldr p with Some v => v | None => logdet (p_regularization_matrix_reduced p iv) end.

  (* ---- complex variants of fit_util.py *)
  Definition cx : Type := (T O * T O)%type.
  Definition czero : cx := (zero, zero).
  Definition csub (a b : cx) : cx := (sub O (fst a) (fst b), sub O (snd a) (snd b)).
  (* (residual_map.real / noise_map.real) + 1j * (residual_map.imag / noise_map.imag) *)
  Definition normalized_residual_map_complex_from (r n : list cx) : list cx :=
    map2 (fun a b => (div O (fst a) (fst b), div O (snd a) (snd b))) r n.
  Definition chi_squared_map_complex_from (r n : list cx) : list cx :=
    map2 (fun a b => (sq (div O (fst a) (fst b)), sq (div O (snd a) (snd b)))) r n.
  Definition chi_squared_complex_from (cm : list cx) : T O := add O (sumT (map fst cm)) (sumT (map snd cm)).
  Definition noise_normalization_complex_from (n : list cx) : T O :=
    add O (sumT (map (lognorm tp) (map fst n))) (sumT (map (lognorm tp) (map snd n))).

  (* ---- FitInterferometer (mask = np.full(shape=data.shape, fill_value=False)) *)
  Definition vfit_mask (v : vfit (T O)) : list bool := repeat false (length (vdata v)).
  Definition vfit_residual_map (v : vfit (T O)) : list cx :=
    if vuse_mask v then map2w czero csub (vfit_mask v) (vdata v) (vmodel v)
    else map2 csub (vdata v) (vmodel v).
  Definition vfit_normalized_residual_map v := normalized_residual_map_complex_from (vfit_residual_map v) (vnoise v).
  Definition vfit_chi_squared_map v := chi_squared_map_complex_from (vfit_residual_map v) (vnoise v).
  Definition vfit_chi_squared v : T O := chi_squared_complex_from (vfit_chi_squared_map v).
  Definition vfit_noise_normalization v : T O := noise_normalization_complex_from (vnoise v).
  Definition vfit_reduced_chi_squared v :=
    redchi_from (vfit_chi_squared v) (length (vfit_mask v) - count_true (vfit_mask v)).
  Definition vfit_log_likelihood v := ll_from (vfit_chi_squared v) (vfit_noise_normalization v).
  Definition vfit_log_likelihood_with_regularization v :=
    llreg_from (vfit_chi_squared v) (vfit_noise_normalization v) (vinversion v).
  Definition vfit_log_evidence v := evidence_from (vfit_chi_squared v) (vfit_noise_normalization v) (vinversion v).
  Definition vfit_figure_of_merit v := fom_from (vfit_chi_squared v) (vfit_noise_normalization v) (vinversion v).
  (* real and imaginary parts separately: data.real / noise_map.real, negatives set to 0 *)
  Definition vfit_signal_to_noise_map v : list (xval (T O) * xval (T O)) :=
    map2 (fun d n => (xclip (xdiv (fst d) (fst n)), xclip (xdiv (snd d) (snd n)))) (vdata v) (vnoise v).
End ModelX.

(* ================================================================== (b) the specification *)
Section SpecX.
  Context {O : NumOps}.
  Variable tp : T O.

  (* signal to noise: max(0, d / n) for a non-zero noise value; for a zero noise value the sign of the data decides:
     +inf stays, -inf is clipped to 0, 0 / 0 is not a number *)
  Definition s_snr_x (d n : T O) : xval (T O) :=
    if eqb O n zero then (if ltb O zero d then XPInf else if ltb O d zero then XFin zero else XNaN)
    else XFin (maxT zero (div O d n)).
  (* a quotient r / d; for a zero denominator the sign of the numerator decides *)
  Definition s_quot_x (r d : T O) : xval (T O) :=
    if eqb O d zero then (if ltb O zero r then XPInf else if ltb O r zero then XNInf else XNaN)
    else XFin (div O r d).

  (* the composition formulas on top of a chi-squared value and a noise normalization *)
  Definition s_ll_of (chi nn : T O) : T O := opp O (div O (add O chi nn) two).
  Definition s_llreg_of (chi nn : T O) (iv : inv (T O)) : T O :=
    opp O (div O (add O (add O chi (s_regularization_term iv)) nn) two).
  Definition s_evidence_of (chi nn : T O) (iv : inv (T O)) : T O :=
    if has_reg (objs iv)
    then opp O (div O (add O (sub O (add O (add O chi (s_regularization_term iv)) (s_logdet_FH iv)) (s_logdet_H iv)) nn) two)
    else s_ll_of chi nn.
  Definition s_fom_of (chi nn : T O) (ivo : option (inv (T O))) : T O :=
    match ivo with Some iv => s_evidence_of chi nn iv | None => s_ll_of chi nn end.

  (* with preloads: the entries of the regularization matrix in force *)
  Definition s_H_eff (p : pre (T O)) (iv : inv (T O)) (i j : nat) : T O :=
    match pre_H p with Some H => mat_at H i j | None => s_H iv i j end.
  Definition s_FH_eff (p : pre (T O)) (iv : inv (T O)) (i j : nat) : T O := add O (mat_at (curv iv) i j) (s_H_eff p iv i j).
  Definition pre_okb (p : pre (T O)) (iv : inv (T O)) : bool :=
    match pre_H p with Some H => squareb (n_params (objs iv)) H | None => true end.

  (* r^T M r as a double sum *)
  Definition s_quadratic_form (r : list (T O)) (M : list (list (T O))) : T O :=
    let idx := seq 0 (length r) in
    sumT (map (fun i => sumT (map (fun j => mul O (mul O (at_ r i) (mat_at M i j)) (at_ r j)) idx)) idx).
  (* (M N)[i][k] over n inner indices *)
  Definition s_matmul_at (n : nat) (M N : list (list (T O))) (i k : nat) : T O :=
    sumT (map (fun j => mul O (mat_at M i j) (mat_at N j k)) (seq 0 n)).
  Definition s_matvec_at (M : list (list (T O))) (x : list (T O)) (i : nat) : T O :=
    sumT (map (fun j => mul O (mat_at M i j) (at_ x j)) (seq 0 (length x))).
  Definition s_dot (a b : list (T O)) : T O := sumT (map (fun i => mul O (at_ a i) (at_ b i)) (seq 0 (length a))).
  Definition s_chi_squared_cov (f : fit (T O)) (Ci : list (list (T O))) : T O :=
    s_quadratic_form (map (s_residual f) (seq 0 (length (data f)))) Ci.
  (* shapes under which the covariance branch does not raise: slim residuals, a square matrix of that size *)
  Definition cfit_okb (f : fit (T O)) (Ci : list (list (T O))) : bool :=
    fit_okb f && negb (use_mask f) && squareb (length (data f)) Ci.

  (* interferometer: per visibility k and component *)
  Definition vre (l : list (T O * T O)) (k : nat) : T O := fst (nth k l (zero, zero)).
  Definition vim (l : list (T O * T O)) (k : nat) : T O := snd (nth k l (zero, zero)).
  Definition sv_residual (v : vfit (T O)) (k : nat) : T O * T O :=
    (sub O (vre (vdata v) k) (vre (vmodel v) k), sub O (vim (vdata v) k) (vim (vmodel v) k)).
  Definition sv_normres (v : vfit (T O)) (k : nat) : T O * T O :=
    (div O (fst (sv_residual v k)) (vre (vnoise v) k), div O (snd (sv_residual v k)) (vim (vnoise v) k)).
  Definition sv_chi (v : vfit (T O)) (k : nat) : T O * T O := (sq (fst (sv_normres v k)), sq (snd (sv_normres v k))).
  Definition sv_chi_squared (v : vfit (T O)) : T O :=
    sumT (map (fun k => add O (fst (sv_chi v k)) (snd (sv_chi v k))) (seq 0 (length (vdata v)))).
  Definition sv_noise_normalization (v : vfit (T O)) : T O :=
    sumT (map (fun k => add O (lnT O (mul O tp (sq (vre (vnoise v) k)))) (lnT O (mul O tp (sq (vim (vnoise v) k)))))
              (seq 0 (length (vdata v)))).
  Definition vfit_okb (v : vfit (T O)) : bool :=
    Nat.eqb (length (vnoise v)) (length (vdata v)) && Nat.eqb (length (vmodel v)) (length (vdata v)).
  (* the real fit on the 2 n real components (all real parts, then all imaginary parts) *)
  Definition components (l : list (T O * T O)) : list (T O) := map fst l ++ map snd l.
  Definition real_fit_of (v : vfit (T O)) : fit (T O) :=
    {| mask := repeat false (2 * length (vdata v)); use_mask := false; sky := zero;
       data := components (vdata v); noise := components (vnoise v); model := components (vmodel v);
       inversion := vinversion v |}.
End SpecX.

(* ================================================================== (c) correspondence *)
Local Open Scope Q_scope.
(* |a - b| <= 1e-9 * |a|: relative to the scale of the value itself (tiny values are not hidden) *)
Definition rclose (a b : Q) : bool := Qle_bool (Qabs (a - b)) (tol * Qabs a).
Definition xq (e : Q -> Q -> bool) (a b : xval Q) : bool :=
  match a, b with
  | XFin x, XFin y => e x y
  | XPInf, XPInf | XNInf, XNInf | XNaN, XNaN => true
  | _, _ => false
  end.
Definition pq (e : Q -> Q -> bool) (a b : Q * Q) : bool := e (fst a) (fst b) && e (snd a) (snd b).

Record covout := {
  c_cinv : list (list Q);     (* dataset.noise_covariance_matrix_inv as returned by np.linalg.inv (oracle output) *)
  c_chi2 : Q; c_redchi2 : res Q; c_ll : Q; c_llreg : option Q; c_evidence : option Q; c_fom : option Q }.
Record visout := {
  v_residual : list (Q * Q); v_normres : list (Q * Q); v_chimap : list (Q * Q);
  v_chi2 : Q; v_redchi2 : res Q; v_nn : Q; v_ll : Q; v_llreg : option Q; v_evidence : option Q; v_fom : option Q;
  v_snr : list (xval Q * xval Q) }.
Record cutilout := { cu_nres : list (Q * Q); cu_cmap : list (Q * Q); cu_chi2 : Q; cu_nn : Q }.

Inductive case :=
| K0 (k : PAV.Model.C08.case)
(* a fit, with the non-finite values of the two unmasked-by-the-code maps spelled out *)
| KFitX (tbl : list (Q * Q)) (tp : Q) (f : fit Q) (out : fitout) (xrff xsnr : list (xval Q))
(* fit_util.residual_flux_fraction_map_from / _with_mask_from on ndarrays *)
| KUtilX (r d : list Q) (mk : list bool) (xrff xrffw : list (xval Q))
(* a slim fit on a dataset with a noise covariance matrix C *)
| KCov (tbl : list (Q * Q)) (tp : Q) (f : fit Q) (C : list (list Q)) (out : covout)
(* fit_util.chi_squared_with_noise_covariance_from on ndarrays *)
| KUtilCov (r : list Q) (Ci : list (list Q)) (chi : Q)
(* the inversion terms with a Preloads object carrying (any) regularization matrix / log-determinant *)
| KInvP (tbl : list (Q * Q)) (p : pre Q) (iv : inv Q) (out : invout)
(* the same two kinds of case for inputs that are NOT dyadic (production inversions whose curvature matrix and
   reconstruction are computed by the code; float32-typed arrays with more than 24 significant bits; arbitrary doubles):
   double rounding is then visible, every comparison is made within 1e-9 (relative, absolute below 1) *)
| KFitR (tbl : list (Q * Q)) (tp : Q) (f : fit Q) (out : fitout) (xrff xsnr : list (xval Q))
| KInvR (tbl : list (Q * Q)) (iv : inv Q) (out : invout)
(* FitInterferometer *)
| KVis (tbl : list (Q * Q)) (tp : Q) (v : vfit Q) (out : visout)
(* the complex fit_util functions on ndarrays *)
| KUtilC (tbl : list (Q * Q)) (tp : Q) (r n : list (Q * Q)) (out : cutilout).

Definition agree_cov (tbl : list (Q * Q)) (tp : Q) (f : fit Q) (o : covout) : bool :=
  let O := QL tbl in
  let Ci := c_cinv o in
  rclose (@cfit_chi_squared O f Ci) (c_chi2 o) &&
  res_eqb rclose (@cfit_reduced_chi_squared O f Ci) (c_redchi2 o) &&
  close (@cfit_log_likelihood O tp f Ci) (c_ll o) &&
  oq close (@cfit_log_likelihood_with_regularization O tp f Ci) (c_llreg o) &&
  oq close (@cfit_log_evidence O tp f Ci) (c_evidence o) &&
  oq close (@cfit_figure_of_merit O tp f Ci) (c_fom o).

Definition agree_vis (tbl : list (Q * Q)) (tp : Q) (v : vfit Q) (o : visout) : bool :=
  let O := QL tbl in
  list_eqb (pq exact) (@vfit_residual_map O v) (v_residual o) &&
  list_eqb (pq exact) (@vfit_normalized_residual_map O v) (v_normres o) &&
  list_eqb (pq exact) (@vfit_chi_squared_map O v) (v_chimap o) &&
  exact (@vfit_chi_squared O v) (v_chi2 o) &&
  res_eqb rclose (@vfit_reduced_chi_squared O v) (v_redchi2 o) &&
  close (@vfit_noise_normalization O tp v) (v_nn o) &&
  close (@vfit_log_likelihood O tp v) (v_ll o) &&
  oq close (@vfit_log_likelihood_with_regularization O tp v) (v_llreg o) &&
  oq close (@vfit_log_evidence O tp v) (v_evidence o) &&
  oq close (@vfit_figure_of_merit O tp v) (v_fom o) &&
  list_eqb (fun a b => xq exact (fst a) (fst b) && xq exact (snd a) (snd b)) (@vfit_signal_to_noise_map O v) (v_snr o).

Definition agreex (k : case) : bool :=
  match k with
  | K0 k => PAV.Model.C08.agree k
  | KFitX tbl tp f o xrff xsnr =>
      agree_fit tbl tp f o &&
      list_eqb (xq rclose) (@fit_residual_flux_fraction_map_x (QL tbl) f) xrff &&
      list_eqb (xq exact) (@fit_signal_to_noise_map_x (QL tbl) f) xsnr
  | KFitR tbl tp f o xrff xsnr =>
      agree_fit_e close tbl tp f o &&
      list_eqb (xq close) (@fit_residual_flux_fraction_map_x (QL tbl) f) xrff &&
      list_eqb (xq close) (@fit_signal_to_noise_map_x (QL tbl) f) xsnr
  | KInvR tbl iv o => agree_inv_e close tbl iv o
  | KUtilX r d mk xrff xrffw =>
      list_eqb (xq rclose) (@residual_flux_fraction_map_from_x QOps r d) xrff &&
      list_eqb (xq rclose) (@residual_flux_fraction_map_with_mask_from_x QOps r d mk) xrffw
  | KInvP tbl p iv o =>
      let O := QL tbl in
      list_eqb Nat.eqb (@no_regularization_index_list (objs iv)) (o_noreg o) &&
      mq exact (@p_regularization_matrix O p iv) (o_H o) &&
      mq exact (@p_curvature_reg_matrix O p iv) (o_FH o) &&
      mq exact (@p_regularization_matrix_reduced O p iv) (o_Hred o) &&
      mq exact (@p_curvature_reg_matrix_reduced O p iv) (o_FHred o) &&
      lq exact (@reconstruction_reduced O iv) (o_sred o) &&
      exact (@p_regularization_term O p iv) (o_regterm o) &&
      close (@p_log_det_curvature_reg_matrix_term O p iv) (o_ldc o) &&
      close (@p_log_det_regularization_matrix_term O p iv) (o_ldr o)
  | KCov tbl tp f C o => agree_cov tbl tp f o
  | KUtilCov r Ci chi => rclose (@chi_squared_with_noise_covariance_from QOps r Ci) chi
  | KVis tbl tp v o => agree_vis tbl tp v o
  | KUtilC tbl tp r n o =>
      let O := QL tbl in
      list_eqb (pq exact) (@normalized_residual_map_complex_from O r n) (cu_nres o) &&
      list_eqb (pq exact) (@chi_squared_map_complex_from O r n) (cu_cmap o) &&
      exact (@chi_squared_complex_from O (@chi_squared_map_complex_from O r n)) (cu_chi2 o) &&
      close (@noise_normalization_complex_from O tp n) (cu_nn o)
  end.

(* ---- the specification applied to the implementation's output (never calls the model) *)
Definition xmap_ok (len : nat) (g : nat -> xval Q) (e : Q -> Q -> bool) (out : list (xval Q)) : bool :=
  Nat.eqb (length out) len && all_idx len (fun i => xq e (g i) (nth i out (XFin 12345))).

(* the oracle contract of np.linalg.inv, exercised: Ci . C = identity within 1e-9 *)
Definition inverse_ok (n : nat) (Ci C : list (list Q)) : bool :=
  all_idx n (fun i => all_idx n (fun k =>
    Qle_bool (Qabs (@s_matmul_at QOps n Ci C i k - (if Nat.eqb i k then 1 else 0))) tol)).

Definition spec_cov (tbl : list (Q * Q)) (tp : Q) (f : fit Q) (C : list (list Q)) (o : covout) : bool :=
  let O := QL tbl in
  let n := length (data f) in
  let Ci := c_cinv o in
  (@cfit_okb O f Ci && @noise_positiveb O f && @fit_inv_okb O f && squareb n C) &&
  (inverse_ok n Ci C &&
   (let chi := @s_chi_squared_cov O f Ci in
    let nn := @s_noise_normalization O tp f in
    rclose chi (c_chi2 o) &&
    match c_redchi2 o with
    | Ok v => negb (Nat.eqb n 0) && rclose (Qdiv chi (inject_Z (Z.of_nat n))) v
    | Raise _ => Nat.eqb n 0
    end &&
    close (- ((chi + nn) / 2)) (c_ll o) &&
    oq close (option_map (fun iv => - ((chi + @s_regularization_term O iv + nn) / 2)) (inversion f)) (c_llreg o) &&
    (let ev := option_map (fun iv => if has_reg (objs iv)
                                      then - ((chi + @s_regularization_term O iv + @s_logdet_FH O iv - @s_logdet_H O iv + nn) / 2)
                                      else - ((chi + nn) / 2)) (inversion f) in
     oq close ev (c_evidence o) &&
     oq close (match inversion f with Some _ => ev | None => Some (- ((chi + nn) / 2)) end) (c_fom o)))).

Definition spec_vis (tbl : list (Q * Q)) (tp : Q) (v : vfit Q) (o : visout) : bool :=
  let O := QL tbl in
  let n := length (vdata v) in
  let pos := fun k => Qltb 0 (@vre O (vnoise v) k) && Qltb 0 (@vim O (vnoise v) k) in
  (@vfit_okb O v && all_idx n pos &&
   match vinversion v with Some iv => @inv_okb O iv | None => true end) &&
  (let pmap := fun (g : nat -> Q * Q) (out : list (Q * Q)) =>
                 Nat.eqb (length out) n && all_idx n (fun k => pq exact (g k) (nth k out (12345, 12345))) in
   pmap (@sv_residual O v) (v_residual o) && pmap (@sv_normres O v) (v_normres o) && pmap (@sv_chi O v) (v_chimap o) &&
   (let chi := @sv_chi_squared O v in
    let nn := @sv_noise_normalization O tp v in
    exact chi (v_chi2 o) &&
    match v_redchi2 o with
    | Ok r => negb (Nat.eqb n 0) && rclose (Qdiv chi (inject_Z (Z.of_nat n))) r
    | Raise _ => Nat.eqb n 0
    end &&
    close nn (v_nn o) && close (- ((chi + nn) / 2)) (v_ll o) &&
    oq close (option_map (fun iv => - ((chi + @s_regularization_term O iv + nn) / 2)) (vinversion v)) (v_llreg o) &&
    (let ev := option_map (fun iv => if has_reg (objs iv)
                                      then - ((chi + @s_regularization_term O iv + @s_logdet_FH O iv - @s_logdet_H O iv + nn) / 2)
                                      else - ((chi + nn) / 2)) (vinversion v) in
     oq close ev (v_evidence o) &&
     oq close (match vinversion v with Some _ => ev | None => Some (- ((chi + nn) / 2)) end) (v_fom o))) &&
   Nat.eqb (length (v_snr o)) n &&
   all_idx n (fun k =>
     let s := nth k (v_snr o) (XNaN, XNaN) in
     xq exact (@s_snr_x O (@vre O (vdata v) k) (@vre O (vnoise v) k)) (fst s) &&
     xq exact (@s_snr_x O (@vim O (vdata v) k) (@vim O (vnoise v) k)) (snd s))).

Definition spec_okx (k : case) : bool :=
  match k with
  | K0 k => spec_ok k
  | KFitX tbl tp f o xrff xsnr =>
      let O := QL tbl in
      let len := length (data f) in
      spec_fit tbl tp f o &&
      (* residual flux fraction = residual / data on every fitted pixel, a finite 0 in excluded pixels *)
      xmap_ok len (fun i => if @excluded O f i then XFin 0 else @s_quot_x O (@s_residual O f i) (@s_data O f i)) rclose xrff &&
      (* signal to noise on EVERY stored pixel, whatever the mask and the sign of the noise value *)
      xmap_ok len (fun i => @s_snr_x O (@s_data O f i) (@at_ O (noise f) i)) exact xsnr
  | KFitR tbl tp f o xrff xsnr =>
      let O := QL tbl in
      let len := length (data f) in
      spec_fit_e close tbl tp f o &&
      xmap_ok len (fun i => if @excluded O f i then XFin 0 else @s_quot_x O (@s_residual O f i) (@s_data O f i)) close xrff &&
      xmap_ok len (fun i => @s_snr_x O (@s_data O f i) (@at_ O (noise f) i)) close xsnr
  | KInvR tbl iv o => spec_inv_e close tbl iv o
  | KUtilX r d mk xrff xrffw =>
      let len := length r in
      (Nat.eqb (length d) len && Nat.eqb (length mk) len) &&
      xmap_ok len (fun i => @s_quot_x QOps (nth i r 0) (nth i d 0)) rclose xrff &&
      xmap_ok len (fun i => if nth i mk true then XFin 0 else @s_quot_x QOps (nth i r 0) (nth i d 0)) rclose xrffw
  | KInvP tbl p iv o =>
      let O := QL tbl in
      let R := reg_indices (objs iv) in
      (@inv_okb O iv && @pre_okb O p iv) &&
      (mq exact (@tabulate O (@s_H_eff O p iv) R) (o_Hred o) &&
       mq exact (@tabulate O (@s_FH_eff O p iv) R) (o_FHred o) &&
       lq exact (map (@at_ O (recon iv)) R) (o_sred o) &&
       exact (@sumT O (map (fun i => @sumT O (map (fun j => @at_ O (recon iv) i * @s_H_eff O p iv i j * @at_ O (recon iv) j) R)) R))
             (o_regterm o) &&
       (if has_reg (objs iv)
        then close (lnT O (@det O (@tabulate O (@s_FH_eff O p iv) R))) (o_ldc o) &&
             close (match pre_ldr p with Some v => v | None => lnT O (@det O (@tabulate O (@s_H_eff O p iv) R)) end) (o_ldr o)
        else exact 0 (o_ldc o) && exact 0 (o_ldr o)))
  | KCov tbl tp f C o => spec_cov tbl tp f C o
  | KUtilCov r Ci chi => squareb (length r) Ci && rclose (@s_quadratic_form QOps r Ci) chi
  | KVis tbl tp v o => spec_vis tbl tp v o
  | KUtilC tbl tp r n o =>
      let O := QL tbl in
      let len := length r in
      let v := {| vuse_mask := false; vdata := r; vnoise := n; vmodel := repeat (0, 0) len; vinversion := None |} in
      Nat.eqb (length n) len &&
      (Nat.eqb (length (cu_nres o)) len && Nat.eqb (length (cu_cmap o)) len &&
       all_idx len (fun k =>
         let rk := nth k r (0, 0) in let nk := nth k n (0, 0) in
         pq exact (fst rk / fst nk, snd rk / snd nk) (nth k (cu_nres o) (12345, 12345)) &&
         pq exact ((fst rk / fst nk) * (fst rk / fst nk), (snd rk / snd nk) * (snd rk / snd nk)) (nth k (cu_cmap o) (12345, 12345))) &&
       exact (@sumT QOps (map (fun k => let rk := nth k r (0, 0) in let nk := nth k n (0, 0) in
                                      (fst rk / fst nk) * (fst rk / fst nk) + (snd rk / snd nk) * (snd rk / snd nk)) (seq 0 len)))
             (cu_chi2 o) &&
       close (@sv_noise_normalization O tp v) (cu_nn o))
  end.

Definition check (k : case) : nat := verdict (agreex k) (spec_okx k).
