(* C20 -- vocabulary for the scale statements: the plane scaled by a factor s about the origin (definitions only). *)
From Coq Require Import ZArith List Bool Reals.
From PAV Require Import Base.NumOps Model.C20 Model.C20Spec.
Import ListNotations.
Local Open Scope R_scope.

Definition scale_pt (s : R) (p : rpt) : rpt := (s * fst p, s * snd p).
Definition scale_tri (s : R) (t : rtri) : rtri := (scale_pt s (v0 t), scale_pt s (v1 t), scale_pt s (v2 t)).
Definition scale_shape (s : R) (sh : shape ROps) : shape ROps :=
  match sh with
  | SPoint p => @SPoint ROps (scale_pt s p)
  | SCircle p r => @SCircle ROps (scale_pt s p) (s * r)
  | STriangle a b c => @STriangle ROps (scale_pt s a) (scale_pt s b) (scale_pt s c)
  | SPolygon vs => @SPolygon ROps (map (scale_pt s) vs)
  | SSquare top bottom lft rgt => @SSquare ROps (s * top) (s * bottom) (s * lft) (s * rgt)
  end.
