(* C05 -- the Cholesky factor updates of autoarray/util/cholesky_funcs.py used by fnnls_cholesky:
     cholinsertlast(U, x)          border the factor by one row / column
     _cholupdate(U, x)             rank-one update  U'^T U' = U^T U + x x^T  (rotations, row by row)
     choldeleteindexes(U, indexes) delete rows / columns, largest index first
   Executable model over [NumOps] (theorems at ROps in Proofs/C05Chol.v, execution at QOps with the rational square root).

   Representation: an upper-triangular n x n factor is the list of its rows FROM THE DIAGONAL ON:
   row r = [U[r][r]; U[r][r+1]; ...; U[r][n-1]] (length n - r).  The implementation stores the full square array; its strictly lower
   part is never read by these routines and is checked to be zero by the harness.
   No proofs in this file. *)
From Coq Require Import ZArith List Bool QArith Qabs.
From PAV Require Import Base.Res Base.Check Base.NumOps Base.Sum.
Import ListNotations.

Section Chol.
  Context {F : NumOps}.
  Notation T := (T F).
  Definition tri := list (list T).

  Definition map2 {A B C} (f : A -> B -> C) (a : list A) (b : list B) : list C := map (fun p => f (fst p) (snd p)) (combine a b).

  (* linalg.solve_triangular(U, x, trans=1, lower=False): the solution y of U^T y = x, by forward substitution (column oriented:
     y_0 = x_0 / U[0][0], then the remaining system with x[1:] - y_0 U[0][1:]) *)
  Fixpoint fsubst (U : tri) (x : list T) : list T :=
    match U, x with
    | row :: rest, xk :: xs =>
        let y := div F xk (hd zero row) in
        y :: fsubst rest (map2 (fun xv u => sub F xv (mul F y u)) xs (tl row))
    | _, _ => []
    end.

  (* S = [[U, S12], [0, s22]] *)
  Fixpoint bordered (U : tri) (y : list T) (d : T) : tri :=
    match U, y with
    | row :: rest, yr :: ys => (row ++ [yr]) :: bordered rest ys d
    | _, _ => [[d]]
    end.

  (* cholinsertlast(U, x): index = U.shape[0]; S12 = solve_triangular(U, x[:index], trans=1); s22 = sqrt(x[index] - S12.S12) *)
  Definition cholinsertlast (U : tri) (x : list T) : tri :=
    let m := length U in
    let s12 := fsubst U (firstn m x) in
    let s22 := sqrtT F (sub F (nthT x m) (dot s12 s12)) in
    bordered U s12 s22.

  (* _cholupdate(U, x), row k:  r = sqrt(Ukk^2 + xk^2); c = r / Ukk; s = xk / Ukk; U[k,k] = r;
       U[k,k+1:] = (U[k,k+1:] + s x[k+1:]) / c;  x[k+1:] = c x[k+1:] - s U[k,k+1:]   (the NEW row k)
     the last row (k = n-1) only gets U[k,k] = sqrt(Ukk^2 + xk^2): the same formulas on empty slices *)
  Fixpoint cholupdate (U : tri) (x : list T) : tri :=
    match U, x with
    | row :: rest, xk :: xs =>
        let ukk := hd zero row in
        let r := sqrtT F (add F (mul F ukk ukk) (mul F xk xk)) in
        let c := div F r ukk in
        let s := div F xk ukk in
        let urow := map2 (fun u xv => div F (add F u (mul F s xv)) c) (tl row) xs in
        let xs' := map2 (fun xv u' => sub F (mul F c xv) (mul F s u')) xs urow in
        (r :: urow) :: cholupdate rest xs'
    | _, _ => U
    end.

  Fixpoint remove_nth {A} (k : nat) (l : list A) : list A :=            (* np.delete(l, k) *)
    match k, l with
    | _, [] => []
    | 0%nat, _ :: t => t
    | S k', a :: t => a :: remove_nth k' t
    end.

  (* one pass of the loop of choldeleteindexes:  L = np.delete(np.delete(U, index, 0), index, 1);
     if index is not the last one: _cholupdate(L[index:, index:], U[index, index+1:]) *)
  Fixpoint choldelete (U : tri) (index : nat) : tri :=
    match index, U with
    | _, [] => []
    | 0%nat, row :: rest => cholupdate rest (tl row)
    | S i', row :: rest => remove_nth index row :: choldelete rest i'
    end.

  (* sorted(indexes, reverse=True): insertion sort, descending *)
  Fixpoint insert_desc (k : nat) (l : list nat) : list nat :=
    match l with
    | [] => [k]
    | a :: t => if Nat.leb a k then k :: l else a :: insert_desc k t
    end.
  Definition sort_desc (l : list nat) : list nat := fold_right insert_desc [] l.

  Definition choldeleteindexes (U : tri) (indexes : list nat) : tri := fold_left choldelete (sort_desc indexes) U.

  (* ---------------------------------------------------------------- specification side *)
  (* (U^T U)[i][j] = sum over the rows r <= min(i,j) of U[r][i] U[r][j] *)
  Fixpoint gram (U : tri) (i j : nat) : T :=
    match U with
    | [] => zero
    | row :: rest => add F (mul F (nthT row i) (nthT row j))
                         (match i, j with S i', S j' => gram rest i' j' | _, _ => zero end)
    end.
  Definition gram_matrix (U : tri) : list (list T) :=
    let n := length U in map (fun i => map (fun j => gram U i j) (seq 0 n)) (seq 0 n).
  (* np.delete(v, indexes): all positions at once *)
  Definition delete_all {A} (indexes : list nat) (l : list A) : list A :=
    map snd (filter (fun p => negb (existsb (Nat.eqb (fst p)) indexes)) (combine (seq 0 (length l)) l)).
End Chol.

(* ====================================================================== correspondence cases *)
Definition qtri := list (list Q).
Definition qclose (a b : Q) : bool := Qle_bool (Qabs (a - b)) ((1 # 1000000000) * (if Qle_bool (Qabs b) 1 then 1 else Qabs b)).
Definition qtri_close := list_eqb (list_eqb qclose).

Inductive ccase :=
| KIns (U : qtri) (x : list Q) (out : qtri)                (* cholinsertlast(U, x) *)
| KDel (U : qtri) (idx : list nat) (out : qtri).           (* choldeleteindexes(U, idx) *)

Definition cagree (k : ccase) : bool :=
  match k with
  | KIns U x out => qtri_close out (@cholinsertlast QOps U x)
  | KDel U idx out => qtri_close out (@choldeleteindexes QOps U idx)
  end.
(* contract, evaluated on the implementation's output: U'^T U' = bordered / deleted Gram matrix of the input factor *)
Definition bordered_gram (G : list (list Q)) (x : list Q) : list (list Q) :=
  let m := length G in
  map (fun rg : list Q * Q => fst rg ++ [snd rg]) (combine G (firstn m x)) ++ [firstn (S m) x].
Definition cspec_ok (k : ccase) : bool :=
  match k with
  | KIns U x out => list_eqb (list_eqb qclose) (@gram_matrix QOps out) (bordered_gram (@gram_matrix QOps U) x)
  | KDel U idx out => list_eqb (list_eqb qclose) (@gram_matrix QOps out)
                        (@delete_all (list Q) idx (map (@delete_all Q idx) (@gram_matrix QOps U)))
  end.
Definition ccheck (k : ccase) : nat := verdict (cagree k) (cspec_ok k).
