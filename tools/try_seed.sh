#!/bin/bash
# usage: tools/try_seed.sh <seed id> [tier]   runs the property's check against seeded/<id>/patch.diff in a scratch worktree and records the outcome in meta.json
HERE="$(cd "$(dirname "$0")/.." && pwd)"; S=$1; TIER=${2:-quick}; PID=${S%_*}
OUT=$($HERE/tools/mut.sh $PID $HERE/seeded/$S/patch.diff $TIER 2>&1 | tail -3)
echo "== $S ($TIER): $OUT"
python3 - "$HERE/seeded/$S/meta.json" "$TIER" "$OUT" <<'PY'
import json, sys, re
p, tier, out = sys.argv[1:4]
m = json.load(open(p))
det = "yes" if "VIOLATION property=" in out else "no"
nf = "no-failing-input-found" in out
m["detected_by_check"] = det + (" (no-failing-input-found)" if nf else "")
m["detection_note"] = f"{tier} tier: " + " | ".join(l.strip() for l in out.splitlines() if l.strip())[:600]
json.dump(m, open(p, "w"), indent=1)
PY
