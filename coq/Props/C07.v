(* C07 -- Regularization matrices are symmetric positive (semi-)definite with the stated quadratic form.
   Statements only; every proof is [exact <lemma of Proofs/C07.v>].  All statements are about the executable
   model coq/Model/C07.v instantiated at the real numbers (ROps); the ridge 1e-8 is the parameter [eps].
   [quad H x] is x^T H x, [mget H a b] is H[a,b];
   [nb_ok nb]: every neighbour index is in range and the neighbour relation is symmetric (as a multiset of
   ordered pairs); [upairs nb] are the neighbouring pairs (i,k), i < k, with multiplicity. *)
From Coq Require Import ZArith List Bool Reals Lra Lia.
From PAV Require Import Base.Res Base.NumOps Base.Sum Model.C07 Model.C07Split Proofs.C07 Proofs.C07Rect Proofs.C07Asm Proofs.C07Del Proofs.C07Ker Proofs.C07Sig Proofs.C07Term Proofs.C07Split.
Import ListNotations.
Local Open Scope R_scope.

(* ---------------- Constant: x^T H x = c^2 * sum over neighbouring pairs (x_i - x_k)^2 + eps |x|^2 ---------------- *)
Theorem C07_constant_quadratic_form : forall (eps c : R) nb (x : list R),
  nb_ok nb = true -> length x = length nb ->
  @quad ROps (@constant_matrix ROps eps c nb) x = @qf_constant ROps eps c nb x.
Proof. exact T_constant_qf. Qed.
Theorem C07_qf_constant_meaning : forall (eps c : R) nb (x : list R),
  @qf_constant ROps eps c nb x =
  c * c * sumR (map (fun p => (nth (fst p) x 0 - nth (snd p) x 0) * (nth (fst p) x 0 - nth (snd p) x 0)) (upairs nb))
  + eps * sumR (map (fun v => v * v) x).
Proof. exact qf_constant_meaning. Qed.
Theorem C07_constant_size : forall (eps c : R) nb,
  length (@constant_matrix ROps eps c nb) = length nb /\ Forall (fun r => length r = length nb) (@constant_matrix ROps eps c nb).
Proof. exact T_constant_size. Qed.
Theorem C07_constant_symmetric : forall (eps c : R) nb, nb_ok nb = true ->
  forall a b, (a < length nb)%nat -> (b < length nb)%nat ->
  @mget ROps (@constant_matrix ROps eps c nb) a b = @mget ROps (@constant_matrix ROps eps c nb) b a.
Proof. exact T_constant_sym. Qed.
Theorem C07_constant_positive_definite : forall (eps c : R) nb (x : list R),
  0 < eps -> nb_ok nb = true -> length x = length nb -> (exists i, nth i x 0 <> 0) ->
  0 < @quad ROps (@constant_matrix ROps eps c nb) x.
Proof. exact T_constant_pd. Qed.

(* the hypothesis [nb_ok] marks the boundary: with an in-range but asymmetric neighbour table (pixel 1 lists pixel 0, not
   conversely) the very same routine returns a matrix that is neither symmetric nor positive semi-definite *)
Theorem C07_constant_asymmetric_neighbours_refuted :
  exists (nb : list (list nat)) (x : list R), nb_in_range (length nb) nb = true /\ length x = length nb
    /\ @mget ROps (@constant_matrix ROps (/100) 1 nb) 1 0 <> @mget ROps (@constant_matrix ROps (/100) 1 nb) 0 1
    /\ @quad ROps (@constant_matrix ROps (/100) 1 nb) x < 0.
Proof. exact constant_asymmetric_refuted. Qed.

(* ---------------- ConstantZeroth: the same plus cz^2 |x|^2 ---------------- *)
Theorem C07_constant_zeroth_quadratic_form : forall (eps c cz : R) nb (x : list R),
  nb_ok nb = true -> length x = length nb ->
  @quad ROps (@constant_zeroth_matrix ROps eps c cz nb) x = @qf_constant ROps eps c nb x + cz * cz * @norm2 ROps x.
Proof. exact T_constant_zeroth_qf. Qed.
Theorem C07_constant_zeroth_size : forall (eps c cz : R) nb,
  length (@constant_zeroth_matrix ROps eps c cz nb) = length nb
  /\ Forall (fun r => length r = length nb) (@constant_zeroth_matrix ROps eps c cz nb).
Proof. exact T_constant_zeroth_size. Qed.
Theorem C07_constant_zeroth_symmetric : forall (eps c cz : R) nb, nb_ok nb = true ->
  forall a b, (a < length nb)%nat -> (b < length nb)%nat ->
  @mget ROps (@constant_zeroth_matrix ROps eps c cz nb) a b = @mget ROps (@constant_zeroth_matrix ROps eps c cz nb) b a.
Proof. exact T_constant_zeroth_sym. Qed.
Theorem C07_constant_zeroth_positive_definite : forall (eps c cz : R) nb (x : list R),
  0 < eps -> nb_ok nb = true -> length x = length nb -> (exists i, nth i x 0 <> 0) ->
  0 < @quad ROps (@constant_zeroth_matrix ROps eps c cz nb) x.
Proof. exact T_constant_zeroth_pd. Qed.

(* ---------------- Zeroth: H = c^2 I (no ridge in the code): PSD always, PD iff c <> 0 ---------------- *)
Theorem C07_zeroth_quadratic_form : forall (c : R) n (x : list R), length x = n ->
  @quad ROps (@zeroth_matrix ROps c n) x = c * c * sumR (map (fun v => v * v) x).
Proof. exact T_zeroth_qf. Qed.
Theorem C07_zeroth_size_symmetric : forall (c : R) n,
  (length (@zeroth_matrix ROps c n) = n /\ Forall (fun r => length r = n) (@zeroth_matrix ROps c n))
  /\ forall a b, (a < n)%nat -> (b < n)%nat -> @mget ROps (@zeroth_matrix ROps c n) a b = @mget ROps (@zeroth_matrix ROps c n) b a.
Proof. exact (fun c n => conj (T_zeroth_size c n) (T_zeroth_sym c n)). Qed.
Theorem C07_zeroth_positive_definite : forall (c : R) n (x : list R),
  c <> 0 -> length x = n -> (exists i, nth i x 0 <> 0) -> 0 < @quad ROps (@zeroth_matrix ROps c n) x.
Proof. exact T_zeroth_pd. Qed.

(* ---------------- AdaptiveBrightness: pair (i,k) weighted by w_i^2 + w_k^2, w = the reported weights ---------------- *)
Theorem C07_weighted_quadratic_form : forall (eps : R) (w : list R) nb (x : list R),
  wnb_ok w nb = true -> length x = length w ->
  @quad ROps (@weighted_matrix ROps eps w nb) x = @qf_weighted ROps eps w nb x.
Proof. exact T_weighted_qf. Qed.
Theorem C07_qf_weighted_meaning : forall (eps : R) (w : list R) nb (x : list R),
  @qf_weighted ROps eps w nb x =
  sumR (map (fun p => (nth (fst p) w 0 * nth (fst p) w 0 + nth (snd p) w 0 * nth (snd p) w 0)
                      * ((nth (fst p) x 0 - nth (snd p) x 0) * (nth (fst p) x 0 - nth (snd p) x 0))) (upairs nb))
  + eps * sumR (map (fun v => v * v) x).
Proof. exact qf_weighted_meaning. Qed.
Theorem C07_weighted_size : forall (eps : R) (w : list R) nb,
  length (@weighted_matrix ROps eps w nb) = length w /\ Forall (fun r => length r = length w) (@weighted_matrix ROps eps w nb).
Proof. exact T_weighted_size. Qed.
Theorem C07_weighted_symmetric : forall (eps : R) (w : list R) nb, wnb_ok w nb = true ->
  forall a b, (a < length w)%nat -> (b < length w)%nat ->
  @mget ROps (@weighted_matrix ROps eps w nb) a b = @mget ROps (@weighted_matrix ROps eps w nb) b a.
Proof. exact T_weighted_sym. Qed.
Theorem C07_weighted_positive_definite : forall (eps : R) (w : list R) nb (x : list R),
  0 < eps -> wnb_ok w nb = true -> length x = length w -> (exists i, nth i x 0 <> 0) ->
  0 < @quad ROps (@weighted_matrix ROps eps w nb) x.
Proof. exact T_weighted_pd. Qed.
(* the weights AdaptiveBrightness reports: one per pixel signal, non-negative (they are squares) *)
Theorem C07_adaptive_weights : forall (inner outer : R) (s : list R),
  length (@adaptive_weights ROps inner outer s) = length s /\ Forall (fun w => 0 <= w) (@adaptive_weights ROps inner outer s).
Proof. exact T_adaptive_weights. Qed.

(* ---------------- BrightnessZeroth: diag(w_i^2): symmetric PSD (singular where a weight vanishes) ---------------- *)
Theorem C07_brightness_zeroth_quadratic_form : forall (w x : list R), length x = length w ->
  @quad ROps (@bz_matrix ROps w) x = sumR (map (fun wx => fst wx * fst wx * (snd wx * snd wx)) (combine w x)).
Proof. exact T_bz_qf. Qed.
Theorem C07_brightness_zeroth_psd : forall (w x : list R), length x = length w -> 0 <= @quad ROps (@bz_matrix ROps w) x.
Proof. exact T_bz_psd. Qed.
Theorem C07_brightness_zeroth_size_symmetric : forall (w : list R),
  (length (@bz_matrix ROps w) = length w /\ Forall (fun r => length r = length w) (@bz_matrix ROps w))
  /\ forall a b, (a < length w)%nat -> (b < length w)%nat -> @mget ROps (@bz_matrix ROps w) a b = @mget ROps (@bz_matrix ROps w) b a.
Proof. exact (fun w => conj (T_bz_size w) (T_bz_sym w)). Qed.

(* ---------------- split-cross schemes (ConstantSplit, AdaptiveBrightnessSplit) ----------------
   On prepared rows (the (vertex, weight) pairs of the 4 cross points of every pixel, vertices distinct within a row):
   H = eps I + sum_k rw_{k/4}^2 v_k v_k^T, i.e. ridge + Gram matrix: symmetric and positive definite. *)
Theorem C07_split_quadratic_form : forall (eps : R) (w : list R) (prows : list (list (nat * R))) (x : list R),
  prows_ok prows = true -> length x = (length prows / 4)%nat ->
  @quad ROps (@split_matrix_prepared ROps eps w prows) x = @qf_split_prepared ROps eps w prows x.
Proof. exact T_split_qf. Qed.
Theorem C07_qf_split_prepared_meaning : forall (eps : R) (w : list R) (prows : list (list (nat * R))) (x : list R),
  @qf_split_prepared ROps eps w prows x =
  sumR (map (fun kr => nth (fst kr / 4) w 0 * nth (fst kr / 4) w 0
                       * (sumR (map (fun mw => snd mw * nth (fst mw) x 0) (snd kr)) * sumR (map (fun mw => snd mw * nth (fst mw) x 0) (snd kr))))
            (indexed prows))
  + eps * sumR (map (fun v => v * v) x).
Proof. exact qf_split_prepared_meaning. Qed.
Theorem C07_split_size : forall (eps : R) (w : list R) (prows : list (list (nat * R))),
  length (@split_matrix_prepared ROps eps w prows) = (length prows / 4)%nat
  /\ Forall (fun r => length r = (length prows / 4)%nat) (@split_matrix_prepared ROps eps w prows).
Proof. exact T_split_size. Qed.
Theorem C07_split_symmetric : forall (eps : R) (w : list R) (prows : list (list (nat * R))), prows_ok prows = true ->
  forall a b, (a < length prows / 4)%nat -> (b < length prows / 4)%nat ->
  @mget ROps (@split_matrix_prepared ROps eps w prows) a b = @mget ROps (@split_matrix_prepared ROps eps w prows) b a.
Proof. exact T_split_sym. Qed.
Theorem C07_split_positive_definite : forall (eps : R) (w : list R) (prows : list (list (nat * R))) (x : list R),
  0 < eps -> prows_ok prows = true -> length x = (length prows / 4)%nat -> (exists i, nth i x 0 <> 0) ->
  0 < @quad ROps (@split_matrix_prepared ROps eps w prows) x.
Proof. exact T_split_pd. Qed.
(* reg_split_from on one raw row (mappings, size, weights) of cross point k of pixel q: it succeeds, keeps the vertices
   distinct and in range, and the row afterwards evaluates x_q - sum_l w_l x_{m_l} (the own pixel is given weight
   +1 -- appended when it was not a vertex -- and the interpolation weights are negated) *)
Theorem C07_reg_split_row : forall P max_j q mp size (w : list R),
  split_row_ok P max_j (mp, size, w) = true -> (q < P)%nat ->
  exists r' prow', @reg_split_row ROps (Z.of_nat q) max_j (mp, size, w) = Ok r' /\ @prep_split_row ROps P r' = Some prow'
    /\ Forall (fun mw : nat * R => (fst mw < P)%nat) prow' /\ NoDup (map fst prow')
    /\ forall x : list R, sumR (map (fun mw => snd mw * nth (fst mw) x 0) prow')
                          = nth q x 0 - sumR (map (fun mw => snd mw * nth (fst mw) x 0) (prow0 (mp, size, w))).
Proof. exact T_reg_split_row. Qed.
(* the whole pipeline of ConstantSplit / AdaptiveBrightnessSplit: reg_split_from, then the matrix.  For every table of
   raw rows the mapper can hand over (4 per pixel, >= 1 distinct in-range vertices, room for one more entry) it
   raises nothing, the matrix is square, symmetric, positive definite and
   x^T H x = sum_k w_{k/4}^2 (x_{k/4} - sum_l w_kl x_{m_kl})^2 + eps |x|^2  (w = the reported weights) *)
Theorem C07_split_cross_pipeline : forall (eps : R) (w : list R) width (rows : list (list Z * nat * list R)),
  split_rows_ok width rows = true ->
  exists rows' H, @reg_split ROps width rows = Ok rows' /\ @split_matrix ROps eps w rows' = Ok H
    /\ (length H = (length rows / 4)%nat /\ Forall (fun r => length r = (length rows / 4)%nat) H)
    /\ (forall a b, (a < length rows / 4)%nat -> (b < length rows / 4)%nat -> @mget ROps H a b = @mget ROps H b a)
    /\ (forall x, length x = (length rows / 4)%nat -> @quad ROps H x = @qf_split ROps eps w (map prow0 rows) x)
    /\ (0 < eps -> forall x, length x = (length rows / 4)%nat -> (exists i, nth i x 0 <> 0) -> 0 < @quad ROps H x).
Proof. exact T_split_pipeline. Qed.
Theorem C07_qf_split_meaning : forall (eps : R) (w : list R) (prows0 : list (list (nat * R))) (x : list R),
  @qf_split ROps eps w prows0 x =
  sumR (map (fun kr => nth (fst kr / 4) w 0 * nth (fst kr / 4) w 0
                       * ((nth (fst kr / 4) x 0 - sumR (map (fun mw => snd mw * nth (fst mw) x 0) (snd kr)))
                          * (nth (fst kr / 4) x 0 - sumR (map (fun mw => snd mw * nth (fst mw) x 0) (snd kr)))))
            (indexed prows0))
  + eps * sumR (map (fun v => v * v) x).
Proof. exact qf_split_meaning. Qed.

(* ---------------- assembly over the linear objects ---------------- *)
(* entry (a,b) of the assembled matrix: inside the block of the object that owns both a and b (blocks taken in
   the order of the list), zero elsewhere *)
Theorem C07_block_placement_in_order : forall (Bs : list (list (list R))),
  Forall (fun B => Forall (fun r => length r = length B) B) Bs ->
  forall a b, @mget ROps (@block_diag ROps Bs) a b = @block_entry ROps Bs a b.
Proof. exact T_block_entry. Qed.
Theorem C07_assembly_size : forall (Bs : list (list (list R))),
  Forall (fun B => Forall (fun r => length r = length B) B) Bs ->
  length (@block_diag ROps Bs) = total Bs /\ Forall (fun r => length r = total Bs) (@block_diag ROps Bs).
Proof. exact T_block_size. Qed.
Theorem C07_none_is_zero_block : forall p a b, @mget ROps (@obj_matrix ROps (p, None)) a b = 0.
Proof. exact none_block_zero. Qed.
Theorem C07_none_block_size : forall p,
  length (@obj_matrix ROps (p, None)) = p /\ Forall (fun r => length r = p) (@obj_matrix ROps (p, None)).
Proof. exact none_block_size. Qed.
(* x^T H x of the assembly is the sum of the blocks' quadratic forms on the corresponding slices of x: the
   assembly is PSD when every block is *)
Theorem C07_assembly_quadratic_form : forall (Bs : list (list (list R))),
  Forall (fun B => Forall (fun r => length r = length B) B) Bs ->
  forall x, @quad ROps (@block_diag ROps Bs) x = block_quad Bs x.
Proof. exact T_block_quad. Qed.

(* regularization_matrix_reduced (rows / columns of the objects without regularization deleted with numpy.delete at
   no_regularization_index_list) is the assembly of the regularized objects only, in their order *)
Theorem C07_reduced_is_assembly_of_regularized : forall (objs : list (nat * option (list (list R)))),
  Forall (fun o => match snd o with Some H => length H = fst o /\ Forall (fun r => length r = fst o) H | None => True end) objs ->
  @inversion_matrix_reduced ROps objs = @inversion_matrix ROps (filter (@has_reg ROps) objs).
Proof. exact T_reduced. Qed.

(* ---------------- what the assembly inherits from its blocks (phase 2; proofs in Proofs/C07Asm.v) ----------------
   The real AbstractInversion.regularization_matrix (used by every inversion class: InversionImagingMapping / WTilde,
   the interferometer classes, MockInversion) is the same one-line block_diag over linear_obj.regularization_matrix in
   list order that [inversion_matrix] models, for mappers and non-mapper objects (function lists) alike. *)
Theorem C07_assembly_symmetric : forall (Bs : list (list (list R))),
  Forall (fun B => Forall (fun r => length r = length B) B) Bs ->
  Forall (fun B => forall a b, @mget ROps B a b = @mget ROps B b a) Bs ->
  forall a b, @mget ROps (@block_diag ROps Bs) a b = @mget ROps (@block_diag ROps Bs) b a.
Proof. exact T_asm_sym. Qed.
Theorem C07_assembly_psd : forall (Bs : list (list (list R))),
  Forall (fun B => Forall (fun r => length r = length B) B) Bs ->
  Forall (fun B => forall x, 0 <= @quad ROps B x) Bs ->
  forall x, 0 <= @quad ROps (@block_diag ROps Bs) x.
Proof. exact T_asm_psd. Qed.
Theorem C07_assembly_positive_definite : forall (Bs : list (list (list R))),
  Forall (fun B => Forall (fun r => length r = length B) B) Bs ->
  Forall (fun B => forall x, length x = length B -> (exists i, nth i x 0 <> 0) -> 0 < @quad ROps B x) Bs ->
  forall x, length x = total Bs -> (exists i, nth i x 0 <> 0) -> 0 < @quad ROps (@block_diag ROps Bs) x.
Proof. exact T_asm_pd. Qed.
(* regularization_matrix_reduced is positive definite as soon as the matrix of every REGULARIZED object is (whatever
   the kind of the object and wherever the objects without regularization stand in the list) *)
Theorem C07_reduced_positive_definite : forall (objs : list (nat * option (list (list R)))),
  Forall (fun o => match snd o with Some H => length H = fst o /\ Forall (fun r => length r = fst o) H | None => True end) objs ->
  Forall (fun o => match snd o with
                   | Some H => forall x, length x = length H -> (exists i, nth i x 0 <> 0) -> 0 < @quad ROps H x
                   | None => True end) objs ->
  forall x, length x = total (map (@obj_matrix ROps) (filter (@has_reg ROps) objs)) -> (exists i, nth i x 0 <> 0) ->
  0 < @quad ROps (@inversion_matrix_reduced ROps objs) x.
Proof. exact T_reduced_pd. Qed.
Theorem C07_inversion_matrices_symmetric : forall (objs : list (nat * option (list (list R)))),
  Forall (fun o => match snd o with Some H => length H = fst o /\ Forall (fun r => length r = fst o) H | None => True end) objs ->
  Forall (fun o => match snd o with Some H => forall a b, @mget ROps H a b = @mget ROps H b a | None => True end) objs ->
  (forall a b, @mget ROps (@inversion_matrix ROps objs) a b = @mget ROps (@inversion_matrix ROps objs) b a)
  /\ (forall a b, @mget ROps (@inversion_matrix_reduced ROps objs) a b = @mget ROps (@inversion_matrix_reduced ROps objs) b a).
Proof. exact (fun objs HW HS => conj (T_full_sym objs HW HS) (T_reduced_sym objs HW HS)). Qed.

(* ---------------- rectangular meshes of EVERY shape >= 2 x 2 (the Rectangular mesh class demands >= 3 x 3) ----------------
   The model of mesh_util.rectangular_neighbors_from (the six region loops as a list of row writes, later writes win) returns
   the 4-neighbourhood of the H x W grid, and that neighbour relation is in range and symmetric: [nb_ok] holds, so the
   neighbour-difference theorems apply to every rectangular mesh without further hypothesis. *)
Theorem C07_rect_neighbors_all_shapes : forall H W, (2 <= H)%nat -> (2 <= W)%nat ->
  rect_neighbors H W = map (map Z.of_nat) (grid_rows H W) /\ nb_ok (grid_rows H W) = true.
Proof. exact T_rect_all. Qed.
Theorem C07_rectangular_mesh_constant : forall H W (eps c : R), (2 <= H)%nat -> (2 <= W)%nat ->
  (forall a b, (a < H * W)%nat -> (b < H * W)%nat ->
     @mget ROps (@constant_matrix ROps eps c (grid_rows H W)) a b = @mget ROps (@constant_matrix ROps eps c (grid_rows H W)) b a)
  /\ (forall x : list R, length x = (H * W)%nat ->
        @quad ROps (@constant_matrix ROps eps c (grid_rows H W)) x = @qf_constant ROps eps c (grid_rows H W) x)
  /\ (0 < eps -> forall x : list R, length x = (H * W)%nat -> (exists i, nth i x 0 <> 0) ->
        0 < @quad ROps (@constant_matrix ROps eps c (grid_rows H W)) x).
Proof. exact T_rect_constant. Qed.
Theorem C07_rectangular_mesh_adaptive : forall H W (eps : R) (w : list R), (2 <= H)%nat -> (2 <= W)%nat -> length w = (H * W)%nat ->
  (forall a b, (a < H * W)%nat -> (b < H * W)%nat ->
     @mget ROps (@weighted_matrix ROps eps w (grid_rows H W)) a b = @mget ROps (@weighted_matrix ROps eps w (grid_rows H W)) b a)
  /\ (forall x : list R, length x = (H * W)%nat ->
        @quad ROps (@weighted_matrix ROps eps w (grid_rows H W)) x = @qf_weighted ROps eps w (grid_rows H W) x)
  /\ (0 < eps -> forall x : list R, length x = (H * W)%nat -> (exists i, nth i x 0 <> 0) ->
        0 < @quad ROps (@weighted_matrix ROps eps w (grid_rows H W)) x).
Proof. exact T_rect_weighted. Qed.

(* ---------------- kernel schemes (GaussianKernel, ExponentialKernel): PARTIAL ----------------
   The covariance assembly (for every profile [kern] of the squared distance) is square and symmetric. *)
Theorem C07_covariance_size_symmetric : forall (eps : R) (kern : R -> R) (pts : list (R * R)),
  (length (@cov_matrix ROps eps kern pts) = length pts /\ Forall (fun r => length r = length pts) (@cov_matrix ROps eps kern pts))
  /\ forall a b, (a < length pts)%nat -> (b < length pts)%nat ->
       @mget ROps (@cov_matrix ROps eps kern pts) a b = @mget ROps (@cov_matrix ROps eps kern pts) b a.
Proof. exact (fun eps kern pts => conj (T_cov_size eps kern pts) (T_cov_sym eps kern pts)). Qed.
(* coefficient * inverse is symmetric positive definite -- GIVEN that the covariance matrix is positive definite (NOT proved
   here: for Gaussian / exponential profiles and distinct points this is Bochner's theorem) and that numpy.linalg.inv
   honours its contract C (K x) = x.  Hence the name. *)
Theorem C07_kernel_scheme_spd_partial : forall (eps : R) (kern : R -> R) (pts : list (R * R)) (K : list (list R)) (coef : R),
  (forall x, length x = length pts -> (exists i, nth i x 0 <> 0) -> 0 < @quad ROps (@cov_matrix ROps eps kern pts) x) ->
  (length K = length pts /\ Forall (fun r => length r = length pts) K) ->
  (forall x, length x = length pts -> @mat_vec ROps (@cov_matrix ROps eps kern pts) (@mat_vec ROps K x) = x) ->
  0 < coef ->
  (forall a b, (a < length pts)%nat -> (b < length pts)%nat ->
     @mget ROps (@scale_matrix ROps coef K) a b = @mget ROps (@scale_matrix ROps coef K) b a)
  /\ forall x, length x = length pts -> (exists i, nth i x 0 <> 0) -> 0 < @quad ROps (@scale_matrix ROps coef K) x.
Proof. exact T_kernel_partial. Qed.

(* ---------------- Delaunay meshes (phase 3; proofs in Proofs/C07Del.v) ----------------
   Mesh2DDelaunay.neighbors reads scipy's Delaunay.vertex_neighbor_vertices = (indptr, indices).  [vnv_ok n S indptr indices] is
   scipy's documented contract for n points with simplices S: slice k of indices lists, once each, exactly the vertices that share
   a simplex with k.  Under it the rows [del_rows] the loop copies are the edge relation of the triangulation: one row per vertex,
   in range and symmetric ([nb_ok]) whatever the degree of a vertex; the padded array [del_neighbors] (width = the largest degree)
   gives these rows back through its first sizes[k] entries.  Hence the neighbour-difference schemes are symmetric positive
   definite with the stated quadratic form on every Delaunay mesh. *)
Theorem C07_delaunay_neighbors : forall n S indptr indices, vnv_ok n S indptr indices = true ->
  length (del_rows n indptr indices) = n /\ nb_ok (del_rows n indptr indices) = true
  /\ (forall i j, (i < n)%nat -> (In j (nth i (del_rows n indptr indices) []) <-> adjb S i j = true))
  /\ Forall (@NoDup nat) (del_rows n indptr indices).
Proof. exact T_delaunay_neighbors. Qed.
Theorem C07_delaunay_neighbors_array : forall n S indptr indices, vnv_ok n S indptr indices = true ->
  used_rows (fst (del_neighbors n indptr indices)) (snd (del_neighbors n indptr indices)) = del_rows n indptr indices
  /\ length (snd (del_neighbors n indptr indices)) = n
  /\ Forall (fun r => length r = fold_right Nat.max 0%nat (snd (del_neighbors n indptr indices))) (fst (del_neighbors n indptr indices)).
Proof. exact T_delaunay_decode. Qed.
Theorem C07_delaunay_mesh_constant : forall n S indptr indices (eps c : R), vnv_ok n S indptr indices = true ->
  (forall a b, (a < n)%nat -> (b < n)%nat ->
     @mget ROps (@constant_matrix ROps eps c (del_rows n indptr indices)) a b = @mget ROps (@constant_matrix ROps eps c (del_rows n indptr indices)) b a)
  /\ (forall x : list R, length x = n ->
        @quad ROps (@constant_matrix ROps eps c (del_rows n indptr indices)) x = @qf_constant ROps eps c (del_rows n indptr indices) x)
  /\ (0 < eps -> forall x : list R, length x = n -> (exists i, nth i x 0 <> 0) ->
        0 < @quad ROps (@constant_matrix ROps eps c (del_rows n indptr indices)) x).
Proof. exact T_delaunay_constant. Qed.
Theorem C07_delaunay_mesh_adaptive : forall n S indptr indices (eps : R) (w : list R), vnv_ok n S indptr indices = true -> length w = n ->
  (forall a b, (a < n)%nat -> (b < n)%nat ->
     @mget ROps (@weighted_matrix ROps eps w (del_rows n indptr indices)) a b = @mget ROps (@weighted_matrix ROps eps w (del_rows n indptr indices)) b a)
  /\ (forall x : list R, length x = n ->
        @quad ROps (@weighted_matrix ROps eps w (del_rows n indptr indices)) x = @qf_weighted ROps eps w (del_rows n indptr indices) x)
  /\ (0 < eps -> forall x : list R, length x = n -> (exists i, nth i x 0 <> 0) ->
        0 < @quad ROps (@weighted_matrix ROps eps w (del_rows n indptr indices)) x).
Proof. exact T_delaunay_weighted. Qed.

(* ---------------- pixel signals and the weights made from them (phase 3; proofs in Proofs/C07Sig.v) ----------------
   mapper_util.adaptive_pixel_signals_from is now part of the model ([pixel_signals]; [pw] is x |-> x ** signal_scale).
   For every table of rows with distinct in-range vertices (what the mappers produce: [raw_row_ok]) the routine raises nothing and
   returns [spec_signals]: per pixel the sum of (data value x interpolation weight) over the data sub-pixels mapped to it, divided by
   their number (1 if none), divided by the maximum, to the power. *)
Theorem C07_pixel_signals_model_is_spec : forall (pw : R -> R) pixels (rows : list (@sig_row ROps)) (adapt : list R),
  forallb (raw_row_ok pixels (length adapt)) rows = true -> (0 < pixels)%nat ->
  @list_max ROps (map (@raw_signal ROps (map (prow_of adapt) rows)) (seq 0 pixels)) <> 0 ->
  @pixel_signals ROps pw pixels rows adapt = Ok (@spec_signals ROps pw pixels (map (prow_of adapt) rows)).
Proof. exact T_pixel_signals. Qed.
(* after the normalisation the signals lie in [0, 1] and the brightest pixel has signal exactly 1 (non-negative adapt image and
   interpolation weights, a positive maximum; every power function mapping [0,1] into itself and fixing 1) *)
Theorem C07_pixel_signals_unit_interval : forall (pw : R -> R) pixels (prs : list (list nat * list R)),
  ((forall x, 0 <= x <= 1 -> 0 <= pw x <= 1) /\ pw 1 = 1) -> (0 < pixels)%nat -> Forall (fun pr => Forall (fun v => 0 <= v) (snd pr)) prs ->
  0 < @list_max ROps (map (@raw_signal ROps prs) (seq 0 pixels)) ->
  length (@spec_signals ROps pw pixels prs) = pixels
  /\ Forall (fun s => 0 <= s <= 1) (@spec_signals ROps pw pixels prs) /\ In 1 (@spec_signals ROps pw pixels prs).
Proof. exact T_spec_signals_unit. Qed.
Theorem C07_integer_powers_are_unit_powers : forall n, (forall x, 0 <= x <= 1 -> 0 <= @npow ROps n x <= 1) /\ @npow ROps n 1 = 1.
Proof. exact npow_unit. Qed.
(* what the weight formula gives on such signals: between min(inner, outer)^2 and max(inner, outer)^2; inner^2 at the brightest
   pixel, outer^2 where the signal vanishes *)
Theorem C07_adaptive_weights_on_unit_signals : forall (inner outer : R) (s : list R), 0 <= inner -> 0 <= outer -> Forall (fun v => 0 <= v <= 1) s ->
  forall i, (i < length s)%nat ->
    Rmin inner outer * Rmin inner outer <= nth i (@adaptive_weights ROps inner outer s) 0 <= Rmax inner outer * Rmax inner outer
    /\ (nth i s 0 = 1 -> nth i (@adaptive_weights ROps inner outer s) 0 = inner * inner)
    /\ (nth i s 0 = 0 -> nth i (@adaptive_weights ROps inner outer s) 0 = outer * outer).
Proof. exact T_adaptive_weights_on_signals. Qed.

(* ---------------- kernel schemes without Bochner (phase 3; proofs in Proofs/C07Ker.v) ----------------
   [kern_gauss s d2] = exp(-sqrt(d2)^2 / (2 s^2)), [kern_exp s d2] = exp(-sqrt(d2) / s) are the two profiles as the code evaluates them. *)
Theorem C07_covariance_entries : forall (eps : R) (kern : R -> R) (pts : list (R * R)) a b, (a < length pts)%nat -> (b < length pts)%nat ->
  @mget ROps (@cov_matrix ROps eps kern pts) a b
  = (if Nat.eqb a b then eps else 0) + kern (@dist2 ROps (nth a pts (0, 0)) (nth b pts (0, 0))).
Proof. exact T_cov_entry. Qed.
Theorem C07_covariance_diagonal_one_plus_ridge : forall (eps s : R) (pts : list (R * R)) a, (a < length pts)%nat ->
  @mget ROps (@cov_matrix ROps eps (kern_gauss s) pts) a a = 1 + eps /\ @mget ROps (@cov_matrix ROps eps (kern_exp s) pts) a a = 1 + eps.
Proof. exact (fun eps s pts a Ha => conj (T_cov_diagonal_gauss eps s pts a Ha) (T_cov_diagonal_exp eps s pts a Ha)). Qed.
Theorem C07_kernel_profiles_in_unit_interval : forall s d2, 0 < s -> 0 < kern_gauss s d2 <= 1 /\ 0 < kern_exp s d2 <= 1.
Proof. exact (fun s d2 Hs => conj (kern_gauss_range s d2 Hs) (kern_exp_range s d2 Hs)). Qed.
(* two points (distinct or not): the covariance matrix of BOTH kernels is positive definite *)
Theorem C07_covariance_pd_two_points : forall (eps s : R) (p q : R * R), 0 < eps -> 0 < s ->
  forall x, length x = 2%nat -> (exists i, nth i x 0 <> 0) ->
    0 < @quad ROps (@cov_matrix ROps eps (kern_gauss s) [p; q]) x /\ 0 < @quad ROps (@cov_matrix ROps eps (kern_exp s) [p; q]) x.
Proof. exact (fun eps s p q He Hs x Hx Hn => conj (T_cov_pd_2_gauss eps s p q He Hs x Hx Hn) (T_cov_pd_2_exp eps s p q He Hs x Hx Hn)). Qed.
(* three points, exponential kernel: positive definite, by the determinant 1 + 2abc - a^2 - b^2 - c^2 >= 0 that the triangle
   inequality of the Euclidean distance gives *)
Theorem C07_covariance_pd_three_points_exponential : forall (eps s : R) (p0 p1 p2 : R * R), 0 < eps -> 0 < s ->
  forall x, length x = 3%nat -> (exists i, nth i x 0 <> 0) -> 0 < @quad ROps (@cov_matrix ROps eps (kern_exp s) [p0; p1; p2]) x.
Proof. exact T_cov_pd_3_exp. Qed.
(* hence, there, the scheme matrix coefficient * inverse(covariance) is symmetric positive definite with NO hypothesis on the covariance
   (numpy.linalg.inv enters through its contract C (K x) = x) *)
Theorem C07_kernel_scheme_spd_two_points : forall (eps s : R) (p q : R * R) (K : list (list R)) (coef : R), 0 < eps -> 0 < s ->
  (length K = 2%nat /\ Forall (fun r => length r = 2%nat) K) -> 0 < coef ->
  ((forall x, length x = 2%nat -> @mat_vec ROps (@cov_matrix ROps eps (kern_gauss s) [p; q]) (@mat_vec ROps K x) = x) ->
     (forall a b, (a < 2)%nat -> (b < 2)%nat -> @mget ROps (@scale_matrix ROps coef K) a b = @mget ROps (@scale_matrix ROps coef K) b a)
     /\ forall x, length x = 2%nat -> (exists i, nth i x 0 <> 0) -> 0 < @quad ROps (@scale_matrix ROps coef K) x)
  /\ ((forall x, length x = 2%nat -> @mat_vec ROps (@cov_matrix ROps eps (kern_exp s) [p; q]) (@mat_vec ROps K x) = x) ->
     (forall a b, (a < 2)%nat -> (b < 2)%nat -> @mget ROps (@scale_matrix ROps coef K) a b = @mget ROps (@scale_matrix ROps coef K) b a)
     /\ forall x, length x = 2%nat -> (exists i, nth i x 0 <> 0) -> 0 < @quad ROps (@scale_matrix ROps coef K) x).
Proof. exact T_kernel_spd_2_both. Qed.
Theorem C07_kernel_scheme_spd_three_points_exponential : forall (eps s : R) (p0 p1 p2 : R * R) (K : list (list R)) (coef : R),
  0 < eps -> 0 < s -> (length K = 3%nat /\ Forall (fun r => length r = 3%nat) K) ->
  (forall x, length x = 3%nat -> @mat_vec ROps (@cov_matrix ROps eps (kern_exp s) [p0; p1; p2]) (@mat_vec ROps K x) = x) -> 0 < coef ->
  (forall a b, (a < 3)%nat -> (b < 3)%nat -> @mget ROps (@scale_matrix ROps coef K) a b = @mget ROps (@scale_matrix ROps coef K) b a)
  /\ forall x, length x = 3%nat -> (exists i, nth i x 0 <> 0) -> 0 < @quad ROps (@scale_matrix ROps coef K) x.
Proof. exact T_kernel_spd_3_exp. Qed.

(* ---------------- split schemes on every Delaunay mesh (phase 3; proofs in Proofs/C07Split.v) ----------------
   [split_table] is MapperDelaunay.pix_sub_weights_split_cross written with the routines property C06 models (C06.del_mappings /
   C06.del_weights on the 4 cross points of every vertex, a column -1 / 0.0 appended).  Under scipy's contract (every simplex has
   three distinct in-range vertices, find_simplex returns -1 or a simplex index) the table meets the hypothesis [split_rows_ok 4]
   of C07_split_cross_pipeline, which is thereby discharged for Delaunay meshes. *)
Theorem C07_delaunay_split_table_ok : forall (cross_pts points : list (R * R)) simplex_for simplices, points <> [] ->
  length cross_pts = (4 * length points)%nat -> length simplex_for = length cross_pts ->
  (forall row, In row simplices -> exists a b c, row = [a; b; c] /\ (0 <= a < Z.of_nat (length points))%Z /\ (0 <= b < Z.of_nat (length points))%Z
                                                 /\ (0 <= c < Z.of_nat (length points))%Z /\ a <> b /\ a <> c /\ b <> c) ->
  (forall t, In t simplex_for -> t = (-1)%Z \/ (0 <= t < Z.of_nat (length simplices))%Z) ->
  split_rows_ok 4 (@split_table ROps cross_pts simplex_for simplices points) = true
  /\ length (@split_table ROps cross_pts simplex_for simplices points) = (4 * length points)%nat.
Proof. exact T_delaunay_split_rows_ok. Qed.
Theorem C07_delaunay_mesh_split_schemes : forall (eps : R) (w : list R) (cross_pts points : list (R * R)) simplex_for simplices, points <> [] ->
  length cross_pts = (4 * length points)%nat -> length simplex_for = length cross_pts ->
  (forall row, In row simplices -> exists a b c, row = [a; b; c] /\ (0 <= a < Z.of_nat (length points))%Z /\ (0 <= b < Z.of_nat (length points))%Z
                                                 /\ (0 <= c < Z.of_nat (length points))%Z /\ a <> b /\ a <> c /\ b <> c) ->
  (forall t, In t simplex_for -> t = (-1)%Z \/ (0 <= t < Z.of_nat (length simplices))%Z) ->
  exists rows' H, @reg_split ROps 4 (@split_table ROps cross_pts simplex_for simplices points) = Ok rows' /\ @split_matrix ROps eps w rows' = Ok H
    /\ (length H = length points /\ Forall (fun r => length r = length points) H)
    /\ (forall a b, (a < length points)%nat -> (b < length points)%nat -> @mget ROps H a b = @mget ROps H b a)
    /\ (forall x, length x = length points ->
          @quad ROps H x = @qf_split ROps eps w (map prow0 (@split_table ROps cross_pts simplex_for simplices points)) x)
    /\ (0 < eps -> forall x, length x = length points -> (exists i, nth i x 0 <> 0) -> 0 < @quad ROps H x).
Proof. exact T_delaunay_split_schemes. Qed.

(* ---------------- inversion.regularization_term (phase 3; proof in Proofs/C07Term.v) ----------------
   s_r^T H_r s_r with s_r = reconstruction_reduced, H_r = regularization_matrix_reduced is the sum over the REGULARIZED objects, in
   list order, of the quadratic forms of the objects' own matrices on their slices of the reconstruction *)
Theorem C07_regularization_term : forall (objs : list (nat * option (list (list R)))) (x : list R),
  Forall (fun o => match snd o with Some H => length H = fst o /\ Forall (fun r => length r = fst o) H | None => True end) objs ->
  length x = totalp objs -> @reg_term ROps objs x = @term_blocks ROps objs x.
Proof. exact T_reg_term. Qed.
Theorem C07_regularization_term_nonneg : forall (objs : list (nat * option (list (list R)))),
  Forall (fun o => match snd o with Some H => forall y, 0 <= @quad ROps H y | None => True end) objs ->
  forall x, 0 <= @term_blocks ROps objs x.
Proof. exact term_blocks_nonneg. Qed.

(* ---------------- non-vacuity ---------------- *)
(* a 2x3 rectangular mesh: neighbour lists as rectangular_neighbors_from returns them *)
Example C07_nb_ok_rect23 : nb_ok [[1; 3]; [0; 2; 4]; [1; 5]; [0; 4]; [1; 3; 5]; [2; 4]]%nat = true.
Proof. vm_compute. reflexivity. Qed.
(* a multigraph with an isolated pixel and a duplicated edge *)
Example C07_nb_ok_multi : wnb_ok [1; 2; 3; 4] [[1; 1; 2]; [0; 0]; [0]; []]%nat = true.
Proof. vm_compute. reflexivity. Qed.
(* two pixels, 8 cross rows of width 3: single-vertex rows and an interior row with both vertices *)
Example C07_split_rows_ok :
  split_rows_ok 3 [([0; -1; -1]%Z, 1%nat, [1; 0; 0]); ([1; 0; -1]%Z, 2%nat, [/2; /2; 0]); ([1; -1; -1]%Z, 1%nat, [1; 0; 0]);
                   ([0; -1; -1]%Z, 1%nat, [1; 0; 0]); ([1; -1; -1]%Z, 1%nat, [1; 0; 0]); ([0; 1; -1]%Z, 2%nat, [/2; /2; 0]);
                   ([0; -1; -1]%Z, 1%nat, [1; 0; 0]); ([1; -1; -1]%Z, 1%nat, [1; 0; 0])] = true.
Proof. vm_compute. reflexivity. Qed.
Example C07_prows_ok : prows_ok [[(0%nat, 1)]; [(1%nat, /2); (0%nat, /2)]; [(1%nat, 1)]; [(0%nat, 1)]; [(1%nat, 1)]; [(0%nat, /2); (1%nat, /2)]; [(0%nat, 1)]; [(1%nat, 1)]] = true.
Proof. vm_compute. reflexivity. Qed.
(* the hypotheses of C07_kernel_scheme_spd_partial are satisfiable: one point, constant profile, C = [[2]], K = [[1/2]] *)
Example C07_kernel_hypotheses_satisfiable :
  let pts := [(0, 0)] in let kern := fun _ : R => 1 in let K := [[/2]] in
  (forall x, length x = length pts -> (exists i, nth i x 0 <> 0) -> 0 < @quad ROps (@cov_matrix ROps 1 kern pts) x)
  /\ (length K = length pts /\ Forall (fun r => length r = length pts) K)
  /\ (forall x, length x = length pts -> @mat_vec ROps (@cov_matrix ROps 1 kern pts) (@mat_vec ROps K x) = x).
Proof.
  cbv zeta. split; [|split].
  - intros [|a [|b x]] Hl [i Hi]; try discriminate.
    destruct i as [|[|i]]; cbn in Hi; try lra.
    vm_compute. nra.
  - split; [reflexivity|repeat constructor].
  - intros [|a [|b x]] Hl; try discriminate. vm_compute. f_equal. lra.
Qed.
(* the hypotheses of C07_reduced_positive_definite / C07_inversion_matrices_symmetric are satisfiable by a mixed list:
   an object without regularization between two regularized ones (the first a 1 x 1 block, the last a 2 x 2 one) *)
Example C07_mixed_inversion_hypotheses :
  let objs := [(1%nat, Some [[2]]); (2%nat, None); (2%nat, Some [[2; -1]; [-1; 2]])] in
  Forall (fun o => match snd o with Some H => length H = fst o /\ Forall (fun r => length r = fst o) H | None => True end) objs
  /\ Forall (fun o => match snd o with
                      | Some H => forall x, length x = length H -> (exists i, nth i x 0 <> 0) -> 0 < @quad ROps H x
                      | None => True end) objs
  /\ Forall (fun o => match snd o with Some H => forall a b, @mget ROps H a b = @mget ROps H b a | None => True end) objs
  /\ total (map (@obj_matrix ROps) (filter (@has_reg ROps) objs)) = 3%nat.
Proof.
  cbv zeta. split; [|split; [|split]].
  - repeat constructor.
  - repeat constructor; cbn [snd].
    + intros [|a [|b x]] Hl [i Hi]; try discriminate. destruct i as [|i]; [|destruct i; cbn in Hi; lra]. cbn in Hi. vm_compute. nra.
    + intros [|a [|b [|c x]]] Hl [i Hi]; try discriminate.
      assert (a <> 0 \/ b <> 0) as Hab by (destruct i as [|[|i]]; cbn in Hi; [left|right|destruct i]; lra).
      assert (0 < a * a + b * b) as Hp
        by (destruct Hab as [H|H]; [destruct (Rtotal_order a 0) as [?|[?|?]]|destruct (Rtotal_order b 0) as [?|[?|?]]]; try lra; nra).
      pose proof (Rle_0_sqr (a - b)) as Hq. unfold Rsqr in Hq. vm_compute. nra.
  - repeat constructor; cbn [snd]; intros a b; destruct a as [|[|[|a]]], b as [|[|[|b]]]; reflexivity.
  - reflexivity.
Qed.
Example C07_nonzero_vector : exists i, nth i [0; 0; 1; 0; 0; 0] 0 <> 0.
Proof. exists 2%nat. cbn. apply R1_neq_R0. Qed.

(* phase 3 hypotheses are satisfiable *)
(* scipy's contract on a square cut into two triangles: (indptr, indices) of vertex_neighbor_vertices *)
Example C07_vnv_ok_square : vnv_ok 4 [[0; 1; 2]; [0; 2; 3]]%nat [0; 3; 5; 8; 10]%nat [1; 2; 3; 0; 2; 0; 1; 3; 0; 2]%nat = true.
Proof. vm_compute. reflexivity. Qed.
(* a hub with five spokes: degree 5 at vertex 0 *)
Example C07_vnv_ok_hub : vnv_ok 6 [[0; 1; 2]; [0; 2; 3]; [0; 3; 4]; [0; 4; 5]; [0; 5; 1]]%nat [0; 5; 8; 11; 14; 17; 20]%nat
  [1; 2; 3; 4; 5; 0; 2; 5; 0; 1; 3; 0; 2; 4; 0; 3; 5; 0; 4; 1]%nat = true.
Proof. vm_compute. reflexivity. Qed.
(* pixel signals: two pixels, an interpolated row and a single-vertex row; data values 2 and 1 *)
Example C07_pixel_signals_hypotheses :
  let rows : list (@sig_row ROps) := [([0; 1]%Z, 2%nat, [/2; /2], 0%nat); ([1; -1]%Z, 1%nat, [1; 0], 1%nat)] in
  let adapt := [2; 1] in
  forallb (raw_row_ok 2 (length adapt)) rows = true /\ (0 < 2)%nat
  /\ @list_max ROps (map (@raw_signal ROps (map (prow_of adapt) rows)) (seq 0 2)) <> 0
  /\ Forall (fun pr : list nat * list R => Forall (fun v => 0 <= v) (snd pr)) (map (prow_of adapt) rows)
  /\ 0 < @list_max ROps (map (@raw_signal ROps (map (prow_of adapt) rows)) (seq 0 2)).
Proof.
  cbv zeta.
  assert (E : @list_max ROps (map (@raw_signal ROps (map (prow_of [2; 1]) [([0; 1]%Z, 2%nat, [/2; /2], 0%nat); ([1; -1]%Z, 1%nat, [1; 0], 1%nat)])) (seq 0 2)) = 1).
  { cbv -[Rplus Rmult Rinv Rltb Rdiv IZR Rminus Ropp Reqb].
    replace ((0 + (0 + 2 * / 2) + 0) / 1) with 1 by field. replace ((0 + (0 + 2 * / 2) + (0 + 1)) / 2) with 1 by field.
    destruct (Rltb 1 1) eqn:X; reflexivity. }
  split; [vm_compute; reflexivity|]. split; [repeat constructor|]. rewrite E. split; [lra|]. split; [|lra].
  cbv -[Rplus Rmult Rinv Rltb Rdiv IZR Rminus Ropp Reqb Rle]. repeat constructor; lra.
Qed.
(* two distinct points for the two-point kernel theorems; three for the exponential one *)
Example C07_kernel_small_hypotheses : (0 < / 100000000) /\ (0 < 3 / 2) /\ length [1; -1] = 2%nat /\ (exists i, nth i [1; -1] 0 <> 0).
Proof. split; [lra|]. split; [lra|]. split; [reflexivity|]. exists 0%nat. cbn. lra. Qed.
(* one triangle with its 12 cross points (find_simplex: 0 inside, -1 outside) *)
Example C07_split_table_hypotheses :
  let points := [(0, 0); (0, 4); (4, 0)] in let simplices := [[0; 1; 2]%Z] in
  let simplex_for := [0; -1; 0; -1; 0; -1; -1; -1; -1; -1; -1; -1]%Z in
  points <> [] /\ length (repeat (1, 1) 12) = (4 * length points)%nat /\ length simplex_for = length (repeat (1, 1) 12)
  /\ (forall row, In row simplices -> exists a b c, row = [a; b; c] /\ (0 <= a < Z.of_nat (length points))%Z /\ (0 <= b < Z.of_nat (length points))%Z
                                                 /\ (0 <= c < Z.of_nat (length points))%Z /\ a <> b /\ a <> c /\ b <> c)
  /\ (forall t, In t simplex_for -> t = (-1)%Z \/ (0 <= t < Z.of_nat (length simplices))%Z).
Proof.
  cbv zeta. split; [discriminate|]. split; [reflexivity|]. split; [reflexivity|]. split.
  - intros row [<-|[]]. exists 0%Z, 1%Z, 2%Z. cbn. repeat split; try reflexivity; try discriminate; lia.
  - intros t Ht. cbn in Ht. repeat (destruct Ht as [<-|Ht]; [try (left; reflexivity); right; cbn; lia|]). destruct Ht.
Qed.

Print Assumptions C07_constant_quadratic_form.
Print Assumptions C07_qf_constant_meaning.
Print Assumptions C07_constant_size.
Print Assumptions C07_constant_symmetric.
Print Assumptions C07_constant_positive_definite.
Print Assumptions C07_constant_asymmetric_neighbours_refuted.
Print Assumptions C07_constant_zeroth_quadratic_form.
Print Assumptions C07_constant_zeroth_size.
Print Assumptions C07_constant_zeroth_symmetric.
Print Assumptions C07_constant_zeroth_positive_definite.
Print Assumptions C07_zeroth_quadratic_form.
Print Assumptions C07_zeroth_size_symmetric.
Print Assumptions C07_zeroth_positive_definite.
Print Assumptions C07_weighted_quadratic_form.
Print Assumptions C07_qf_weighted_meaning.
Print Assumptions C07_weighted_size.
Print Assumptions C07_weighted_symmetric.
Print Assumptions C07_weighted_positive_definite.
Print Assumptions C07_adaptive_weights.
Print Assumptions C07_brightness_zeroth_quadratic_form.
Print Assumptions C07_brightness_zeroth_psd.
Print Assumptions C07_brightness_zeroth_size_symmetric.
Print Assumptions C07_split_quadratic_form.
Print Assumptions C07_qf_split_prepared_meaning.
Print Assumptions C07_split_size.
Print Assumptions C07_split_symmetric.
Print Assumptions C07_split_positive_definite.
Print Assumptions C07_reg_split_row.
Print Assumptions C07_split_cross_pipeline.
Print Assumptions C07_qf_split_meaning.
Print Assumptions C07_reduced_is_assembly_of_regularized.
Print Assumptions C07_rect_neighbors_all_shapes.
Print Assumptions C07_rectangular_mesh_constant.
Print Assumptions C07_rectangular_mesh_adaptive.
Print Assumptions C07_covariance_size_symmetric.
Print Assumptions C07_kernel_scheme_spd_partial.
Print Assumptions C07_block_placement_in_order.
Print Assumptions C07_assembly_size.
Print Assumptions C07_none_is_zero_block.
Print Assumptions C07_none_block_size.
Print Assumptions C07_assembly_quadratic_form.
Print Assumptions C07_assembly_symmetric.
Print Assumptions C07_assembly_psd.
Print Assumptions C07_assembly_positive_definite.
Print Assumptions C07_reduced_positive_definite.
Print Assumptions C07_inversion_matrices_symmetric.
Print Assumptions C07_delaunay_neighbors.
Print Assumptions C07_delaunay_neighbors_array.
Print Assumptions C07_delaunay_mesh_constant.
Print Assumptions C07_delaunay_mesh_adaptive.
Print Assumptions C07_pixel_signals_model_is_spec.
Print Assumptions C07_pixel_signals_unit_interval.
Print Assumptions C07_integer_powers_are_unit_powers.
Print Assumptions C07_adaptive_weights_on_unit_signals.
Print Assumptions C07_covariance_entries.
Print Assumptions C07_covariance_diagonal_one_plus_ridge.
Print Assumptions C07_kernel_profiles_in_unit_interval.
Print Assumptions C07_covariance_pd_two_points.
Print Assumptions C07_covariance_pd_three_points_exponential.
Print Assumptions C07_kernel_scheme_spd_two_points.
Print Assumptions C07_kernel_scheme_spd_three_points_exponential.
Print Assumptions C07_delaunay_split_table_ok.
Print Assumptions C07_delaunay_mesh_split_schemes.
Print Assumptions C07_regularization_term.
Print Assumptions C07_regularization_term_nonneg.
