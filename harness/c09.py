"""C09 -- over-sampling partitions pixels uniformly and bins by exact per-pixel means; decorator; iterative rule."""
import itertools
from fractions import Fraction as F
import numpy as np
from harness.common import cz, cq, cnat, cbool, clist, ctup, copt, cres, call_res, import_aa, frac

ID = "C09"
GEN = []
PROPS = "Props/C09.v"
COQ_CHECK = ("Model.C09h", "hcheck")
COQ_FALLBACK = ("Model.C09h", "hspec_ok")
COQ_IMPORTS = "From PAV Require Import Base.NumOps."
SHARD = 150
RULE = ("(a) exhaustive: every boolean mask of every shape with H*W <= 6 (quick) / <= 8 (thorough), uniform sub-size 1, 2, 4 "
        "(+3 under tolerance), through OverSamplerUniform (.over_sampled_grid, .slim_for_sub_slim, .binned_array_2d_from, "
        ".sub_pixel_areas, .sub_mask_native_for_sub_mask_slim) and the util functions; (b) random masks up to 6x6 with <= 16 "
        "unmasked pixels, anisotropic dyadic pixel scales, origins k/4, per-pixel sub-size maps from {1,2,4,8} (int- and float-typed), user functions "
        "= random polynomials of degree <= 3 in (y|abs y, x|abs x) with coefficients k/4 (exact in double), through "
        "OverSamplerUniform.array_via_func_from, @over_sample on Grid2DOverSampled, Grid2D.from_mask / GridsDataset (uniform, non_uniform, pixelization) grids with "
        "OverSamplingUniform(int | Array2D) and OverSamplingIterate, and OverSamplerIterate.array_via_func_from with "
        "schedules of 1-4 steps from {1,2,4,8}, dyadic and 0.9999-style thresholds, optional absolute tolerance; a directed stream "
        "with the threshold / absolute-tolerance decision exactly ON the boundary (f = c*y^2, pixel centres at |y| = ps/4); functions "
        "vanishing at every pixel centre are generated on purpose (known finding level0-all-zero); (c) tolerance stream "
        "(exact=false, 1e-9): sub-sizes 3,5,6,7 and pixel scales 3/2, 3, 0.1. Iterative cases whose threshold decision lies "
        "within 1e-6 of the boundary (but not exactly on it) are skipped and counted. (d) HISTORIES (one run_case = one history, "
        "replayable alone): k = 3-4 different functions (bowls K + a(y-y0)^2 + b(x-x0)^2 centred at different / mirrored positions, "
        "a repeat of the first, a random polynomial) through ONE OverSamplerIterate, through ONE Grid2D(over_sampling=OverSamplingIterate) "
        "(from_mask, GridsDataset, derived grids: arithmetic result / re-wrapped / native->slim) and through ONE Grid2D with "
        "OverSamplingUniform(int | map), each result compared with the model on that function alone; ONE OverSamplerUniform with "
        "random step lists (cached over_sampled_grid / slim_for_sub_slim / sub_mask_native_for_sub_mask_slim read repeatedly, "
        "sub_pixel_areas, binning, functions, in-place edits sub_size[i] = s before the first cached read; int- and map-constructed, "
        "maps built from a native 2-D array or by arithmetic); sequences of single operations in one process on fresh objects built "
        "from RELATED inputs (same shape and pixel count with permuted / flipped mask, other origin, other scales) and on SHARED "
        "objects (one Mask2D / sub-size map / over sampler / OverSampling* configuration object / GridsDataset / Grid2D wherever the "
        "construction parameters coincide; one OverSampling configuration object used for several masks). After every history the "
        "caller's inputs (mask, map, sub-values, grid values, arrays given to the util functions) must be unchanged and every earlier "
        "result must still hold what it held when returned. (e) value ranges: functions scaled by 2^-40..2^30 (with scaled absolute "
        "tolerances), functions vanishing at SOME pixel centres, functions whose sub-size-2 mean is exactly 0 in a row of pixels "
        "with a positive centre value. (f) input KINDS, in every stream: user functions that return INTEGER / BOOL arrays (indicator p > c, "
        "count of thresholds passed, sign, floor of a polynomial p; boundaries directed through pixel centres / corners: half- and quarter-covered "
        "pixels) as bool / int64 / int32 / int16 / int8 / uint8 / float32 / float16 / float64 arrays, Python lists or ArrayIrregular objects, and "
        "real-valued functions as float32 arrays (where exact), lists, ArrayIrregular; sub-values for binned_array_2d_from in the same dtypes / "
        "containers (the mean of integer sub-values is compared with the exact rational mean); integer-typed pixel scales and origins; masks given "
        "as int arrays / lists of lists; sub-size maps as int32 arrays / lists; instances of user SUBCLASSES of Grid2D, OverSamplingUniform, "
        "OverSamplingIterate, Grid2DOverSampled. After every history also: every array a user function returned and the attributes of every "
        "OverSampling* configuration object / OverSamplerIterate must be unchanged. Integer-valued functions on non-dyadic geometry are skipped "
        "(and counted) when a sub-pixel centre lies within 1e-6 of a jump. (g) HELD points: @over_sample on Grid2DOverSampled(grid=held, over_sampler) with "
        "held = the sampler's uniform sub-centres displaced by a dyadic deflection field / a smooth linear map / a constant shift / in one pixel only, permuted "
        "within each pixel, reversed, or arbitrary points (as Grid2DIrregular, arithmetic result on the sampler's own grid, ndarray, list, user subclass), "
        "int- and map-constructed samplers, 1x1 masks, as steps of the one-sampler histories and shared sequences (several different held grids through one "
        "sampler), tolerance stream; @over_sample on Grid2D objects whose values are not the pixel centres of their mask (sub-size 1 / all-ones map / map / "
        "iterate). The held points must be unchanged after the call; in 30% of the cases the user then edits held points IN PLACE and calls the same profile "
        "with the SAME Grid2DOverSampled again (second result = the model on the edited points, first result unchanged). distinct = distinct JSON input.")
EXHAUSTIVE = {
    "quick": "all boolean masks of all shapes with H*W <= 6 (394 masks): over-sampled grid at uniform sub-size 1 and 2 (and 4 for every third mask); "
             "slim_for_sub_slim and binning of distinct integers at one of these sub-sizes per mask (rotating)",
    "thorough": "all boolean masks of all shapes with H*W <= 8 x uniform sub-size {1,2,4}",
}
TRUSTED = ["state kept by OverSamplerIterate / OverSampling* configuration objects / GridsDataset between calls is NOT modelled (the model is the pure function): tied by the shared-object sequences only",
           "correspondence harness harness/c09.py (the user function is the SAME coefficient list (+ post-composition indicator / count / sign / floor) "
           "on both sides: numpy evaluation in the implementation, eval_ufun at QOps in the model; the dtype / container the function returns its "
           "values in is not part of the mathematical function and does not appear in the model)",
           "Array2D slim/native conversion modelled structurally (Model.C09.to_native / to_slim; subject of C01)",
           "numpy float64 semantics of x / 0.0 = inf in threshold_mask_via_arrays_jit_from (numba absent), modelled by an explicit branch"]
ASSUMPTIONS = ["the sub-size map and the mask are not edited in place after a cached property of the over sampler has been read (cached_property by design)",
               "user functions are pointwise functions of (y, x) (func(grid)[k] = f(grid[k]))",
               "len(sub_size) = pixels_in_mask, sub-sizes >= 1, pixel scales non-zero, rectangular mask",
               "fractional_accuracy > 0 when set (with a threshold <= 0 the code accepts pixels whose ratio is undefined)",
               "real arithmetic: floating-point rounding is not modelled; exact streams use dyadic inputs, tolerance streams 1e-9"]

SKIPPED_IN_BAND = [0]
def extra_evidence():
    return {"skipped_in_band": SKIPPED_IN_BAND[0]}

# ----------------------------------------------------------------------------- helpers
def fr(x): return F(x)
def fs(x): return str(F(x))           # JSON form of a rational
def cmask(m): return clist([clist([cbool(b) for b in row]) for row in m])
def cnats(l): return clist([cnat(x) for x in l])
def cqq(p): return ctup([cq(F(p[0])), cq(F(p[1]))])
def cqs(l): return clist([cq(x) for x in l])
def cqqs(l): return clist([ctup([cq(a), cq(b)]) for a, b in l])
def cpost(f):
    p = f.get("post")
    if not p: return "PId"
    if p["k"] == "count": return f"(PCount ({int(p['off'])})%Z {cqs([F(c) for c in p['cuts']])})"
    return {"sign": "PSign", "floor": "PFloor"}[p["k"]]
def cufun(f):
    ts = clist([ctup([cnat(i), cnat(j), cq(F(c))]) for i, j, c in f["terms"]])
    return f"(Build_ufun Q {cbool(f['absy'])} {cbool(f['absx'])} {ts} {cpost(f)})"
def cos_(os):
    if os["kind"] == "int": return f"(CUniformInt {cnat(os['s'])})"
    if os["kind"] == "map": return f"(CUniformMap {cnats(os['ss'])})"
    return f"(CIterate {copt(os['thr'], lambda t: cq(F(t)))} {copt(os['rel'], lambda t: cq(F(t)))} {cnats(os['steps'])})"

def unmasked(m): return [(y, x) for y, row in enumerate(m) for x, b in enumerate(row) if not b]

def np_ufun(f):
    """the user function, evaluated by numpy on arrays of y, x (repeated multiplication: exact on dyadic inputs)"""
    def powr(a, n):
        r = np.ones_like(a)
        for _ in range(n): r = r * a
        return r
    def g(y, x):
        u = np.abs(y) if f["absy"] else y
        v = np.abs(x) if f["absx"] else x
        acc = np.zeros_like(y)
        for i, j, c in f["terms"]:
            acc = acc + float(F(c)) * powr(u, i) * powr(v, j)
        v = as_kind(np_post(f.get("post"), acc), f.get("dt"))
        if f.get("cont") == "irr" and not isinstance(v, list):      # what @aa.grid_dec.to_array hands back on an irregular grid
            v = import_aa().ArrayIrregular(values=v)
        RETS.append((v, ret_values(v)))
        return v
    return g
RETS = []       # everything the user functions returned in this run_case: a call must not modify it (a profile may return a stored array)
def ret_values(v): return [float(x) for x in (v if isinstance(v, list) else np.asarray(v).ravel())]
def np_post(p, acc):
    """what users write with comparisons: indicator / count / sign / floor functions return BOOL or INTEGER arrays"""
    if not p: return acc
    if p["k"] == "count":
        if p["off"] == 0 and len(p["cuts"]) == 1: return acc > float(F(p["cuts"][0]))            # a bool array
        r = np.full(acc.shape, int(p["off"]), dtype=np.int64)
        for c in p["cuts"]: r = r + (acc > float(F(c)))
        return r
    if p["k"] == "sign": return np.sign(acc).astype(np.int64)
    if p["k"] == "floor": return np.floor(acc).astype(np.int64)
    raise ValueError(p)
def as_kind(v, dt):
    """the dtype / container of the returned array (the VALUES are the same: every cast below is exact)"""
    if dt is None: return v
    if dt == "list": return v.tolist()
    if dt == "f32ok":           # float32 where every value is representable, else unchanged
        w = v.astype(np.float32)
        return w if np.array_equal(w.astype(np.float64), v.astype(np.float64)) else v
    return v.astype(dt)
def fr_post(p, v):
    if not p: return v
    if p["k"] == "count": return F(int(p["off"]) + sum(1 for c in p["cuts"] if F(c) < v))
    if p["k"] == "sign": return F((v > 0) - (v < 0))
    if p["k"] == "floor": return F(v.numerator // v.denominator)
    raise ValueError(p)
def fr_ufun(f, y, x):
    u = abs(y) if f["absy"] else y
    v = abs(x) if f["absx"] else x
    return fr_post(f.get("post"), sum((F(c) * u ** i * v ** j for i, j, c in f["terms"]), F(0)))

# independent exact reference used ONLY to classify inputs (finding class, decision margins) -- never compared
def ref_centre(m, ps, og, p):
    H, W = len(m), len(m[0])
    return (og[0] + (F(H - 1, 2) - p[0]) * ps[0], og[1] + (p[1] - F(W - 1, 2)) * ps[1])
def ref_level(f, m, ps, og, p, s):
    cy, cx = ref_centre(m, ps, og, p)
    tot = F(0)
    for a in range(s):
        for b in range(s):
            tot += fr_ufun(f, cy + ps[0] / 2 - (a + F(1, 2)) * ps[0] / s, cx - ps[1] / 2 + (b + F(1, 2)) * ps[1] / s)
    return tot / (s * s)
def iter_class(f, m, ps, og, thr, steps):
    """(level0_all_zero, in_band): exact classification of an iterative case"""
    ps = (F(ps[0]), F(ps[1])); og = (F(og[0]), F(og[1]))
    px = unmasked(m)
    l0 = [fr_ufun(f, *ref_centre(m, ps, og, p)) for p in px]
    allzero = all(v == 0 for v in l0)
    band = False
    if thr is not None and steps:
        t = F(thr)
        for p, v0 in zip(px, l0):
            prev = v0
            for s in steps[:-1]:
                cur = ref_level(f, m, ps, og, p, s)
                if prev > 0 and cur != 0:
                    r = prev / cur
                    if r > 1: r = 1 / r
                    if r != t and abs(r - t) < F(1, 10 ** 6): band = True
                    if r != 1 and abs(prev / cur - 1) < F(1, 10 ** 9): band = True
                prev = cur
    return allzero, band

# ----------------------------------------------------------------------------- generators
DY_PS = [F(1, 4), F(1, 2), F(1), F(2), F(4)]
TOL_PS = [F(3, 2), F(3), F(0.1), F(1, 2), F(1)]
def all_masks(h, w):
    for bits in itertools.product([True, False], repeat=h * w):
        yield [list(bits[r * w:(r + 1) * w]) for r in range(h)]
def rand_mask(rng, hmax=6, wmax=6, nmax=16):
    while True:
        h, w = rng.randint(1, hmax), rng.randint(1, wmax)
        p = rng.choice([0.2, 0.5, 0.8])
        m = [[rng.random() < p for _ in range(w)] for _ in range(h)]
        n = len(unmasked(m))
        if 1 <= n <= nmax: return m
def rand_geo(rng, exact=True):
    S = DY_PS if exact else TOL_PS
    ps = [fs(rng.choice(S)), fs(rng.choice(S))]
    if rng.random() < 0.25: ps[1] = ps[0]
    og = [fs(F(rng.randint(-8, 8), 4)), fs(F(rng.randint(-8, 8), 4))]
    if rng.random() < 0.2: og = ["0", "0"]
    return ps, og
def rand_poly(rng, kind=None):
    kind = kind or rng.choice(["const", "affine", "poly", "poly", "poly", "abs"])
    c = lambda: fs(F(rng.randint(-8, 8), 4))
    if kind == "const": terms = [[0, 0, c()]]
    elif kind == "affine": terms = [[0, 0, c()], [1, 0, c()], [0, 1, c()]]
    else:
        terms = []
        for _ in range(rng.randint(1, 5)):
            i = rng.randint(0, 3); j = rng.randint(0, 3 - i)
            terms.append([i, j, c()])
    absy = kind == "abs" and rng.random() < 0.7
    absx = kind == "abs" and rng.random() < 0.7
    return {"absy": absy, "absx": absx, "terms": terms}
def scaled(f, k):
    """every coefficient times 2^k (exact); integer-valued functions (post) are left as they are"""
    if f.get("post"): return f
    g = dict(f); g["terms"] = [[i, j, fs(F(c) * F(2) ** k)] for i, j, c in f["terms"]]
    return g
INT_DT = ["int64", "int64", "int32", "int16", "int8", "float32", "float16", "float64", "list", None]
def rand_ifun(rng, m=None, ps=None, og=None):
    """INTEGER- / BOOL-valued user functions: indicator (p > c), count of thresholds passed, sign, floor of a polynomial p;
    returned as bool / int64 / int32 / int16 / int8 / uint8 / float32 / float16 arrays or as a Python list.  With a mask:
    the boundary p = c goes through a pixel centre or a pixel corner (half / quarter covered pixels)"""
    c = lambda: F(rng.randint(-8, 8), 4)
    r = rng.random()
    if m is not None and unmasked(m) and r < 0.6:
        psf = (F(ps[0]), F(ps[1])); ogf = (F(og[0]), F(og[1]))
        cy, cx = ref_centre(m, psf, ogf, rng.choice(unmasked(m)))
        if rng.random() < 0.3: cy += psf[0] / 2 * rng.choice([-1, 1]); cx += psf[1] / 2 * rng.choice([-1, 1])
        a, b = rng.choice([(1, 0), (0, 1), (1, 1), (1, -1), (-1, 0), (0, -1), (2, 1), (1, -2)])
        terms = [[0, 0, fs(-a * cy - b * cx)], [1, 0, fs(a)], [0, 1, fs(b)]]
        if rng.random() < 0.3: terms += [[2, 0, fs(F(rng.randint(-2, 2), 4))], [0, 2, fs(F(rng.randint(-2, 2), 4))]]
        f = {"absy": False, "absx": False, "terms": terms}
    else:
        f = rand_poly(rng, rng.choice(["affine", "affine", "poly", "abs"]))
    k = rng.choice(["ind", "ind", "ind", "count", "count", "sign", "floor"])
    if k == "ind":
        f["post"] = {"k": "count", "off": 0, "cuts": [rng.choice(["0", "0", "0", fs(c())])]}
        f["dt"] = rng.choice([None, None, None, "bool", "uint8"] + INT_DT)          # None: the bool array of the comparison itself
    elif k == "count":
        f["post"] = {"k": "count", "off": rng.choice([0, 1, 1, 2, -1, -3]), "cuts": sorted({fs(c()) for _ in range(rng.choice([1, 2, 3]))}, key=F)}
        f["dt"] = rng.choice(INT_DT)
    elif k == "sign":
        f["post"] = {"k": "sign"}; f["dt"] = rng.choice(INT_DT)
    else:
        f["post"] = {"k": "floor"}; f["dt"] = rng.choice(["int64", "int32", "float32", "float64", "list", None])
    if f["dt"] != "list" and rng.random() < 0.15: f["cont"] = "irr"
    return f
def rand_fun(rng, m=None, ps=None, og=None, p_int=0.35):
    """a user function: real-valued polynomial (float64; sometimes float32 where exact, or a Python list) or integer-valued"""
    if rng.random() < p_int: return rand_ifun(rng, m, ps, og)
    f = rand_poly(rng)
    r = rng.random()
    if r < 0.08: f["dt"] = "list"
    elif r < 0.2: f["dt"] = "f32ok"
    elif r < 0.3: f["cont"] = "irr"
    return f
BIN_DT = [None, None, "int64", "int32", "int16", "int8", "bool", "uint8", "float32", "float16", "list", "ilist", "irr", "iirr"]
def rand_subvalues(rng, tot, dt):
    """sub-values for binned_array_2d_from, as JSON rationals; `dt` = dtype / container they are passed in (exact casts)"""
    if dt in ("bool",): return [str(rng.randint(0, 1)) for _ in range(tot)]
    if dt in ("uint8",): return [str(rng.randint(0, 9)) for _ in range(tot)]
    if dt in ("int64", "int32", "int16", "int8", "ilist", "iirr"): return [str(rng.randint(-9, 9)) for _ in range(tot)]
    return [fs(F(rng.randint(-64, 64), 8)) for _ in range(tot)]
def np_subvalues(vals, dt, util=False):
    """vals: python floats"""
    if dt == "list": return np.array(vals, dtype=float) if util else list(vals)
    if dt == "ilist": return np.array([int(v) for v in vals]) if util else [int(v) for v in vals]
    if dt in ("irr", "iirr"):
        a = np.array(vals, dtype=float) if dt == "irr" else np.array([int(v) for v in vals])
        return a if util else import_aa().ArrayIrregular(values=a)
    return np.array(vals, dtype=float).astype(dt) if dt else np.array(vals, dtype=float)
def maybe_scaled(rng, f, p=0.15):
    return scaled(f, rng.choice([-40, -30, -20, 20, 30])) if rng.random() < p else f
def bowl(K, a, b, y0, x0):
    """K + a (y - y0)^2 + b (x - x0)^2"""
    return {"absy": False, "absx": False,
            "terms": [[0, 0, fs(K + a * y0 * y0 + b * x0 * x0)], [1, 0, fs(-2 * a * y0)], [2, 0, fs(a)], [0, 1, fs(-2 * b * x0)], [0, 2, fs(b)]]}
def sym_mask(rng, nmax=10):
    """all-unmasked or 4-fold symmetric masks: mirrored functions leave the same NUMBER of unresolved pixels at mirrored positions"""
    while True:
        h, w = rng.randint(1, 4), rng.randint(1, 4)
        if rng.random() < 0.5: m = [[False] * w for _ in range(h)]
        else:
            m = [[False] * w for _ in range(h)]
            for y in range((h + 1) // 2):
                for x in range((w + 1) // 2):
                    b = rng.random() < 0.3
                    m[y][x] = m[h - 1 - y][x] = m[y][w - 1 - x] = m[h - 1 - y][w - 1 - x] = b
        if 2 <= len(unmasked(m)) <= nmax: return m
def bowl_family(rng, m, ps, og, k):
    """k functions: compact dips at different / mirrored positions, a repeat of the first, sometimes a random polynomial"""
    psy, psx = F(ps[0]), F(ps[1]); ogy, ogx = F(og[0]), F(og[1]); H, W = len(m), len(m[0])
    def one(ky, kx):
        A, B = F(rng.choice([1, 1, 2, 4])), F(rng.choice([1, 1, 2, 4])); K = F(1, rng.choice([1, 2, 4, 8, 8]))
        return bowl(K, A / (psy * psy), B / (psx * psx), ogy + F(ky, 2) * psy, ogx + F(kx, 2) * psx), (A, B, K)
    ky, kx = rng.randint(-(H - 1), H - 1), rng.randint(-(W - 1), W - 1)          # half-pixel steps around the mask centre
    f1, (A, B, K) = one(ky, kx)
    def same(ky, kx): return bowl(K, A / (psy * psy), B / (psx * psx), ogy + F(ky, 2) * psy, ogx + F(kx, 2) * psx)
    mirrors = [same(-ky, kx), same(ky, -kx), same(-ky, -kx), same(ky + 2 * rng.choice([-1, 1]), kx), same(ky, kx + 2 * rng.choice([-1, 1]))]
    fs_ = [f1, rng.choice(mirrors)]
    while len(fs_) < k:
        r = rng.random()
        if r < 0.3: fs_.append(f1)                              # the same function again
        elif r < 0.6: fs_.append(rng.choice(mirrors))
        elif r < 0.85: fs_.append(one(rng.randint(-(H - 1), H - 1), rng.randint(-(W - 1), W - 1))[0])
        else: fs_.append(rand_fun(rng, m, ps, og, 0.5))
    return fs_
def permuted_mask(rng, m):
    """same shape, same number of unmasked pixels, other positions"""
    h, w = len(m), len(m[0])
    r = rng.random()
    if r < 0.3: return [row[::-1] for row in m]
    if r < 0.5: return m[::-1]
    bits = [b for row in m for b in row]; rng.shuffle(bits)
    return [bits[y * w:(y + 1) * w] for y in range(h)]
def partial_vanishing_poly(rng, m, ps, og):
    """zero at the pixel centres of one or two rows (or columns) of the mask, not elsewhere (in general)"""
    psf = (F(ps[0]), F(ps[1])); ogf = (F(og[0]), F(og[1]))
    cs = [ref_centre(m, psf, ogf, p) for p in unmasked(m)]
    ax = rng.choice([0, 1])
    vals = sorted(set(c[ax] for c in cs)); rng.shuffle(vals)
    base = [[0, 0, "1"]]
    for a in vals[:rng.choice([1, 1, 2])]:
        base = poly_mul(base, [[1, 0, "1"], [0, 0, fs(-a)]] if ax == 0 else [[0, 1, "1"], [0, 0, fs(-a)]])
    other = [[0, 0, fs(F(rng.randint(1, 8), 4))], [0, 1, fs(F(rng.randint(-4, 4), 4))]] if rng.random() < 0.5 else [[0, 0, fs(F(rng.choice([-2, 1, 3]), 2))]]
    t = poly_mul(base, other)
    return {"absy": False, "absx": False, "terms": t} if t else None
def level2_zero_poly(rng, m, ps, og):
    """c (1 - 16 (y - cy)^2 / psy^2): c > 0 at the centres of one row of pixels, mean over the 2x2 sub-grid exactly 0 there"""
    psy = F(ps[0]); psf = (psy, F(ps[1])); ogf = (F(og[0]), F(og[1]))
    cy = ref_centre(m, psf, ogf, rng.choice(unmasked(m)))[0]
    c = F(rng.choice([1, 2, 3]), rng.choice([1, 4])); q = 16 / (psy * psy)
    return {"absy": False, "absx": False, "terms": [[0, 0, fs(c * (1 - q * cy * cy))], [1, 0, fs(2 * c * q * cy)], [2, 0, fs(-c * q)]]}
def poly_mul(a, b):
    out = {}
    for i, j, c in a:
        for k, l, d in b:
            out[(i + k, j + l)] = out.get((i + k, j + l), F(0)) + F(c) * F(d)
    return [[i, j, fs(c)] for (i, j), c in sorted(out.items()) if c != 0]
def vanishing_poly(rng, m, ps, og):
    """a polynomial that is zero at every pixel centre of m (needs <= 2 distinct row or column centres), else None"""
    psf = (F(ps[0]), F(ps[1])); ogf = (F(og[0]), F(og[1]))
    cs = [ref_centre(m, psf, ogf, p) for p in unmasked(m)]
    ys = sorted(set(c[0] for c in cs)); xs = sorted(set(c[1] for c in cs))
    if len(ys) <= 2:
        base = [[0, 0, "1"]]
        for a in ys: base = poly_mul(base, [[1, 0, "1"], [0, 0, fs(-a)]])
    elif len(xs) <= 2:
        base = [[0, 0, "1"]]
        for a in xs: base = poly_mul(base, [[0, 1, "1"], [0, 0, fs(-a)]])
    else:
        return None
    other = [[0, 0, fs(F(rng.randint(1, 8), 4))], [0, 1, fs(F(rng.randint(-4, 4), 4))]] if rng.random() < 0.5 else [[0, 0, "1"]]
    t = poly_mul(base, other)
    return {"absy": False, "absx": False, "terms": t} if t else None
def ref_subpoints(m, ps, og, ss):
    """the uniform sub-pixel centres, one block (list of points) per unmasked pixel -- used only to BUILD held grids"""
    psf = (F(ps[0]), F(ps[1])); ogf = (F(og[0]), F(og[1])); out = []
    for p, s in zip(unmasked(m), ss):
        cy, cx = ref_centre(m, psf, ogf, p)
        out.append([(cy + psf[0] / 2 - (a + F(1, 2)) * psf[0] / s, cx - psf[1] / 2 + (b + F(1, 2)) * psf[1] / s) for a in range(s) for b in range(s)])
    return out
HELD_KINDS = ["deflect", "deflect", "deflect", "smooth", "smooth", "shift", "onepix", "perm", "arb", "rev", "uniform"]
def displaced(rng, pts, hk):
    """a list of points displaced as a ray-traced / deflected grid is: every displacement is a small dyadic (exact in double)"""
    d = lambda: F(rng.randint(-16, 16), 8)
    if hk == "deflect": return [(y + d(), x + d()) for y, x in pts]                  # an arbitrary deflection field
    if hk == "smooth":                                                               # beta = theta - alpha(theta), alpha linear
        a, b, c, e = (F(rng.choice([-2, -1, 1, 2, 3]), 4) for _ in range(4)); oy, ox = d(), d()
        return [(y - (a * y + b * x + oy), x - (c * y + e * x + ox)) for y, x in pts]
    if hk == "shift":
        dy, dx = d(), d()
        if dy == 0 and dx == 0: dy = F(1, 8)
        return [(y + dy, x + dx) for y, x in pts]
    if hk == "arb": return [(F(rng.randint(-32, 32), 8), F(rng.randint(-32, 32), 8)) for _ in pts]
    if hk == "rev": return list(pts[::-1])
    return list(pts)
def held_points(rng, m, ps, og, ss, hk=None):
    """the points a Grid2DOverSampled holds: the sampler's uniform sub-pixel centres displaced (deflection field, smooth lens-like map,
    constant shift, ONE pixel's points only), permuted within each pixel, reversed as a whole, or arbitrary points"""
    hk = hk or rng.choice(HELD_KINDS)
    blocks = ref_subpoints(m, ps, og, ss)
    if hk == "perm":
        for b in blocks: rng.shuffle(b)
    elif hk == "onepix" and blocks:
        i = rng.randrange(len(blocks)); blocks[i] = displaced(rng, blocks[i], rng.choice(["deflect", "shift"]))
    pts = [p for b in blocks for p in b]
    pts = displaced(rng, pts, hk)
    return [[fs(y), fs(x)] for y, x in pts], hk
def shifted_values(rng, m, ps, og):
    """values of a Grid2D that are NOT the pixel centres of its mask (a deflected / shifted image-plane grid)"""
    psf = (F(ps[0]), F(ps[1])); ogf = (F(og[0]), F(og[1]))
    cs = [ref_centre(m, psf, ogf, p) for p in unmasked(m)]
    return [[fs(y), fs(x)] for y, x in displaced(rng, cs, rng.choice(["deflect", "deflect", "smooth", "shift", "arb", "rev"]))]
HELD_CONT = ["irr", "irr", "arith", "arith", "nd", "irr_sub", "list"]
def rand_held(rng, m, ps, og, ss, exact=True, hk=None):
    if not exact and hk is None: hk = rng.choice([k for k in HELD_KINDS if k != "smooth"])      # absolute tolerance 1e-9: keep |coordinates| small
    pts, hk = held_points(rng, m, ps, og, ss, hk)
    return {"op": "held", "m": m, "ps": ps, "og": og, "ss": ss, "pts": pts, "hk": hk,
            "f": maybe_scaled(rng, rand_fun(rng, m, ps, og)) if exact else rand_fun(rng, p_int=0.0),
            "cont": rng.choice(HELD_CONT) if exact else rng.choice(["irr", "nd"]), "read_first": rng.random() < 0.4, "cls_sub": rng.random() < 0.15,
            "again": rand_again(rng) if exact and rng.random() < 0.3 else None}
def rand_again(rng):
    """in-place edits of the held points between two calls with the SAME Grid2DOverSampled: (index, dy, dx)"""
    return [[rng.randrange(1024), fs(F(rng.randint(-16, 16), 8)), fs(F(rng.choice([-8, -1, 1, 4, 24]), 8))] for _ in range(rng.choice([1, 1, 2, 5]))]
def rand_steps(rng):
    n = rng.choice([1, 2, 2, 3, 3, 4])
    if rng.random() < 0.6:
        return sorted(rng.sample([2, 4, 8], min(n, 3))) if n <= 3 else [1, 2, 4, 8]
    return [rng.choice([1, 2, 4, 8]) for _ in range(n)]
def rand_thr(rng):
    thr = rng.choice([None, "1/2", "3/4", "7/8", "15/16", "63/64", fs(F(0.9999)), fs(F(0.99)), "1", "5/4", "1/16"])
    rel = rng.choice([None, None, None, "0", "1/16", "1/4", "1", "8"])
    if thr is None and rel is None: thr = "3/4"
    return thr, rel

def gen_inputs(tier, rng):
    big = tier == "thorough"
    # (a) exhaustive small masks
    lim = 8 if big else 6
    i = 0; mi = 0
    for h in range(1, lim + 1):
        for w in range(1, lim // h + 1):
            for m in all_masks(h, w):
                n = len(unmasked(m)); mi += 1
                for sidx, s in enumerate((1, 2, 4)):
                    i += 1
                    rot = (mi + sidx) % 3            # rotates over the sub-sizes from mask to mask
                    via = "class" if (n > 0 and (mi // 3 + sidx) % 3 != 0) else "util"
                    ps, og = [["1", "1"], ["2", "1/2"], ["1/4", "4"]][i % 3], [["0", "0"], ["1/4", "-1/2"], ["-3/4", "2"]][(i // 3) % 3]
                    if big or s < 4 or rot == 0:
                        yield {"op": "grid", "m": m, "ps": ps, "og": og, "ss": [s] * n, "via": via, "int": via == "class", "gint": i % 2 == 0}
                    if big or rot == 0:      # quick tier: index table and binning at one (rotating) sub-size per mask
                        yield {"op": "slimsub", "m": m, "ss": [s] * n, "via": via, "int": via == "class"}
                        # distinct integers, passed as float64 / int64 / int32 / int16 / float32 arrays or a Python list (rotating)
                        yield {"op": "bin", "m": m, "ss": [s] * n, "arr": [str(3 * k - 7) for k in range(n * s * s)], "via": via, "int": via == "class",
                               "dt": [None, "int64", "int32", "ilist", "int16", "float32"][mi % 6]}
                if n > 0 and mi % 4 == 0:
                    yield {"op": "grid", "m": m, "ps": ["3/2", "1"], "og": ["1/4", "0"], "ss": [3] * n, "via": "class", "int": True}
                    yield {"op": "nativesub", "m": m, "ss": [2] * n, "via": "class", "int": True}
                yield {"op": "centres", "m": m, "ps": ["2", "1/2"], "og": ["1/4", "-1/2"], "via": "from_mask" if n and mi % 2 else "util"}
    # (b) random, exact
    nb = 2500 if big else 230
    for _ in range(nb):
        m = rand_mask(rng); n = len(unmasked(m)); ps, og = rand_geo(rng)
        uniform = rng.random() < 0.3
        ss = [rng.choice([1, 2, 4, 8])] * n if uniform else [rng.choice([1, 1, 2, 2, 4, 8]) for _ in range(n)]
        via = rng.choice(["class", "util"])
        fl = via == "class" and rng.random() < 0.4          # float-typed per-pixel map
        yield {"op": "grid", "m": m, "ps": ps, "og": og, "ss": ss, "via": via, "int": uniform and via == "class" and not fl, "fl": fl,
               "gint": rng.random() < 0.3, "mkind": rng.choice([None, None, "int", "list"]), "sskind": rng.choice([None, None, "int32", "list"])}
        yield {"op": "slimsub", "m": m, "ss": ss, "via": via, "int": False, "fl": fl}
        yield {"op": "nativesub", "m": m, "ss": ss, "via": via, "int": False, "fl": fl}
        tot = sum(s * s for s in ss)
        dt = rng.choice(BIN_DT)
        yield {"op": "bin", "m": m, "ss": ss, "arr": rand_subvalues(rng, tot, dt), "dt": dt, "via": via, "int": False, "fl": fl,
               "mkind": rng.choice([None, None, "int", "list"])}
        yield {"op": "areas", "m": m, "ps": ps, "ss": ss, "fl": fl, "gint": rng.random() < 0.3}
        f = maybe_scaled(rng, rand_fun(rng, m, ps, og))
        yield {"op": "viafunc", "m": m, "ps": ps, "og": og, "ss": ss, "f": f, "fl": fl, "via": rng.choice(["sampler", "sampler", "oversampled", "oversampled_sub"]),
               "mder": rng.choice([None, None, "array", "grid"]), "ssder": rng.choice([None, None, "native_in", "arith"]),
               "gint": rng.random() < 0.2, "sskind": rng.choice([None, None, None, "int32", "list"])}
        # decorator: uniform int / map / all-ones map / dataset grids
        r = rng.random()
        if r < 0.3: os = {"kind": "int", "s": rng.choice([1, 2, 4, 8])}
        elif r < 0.45: os = {"kind": "map", "ss": [1] * n}
        else: os = {"kind": "map", "ss": ss, "fl": rng.random() < 0.4, "ssder": rng.choice([None, None, None, "native_in", "arith"])}
        if rng.random() < 0.15: os["sub"] = True          # an instance of a user SUBCLASS of the configuration class
        yield {"op": "decor", "m": m, "ps": ps, "og": og, "os": os, "f": maybe_scaled(rng, rand_fun(rng, m, ps, og)),
               "via": rng.choice(["from_mask", "from_mask", "dataset", "dataset", "dataset_nu", "dataset_pixgrid",
                                  "derived_arith", "derived_rewrap", "derived_native_slim", "subclass"]),
               "mder": rng.choice([None, None, None, "array", "grid"]), "gint": rng.random() < 0.2}
    # (g) HELD points: the decorator on Grid2DOverSampled(grid=held, over_sampler) with held != the sampler's own uniform centres, and
    #     on a Grid2D whose values are not the pixel centres of its mask; uniform (int-constructed) and per-pixel maps
    for k in range(900 if big else 90):
        m = rand_mask(rng, 5, 5, 10) if k % 6 else [[False]]; n = len(unmasked(m)); ps, og = rand_geo(rng)
        as_int = rng.random() < 0.35
        ss = [rng.choice([1, 2, 2, 4, 8])] * n if as_int else [rng.choice([1, 1, 2, 2, 4, 4, 8]) for _ in range(n)]
        h = rand_held(rng, m, ps, og, ss); h["int"] = as_int
        if not as_int: h.update({"fl": rng.random() < 0.3, "ssder": rng.choice([None, None, "native_in", "arith"]), "sskind": rng.choice([None, None, "int32", "list"])})
        h["mder"] = rng.choice([None, None, None, "array", "grid"])
        yield h
        if k % 3 == 0:
            r = rng.random()
            if r < 0.4: os = {"kind": "int", "s": rng.choice([1, 1, 2, 4])}
            elif r < 0.7: os = {"kind": "map", "ss": [1] * n}
            elif r < 0.85: os = {"kind": "map", "ss": ss}
            else: thr, rel = rand_thr(rng); os = {"kind": "iter", "thr": thr, "rel": rel, "steps": rng.choice([[2, 4], [2], [1, 2]])}
            yield {"op": "decor", "m": m, "ps": ps, "og": og, "os": os, "f": rand_fun(rng, m, ps, og), "vals": shifted_values(rng, m, ps, og),
                   "via": rng.choice(["shift_arith", "shift_rewrap", "shift_dataset", "shift_subclass"])}
    # dataset pixelization default (sub_size 4)
    for _ in range(40 if big else 8):
        m = rand_mask(rng, 4, 4, 8); ps, og = rand_geo(rng)
        yield {"op": "grid", "m": m, "ps": ps, "og": og, "ss": [4] * len(unmasked(m)), "via": "dataset_pix", "int": True}
    # iterative scheme
    ni = 3000 if big else 300
    for k in range(ni):
        m = rand_mask(rng, 4, 4, 10); ps, og = rand_geo(rng)
        thr, rel = rand_thr(rng); steps = rand_steps(rng)
        f = None
        r = rng.random()
        if r < 0.12: f = vanishing_poly(rng, m, ps, og)
        elif r < 0.19: f = partial_vanishing_poly(rng, m, ps, og)
        elif r < 0.24: f = level2_zero_poly(rng, m, ps, og); steps = rng.choice([[2, 4], [2, 4, 8], [2, 2, 4]]); thr = thr or "1/2"
        elif r < 0.28: f = {"absy": False, "absx": False, "terms": [[0, 0, "0"]]}
        elif r < 0.35:   # positive, slowly varying: agreement is reached early
            f = {"absy": False, "absx": False, "terms": [[0, 0, fs(F(rng.randint(64, 256)))], [2, 0, fs(F(rng.randint(0, 8), 4))], [0, 2, fs(F(rng.randint(0, 8), 4))]]}
        elif r < 0.50:   # integer- / bool-valued functions (indicator, count, sign, floor) in bool / intN / float32 arrays or lists
            f = rand_ifun(rng, m, ps, og)
            if rng.random() < 0.5 and f["post"]["k"] == "count":
                f["post"]["off"] = rng.choice([1, 1, 2, 4])     # positive levels: ratios are defined
                if f["dt"] == "bool": f["dt"] = rng.choice(INT_DT)
            if len(steps) < 2 or rng.random() < 0.5: steps = rng.choice([[2, 4], [2, 4, 8], [2, 2, 4], [4, 8], [2, 4, 4]])
        if f is None: f = rand_fun(rng, p_int=0.0)
        if rng.random() < 0.15 and not f.get("post"):          # tiny / huge magnitudes; the absolute tolerance scales with the function
            e = rng.choice([-40, -30, -20, 20, 30]); f = scaled(f, e)
            if rel is not None: rel = fs(F(rel) * F(2) ** e)
        via = rng.choice(["class", "class", "decor", "dataset", "subclass"])
        ik = rng.random() < 0.2
        if via == "class": yield {"op": "iter", "m": m, "ps": ps, "og": og, "thr": thr, "rel": rel, "steps": steps, "f": f, "ikind": ik, "gint": rng.random() < 0.2}
        else: yield {"op": "decor", "m": m, "ps": ps, "og": og, "os": {"kind": "iter", "thr": thr, "rel": rel, "steps": steps, "sub": via == "subclass", "ikind": ik}, "f": f,
                     "via": {"decor": "from_mask", "dataset": "dataset", "subclass": "subclass"}[via], "gint": rng.random() < 0.2}
    # decisions exactly ON the boundary: f = c*y^2, a row of pixel centres at |y| = ps_y/4 => level_0/level_2 = 1/2 exactly
    # there (threshold 1/2 must ACCEPT: `<`, not `<=`); level_2 - level_0 = c*ps_y^2/16 at every pixel (absolute tolerance
    # equal to it must ACCEPT: `>`, not `>=`)
    for k in range(240 if big else 36):
        m = rand_mask(rng, 4, 4, 10); ps, og = rand_geo(rng)
        H = len(m); y0 = rng.choice(unmasked(m))[0]; psy = F(ps[0])
        og = [fs(psy * (F(rng.choice([1, -1]), 4) - (F(H - 1, 2) - y0))), og[1]]
        c = F(rng.choice([1, 2, 4, 16]), rng.choice([1, 1, 4]))
        f = {"absy": False, "absx": False, "terms": [[2, 0, fs(c)]]}
        steps = rng.choice([[2, 4], [2, 4, 8], [2, 8], [2, 4, 4]])
        if k % 3 == 0: thr, rel = "1/2", None
        elif k % 3 == 1: thr, rel = None, fs(c * psy * psy / 16)
        else: thr, rel = "1/2", fs(c * psy * psy / 16)
        if k % 2: yield {"op": "iter", "m": m, "ps": ps, "og": og, "thr": thr, "rel": rel, "steps": steps, "f": f}
        else: yield {"op": "decor", "m": m, "ps": ps, "og": og, "os": {"kind": "iter", "thr": thr, "rel": rel, "steps": steps}, "f": f, "via": "from_mask"}
    # DESIGN D17 witness, the Coq refutation witness (Props C09_iterate_level0_all_zero_refuted) and the empty schedule
    yield {"op": "iter", "m": [[False]], "ps": ["1", "1"], "og": ["0", "0"], "thr": "1/2", "rel": None, "steps": [2],
           "f": {"absy": False, "absx": False, "terms": [[2, 0, "1"]]}}
    yield {"op": "iter", "m": [[False, False], [False, False]], "ps": ["1", "1"], "og": ["0", "0"], "thr": fs(F(0.9999)), "rel": None,
           "steps": [2, 4], "f": {"absy": True, "absx": False, "terms": [[2, 0, "1"], [1, 0, "-1"], [0, 0, "1/4"]]}}
    yield {"op": "iter", "m": [[False, True]], "ps": ["1", "1"], "og": ["0", "0"], "thr": "1/2", "rel": None, "steps": [],
           "f": {"absy": False, "absx": False, "terms": [[0, 0, "1"]]}}
    # (d) HISTORIES ------------------------------------------------------------------------------------------------
    # d1: k different functions through ONE OverSamplerIterate / ONE Grid2D(over_sampling=OverSamplingIterate): the threshold
    #     masks of a level depend on the function (compact dips at different / mirrored positions: same NUMBER of unresolved
    #     pixels at different positions), schedules of >= 2 sub-sizes
    for k in range(500 if big else 70):
        m = sym_mask(rng) if rng.random() < 0.75 else rand_mask(rng, 4, 4, 10)
        ps, og = rand_geo(rng)
        if rng.random() < 0.5: og = ["0", "0"]
        thr = rng.choice(["3/4", "7/8", "15/16", "15/16", "63/64", "63/64", fs(F(0.99))])
        rel = rng.choice([None, None, None, "1/16", "1/4"])
        steps = rng.choice([[2, 4], [2, 4], [2, 4, 8], [2, 4, 8], [2, 2, 4], [4, 8], [2, 4, 4]])
        fs_ = bowl_family(rng, m, ps, og, rng.choice([3, 3, 4]))
        if rng.random() < 0.2:           # tiny / huge magnitudes; the absolute tolerance scales with the functions
            e = rng.choice([-40, -30, -20, 20, 30]); fs_ = [scaled(f, e) for f in fs_]
            if rel is not None: rel = fs(F(rel) * F(2) ** e)
        r = rng.random()
        if r < 0.4:
            yield {"op": "seq", "share": True, "steps": [{"op": "iter", "m": m, "ps": ps, "og": og, "thr": thr, "rel": rel, "steps": steps, "f": f} for f in fs_]}
        elif r < 0.85:
            yield {"op": "hgrid", "m": m, "ps": ps, "og": og, "os": {"kind": "iter", "thr": thr, "rel": rel, "steps": steps}, "fs": fs_,
                   "via": rng.choice(["from_mask", "from_mask", "dataset", "dataset_nu", "derived_arith", "derived_rewrap", "derived_native_slim", "subclass"]),
                   "one_profile": rng.random() < 0.3, "mder": rng.choice([None, None, "array", "grid"])}
        else:      # the same grid / over sampler reached through the pool, other operations on the same mask in between
            os = {"kind": "iter", "thr": thr, "rel": rel, "steps": steps}; n = len(unmasked(m))
            st = []
            for f in fs_:
                st.append({"op": "decor", "m": m, "ps": ps, "og": og, "os": os, "f": f, "via": "from_mask"})
                if rng.random() < 0.5: st.append({"op": "grid", "m": m, "ps": ps, "og": og, "ss": [2] * n, "via": "class", "int": True})
                if rng.random() < 0.3: st.append({"op": "iter", "m": m, "ps": ps, "og": og, "thr": thr, "rel": rel, "steps": steps, "f": f})
            yield {"op": "seq", "share": True, "steps": st}
    # d2: ONE OverSamplerUniform: cached reads, binning, functions; in-place edits of the map before the first cached read
    for k in range(300 if big else 40):
        m = rand_mask(rng, 4, 4, 8); n = len(unmasked(m)); ps, og = rand_geo(rng)
        as_int = rng.random() < 0.25
        ss = [rng.choice([1, 2, 4])] * n if as_int else [rng.choice([1, 1, 2, 2, 4, 8]) for _ in range(n)]
        cur = list(ss); st = []
        def binstep():
            dt = rng.choice(BIN_DT)
            return {"do": "bin", "arr": rand_subvalues(rng, sum(s * s for s in cur), dt), "dt": dt}
        for _ in range(rng.choice([0, 1, 1, 2, 2, 3])):       # nothing cached yet: read -> in-place edit -> re-read
            what = rng.choice(["areas", "areas", "bin", "both"])
            def reads():
                if what in ("areas", "both"): st.append({"do": "areas"})
                if what in ("bin", "both"): st.append(binstep())
            if rng.random() < 0.8: reads()
            for _e in range(rng.choice([1, 1, 2])):
                i = rng.randrange(n); s = rng.choice([x for x in (1, 2, 4) if x != cur[i]]); cur[i] = s; st.append({"do": "edit", "i": i, "s": s})
            reads()
        for _ in range(rng.choice([3, 4, 5, 6])):
            r = rng.random()
            if r < 0.2: st.append({"do": "grid"})
            elif r < 0.55: st.append({"do": "via", "f": maybe_scaled(rng, rand_fun(rng, m, ps, og)), "via": rng.choice(["sampler", "sampler", "oversampled"]), "obj": rng.choice([None, 1])})
            elif r < 0.62: st.append({"do": "slim"})
            elif r < 0.68: st.append({"do": "native"})
            elif r < 0.78:
                pts, hk = held_points(rng, m, ps, og, cur)
                st.append({"do": "held", "pts": pts, "hk": hk, "f": maybe_scaled(rng, rand_fun(rng, m, ps, og)), "cont": rng.choice(HELD_CONT), "cls_sub": rng.random() < 0.15,
                           "again": rand_again(rng) if rng.random() < 0.3 else None})
            elif r < 0.85: st.append({"do": "areas"})
            else: st.append(binstep())
        yield {"op": "hsampler", "m": m, "ps": ps, "og": og, "ss": ss, "int": as_int, "fl": (not as_int) and rng.random() < 0.3,
               "ssder": None if as_int else rng.choice([None, None, "native_in", "arith"]), "steps": st,
               "mder": rng.choice([None, None, "array", "grid"]), "gint": rng.random() < 0.2}
    # d3: ONE Grid2D with OverSamplingUniform(int | map): k decorated calls
    for k in range(300 if big else 40):
        m = rand_mask(rng, 4, 4, 8); n = len(unmasked(m)); ps, og = rand_geo(rng)
        r = rng.random()
        if r < 0.3: os = {"kind": "int", "s": rng.choice([1, 2, 4, 8])}
        elif r < 0.4: os = {"kind": "map", "ss": [1] * n}
        else: os = {"kind": "map", "ss": [rng.choice([1, 1, 2, 2, 4, 8]) for _ in range(n)], "fl": rng.random() < 0.4,
                    "ssder": rng.choice([None, None, "native_in", "arith"])}
        fs_ = [maybe_scaled(rng, rand_fun(rng, m, ps, og)) for _ in range(rng.choice([2, 3, 3]))]
        if rng.random() < 0.5: fs_.append(fs_[0])
        yield {"op": "hgrid", "m": m, "ps": ps, "og": og, "os": os, "fs": fs_, "one_profile": rng.random() < 0.3,
               "via": rng.choice(["from_mask", "dataset", "dataset_nu", "dataset_pixgrid", "derived_arith", "derived_rewrap", "derived_native_slim", "subclass"]),
               "mder": rng.choice([None, None, "array", "grid"])}
    # d4: sequences of single operations in ONE process on RELATED inputs (same shape and pixel count at other positions, other
    #     origin / scales), on fresh objects or on shared ones: a module-level or object-level memo keyed too coarsely
    for k in range(300 if big else 44):
        m = rand_mask(rng, 4, 4, 8); n = len(unmasked(m)); ps, og = rand_geo(rng); ps2, og2 = rand_geo(rng)
        variants = [(m, ps, og), (permuted_mask(rng, m), ps, og), (m, ps, og2), (permuted_mask(rng, m), ps2, og), (m, ps, og)]
        rng.shuffle(variants); variants = variants[:rng.choice([3, 4])]
        kind = rng.choice(["grid", "grid", "bin", "idx", "viafunc", "held", "held", "decor", "iter", "mixed"])
        s0 = rng.choice([1, 2, 4]); ss = [s0] * n if rng.random() < 0.4 else [rng.choice([1, 2, 2, 4]) for _ in range(n)]
        f = rand_fun(rng, m, ps, og); via = rng.choice(["class", "util"])
        thr, rel = rand_thr(rng); steps = rng.choice([[2, 4], [2, 4, 8], [2], [4, 8]])
        dt = rng.choice(BIN_DT); arr = rand_subvalues(rng, sum(s * s for s in ss), dt)
        st = []
        for (mm, pp, oo) in variants:
            kk = rng.choice(["grid", "bin", "idx", "viafunc", "held", "decor", "iter"]) if kind == "mixed" else kind
            if kk == "grid": st.append({"op": "grid", "m": mm, "ps": pp, "og": oo, "ss": ss, "via": via, "int": False})
            elif kk == "bin": st.append({"op": "bin", "m": mm, "ss": ss, "arr": arr, "dt": dt, "via": via, "int": False})
            elif kk == "idx":
                st.append({"op": "slimsub", "m": mm, "ss": ss, "via": via, "int": False})
                st.append({"op": "nativesub", "m": mm, "ss": ss, "via": via, "int": False})
            elif kk == "viafunc": st.append({"op": "viafunc", "m": mm, "ps": pp, "og": oo, "ss": ss, "f": f, "via": "sampler"})
            elif kk == "held":      # one sampler (shared), several DIFFERENT held grids, the sampler's own grid read in between
                h = rand_held(rng, mm, pp, oo, ss); h["f"] = f; st.append(h)
                if rng.random() < 0.4: st.append({"op": "viafunc", "m": mm, "ps": pp, "og": oo, "ss": ss, "f": f, "via": "sampler"})
            elif kk == "decor":
                os = rng.choice([{"kind": "int", "s": s0}, {"kind": "map", "ss": ss}])
                st.append({"op": "decor", "m": mm, "ps": pp, "og": oo, "os": os, "f": f, "via": rng.choice(["from_mask", "dataset"])})
            else: st.append({"op": "iter", "m": mm, "ps": pp, "og": oo, "thr": thr, "rel": rel, "steps": steps, "f": f})
        yield {"op": "seq", "share": rng.random() < 0.5, "steps": st}
    # d5: ONE OverSampling configuration object (int / iterate) used for several masks and functions
    for k in range(160 if big else 24):
        ps, og = rand_geo(rng)
        if rng.random() < 0.5: os = {"kind": "int", "s": rng.choice([2, 4])}
        else:
            thr, rel = rand_thr(rng); os = {"kind": "iter", "thr": thr, "rel": rel, "steps": rng.choice([[2, 4], [2, 4, 8], [4, 8]])}
        m1 = rand_mask(rng, 4, 4, 8); m2 = rand_mask(rng, 4, 4, 8); m3 = permuted_mask(rng, m1)
        st = [{"op": "decor", "m": mm, "ps": ps, "og": og, "os": os, "f": rand_fun(rng, mm, ps, og), "via": rng.choice(["from_mask", "dataset"])}
              for mm in (m1, m2, m3, m1)]
        if rng.random() < 0.3:      # a call that raises (empty schedule: IndexError) must leave nothing behind for the next call
            bad = {"kind": "iter", "thr": "1/2", "rel": None, "steps": []}
            st.insert(rng.choice([0, 1]), {"op": "decor", "m": m1, "ps": ps, "og": og, "os": bad, "f": {"absy": False, "absx": False, "terms": [[0, 0, "1"], [2, 0, "1"]]}, "via": "from_mask"})
        yield {"op": "seq", "share": True, "steps": st}
    # d6: the default configuration OverSamplingIterate() (fractional accuracy 0.9999, schedule [2, 4, 8, 16]) on tiny masks
    for k in range(40 if big else 6):
        m = rand_mask(rng, 2, 2, 3); ps, og = rand_geo(rng)
        os = {"kind": "iter", "thr": fs(F(0.9999)), "rel": None, "steps": [2, 4, 8, 16], "default": True}
        yield {"op": "hgrid", "m": m, "ps": ps, "og": og, "os": os, "fs": bowl_family(rng, m, ps, og, 2) + [rand_poly(rng, "affine"), rand_ifun(rng, m, ps, og)],
               "via": rng.choice(["from_mask", "dataset"]), "one_profile": False}
    # (c) tolerance stream
    for _ in range(600 if big else 60):
        m = rand_mask(rng, 5, 5, 10); n = len(unmasked(m)); ps, og = rand_geo(rng, exact=False)
        ss = [rng.choice([1, 2, 3, 3, 5, 6, 7]) for _ in range(n)]
        yield {"op": "grid", "m": m, "ps": ps, "og": og, "ss": ss, "via": rng.choice(["class", "util"]), "int": False}
        tot = sum(s * s for s in ss)
        dt = rng.choice(BIN_DT)
        yield {"op": "bin", "m": m, "ss": ss, "arr": rand_subvalues(rng, tot, dt), "dt": dt, "via": rng.choice(["class", "util"]), "int": False}
        yield {"op": "areas", "m": m, "ps": ps, "ss": ss}
        yield {"op": "viafunc", "m": m, "ps": ps, "og": og, "ss": ss, "f": rand_fun(rng, m, ps, og, 0.5)}
        yield rand_held(rng, m, ps, og, ss, exact=False)
        yield {"op": "decor", "m": m, "ps": ps, "og": og, "os": {"kind": "int", "s": rng.choice([3, 5, 6, 7])}, "f": rand_fun(rng, m, ps, og, 0.5), "via": "from_mask"}

# ----------------------------------------------------------------------------- implementation calls
def is_exact(ps, ss):
    """every double operation of the implementation is exact: pixel scales are powers of two (the code DIVIDES the origin and
    the sub-step by them: 3/2 or F(0.1) round), sub-sizes are powers of two; origins / coefficients are small dyadics by construction"""
    def pow2(q):
        q = F(q); n, d = abs(q.numerator), q.denominator
        return n > 0 and (n & (n - 1)) == 0 and (d & (d - 1)) == 0 and n <= 1024 and d <= 1024
    return all(pow2(p) for p in ps) and all(s in (1, 2, 4, 8, 16) for s in ss)
def qlist(a): return [frac(v) for v in np.asarray(a, dtype=float).ravel()]
def qqlist(a): return [(frac(r[0]), frac(r[1])) for r in np.asarray(a, dtype=float).reshape(-1, 2)]

class Ctx:
    """objects of one run_case.  share=True: two steps with the same construction parameters get the SAME Mask2D /
    sub-size map / OverSamplerUniform / OverSamplerIterate / OverSamplingUniform|Iterate / GridsDataset / Grid2D object.
    `watch`: the caller's inputs (mask, sub-size map, sub-values, grid values) must still hold what the caller put there;
    `results`: everything returned so far must still hold what it held when it was returned."""
    def __init__(self, share):
        self.share = share; self.pool = {}; self.watches = []; self.results = []
    def get(self, key, ctor, watch=None):
        k = C_jd(key)
        if self.share and k in self.pool: return self.pool[k]
        o = ctor()
        if self.share: self.pool[k] = o
        if watch is not None: self.watches.append((k, o, watch))
        return o
    def returned(self, what, obj, conv):
        if obj is not None and not isinstance(obj, (int, float)): self.results.append((what, obj, conv, conv(obj)))
    def problems(self):
        bad = []
        for k, o, w in self.watches:
            try: msg = w(o)
            except Exception as e: msg = "unreadable: " + type(e).__name__
            if msg: bad.append(f"input modified by a call: {msg} ({k[:80]})")
        for v, snap in RETS:
            try: ok = ret_values(v) == snap
            except Exception: ok = False
            if not ok: bad.append("the array returned by the user function was modified by the call"); break
        for what, obj, conv, snap in self.results:
            try: ok = conv(obj) == snap
            except Exception: ok = False
            if not ok: bad.append(f"an earlier result ({what}) was changed by a later call")
        return bad
def C_jd(x):
    import json
    return json.dumps(x, sort_keys=True, default=str)

_PROFILE = []
def profile_cls():
    if not _PROFILE:
        from autoarray.operators.over_sampling.decorator import over_sample
        class Profile:
            centre = (0.0, 0.0)
            def __init__(self, fn): self.fn = fn
            @over_sample
            def image_2d_from(obj, grid, *args, **kwargs):
                g = np.array(grid)
                return obj.fn(g[:, 0], g[:, 1])
        _PROFILE.append(Profile)
    return _PROFILE[0]

_SUBCLS = []
def user_subclasses():
    """trivial user subclasses of Grid2D / OverSamplingUniform / OverSamplingIterate / Grid2DOverSampled (dispatch must use isinstance)"""
    if not _SUBCLS:
        aa = import_aa()
        from autoarray.operators.over_sampling.uniform import OverSamplingUniform
        from autoarray.operators.over_sampling.iterate import OverSamplingIterate
        from autoarray.operators.over_sampling.grid_oversampled import Grid2DOverSampled
        class UserGrid2D(aa.Grid2D): pass
        class UserOverSamplingUniform(OverSamplingUniform): pass
        class UserOverSamplingIterate(OverSamplingIterate): pass
        class UserGrid2DOverSampled(Grid2DOverSampled): pass
        _SUBCLS.extend([UserGrid2D, UserOverSamplingUniform, UserOverSamplingIterate, UserGrid2DOverSampled])
    return _SUBCLS[:3]
def oversampled_cls(sub=False):
    user_subclasses()
    return _SUBCLS[3] if sub else import_aa().Grid2DOverSampled

class Env:
    """geometry + object construction of one step (through the context's pool)"""
    def __init__(self, inp, ctx):
        self.aa = import_aa(); self.inp = inp; self.ctx = ctx
        self.m = inp.get("m")
        # gint: integral pixel scales / origins are passed as Python ints (Mask2D(pixel_scales=1), origin=(0, 0))
        num = (lambda p: int(F(p)) if F(p).denominator == 1 else float(F(p))) if inp.get("gint") else (lambda p: float(F(p)))
        self.ps = tuple(num(p) for p in inp["ps"]) if "ps" in inp else (1.0, 1.0)
        self.og = tuple(num(p) for p in inp["og"]) if "og" in inp else (0.0, 0.0)
        self.psq = tuple(F(p) for p in self.ps); self.ogq = tuple(F(p) for p in self.og)      # the doubles actually passed, exactly
        # mkind: the mask is given as an integer (0/1) array or as a list of lists
        self.mkind = inp.get("mkind")
        self.marr = (np.array(self.m, dtype=int if self.mkind == "int" else bool)) if self.m is not None else None            # for the util functions
        self.mkey = ["mask", self.m, inp.get("ps"), inp.get("og"), inp.get("mder"), bool(inp.get("gint")), self.mkind]
    def mask(self):
        aa = self.aa; m = self.m; ps = self.ps; og = self.og; der = self.inp.get("mder"); mkind = self.mkind
        def ctor():
            mk = aa.Mask2D(mask=[list(r) for r in m] if mkind == "list" else np.array(m, dtype=int if mkind == "int" else bool), pixel_scales=ps, origin=og)
            n = len(unmasked(m))
            # DERIVED mask objects: the mask carried by the result of arithmetic / by a grid built from the mask
            if der == "array" and n: mk = (aa.Array2D(values=np.arange(1.0, n + 1.0), mask=mk) * 2.0).mask
            elif der == "grid" and n: mk = aa.Grid2D.from_mask(mask=mk).mask
            return mk
        def watch(mk):
            if not np.array_equal(np.array(mk), np.array(m, dtype=bool)): return "mask contents"
            if tuple(mk.pixel_scales) != ps or tuple(mk.origin) != og: return "mask geometry"
        return self.ctx.get(self.mkey, ctor, watch)
    def ssmap(self, ss, fl=False, der=None, cur=None):
        """the per-pixel sub-size map; `cur` = a list the caller keeps up to date with its own in-place edits"""
        aa = self.aa; mask = self.mask(); m = self.m; cur = cur if cur is not None else list(ss)
        sskind = self.inp.get("sskind")
        def ctor():
            a = np.array(ss, dtype=float if fl else int)
            if sskind == "int32" and not fl: a = a.astype(np.int32)
            if sskind == "list" and not der: return aa.Array2D(values=[float(v) if fl else int(v) for v in ss], mask=mask)
            if der == "native_in":      # built from the user's 2-D (native) array
                nat = np.zeros((len(m), len(m[0])), dtype=a.dtype)
                for v, (y, x) in zip(a, unmasked(m)): nat[y, x] = v
                return aa.Array2D(values=nat, mask=mask)
            if der == "arith":          # the result of arithmetic on another map
                return (aa.Array2D(values=a * 2, mask=mask) + 2.0) / 2.0 - 1.0
            return aa.Array2D(values=a, mask=mask)
        def watch(o):
            if [int(v) for v in np.array(o)] != [int(v) for v in cur]: return "sub-size map"
        return self.ctx.get(["ssmap", self.mkey, list(ss), fl, der, sskind], ctor, watch)
    def sampler(self, ss, as_int, cur=None):
        from autoarray.operators.over_sampling.uniform import OverSamplerUniform
        fl = bool(self.inp.get("fl")); der = self.inp.get("ssder")
        def ctor():
            if as_int and ss: return OverSamplerUniform(mask=self.mask(), sub_size=int(ss[0]))
            # float-typed maps are what OverSamplingUniform.from_radial_bins / from_adaptive_scheme build (repo fix edc1970, found by C06)
            return OverSamplerUniform(mask=self.mask(), sub_size=self.ssmap(ss, fl, der, cur))
        return self.ctx.get(["smp", self.mkey, list(ss), bool(as_int and ss), fl, der, self.inp.get("sskind")], ctor)
    def os_obj(self, os):
        from autoarray.operators.over_sampling.uniform import OverSamplingUniform
        from autoarray.operators.over_sampling.iterate import OverSamplingIterate
        fl = lambda t: None if t is None else float(F(t))
        sub = bool(os.get("sub"))
        if sub:      # instances of user SUBCLASSES of the configuration classes
            OverSamplingUniform, OverSamplingIterate = user_subclasses()[1:]
        def w_iter(thr, rel, steps):       # the configuration object must still hold what the caller put there
            return lambda o: None if (o.fractional_accuracy, o.relative_accuracy, list(o.sub_steps)) == (thr, rel, list(steps)) else "OverSamplingIterate attributes"
        if os["kind"] == "int":
            return self.ctx.get(["os", "int", os["s"], sub], lambda: OverSamplingUniform(sub_size=int(os["s"])),
                                lambda o: None if type(o.sub_size) is int and o.sub_size == int(os["s"]) else "OverSamplingUniform.sub_size")
        if os["kind"] == "map":
            return self.ctx.get(["os", "map", self.mkey, os["ss"], bool(os.get("fl")), os.get("ssder"), sub],
                                lambda: OverSamplingUniform(sub_size=self.ssmap(os["ss"], bool(os.get("fl")), os.get("ssder"))))
        if os.get("default"):      # every argument left at its default: fractional accuracy 0.9999, schedule [2, 4, 8, 16]
            return self.ctx.get(["os", "iter-default"], lambda: OverSamplingIterate(), w_iter(0.9999, None, [2, 4, 8, 16]))
        ik = bool(os.get("ikind"))      # ikind: the schedule is a tuple, integral thresholds are Python ints
        if ik: fl = lambda t: None if t is None else (int(F(t)) if F(t).denominator == 1 else float(F(t)))
        return self.ctx.get(["os", "iter", os["thr"], os["rel"], os["steps"], sub, ik],
                            lambda: OverSamplingIterate(fractional_accuracy=fl(os["thr"]), relative_accuracy=fl(os["rel"]),
                                                        sub_steps=tuple(os["steps"]) if ik else list(os["steps"])),
                            w_iter(fl(os["thr"]), fl(os["rel"]), os["steps"]))
    def grid(self, os, via, vals=None):
        """the Grid2D a decorated method is called with; `vals` (via = shift_*): its values are NOT the pixel centres of its mask"""
        from autoarray.dataset.grids import GridsDataset
        from autoarray.dataset.over_sampling import OverSamplingDataset
        aa = self.aa
        oskey = [os.get(k) for k in ("kind", "s", "ss", "fl", "ssder", "thr", "rel", "steps", "default", "sub", "ikind")]
        def ctor():
            mask = self.mask(); osobj = self.os_obj(os)
            if via.startswith("dataset"):
                slot = {"dataset": "uniform", "dataset_nu": "non_uniform", "dataset_pixgrid": "pixelization"}[via]
                ds = self.ctx.get(["ds", self.mkey, oskey, slot], lambda: GridsDataset(mask=mask, over_sampling=OverSamplingDataset(**{slot: osobj})))
                return getattr(ds, slot)
            if via == "shift_dataset":
                ds = self.ctx.get(["ds", self.mkey, oskey, "uniform"], lambda: GridsDataset(mask=mask, over_sampling=OverSamplingDataset(uniform=osobj)))
                return ds.uniform + (np.array(vals) - np.array(ds.uniform))
            g = aa.Grid2D.from_mask(mask=mask, over_sampling=osobj)
            if via == "shift_arith": return g + (np.array(vals) - np.array(g))            # e.g. grid - deflections
            if via == "shift_rewrap": return aa.Grid2D(values=np.array(vals), mask=mask, over_sampling=osobj)
            if via == "shift_subclass": return user_subclasses()[0](values=np.array(vals), mask=mask, over_sampling=osobj)
            # DERIVED grids (new objects carrying the over sampling of the grid they come from)
            if via == "derived_arith": g = (g + 0.0) * 1.0
            elif via == "derived_rewrap": g = aa.Grid2D(values=g, mask=g.mask, over_sampling=g.over_sampling)
            elif via == "derived_native_slim": g = g.native.slim
            elif via == "subclass": g = user_subclasses()[0](values=g, mask=g.mask, over_sampling=g.over_sampling)      # a user subclass of Grid2D
            return g
        g = self.ctx.get(["grid", self.mkey, oskey, via, vals.tolist() if vals is not None else None], ctor)
        snap = np.array(g).copy()
        self.ctx.watches.append(("grid values", g, lambda o: None if np.array_equal(np.array(o), snap) else "grid values"))
        return g

def near_jump(f, env, ss):
    """non-dyadic geometry only (the sub-grid coordinates carry rounding errors): does a sub-pixel centre lie within 1e-6 of a
    jump of the integer-valued function (p = cut, p = 0, p integral)?  Exact classification from the input."""
    p = f.get("post")
    if not p: return False
    g = dict(f); g["post"] = None
    tol = F(1, 10 ** 6)
    for px, s in zip(unmasked(env.m), ss):
        cy, cx = ref_centre(env.m, env.psq, env.ogq, px)
        for a in range(s):
            for b in range(s):
                v = fr_ufun(g, cy + env.psq[0] / 2 - (a + F(1, 2)) * env.psq[0] / s, cx - env.psq[1] / 2 + (b + F(1, 2)) * env.psq[1] / s)
                if p["k"] == "count": d = min(abs(v - F(c)) for c in p["cuts"])
                elif p["k"] == "sign": d = abs(v)
                else: d = abs(v - round(v))
                if d < tol: return True
    return False

def classify_iter(f, env, os):
    """(os with the doubles actually passed as exact rationals, all-zero?, in-band?)"""
    fl = lambda t: None if t is None else float(F(t))
    thrq = None if os["thr"] is None else F(fl(os["thr"])); relq = None if os["rel"] is None else F(fl(os["rel"]))
    allzero, band = iter_class(f, env.m, env.psq, env.ogq, thrq, os["steps"])
    return {"kind": "iter", "thr": thrq, "rel": relq, "steps": os["steps"]}, allzero, band

def call_held(ctx, smp, st, n, ex):
    """a decorated method called with Grid2DOverSampled(grid=<held points>, over_sampler=smp): returns (result, the held points as rationals).
    Containers of the held points: Grid2DIrregular, the result of arithmetic on the sampler's own grid (over_sampled_grid - deflections),
    a plain ndarray, a user subclass of Grid2DIrregular, a list of pairs"""
    aa = import_aa(); Profile = profile_cls()
    ptsf = np.array([[float(F(a)), float(F(b))] for a, b in st["pts"]]).reshape(-1, 2)
    if st.get("read_first"): smp.over_sampled_grid
    cont = st.get("cont") or "irr"
    if cont == "arith": own = smp.over_sampled_grid; held = own + (ptsf - np.array(own))
    elif cont == "nd": held = ptsf.copy()
    elif cont == "list": held = [(float(a), float(b)) for a, b in ptsf]
    elif cont == "irr_sub":
        if not _IRRSUB:
            class UserGrid2DIrregular(aa.Grid2DIrregular): pass
            _IRRSUB.append(UserGrid2DIrregular)
        held = _IRRSUB[0](values=ptsf.copy())
    else: held = aa.Grid2DIrregular(values=ptsf.copy())
    ptsq = qqlist(held)
    if ex and ptsq != qqlist(ptsf): raise AssertionError("harness: the held grid does not hold the given points")
    ctx.watches.append(("held", held, lambda o: None if qqlist(o) == ptsq else "the points held by the Grid2DOverSampled"))
    god = oversampled_cls(bool(st.get("cls_sub")))(grid=held, over_sampler=smp, pixels_in_mask=n)
    fn = np_ufun(st["f"])
    prof = Profile(fn)
    r = prof.image_2d_from(god)
    try: same = qqlist(god.grid) == ptsq and god.over_sampler is smp and god.pixels_in_mask == n
    except Exception: same = False
    if not same: ctx.watches.append(("god", None, lambda o: "the Grid2DOverSampled no longer holds the points / over sampler it was built with"))
    ag = st.get("again")
    if ag and cont in ("irr", "nd", "irr_sub") and len(ptsq):
        # read -> the user edits the held points IN PLACE (god.grid[i] = ...) -> the SAME profile called again with the SAME Grid2DOverSampled
        ctx.watches[:] = [w for w in ctx.watches if not (w[0] == "held" and w[1] is held)]      # the held points are now edited on purpose
        snap1 = qlist(r)
        for i, dy, dx in ag:
            i = i % len(ptsq); held[i] = (float(held[i][0]) + float(F(dy)), float(held[i][1]) + float(F(dx)))
        ptsq2 = qqlist(held)
        r2 = prof.image_2d_from(god)
        if qlist(r) != snap1: ctx.watches.append(("r", None, lambda o: "the first result was changed by the second call on the same Grid2DOverSampled"))
        ctx.watches.append(("held2", held, lambda o: None if qqlist(o) == ptsq2 else "the points held by the Grid2DOverSampled"))
        return r, ptsq, (r2, ptsq2)
    return r, ptsq, None
_IRRSUB = []

def run_one(inp, ctx):
    """one operation; returns dict(coq=<term of Model.C09.case> | None, out, finding, nontrivial, kind, skipped)"""
    from autoarray.operators.over_sampling import over_sample_util as U
    from autoarray.operators.over_sampling.iterate import OverSamplerIterate
    from autoarray.dataset.grids import GridsDataset
    from autoarray.dataset.over_sampling import OverSamplingDataset
    from autoarray.structures.grids import grid_2d_util
    env = Env(inp, ctx); aa = env.aa
    Profile = profile_cls()
    op = inp["op"]; m = env.m; ps, og, psq, ogq, marr = env.ps, env.og, env.psq, env.ogq, env.marr
    ss = inp.get("ss"); ssa = np.array(ss, dtype=int) if ss is not None else None
    out = None; coq = None; finding = None; nontrivial = True; extra = None
    ex = is_exact(inp.get("ps", ["1", "1"]), ss or [])
    def util_inputs_unchanged():
        if not np.array_equal(marr, np.array(m, dtype=bool)): return "mask array passed to the util function"
        if ssa is not None and list(ssa) != list(ss): return "sub_size array passed to the util function"
    if inp.get("via") == "util": ctx.watches.append(("util", None, lambda o: util_inputs_unchanged()))

    if op == "grid":
        if inp["via"] == "util":
            g = U.grid_2d_slim_over_sampled_via_mask_from(mask_2d=marr, pixel_scales=ps, sub_size=ssa, origin=og)
        elif inp["via"] == "dataset_pix":
            ds = ctx.get(["dspix", env.mkey], lambda: GridsDataset(mask=env.mask(), over_sampling=OverSamplingDataset()))
            g = ds.over_sampler_pixelization.over_sampled_grid
        else:
            g = env.sampler(ss, inp["int"]).over_sampled_grid
        out = qqlist(g); ctx.returned("over_sampled_grid", g, qqlist)
        coq = f"KGrid {cbool(ex)} {cmask(m)} {cqq(psq)} {cqq(ogq)} {cnats(ss)} {cqqs(out)}"
        nontrivial = len(ss) > 0
    elif op == "centres":
        if inp["via"] == "util": g = grid_2d_util.grid_2d_slim_via_mask_from(mask_2d=marr, pixel_scales=ps, origin=og)
        else: g = aa.Grid2D.from_mask(mask=env.mask())
        out = qqlist(g); ctx.returned("pixel centres", g, qqlist)
        coq = f"KCentres {cbool(ex)} {cmask(m)} {cqq(psq)} {cqq(ogq)} {cqqs(out)}"
        nontrivial = len(out) > 0
    elif op == "bin":
        vals = [float(F(v)) for v in inp["arr"]]
        arr = np_subvalues(vals, inp.get("dt"), util=inp["via"] == "util")       # float64 / intN / bool / float32 array or Python list
        ctx.watches.append(("arr", arr, lambda o: None if [float(v) for v in o] == vals and type(o) is type(arr) and getattr(o, "dtype", None) == getattr(arr, "dtype", None)
                            else "the array of sub-values passed to binned_array_2d_from"))
        if inp["via"] == "util": b = U.binned_array_2d_from(array_2d=arr, mask_2d=marr, sub_size=ssa)
        else: b = env.sampler(ss, inp["int"]).binned_array_2d_from(array=arr)
        out = qlist(b); ctx.returned("binned array", b, qlist)
        coq = f"KBin {cbool(ex)} {cmask(m)} {cnats(ss)} {cqs([F(v) for v in inp['arr']])} {cqs(out)}"
        nontrivial = len(ss) > 0
    elif op == "slimsub":
        if inp["via"] == "util": r = U.slim_index_for_sub_slim_index_via_mask_2d_from(mask_2d=marr, sub_size=ssa)
        else: r = env.sampler(ss, inp["int"]).slim_for_sub_slim
        conv = lambda r: [int(v) for v in np.asarray(r)]
        out = conv(r); ctx.returned("slim_for_sub_slim", r, conv)
        coq = f"KSlimForSub {cmask(m)} {cnats(ss)} {cnats(out)}"
        nontrivial = len(ss) > 0
    elif op == "nativesub":
        if inp["via"] == "util": r = U.native_sub_index_for_slim_sub_index_2d_from(mask_2d=marr, sub_size=ssa)
        else: r = env.sampler(ss, inp["int"]).sub_mask_native_for_sub_mask_slim
        conv = lambda r: [(int(a), int(b)) for a, b in np.asarray(r).reshape(-1, 2)]
        out = conv(r); ctx.returned("sub_mask_native_for_sub_mask_slim", r, conv)
        coq = f"KNativeForSub {cmask(m)} {cnats(ss)} {clist([ctup([cnat(a), cnat(b)]) for a, b in out])}"
    elif op == "areas":
        r = env.sampler(ss, False).sub_pixel_areas
        out = qlist(r); ctx.returned("sub_pixel_areas", r, qlist)
        coq = f"KAreas {cbool(ex)} {cqq(psq)} {cnats(ss)} {cqs(out)}"
    elif op == "viafunc":
        fn = np_ufun(inp["f"])
        def func(*a): g = np.array(a[-1]); return fn(g[:, 0], g[:, 1])      # func(grid) if obj is None else func(obj, grid)
        if not ex and near_jump(inp["f"], env, ss):
            SKIPPED_IN_BAND[0] += 1
            return {"coq": None, "out": None, "nontrivial": False, "kind": op + "-skipped-in-band", "skipped": True}
        smp = env.sampler(ss, False)
        if str(inp.get("via")).startswith("oversampled"):       # decorator branch `isinstance(grid, Grid2DOverSampled)`: func on grid.grid, then binned
            r = Profile(fn).image_2d_from(oversampled_cls(inp["via"] == "oversampled_sub")(grid=smp.over_sampled_grid, over_sampler=smp, pixels_in_mask=len(ss)))
        else:
            r = smp.array_via_func_from(func, None if len(ss) % 2 else object())
        out = qlist(r); ctx.returned("array_via_func_from", r, qlist)
        coq = f"KViaFunc {cbool(ex)} {cmask(m)} {cqq(psq)} {cqq(ogq)} {cnats(ss)} {cufun(inp['f'])} {cqs(out)}"
    elif op == "held":
        smp = env.sampler(ss, inp.get("int", False))
        r, ptsq, second = call_held(ctx, smp, inp, len(ss), ex)
        out = qlist(r); ctx.returned("decorated array (Grid2DOverSampled)", r, qlist)
        coq = f"KHeld {cbool(ex)} {cmask(m)} {cnats(ss)} {cqqs(ptsq)} {cufun(inp['f'])} {cqs(out)}"
        if second is not None:
            out2 = qlist(second[0]); ctx.returned("decorated array (Grid2DOverSampled, second call)", second[0], qlist)
            extra = f"(KHeld {cbool(ex)} {cmask(m)} {cnats(ss)} {cqqs(second[1])} {cufun(inp['f'])} {cqs(out2)})"
            out = [out, out2]
        nontrivial = inp.get("hk") != "uniform"
    elif op in ("decor", "iter"):
        f = inp["f"]; fn = np_ufun(f)
        os = inp["os"] if op == "decor" else {"kind": "iter", "thr": inp["thr"], "rel": inp["rel"], "steps": inp["steps"]}
        fl = lambda t: None if t is None else float(F(t))
        if os["kind"] == "iter":
            osq, allzero, band = classify_iter(f, env, os)
            if band:
                SKIPPED_IN_BAND[0] += 1
                return {"coq": None, "out": None, "nontrivial": False, "kind": op + "-skipped-in-band", "skipped": True}
            if allzero: finding = "level0-all-zero"
            ex = is_exact(inp["ps"], os["steps"])
        else:
            osq = os
            ssu = os["ss"] if os["kind"] == "map" else [os["s"]] * len(unmasked(m))
            ex = is_exact(inp["ps"], ssu)
            if not ex and near_jump(f, env, ssu):
                SKIPPED_IN_BAND[0] += 1
                return {"coq": None, "out": None, "nontrivial": False, "kind": op + "-skipped-in-band", "skipped": True}
        if op == "iter":
            def func(obj, grid, *a, **k): g = np.array(grid); return fn(g[:, 0], g[:, 1])
            ik = bool(inp.get("ikind"))
            if ik: fl = lambda t: None if t is None else (int(F(t)) if F(t).denominator == 1 else float(F(t)))
            smp = ctx.get(["ismp", env.mkey, os["thr"], os["rel"], os["steps"], ik],
                          lambda: OverSamplerIterate(mask=env.mask(), fractional_accuracy=fl(os["thr"]), relative_accuracy=fl(os["rel"]),
                                                     sub_steps=tuple(os["steps"]) if ik else list(os["steps"])),
                          lambda o: None if (o.fractional_accuracy, o.relative_accuracy, list(o.sub_steps)) == (fl(os["thr"]), fl(os["rel"]), list(os["steps"]))
                                    else "OverSamplerIterate attributes")
            res = call_res(lambda: smp.array_via_func_from(func, None))
        else:
            valsf = np.array([[float(F(a)), float(F(b))] for a, b in inp["vals"]]).reshape(-1, 2) if inp.get("vals") is not None else None
            grid = env.grid(os, inp["via"], valsf)
            if valsf is not None and not np.array_equal(np.array(grid), valsf): raise AssertionError("harness: the shifted grid does not hold the given values")
            prof = ctx.get(["profile", f], lambda: Profile(fn))        # shared sequences: ONE profile object, several grids
            res = call_res(lambda: prof.image_2d_from(grid))
        if res[0] == "ok": ctx.returned("decorated / iterated array", res[1], qlist)
        out = res if res[0] == "raise" else ("ok", qlist(res[1]))
        if op == "iter":
            coq = (f"KIter {cmask(m)} {cqq(psq)} {cqq(ogq)} {copt(osq['thr'], cq)} {copt(osq['rel'], cq)} {cnats(os['steps'])} "
                   f"{cufun(f)} {cres(out, cqs)}")
        elif inp.get("vals") is not None:
            coq = f"KDecorVals {cbool(ex)} {cmask(m)} {cqq(psq)} {cqq(ogq)} {cqqs(qqlist(valsf))} {cos_(osq)} {cufun(f)} {cres(out, cqs)}"
        else:
            coq = f"KDecor {cbool(ex)} {cmask(m)} {cqq(psq)} {cqq(ogq)} {cos_(osq)} {cufun(f)} {cres(out, cqs)}"
    else:
        raise ValueError(op)
    return {"coq": "(" + coq + ")", "out": jsonable(out), "finding": finding, "nontrivial": nontrivial, "kind": op, "skipped": False, "extra": extra}

def run_hsampler(inp, ctx):
    """ONE OverSamplerUniform: cached reads, binning, functions, in-place edits of the sub-size map"""
    env = Env(inp, ctx); aa = env.aa; Profile = profile_cls()
    m = env.m; ss0 = list(inp["ss"]); cur = list(ss0)
    smp = env.sampler(ss0, inp.get("int", False), cur)
    allss = list(ss0) + [st["s"] for st in inp["steps"] if st["do"] == "edit"]
    ex = is_exact(inp["ps"], allss)
    terms = []; outs = []
    for st in inp["steps"]:
        do = st["do"]
        if do == "grid":
            r = smp.over_sampled_grid; o = qqlist(r); ctx.returned("over_sampled_grid", r, qqlist); terms.append(f"CGrid {cqqs(o)}")
        elif do == "slim":
            conv = lambda r: [int(v) for v in np.asarray(r)]
            r = smp.slim_for_sub_slim; o = conv(r); ctx.returned("slim_for_sub_slim", r, conv); terms.append(f"CSlim {cnats(o)}")
        elif do == "native":
            conv = lambda r: [(int(a), int(b)) for a, b in np.asarray(r).reshape(-1, 2)]
            r = smp.sub_mask_native_for_sub_mask_slim; o = conv(r); ctx.returned("sub_mask_native", r, conv)
            terms.append(f"CNative {clist([ctup([cnat(a), cnat(b)]) for a, b in o])}")
        elif do == "areas":
            r = smp.sub_pixel_areas; o = qlist(r); ctx.returned("sub_pixel_areas", r, qlist); terms.append(f"CAreas {cqs(o)}")
        elif do == "bin":
            tot = sum(s * s for s in cur)
            vals = [float(F(v)) for v in st["arr"]][:tot]
            vals += [0.0] * (tot - len(vals))
            arr = np_subvalues(vals, st.get("dt"))
            r = smp.binned_array_2d_from(array=arr); o = qlist(r); ctx.returned("binned array", r, qlist)
            ctx.watches.append(("arr", arr, lambda o, vals=vals: None if [float(v) for v in o] == vals else "the array of sub-values passed to binned_array_2d_from"))
            terms.append(f"CBin {cqs([F(v) for v in vals])} {cqs(o)}")
        elif do == "via":
            fn = np_ufun(st["f"])
            def func(*a): g = np.array(a[-1]); return fn(g[:, 0], g[:, 1])
            if st.get("via") == "oversampled":
                r = Profile(fn).image_2d_from(aa.Grid2DOverSampled(grid=smp.over_sampled_grid, over_sampler=smp, pixels_in_mask=len(cur)))
            else:
                r = smp.array_via_func_from(func, None if st.get("obj") is None else object())
            o = qlist(r); ctx.returned("array_via_func_from", r, qlist); terms.append(f"CVia {cufun(st['f'])} {cqs(o)}")
        elif do == "held":
            r, ptsq, second = call_held(ctx, smp, st, len(cur), ex)
            o = qlist(r); ctx.returned("decorated array (Grid2DOverSampled)", r, qlist); terms.append(f"CHeld {cqqs(ptsq)} {cufun(st['f'])} {cqs(o)}")
            if second is not None:
                o2 = qlist(second[0]); ctx.returned("decorated array (Grid2DOverSampled, second call)", second[0], qlist)
                terms.append(f"CHeld {cqqs(second[1])} {cufun(st['f'])} {cqs(o2)}"); o = [o, o2]
        elif do == "edit":     # the user edits the map in place: sub_size[i] = s
            smp.sub_size[st["i"]] = st["s"]; cur[st["i"]] = st["s"]; o = None
            terms.append(f"CEdit {cnat(st['i'])} {cnat(st['s'])}")
        else:
            raise ValueError(do)
        outs.append(jsonable(o))
    coq = f"(HSampler {cbool(ex)} {cmask(m)} {cqq(env.psq)} {cqq(env.ogq)} {cnats(ss0)} {clist(['(' + t + ')' for t in terms])})"
    return coq, outs

def run_hgrid(inp, ctx):
    """ONE Grid2D object: k @over_sample-decorated calls with k functions"""
    env = Env(inp, ctx); Profile = profile_cls()
    os = inp["os"]; m = env.m; finding = None
    grid = env.grid(os, inp["via"])
    if os["kind"] == "iter": ex = is_exact(inp["ps"], os["steps"])
    else: ex = is_exact(inp["ps"], os["ss"] if os["kind"] == "map" else [os["s"]])
    osq = os; calls = []; outs = []
    shared_profile = Profile(None) if inp.get("one_profile") else None      # one profile object whose function changes
    for f in inp["fs"]:
        if os["kind"] == "iter":
            osq, allzero, band = classify_iter(f, env, os)
            if band: SKIPPED_IN_BAND[0] += 1; continue
            if allzero: finding = "level0-all-zero"
        fn = np_ufun(f)
        if shared_profile is not None: shared_profile.fn = fn; prof = shared_profile
        else: prof = Profile(fn)
        res = call_res(lambda: prof.image_2d_from(grid))
        if res[0] == "ok": ctx.returned("decorated array", res[1], qlist)
        out = res if res[0] == "raise" else ("ok", qlist(res[1]))
        calls.append(ctup([cufun(f), cres(out, cqs)])); outs.append(jsonable(out))
    coq = f"(HGrid {cbool(ex)} {cmask(m)} {cqq(env.psq)} {cqq(env.ogq)} {cos_(osq)} {clist(calls)})"
    return coq, outs, finding, len(calls)

def run_case(inp):
    import_aa()
    op = inp["op"]
    ctx = Ctx(share=bool(inp.get("share"))); del RETS[:]
    finding = None; nontrivial = True; kind = op
    if op == "seq":
        terms = []; outs = []
        for st in inp["steps"]:
            r = run_one(st, ctx)
            if r["skipped"]: continue
            terms.append(r["coq"]); outs.append(r["out"]); finding = finding or r["finding"]
            if r.get("extra"): terms.append(r["extra"])
        if not terms: return {"coq": None, "out": None, "py_ok": None, "nontrivial": False, "kind": "seq-skipped-in-band"}
        coq = f"(HSeq {clist(terms)})"; out = outs
        kind = "seq-shared" if inp.get("share") else "seq-fresh"
    elif op == "hsampler":
        coq, out = run_hsampler(inp, ctx)
    elif op == "hgrid":
        coq, out, finding, n = run_hgrid(inp, ctx)
        if n == 0: return {"coq": None, "out": None, "py_ok": None, "nontrivial": False, "kind": "hgrid-skipped-in-band"}
    else:
        r = run_one(inp, ctx)
        if r["skipped"]: return {"coq": None, "out": None, "py_ok": None, "nontrivial": False, "kind": r["kind"]}
        coq = f"(HSeq [{r['coq']}; {r['extra']}])" if r.get("extra") else f"(HOne {r['coq']})"
        out = r["out"]; finding = r["finding"]; nontrivial = r["nontrivial"]
    bad = ctx.problems()
    r = {"coq": coq, "out": out, "py_ok": False if bad else None, "nontrivial": nontrivial, "kind": kind}
    if bad: r["detail"] = "; ".join(bad[:4])
    if finding: r["finding"] = finding
    return r

def jsonable(o):
    if isinstance(o, F): return str(o)
    if isinstance(o, (list, tuple)): return [jsonable(x) for x in o]
    return o
