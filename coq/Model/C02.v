(* C02 -- pixel indices <-> scaled (y,x) coordinates; shape-based mask constructors.
   This file: the independent SPECIFICATION (closed formulas for pixel centres, pixel squares, the extent, the
   radial predicates), the correspondence [case] type and [spec_ok] (the specification applied to what the
   implementation returned).  It does not depend on the generated model (Gen/Gen_geometry.v), so it still builds
   when the translator rejects the source: it is the fall-back checker.  The model side ([agree], [check]) is in
   Model/C02x.v.  No proofs here. *)
From Coq Require Import ZArith List Bool QArith Qabs Qround.
From PAV Require Import Base.Res Base.Check Base.NumOps.
Import ListNotations.
Local Open Scope Z_scope.

Definition mask := list (list bool).            (* true = masked *)
Definition rows (m : mask) : Z := Z.of_nat (length m).
Definition cols (m : mask) : Z := Z.of_nat (length (hd [] m)).
Definition rectb (m : mask) : bool := forallb (fun r => Nat.eqb (length r) (length (hd [] m))) m.
Definition seqZ (n : Z) : list Z := map Z.of_nat (seq 0 (Z.to_nat n)).
Definition coords (H W : Z) : list (Z * Z) := flat_map (fun i => map (fun j => (i, j)) (seqZ W)) (seqZ H).
Definition getm (m : mask) (p : Z * Z) : bool := nth (Z.to_nat (snd p)) (nth (Z.to_nat (fst p)) m []) true.
(* row-major list of unmasked pixels *)
Definition unmasked (m : mask) : list (Z * Z) := filter (fun p => negb (getm m p)) (coords (rows m) (cols m)).
Definition unmasked1 (m : list bool) : list Z := filter (fun j => negb (nth (Z.to_nat j) m true)) (seqZ (Z.of_nat (length m))).
(* the H x W mask that unmasks exactly the pixels satisfying [inside] *)
Definition mask_of (sh : Z * Z) (inside : Z * Z -> bool) : mask :=
  map (fun i => map (fun j => negb (inside (i, j))) (seqZ (snd sh))) (seqZ (fst sh)).

Section Spec.
  Context {O : NumOps}.
  Notation T := (T O).
  Definition T2 := (T * T)%type.

  (* centre of pixel row i / column j (i, j real-valued: also used for continuous pixel coordinates):
       y = o_y + ((H-1)/2 - i) s_y      (y increases upward)
       x = o_x + (j - (W-1)/2) s_x      (x increases to the right) *)
  Definition cy_spec (H : Z) (sy oy i : T) : T := add O oy (mul O (sub O (div O (ofZ O (H - 1)) two) i) sy).
  Definition cx_spec (W : Z) (sx ox j : T) : T := add O ox (mul O (sub O j (div O (ofZ O (W - 1)) two)) sx).
  Definition centre_spec (sh : Z * Z) (s o : T2) (p : Z * Z) : T2 :=
    (cy_spec (fst sh) (fst s) (fst o) (ofZ O (fst p)), cx_spec (snd sh) (snd s) (snd o) (ofZ O (snd p))).
  Definition centre1_spec (n : Z) (s o : T) (j : Z) : T := cx_spec n s o (ofZ O j).

  (* closed square of pixel p: |y - c_y| <= s_y / 2 and |x - c_x| <= s_x / 2 *)
  Definition in_interval (c s v : T) : bool :=
    leb O (sub O c (div O s two)) v && leb O v (add O c (div O s two)).
  Definition in_square (sh : Z * Z) (s o : T2) (p : Z * Z) (c : T2) : bool :=
    let ctr := centre_spec sh s o p in
    in_interval (fst ctr) (fst s) (fst c) && in_interval (snd ctr) (snd s) (snd c).

  (* extent (x_min, x_max, y_min, y_max) *)
  Definition lo_spec (n : Z) (s o : T) : T := sub O o (div O (mul O (ofZ O n) s) two).
  Definition hi_spec (n : Z) (s o : T) : T := add O o (div O (mul O (ofZ O n) s) two).
  Definition extent_spec (sh : Z * Z) (s o : T2) : T * T * T * T :=
    (lo_spec (snd sh) (snd s) (snd o), hi_spec (snd sh) (snd s) (snd o),
     lo_spec (fst sh) (fst s) (fst o), hi_spec (fst sh) (fst s) (fst o)).
  Definition extent1_spec (n : Z) (s o : T) : T2 := (lo_spec n s o, hi_spec n s o).
  (* strictly inside the extent *)
  Definition in_extent (sh : Z * Z) (s o : T2) (c : T2) : bool :=
    let '(xmin, xmax, ymin, ymax) := extent_spec sh s o in
    ltb O ymin (fst c) && ltb O (fst c) ymax && ltb O xmin (snd c) && ltb O (snd c) xmax.
  Definition in_extent1 (n : Z) (s o x : T) : bool := ltb O (lo_spec n s o) x && ltb O x (hi_spec n s o).

  (* continuous pixel coordinates: distance from the top-left corner of the extent in pixel units, and the inverse *)
  Definition pixels_spec (sh : Z * Z) (s o : T2) (c : T2) : T2 :=
    (div O (sub O (hi_spec (fst sh) (fst s) (fst o)) (fst c)) (fst s),
     div O (sub O (snd c) (lo_spec (snd sh) (snd s) (snd o))) (snd s)).
  Definition scaled_spec (sh : Z * Z) (s o : T2) (p : T2) : T2 :=
    (sub O (hi_spec (fst sh) (fst s) (fst o)) (mul O (fst p) (fst s)),
     add O (lo_spec (snd sh) (snd s) (snd o)) (mul O (snd p) (snd s))).

  (* radial predicates, in squared form (exactly decidable over Q): sqrt a <= r and sqrt a >= r for a >= 0 *)
  Definition sqrt_le (a r : T) : bool := leb O zero r && leb O a (sq r).
  Definition sqrt_ge (a r : T) : bool := leb O r zero || leb O (sq r) a.
  (* squared distance of the centre of pixel p, measured relative to the mask origin, from the requested centre c *)
  Definition offset (sh : Z * Z) (s c : T2) (p : Z * Z) : T2 :=
    let ctr := centre_spec sh s (zero, zero) p in (sub O (fst ctr) (fst c), sub O (snd ctr) (snd c)).
  Definition dist2 (d : T2) : T := add O (sq (fst d)) (sq (snd d)).
  Definition circ_inside (sh : Z * Z) (s : T2) (r : T) (c : T2) (p : Z * Z) : bool :=
    sqrt_le (dist2 (offset sh s c p)) r.
  Definition ann_inside (sh : Z * Z) (s : T2) (ri ro : T) (c : T2) (p : Z * Z) : bool :=
    let a := dist2 (offset sh s c p) in sqrt_ge a ri && sqrt_le a ro.
  Definition anti_inside (sh : Z * Z) (s : T2) (ri ro ro2 : T) (c : T2) (p : Z * Z) : bool :=
    let a := dist2 (offset sh s c p) in sqrt_le a ri || (sqrt_ge a ro && sqrt_le a ro2).
  (* elliptical radius^2 in the frame rotated counter-clockwise by the angle whose (cos, sin) is cs:
       x' =  dx cos + dy sin ,  y' = -dx sin + dy cos ,  r_ell^2 = x'^2 + (y'/q)^2 *)
  Definition ell2 (d : T2) (cs : T2) (q : T) : T :=
    let dy := fst d in let dx := snd d in
    let xr := add O (mul O dx (fst cs)) (mul O dy (snd cs)) in
    let yr := sub O (mul O dy (fst cs)) (mul O dx (snd cs)) in
    add O (sq xr) (sq (div O yr q)).
  Definition ell_inside (sh : Z * Z) (s : T2) (R q : T) (cs c : T2) (p : Z * Z) : bool :=
    sqrt_le (ell2 (offset sh s c p) cs q) R.
  Definition ellann_inside (sh : Z * Z) (s : T2) (Ri qi : T) (csi : T2) (Ro qo : T) (cso c : T2) (p : Z * Z) : bool :=
    let d := offset sh s c p in sqrt_ge (ell2 d csi qi) Ri && sqrt_le (ell2 d cso qo) Ro.
End Spec.

(* ------------------------------------------------------------------ correspondence cases (exact rationals) *)
Definition Q2 := (Q * Q)%type.
Definition Z2 := (Z * Z)%type.
Definition qtol (tol a b : Q) : bool := Qabs_le_tol tol a b.
Definition q2tol (tol : Q) (a b : Q2) : bool := qtol tol (fst a) (fst b) && qtol tol (snd a) (snd b).
Definition q4tol (tol : Q) (a b : Q * Q * Q * Q) : bool :=
  let '(a1, a2, a3, a4) := a in let '(b1, b2, b3, b4) := b in
  qtol tol a1 b1 && qtol tol a2 b2 && qtol tol a3 b3 && qtol tol a4 b4.
Definition z2_eqb (a b : Z2) : bool := Z.eqb (fst a) (fst b) && Z.eqb (snd a) (snd b).
Definition mask_eqb : mask -> mask -> bool := list_eqb (list_eqb Bool.eqb).
Definition isint (q : Q) : option Z := if Qeq_bool q (inject_Z (Qfloor q)) then Some (Qfloor q) else None.

(* objects, as in the header of Gen_geometry.v: a Mask2D is (content, pixel_scales, origin), a Grid2D / Array2D is (slim values, its mask
   object), a Geometry2D is (shape_native, pixel_scales, origin); 1-D likewise *)
Definition mobj := (mask * Q2 * Q2)%type.
Definition gobj := (list Q2 * mobj)%type.
Definition aobj := (list Q * mobj)%type.
Definition m1obj := (list bool * Q * Q)%type.
Definition g1obj := (list Q * m1obj)%type.
Definition q2eq (a b : Q2) : bool := Qeq_bool (fst a) (fst b) && Qeq_bool (snd a) (snd b).
Definition mobj_eqb (a b : mobj) : bool := mask_eqb (fst (fst a)) (fst (fst b)) && q2eq (snd (fst a)) (snd (fst b)) && q2eq (snd a) (snd b).
Definition m1obj_eqb (a b : m1obj) : bool :=
  list_eqb Bool.eqb (fst (fst a)) (fst (fst b)) && Qeq_bool (snd (fst a)) (snd (fst b)) && Qeq_bool (snd a) (snd b).
(* Mask2D(..., invert=b): the complement *)
Definition mask_inv (inv : bool) (m : mask) : mask := if inv then map (map negb) m else m.

(* Every constructor records the inputs AND what the implementation returned ([out]).  [tol] = 0 on the exact stream
   (dyadic inputs: every double operation is exact) and 1e-9 on the tolerance stream (arbitrary doubles, decisions
   kept at a margin >= 1e-6 by the generator). *)
Inductive case :=
| KCentral1 (n : Z) (s o : Q) (tol : Q) (outp outs : Q)       (* central_pixel_coordinates_1d / central_scaled_coordinate_1d *)
| KCentral2 (sh : Z2) (s o : Q2) (tol : Q) (outp outs : Q2)
| KMaskCentres (sh : Z2) (s c : Q2) (tol : Q) (out : Q2)      (* mask_2d_centres_from *)
| KPix1 (n : Z) (s o x : Q) (out : Z)                         (* pixel_coordinates_1d_from *)
| KPix2 (sh : Z2) (s o c : Q2) (out : Z2)                     (* pixel_coordinates_2d_from *)
| KScaled1 (n : Z) (s o p : Q) (tol : Q) (out : Q)            (* scaled_coordinates_1d_from *)
| KScaled2 (sh : Z2) (s o p : Q2) (tol : Q) (out : Q2)
| KExtent1 (n : Z) (s o : Q) (tol : Q) (out : Q2)
| KExtent2 (sh : Z2) (s o : Q2) (tol : Q) (out : Q * Q * Q * Q)
| KExtentGrid (sh : Z2) (s o : Q2) (tol : Q) (ext : Q * Q * Q * Q) (g : list Q2)   (* the extent AND the all-false pixel-centre grid of one object *)
| KGridPixels (sh : Z2) (s o : Q2) (g : list Q2) (tol : Q) (out : list Q2)
| KGridCentres (sh : Z2) (s o : Q2) (g : list Q2) (out : list Q2)
| KGridIndexes (sh : Z2) (s o : Q2) (g : list Q2) (out : list Q)
| KGridScaled (sh : Z2) (s o : Q2) (g : list Q2) (tol : Q) (out : list Q2)
| KGridMask (m : mask) (s o : Q2) (tol : Q) (out : list Q2)   (* pixel-centre grid of a mask *)
| KGrid1Mask (m : list bool) (s o : Q) (tol : Q) (out : list Q)
| KCirc (sh : Z2) (s : Q2) (r : Q) (c : Q2) (out : mask)
| KAnn (sh : Z2) (s : Q2) (ri ro : Q) (c : Q2) (out : mask)
| KAnti (sh : Z2) (s : Q2) (ri ro ro2 : Q) (c : Q2) (out : mask)
| KEll (sh : Z2) (s : Q2) (R q : Q) (cs c : Q2) (out : mask)  (* cs = (cos, sin) of the angle *)
| KEllAnn (sh : Z2) (s : Q2) (Ri qi : Q) (csi : Q2) (Ro qo : Q) (cso c : Q2) (out : mask)
(* ---- the CLASS layer: the object that the public entry point returned *)
| KAllFalseC (sh : Z2) (s o : Q2) (inv : bool) (out : mobj)                               (* Mask2D.all_false *)
| KCircC (sh : Z2) (r : Q) (s o c : Q2) (inv : bool) (out : mobj)                         (* Mask2D.circular(shape, radius, pixel_scales, origin, centre, invert) *)
| KAnnC (sh : Z2) (ri ro : Q) (s o c : Q2) (inv : bool) (out : mobj)
| KAntiC (sh : Z2) (ri ro ro2 : Q) (s o c : Q2) (inv : bool) (out : mobj)
| KEllC (sh : Z2) (R q : Q) (cs : Q2) (s o c : Q2) (inv : bool) (out : mobj)
| KEllAnnC (sh : Z2) (Ri qi : Q) (csi : Q2) (Ro qo : Q) (cso : Q2) (s o c : Q2) (inv : bool) (out : mobj)
| KGeoOf (M : mobj) (out : Z2 * Q2 * Q2)                                                  (* Mask2D.geometry *)
| KGeoGrid (which : Z) (sh : Z2) (s o : Q2) (G : gobj) (tol : Q) (out : gobj)             (* Geometry2D.grid_pixels (0) / grid_pixel_centres (1) / grid_scaled (2) _2d_from, G: a Grid2D with its OWN mask *)
| KGeoIndexes (sh : Z2) (s o : Q2) (G : gobj) (out : aobj)                                (* Geometry2D.grid_pixel_indexes_2d_from *)
| KSnap (sh : Z2) (s o c : Q2) (tol : Q) (out : Q2)                                       (* scaled_coordinate_2d_to_scaled_at_pixel_centre_from *)
| KUniformC (sh : Z2) (s o : Q2) (tol : Q) (out : gobj)                                   (* Grid2D.uniform *)
| KFromMaskC (M : mobj) (tol : Q) (out : gobj)                                            (* Grid2D.from_mask *)
| KDeriveAllFalseC (M : mobj) (tol : Q) (out : gobj)                                      (* Mask2D.derive_grid.all_false *)
| KDeriveUnmaskedC (M : mobj) (tol : Q) (out : gobj)                                      (* Mask2D.derive_grid.unmasked *)
| KNative3 (sh : Z2) (s o : Q2) (g : list (list Q2)) (out : list (list Q2))               (* geometry_util.grid_pixel_centres_2d_from (native 3-D) *)
| KAllFalse1C (n : Z) (s o : Q) (inv : bool) (out : m1obj)                                (* Mask1D.all_false *)
| KGeoOf1 (M : m1obj) (out : Z * Q * Q)                                                   (* Mask1D.geometry *)
| KUniform1C (n : Z) (s o : Q) (tol : Q) (out : g1obj)                                    (* Grid1D.uniform *)
| KFromMask1C (M : m1obj) (tol : Q) (out : g1obj)                                         (* Grid1D.from_mask *)
| KDeriveAllFalse1 (M : m1obj) (tol : Q) (out : g1obj)                                    (* Mask1D.derive_grid.all_false: specification only *)
| KUniformFromZero1 (n : Z) (s : Q) (tol : Q) (out : g1obj).                              (* Grid1D.uniform_from_zero (sibling constructor) *)

(* ------------------------------------------------------------------ the specification applied to the implementation's output *)
Definition all2 {A B} (f : A -> B -> bool) (l1 : list A) (l2 : list B) : bool :=
  Nat.eqb (length l1) (length l2) && forallb (fun ab => f (fst ab) (snd ab)) (combine l1 l2).

(* an index pair the specification accepts for point c: strictly inside the extent the point lies in the closed square of
   the reported pixel (on a shared edge either neighbour is accepted; the pixel is then necessarily inside the array);
   on or outside the border of the extent nothing is claimed *)
Definition pix_ok (sh : Z2) (s o c : Q2) (p : Z2) : bool :=
  negb (@in_extent QOps sh s o c) || @in_square QOps sh s o p c.
Definition pix1_ok (n : Z) (s o x : Q) (j : Z) : bool :=
  negb (@in_extent1 QOps n s o x) || @in_interval QOps (@centre1_spec QOps n s o j) s x.

(* the implementation reports these positions in PIXEL units ([tol] is a pixel-unit tolerance); the specification evaluates
   them in scaled units, where the tolerance is tol * pixel scale *)
Definition q2tol_scaled (tol : Q) (s : Q2) (a b : Q2) : bool :=
  qtol (tol * Qabs (fst s)) (fst a) (fst b) && qtol (tol * Qabs (snd s)) (snd a) (snd b).
(* extent edges = outermost pixel centres -/+ half a pixel; g is the row-major all-false pixel-centre grid *)
Definition extent_edges_ok (tol : Q) (s : Q2) (ext : Q * Q * Q * Q) (g : list Q2) : bool :=
  let '(xmin, xmax, ymin, ymax) := ext in
  match g with
  | [] => false
  | first :: _ =>
      let lst := last g first in
      qtol tol xmin (snd first - snd s / 2) && qtol tol xmax (snd lst + snd s / 2) &&
      qtol tol ymax (fst first + fst s / 2) && qtol tol ymin (fst lst - fst s / 2)
  end.

Definition all_false_mask (sh : Z2) : mask := mask_of sh (fun _ => true).
Definition centres_ok (sh : Z2) (s o : Q2) (g out : list Q2) : bool :=
  all2 (fun c p => match isint (fst p), isint (snd p) with
                   | Some i, Some j => pix_ok sh s o c (i, j)
                   | _, _ => false end) g out.
Definition indexes_ok (sh : Z2) (s o : Q2) (g : list Q2) (out : list Q) : bool :=
  all2 (fun c q => match isint q with
                   | Some t => negb (@in_extent QOps sh s o c) ||
                               ((0 <? snd sh) && pix_ok sh s o c (t / snd sh, t mod snd sh))
                   | None => false end) g out.
(* snapping to the pixel centre: strictly inside the extent the result is the centre of a pixel of the array whose closed square
   contains the point *)
Definition snap_ok (sh : Z2) (s o c : Q2) (tol : Q) (out : Q2) : bool :=
  negb (@in_extent QOps sh s o c) ||
  existsb (fun p => @in_square QOps sh s o p c && q2tol tol out (@centre_spec QOps sh s o p)) (coords (fst sh) (snd sh)).
Definition shape_of (m : mask) : Z2 := (rows m, cols m).

Definition spec_ok (k : case) : bool :=
  match k with
  | KCentral1 n s o tol outp outs =>
      (* the (real-valued) pixel position whose scaled coordinate is 0, for origin 0 resp. o *)
      qtol (tol * Qabs s) (@cx_spec QOps n s 0%Q outp) 0%Q && qtol (tol * Qabs s) (@cx_spec QOps n s o outs) 0%Q
  | KCentral2 sh s o tol outp outs =>
      q2tol_scaled tol s (@cy_spec QOps (fst sh) (fst s) 0%Q (fst outp), @cx_spec QOps (snd sh) (snd s) 0%Q (snd outp)) (0%Q, 0%Q) &&
      q2tol_scaled tol s (@cy_spec QOps (fst sh) (fst s) (fst o) (fst outs), @cx_spec QOps (snd sh) (snd s) (snd o) (snd outs)) (0%Q, 0%Q)
  | KMaskCentres sh s c tol out =>
      (* the (real-valued) pixel position of the requested centre, mask origin (0,0) *)
      q2tol_scaled tol s (@cy_spec QOps (fst sh) (fst s) 0%Q (fst out), @cx_spec QOps (snd sh) (snd s) 0%Q (snd out)) c
  | KPix1 n s o x out => pix1_ok n s o x out
  | KPix2 sh s o c out => pix_ok sh s o c out
  | KScaled1 n s o p tol out => qtol tol out (@cx_spec QOps n s o p)
  | KScaled2 sh s o p tol out =>
      q2tol tol out (@cy_spec QOps (fst sh) (fst s) (fst o) (fst p), @cx_spec QOps (snd sh) (snd s) (snd o) (snd p))
  | KExtent1 n s o tol out => q2tol tol out (@extent1_spec QOps n s o)
  | KExtent2 sh s o tol out => q4tol tol out (@extent_spec QOps sh s o)
  | KExtentGrid sh s o tol ext g => extent_edges_ok tol s ext g
  | KGridPixels sh s o g tol out => all2 (q2tol tol) out (map (@pixels_spec QOps sh s o) g)
  | KGridCentres sh s o g out => centres_ok sh s o g out
  | KGridIndexes sh s o g out => indexes_ok sh s o g out
  | KGridScaled sh s o g tol out => all2 (q2tol tol) out (map (@scaled_spec QOps sh s o) g)
  | KGridMask m s o tol out => all2 (q2tol tol) out (map (@centre_spec QOps (rows m, cols m) s o) (unmasked m))
  | KGrid1Mask m s o tol out => all2 (qtol tol) out (map (@centre1_spec QOps (Z.of_nat (length m)) s o) (unmasked1 m))
  | KCirc sh s r c out => mask_eqb out (mask_of sh (@circ_inside QOps sh s r c))
  | KAnn sh s ri ro c out => mask_eqb out (mask_of sh (@ann_inside QOps sh s ri ro c))
  | KAnti sh s ri ro ro2 c out => mask_eqb out (mask_of sh (@anti_inside QOps sh s ri ro ro2 c))
  | KEll sh s R q cs c out => mask_eqb out (mask_of sh (@ell_inside QOps sh s R q cs c))
  | KEllAnn sh s Ri qi csi Ro qo cso c out => mask_eqb out (mask_of sh (@ellann_inside QOps sh s Ri qi csi Ro qo cso c))
  (* class layer.  The constructors: the documented shape, evaluated at pixel centres measured with origin (0,0) -- the `origin`
     argument is stored in the object and does not move the shape --, complemented by `invert`; pixel scales and origin are stored *)
  | KAllFalseC sh s o inv out => mobj_eqb out (mask_inv inv (all_false_mask sh), s, o)
  | KCircC sh r s o c inv out => mobj_eqb out (mask_inv inv (mask_of sh (@circ_inside QOps sh s r c)), s, o)
  | KAnnC sh ri ro s o c inv out => mobj_eqb out (mask_inv inv (mask_of sh (@ann_inside QOps sh s ri ro c)), s, o)
  | KAntiC sh ri ro ro2 s o c inv out => mobj_eqb out (mask_inv inv (mask_of sh (@anti_inside QOps sh s ri ro ro2 c)), s, o)
  | KEllC sh R q cs s o c inv out => mobj_eqb out (mask_inv inv (mask_of sh (@ell_inside QOps sh s R q cs c)), s, o)
  | KEllAnnC sh Ri qi csi Ro qo cso s o c inv out =>
      mobj_eqb out (mask_inv inv (mask_of sh (@ellann_inside QOps sh s Ri qi csi Ro qo cso c)), s, o)
  | KGeoOf M out => z2_eqb (fst (fst out)) (shape_of (fst (fst M))) && q2eq (snd (fst out)) (snd (fst M)) && q2eq (snd out) (snd M)
  (* the conversions use the GEOMETRY's shape sh, whatever the shape of the mask of the Grid2D G that carries the points; the result
     carries G's mask *)
  | KGeoGrid which sh s o G tol out =>
      mobj_eqb (snd out) (snd G) &&
      (if which =? 0 then all2 (q2tol tol) (fst out) (map (@pixels_spec QOps sh s o) (fst G))
       else if which =? 1 then centres_ok sh s o (fst G) (fst out)
       else all2 (q2tol tol) (fst out) (map (@scaled_spec QOps sh s o) (fst G)))
  | KGeoIndexes sh s o G out => mobj_eqb (snd out) (snd G) && indexes_ok sh s o (fst G) (fst out)
  | KSnap sh s o c tol out => snap_ok sh s o c tol out
  | KUniformC sh s o tol out =>
      mobj_eqb (snd out) (all_false_mask sh, s, o) && all2 (q2tol tol) (fst out) (map (@centre_spec QOps sh s o) (coords (fst sh) (snd sh)))
  | KFromMaskC M tol out | KDeriveUnmaskedC M tol out =>
      let m := fst (fst M) in
      mobj_eqb (snd out) M && all2 (q2tol tol) (fst out) (map (@centre_spec QOps (shape_of m) (snd (fst M)) (snd M)) (unmasked m))
  | KDeriveAllFalseC M tol out =>
      let sh := shape_of (fst (fst M)) in
      mobj_eqb (snd out) (all_false_mask sh, snd (fst M), snd M) &&
      all2 (q2tol tol) (fst out) (map (@centre_spec QOps sh (snd (fst M)) (snd M)) (coords (fst sh) (snd sh)))
  | KNative3 sh s o g out => all2 (centres_ok sh s o) g out
  | KAllFalse1C n s o inv out => m1obj_eqb out (map (fun _ => inv) (seqZ n), s, o)
  | KGeoOf1 M out =>
      Z.eqb (fst (fst out)) (Z.of_nat (length (fst (fst M)))) && Qeq_bool (snd (fst out)) (snd (fst M)) && Qeq_bool (snd out) (snd M)
  | KUniform1C n s o tol out =>
      m1obj_eqb (snd out) (map (fun _ => false) (seqZ n), s, o) && all2 (qtol tol) (fst out) (map (@centre1_spec QOps n s o) (seqZ n))
  | KFromMask1C M tol out =>
      let m := fst (fst M) in
      m1obj_eqb (snd out) M && all2 (qtol tol) (fst out) (map (@centre1_spec QOps (Z.of_nat (length m)) (snd (fst M)) (snd M)) (unmasked1 m))
  | KDeriveAllFalse1 M tol out =>
      (* every pixel of the mask, masked or not, paired with the all-false mask of the same geometry *)
      let n := Z.of_nat (length (fst (fst M))) in
      m1obj_eqb (snd out) (map (fun _ => false) (seqZ n), snd (fst M), snd M) &&
      all2 (qtol tol) (fst out) (map (@centre1_spec QOps n (snd (fst M)) (snd M)) (seqZ n))
  | KUniformFromZero1 n s tol out =>
      (* pixel k at k pixel scales from zero, on the all-false mask with origin 0 *)
      m1obj_eqb (snd out) (map (fun _ => false) (seqZ n), s, 0%Q) && all2 (qtol tol) (fst out) (map (fun k => inject_Z k * s)%Q (seqZ n))
  end.
