(* C14 -- Resize, pad and trim keep data centred and attached to its coordinates.
   Statements only; every proof is [exact <lemma of Proofs/C14*.v>].  The definitions the statements are about
   (resized_array_2d_from, extracted_array_2d_from, mask_resized_from, array_resized_from,
   padded_before_convolution_from, trimmed_after_convolution_from, trimmed_array_from, zoom_region,
   zoomed_around_mask, imaging_apply_mask, grid_slim_via_mask / pixel_centre_code) are the hand model of Model/C14.v,
   tied to /repo by the correspondence run; resize_spec / zip_mask / pixel_centre_spec / triples_spec / ext_get /
   window_contains are the independent specification.  Arrays are lists of rows of ANY element type; shapes and
   indices are unbounded integers; coordinates are real numbers. *)
From Coq Require Import ZArith List Bool Reals.
From PAV Require Import Base.Res Base.NumOps Model.C14 Proofs.C14 Proofs.C14b Proofs.C14c Proofs.C14d Proofs.C14e.
Import ListNotations.
Local Open Scope Z_scope.

(* ---------------------------------------------------------------- 1. resize = centred crop / centred embedding *)
(* for every rectangular input, every target shape (any parity combination) and every pad value *)
Theorem C14_resize_is_centred_crop_or_embedding : forall (A : Type) (zero pad : A) (a : list (list A)) H W r0 r1,
  rectb H W a = true -> 0 < H -> 0 <= r0 -> 0 <= r1 ->
  resized_array_2d_from zero a (r0, r1) (-1, -1) pad = Ok (resize_spec pad a r0 r1).
Proof. exact @resized_is_spec. Qed.

(* new[i, j] = old[i + int(H/2) - int(r0/2), j + int(W/2) - int(r1/2)] when that source is in range, the pad value otherwise *)
Theorem C14_resize_entry_formula : forall (A : Type) (zero pad : A) (a : list (list A)) H W r0 r1,
  rectb H W a = true -> 0 < H -> 0 <= r0 -> 0 <= r1 ->
  exists m', resized_array_2d_from zero a (r0, r1) (-1, -1) pad = Ok m' /\ rectb r0 r1 m' = true /\
    forall i j d, 0 <= i < r0 -> 0 <= j < r1 ->
      let y := i + (int_half H - int_half r0) in let x := j + (int_half W - int_half r1) in
      (0 <= y < H /\ 0 <= x < W -> zget2 d m' i j = zget2 d a y x) /\
      (~ (0 <= y < H /\ 0 <= x < W) -> zget2 d m' i j = pad).
Proof. exact @resize_entry_formula. Qed.

Theorem C14_resize_negative_shape_raises : forall (A : Type) (zero pad : A) (a : list (list A)) r0 r1 origin,
  r0 < 0 \/ r1 < 0 -> resized_array_2d_from zero a (r0, r1) origin pad = Raise OtherException.
Proof. exact @resized_negative_shape. Qed.

(* "centred": per axis the two margins of the crop / embedding differ by at most one and are equal when the parity is kept *)
Theorem C14_margins_centred : forall n r, 0 <= r -> 0 <= n ->
  let top := Z.abs (n / 2 - r / 2) in let bottom := Z.abs (n - r) - top in
  0 <= top /\ 0 <= bottom /\ top + Z.min n r + bottom = Z.max n r /\ Z.abs (top - bottom) <= 1 /\
  (Z.even (n - r) = true -> top = bottom).
Proof. exact margins_centred. Qed.

Theorem C14_mask_resize_is_spec : forall (m : list (list bool)) H W r0 r1 pad_value,
  rectb H W m = true -> 0 < H -> 0 <= r0 -> 0 <= r1 ->
  mask_resized_from m (r0, r1) pad_value = Ok (resize_spec (negb (pad_value =? 0)) m r0 r1).
Proof. exact mask_resized_is_spec. Qed.

(* Array2D.resized_from: values padded with zeros, mask padded with the requested mask pad value, masked entries zero *)
Theorem C14_array_resize_is_spec : forall (A : Type) (zero : A) (arr : arr2d A) H W r0 r1 mask_pad_value,
  rectb H W (fst arr) = true /\ rectb H W (snd arr) = true /\ 0 < H -> 0 <= r0 -> 0 <= r1 ->
  array_resized_from zero arr (r0, r1) mask_pad_value = Ok (resized_arr_spec zero arr r0 r1 mask_pad_value).
Proof. exact @array_resized_is_spec. Qed.

Theorem C14_pad_is_spec : forall (A : Type) (zero : A) (arr : arr2d A) H W k0 k1 mask_pad_value,
  rectb H W (fst arr) = true /\ rectb H W (snd arr) = true /\ 0 < H -> 1 <= k0 -> 1 <= k1 ->
  padded_before_convolution_from zero arr (k0, k1) mask_pad_value
  = Ok (resized_arr_spec zero arr (H + (k0 - 1)) (W + (k1 - 1)) mask_pad_value).
Proof. exact @padded_is_spec. Qed.

(* trimming for an odd kernel = the centred crop to shape - (kernel - 1) (non-empty result) *)
Theorem C14_trim_is_spec : forall (A : Type) (zero : A) (arr : arr2d A) H W k0 k1,
  rectb H W (fst arr) = true /\ rectb H W (snd arr) = true /\ 0 < H ->
  Z.odd k0 = true -> Z.odd k1 = true -> 1 <= k0 -> 1 <= k1 -> k0 - 1 < H -> k1 - 1 <= W ->
  trimmed_after_convolution_from zero arr (k0, k1) = Ok (resized_arr_spec zero arr (H - (k0 - 1)) (W - (k1 - 1)) 0).
Proof. exact @trimmed_is_spec. Qed.

(* ---------------------------------------------------------------- 2. round trips *)
(* padding for an odd kernel followed by trimming for the same kernel is the identity: all shapes, all odd kernels,
   either mask pad value *)
Theorem C14_pad_then_trim_id : forall (A : Type) (zero : A) (arr : arr2d A) H W k0 k1 mask_pad_value,
  rectb H W (fst arr) = true /\ rectb H W (snd arr) = true /\ 0 < H ->
  Z.odd k0 = true -> Z.odd k1 = true -> 1 <= k0 -> 1 <= k1 ->
  bind (padded_before_convolution_from zero arr (k0, k1) mask_pad_value)
       (fun p => trimmed_after_convolution_from zero p (k0, k1))
  = Ok (normal_arr zero arr).
Proof. exact @pad_then_trim_id. Qed.

(* enlarging (any larger shape, any parity) then shrinking back loses nothing *)
Theorem C14_enlarge_then_shrink_id : forall (A : Type) (zero : A) (arr : arr2d A) H W r0 r1 mask_pad_value,
  rectb H W (fst arr) = true /\ rectb H W (snd arr) = true /\ 0 < H -> H <= r0 -> W <= r1 ->
  bind (array_resized_from zero arr (r0, r1) mask_pad_value)
       (fun p => array_resized_from zero p (shape2 (snd arr)) mask_pad_value)
  = Ok (normal_arr zero arr).
Proof. exact @enlarge_then_shrink_id. Qed.

(* Mask2D.trimmed_array_from: the symmetric slice is the centred crop when each axis keeps its parity *)
Theorem C14_trimmed_array_is_centred_crop : forall (A : Type) (zero : A) (p : list (list A)) H W s0 s1,
  rectb H W p = true -> 0 < H -> 0 <= s0 <= H -> 0 <= s1 <= W -> Z.even (H - s0) = true -> Z.even (W - s1) = true ->
  trimmed_array_from (H, W) p (s0, s1) = resize_spec zero p s0 s1.
Proof. exact @trimmed_array_is_spec. Qed.

Theorem C14_pad_then_trimmed_array_id : forall (A : Type) (zero : A) (arr : arr2d A) H W k0 k1 mask_pad_value,
  rectb H W (fst arr) = true /\ rectb H W (snd arr) = true /\ 0 < H ->
  Z.odd k0 = true -> Z.odd k1 = true -> 1 <= k0 -> 1 <= k1 ->
  bind (padded_before_convolution_from zero arr (k0, k1) mask_pad_value)
       (fun p => Ok (trimmed_array_from (shape2 (snd p)) (fst p) (shape2 (snd arr))))
  = Ok (zip_mask zero (fst arr) (snd arr)).
Proof. exact @pad_then_trimmed_array_id. Qed.

(* ---------------------------------------------------------------- 3. coordinates *)
(* the two assignments of grid_2d_slim_via_mask_from give the pixel-centre formula
   (oy + ((H-1)/2 - y) sy, ox + (x - (W-1)/2) sx) *)
Theorem C14_grid_formula_is_pixel_centre : forall H W (sy sx oy ox : R) y x, sy <> 0%R -> sx <> 0%R ->
  @pixel_centre_code ROps H W (sy, sx, oy, ox) y x = @pixel_centre_spec ROps H W (sy, sx, oy, ox) y x.
Proof. exact centre_code_is_spec. Qed.

(* when the parity of each dimension is preserved every surviving pixel keeps its mask entry, its value and its scaled
   coordinate (any pixel scales, any origin) *)
Theorem C14_parity_preserving_resize_keeps_coordinates :
  forall (A : Type) (zero : A) (arr : arr2d A) H W r0 r1 mask_pad_value (g : @geom ROps),
  rectb H W (fst arr) = true -> rectb H W (snd arr) = true -> 0 < H -> 0 <= r0 -> 0 <= r1 ->
  Z.even (r0 - H) = true -> Z.even (r1 - W) = true ->
  exists out, array_resized_from zero arr (r0, r1) mask_pad_value = Ok out /\
    rectb r0 r1 (fst out) = true /\ rectb r0 r1 (snd out) = true /\
    forall i j, 0 <= i < r0 -> 0 <= j < r1 ->
      let y := i + (H / 2 - r0 / 2) in let x := j + (W / 2 - r1 / 2) in
      0 <= y < H -> 0 <= x < W ->
      zget2 true (snd out) i j = zget2 true (snd arr) y x /\
      zget2 zero (fst out) i j = zget2 zero (fst (normal_arr zero arr)) y x /\
      @pixel_centre_code ROps r0 r1 g i j = @pixel_centre_code ROps H W g y x.
Proof. exact @parity_preserving_resize_keeps_coordinates. Qed.

(* in particular PSF padding (odd kernel): pixel (i, j) moves to (i + (k0-1)/2, j + (k1-1)/2) and keeps everything *)
Theorem C14_psf_padding_keeps_coordinates :
  forall (A : Type) (zero : A) (arr : arr2d A) H W k0 k1 mask_pad_value (g : @geom ROps),
  rectb H W (fst arr) = true -> rectb H W (snd arr) = true -> 0 < H ->
  Z.odd k0 = true -> Z.odd k1 = true -> 1 <= k0 -> 1 <= k1 ->
  exists out, padded_before_convolution_from zero arr (k0, k1) mask_pad_value = Ok out /\
    forall i j, 0 <= i < H -> 0 <= j < W ->
      let i' := i + (k0 - 1) / 2 in let j' := j + (k1 - 1) / 2 in
      zget2 true (snd out) i' j' = zget2 true (snd arr) i j /\
      zget2 zero (fst out) i' j' = zget2 zero (fst (normal_arr zero arr)) i j /\
      @pixel_centre_code ROps (H + (k0 - 1)) (W + (k1 - 1)) g i' j' = @pixel_centre_code ROps H W g i j.
Proof. exact @psf_padding_keeps_coordinates. Qed.

(* the same through Mask2D.resized_from(pad_value=1) + Grid2D.from_mask: the grid of the resized mask lists the
   original coordinates of the surviving unmasked pixels *)
Theorem C14_parity_preserving_mask_resize_keeps_grid : forall (m : list (list bool)) H W r0 r1 (g : @geom ROps),
  rectb H W m = true -> 0 < H -> 0 < r0 -> 0 <= r1 -> Z.even (r0 - H) = true -> Z.even (r1 - W) = true ->
  exists m', mask_resized_from m (r0, r1) 1 = Ok m' /\ m' = resize_spec true m r0 r1 /\
    grid_slim_via_mask m' g =
    map (fun p => @pixel_centre_code ROps H W g (fst p + (H / 2 - r0 / 2)) (snd p + (W / 2 - r1 / 2))) (unmasked_coords m').
Proof. exact resize_keeps_coordinates_grid. Qed.

(* the parity hypothesis is needed: 2x2 -> 3x3 moves the surviving pixel's coordinate by half a pixel *)
Theorem C14_parity_hypothesis_needed :
  @pixel_centre_spec ROps 3 3 (1, 1, 0, 0)%R 0 0 <> @pixel_centre_spec ROps 2 2 (1, 1, 0, 0)%R (0 + (2 / 2 - 3 / 2)) (0 + (2 / 2 - 3 / 2)).
Proof. exact centre_shift_parity_change_refuted. Qed.

(* Imaging.apply_mask, with or without the automatic padding (odd PSF, blurring region leaving the frame): the
   (coordinate, data, noise) triples of the unmasked pixels are those of the original frame; data and noise map end on
   the same mask, which is the given mask or its centred embedding padded with masked pixels *)
Theorem C14_auto_padding_keeps_triples :
  forall (A : Type) (zero : A) (data noise : list (list A)) (m : list (list bool)) H W psf (sy sx oy ox : R),
  rectb H W data = true -> rectb H W noise = true -> rectb H W m = true -> 0 < H -> sy <> 0%R -> sx <> 0%R ->
  match psf with Some k => odd_kernel k = true | None => True end ->
  exists d' n', imaging_apply_mask zero data noise m psf = Ok (d', n') /\ snd n' = snd d' /\
    @triples_of ROps A zero (sy, sx, oy, ox) d' n' = @triples_spec ROps A zero data noise m (sy, sx, oy, ox) /\
    (snd d' = m \/ exists k, psf = Some k /\ blurring_raises m k = true /\
                             snd d' = resize_spec true m (H + (fst k - 1)) (W + (snd k - 1))).
Proof. exact @auto_padding_keeps_triples. Qed.

(* and on the resulting mask the blurring footprint of every unmasked pixel lies inside the frame (what the padding is for) *)
Theorem C14_apply_mask_footprint_inside :
  forall (A : Type) (zero : A) (data noise : list (list A)) (m : list (list bool)) H W k,
  rectb H W data = true -> rectb H W noise = true -> rectb H W m = true -> 0 < H -> odd_kernel k = true ->
  exists d' n', imaging_apply_mask zero data noise m (Some k) = Ok (d', n') /\ footprint_inside (snd d') k = true.
Proof. exact @apply_mask_footprint_inside. Qed.

(* the padding happens exactly when some unmasked pixel's blurring footprint (odd PSF) leaves the frame *)
Theorem C14_padding_iff_footprint_leaves_frame : forall (m : list (list bool)) H W k,
  rectb H W m = true -> 0 < H -> odd_kernel k = true -> blurring_raises m k = negb (footprint_inside m k).
Proof. exact blurring_raises_iff. Qed.

(* when apply_mask padded, AbstractDataset.trimmed_after_convolution_from for the same kernel gives back the masked data
   and noise map on the original mask *)
Theorem C14_apply_mask_then_trim_id :
  forall (A : Type) (zero : A) (data noise : list (list A)) (m : list (list bool)) H W k,
  rectb H W data = true -> rectb H W noise = true -> rectb H W m = true -> 0 < H -> odd_kernel k = true ->
  blurring_raises m k = true ->
  bind (imaging_apply_mask zero data noise m (Some k)) (fun dn => dataset_trimmed zero dn k)
  = Ok ((zip_mask zero data m, m), (zip_mask zero noise m, m)).
Proof. exact @apply_mask_then_trim_id. Qed.

(* ---------------------------------------------------------------- 4. zoom *)
Theorem C14_extract_is_window : forall (A : Type) (zero : A) (a : list (list A)) H W y0 y1 x0 x1,
  rectb H W a = true -> 0 < H -> y0 <= y1 -> x0 <= x1 ->
  extracted_array_2d_from zero a y0 y1 x0 x1 =
  Ok (tab2 (Z.to_nat (y1 - y0)) (Z.to_nat (x1 - x0)) (fun i j => ext_get zero a (y0 + Z.of_nat i) (x0 + Z.of_nat j))).
Proof. exact @extracted_is_spec. Qed.

Theorem C14_zoom_region_contains_unmasked : forall (m : list (list bool)) y0 y1 x0 x1,
  zoom_region m = Ok (y0, y1, x0, x1) ->
  y0 < y1 /\ x0 < x1 /\ Z.abs ((y1 - y0) - (x1 - x0)) <= 1 /\
  forall p, In p (unmasked_coords m) -> y0 <= fst p < y1 /\ x0 <= snd p < x1.
Proof. exact zoom_region_contains. Qed.

(* the zoomed array is a window of the zero-extended array which contains every unmasked pixel with its value *)
Theorem C14_zoom_contains_unmasked : forall (A : Type) (zero : A) (arr : arr2d A) H W buffer,
  rectb H W (fst arr) = true -> rectb H W (snd arr) = true -> 0 < H -> 0 <= buffer -> unmasked_coords (snd arr) <> [] ->
  exists e oy ox h w, zoomed_around_mask zero arr buffer = Ok e /\ rectb h w e = true /\
    (forall i j d, 0 <= i < h -> 0 <= j < w -> zget2 d e i j = ext_get zero (fst arr) (oy + i) (ox + j)) /\
    window_contains (snd arr) oy ox h w = true /\
    (forall y x, 0 <= y < H -> 0 <= x < W -> zget2 true (snd arr) y x = false ->
       0 <= y - oy < h /\ 0 <= x - ox < w /\ forall d, zget2 d e (y - oy) (x - ox) = zget2 d (fst arr) y x).
Proof. exact @zoom_contains_unmasked. Qed.

Theorem C14_zoom_all_masked_raises : forall (A : Type) (zero : A) (arr : arr2d A) buffer,
  unmasked_coords (snd arr) = [] -> zoomed_around_mask zero arr buffer = Raise OtherException.
Proof. exact @zoom_all_masked_raises. Qed.

(* ---------------------------------------------------------------- non-vacuity: concrete inputs meeting the hypotheses *)
Definition ex_vals : list (list Z) := [[1; 2; 3]; [4; 5; 6]].
Definition ex_mask : list (list bool) := [[false; true; false]; [true; false; false]].
Definition ex_arr : arr2d Z := (ex_vals, ex_mask).

(* rectangular 2x3 input, even -> odd and odd -> even targets, grow and shrink *)
Example C14_ex_resize :
  rectb 2 3 ex_vals = true /\
  resized_array_2d_from 0 ex_vals (3, 4) (-1, -1) 9 = Ok [[9; 1; 2; 3]; [9; 4; 5; 6]; [9; 9; 9; 9]] /\
  resized_array_2d_from 0 ex_vals (1, 2) (-1, -1) 9 = Ok [[4; 5]] /\
  resize_spec 9 ex_vals 3 4 = [[9; 1; 2; 3]; [9; 4; 5; 6]; [9; 9; 9; 9]].
Proof. vm_compute. repeat split. Qed.
Example C14_ex_negative_shape : resized_array_2d_from 0 ex_vals (-1, 2) (-1, -1) 9 = Raise OtherException.
Proof. vm_compute. reflexivity. Qed.
(* proper Array2D (values and mask 2x3), odd kernel (3, 5) *)
Example C14_ex_pad_trim :
  (rectb 2 3 (fst ex_arr) = true /\ rectb 2 3 (snd ex_arr) = true /\ 0 < 2) /\ Z.odd 3 = true /\ Z.odd 5 = true /\
  padded_before_convolution_from 0 ex_arr (3, 5) 1 =
    Ok ([[0; 0; 0; 0; 0; 0; 0]; [0; 0; 1; 0; 3; 0; 0]; [0; 0; 0; 5; 6; 0; 0]; [0; 0; 0; 0; 0; 0; 0]],
        [[true; true; true; true; true; true; true]; [true; true; false; true; false; true; true];
         [true; true; true; false; false; true; true]; [true; true; true; true; true; true; true]]) /\
  bind (padded_before_convolution_from 0 ex_arr (3, 5) 1) (fun p => trimmed_after_convolution_from 0 p (3, 5))
  = Ok ([[1; 0; 3]; [0; 5; 6]], ex_mask).
Proof. vm_compute. repeat split. Qed.
(* trim hypotheses: 4x7 array, kernel (3, 5): 3 - 1 < 4, 5 - 1 <= 7 *)
Example C14_ex_trim :
  trimmed_after_convolution_from 0 ([[0; 0; 0; 0; 0; 0; 0]; [0; 0; 1; 2; 3; 0; 0]; [0; 0; 4; 5; 6; 0; 0]; [0; 0; 0; 0; 0; 0; 0]],
                                    repeat (repeat false 7%nat) 4%nat) (3, 5)
  = Ok (ex_vals, repeat (repeat false 3%nat) 2%nat).
Proof. vm_compute. reflexivity. Qed.
(* enlarge 2x3 -> 5x4 (both parities change) and back *)
Example C14_ex_enlarge_shrink :
  2 <= 5 /\ 3 <= 4 /\
  bind (array_resized_from 0 ex_arr (5, 4) 0) (fun p => array_resized_from 0 p (shape2 (snd ex_arr)) 0)
  = Ok ([[1; 0; 3]; [0; 5; 6]], ex_mask).
Proof. vm_compute. repeat split; discriminate. Qed.
(* trimmed_array_from: 4x5 -> 2x3 keeps the parity of both axes *)
Example C14_ex_trimmed_array :
  Z.even (4 - 2) = true /\ Z.even (5 - 3) = true /\
  trimmed_array_from (4, 5) [[0; 0; 0; 0; 0]; [0; 1; 2; 3; 0]; [0; 4; 5; 6; 0]; [0; 0; 0; 0; 0]] (2, 3) = ex_vals.
Proof. vm_compute. repeat split. Qed.
(* parity-preserving resize 2x3 -> 4x5 and non-zero pixel scales *)
Example C14_ex_parity : Z.even (4 - 2) = true /\ Z.even (5 - 3) = true /\ (2 <> 0)%R /\ (/ 2 <> 0)%R.
Proof. repeat split; try reflexivity; try apply Rinv_neq_0_compat; apply not_0_IZR; discriminate. Qed.
(* apply_mask: an unmasked corner pixel with a 3x3 PSF leaves the frame -> padding; an odd kernel *)
Example C14_ex_apply_mask :
  odd_kernel (3, 3) = true /\ blurring_raises ex_mask (3, 3) = true /\
  option_map (fun r => snd (fst r)) (match imaging_apply_mask 0 ex_vals ex_vals ex_mask (Some (3, 3)) with Ok r => Some r | Raise _ => None end)
  = Some [[true; true; true; true; true]; [true; false; true; false; true]; [true; true; false; false; true]; [true; true; true; true; true]] /\
  blurring_raises [[true; true; true]; [true; false; true]; [true; true; true]] (3, 3) = false.
Proof. vm_compute. repeat split. Qed.
(* zoom: a mask with unmasked pixels, buffer 1 *)
Example C14_ex_zoom :
  unmasked_coords ex_mask <> [] /\ zoom_region ex_mask = Ok (0, 2, 0, 3) /\
  zoomed_around_mask 0 ex_arr 1 = Ok [[0; 0; 0; 0; 0]; [0; 1; 2; 3; 0]; [0; 4; 5; 6; 0]; [0; 0; 0; 0; 0]] /\
  zoom_region [[true; true]; [true; true]] = Raise OtherException.
Proof. vm_compute. repeat split; discriminate. Qed.

Print Assumptions C14_resize_is_centred_crop_or_embedding.
Print Assumptions C14_resize_entry_formula.
Print Assumptions C14_resize_negative_shape_raises.
Print Assumptions C14_margins_centred.
Print Assumptions C14_mask_resize_is_spec.
Print Assumptions C14_array_resize_is_spec.
Print Assumptions C14_pad_is_spec.
Print Assumptions C14_trim_is_spec.
Print Assumptions C14_pad_then_trim_id.
Print Assumptions C14_enlarge_then_shrink_id.
Print Assumptions C14_trimmed_array_is_centred_crop.
Print Assumptions C14_pad_then_trimmed_array_id.
Print Assumptions C14_grid_formula_is_pixel_centre.
Print Assumptions C14_parity_preserving_resize_keeps_coordinates.
Print Assumptions C14_parity_preserving_mask_resize_keeps_grid.
Print Assumptions C14_parity_hypothesis_needed.
Print Assumptions C14_auto_padding_keeps_triples.
Print Assumptions C14_apply_mask_footprint_inside.
Print Assumptions C14_psf_padding_keeps_coordinates.
Print Assumptions C14_padding_iff_footprint_leaves_frame.
Print Assumptions C14_apply_mask_then_trim_id.
Print Assumptions C14_extract_is_window.
Print Assumptions C14_zoom_region_contains_unmasked.
Print Assumptions C14_zoom_contains_unmasked.
Print Assumptions C14_zoom_all_masked_raises.
