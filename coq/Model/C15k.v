(* C15k -- the abstract kernel record of Model/C15.v instantiated with the CONCRETE routines of the C04 model
   (Model/C04.v: data_vector_via_blurred_mapping_matrix_from, curvature_matrix_via_mapping_matrix_from (its np.dot part),
   w_tilde_data_imaging_from, data_vector_via_w_tilde_data_imaging_from,
   curvature_matrix_via_w_tilde_curvature_preload_imaging_from, _curvature_matrix_off_diag_from,
   data_linear_func_matrix_from, curvature_matrix_off_diags_via_data_linear_func_matrix_from,
   curvature_matrix_off_diags_via_mapper_and_linear_func_curvature_vector_from, the two mapped-data routines) and of the
   C03 model (Convolver.convolve_mapping_matrix / convolve_image_no_blurring), written once over [NumOps]
   (theorems at ROps in Proofs/C15k.v; the same term runs at QOps).

   What stays a parameter:
     [encf]  the sparse unique-mapping encoding (data_to_pix_unique, data_weights, pix_lengths) of a mapper as a function of
             the mapper, which Model/C15.v represents by its mapping matrix (C07 owns the encoding);
     [dec]   the (curvature_preload, indexes, lengths) triple that a WTildeImaging token carries;
     [slv], [ldc], [ldr]  the solver and the two log-determinants (C05's, not C04's).
   No proofs here. *)
From Coq Require Import List Arith Bool ZArith.
From PAV Require Import Base.Res Base.Check Base.NumOps Base.Sum Model.C03 Model.C04 Model.C15.
Import ListNotations.

Section C04Kernels.
  Context {O : NumOps}.
  Notation T := (T O).
  Variable c : @convolver O.                 (* Convolver built from the mask and the PSF (model C03) *)
  Variable m : mask.
  Variable Kp : @kernel O.                   (* the PSF *)
  Variable encf : list (list T) -> @C04.enc O.
  Variable dec : list (list T) -> list T * list nat * list nat.
  Variable slv : list (list T) -> list T -> res (list T).
  Variable ldc ldr : list (list T) -> res T.

  Definition dotv (a b : list T) : T := sumT (map (fun p => mul O (fst p) (snd p)) (combine a b)).

  Definition c04k : kernels T := {|
    t0 := zero; tadd := add O; tnz := fun x => negb (eqb O x zero); teqb := eqb O;
    conv_mm := fun M => convolve_matrix c M;
    conv_img := fun v => convolve_no_blurring c v;
    k_dv_bmm := fun B d s => C04.dv_blurred B d s;
    k_curv_mm := fun B s => C04.dotTN (C04.div_rows B s) (C04.div_rows B s);
    k_wtd := fun d s => C04.wt_data (C04.native m d) (C04.native m s) Kp (unmasked m);
    k_dv_wt := fun wtd M p => C04.dv_wtd wtd (encf M) p;
    k_curv_wt := fun W M p => let '(pre, idx, lens) := dec W in C04.curv_preload pre idx lens (encf M) p;
    k_off_wt := fun W M0 p0 M1 p1 =>
                  let '(pre, idx, lens) := dec W in C04.off_diag pre idx lens (encf M0) p0 (encf M1) p1;
    k_cw := fun L s => C04.div_rows_sq L s;
    k_wv := fun L s => C04.div_rows L s;
    k_dotT := fun A B => C04.dotTN A B;
    k_dlfm := fun cw => C04.data_linear_func_matrix cw (image_frames c);
    k_off_dlfm := fun dl M p => C04.off_via_dlfm dl (encf M) p;
    k_off_mf := fun M p cw => C04.off_mapper_func (encf M) p cw (image_frames c);
    k_mapped_mm := fun B s => C04.mapped_via_matrix B s;
    k_mapped_um := fun M s => C04.mapped_via_unique (encf M) s;
    k_rowsum := fun s L => map (fun row => dotv s row) L;
    k_quad := fun s H => dotv s (map (fun row => dotv row s) H);
    k_solve := slv; k_ldc := ldc; k_ldr := ldr |}.

  (* the dense encoding: every mapper has one (every source pixel listed for every data pixel, weight = matrix entry) *)
  Definition dense_enc (M : list (list T)) : @C04.enc O :=
    {| C04.e_du := map (fun row => map Z.of_nat (seq 0 (length row))) M;
       C04.e_dw := M;
       C04.e_pl := map (fun row => length row) M |}.
End C04Kernels.
