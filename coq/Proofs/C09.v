(* C09 -- proofs.  Part 1: loop skeletons = folds over the indexed list of unmasked pixels. *)
From Coq Require Import ZArith QArith Reals Lra Lia List Bool Arith Psatz.
From PAV Require Import Base.NumOps Base.Res Base.Check Base.Sum Model.C09.
Import ListNotations.

(* ------------------------------------------------------------------ list helpers *)
Lemma fold_left_map {A B S} (f : S -> B -> S) (g : A -> B) l : forall s,
  fold_left f (map g l) s = fold_left (fun st x => f st (g x)) l s.
Proof. induction l as [|a l IH]; intros s; cbn; auto. Qed.

Lemma fold_left_ext {A S} (f g : S -> A -> S) l : (forall s x, In x l -> f s x = g s x) ->
  forall s, fold_left f l s = fold_left g l s.
Proof.
  induction l as [|a l IH]; intros H s; cbn; auto.
  rewrite H by (left; reflexivity). apply IH. intros; apply H; right; assumption.
Qed.

(* a fold whose body appends a chunk is a flat_map *)
Lemma fold_left_append {A B} (g : A -> list B) l : forall acc,
  fold_left (fun acc x => acc ++ g x) l acc = acc ++ flat_map g l.
Proof.
  induction l as [|a l IH]; intros acc; cbn; [now rewrite app_nil_r|].
  rewrite IH, app_assoc. reflexivity.
Qed.

Lemma for_range_append {B} n (g : nat -> list B) acc :
  for_range n (fun i acc => acc ++ g i) acc = acc ++ flat_map g (seq 0 n).
Proof. unfold for_range. apply fold_left_append. Qed.

Lemma flat_map_singleton {A B} (h : A -> B) l : flat_map (fun x => [h x]) l = map h l.
Proof. induction l; cbn; congruence. Qed.

(* the doubly nested `for y1: for x1: out.append(h y1 x1)` *)
Lemma for_range2_append {B} s (h : nat -> nat -> B) acc :
  for_range s (fun y1 acc => for_range s (fun x1 acc => acc ++ [h y1 x1]) acc) acc
  = acc ++ flat_map (fun a => map (fun b => h a b) (seq 0 s)) (seq 0 s).
Proof.
  rewrite <- (for_range_append s (fun a => map (fun b => h a b) (seq 0 s)) acc).
  unfold for_range at 1 3. apply fold_left_ext. intros st a _.
  rewrite for_range_append, flat_map_singleton. reflexivity.
Qed.

(* ------------------------------------------------------------------ pixel_loop = fold over indexed unmasked pixels *)
Notation ipix := (nat * (nat * nat))%type (only parsing).       (* (slim index, (y, x)) *)
Definition indexed_from {A} (k : nat) (l : list A) : list (nat * A) := combine (seq k (length l)) l.
Definition ipixels (m : mask) : list ipix := indexed_from 0 (unmasked m).
Definition ibody {St} (body : nat -> nat -> nat -> St -> St) (st : St) (ip : ipix) : St :=
  body (fst (snd ip)) (snd (snd ip)) (fst ip) st.

Lemma indexed_from_app {A} (l1 l2 : list A) k :
  indexed_from k (l1 ++ l2) = indexed_from k l1 ++ indexed_from (k + length l1) l2.
Proof.
  unfold indexed_from. revert k. induction l1 as [|a l1 IH]; intros k; cbn.
  - now rewrite Nat.add_0_r.
  - rewrite IH. now rewrite Nat.add_succ_r.
Qed.

Lemma row_loop_fold {St} (body : nat -> nat -> nat -> St -> St) y row : forall x k s,
  row_loop body y row x (k, s) =
  ((k + length (unmasked_row y row x))%nat, fold_left (ibody body) (indexed_from k (unmasked_row y row x)) s).
Proof.
  induction row as [|b r IH]; intros x k s; cbn [row_loop unmasked_row].
  - cbn. now rewrite Nat.add_0_r.
  - destruct b.
    + apply IH.
    + cbn [fst snd]. rewrite IH. cbn [length indexed_from]. unfold indexed_from. cbn [length seq combine fold_left].
      unfold ibody at 2. cbn [fst snd]. f_equal. lia.
Qed.

Lemma rows_loop_fold {St} (body : nat -> nat -> nat -> St -> St) m : forall y k s,
  rows_loop body m y (k, s) =
  ((k + length (unmasked_from m y))%nat, fold_left (ibody body) (indexed_from k (unmasked_from m y)) s).
Proof.
  induction m as [|row t IH]; intros y k s; cbn [rows_loop unmasked_from].
  - cbn. now rewrite Nat.add_0_r.
  - rewrite row_loop_fold, IH, indexed_from_app, fold_left_app, app_length. f_equal. lia.
Qed.

Lemma pixel_loop_fold {St} (body : nat -> nat -> nat -> St -> St) m s0 :
  pixel_loop body m s0 = fold_left (ibody body) (ipixels m) s0.
Proof. unfold pixel_loop, ipixels, unmasked. rewrite rows_loop_fold. reflexivity. Qed.

(* pixels_in_mask (np.size - np.sum) counts the unmasked list *)
Lemma pixels_row row : forall x y n,
  fold_left (fun k (b : bool) => if b then k else S k) row n = (n + length (unmasked_row y row x))%nat.
Proof.
  induction row as [|b r IH]; intros x y n; cbn; [lia|].
  destruct b; rewrite (IH (S x) y); cbn; lia.
Qed.
Lemma pixels_in_mask_from m : forall y n,
  fold_left (fun n row => fold_left (fun k (b : bool) => if b then k else S k) row n) m n
  = (n + length (unmasked_from m y))%nat.
Proof.
  induction m as [|row t IH]; intros y n; cbn; [lia|].
  rewrite (pixels_row row 0 y), (IH (S y)), app_length. lia.
Qed.
Lemma pixels_in_mask_length m : pixels_in_mask m = length (unmasked m).
Proof. unfold pixels_in_mask, unmasked. now rewrite (pixels_in_mask_from m 0). Qed.

(* replacing `sub_size[index]` by the zipped sub-size: valid when len(sub_size) = number of unmasked pixels *)
Lemma indexed_nth_gen {A} (d : nat) (l : list A) : forall (ss pre : list nat),
  length ss = length l ->
  map (fun ip : nat * A => (ip, nth (fst ip) (pre ++ ss) d)) (indexed_from (length pre) l)
  = combine (indexed_from (length pre) l) ss.
Proof.
  unfold indexed_from.
  induction l as [|a l IH]; intros ss pre Hl; destruct ss as [|s ss]; cbn in Hl; try discriminate; cbn; auto.
  f_equal.
  - f_equal. rewrite app_nth2 by lia. now rewrite Nat.sub_diag.
  - specialize (IH ss (pre ++ [s])). rewrite app_length in IH. cbn in IH.
    rewrite Nat.add_1_r, <- app_assoc in IH. cbn in IH. apply IH. lia.
Qed.
Lemma indexed_nth {A} (d : nat) (l : list A) (ss : list nat) : length ss = length l ->
  map (fun ip : nat * A => (ip, nth (fst ip) ss d)) (indexed_from 0 l) = combine (indexed_from 0 l) ss.
Proof. intros H. apply (indexed_nth_gen d l ss [] H). Qed.

Definition zpixels (m : mask) (ss : list nat) : list (ipix * nat) := combine (ipixels m) ss.

(* a pixel loop whose body reads s = sub_size[index] is a fold over (index, (y, x), s) *)
Lemma pixel_loop_zip {St} (B : nat -> nat -> nat -> nat -> St -> St) m ss s0 :
  length ss = length (unmasked m) ->
  pixel_loop (fun y x index st => B y x index (nth index ss 0%nat) st) m s0
  = fold_left (fun st (z : ipix * nat) => B (fst (snd (fst z))) (snd (snd (fst z))) (fst (fst z)) (snd z) st) (zpixels m ss) s0.
Proof.
  intros H. rewrite pixel_loop_fold. unfold zpixels, ipixels. rewrite <- (indexed_nth 0%nat) by exact H.
  rewrite fold_left_map. reflexivity.
Qed.

Lemma map_fst_combine_indexed {A} (l : list A) k : map snd (indexed_from k l) = l.
Proof. unfold indexed_from. revert k. induction l; intros k; cbn; congruence. Qed.
Lemma map_fst_indexed {A} (l : list A) k : map fst (indexed_from k l) = seq k (length l).
Proof. unfold indexed_from. revert k. induction l; intros k; cbn; congruence. Qed.
Lemma indexed_from_length {A} (l : list A) k : length (indexed_from k l) = length l.
Proof. unfold indexed_from. rewrite combine_length, seq_length. lia. Qed.

Lemma combine_map_l {A B C} (f : A -> B) (l : list A) (r : list C) :
  combine (map f l) r = map (fun p => (f (fst p), snd p)) (combine l r).
Proof. revert r. induction l; intros [|c r]; cbn; auto. now rewrite IHl. Qed.

(* the (y,x) pixels zipped with their sub-size, from the triples *)
Lemma zpixels_pix m ss : map (fun z : ipix * nat => (snd (fst z), snd z)) (zpixels m ss) = combine (unmasked m) ss.
Proof.
  unfold zpixels, ipixels. rewrite <- (map_fst_combine_indexed (unmasked m) 0) at 2.
  rewrite combine_map_l. reflexivity.
Qed.
Lemma zpixels_idx m ss : length ss = length (unmasked m) ->
  map (fun z : ipix * nat => (fst (fst z), snd z)) (zpixels m ss) = combine (seq 0 (length ss)) ss.
Proof.
  intros H. unfold zpixels, ipixels. rewrite H, <- (map_fst_indexed (unmasked m) 0).
  rewrite combine_map_l. reflexivity.
Qed.

(* ================================================================== Part 2: theorems at ROps *)
Local Open Scope R_scope.
Notation RR := (R * R)%type (only parsing).

Definition ps_okR (ps : RR) : Prop := fst ps <> 0 /\ snd ps <> 0.
Definition subs_ok (ss : list nat) : Prop := Forall (fun s => (1 <= s)%nat) ss.
Definition shape_okP (m : mask) (ss : list nat) : Prop := length ss = length (unmasked m) /\ subs_ok ss.

Lemma ofNat_R n : @ofNat ROps n = INR n.
Proof. unfold ofNat. cbn. now rewrite INR_IZR_INZ. Qed.
Lemma INR_pos_of_le s : (1 <= s)%nat -> INR s <> 0.
Proof. intros H. apply not_0_INR. lia. Qed.

Lemma flat_map_map {A B C} (g : A -> B) (h : B -> list C) l : flat_map h (map g l) = flat_map (fun x => h (g x)) l.
Proof. induction l; cbn; congruence. Qed.
Lemma flat_map_ext_in {A B} (g h : A -> list B) l : (forall x, In x l -> g x = h x) -> flat_map g l = flat_map h l.
Proof. intros H. induction l; cbn; auto. rewrite H, IHl; auto with datatypes. Qed.

Lemma zpixels_sub_ok m ss z : subs_ok ss -> In z (zpixels m ss) -> (1 <= snd z)%nat.
Proof.
  intros Hs Hin. unfold zpixels in Hin. destruct z as [ip s]. apply in_combine_r in Hin.
  unfold subs_ok in Hs. rewrite Forall_forall in Hs. cbn. auto.
Qed.

(* spec side, from the triples *)
Lemma spec_centres_zip m ps og ss :
  combine (@spec_centres ROps m ps og) ss
  = map (fun z : ipix * nat => (@pixel_centre ROps (shape0 m) (shape1 m) ps og (snd (fst z)), snd z)) (zpixels m ss).
Proof.
  unfold spec_centres. rewrite combine_map_l, <- zpixels_pix, map_map. reflexivity.
Qed.

(* one sub-pixel: the code's expression = the centre of cell (a, b) of the uniform partition *)
Definition grid_point (H W : nat) (ps og : RR) (y x s y1 x1 : nat) : RR :=
  let c := @central_scaled ROps H W ps og in
  let N := @ofNat ROps in
  (- ((N y - fst c) * fst ps - fst ps / 2 + N y1 * (fst ps / N s) + (fst ps / N s) / 2),
   (N x - snd c) * snd ps - snd ps / 2 + N x1 * (snd ps / N s) + (snd ps / N s) / 2).
Definition grid_body (H W : nat) (ps og : RR) (y x s : nat) (acc : list RR) : list RR :=
  for_range s (fun y1 acc => for_range s (fun x1 acc => acc ++ [grid_point H W ps og y x s y1 x1]) acc) acc.

Lemma sub_point_formula (H W : nat) (ps og : RR) (y x s a b : nat) :
  ps_okR ps -> (1 <= s)%nat ->
  grid_point H W ps og y x s a b = @sub_centre ROps ps (@pixel_centre ROps H W ps og (y, x)) s a b.
Proof.
  intros [Hy Hx] Hs. pose proof (INR_pos_of_le s Hs) as Hs0.
  unfold grid_point, sub_centre, pixel_centre, central_scaled, half, one, two. cbn zeta. rewrite !ofNat_R.
  cbn [fst snd add sub mul div opp ofZ ROps T].
  f_equal; field; auto.
Qed.

Lemma over_sampled_grid_body m (ps og : RR) ss :
  @over_sampled_grid ROps m ps og ss
  = pixel_loop (fun y x index acc => grid_body (shape0 m) (shape1 m) ps og y x (nth index ss 0%nat) acc) m [].
Proof. reflexivity. Qed.

Theorem sub_grid_formula m (ps og : RR) ss :
  shape_okP m ss -> ps_okR ps ->
  @over_sampled_grid ROps m ps og ss = @spec_grid ROps m ps og ss.
Proof.
  intros [Hl Hs] Hps. rewrite over_sampled_grid_body. unfold spec_grid.
  rewrite (pixel_loop_zip (fun y x _ s acc => grid_body (shape0 m) (shape1 m) ps og y x s acc)) by exact Hl.
  rewrite (fold_left_ext _ (fun acc (z : ipix * nat) => acc ++
     flat_map (fun a => map (fun b => grid_point (shape0 m) (shape1 m) ps og (fst (snd (fst z))) (snd (snd (fst z))) (snd z) a b)
                            (seq 0 (snd z))) (seq 0 (snd z)))).
  2:{ intros acc z _. unfold grid_body. rewrite for_range2_append. reflexivity. }
  rewrite (fold_left_append (fun z : ipix * nat => flat_map (fun a => map (fun b =>
     grid_point (shape0 m) (shape1 m) ps og (fst (snd (fst z))) (snd (snd (fst z))) (snd z) a b) (seq 0 (snd z))) (seq 0 (snd z)))).
  cbn [app].
  rewrite spec_centres_zip, flat_map_map. apply flat_map_ext_in. intros z Hz.
  pose proof (zpixels_sub_ok m ss z Hs Hz) as Hz1.
  unfold block. cbn [fst snd]. apply flat_map_ext_in. intros a _. apply map_ext. intros b.
  destruct z as [[i [y x]] s]. cbn [fst snd] in *.
  apply (sub_point_formula (shape0 m) (shape1 m) ps og y x s a b Hps Hz1).
Qed.

(* ------------------------------------------------------------------ pixel centres: Grid2D.from_mask / derive_grid.unmasked *)
Theorem centres_formula m (ps og : RR) : ps_okR ps ->
  @grid_slim_via_mask ROps m ps og = @spec_centres ROps m ps og.
Proof.
  intros [Hy Hx]. unfold grid_slim_via_mask, spec_centres. rewrite pixel_loop_fold.
  rewrite (fold_left_ext _ (fun acc (ip : ipix) => acc ++ [@pixel_centre ROps (shape0 m) (shape1 m) ps og (snd ip)])).
  - rewrite (fold_left_append (fun ip : ipix => [@pixel_centre ROps (shape0 m) (shape1 m) ps og (snd ip)])).
    cbn [app]. rewrite flat_map_singleton. unfold ipixels.
    rewrite <- (map_fst_combine_indexed (unmasked m) 0) at 2. now rewrite map_map.
  - intros acc [i [y x]] _. unfold ibody. cbn [fst snd]. f_equal. f_equal.
    unfold pixel_centre, central_scaled, two. rewrite !ofNat_R. cbn [fst snd add sub mul div opp ofZ ROps T].
    f_equal; field; auto.
Qed.

Lemma flat_map_map_length {A B C} (h : A -> B -> C) (l2 : list B) (l : list A) :
  length (flat_map (fun a => map (h a) l2) l) = (length l * length l2)%nat.
Proof. induction l; cbn; auto. rewrite app_length, map_length, IHl. reflexivity. Qed.
Lemma block_length (ps c : RR) s : length (@block ROps ps c s) = (s * s)%nat.
Proof. unfold block. rewrite (flat_map_map_length (fun a b => @sub_centre ROps ps c s a b)), seq_length. reflexivity. Qed.

(* every sub-centre is the midpoint of cell (a, b) of the uniform s x s partition of the pixel
   [cy - sy/2, cy + sy/2] x [cx - sx/2, cx + sx/2]; rows are counted from the top (largest y) *)
Definition cell_y_hi (ps c : RR) (s a : nat) : R := fst c + fst ps / 2 - INR a * (fst ps / INR s).
Definition cell_x_lo (ps c : RR) (s b : nat) : R := snd c - snd ps / 2 + INR b * (snd ps / INR s).
Lemma sub_centre_is_cell_midpoint (ps c : RR) s a b : (1 <= s)%nat ->
  @sub_centre ROps ps c s a b =
  ((cell_y_hi ps c s a + cell_y_hi ps c s (S a)) / 2, (cell_x_lo ps c s b + cell_x_lo ps c s (S b)) / 2).
Proof.
  intros Hs. pose proof (INR_pos_of_le s Hs). unfold sub_centre, cell_y_hi, cell_x_lo, half, one, two.
  rewrite !ofNat_R, !S_INR. cbn [fst snd add sub mul div opp ofZ ROps T]. f_equal; field; auto.
Qed.
Lemma cells_tile_pixel (ps c : RR) s : (1 <= s)%nat ->
  cell_y_hi ps c s 0 = fst c + fst ps / 2 /\ cell_y_hi ps c s s = fst c - fst ps / 2 /\
  cell_x_lo ps c s 0 = snd c - snd ps / 2 /\ cell_x_lo ps c s s = snd c + snd ps / 2.
Proof.
  intros Hs. pose proof (INR_pos_of_le s Hs). unfold cell_y_hi, cell_x_lo. cbn [INR]. repeat split; field; auto.
Qed.

(* ------------------------------------------------------------------ binning *)
Lemma iter_S {St} n (g : St -> St) st : Nat.iter (S n) g st = g (Nat.iter n g st).
Proof. reflexivity. Qed.
Lemma iter_shift {St} n (g : St -> St) st : Nat.iter n g (g st) = g (Nat.iter n g st).
Proof. induction n as [|n IH]; [reflexivity|]. change (g (Nat.iter n g (g st)) = g (g (Nat.iter n g st))). now rewrite IH. Qed.
Lemma iter_plus {St} a b (g : St -> St) st : Nat.iter (a + b) g st = Nat.iter a g (Nat.iter b g st).
Proof. induction a as [|a IH]; [reflexivity|]. change (g (Nat.iter (a + b) g st) = g (Nat.iter a g (Nat.iter b g st))). now rewrite IH. Qed.
Lemma iter_for_range {St} n (g : St -> St) st : for_range n (fun _ st => g st) st = Nat.iter n g st.
Proof.
  unfold for_range. revert st. generalize 0%nat as k.
  induction n as [|n IH]; intros k st; cbn [seq fold_left Nat.iter]; auto.
  rewrite IH. apply iter_shift.
Qed.
Lemma iter_iter {St} a b (g : St -> St) st : Nat.iter a (Nat.iter b g) st = Nat.iter (a * b) g st.
Proof.
  induction a as [|a IH]; [reflexivity|].
  change (Nat.iter (S a) (Nat.iter b g) st) with (Nat.iter b g (Nat.iter a (Nat.iter b g) st)). rewrite IH.
  change (S a * b)%nat with (b + a * b)%nat. now rewrite iter_plus.
Qed.
Lemma for_range2_iter {St} s (g : St -> St) st :
  for_range s (fun _ st => for_range s (fun _ st => g st) st) st = Nat.iter (s * s) g st.
Proof.
  rewrite <- iter_iter, <- iter_for_range. unfold for_range. apply fold_left_ext. intros. apply iter_for_range.
Qed.

Lemma upd_add_mid (pre rest : list R) x v :
  @upd_add ROps (pre ++ x :: rest) (length pre) v = pre ++ (x + v) :: rest.
Proof. induction pre; cbn; congruence. Qed.

Definition bin_step (arr : list R) (i : nat) (c : R) (st : nat * list R) : nat * list R :=
  (S (fst st), @upd_add ROps (snd st) i (nth (fst st) arr 0 * c)).

Lemma bin_step_iter arr pre rest c t : forall k x,
  Nat.iter t (bin_step arr (length pre) c) (k, pre ++ x :: rest)
  = ((k + t)%nat, pre ++ (x + c * sumR (map (fun j => nth (k + j) arr 0) (seq 0 t))) :: rest).
Proof.
  induction t as [|t IH]; intros k x.
  - cbn. rewrite Nat.add_0_r. repeat f_equal. lra.
  - rewrite iter_S, IH. unfold bin_step. cbn [fst snd]. rewrite upd_add_mid.
    f_equal; [lia|]. f_equal. f_equal. rewrite seq_S, map_app, sumR_app. cbn. lra.
Qed.

Lemma skipn_cons_nth {A} (d : A) l : forall k, (k < length l)%nat -> skipn k l = nth k l d :: skipn (S k) l.
Proof.
  induction l as [|a l IH]; intros k Hk; cbn in Hk; [lia|].
  destruct k; [reflexivity|]. cbn [skipn nth]. rewrite IH by lia. reflexivity.
Qed.
Lemma firstn_skipn_seq {A} (d : A) l t : forall k, (k + t <= length l)%nat ->
  firstn t (skipn k l) = map (fun j => nth (k + j) l d) (seq 0 t).
Proof.
  induction t as [|t IH]; intros k Hk; [reflexivity|].
  rewrite (skipn_cons_nth d) by lia. cbn [firstn seq map]. rewrite Nat.add_0_r. f_equal.
  rewrite IH by lia. rewrite <- seq_shift, map_map. apply map_ext. intros j. f_equal. lia.
Qed.

Lemma skipn_add {A} (l : list A) : forall a b, skipn a (skipn b l) = skipn (b + a) l.
Proof.
  induction l as [|x l IH]; intros a b.
  - destruct a, b; reflexivity.
  - destruct b; [reflexivity|]. cbn [skipn Nat.add]. apply IH.
Qed.
Definition sqs (ss : list nat) : list nat := map (fun s => (s * s)%nat) ss.

Lemma list_sum_cons a l : list_sum (a :: l) = (a + list_sum l)%nat.
Proof. reflexivity. Qed.
Definition bin_fold (arr : list R) (st : nat * list R) (is : nat * nat) : nat * list R :=
  Nat.iter (snd is * snd is) (bin_step arr (fst is) (1 / INR (snd is ^ 2))) st.

Lemma mean_R (l : list R) : @mean ROps l = sumR l / INR (length l).
Proof. unfold mean. rewrite sumT_sumR, ofNat_R. reflexivity. Qed.

Lemma bin_fold_all arr : forall ss done k,
  subs_ok ss -> (k + list_sum (sqs ss) <= length arr)%nat ->
  fold_left (bin_fold arr) (combine (seq (length done) (length ss)) ss) (k, done ++ @zeros ROps (length ss))
  = ((k + list_sum (sqs ss))%nat, done ++ map (@mean ROps) (chop (sqs ss) (skipn k arr))).
Proof.
  induction ss as [|s ss IH]; intros done k Hs Hk.
  - cbn. now rewrite Nat.add_0_r.
  - inversion Hs as [|? ? Hs1 Hs']; subst. cbn [sqs map] in Hk. fold (sqs ss) in Hk. rewrite list_sum_cons in Hk.
    cbn [length seq combine fold_left sqs map chop]. unfold bin_fold at 2. cbn [fst snd].
    unfold zeros. cbn [repeat]. rewrite bin_step_iter.
    replace (done ++ _ :: repeat zero (length ss)) with ((done ++ [@mean ROps (firstn (s * s) (skipn k arr))]) ++ @zeros ROps (length ss)).
    + specialize (IH (done ++ [@mean ROps (firstn (s * s) (skipn k arr))]) (k + s * s)%nat Hs').
      rewrite app_length in IH. cbn [length] in IH. rewrite Nat.add_1_r in IH. fold (sqs ss). etransitivity; [apply IH; lia|].
      rewrite list_sum_cons. f_equal; [lia|]. rewrite <- app_assoc. cbn [app]. do 3 f_equal.
      now rewrite skipn_add.
    + rewrite <- app_assoc. cbn [app]. unfold zeros. do 2 f_equal.
      rewrite mean_R, (firstn_skipn_seq 0) by lia. rewrite map_length, seq_length.
      rewrite Nat.pow_2_r. unfold zero. cbn [ofZ ROps].
      assert (INR (s * s) <> 0) by (apply not_0_INR; nia). change (T ROps) with R. field. auto.
Qed.

Lemma in_combine_seq {A} (d : A) l : forall k i s, In (i, s) (combine (seq k (length l)) l) ->
  (k <= i < k + length l)%nat /\ nth (i - k) l d = s.
Proof.
  induction l as [|a l IH]; intros k i s Hin; cbn in Hin; [contradiction|].
  destruct Hin as [E|Hin].
  - inversion E; subst. rewrite Nat.sub_diag. cbn. split; [lia|reflexivity].
  - apply IH in Hin. destruct Hin as [Hr Hn]. cbn [length]. split; [lia|].
    replace (i - k)%nat with (S (i - S k)) by lia. exact Hn.
Qed.
Lemma zpixels_nth m ss z : length ss = length (unmasked m) -> In z (zpixels m ss) ->
  (fst (fst z) < length ss)%nat /\ nth (fst (fst z)) ss 0%nat = snd z.
Proof.
  intros Hl Hin.
  assert (H : In (fst (fst z), snd z) (combine (seq 0 (length ss)) ss)).
  { rewrite <- (zpixels_idx m ss) by exact Hl. apply (in_map (fun z : ipix * nat => (fst (fst z), snd z))). exact Hin. }
  apply (in_combine_seq 0%nat) in H. rewrite Nat.sub_0_r in H. destruct H; split; [lia|assumption].
Qed.

Theorem bin_is_mean_of_own_subvalues (arr : list R) m ss :
  shape_okP m ss -> length arr = list_sum (sqs ss) ->
  @binned ROps arr m ss = @spec_binned ROps arr ss.
Proof.
  intros [Hl Hs] Ha. unfold binned, spec_binned. fold (sqs ss).
  rewrite (pixel_loop_zip (fun _ _ index s st =>
     for_range s (fun _ st => for_range s (fun _ st =>
       (S (fst st), @upd_add ROps (snd st) index
          (@nthT ROps arr (fst st) * @nthT ROps (map (fun s => @one ROps / @ofNat ROps (s ^ 2)) ss) index))) st) st)) by exact Hl.
  rewrite (fold_left_ext _ (fun st (z : ipix * nat) => bin_fold arr st (fst (fst z), snd z))).
  2:{ intros st z Hz. destruct (zpixels_nth m ss z Hl Hz) as [Hi Hn]. cbn [fst snd].
      rewrite (for_range2_iter (snd z) (fun st => (S (fst st), @upd_add ROps (snd st) (fst (fst z)) _))).
      unfold bin_fold, bin_step. cbn [fst snd]. f_equal.
      unfold nthT. rewrite (nth_indep _ _ (@one ROps / @ofNat ROps (0 ^ 2))) by (now rewrite map_length).
      rewrite (map_nth (fun s => @one ROps / @ofNat ROps (s ^ 2))), Hn, ofNat_R. reflexivity. }
  rewrite <- (fold_left_map (bin_fold arr) (fun z : ipix * nat => (fst (fst z), snd z))), zpixels_idx by exact Hl.
  rewrite pixels_in_mask_length, <- Hl.
  pose proof (bin_fold_all arr ss [] 0%nat Hs) as H. cbn [length app Nat.add skipn] in H.
  rewrite H by lia. reflexivity.
Qed.

(* ------------------------------------------------------------------ function evaluation + binning *)
Lemma chop_flat_map {A B} (g : A -> list B) l :
  chop (map (fun x => length (g x)) l) (flat_map g l) = map g l.
Proof.
  induction l as [|a l IH]; cbn [map flat_map chop]; auto.
  rewrite firstn_app, Nat.sub_diag, firstn_all, skipn_app, Nat.sub_diag, skipn_all. cbn [firstn skipn app].
  rewrite app_nil_r, IH. reflexivity.
Qed.
Lemma list_sum_flat_map_length {A B} (g : A -> list B) l : length (flat_map g l) = list_sum (map (fun x => length (g x)) l).
Proof. induction l; cbn; auto. rewrite app_length, IHl. reflexivity. Qed.
Lemma map_flat_map {A B C} (f : B -> C) (g : A -> list B) l : map f (flat_map g l) = flat_map (fun x => map f (g x)) l.
Proof. induction l; cbn; auto. rewrite map_app, IHl. reflexivity. Qed.

Lemma map_snd_combine {A B} (l : list A) : forall (r : list B), length l = length r -> map snd (combine l r) = r.
Proof. induction l as [|a l IH]; intros [|b r] H; cbn in *; try discriminate; auto. f_equal. apply IH. lia. Qed.
Lemma spec_centres_length m (ps og : RR) : length (@spec_centres ROps m ps og) = length (unmasked m).
Proof. unfold spec_centres. now rewrite map_length. Qed.
Lemma block_lengths (f : RR -> R) m (ps og : RR) ss : length ss = length (unmasked m) ->
  map (fun cs : RR * nat => length (map f (@block ROps ps (fst cs) (snd cs)))) (combine (@spec_centres ROps m ps og) ss) = sqs ss.
Proof.
  intros Hl. unfold sqs.
  rewrite <- (map_snd_combine (@spec_centres ROps m ps og) ss) at 2 by (rewrite spec_centres_length; lia).
  rewrite map_map. apply map_ext. intros cs. now rewrite map_length, block_length.
Qed.

Theorem via_func_is_block_means (f : RR -> R) m (ps og : RR) ss :
  shape_okP m ss -> ps_okR ps ->
  @array_via_func ROps f m ps og ss = @spec_via_func ROps f m ps og ss.
Proof.
  intros Hsh Hps. unfold array_via_func. rewrite (sub_grid_formula m ps og ss Hsh Hps).
  destruct Hsh as [Hl Hs].
  assert (Hq : map (fun cs : RR * nat => length (map f (@block ROps ps (fst cs) (snd cs)))) (combine (@spec_centres ROps m ps og) ss) = sqs ss).
  { apply block_lengths. exact Hl. }
  rewrite bin_is_mean_of_own_subvalues.
  - unfold spec_binned, spec_via_func, spec_grid. fold (sqs ss). rewrite map_flat_map, <- Hq.
    rewrite (chop_flat_map (fun cs : RR * nat => map f (@block ROps ps (fst cs) (snd cs)))), map_map. reflexivity.
  - split; assumption.
  - unfold spec_grid. rewrite map_flat_map.
    rewrite (list_sum_flat_map_length (fun cs : RR * nat => map f (@block ROps ps (fst cs) (snd cs)))), Hq. reflexivity.
Qed.

(* sums over a block *)
Lemma sumR_seq_INR s : sumR (map INR (seq 0 s)) = INR s * (INR s - 1) / 2.
Proof.
  induction s as [|s IH]; [cbn; lra|].
  rewrite seq_S, map_app, sumR_app, IH. cbn [map sumR Nat.add]. rewrite S_INR. lra.
Qed.
Lemma sumR_const {A} (c : R) (l : list A) : sumR (map (fun _ => c) l) = INR (length l) * c.
Proof. induction l as [|a l IH]; [cbn; lra|]. cbn [map sumR length]. rewrite IH, S_INR. lra. Qed.
Lemma sumR_flat_map {A} (g : A -> list R) l : sumR (flat_map g l) = sumR (map (fun a => sumR (g a)) l).
Proof. induction l; cbn; auto. rewrite sumR_app, IHl. reflexivity. Qed.

Definition affine (f : RR -> R) : Prop := exists k ay ax, forall p, f p = k + ay * fst p + ax * snd p.

(* the mean of an affine function over the s x s sub-centres of a pixel is its value at the pixel centre *)
Lemma mean_block_affine (f : RR -> R) (ps c : RR) s : affine f -> (1 <= s)%nat ->
  @mean ROps (map f (@block ROps ps c s)) = f c.
Proof.
  intros [k [ay [ax Hf]]] Hs. pose proof (INR_pos_of_le s Hs) as Hs0.
  rewrite mean_R, map_length, block_length, mult_INR. unfold block. rewrite map_flat_map, sumR_flat_map.
  rewrite (sumR_map_ext _ (fun a => INR s * (k + ay * (fst c + fst ps / 2 - (INR a + / 2) * fst ps / INR s) + ax * snd c))).
  - rewrite sumR_map_scal.
    rewrite (sumR_map_ext _ (fun a => (k + ay * (fst c + fst ps / 2 - fst ps / (2 * INR s)) + ax * snd c) + (- ay * fst ps / INR s) * INR a))
      by (intros; field; auto).
    rewrite sumR_map_add, sumR_const, seq_length, sumR_map_scal, sumR_seq_INR, Hf. change (T ROps) with R. field. auto.
  - intros a _. rewrite map_map.
    rewrite (sumR_map_ext _ (fun b => (k + ay * (fst c + fst ps / 2 - (INR a + / 2) * fst ps / INR s) + ax * (snd c - snd ps / 2 + snd ps / (2 * INR s)))
                                      + (ax * snd ps / INR s) * INR b)).
    + rewrite sumR_map_add, sumR_const, seq_length, sumR_map_scal, sumR_seq_INR. field. auto.
    + intros b _. rewrite Hf. unfold sub_centre, half, one, two. rewrite !ofNat_R. cbn [fst snd add sub mul div opp ofZ ROps T]. field. auto.
Qed.

Theorem bin_reproduces_affine (f : RR -> R) m (ps og : RR) ss :
  affine f -> shape_okP m ss -> ps_okR ps ->
  @array_via_func ROps f m ps og ss = map f (@spec_centres ROps m ps og).
Proof.
  intros Hf Hsh Hps. rewrite via_func_is_block_means by assumption. destruct Hsh as [Hl Hs].
  unfold spec_via_func.
  assert (Hc : length (@spec_centres ROps m ps og) = length ss) by (unfold spec_centres; rewrite map_length; lia).
  revert Hc Hs. generalize (@spec_centres ROps m ps og). clear Hl. induction ss as [|s ss IH]; intros [|c l] Hc Hs; cbn in Hc; try discriminate; auto.
  inversion Hs; subst. cbn [combine map fst snd]. rewrite mean_block_affine by assumption. f_equal. apply IH; [now injection Hc|assumption].
Qed.
Corollary bin_reproduces_constants (k : R) m (ps og : RR) ss :
  shape_okP m ss -> ps_okR ps ->
  @array_via_func ROps (fun _ => k) m ps og ss = repeat k (length (unmasked m)).
Proof.
  intros Hsh Hps. rewrite bin_reproduces_affine; auto.
  - unfold spec_centres. rewrite map_map. generalize (unmasked m). induction l; cbn; congruence.
  - exists k, 0, 0. intros. lra.
Qed.

(* ------------------------------------------------------------------ sub-pixel areas *)
Lemma flat_map_const_repeat {A B} (c : B) (l : list A) : flat_map (fun _ => [c]) l = repeat c (length l).
Proof. induction l; cbn; congruence. Qed.
Lemma map_nth_seq {A} (d : A) l : map (fun i => nth i l d) (seq 0 (length l)) = l.
Proof. pose proof (firstn_skipn_seq d l (length l) 0%nat) as H. cbn [skipn Nat.add] in H. rewrite <- H by lia. apply firstn_all. Qed.
Lemma sumR_repeat c n : sumR (repeat c n) = INR n * c.
Proof. induction n as [|n IH]; [cbn; lra|]. cbn [repeat sumR]. rewrite IH, S_INR. lra. Qed.

Definition spec_areasR (ps : RR) (ss : list nat) : list R :=
  flat_map (fun s => repeat (fst ps * snd ps / INR (s * s)) (s * s)) ss.

Theorem areas_formula (ps : RR) ss : @sub_pixel_areas ROps ps ss = spec_areasR ps ss.
Proof.
  unfold sub_pixel_areas, spec_areasR. unfold for_range at 1.
  rewrite (fold_left_ext _ (fun acc i => acc ++ (fun s => repeat (fst ps * snd ps / INR (s * s)) (s * s)) (nth i ss 0%nat))).
  - rewrite (fold_left_append (fun i => (fun s => repeat (fst ps * snd ps / INR (s * s)) (s * s)) (nth i ss 0%nat))). cbn [app].
    rewrite <- (flat_map_map (fun i => nth i ss 0%nat) (fun s => repeat (fst ps * snd ps / INR (s * s)) (s * s))), map_nth_seq. reflexivity.
  - intros acc i _. cbn zeta. rewrite (for_range_append _ (fun _ => [_])), flat_map_const_repeat, seq_length, ofNat_R, Nat.pow_2_r.
    reflexivity.
Qed.

Theorem areas_sum_to_unmasked_area (ps : RR) ss : subs_ok ss ->
  sumR (@sub_pixel_areas ROps ps ss) = INR (length ss) * (fst ps * snd ps).
Proof.
  intros Hs. rewrite areas_formula. unfold spec_areasR. rewrite sumR_flat_map.
  rewrite (sumR_map_ext _ (fun _ => fst ps * snd ps)).
  - apply sumR_const.
  - intros s Hin. unfold subs_ok in Hs. rewrite Forall_forall in Hs. specialize (Hs s Hin).
    rewrite sumR_repeat. assert (INR (s * s) <> 0) by (apply not_0_INR; nia). field. auto.
Qed.
(* each pixel's own s^2 sub-areas sum to the pixel area *)
Lemma areas_of_one_pixel (ps : RR) s : (1 <= s)%nat ->
  sumR (repeat (fst ps * snd ps / INR (s * s)) (s * s)) = fst ps * snd ps.
Proof. intros Hs. rewrite sumR_repeat. assert (INR (s * s) <> 0) by (apply not_0_INR; nia). field. auto. Qed.

(* ------------------------------------------------------------------ index tables *)
Definition slim_chunk (is : nat * nat) : list nat := repeat (fst is) (snd is * snd is).
Definition native_chunk (q : nat * nat * nat) : list (nat * nat) :=
  let '(y, x, s) := q in flat_map (fun a => map (fun b => (y * s + a, x * s + b)%nat) (seq 0 s)) (seq 0 s).

Lemma flat_map_repeat_const {A B} (c : B) n (l : list A) : flat_map (fun _ => repeat c n) l = repeat c (length l * n).
Proof. induction l; cbn; auto. rewrite repeat_app. congruence. Qed.
Lemma map_const_repeat {A B} (c : B) (l : list A) : map (fun _ => c) l = repeat c (length l).
Proof. induction l; cbn; congruence. Qed.

Theorem slim_for_sub_slim_formula m ss : length ss = length (unmasked m) ->
  slim_for_sub_slim m ss = spec_slim_for_sub ss.
Proof.
  intros Hl. unfold slim_for_sub_slim, spec_slim_for_sub. fold slim_chunk.
  rewrite (pixel_loop_zip (fun _ _ index s acc => for_range s (fun _ acc => for_range s (fun _ acc => acc ++ [index]) acc) acc)) by exact Hl.
  rewrite (fold_left_ext _ (fun acc (z : ipix * nat) => acc ++ slim_chunk (fst (fst z), snd z))).
  - rewrite (fold_left_append (fun z : ipix * nat => slim_chunk (fst (fst z), snd z))).
    cbn [app]. rewrite <- (flat_map_map (fun z : ipix * nat => (fst (fst z), snd z)) slim_chunk), zpixels_idx by exact Hl. reflexivity.
  - intros acc z _. rewrite (for_range2_append _ (fun _ _ => fst (fst z))). f_equal. unfold slim_chunk. cbn [fst snd].
    rewrite (flat_map_ext_in _ (fun _ => repeat (fst (fst z)) (snd z))).
    + now rewrite flat_map_repeat_const, seq_length.
    + intros a _. now rewrite map_const_repeat, seq_length.
Qed.

Theorem native_for_sub_slim_formula m ss : length ss = length (unmasked m) ->
  native_for_sub_slim m ss = spec_native_for_sub m ss.
Proof.
  intros Hl. unfold native_for_sub_slim, spec_native_for_sub. fold native_chunk.
  rewrite (pixel_loop_zip (fun y x _ s acc => for_range s (fun y1 acc => for_range s (fun x1 acc => acc ++ [((y * s) + y1, (x * s) + x1)%nat]) acc) acc)) by exact Hl.
  rewrite (fold_left_ext _ (fun acc (z : ipix * nat) => acc ++ native_chunk (snd (fst z), snd z))).
  - rewrite (fold_left_append (fun z : ipix * nat => native_chunk (snd (fst z), snd z))).
    cbn [app]. rewrite <- (flat_map_map (fun z : ipix * nat => (snd (fst z), snd z)) native_chunk), zpixels_pix. reflexivity.
  - intros acc [[i [y x]] s] _. cbn [fst snd]. rewrite for_range2_append. reflexivity.
Qed.

(* ------------------------------------------------------------------ decorator, uniform over-sampling *)
Lemma block_one (ps c : RR) : @block ROps ps c 1 = [c].
Proof.
  unfold block. cbn [seq flat_map map app]. f_equal. unfold sub_centre, half, one, two. rewrite !ofNat_R.
  destruct c as [cy cx]. cbn [fst snd add sub mul div opp ofZ ROps T INR]. f_equal; field.
Qed.
Lemma mean_single (v : R) : @mean ROps [v] = v.
Proof. rewrite mean_R. cbn. field. Qed.
Lemma spec_via_func_ones (f : RR -> R) m (ps og : RR) ss :
  Forall (fun s => s = 1%nat) ss -> length ss = length (unmasked m) ->
  @spec_via_func ROps f m ps og ss = map f (@spec_centres ROps m ps og).
Proof.
  intros H1 Hl. unfold spec_via_func. rewrite <- (spec_centres_length m ps og) in Hl.
  revert Hl H1. generalize (@spec_centres ROps m ps og). induction ss as [|s ss IH]; intros [|c l] Hl H1; cbn in Hl; try discriminate; auto.
  inversion H1; subst. cbn [combine map fst snd]. rewrite block_one. cbn [map]. rewrite mean_single. f_equal.
  apply IH; [now injection Hl|assumption].
Qed.
Lemma all_ones_of_sum ss : subs_ok ss -> list_sum ss = length ss -> Forall (fun s => s = 1%nat) ss.
Proof.
  intros Hs. induction Hs as [|s ss H1 Hs IH]; intros Hsum; [constructor|].
  rewrite list_sum_cons in Hsum. cbn [length] in Hsum.
  assert (length ss <= list_sum ss)%nat.
  { clear -Hs. induction Hs as [|a l Ha Hl IHl]; [cbn; lia|]. rewrite list_sum_cons. cbn [length]. lia. }
  constructor; [lia|]. apply IH. lia.
Qed.
Lemma subs_ok_repeat s n : (1 <= s)%nat -> subs_ok (repeat s n).
Proof. intros H. unfold subs_ok. apply Forall_forall. intros x Hx. apply repeat_spec in Hx. lia. Qed.

Theorem decorator_uniform_int (f : RR -> R) m (ps og : RR) s :
  (1 <= s)%nat -> ps_okR ps ->
  @decorated ROps f m ps og (@grid_slim_via_mask ROps m ps og) (@OSUniformInt ROps s)
  = Ok (@spec_via_func ROps f m ps og (repeat s (length (unmasked m)))).
Proof.
  intros Hs Hps. unfold decorated, perform_over_sampling, full_sub_size. rewrite pixels_in_mask_length.
  destruct (Nat.eqb s 1) eqn:E; cbn [negb].
  - apply Nat.eqb_eq in E. subst s. rewrite centres_formula by exact Hps. f_equal. symmetry. apply spec_via_func_ones.
    + apply Forall_forall. intros x Hx. now apply repeat_spec in Hx.
    + apply repeat_length.
  - f_equal. apply via_func_is_block_means; [split|exact Hps]; [apply repeat_length|apply subs_ok_repeat; exact Hs].
Qed.
Theorem decorator_uniform_map (f : RR -> R) m (ps og : RR) ss :
  shape_okP m ss -> ps_okR ps ->
  @decorated ROps f m ps og (@grid_slim_via_mask ROps m ps og) (@OSUniformMap ROps ss)
  = Ok (@spec_via_func ROps f m ps og ss).
Proof.
  intros Hsh Hps. pose proof Hsh as [Hl Hs]. unfold decorated.
  destruct (perform_over_sampling m (@OSUniformMap ROps ss)) eqn:E; cbn [negb].
  - f_equal. apply via_func_is_block_means; assumption.
  - rewrite centres_formula by exact Hps. f_equal. symmetry. apply spec_via_func_ones; [|exact Hl].
    unfold perform_over_sampling in E. rewrite pixels_in_mask_length, <- Hl in E.
    assert (E' : list_sum ss = length ss).
    { destruct ss as [|s [|s2 ss]].
      - reflexivity.
      - apply negb_false_iff, Nat.eqb_eq in E. cbn. lia.
      - apply negb_false_iff, Nat.eqb_eq in E. exact E. }
    apply all_ones_of_sum; assumption.
Qed.
(* sub-size one: the decorated function is the plain evaluation on whatever grid values were passed *)
Theorem decorator_sub_size_one (f : RR -> R) m (ps og : RR) (grid_values : list RR) :
  @decorated ROps f m ps og grid_values (@OSUniformInt ROps 1) = Ok (map f grid_values).
Proof. reflexivity. Qed.
Theorem decorator_sub_size_map_ones (f : RR -> R) m (ps og : RR) (grid_values : list RR) ss :
  Forall (fun s => s = 1%nat) ss -> length ss = length (unmasked m) ->
  @decorated ROps f m ps og grid_values (@OSUniformMap ROps ss) = Ok (map f grid_values).
Proof.
  intros H1 Hl. unfold decorated.
  assert (E : perform_over_sampling m (@OSUniformMap ROps ss) = false); [|now rewrite E].
  unfold perform_over_sampling. rewrite pixels_in_mask_length, <- Hl.
  assert (Hsum : list_sum ss = length ss).
  { clear Hl. induction H1; [reflexivity|]. subst. rewrite list_sum_cons. cbn [length]. lia. }
  destruct ss as [|s [|s2 ss]].
  - reflexivity.
  - inversion H1; subst. reflexivity.
  - rewrite Hsum. now rewrite Nat.eqb_refl.
Qed.

(* ================================================================== Part 3: the iterative scheme *)
(* 2-D arrays over the cells of a fixed mask: [imap2d F m] holds F y x (m[y][x]) at (y, x) *)
Fixpoint imap_row {X} (F : nat -> nat -> bool -> X) (y : nat) (row : list bool) (x : nat) : list X :=
  match row with [] => [] | b :: r => F y x b :: imap_row F y r (S x) end.
Fixpoint imap_from {X} (F : nat -> nat -> bool -> X) (m : mask) (y : nat) : list (list X) :=
  match m with [] => [] | row :: t => imap_row F y row 0 :: imap_from F t (S y) end.
Definition imap2d {X} (F : nat -> nat -> bool -> X) (m : mask) : list (list X) := imap_from F m 0.

Fixpoint cells_row (y : nat) (row : list bool) (x : nat) : list (nat * nat * bool) :=
  match row with [] => [] | b :: r => (y, x, b) :: cells_row y r (S x) end.
Fixpoint cells_from (m : mask) (y : nat) : list (nat * nat * bool) :=
  match m with [] => [] | row :: t => cells_row y row 0 ++ cells_from t (S y) end.
Definition cells (m : mask) := cells_from m 0.
Definition on_cells {X} (m : mask) (P : nat -> nat -> bool -> X -> Prop) (F : nat -> nat -> bool -> X) : Prop :=
  forall y x b, In (y, x, b) (cells m) -> P y x b (F y x b).

Lemma imap_row_ext {X} (F G : nat -> nat -> bool -> X) y row : forall x,
  (forall x' b, In (y, x', b) (cells_row y row x) -> F y x' b = G y x' b) -> imap_row F y row x = imap_row G y row x.
Proof.
  induction row as [|b r IH]; intros x H; cbn; auto. f_equal; [apply H; left; reflexivity|].
  apply IH. intros; apply H; right; assumption.
Qed.
Lemma imap_from_ext {X} (F G : nat -> nat -> bool -> X) m : forall y,
  (forall y' x' b, In (y', x', b) (cells_from m y) -> F y' x' b = G y' x' b) -> imap_from F m y = imap_from G m y.
Proof.
  induction m as [|row t IH]; intros y H; cbn; auto. f_equal.
  - apply imap_row_ext. intros. apply H. cbn. apply in_or_app. left; assumption.
  - apply IH. intros. apply H. cbn. apply in_or_app. right; assumption.
Qed.
Lemma imap2d_ext {X} (F G : nat -> nat -> bool -> X) m :
  (forall y x b, In (y, x, b) (cells m) -> F y x b = G y x b) -> imap2d F m = imap2d G m.
Proof. apply imap_from_ext. Qed.

(* unmasked pixels are cells *)
Lemma unmasked_row_cells y row : forall x p, In p (unmasked_row y row x) -> In (fst p, snd p, false) (cells_row y row x).
Proof.
  induction row as [|b r IH]; intros x p H; cbn in *; [contradiction|].
  destruct b.
  - right. apply IH. exact H.
  - destruct H as [E|H]; [left; subst; reflexivity|right; apply IH; exact H].
Qed.
Lemma unmasked_from_cells m : forall y p, In p (unmasked_from m y) -> In (fst p, snd p, false) (cells_from m y).
Proof.
  induction m as [|row t IH]; intros y p H; cbn in *; [contradiction|].
  apply in_app_or in H. apply in_or_app. destruct H as [H|H]; [left; now apply unmasked_row_cells|right; now apply IH].
Qed.
Lemma unmasked_cells m p : In p (unmasked m) -> In (fst p, snd p, false) (cells m).
Proof. apply unmasked_from_cells. Qed.

(* composition, zipping, shape *)
Lemma imap_row_imap {X} (G : nat -> nat -> bool -> X) (T : nat -> nat -> bool -> bool) y row : forall x,
  imap_row G y (imap_row T y row x) x = imap_row (fun y x b => G y x (T y x b)) y row x.
Proof. induction row as [|b r IH]; intros x; cbn; auto. now rewrite IH. Qed.
Lemma imap_from_imap {X} (G : nat -> nat -> bool -> X) (T : nat -> nat -> bool -> bool) m : forall y,
  imap_from G (imap_from T m y) y = imap_from (fun y x b => G y x (T y x b)) m y.
Proof. induction m as [|row t IH]; intros y; cbn; auto. now rewrite imap_row_imap, IH. Qed.
Lemma imap2d_imap2d {X} (G : nat -> nat -> bool -> X) (T : nat -> nat -> bool -> bool) m :
  imap2d G (imap2d T m) = imap2d (fun y x b => G y x (T y x b)) m.
Proof. apply imap_from_imap. Qed.

Lemma map2_imap_row {X Y Z} (f : X -> Y -> Z) F G y row : forall x,
  map2 f (imap_row F y row x) (imap_row G y row x) = imap_row (fun y x b => f (F y x b) (G y x b)) y row x.
Proof. induction row as [|b r IH]; intros x; cbn; auto. now rewrite IH. Qed.
Lemma map2d_imap_from {X Y Z} (f : X -> Y -> Z) F G m : forall y,
  map2 (map2 f) (imap_from F m y) (imap_from G m y) = imap_from (fun y x b => f (F y x b) (G y x b)) m y.
Proof. induction m as [|row t IH]; intros y; cbn; auto. now rewrite map2_imap_row, IH. Qed.
Lemma map2d_imap2d {X Y Z} (f : X -> Y -> Z) F G m :
  map2d f (imap2d F m) (imap2d G m) = imap2d (fun y x b => f (F y x b) (G y x b)) m.
Proof. apply map2d_imap_from. Qed.

Lemma imap_row_length {X} (F : nat -> nat -> bool -> X) y row : forall x, length (imap_row F y row x) = length row.
Proof. induction row; intros x; cbn; auto. Qed.
Lemma imap2d_shape0 (T : nat -> nat -> bool -> bool) m : shape0 (imap2d T m) = shape0 m.
Proof. unfold shape0, imap2d. generalize 0%nat. induction m; intros y; cbn; auto. Qed.
Lemma imap2d_shape1 (T : nat -> nat -> bool -> bool) m : shape1 (imap2d T m) = shape1 m.
Proof. unfold shape1, imap2d. destruct m; cbn; auto. apply imap_row_length. Qed.

(* the mask itself, and constant arrays *)
Lemma imap2d_id m : imap2d (fun _ _ b => b) m = m.
Proof.
  unfold imap2d. generalize 0%nat. induction m as [|row t IH]; intros y; cbn; auto. f_equal; [|apply IH].
  generalize 0%nat. induction row; intros x; cbn; congruence.
Qed.
Lemma map_map_const_imap2d {X} (c : X) (m : mask) : map (fun row => map (fun _ : bool => c) row) m = imap2d (fun _ _ _ => c) m.
Proof.
  unfold imap2d. generalize 0%nat. induction m as [|row t IH]; intros y; cbn; auto. f_equal; [|apply IH].
  generalize 0%nat. induction row; intros x; cbn; congruence.
Qed.

(* slim -> native of values indexed by the unmasked pixels; native -> slim *)
Lemma native_row_imap {X} (z : X) (G : nat * nat -> X) y row : forall x rest,
  native_row z row (map G (unmasked_row y row x) ++ rest)
  = (imap_row (fun y x (b : bool) => if b then z else G (y, x)) y row x, rest).
Proof.
  induction row as [|b r IH]; intros x rest; cbn [native_row unmasked_row imap_row]; auto.
  destruct b.
  - rewrite IH. reflexivity.
  - cbn [map app tl hd]. rewrite IH. reflexivity.
Qed.
Lemma to_native_imap_from {X} (z : X) (G : nat * nat -> X) m : forall y,
  to_native z m (map G (unmasked_from m y)) = imap_from (fun y x (b : bool) => if b then z else G (y, x)) m y.
Proof.
  induction m as [|row t IH]; intros y; cbn [to_native unmasked_from imap_from]; auto.
  rewrite map_app, native_row_imap, IH. reflexivity.
Qed.
Lemma to_native_imap2d {X} (z : X) (G : nat * nat -> X) m :
  to_native z m (map G (unmasked m)) = imap2d (fun y x (b : bool) => if b then z else G (y, x)) m.
Proof. apply to_native_imap_from. Qed.

Lemma slim_row_imap {X} (F : nat -> nat -> bool -> X) y row : forall x,
  slim_row row (imap_row F y row x) = map (fun p => F (fst p) (snd p) false) (unmasked_row y row x).
Proof. induction row as [|b r IH]; intros x; cbn; auto. destruct b; cbn; now rewrite IH. Qed.
Lemma to_slim_imap_from {X} (F : nat -> nat -> bool -> X) m : forall y,
  to_slim m (imap_from F m y) = map (fun p => F (fst p) (snd p) false) (unmasked_from m y).
Proof. induction m as [|row t IH]; intros y; cbn; auto. now rewrite slim_row_imap, IH, map_app. Qed.
Lemma to_slim_imap2d {X} (F : nat -> nat -> bool -> X) m :
  to_slim m (imap2d F m) = map (fun p => F (fst p) (snd p) false) (unmasked m).
Proof. apply to_slim_imap_from. Qed.

(* all-true masks and non-zero arrays *)
Lemma pixels_row_zero (T : nat -> nat -> bool -> bool) y row : forall x n,
  fold_left (fun k (b : bool) => if b then k else S k) (imap_row T y row x) n = 0%nat ->
  n = 0%nat /\ forall x' b, In (y, x', b) (cells_row y row x) -> T y x' b = true.
Proof.
  induction row as [|b r IH]; intros x n H; cbn in *; [split; [assumption|contradiction]|].
  apply IH in H. destruct H as [Hn Hall]. destruct (T y x b) eqn:E; [|discriminate].
  split; [assumption|]. intros x' b' [Eq|Hin]; [inversion Eq; subst; assumption|apply Hall; assumption].
Qed.
Lemma pixels_from_zero (T : nat -> nat -> bool -> bool) m : forall y n,
  fold_left (fun n row => fold_left (fun k (b : bool) => if b then k else S k) row n) (imap_from T m y) n = 0%nat ->
  n = 0%nat /\ forall y' x' b, In (y', x', b) (cells_from m y) -> T y' x' b = true.
Proof.
  induction m as [|row t IH]; intros y n H; cbn in *; [split; [assumption|contradiction]|].
  apply IH in H. destruct H as [Hn Hall]. apply pixels_row_zero in Hn. destruct Hn as [Hn Hrow].
  split; [assumption|]. intros y' x' b Hin. apply in_app_or in Hin. destruct Hin as [Hin|Hin].
  - assert (y' = y). { clear -Hin. revert Hin. generalize 0%nat. induction row; intros x H; cbn in H; [contradiction|].
      destruct H as [E|H]; [now inversion E|eapply IHrow; eassumption]. }
    subst. apply Hrow. assumption.
  - apply Hall. assumption.
Qed.
Lemma is_all_true_imap2d (T : nat -> nat -> bool -> bool) m :
  is_all_true (imap2d T m) = true -> forall y x b, In (y, x, b) (cells m) -> T y x b = true.
Proof.
  unfold is_all_true, pixels_in_mask, imap2d. intros H. apply Nat.eqb_eq in H. apply pixels_from_zero in H. apply H.
Qed.

Lemma existsb_imap_row (F : nat -> nat -> bool -> R) (p : R -> bool) y row : forall x x' b,
  In (y, x', b) (cells_row y row x) -> p (F y x' b) = true -> existsb p (imap_row F y row x) = true.
Proof.
  induction row as [|b0 r IH]; intros x x' b Hin Hp; cbn in *; [contradiction|].
  destruct Hin as [E|Hin]; [inversion E; subst; rewrite Hp; reflexivity|].
  rewrite (IH _ _ _ Hin Hp). apply orb_true_r.
Qed.
Lemma cells_row_y y row : forall x y' x' b, In (y', x', b) (cells_row y row x) -> y' = y.
Proof. induction row; intros x y' x' b H; cbn in H; [contradiction|]. destruct H as [E|H]; [now inversion E|eapply IHrow; eassumption]. Qed.
Lemma any_nonzero_imap_from (F : nat -> nat -> bool -> R) m : forall y y' x' b,
  In (y', x', b) (cells_from m y) -> F y' x' b <> 0 -> existsb (existsb (fun v => negb (Reqb v 0))) (imap_from F m y) = true.
Proof.
  induction m as [|row t IH]; intros y y' x' b Hin Hne; cbn in *; [contradiction|].
  apply in_app_or in Hin. destruct Hin as [Hin|Hin].
  - pose proof (cells_row_y _ _ _ _ _ _ Hin); subst.
    rewrite (existsb_imap_row F _ y row 0 x' b Hin); [reflexivity|].
    destruct (Reqb (F y x' b) 0) eqn:E; [apply Reqb_true in E; contradiction|reflexivity].
  - rewrite (IH _ _ _ _ Hin Hne). apply orb_true_r.
Qed.
Lemma any_nonzero_imap2d (F : nat -> nat -> bool -> R) m y x b :
  In (y, x, b) (cells m) -> F y x b <> 0 -> @any_nonzero ROps (imap2d F m) = true.
Proof. intros. unfold any_nonzero. eapply (any_nonzero_imap_from F m 0); eassumption. Qed.

(* ------------------------------------------------------------------ one level of the iteration *)
Definition Lev (f : RR -> R) (ps og : RR) (H W s : nat) (p : nat * nat) : R :=
  @mean ROps (map f (@block ROps ps (@pixel_centre ROps H W ps og p) s)).
Definition Lev0 (f : RR -> R) (ps og : RR) (H W : nat) (p : nat * nat) : R := f (@pixel_centre ROps H W ps og p).

Lemma combine_repeat {A} (l : list A) (s : nat) : combine l (repeat s (length l)) = map (fun a => (a, s)) l.
Proof. induction l; cbn; congruence. Qed.
Lemma spec_via_func_repeat (f : RR -> R) mk (ps og : RR) s :
  @spec_via_func ROps f mk ps og (repeat s (length (unmasked mk))) = map (Lev f ps og (shape0 mk) (shape1 mk) s) (unmasked mk).
Proof.
  unfold spec_via_func. rewrite <- (spec_centres_length mk ps og), combine_repeat, map_map. unfold spec_centres. rewrite map_map.
  reflexivity.
Qed.

Lemma array_at_sub_size_imap (f : RR -> R) (ps og : RR) (T : nat -> nat -> bool -> bool) m s :
  (1 <= s)%nat -> ps_okR ps ->
  @array_at_sub_size ROps f ps og (imap2d T m) s
  = imap2d (fun y x b => if T y x b then 0 else Lev f ps og (shape0 m) (shape1 m) s (y, x)) m.
Proof.
  intros Hs Hps. unfold array_at_sub_size, full_sub_size. rewrite pixels_in_mask_length.
  rewrite via_func_is_block_means; [|split; [apply repeat_length|apply subs_ok_repeat; exact Hs]|exact Hps].
  rewrite spec_via_func_repeat, to_native_imap2d, imap2d_shape0, imap2d_shape1, imap2d_imap2d. reflexivity.
Qed.

(* the threshold test of one unmasked, not yet resolved pixel = the agreement predicate of the rule *)
Definition thr_okR (thr : option R) : Prop := match thr with Some t => 0 < t | None => True end.

Lemma frac_acc_agrees (t lower higher : R) : 0 < t ->
  negb (Rltb (@fractional_accuracy_of ROps lower higher) t)
  = Rltb 0 lower && Rleb t (@minT ROps lower higher / @maxT ROps lower higher).
Proof.
  intros Ht. unfold fractional_accuracy_of, minT, maxT, zero, one. cbn [ltb leb eqb div ofZ ROps T].
  destruct (Rltb 0 lower) eqn:E0; rbool; cbn [andb].
  2:{ destruct (Rltb 0 t) eqn:E; rbool; [reflexivity|lra]. }
  destruct (Reqb higher 0) eqn:E1; rbool.
  - subst higher. destruct (Rltb 0 lower) eqn:E2; rbool; [|lra]. destruct (Rltb lower 0) eqn:E3; rbool; [lra|].
    destruct (Rltb 0 t) eqn:E4; rbool; [|lra]. cbn [negb].
    destruct (Rleb t (0 / lower)) eqn:E5; rbool; [|reflexivity]. unfold Rdiv in E5. rewrite Rmult_0_l in E5. lra.
  - assert (Hq : lower / higher * higher = lower) by (field; assumption).
    destruct (Rltb higher lower) eqn:E2; destruct (Rltb lower higher) eqn:E3; rbool; try lra.
    + (* higher < lower *)
      destruct (Rlt_dec 0 higher) as [Hp|Hn].
      * assert (H1 : 1 < lower / higher) by (apply (Rmult_lt_reg_r higher); [assumption|lra]).
        destruct (Rltb 1 (lower / higher)) eqn:E4; rbool; [|lra].
        replace (1 / (lower / higher)) with (higher / lower) by (field; split; lra).
        destruct (Rltb (higher / lower) t) eqn:E5; destruct (Rleb t (higher / lower)) eqn:E6; rbool; try reflexivity; lra.
      * assert (Hneg : higher < 0) by lra.
        assert (H1 : lower / higher < 0).
        { apply (Rmult_lt_reg_r (- higher)); [lra|]. rewrite Rmult_0_l. nra. }
        destruct (Rltb 1 (lower / higher)) eqn:E4; rbool; [lra|].
        assert (H2 : higher / lower < 0).
        { apply (Rmult_lt_reg_r lower); [lra|]. rewrite Rmult_0_l. replace (higher / lower * lower) with higher by (field; lra). lra. }
        destruct (Rltb (lower / higher) t) eqn:E5; destruct (Rleb t (higher / lower)) eqn:E6; rbool; try reflexivity; lra.
    + (* lower < higher *)
      assert (Hp : 0 < higher) by lra.
      assert (H1 : lower / higher < 1) by (apply (Rmult_lt_reg_r higher); [assumption|lra]).
      destruct (Rltb 1 (lower / higher)) eqn:E4; rbool; [lra|].
      destruct (Rltb (lower / higher) t) eqn:E5; destruct (Rleb t (lower / higher)) eqn:E6; rbool; try reflexivity; lra.
    + (* equal *)
      assert (higher = lower) by lra. subst higher.
      replace (lower / lower) with 1 by (field; lra).
      destruct (Rltb 1 1) eqn:E4; rbool; [lra|].
      destruct (Rltb 1 t) eqn:E5; destruct (Rleb t 1) eqn:E6; rbool; try reflexivity; lra.
Qed.

Lemma threshold_pixel_masked (thr rel : option R) lower higher : @threshold_pixel ROps thr rel true lower higher = true.
Proof. unfold threshold_pixel. destruct thr, rel; reflexivity. Qed.
Lemma threshold_pixel_agrees (thr rel : option R) lower higher : thr_okR thr ->
  @threshold_pixel ROps thr rel false lower higher = @agrees ROps thr rel lower higher.
Proof.
  intros Ht. unfold threshold_pixel, agrees. cbn [negb andb].
  assert (B : forall r, (if Rltb r (@absT ROps (lower - higher)) then false else true) = Rleb (@absT ROps (lower - higher)) r).
  { intros r. destruct (Rltb r _) eqn:E1; destruct (Rleb _ r) eqn:E2; rbool; try reflexivity; lra. }
  destruct thr as [t|].
  - cbn in Ht. pose proof (frac_acc_agrees t lower higher Ht) as F. unfold zero. cbn [ltb leb div sub ofZ ROps T] in *.
    rewrite <- F. destruct rel as [r|].
    + rewrite <- B. destruct (Rltb r _), (Rltb _ t); reflexivity.
    + destruct (Rltb _ t); reflexivity.
  - cbn [ltb leb div sub ofZ ROps T andb]. destruct rel as [r|]; [|reflexivity]. rewrite <- B. destruct (Rltb r _); reflexivity.
Qed.

Lemma rule_cons (thr rel : option R) prev v w rest :
  @rule ROps thr rel prev (v :: w :: rest) = if @agrees ROps thr rel prev v then v else @rule ROps thr rel v (w :: rest).
Proof. reflexivity. Qed.
Lemma rule_single (thr rel : option R) prev v : @rule ROps thr rel prev [v] = v.
Proof. reflexivity. Qed.

(* ------------------------------------------------------------------ the loop of OverSamplerIterate.array_via_func_from *)
Section Iterate.
  Variables (f : RR -> R) (ps og : RR) (m : mask) (thr rel : option R).
  Hypothesis Hps : ps_okR ps.
  Hypothesis Hthr : thr_okR thr.
  Let LevM (s : nat) (p : nat * nat) : R := Lev f ps og (shape0 m) (shape1 m) s p.

  Definition Hh (s : nat) (TL : nat -> nat -> bool -> bool) : nat -> nat -> bool -> R :=
    fun y x b => if TL y x b then 0 else LevM s (y, x).
  Definition TH (s : nat) (A : nat -> nat -> bool -> R) (TL : nat -> nat -> bool -> bool) : nat -> nat -> bool -> bool :=
    fun y x b => @threshold_pixel ROps thr rel (TL y x b) (A y x b) (Hh s TL y x b).
  Definition In' (s : nat) (A I : nat -> nat -> bool -> R) (TL : nat -> nat -> bool -> bool) : nat -> nat -> bool -> R :=
    fun y x b => if TH s A TL y x b && negb (TL y x b) then Hh s TL y x b else I y x b.

  Lemma iterate_loop_step s rest A I TL : (1 <= s)%nat ->
    @iterate_loop ROps f ps og thr rel (s :: rest) (@imap2d R A m) (@imap2d R I m) (imap2d TL m)
    = if is_all_true (imap2d (TH s A TL) m) then inl (imap2d (In' s A I TL) m)
      else @iterate_loop ROps f ps og thr rel rest (imap2d (Hh s TL) m) (imap2d (In' s A I TL) m) (imap2d (TH s A TL) m).
  Proof.
    intros Hs. cbn [iterate_loop]. rewrite (array_at_sub_size_imap f ps og TL m s Hs Hps).
    unfold threshold_mask_from, iterated_array_from. rewrite !map2d_imap2d. reflexivity.
  Qed.

  Definition inv (steps : list nat) (slast : nat) (Ans : nat * nat -> R)
             (A I : nat -> nat -> bool -> R) (TL : nat -> nat -> bool -> bool) : Prop :=
    forall y x b, In (y, x, b) (cells m) ->
      (b = true -> TL y x b = true) /\
      (b = false ->
         (TL y x b = true /\ I y x b = Ans (y, x)) \/
         (TL y x b = false /\ I y x b = 0 /\
          @rule ROps thr rel (A y x b) (map (fun s => LevM s (y, x)) (steps ++ [slast])) = Ans (y, x))).

  Lemma loop_spec (slast : nat) (Ans : nat * nat -> R) : (1 <= slast)%nat ->
    forall steps A I TL, subs_ok steps -> inv steps slast Ans A I TL ->
    match @iterate_loop ROps f ps og thr rel steps (imap2d A m) (imap2d I m) (imap2d TL m) with
    | inl it => to_slim m it = map Ans (unmasked m)
    | inr (it, tl) => to_slim m (map2d Rplus it (@array_at_sub_size ROps f ps og tl slast)) = map Ans (unmasked m)
    end.
  Proof.
    intros Hl. induction steps as [|s rest IH]; intros A I TL Hs Hinv.
    - cbn [iterate_loop]. rewrite (array_at_sub_size_imap f ps og TL m slast Hl Hps), map2d_imap2d, to_slim_imap2d.
      apply map_ext_in. intros [y x] Hp. cbn [fst snd]. apply unmasked_cells in Hp. cbn [fst snd] in Hp.
      destruct (Hinv y x false Hp) as [_ Hu]. destruct (Hu eq_refl) as [[Ht Hi]|[Ht [Hi Hr]]]; rewrite Ht, Hi.
      + lra.
      + cbn [app map] in Hr. rewrite rule_single in Hr. fold (LevM slast (y, x)). rewrite Hr. lra.
    - inversion Hs as [|? ? Hs1 Hs']; subst. rewrite (iterate_loop_step s rest A I TL Hs1).
      destruct (is_all_true (imap2d (TH s A TL) m)) eqn:Eall.
      + rewrite to_slim_imap2d. apply map_ext_in. intros [y x] Hp. cbn [fst snd]. apply unmasked_cells in Hp. cbn [fst snd] in Hp.
        pose proof (is_all_true_imap2d _ _ Eall y x false Hp) as Hth.
        destruct (Hinv y x false Hp) as [_ Hu]. unfold In'. rewrite Hth.
        destruct (Hu eq_refl) as [[Ht Hi]|[Ht [Hi Hr]]]; rewrite Ht; cbn [negb andb]; [exact Hi|].
        unfold TH in Hth. rewrite Ht, (threshold_pixel_agrees thr rel _ _ Hthr) in Hth. unfold Hh in Hth |- *. rewrite Ht in Hth |- *.
        destruct rest as [|s2 rest]; cbn [app map] in Hr.
        * rewrite rule_cons, Hth in Hr. exact Hr.
        * rewrite rule_cons, Hth in Hr. exact Hr.
      + apply IH; [exact Hs'|]. intros y x b Hc. destruct (Hinv y x b Hc) as [Hm Hu]. split.
        * intros Hb. unfold TH. rewrite (Hm Hb). apply threshold_pixel_masked.
        * intros Hb. destruct (Hu Hb) as [[Ht Hi]|[Ht [Hi Hr]]].
          -- left. unfold In', TH. rewrite Ht. rewrite threshold_pixel_masked. cbn [negb andb]. split; [reflexivity|exact Hi].
          -- unfold In', TH, Hh. rewrite Ht. rewrite (threshold_pixel_agrees thr rel _ _ Hthr). cbn [negb]. rewrite andb_true_r.
             assert (Hr' : (if @agrees ROps thr rel (A y x b) (LevM s (y, x)) then LevM s (y, x)
                            else @rule ROps thr rel (LevM s (y, x)) (map (fun s => LevM s (y, x)) (rest ++ [slast]))) = Ans (y, x)).
             { rewrite <- Hr. destruct rest as [|s2 rest]; cbn [app map]; rewrite rule_cons; reflexivity. }
             destruct (@agrees ROps thr rel (A y x b) (LevM s (y, x))).
             ++ left. split; [reflexivity|exact Hr'].
             ++ right. split; [reflexivity|]. split; [exact Hi|exact Hr'].
  Qed.
End Iterate.

(* ------------------------------------------------------------------ OverSamplerIterate.array_via_func_from *)
Definition level0_nonzero (f : RR -> R) m (ps og : RR) : Prop :=
  exists p, In p (unmasked m) /\ f (@pixel_centre ROps (shape0 m) (shape1 m) ps og p) <> 0.

Lemma array_sub_1_imap (f : RR -> R) m (ps og : RR) : ps_okR ps ->
  @to_native R (@zero ROps) m (map f (@grid_slim_via_mask ROps m ps og))
  = @imap2d R (fun y x b => if b then 0 else Lev0 f ps og (shape0 m) (shape1 m) (y, x)) m.
Proof.
  intros Hps. rewrite centres_formula by exact Hps. unfold spec_centres. rewrite map_map.
  exact (to_native_imap2d (@zero ROps) (fun p => f (@pixel_centre ROps (shape0 m) (shape1 m) ps og p)) m).
Qed.

Theorem iterate_per_pixel_rule (f : RR -> R) m (ps og : RR) (thr rel : option R) steps :
  ps_okR ps -> thr_okR thr -> steps <> [] -> subs_ok steps -> level0_nonzero f m ps og ->
  @iterate_via_func ROps f m ps og thr rel steps = Ok (@spec_iterate ROps f m ps og thr rel steps).
Proof.
  intros Hps Hthr Hne Hs [[py px] [Hp Hnz]]. unfold iterate_via_func. change (T ROps) with R.
  rewrite (array_sub_1_imap f m ps og Hps).
  rewrite (any_nonzero_imap2d _ m py px false); [|apply (unmasked_cells m (py, px) Hp)|exact Hnz].
  cbn [negb]. rewrite map_map_const_imap2d.
  set (Ans := fun p : nat * nat => @rule ROps thr rel (Lev0 f ps og (shape0 m) (shape1 m) p)
                                     (map (fun s => Lev f ps og (shape0 m) (shape1 m) s p) steps)).
  assert (Hspec : @spec_iterate ROps f m ps og thr rel steps = map Ans (unmasked m)).
  { unfold spec_iterate, spec_centres. rewrite map_map. reflexivity. }
  rewrite Hspec.
  assert (Hlast : (1 <= last steps 0)%nat).
  { unfold subs_ok in Hs. rewrite Forall_forall in Hs. apply Hs. destruct steps; [contradiction|]. apply (@exists_last _ (n :: steps)) in Hne.
    destruct Hne as [l' [a E]]. rewrite E, last_last. apply in_or_app. right. left. reflexivity. }
  assert (Hrl : subs_ok (removelast steps)).
  { unfold subs_ok in *. rewrite Forall_forall in *. intros s Hin. apply Hs.
    rewrite (app_removelast_last 0%nat Hne). apply in_or_app. left. exact Hin. }
  pose proof (loop_spec f ps og m thr rel Hps Hthr (last steps 0%nat) Ans Hlast (removelast steps)
                (fun y x b => if b then 0 else Lev0 f ps og (shape0 m) (shape1 m) (y, x)) (fun _ _ _ => @zero ROps) (fun _ _ b => b) Hrl) as L.
  rewrite imap2d_id in L.
  assert (Hinv : inv f ps og m thr rel (removelast steps) (last steps 0%nat) Ans
                   (fun y x b => if b then 0 else Lev0 f ps og (shape0 m) (shape1 m) (y, x)) (fun _ _ _ => @zero ROps) (fun _ _ b => b)).
  { intros y x b Hc. split; [auto|]. intros Hb. subst b. right. split; [reflexivity|]. split; [reflexivity|].
    rewrite <- (app_removelast_last 0%nat Hne). reflexivity. }
  specialize (L Hinv). change (T ROps) with R in L.
  destruct (@iterate_loop ROps f ps og thr rel (removelast steps) _ _ m) as [it|[it tl]].
  - f_equal. exact L.
  - destruct steps as [|s0 steps0]; [contradiction|]. f_equal. exact L.
Qed.

Lemma any_nonzero_zeros m : @any_nonzero ROps (@imap2d R (fun _ _ _ => 0) m) = false.
Proof.
  assert (Hrow : forall y row x, existsb (fun v => negb (Reqb v 0)) (imap_row (fun _ _ _ => 0) y row x) = false).
  { intros y row. induction row as [|b r IHr]; intros x; cbn [imap_row existsb]; [reflexivity|].
    rewrite IHr, orb_false_r. destruct (Reqb 0 0) eqn:E; [reflexivity|]. apply Reqb_false in E. contradiction. }
  unfold any_nonzero, imap2d. unfold zero. cbn [eqb ofZ ROps]. generalize 0%nat.
  induction m as [|row t IH]; intros y; cbn [imap_from existsb]; [reflexivity|].
  rewrite IH, orb_false_r. apply Hrow.
Qed.

(* what the code does when the sub-size-1 array is identically zero: it returns it (the known finding) *)
Theorem iterate_level0_all_zero_shortcut (f : RR -> R) m (ps og : RR) (thr rel : option R) steps :
  ps_okR ps -> (forall p, In p (unmasked m) -> f (@pixel_centre ROps (shape0 m) (shape1 m) ps og p) = 0) ->
  @iterate_via_func ROps f m ps og thr rel steps = Ok (map (fun _ => 0) (unmasked m)).
Proof.
  intros Hps Hz. unfold iterate_via_func. change (T ROps) with R. rewrite (array_sub_1_imap f m ps og Hps).
  rewrite (imap2d_ext _ (fun _ _ _ => 0)).
  - pose proof (any_nonzero_zeros m) as E.
    rewrite E. cbn [negb]. rewrite to_slim_imap2d. reflexivity.
  - intros y x b Hc. destruct b; [reflexivity|]. unfold Lev0.
    assert (Hin : In (y, x) (unmasked m)).
    { clear -Hc. unfold cells, unmasked in *. revert Hc. generalize 0%nat. induction m as [|row t IH]; intros y0 Hc; cbn in *; [contradiction|].
      apply in_app_or in Hc. apply in_or_app. destruct Hc as [Hc|Hc]; [left|right; eapply IH; exact Hc].
      revert Hc. generalize 0%nat. induction row as [|b r IHr]; intros x0 Hc; cbn in *; [contradiction|].
      destruct Hc as [E|Hc].
      - inversion E; subst. left. reflexivity.
      - destruct b; [|right]; eapply IHr; exact Hc. }
    apply Hz. exact Hin.
Qed.

(* witness: one unmasked pixel, unit scale, f(y, x) = y^2 vanishes at the pixel centre (0, 0); the code returns 0,
   the stated rule gives the value at the last sub-size, 1/16 *)
Theorem iterate_level0_all_zero_refuted :
  exists (f : RR -> R) m (ps og : RR) thr rel steps,
    ps_okR ps /\ thr_okR thr /\ steps <> [] /\ subs_ok steps /\ shape_okP m (repeat 1%nat (length (unmasked m))) /\
    @iterate_via_func ROps f m ps og thr rel steps <> Ok (@spec_iterate ROps f m ps og thr rel steps).
Proof.
  exists (fun p => fst p * fst p), [[false]], (1, 1), (0, 0), (Some (1 / 2)), None, [2%nat].
  assert (Hps : ps_okR (1, 1)) by (split; cbn; lra).
  split; [exact Hps|]. split; [cbn; lra|]. split; [discriminate|]. split; [repeat constructor|].
  split; [split; [reflexivity|repeat constructor]|].
  rewrite iterate_level0_all_zero_shortcut.
  - intros E. injection E as E. revert E.
    unfold spec_iterate, spec_centres, unmasked, pixel_centre, shape0, shape1. cbn [unmasked_from unmasked_row app map length hd fst snd].
    rewrite sumT_sumR. cbn [sumR].
    intros E. lra.
  - exact Hps.
  - intros p Hp. cbn in Hp. destruct Hp as [E|Hf]; [|contradiction]. subst p. unfold pixel_centre, shape0, shape1. cbn [length hd fst snd add sub mul div ofZ ROps T]. rewrite !ofNat_R.
    unfold two. cbn. lra.
Qed.

(* ------------------------------------------------------------------ declarative reading of [rule] and [agrees] *)
Fixpoint no_agree (thr rel : option R) (prev : R) (l : list R) : Prop :=
  match l with [] => True | v :: t => @agrees ROps thr rel prev v = false /\ no_agree thr rel v t end.

Lemma last_cons_default {A} (l : list A) : forall a d, last (a :: l) d = last l a.
Proof. induction l as [|b l IH]; intros a d; [reflexivity|]. change (last (a :: b :: l) d) with (last (b :: l) d). now rewrite !IH. Qed.
Lemma rule_first_agreeing thr rel : forall l1 prev v l2,
  l2 <> [] -> no_agree thr rel prev l1 -> @agrees ROps thr rel (last l1 prev) v = true ->
  @rule ROps thr rel prev (l1 ++ v :: l2) = v.
Proof.
  induction l1 as [|a l1 IH]; intros prev v l2 Hne Hno Hag.
  - destruct l2 as [|w l2]; [contradiction|]. cbn [app last] in *. rewrite rule_cons, Hag. reflexivity.
  - destruct Hno as [Ha Hno]. cbn [app].
    assert (E : exists w t, l1 ++ v :: l2 = w :: t) by (destruct l1; cbn; eauto). destruct E as [w [t E]].
    rewrite E, rule_cons, Ha. change (T ROps) with R. rewrite <- E. apply IH; auto.
    now rewrite last_cons_default in Hag.
Qed.
Lemma rule_no_agreement thr rel : forall l prev w, no_agree thr rel prev l -> @rule ROps thr rel prev (l ++ [w]) = w.
Proof.
  induction l as [|a l IH]; intros prev w Hno; [reflexivity|].
  destruct Hno as [Ha Hno]. cbn [app].
  assert (E : exists v t, l ++ [w] = v :: t) by (destruct l; cbn; eauto). destruct E as [v [t E]].
  rewrite E, rule_cons, Ha. change (T ROps) with R. rewrite <- E. apply IH. exact Hno.
Qed.

Lemma agrees_spec (thr rel : option R) (prev cur : R) :
  @agrees ROps thr rel prev cur = true <->
  (forall t, thr = Some t -> 0 < prev /\ t <= Rmin prev cur / Rmax prev cur) /\
  (forall r, rel = Some r -> Rabs (prev - cur) <= r).
Proof.
  assert (Hmin : @minT ROps prev cur = Rmin prev cur).
  { unfold minT, Rmin. cbn [ltb ROps]. destruct (Rltb cur prev) eqn:E; rbool; destruct (Rle_dec prev cur); try reflexivity; lra. }
  assert (Hmax : @maxT ROps prev cur = Rmax prev cur).
  { unfold maxT, Rmax. cbn [ltb ROps]. destruct (Rltb prev cur) eqn:E; rbool; destruct (Rle_dec prev cur); try reflexivity; lra. }
  assert (Habs : @absT ROps (prev - cur) = Rabs (prev - cur)).
  { unfold absT, Rabs, zero. cbn [ltb opp ofZ ROps]. destruct (Rltb (prev - cur) 0) eqn:E; rbool; destruct (Rcase_abs (prev - cur)); try reflexivity; lra. }
  unfold agrees, zero. cbn [ltb leb sub div ofZ ROps T]. rewrite Hmin, Hmax, Habs. rewrite andb_true_iff.
  split.
  - intros [H1 H2]. split.
    + intros t Et. subst thr. apply andb_true_iff in H1. destruct H1 as [A B]. rbool. split; assumption.
    + intros r Er. subst rel. rbool. assumption.
  - intros [H1 H2]. split.
    + destruct thr as [t|]; [|reflexivity]. destruct (H1 t eq_refl) as [A B]. apply andb_true_iff. split; [apply Rltb_true|apply Rleb_true]; assumption.
    + destruct rel as [r|]; [|reflexivity]. apply Rleb_true. apply H2. reflexivity.
Qed.

(* ------------------------------------------------------------------ counts, boolean hypotheses, decorator + iterate *)
Theorem grid_count m (ps og : RR) ss : shape_okP m ss -> ps_okR ps ->
  length (@over_sampled_grid ROps m ps og ss) = list_sum (sqs ss).
Proof.
  intros Hsh Hps. rewrite sub_grid_formula by assumption. destruct Hsh as [Hl _]. unfold spec_grid.
  rewrite (list_sum_flat_map_length (fun cs : RR * nat => @block ROps ps (fst cs) (snd cs))).
  rewrite <- (block_lengths (fun p => fst p) m ps og ss Hl). f_equal. apply map_ext. intros. now rewrite map_length.
Qed.

Lemma shape_ok_P m ss : shape_ok m ss = true -> shape_okP m ss.
Proof.
  unfold shape_ok. intros H. apply andb_true_iff in H. destruct H as [H H3]. apply andb_true_iff in H. destruct H as [_ H2].
  split; [now apply Nat.eqb_eq|]. unfold subs_ok. apply Forall_forall. intros s Hin.
  rewrite forallb_forall in H3. specialize (H3 s Hin). now apply Nat.leb_le.
Qed.

Theorem decorator_iterate (f : RR -> R) m (ps og : RR) (grid_values : list RR) thr rel steps :
  ps_okR ps -> thr_okR thr -> steps <> [] -> subs_ok steps -> level0_nonzero f m ps og ->
  @decorated ROps f m ps og grid_values (@OSIterate ROps thr rel steps) = Ok (@spec_iterate ROps f m ps og thr rel steps).
Proof. intros. unfold decorated. cbn [perform_over_sampling negb]. apply iterate_per_pixel_rule; assumption. Qed.

(* ------------------------------------------------------------------ the hypotheses, spelled out; example mask *)
Lemma hyp_shape : forall m ss,
  shape_okP m ss <-> length ss = length (unmasked m) /\ Forall (fun s => (1 <= s)%nat) ss.
Proof. intros; reflexivity. Qed.
Lemma hyp_scales : forall ps : R * R, ps_okR ps <-> fst ps <> 0 /\ snd ps <> 0.
Proof. intros; reflexivity. Qed.
Lemma hyp_thr : forall thr, thr_okR thr <-> match thr with Some t => 0 < t | None => True end.
Proof. intros; reflexivity. Qed.
Lemma hyp_level0 : forall (f : R * R -> R) m ps og,
  level0_nonzero f m ps og <-> exists p, In p (unmasked m) /\ f (@pixel_centre ROps (shape0 m) (shape1 m) ps og p) <> 0.
Proof. intros; reflexivity. Qed.
Definition ex_mask : mask := [[false; true; false]; [true; false; false]].
