(* C04 -- specification vocabulary over the real numbers (used by the statements in Props/C04.v). *)
From Coq Require Import ZArith Reals List Bool Arith.
From PAV Require Import Base.Res Base.NumOps Base.Sum Model.C03 Model.C04.
Import ListNotations.
Local Open Scope R_scope.

(* a matrix (list of rows) with n rows of p entries *)
Definition shape (n p : nat) (F : @mat ROps) : Prop := length F = n /\ forall a, (a < n)%nat -> length (nth a F []) = p.

(* what curvature_matrix_mirrored_from returns at (a, b): the upper-triangle entry of the pair if it is non-zero, else the lower one *)
Definition mir (C : @mat ROps) (a b : nat) : R :=
  let lo := Nat.min a b in let hi := Nat.max a b in
  if Reqb (mget C lo hi) 0 then mget C hi lo else mget C lo hi.

(* E e d p: entry (d, p) of the matrix a unique-mapping encoding stands for: the sum of the weights of data pixel d filed under p *)
Definition E (e : @enc ROps) (d p : nat) : R := sumR (hits p (enc_row e d)).
(* U rws d0 d1: entry (d0, d1) of the (upper-triangular, diagonal-halved) matrix that sparse preload rows stand for *)
Definition U (rws : list (list (nat * R))) (d0 d1 : nat) : R := sumR (hits d1 (nth d0 rws [])).
(* every pixelization index of the encoding is below P; every partner index of the preload rows is below n *)
Definition enc_ok (e : @enc ROps) (P : nat) : Prop := forall d pw, In pw (enc_row e d) -> (fst pw < P)%nat.
Definition rows_ok (rws : list (list (nat * R))) (n : nat) : Prop :=
  forall d0 iw, In iw (nth d0 rws []) -> (fst iw < n)%nat.
(* M0^T U M1 written out *)
Definition G (rws : list (list (nat * R))) e0 e1 n a b : R :=
  sumR (map (fun d0 => sumR (map (fun d1 => E e0 d0 a * U rws d0 d1 * E e1 d1 b) (seq 0 n))) (seq 0 (length rws))).
(* w_tilde_curvature_value_from between the d0-th and d1-th unmasked pixel *)
Definition Wv (noise : px -> R) (K : @kernel ROps) (nfs : list px) (d0 d1 : nat) : R :=
  @wt_value ROps noise K (nth d0 nfs (0%Z, 0%Z)) (nth d1 nfs (0%Z, 0%Z)).
(* the convolution operator carried by the convolver's image frames (C03): Cop c i s = what unit flux in pixel s sends into pixel i *)
Definition Cop (c : @convolver ROps) (i s : nat) : R := sumR (hits i (nth s (image_frames c) [])).
Definition frames_ok (c : @convolver ROps) (n : nat) : Prop :=
  length (image_frames c) = n /\ forall s tk, In tk (nth s (image_frames c) []) -> (fst tk < n)%nat.
(* the encoding e stands for the matrix M *)
Definition represents (e : @enc ROps) (M : @mat ROps) (n P : nat) : Prop :=
  forall d p, (d < n)%nat -> (p < P)%nat -> mget M d p = E e d p.
(* the k-th unmasked pixel in slim order *)
Definition Uat (m : mask) (k : nat) : px := nth k (unmasked m) (0%Z, 0%Z).
(* the kernel as a function on Z x Z, zero outside its shape (same test order as w_tilde_curvature_value_from) *)
Definition inrange (K : @kernel ROps) (a : Z * Z) : bool :=
  ((fst a >=? 0) && (snd a >=? 0) && (fst a <? rows K) && (snd a <? cols K))%Z.
Definition kz (K : @kernel ROps) (a : Z * Z) : R := if inrange K a then getZ 0 K a else 0.
(* the kernel cell that carries flux from pixel p onto pixel t: t - p + (rows K // 2, cols K // 2) *)
Definition koff (K : @kernel ROps) (t p : px) : Z * Z := (fst t - fst p + rows K / 2, snd t - snd p + cols K / 2)%Z.
