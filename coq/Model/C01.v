(* C01 -- slim / native conversions.  Executable model of
     array_2d_util.array_2d_slim_from / array_2d_native_from / array_2d_via_indexes_from / convert_array_2d,
     mask_2d_util.native_index_for_slim_index_2d_from / mask_slim_indexes_from,
     grid_2d_util.grid_2d_slim_from / grid_2d_native_from / convert_grid_2d,
     array_1d_util.* and mask_1d_util.native_index_for_slim_index_1d_from,
   polymorphic in the value type (no arithmetic on values is performed by the code except the
   multiplication by the inverted mask, modelled as "replace by zero").  No proofs here. *)
From Coq Require Import List Arith Bool ZArith.
From PAV Require Import Base.Res Base.Check.
Import ListNotations.

Definition mask := list (list bool).   (* true = masked *)

Section Model.
  Context {A : Type} (zero : A).
  Definition grid := list (list A).

  (* ---------------- shapes ---------------- *)
  Definition rectb {B} (H W : nat) (g : list (list B)) : bool :=
    Nat.eqb (length g) H && forallb (fun r => Nat.eqb (length r) W) g.
  Definition width {B} (g : list (list B)) : nat := length (hd [] g).
  Definition get2 (g : grid) (p : nat * nat) : A := nth (snd p) (nth (fst p) g []) zero.
  Definition mget (m : mask) (p : nat * nat) : bool := nth (snd p) (nth (fst p) m []) true.

  (* ---------------- mask_2d_util.native_index_for_slim_index_2d_from ----------------
     double loop y, x; appends (y, x) for every unmasked pixel *)
  Fixpoint row_coords (y : nat) (r : list bool) (x : nat) : list (nat * nat) :=
    match r with
    | [] => []
    | b :: t => if b then row_coords y t (S x) else (y, x) :: row_coords y t (S x)
    end.
  Fixpoint coords_from (m : mask) (y : nat) : list (nat * nat) :=
    match m with
    | [] => []
    | r :: t => row_coords y r 0 ++ coords_from t (S y)
    end.
  Definition native_for_slim (m : mask) : list (nat * nat) := coords_from m 0.
  Definition count (m : mask) : nat := length (native_for_slim m).

  (* ---------------- array_2d_slim_from: double loop, running output index ---------------- *)
  Fixpoint slim_row (r : list bool) (v : list A) : list A :=
    match r, v with
    | b :: r', a :: v' => if b then slim_row r' v' else a :: slim_row r' v'
    | _, _ => []
    end.
  Fixpoint slim_from (m : mask) (n : grid) : list A :=
    match m, n with
    | r :: m', v :: n' => slim_row r v ++ slim_from m' n'
    | _, _ => []
    end.

  (* ---------------- array_2d_via_indexes_from: zeros(shape), then one write per slim index ---- *)
  Fixpoint upd {B} (l : list B) (i : nat) (v : B) : list B :=
    match l, i with
    | [], _ => []
    | _ :: t, O => v :: t
    | x :: t, S j => x :: upd t j v
    end.
  Definition upd2 (g : grid) (p : nat * nat) (v : A) : grid :=
    upd g (fst p) (upd (nth (fst p) g []) (snd p) v).
  Fixpoint scatter_set (g : grid) (idx : list (nat * nat)) (s : list A) : grid :=
    match idx, s with
    | p :: idx', v :: s' => scatter_set (upd2 g p v) idx' s'
    | _, _ => g
    end.
  Definition zeros2 (H W : nat) : grid := repeat (repeat zero W) H.
  Definition via_indexes (H W : nat) (idx : list (nat * nat)) (s : list A) : grid :=
    scatter_set (zeros2 H W) idx s.
  Definition native_from (m : mask) (s : list A) : grid :=
    via_indexes (length m) (width m) (native_for_slim m) s.

  (* `array *= invert(mask)` *)
  Definition zero_masked (m : mask) (n : grid) : grid :=
    map (fun rv => map (fun bv : bool * A => if fst bv then zero else snd bv) (combine (fst rv) (snd rv)))
        (combine m n).

  (* ---------------- convert_array_2d and the .slim / .native accessors ----------------
     input is either a native grid or a slim vector; the structure stores one of the two forms *)
  Inductive form := Slim (s : list A) | Native (n : grid).
  Definition convert (m : mask) (input : form) (store_native : bool) : form :=
    match input, store_native with
    | Native n, true => Native (zero_masked m n)
    | Native n, false => Slim (slim_from m (zero_masked m n))
    | Slim s, false => Slim s
    | Slim s, true => Native (native_from m s)
    end.
  Definition to_slim (m : mask) (f : form) : list A :=
    match f with Slim s => s | Native n => slim_from m n end.
  Definition to_native (m : mask) (f : form) : grid :=
    match f with Slim s => native_from m s | Native n => n end.

  (* ---------------- mask_slim_indexes_from: running flat counter ---------------- *)
  Fixpoint msi (l : list bool) (flag : bool) (i : nat) : list nat :=
    match l with
    | [] => []
    | b :: t => if Bool.eqb b flag then i :: msi t flag (S i) else msi t flag (S i)
    end.
  Definition mask_slim_indexes (m : mask) (flag : bool) : list nat := msi (concat m) flag 0.

  (* ---------------- 1-D: array_1d_util / mask_1d_util ---------------- *)
  Fixpoint native_for_slim_1d (r : list bool) (x : nat) : list nat :=
    match r with
    | [] => []
    | b :: t => if b then native_for_slim_1d t (S x) else x :: native_for_slim_1d t (S x)
    end.
  Fixpoint scatter_set_1d (g : list A) (idx : list nat) (s : list A) : list A :=
    match idx, s with
    | i :: idx', v :: s' => scatter_set_1d (upd g i v) idx' s'
    | _, _ => g
    end.
  Definition native_from_1d (r : list bool) (s : list A) : list A :=
    scatter_set_1d (repeat zero (length r)) (native_for_slim_1d r 0) s.
  Definition slim_from_1d (r : list bool) (v : list A) : list A := slim_row r v.
  Definition zero_masked_1d (r : list bool) (v : list A) : list A :=
    map (fun bv : bool * A => if fst bv then zero else snd bv) (combine r v).
  (* convert_array_1d / convert_grid_1d (after the fix: a native input kept native is multiplied by
     the inverted mask) and the .slim / .native accessors *)
  Inductive form1 := Slim1 (s : list A) | Native1 (n : list A).
  Definition convert_1d (r : list bool) (input : form1) (store_native : bool) : form1 :=
    match input, store_native with
    | Native1 n, true => Native1 (zero_masked_1d r n)
    | Native1 n, false => Slim1 (slim_from_1d r n)
    | Slim1 s, false => Slim1 s
    | Slim1 s, true => Native1 (native_from_1d r s)
    end.
  Definition to_slim_1d (r : list bool) (f : form1) : list A :=
    match f with Slim1 s => s | Native1 n => slim_from_1d r n end.
  Definition to_native_1d (r : list bool) (f : form1) : list A :=
    match f with Slim1 s => native_from_1d r s | Native1 n => n end.
End Model.

(* ---------------- specification side (independent of the loops above) ---------------- *)
Definition all_coords (H W : nat) : list (nat * nat) :=
  flat_map (fun y => map (fun x => (y, x)) (seq 0 W)) (seq 0 H).
Definition unmasked_spec (m : mask) : list (nat * nat) :=
  filter (fun p => negb (mget m p)) (all_coords (length m) (width m)).

(* ---------------- correspondence cases (values are integers or exact rationals) ------------- *)
Definition zgrid := list (list Z).
Definition pair_eqb (a b : nat * nat) := Nat.eqb (fst a) (fst b) && Nat.eqb (snd a) (snd b).
Definition zg_eqb := list_eqb (list_eqb Z.eqb).

Inductive case :=
  (* util level *)
| KSlimFrom (m : mask) (n : zgrid) (out : list Z)
| KNativeFrom (m : mask) (s : list Z) (out : zgrid)
| KNativeForSlim (m : mask) (out : list (nat * nat))
| KMaskIdx (m : mask) (flag : bool) (out : list nat)
  (* class level: Array2D(values, mask, store_native).slim / .native, values given in either form *)
| KArray (m : mask) (native_input store_native : bool) (vals_native : zgrid) (vals_slim : list Z)
         (out_slim : list Z) (out_native : zgrid)
  (* Grid2D / VectorYX2D: the two planes, same convention *)
| KGrid (m : mask) (native_input store_native : bool) (ny nx : zgrid) (sy sx : list Z)
        (out_slim_y out_slim_x : list Z) (out_native_y out_native_x : zgrid)
  (* 1-D *)
| KArray1 (r : list bool) (native_input store_native : bool) (vals_native vals_slim : list Z)
          (out_slim out_native : list Z)
| KNativeForSlim1 (r : list bool) (out : list nat).

Definition inp (native_input : bool) (n : zgrid) (s : list Z) : form :=
  if native_input then Native n else Slim s.

Definition agree (k : case) : bool :=
  match k with
  | KSlimFrom m n out => list_eqb Z.eqb (slim_from m n) out
  | KNativeFrom m s out => zg_eqb (native_from 0%Z m s) out
  | KNativeForSlim m out => list_eqb pair_eqb (native_for_slim m) out
  | KMaskIdx m flag out => list_eqb Nat.eqb (mask_slim_indexes m flag) out
  | KArray m ni sn n s os on =>
      let f := convert 0%Z m (inp ni n s) sn in
      list_eqb Z.eqb (to_slim m f) os && zg_eqb (to_native 0%Z m f) on
  | KGrid m ni sn ny nx sy sx osy osx ony onx =>
      let fy := convert 0%Z m (inp ni ny sy) sn in
      let fx := convert 0%Z m (inp ni nx sx) sn in
      list_eqb Z.eqb (to_slim m fy) osy && list_eqb Z.eqb (to_slim m fx) osx &&
      zg_eqb (to_native 0%Z m fy) ony && zg_eqb (to_native 0%Z m fx) onx
  | KArray1 r ni sn n s os on =>
      let f := convert_1d 0%Z r (if ni then Native1 n else Slim1 s) sn in
      list_eqb Z.eqb (to_slim_1d r f) os && list_eqb Z.eqb (to_native_1d 0%Z r f) on
  | KNativeForSlim1 r out => list_eqb Nat.eqb (native_for_slim_1d r 0) out
  end.

(* specification verdict on the implementation's output: written with the spec definitions only *)
Definition spec_slim (m : mask) (n : zgrid) : list Z := map (get2 0%Z n) (unmasked_spec m).
Definition spec_native (m : mask) (slim : list Z) : zgrid :=
  (* value of the k-th unmasked pixel at its position, zero elsewhere *)
  map (fun y => map (fun x =>
        if mget m (y, x) then 0%Z
        else nth (length (filter (fun p => negb (mget m p))
                           (filter (fun p => Nat.ltb (fst p) y || (Nat.eqb (fst p) y && Nat.ltb (snd p) x))
                                   (all_coords (length m) (width m))))) slim 0%Z)
       (seq 0 (width m))) (seq 0 (length m)).
Definition spec_zero_masked (m : mask) (n : zgrid) : zgrid :=
  map (fun y => map (fun x => if mget m (y, x) then 0%Z else get2 0%Z n (y, x)) (seq 0 (width m))) (seq 0 (length m)).

Definition spec_ok (k : case) : bool :=
  match k with
  | KSlimFrom m n out => list_eqb Z.eqb out (spec_slim m n)
  | KNativeFrom m s out => zg_eqb out (spec_native m s)
  | KNativeForSlim m out => list_eqb pair_eqb out (unmasked_spec m)
  | KMaskIdx m flag out =>
      list_eqb Nat.eqb out (filter (fun i => Bool.eqb (nth i (concat m) true) flag) (seq 0 (length (concat m))))
  | KArray m ni sn n s os on =>
      if ni then list_eqb Z.eqb os (spec_slim m n) && zg_eqb on (spec_zero_masked m n)
      else list_eqb Z.eqb os s && zg_eqb on (spec_native m s)
  | KGrid m ni sn ny nx sy sx osy osx ony onx =>
      if ni then list_eqb Z.eqb osy (spec_slim m ny) && list_eqb Z.eqb osx (spec_slim m nx)
                 && zg_eqb ony (spec_zero_masked m ny) && zg_eqb onx (spec_zero_masked m nx)
      else list_eqb Z.eqb osy sy && list_eqb Z.eqb osx sx
           && zg_eqb ony (spec_native m sy) && zg_eqb onx (spec_native m sx)
  | KArray1 r ni sn n s os on =>
      let m := [r] in
      if ni then list_eqb Z.eqb os (spec_slim m [n]) && zg_eqb [on] (spec_zero_masked m [n])
      else list_eqb Z.eqb os s && zg_eqb [on] (spec_native m s)
  | KNativeForSlim1 r out => list_eqb Nat.eqb out (map snd (unmasked_spec [r]))
  end.

Definition check (k : case) : nat := verdict (agree k) (spec_ok k).
