"""witness: InversionImagingWTilde.data_vector writes the linear-function rows into the caller's Preloads.data_vector_mapper"""
import sys, types
if "pylops" not in sys.modules:
    _p = types.ModuleType("pylops"); _p.LinearOperator = object; _p.Diagonal = None; sys.modules["pylops"] = _p
import numpy as np
import autoarray as aa
from autoarray.inversion.linear_obj.func_list import AbstractLinearObjFuncList

class Func(AbstractLinearObjFuncList):
    def __init__(self, grid, columns): super().__init__(grid=grid, regularization=None); self._c = columns
    @property
    def params(self): return self._c.shape[1]
    @property
    def mapping_matrix(self): return self._c

def build(preloads=None):
    m = np.ones((5, 5), bool); m[1:4, 1:4] = False
    mask = aa.Mask2D(mask=m, pixel_scales=1.0)
    data = aa.Array2D(values=np.arange(25.0).reshape(5, 5), mask=mask)
    noise = aa.Array2D(values=np.full((5, 5), 2.0), mask=mask)
    psf = aa.Kernel2D.no_mask(values=[[0.0, 1.0, 0.0], [1.0, 2.0, 1.0], [0.0, 1.0, 0.0]], pixel_scales=1.0)
    osd = aa.OverSamplingDataset(uniform=aa.OverSamplingUniform(sub_size=1), pixelization=aa.OverSamplingUniform(sub_size=1))
    ds = aa.Imaging(data=data, noise_map=noise, psf=psf, over_sampling=osd)
    grid = ds.grids.pixelization.over_sampler.over_sampled_grid
    mesh = aa.Mesh2DRectangular.overlay_grid(grid=grid, shape_native=(3, 3))
    mg = aa.MapperGrids(mask=mask, source_plane_data_grid=grid, source_plane_mesh_grid=mesh)
    mapper = aa.Mapper(mapper_grids=mg, over_sampler=ds.grids.pixelization.over_sampler, regularization=aa.reg.Constant(coefficient=1.0))
    func = Func(grid=aa.Grid2D.from_mask(mask=mask), columns=np.ones((9, 1)))
    st = aa.SettingsInversion(use_w_tilde=True, use_positive_only_solver=False, no_regularization_add_to_curvature_diag_value=1.0)
    kw = {} if preloads is None else {"preloads": preloads}
    return aa.Inversion(dataset=ds, linear_obj_list=[mapper, func], settings=st, **kw)

fresh = build()
P = np.array(fresh._data_vector_mapper)          # what Preloads.set_curvature_matrix stores: mapper rows filled, function row 0
np.set_printoptions(linewidth=200, precision=4)
print("caller's array before     :", P)
pre = aa.Preloads(data_vector_mapper=P)
inv = build(pre)
print("inversion.data_vector     :", inv.data_vector)
print("caller's array afterwards :", P)
print("Preloads.data_vector_mapper is the data_vector object:", pre.data_vector_mapper is inv.data_vector)
