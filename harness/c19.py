"""C19 -- layout regions rotate and extract consistently with the arrays they index."""
import itertools
import numpy as np
from harness.common import cz, clist, ctup, copt, cres, call_res, import_aa

ID = "C19"
GEN = ["layout"]
GEN_FILES = ["Gen/Gen_layout.v"]
PROPS = "Props/C19.v"
COQ_CHECK = ("Model.C19x", "check")
COQ_FALLBACK = ("Model.C19", "spec_ok")
COQ_IMPORTS = "From PAV Require Import Model.C19."
SHARD = 400
RULE = ("exhaustive enumeration (see exhaustive_subspace) of constructor arguments, sub-region pixel ranges, 1-D "
        "extraction quadruples, 2-D (region, window) pairs, (shape, region, corner) rotations, each run through the "
        "public classes (aa.Region1D/2D, aa.Layout2D, Array2D.original_orientation) and the util functions; plus random "
        "larger shapes. A case is non-trivial unless it is a bare constructor call; distinct = distinct JSON input.")
EXHAUSTIVE = {
    "quick": "constructors on [-1..3]^2 / [-1..2]^4; sub-regions of every region in a 3x3 frame with pixel ranges in [-1..3]; "
             "1-D extraction on all quadruples in [0..6]; 2-D extraction: all (region, window) pairs in a 3x3 frame; "
             "rotation: all shapes <= 4x4, all regions, 4 corners (+2 invalid corners)",
    "thorough": "as quick with frames 4x4 for extraction / sub-regions and all shapes <= 6x6 for rotation, 1-D on [0..9]",
}
TRUSTED = ["py2v translator (coq/Gen/Gen_layout.v regenerated from autoarray/layout/region.py and layout_util.py on every run; "
           "its pinned-glue assumptions: AbstractRegion.__init__/__getitem__ literal text)",
           "correspondence harness harness/c19.py (also runs every generated definition against the Python function)",
           "numpy slicing semantics a[y0:y1, x0:x1] = firstn/skipn (Model.C19.slice2), checked by the KCommute cases"]
ASSUMPTIONS = ["array contents are arbitrary (theorems are polymorphic in the element type); correspondence uses distinct integers",
               "Layout2D / Array2D glue is covered by correspondence only"]

def tup(r): return None if r is None else [int(x) for x in r]
def creg(r): return ctup([cz(x) for x in r])
def carr(m): return clist([clist([cz(x) for x in row]) for row in m])

def regions_1d(n):
    return [(a, b) for a in range(0, n + 1) for b in range(a + 1, n + 1)]
def regions_2d(h, w):
    return [(y0, y1, x0, x1) for (y0, y1) in regions_1d(h) for (x0, x1) in regions_1d(w)]

def gen_inputs(tier, rng):
    big = tier == "thorough"
    # constructors incl. invalid
    for r in itertools.product(range(-1, 4), repeat=2): yield {"op": "init1", "r": list(r)}
    for r in itertools.product(range(-1, 3), repeat=4): yield {"op": "init2", "r": list(r)}
    # sub regions
    n = 4 if big else 3
    prs = [(a, b) for a in range(-1, 4) for b in range(-1, 4)]
    for s in regions_1d(n + 2):
        for p in prs:
            yield {"op": "front1", "s": list(s), "p": list(p), "e": None}
            yield {"op": "trail1", "s": list(s), "p": list(p)}
        for e in range(-1, 5): yield {"op": "front1", "s": list(s), "p": None, "e": e}
        yield {"op": "front1", "s": list(s), "p": None, "e": None}
        yield {"op": "front1", "s": list(s), "p": [0, 1], "e": 1}
    for s in regions_2d(n, n):
        for p in prs:
            if not big and (p[0] + p[1] + s[0]) % 2: continue   # halve the quick budget deterministically
            for op in ("parfront", "serfront"): yield {"op": op, "s": list(s), "p": list(p), "e": None}
            for op in ("partrail", "sertrail"): yield {"op": op, "s": list(s), "p": list(p)}
            yield {"op": "serroe", "s": list(s), "sh": [n + 1, n + 2], "p": list(p)}
        for e in range(-1, 5):
            for op in ("parfront", "serfront"): yield {"op": op, "s": list(s), "p": None, "e": e}
        yield {"op": "parfront", "s": list(s), "p": None, "e": None}
        yield {"op": "parfull", "s": list(s), "sh": [n, n + 3]}
        yield {"op": "parfull", "s": list(s), "sh": [n, 0]}
    # 1-D extraction
    m = 9 if big else 6
    for o in regions_1d(m):
        for e in regions_1d(m): yield {"op": "x0x1", "a": [o[0], o[1], e[0], e[1]]}
    # 2-D extraction, through util and through Layout2D slots
    f = 4 if big else 3
    slots = ["util", "parallel_overscan", "serial_prescan", "serial_overscan"]
    i = 0
    for o in regions_2d(f, f):
        for e in regions_2d(f, f):
            yield {"op": "extract", "o": list(o), "e": list(e), "via": slots[i % 4], "shape": [f, f]}; i += 1
    yield {"op": "extract", "o": None, "e": [0, 1, 0, 1], "via": "util", "shape": [f, f]}
    yield {"op": "extract", "o": None, "e": [0, 1, 0, 1], "via": "serial_prescan", "shape": [f, f]}
    # rotations
    smax = 6 if big else 4
    corners = [(1, 0), (0, 0), (1, 1), (0, 1)]
    vias = ["util", "rotated_from_roe_corner", "new_rotated_from"]
    for h in range(1, smax + 1):
        for w in range(1, smax + 1):
            arr = [[1 + y * w + x for x in range(w)] for y in range(h)]
            for c in corners + [(2, 0), (0, -1)]:
                yield {"op": "rotarray", "m": arr, "c": list(c), "via": "util" if (h + w) % 2 else "original_orientation"}
            for r in regions_2d(h, w):
                for c in corners:
                    i += 1
                    yield {"op": "rotregion", "r": list(r), "s": [h, w], "c": list(c), "via": vias[i % 3]}
                    yield {"op": "commute", "m": arr, "r": list(r), "c": list(c), "via": "slice" if i % 2 else "extract"}
                    if (i % 3 == 0) or big: yield {"op": "twice", "m": arr, "r": list(r), "c": list(c)}
            yield {"op": "rotregion", "r": None, "s": [h, w], "c": [0, 0], "via": "util"}
            yield {"op": "rotregion", "r": [0, 1, 0, 1], "s": [h, w], "c": [3, 3], "via": "util"}
    # random larger
    for _ in range(3000 if big else 300):
        h, w = rng.randint(5, 12), rng.randint(5, 12)
        arr = [[rng.randint(-99, 99) for _ in range(w)] for _ in range(h)]
        y0 = rng.randint(0, h - 1); y1 = rng.randint(y0 + 1, h); x0 = rng.randint(0, w - 1); x1 = rng.randint(x0 + 1, w)
        c = rng.choice(corners)
        yield {"op": "commute", "m": arr, "r": [y0, y1, x0, x1], "c": list(c), "via": rng.choice(["slice", "extract"])}
        ey0 = rng.randint(0, h - 1); ey1 = rng.randint(ey0 + 1, h); ex0 = rng.randint(0, w - 1); ex1 = rng.randint(ex0 + 1, w)
        yield {"op": "extract", "o": [y0, y1, x0, x1], "e": [ey0, ey1, ex0, ex1], "via": rng.choice(slots), "shape": [h, w]}

def reg_out(x):
    """canonical form of a result that is a region object / tuple"""
    if x[0] == "raise": return x
    v = x[1]
    return ("ok", None if v is None else tuple(int(t) for t in (v.region if hasattr(v, "region") else v)))

def run_case(inp):
    aa = import_aa()
    from autoarray.layout import layout_util
    op = inp["op"]
    nontrivial = op not in ("init1", "init2")
    out = None; coq = None
    t2 = lambda p: None if p is None else tuple(p)
    if op == "init1":
        out = reg_out(call_res(aa.Region1D, tuple(inp["r"])))
        coq = f"KInit1 {creg(inp['r'])} {cres(out, creg)}"
    elif op == "init2":
        out = reg_out(call_res(aa.Region2D, tuple(inp["r"])))
        coq = f"KInit2 {creg(inp['r'])} {cres(out, creg)}"
    elif op in ("front1", "trail1"):
        s = aa.Region1D(tuple(inp["s"]))
        if op == "front1":
            out = reg_out(call_res(s.front_region_from, pixels=t2(inp["p"]), pixels_from_end=inp["e"]))
            coq = f"KFront1 {creg(inp['s'])} {copt(inp['p'], creg)} {copt(inp['e'], cz)} {cres(out, creg)}"
        else:
            out = reg_out(call_res(s.trailing_region_from, pixels=t2(inp["p"])))
            coq = f"KTrail1 {creg(inp['s'])} {creg(inp['p'])} {cres(out, creg)}"
    elif op in ("parfront", "serfront"):
        s = aa.Region2D(tuple(inp["s"]))
        f = s.parallel_front_region_from if op == "parfront" else s.serial_front_region_from
        out = reg_out(call_res(f, pixels=t2(inp["p"]), pixels_from_end=inp["e"]))
        k = "KParFront" if op == "parfront" else "KSerFront"
        coq = f"{k} {creg(inp['s'])} {copt(inp['p'], creg)} {copt(inp['e'], cz)} {cres(out, creg)}"
    elif op in ("partrail", "sertrail"):
        s = aa.Region2D(tuple(inp["s"]))
        f = s.parallel_trailing_region_from if op == "partrail" else s.serial_trailing_region_from
        out = reg_out(call_res(f, pixels=t2(inp["p"])))
        k = "KParTrail" if op == "partrail" else "KSerTrail"
        coq = f"{k} {creg(inp['s'])} {creg(inp['p'])} {cres(out, creg)}"
    elif op == "parfull":
        s = aa.Region2D(tuple(inp["s"]))
        out = reg_out(call_res(s.parallel_full_region_from, shape_2d=tuple(inp["sh"])))
        coq = f"KParFull {creg(inp['s'])} {creg(inp['sh'])} {cres(out, creg)}"
    elif op == "serroe":
        s = aa.Region2D(tuple(inp["s"]))
        out = reg_out(call_res(s.serial_towards_roe_full_region_from, shape_2d=tuple(inp["sh"]), pixels=t2(inp["p"])))
        coq = f"KSerRoe {creg(inp['s'])} {creg(inp['sh'])} {creg(inp['p'])} {cres(out, creg)}"
    elif op == "x0x1":
        a = inp["a"]
        r = layout_util.x0x1_after_extraction(*a)
        out = [None if x is None else int(x) for x in r]
        coq = f"KX0X1 {cz(a[0])} {cz(a[1])} {cz(a[2])} {cz(a[3])} ({copt(out[0], cz)}, {copt(out[1], cz)})"
    elif op == "extract":
        o, e, via = t2(inp["o"]), tuple(inp["e"]), inp["via"]
        if via == "util":
            out = reg_out(call_res(layout_util.region_after_extraction, original_region=o, extraction_region=e))
        else:
            def f():
                lay = aa.Layout2D(shape_2d=tuple(inp["shape"]), **{via: o})
                return getattr(lay.layout_extracted_from(extraction_region=e), via)
            out = reg_out(call_res(f))
        coq = f"KExtract {copt(o, creg)} {creg(e)} {cres(out, lambda v: copt(v, creg))}"
    elif op == "rotregion":
        r, s, c, via = t2(inp["r"]), tuple(inp["s"]), tuple(inp["c"]), inp["via"]
        if via == "util" or r is None:
            out = reg_out(call_res(layout_util.rotate_region_via_roe_corner_from, region=r, shape_native=s, roe_corner=c))
        elif via == "rotated_from_roe_corner":
            out = reg_out(call_res(lambda: aa.Layout2D.rotated_from_roe_corner(roe_corner=c, shape_native=s, serial_overscan=r).serial_overscan))
        else:
            out = reg_out(call_res(lambda: aa.Layout2D(shape_2d=s, serial_prescan=r).new_rotated_from(roe_corner=c).serial_prescan))
        coq = f"KRotRegion {copt(r, creg)} {creg(s)} {creg(c)} {cres(out, lambda v: copt(v, creg))}"
    elif op == "rotarray":
        m, c = np.array(inp["m"], dtype=float), tuple(inp["c"])
        if inp["via"] == "util":
            r = layout_util.rotate_array_via_roe_corner_from(array=m, roe_corner=c)
        else:
            arr = aa.Array2D(values=m, mask=aa.Mask2D.all_false(shape_native=m.shape, pixel_scales=1.0),
                             header=aa.Header(original_roe_corner=c), store_native=True)
            r = arr.original_orientation
        out = None if r is None else [[int(x) for x in row] for row in np.asarray(r)]
        coq = f"KRotArray {carr(inp['m'])} {creg(c)} {copt(out, carr)}"
    elif op == "commute":
        m, r, c = np.array(inp["m"], dtype=float), tuple(inp["r"]), tuple(inp["c"])
        shape = m.shape
        mr = layout_util.rotate_array_via_roe_corner_from(array=m, roe_corner=c)
        if inp["via"] == "slice":
            rr = layout_util.rotate_region_via_roe_corner_from(region=r, shape_native=shape, roe_corner=c)
            sl = mr[rr.slice]
        else:
            lay = aa.Layout2D.rotated_from_roe_corner(roe_corner=c, shape_native=shape, parallel_overscan=r)
            arr = aa.Array2D.no_mask(values=mr, pixel_scales=1.0)
            sl = lay.extract_parallel_overscan_array_2d_from(array=arr).native
        out = [[int(x) for x in row] for row in np.asarray(sl)]
        coq = f"KCommute {carr(inp['m'])} {creg(r)} {creg(c)} {carr(out)}"
    elif op == "twice":
        m, r, c = np.array(inp["m"], dtype=float), tuple(inp["r"]), tuple(inp["c"])
        shape = m.shape
        m2 = layout_util.rotate_array_via_roe_corner_from(
            array=layout_util.rotate_array_via_roe_corner_from(array=m, roe_corner=c), roe_corner=c)
        lay = aa.Layout2D(shape_2d=shape, serial_overscan=r).new_rotated_from(roe_corner=c).new_rotated_from(roe_corner=c)
        out = [[[int(x) for x in row] for row in np.asarray(m2)], [int(x) for x in lay.serial_overscan.region]]
        coq = f"KTwice {carr(inp['m'])} {creg(r)} {creg(c)} ({carr(out[0])}, {creg(out[1])})"
    else:
        raise ValueError(op)
    return {"coq": "(" + coq + ")", "out": out, "py_ok": None, "nontrivial": nontrivial, "kind": op}
