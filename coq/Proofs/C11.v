(* C11 -- lemmas.  Main result: under the discipline (checked on the effect summaries) the heap machine
   refines the value semantics, for every history, every policy and every quantity function. *)
From Coq Require Import ZArith List Bool Lia.
From PAV Require Import Base.Res Base.Check Model.C11.
Import ListNotations.

(* ------------------------------------------------------------------ heap *)
Lemma hget_app_old h l c : (c < length h)%nat -> hget (h ++ l) c = hget h c.
Proof. intros Hc; unfold hget; now rewrite app_nth1. Qed.
Lemma hget_app_new h v : hget (h ++ [v]) (length h) = v.
Proof. unfold hget. rewrite app_nth2 by lia. now rewrite Nat.sub_diag. Qed.
Lemma hset_app_new h v w : hset (h ++ [v]) (length h) w = h ++ [w].
Proof. induction h as [|x h IH]; cbn; [reflexivity | now rewrite IH]. Qed.
Lemma hset_length h c v : length (hset h c v) = length h.
Proof. revert c; induction h as [|x h IH]; intros [|c]; cbn; auto. Qed.
Lemma hget_hset_same h c v : (c < length h)%nat -> hget (hset h c v) c = v.
Proof. revert c; induction h as [|x h IH]; intros [|c] Hc; cbn in *; try lia; auto. apply IH; lia. Qed.
Lemma hget_hset_other h c d v : c <> d -> hget (hset h c v) d = hget h d.
Proof.
  revert c d; induction h as [|x h IH]; intros [|c] [|d] Hn; cbn; auto; try congruence.
  apply IH; congruence.
Qed.

Definition cell_ok (h : heap) (c : cell) (v : arr) : Prop := (c < length h)%nat /\ hget h c = v.
Lemma cell_ok_ext h l c v : cell_ok h c v -> cell_ok (h ++ l) c v.
Proof. intros [Hl Hv]; split; [rewrite app_length; lia | now rewrite hget_app_old]. Qed.
Lemma cell_ok_new h v : cell_ok (h ++ [v]) (length h) v.
Proof. split; [rewrite app_length; cbn; lia | apply hget_app_new]. Qed.

(* ------------------------------------------------------------------ lists *)
Lemma F2_nth {A B} (P : A -> B -> Prop) l1 l2 j : Forall2 P l1 l2 ->
  match nth_error l1 j, nth_error l2 j with
  | Some x, Some y => P x y
  | None, None => True
  | _, _ => False
  end.
Proof. intros H; revert j; induction H; intros [|j]; cbn; auto. apply IHForall2. Qed.
Lemma F2_update {A B} (P : A -> B -> Prop) l1 l2 j x y :
  Forall2 P l1 l2 -> nth_error l2 j = Some y -> P x y -> Forall2 P (update l1 j x) l2.
Proof.
  intros H; revert j; induction H; intros [|j] E Hp; cbn in *; try discriminate.
  - inversion E; subst. constructor; auto.
  - constructor; auto.
Qed.
Lemma F2_impl {A B} (P Q : A -> B -> Prop) l1 l2 : (forall a b, P a b -> Q a b) -> Forall2 P l1 l2 -> Forall2 Q l1 l2.
Proof. intros HPQ H; induction H; constructor; auto. Qed.
Lemma F2_snoc {A B} (P : A -> B -> Prop) l1 l2 x y : Forall2 P l1 l2 -> P x y -> Forall2 P (l1 ++ [x]) (l2 ++ [y]).
Proof. intros H Hp. apply Forall2_app; auto. Qed.
Lemma assoc_In q l c : assoc q l = Some c -> In (q, c) l.
Proof.
  induction l as [|[q' c'] l IH]; cbn; [discriminate|].
  destruct (Nat.eqb q q') eqn:E; intros H.
  - apply Nat.eqb_eq in E. inversion H; subst. now left.
  - right; auto.
Qed.

(* ------------------------------------------------------------------ PART A: simulation *)
Section A.
Context (qf : qfn).

Definition cache_ok (h : heap) (so : sobj) (ca : list (nat * cell)) : Prop :=
  Forall (fun qc => cell_ok h (snd qc) (qf (fst qc) (so_mask so) (so_val so))) ca.
Definition obj_ok (h : heap) (o : obj) (so : sobj) : Prop :=
  cell_ok h (o_cell o) (so_val so) /\ o_mask o = so_mask so /\ o_native o = so_native so /\ cache_ok h so (o_cache o).
Definition R (st : state) (sp : sstate) : Prop :=
  Forall2 (cell_ok (st_heap st)) (st_inputs st) (sp_inputs sp) /\
  Forall2 (obj_ok (st_heap st)) (st_objs st) (sp_objs sp).

Lemma cache_ok_ext h l so ca : cache_ok h so ca -> cache_ok (h ++ l) so ca.
Proof. unfold cache_ok; intros H; eapply Forall_impl; [|exact H]. intros a Ha; now apply cell_ok_ext. Qed.
Lemma obj_ok_ext h l o so : obj_ok h o so -> obj_ok (h ++ l) o so.
Proof.
  intros (A & B & C & D). split; [now apply cell_ok_ext|]. split; [exact B|]. split; [exact C|].
  now apply cache_ok_ext.
Qed.
Lemma inputs_ext h l ins vs : Forall2 (cell_ok h) ins vs -> Forall2 (cell_ok (h ++ l)) ins vs.
Proof. intros H; eapply F2_impl; [|exact H]. intros a b Hab; now apply cell_ok_ext. Qed.
Lemma objs_ext h l os sos : Forall2 (obj_ok h) os sos -> Forall2 (obj_ok (h ++ l)) os sos.
Proof. intros H; eapply F2_impl; [|exact H]. intros a b Hab; now apply obj_ok_ext. Qed.

Lemma R_st0 : R st0 sst0.
Proof. split; constructor. Qed.

Lemma read_cached_R st sp j q st1 r :
  R st sp -> read_cached qf st j q = (st1, r) ->
  R st1 sp /\ (exists l, st_heap st1 = st_heap st ++ l) /\
  match r with
  | Some (c, v) => exists so, nth_error (sp_objs sp) j = Some so /\ v = qf q (so_mask so) (so_val so)
                              /\ cell_ok (st_heap st1) c v
  | None => nth_error (sp_objs sp) j = None
  end.
Proof.
  intros [HI HO] Hr. unfold read_cached in Hr.
  pose proof (F2_nth _ _ _ j HO) as Hj.
  destruct (nth_error (st_objs st) j) as [o|] eqn:E1; destruct (nth_error (sp_objs sp) j) as [so|] eqn:E2;
    try contradiction.
  - destruct Hj as (Hc & Hm & Hn & Hca).
    destruct (assoc q (o_cache o)) as [c|] eqn:Ea.
    + inversion Hr; subst. split; [split; assumption|]. split; [exists []; now rewrite app_nil_r|].
      exists so. split; [reflexivity|].
      apply assoc_In in Ea. unfold cache_ok in Hca. rewrite Forall_forall in Hca. specialize (Hca _ Ea). cbn in Hca.
      destruct Hca as [Hl Hv]. split; [now rewrite Hv|]. split; [assumption|reflexivity].
    + unfold halloc in Hr. inversion Hr; subst; clear Hr. cbn [st_heap st_inputs st_objs].
      destruct Hc as [Hcl Hcv]. rewrite Hcv, Hm.
      split; [|split].
      * split; cbn [st_heap st_inputs st_objs]; [now apply inputs_ext|].
        eapply F2_update; [apply objs_ext; exact HO | exact E2 |].
        split; cbn [o_cell o_mask o_native o_cache]; [apply cell_ok_ext; now split|].
        split; [first [reflexivity | exact Hm]|]. split; [exact Hn|].
        constructor; [cbn; apply cell_ok_new | now apply cache_ok_ext].
      * now exists [qf q (so_mask so) (so_val so)].
      * exists so. split; [reflexivity|]. split; [reflexivity|]. apply cell_ok_new.
  - inversion Hr; subst. split; [split; assumption|]. split; [exists []; now rewrite app_nil_r|]. reflexivity.
Qed.

(* derive: a new object whose contents are v *)
Lemma derive_R st sp o so v m keeps changed :
  R st sp -> obj_ok (st_heap st) o so ->
  (keeps && changed && negb (is_nil (o_cache o)) = false) ->
  (changed = false -> v = so_val so /\ m = so_mask so) ->
  let r := derive st o v m keeps changed in
  R (fst (fst r)) (mkSState (sp_inputs sp) (sp_objs sp ++ [mkSObj v m (so_native so)])) /\ snd (fst r) = Ok v.
Proof.
  intros [HI HO] (Hc & Hm & Hn & Hca) Hinh Hsame. unfold derive, halloc. cbn.
  split; [|reflexivity]. split; cbn [st_heap st_inputs st_objs sp_inputs sp_objs].
  - rewrite <- app_assoc. now apply inputs_ext.
  - apply F2_snoc.
    + rewrite <- app_assoc. now apply objs_ext.
    + split; cbn [o_cell o_mask o_native o_cache so_val so_mask so_native].
      * replace (length (st_heap st ++ [hget (st_heap st) (o_cell o)]))
          with (length (st_heap st ++ [hget (st_heap st) (o_cell o)])) by reflexivity.
        apply cell_ok_new.
      * split; [reflexivity|]. split; [exact Hn|].
        destruct keeps; [|constructor].
        destruct changed.
        -- cbn in Hinh. destruct (o_cache o); [constructor | discriminate].
        -- destruct (Hsame eq_refl) as [-> ->]. rewrite <- app_assoc. unfold cache_ok in *. cbn.
           apply cache_ok_ext. exact Hca.
Qed.

Lemma values_masked_R p st o so n :
  obj_ok (st_heap st) o so -> (o_cell o < n)%nat ->
  forallb (fun c => Nat.leb n c) (snd (values_masked p st o)) = true ->
  fst (fst (values_masked p st o)) = st /\
  snd (fst (values_masked p st o)) = (if any_true (so_mask so) then maskmul (so_mask so) (so_val so) else so_val so).
Proof.
  intros (Hc & Hm & Hn & Hca) Hlt. unfold values_masked. destruct Hc as [Hl Hv]. rewrite Hm, Hv.
  destruct (any_true (so_mask so)); [|cbn; auto].
  destruct (p_values_masked_in_place p); cbn; [|auto].
  intros Hw. rewrite andb_true_r in Hw. apply Nat.leb_le in Hw. lia.
Qed.

Ltac floor_contra Hok :=
  cbn in Hok; repeat (apply andb_true_iff in Hok; destruct Hok as [Hok _]); cbn in Hok; apply Nat.leb_le in Hok; lia.
Ltac new_obj_goal :=
  split; [|reflexivity];
  split; cbn [st_heap st_inputs st_objs sp_inputs sp_objs];
  [ rewrite <- ?app_assoc; now apply inputs_ext
  | apply F2_snoc; [rewrite <- ?app_assoc; now apply objs_ext|];
    split; cbn [o_cell o_mask o_native o_cache so_val so_mask so_native]; [apply cell_ok_new|];
    repeat split; constructor ].

Lemma step_sim p st sp o :
  R st sp -> step_ok (snd (step qf p st o)) = true ->
  R (fst (fst (step qf p st o))) (fst (sstep qf sp o)) /\ snd (fst (step qf p st o)) = snd (sstep qf sp o).
Proof.
  intros HR Hok. pose proof HR as [HI HO].
  destruct o as [v | s mask isn sn nrm | j | j ks b | j keep | j | j keep | j q | j q | i | j | i mask | j | j m q | i | i].
  - (* ONew *)
    cbn. split; [|reflexivity]. split; cbn [st_heap st_inputs st_objs sp_inputs sp_objs].
    + apply F2_snoc; [now apply inputs_ext | apply cell_ok_new].
    + now apply objs_ext.
  - (* OConstruct *)
    cbn [step sstep] in *.
    assert (Hsrc : match (match s with
                          | SIn i => option_map (fun c => (c, isn)) (nth_error (st_inputs st) i)
                          | SObj j => option_map (fun ob => (o_cell ob, o_native ob)) (nth_error (st_objs st) j)
                          end),
                         (match s with
                          | SIn i => option_map (fun v => (v, isn)) (nth_error (sp_inputs sp) i)
                          | SObj j => option_map (fun so => (so_val so, so_native so)) (nth_error (sp_objs sp) j)
                          end) with
                   | Some (c0, n0), Some (v0, n0') => n0 = n0' /\ cell_ok (st_heap st) c0 v0
                   | None, None => True
                   | _, _ => False
                   end).
    { destruct s as [i|j].
      - pose proof (F2_nth _ _ _ i HI) as Hi.
        destruct (nth_error (st_inputs st) i), (nth_error (sp_inputs sp) i); cbn; try contradiction; auto.
      - pose proof (F2_nth _ _ _ j HO) as Hj.
        destruct (nth_error (st_objs st) j), (nth_error (sp_objs sp) j); cbn; try contradiction; auto.
        destruct Hj as (Hc & _ & Hn & _). auto. }
    destruct (match s with
              | SIn i => option_map (fun c => (c, isn)) (nth_error (st_inputs st) i)
              | SObj j => option_map (fun ob => (o_cell ob, o_native ob)) (nth_error (st_objs st) j)
              end) as [[c0 n0]|];
    destruct (match s with
              | SIn i => option_map (fun v => (v, isn)) (nth_error (sp_inputs sp) i)
              | SObj j => option_map (fun so => (so_val so, so_native so)) (nth_error (sp_objs sp) j)
              end) as [[v0 n0']|]; try contradiction; [|cbn; auto].
    destruct Hsrc as [<- [Hl Hv]].
    destruct (p_construct_copies p) eqn:Ecp; unfold halloc in *.
    + (* copy first *)
      rewrite hget_app_new, Hv in *.
      destruct (negb (Nat.eqb (length v0) (if n0 then length mask else count_false mask))) eqn:Echk.
      * cbn. split; [|reflexivity]. split; cbn [st_heap st_inputs st_objs]; [now apply inputs_ext | now apply objs_ext].
      * destruct n0; destruct sn; destruct nrm as [qn|]; cbn [Bool.eqb fst snd] in *;
          rewrite ?hset_app_new, ?hget_app_new in *; rewrite ?hset_app_new, ?hget_app_new in *;
          new_obj_goal.
    + (* no copy: the caller's cell is used *)
      rewrite Hv in *.
      destruct (negb (Nat.eqb (length v0) (if n0 then length mask else count_false mask))) eqn:Echk.
      * cbn. split; [|reflexivity]. exact HR.
      * destruct n0.
        -- (* in-place write into an existing cell: excluded by the discipline *)
           exfalso. destruct sn; destruct nrm as [qn|]; floor_contra Hok.
        -- destruct sn; cbn [Bool.eqb] in *.
           ++ destruct nrm as [qn|]; cbn [fst snd] in *; rewrite ?hset_app_new, ?hget_app_new in *; rewrite ?Hv in *.
              ** cbn. rewrite ?hget_app_new. split; [|reflexivity].
                 split; cbn [st_heap st_inputs st_objs sp_inputs sp_objs]; [now apply inputs_ext|].
                 apply F2_snoc; [now apply objs_ext|]. split; cbn; [apply cell_ok_new|]. repeat split; constructor.
              ** cbn. rewrite ?hget_app_new. split; [|reflexivity].
                 split; cbn [st_heap st_inputs st_objs sp_inputs sp_objs]; [now apply inputs_ext|].
                 apply F2_snoc; [now apply objs_ext|]. split; cbn; [apply cell_ok_new|]. repeat split; constructor.
           ++ destruct nrm as [qn|].
              ** (* Kernel2D(values=<slim caller array>, normalize=True) without the copy: the in-place normalisation hits the
                    caller's cell -- excluded by the discipline *)
                 exfalso. floor_contra Hok.
              ** cbn. rewrite Hv. split; [|reflexivity].
                 split; cbn [st_heap st_inputs st_objs sp_inputs sp_objs]; [assumption|].
                 apply F2_snoc; [assumption|]. split; cbn; [now split|]. repeat split; constructor.
  - (* OAlias *)
    cbn [step sstep] in *. pose proof (F2_nth _ _ _ j HO) as Hj.
    destruct (nth_error (st_objs st) j) as [ob|], (nth_error (sp_objs sp) j) as [so|]; try contradiction; [|cbn; auto].
    destruct Hj as ([Hl Hv] & Hm & Hn & Hca). cbn. split; [|now rewrite Hv].
    split; cbn [st_heap st_inputs st_objs sp_inputs sp_objs]; [assumption|].
    apply F2_snoc; [assumption|]. destruct so as [sv sm sn']; cbn in *.
    split; cbn; [now split|]. repeat split; auto. constructor.
  - (* OArith *)
    cbn [step sstep] in *. pose proof (F2_nth _ _ _ j HO) as Hj.
    destruct (nth_error (st_objs st) j) as [ob|], (nth_error (sp_objs sp) j) as [so|]; try contradiction; [|cbn; auto].
    pose proof Hj as ([Hl Hv] & Hm & Hn & Hca). rewrite Hv, Hm in *.
    apply derive_R; auto; [|discriminate].
    unfold derive, halloc in Hok. cbn in Hok. now apply negb_true_iff in Hok.
  - (* OSlice *)
    cbn [step sstep] in *. pose proof (F2_nth _ _ _ j HO) as Hj.
    destruct (nth_error (st_objs st) j) as [ob|], (nth_error (sp_objs sp) j) as [so|]; try contradiction; [|cbn; auto].
    pose proof Hj as ([Hl Hv] & Hm & Hn & Hca). rewrite Hv, Hm in *.
    apply derive_R; auto; [|discriminate].
    unfold derive, halloc in Hok. cbn in Hok. now apply negb_true_iff in Hok.
  - (* OCopy *)
    cbn [step sstep] in *. pose proof (F2_nth _ _ _ j HO) as Hj.
    destruct (nth_error (st_objs st) j) as [ob|], (nth_error (sp_objs sp) j) as [so|]; try contradiction; [|cbn; auto].
    pose proof Hj as ([Hl Hv] & Hm & Hn & Hca). rewrite Hv, Hm in *.
    destruct so as [sv sm sn']; cbn [so_val so_mask so_native] in *.
    apply (derive_R st sp ob (mkSObj sv sm sn') sv sm true false); auto.
  - (* OTrim *)
    cbn [step sstep] in *. pose proof (F2_nth _ _ _ j HO) as Hj.
    destruct (nth_error (st_objs st) j) as [ob|], (nth_error (sp_objs sp) j) as [so|]; try contradiction; [|cbn; auto].
    pose proof Hj as ([Hl Hv] & Hm & Hn & Hca). rewrite Hv, Hm, Hn in *.
    apply derive_R; auto; [|discriminate].
    unfold derive, halloc in Hok. cbn in Hok. now apply negb_true_iff in Hok.
  - (* ORead *)
    cbn [step sstep] in *.
    destruct (read_cached qf st j q) as [st1 r] eqn:Er.
    destruct (read_cached_R _ _ _ _ _ _ HR Er) as (HR1 & _ & Hr).
    destruct r as [[c v]|].
    + destruct Hr as (so & -> & -> & _). cbn. auto.
    + rewrite Hr. cbn. auto.
  - (* OPlain *)
    cbn [step sstep] in *. pose proof (F2_nth _ _ _ j HO) as Hj.
    destruct (nth_error (st_objs st) j) as [ob|], (nth_error (sp_objs sp) j) as [so|]; try contradiction; [|cbn; auto].
    destruct Hj as ([Hl Hv] & Hm & Hn & Hca). cbn. rewrite Hv, Hm. auto.
  - (* OPeekIn *)
    cbn [step sstep] in *. pose proof (F2_nth _ _ _ i HI) as Hi.
    destruct (nth_error (st_inputs st) i) as [c|], (nth_error (sp_inputs sp) i) as [v|]; try contradiction; [|cbn; auto].
    destruct Hi as [Hl Hv]. cbn. rewrite Hv. auto.
  - (* OPeekObj *)
    cbn [step sstep] in *. pose proof (F2_nth _ _ _ j HO) as Hj.
    destruct (nth_error (st_objs st) j) as [ob|], (nth_error (sp_objs sp) j) as [so|]; try contradiction; [|cbn; auto].
    destruct Hj as ([Hl Hv] & Hm & Hn & Hca). cbn. rewrite Hv. auto.
  - (* OValued *)
    cbn [step sstep] in *. pose proof (F2_nth _ _ _ i HI) as Hi.
    destruct (nth_error (st_inputs st) i) as [c|], (nth_error (sp_inputs sp) i) as [v|]; try contradiction; [|cbn; auto].
    destruct Hi as [Hl Hv]. cbn. rewrite Hv. split; [|reflexivity].
    split; cbn [st_heap st_inputs st_objs sp_inputs sp_objs]; [assumption|].
    apply F2_snoc; [assumption|]. split; cbn; [now split|]. repeat split; constructor.
  - (* OValuesMasked *)
    cbn [step sstep] in *. pose proof (F2_nth _ _ _ j HO) as Hj.
    destruct (nth_error (st_objs st) j) as [ob|], (nth_error (sp_objs sp) j) as [so|]; try contradiction; [|cbn; auto].
    assert (Hlt : (o_cell ob < length (st_heap st))%nat) by (destruct Hj as [[? _] _]; assumption).
    pose proof (values_masked_R p st ob so (length (st_heap st)) Hj Hlt) as Hvm.
    destruct (values_masked p st ob) as [[st1 v] w]. cbn in *.
    unfold step_ok in Hok. cbn in Hok. rewrite andb_true_r in Hok. destruct (Hvm Hok) as [-> ->]. auto.
  - (* OMapRecon *)
    cbn [step sstep] in *. pose proof (F2_nth _ _ _ j HO) as Hj.
    destruct (nth_error (st_objs st) j) as [ob|], (nth_error (sp_objs sp) j) as [so|]; try contradiction; [|cbn; auto].
    destruct (read_cached qf st m q) as [st1 r] eqn:Er.
    destruct (read_cached_R _ _ _ _ _ _ HR Er) as (HR1 & [l Hext] & Hr).
    destruct r as [[cm vm]|]; [|rewrite Hr; cbn; auto].
    destruct Hr as (sm & Hsm & -> & [Hcl Hcv]). rewrite Hsm.
    assert (Hob1 : obj_ok (st_heap st1) ob so) by (rewrite Hext; now apply obj_ok_ext).
    assert (Hlt : (o_cell ob < length (st_heap st1))%nat) by (destruct Hob1 as [[? _] _]; assumption).
    pose proof Hob1 as (_ & Hm & _ & _). rewrite Hm in *.
    destruct st1 as [h1 ins1 objs1]. cbn [st_heap st_inputs st_objs] in *.
    destruct (any_true (so_mask so)) eqn:Eany.
    + destruct (p_maprecon_copies p); unfold halloc in *.
      * rewrite hget_app_new, hset_app_new in *. rewrite Hcv in *.
        set (zc := zero_cols (so_mask so) (qf q (so_mask sm) (so_val sm))) in *.
        assert (Hob3 : obj_ok (st_heap (mkState (h1 ++ [zc]) ins1 objs1)) ob so) by (cbn [st_heap]; now apply obj_ok_ext).
        pose proof (values_masked_R p (mkState (h1 ++ [zc]) ins1 objs1) ob so (length h1) Hob3 Hlt) as Hvm.
        destruct (values_masked p (mkState (h1 ++ [zc]) ins1 objs1) ob) as [[st4 v] w'].
        cbn [fst snd e_writes e_floor e_inherit step_ok app forallb] in *.
        unfold step_ok in Hok. cbn in Hok. rewrite andb_true_r in Hok. apply andb_true_iff in Hok. destruct Hok as [_ Hok].
        destruct (Hvm Hok) as [-> ->]. cbn [st_heap]. rewrite hget_app_new. rewrite Eany.
        split; [|reflexivity]. destruct HR1 as [HI1 HO1].
        split; cbn [st_heap st_inputs st_objs] in *; [now apply inputs_ext | now apply objs_ext].
      * exfalso.
        destruct (values_masked p (mkState (hset h1 cm (zero_cols (so_mask so) (hget h1 cm))) ins1 objs1) ob) as [[st4 v] w'].
        floor_contra Hok.
    + pose proof (values_masked_R p (mkState h1 ins1 objs1) ob so (length h1) Hob1 Hlt) as Hvm.
      destruct (values_masked p (mkState h1 ins1 objs1) ob) as [[st4 v] w'].
      cbn [fst snd e_writes e_floor e_inherit step_ok app forallb] in *.
      unfold step_ok in Hok. cbn in Hok. rewrite andb_true_r in Hok.
      destruct (Hvm Hok) as [-> ->]. cbn [st_heap]. rewrite Hcv, Eany. split; [exact HR1 | reflexivity].
  - (* OInterf *)
    cbn [step sstep] in *. pose proof (F2_nth _ _ _ i HI) as Hi.
    destruct (nth_error (st_inputs st) i) as [c|], (nth_error (sp_inputs sp) i) as [v|]; try contradiction; [|cbn; auto].
    destruct Hi as [Hl Hv].
    destruct (p_interf_mutates_settings p); cbn in *; [|auto].
    exfalso. floor_contra Hok.
  - (* OImaging *)
    cbn [step sstep] in *. pose proof (F2_nth _ _ _ i HI) as Hi.
    destruct (nth_error (st_inputs st) i) as [c|], (nth_error (sp_inputs sp) i) as [v|]; try contradiction; [|cbn; auto].
    destruct Hi as [Hl Hv]. cbn. rewrite Hv. auto.
Qed.
End A.

(* ------------------------------------------------------------------ effect summaries are sound *)
Lemma read_cached_heap qf st j q : exists l, st_heap (fst (read_cached qf st j q)) = st_heap st ++ l.
Proof.
  unfold read_cached. destruct (nth_error (st_objs st) j) as [o|]; [|exists []; now rewrite app_nil_r].
  destruct (assoc q (o_cache o)); [exists []; now rewrite app_nil_r|].
  unfold halloc. cbn. eexists; reflexivity.
Qed.

Lemma values_masked_heap p st o c :
  hget (st_heap (fst (fst (values_masked p st o)))) c <> hget (st_heap st) c -> In c (snd (values_masked p st o)).
Proof.
  unfold values_masked. destruct (any_true (o_mask o)); [|cbn [fst snd st_heap]; congruence].
  destruct (p_values_masked_in_place p); cbn [fst snd st_heap]; [|congruence].
  intros H. destruct (Nat.eq_dec (o_cell o) c) as [E|E]; [now left|].
  rewrite hget_hset_other in H by exact E. congruence.
Qed.

Ltac sc := cbn [fst snd st_heap st_inputs st_objs e_writes eff0 bad halloc].
Lemma effects_sound qf p st o c :
  (c < length (st_heap st))%nat ->
  hget (st_heap (fst (fst (step qf p st o)))) c <> hget (st_heap st) c ->
  In c (e_writes (snd (step qf p st o))).
Proof.
  intros Hc.
  destruct o as [v | s mask isn sn nrm | j | j ks b | j keep | j | j keep | j q | j q | i | j | i mask | j | j m q | i | i];
    cbn [step].
  - sc. rewrite hget_app_old by exact Hc. congruence.
  - destruct (match s with
              | SIn i => option_map (fun c => (c, isn)) (nth_error (st_inputs st) i)
              | SObj j => option_map (fun ob => (o_cell ob, o_native ob)) (nth_error (st_objs st) j)
              end) as [[c0 n0]|]; [|sc; congruence].
    destruct (p_construct_copies p); unfold halloc.
    + rewrite hget_app_new.
      destruct (negb (Nat.eqb (length (hget (st_heap st) c0)) (if n0 then length mask else count_false mask))).
      * sc. rewrite hget_app_old by exact Hc. congruence.
      * destruct n0, sn, nrm as [qn|]; cbn [Bool.eqb fst snd st_heap e_writes]; rewrite ?hset_app_new, ?hget_app_new;
          cbn [fst snd st_heap e_writes]; rewrite ?hset_app_new, ?hget_app_new; cbn [fst snd st_heap e_writes];
          rewrite <- ?app_assoc, ?hget_app_old by exact Hc; try congruence.
    + destruct (negb (Nat.eqb (length (hget (st_heap st) c0)) (if n0 then length mask else count_false mask))).
      * sc. congruence.
      * destruct n0, sn, nrm as [qn|]; cbn [Bool.eqb fst snd st_heap e_writes app].
        all: rewrite ?hset_app_new; cbn [fst snd st_heap e_writes app]; intros H;
             first [ exfalso; apply H; rewrite ?hget_app_old by (rewrite ?hset_length; exact Hc); reflexivity
                   | destruct (Nat.eq_dec c0 c) as [E|E]; [subst; cbn; auto|];
                     exfalso; apply H; rewrite ?hget_app_old by (rewrite ?hset_length; exact Hc);
                     rewrite ?hget_hset_other by exact E; reflexivity ].
  - destruct (nth_error (st_objs st) j); sc; congruence.
  - destruct (nth_error (st_objs st) j); [|sc; congruence]. unfold derive, halloc; sc.
    rewrite <- app_assoc, hget_app_old by exact Hc. congruence.
  - destruct (nth_error (st_objs st) j); [|sc; congruence]. unfold derive, halloc; sc.
    rewrite <- app_assoc, hget_app_old by exact Hc. congruence.
  - destruct (nth_error (st_objs st) j); [|sc; congruence]. unfold derive, halloc; sc.
    rewrite <- app_assoc, hget_app_old by exact Hc. congruence.
  - destruct (nth_error (st_objs st) j); [|sc; congruence]. unfold derive, halloc; sc.
    rewrite <- app_assoc, hget_app_old by exact Hc. congruence.
  - destruct (read_cached_heap qf st j q) as [l Hl].
    destruct (read_cached qf st j q) as [st1 [[c1 v]|]]; cbn [fst snd st_heap st_inputs st_objs e_writes eff0 bad] in *; rewrite Hl, hget_app_old by exact Hc; congruence.
  - destruct (nth_error (st_objs st) j); sc; congruence.
  - destruct (nth_error (st_inputs st) i); sc; congruence.
  - destruct (nth_error (st_objs st) j); sc; congruence.
  - destruct (nth_error (st_inputs st) i); sc; congruence.
  - destruct (nth_error (st_objs st) j) as [ob|]; [|sc; congruence].
    pose proof (values_masked_heap p st ob c) as Hv.
    destruct (values_masked p st ob) as [[st1 v] w]. cbn [fst snd st_heap st_inputs st_objs e_writes eff0 bad] in *. exact Hv.
  - destruct (nth_error (st_objs st) j) as [ob|]; [|sc; congruence].
    destruct (read_cached_heap qf st m q) as [l Hl].
    destruct (read_cached qf st m q) as [st1 [[cm vm]|]]; cbn [fst] in Hl; [|sc; rewrite Hl, hget_app_old by exact Hc; congruence].
    destruct st1 as [h1 ins1 objs1]. cbn [st_heap st_inputs st_objs] in *. subst h1.
    assert (Hc1 : (c < length (st_heap st ++ l))%nat) by (rewrite app_length; lia).
    destruct (any_true (o_mask ob)).
    + destruct (p_maprecon_copies p); unfold halloc.
      * rewrite hget_app_new, hset_app_new.
        match goal with |- context [values_masked p ?S ob] => pose proof (values_masked_heap p S ob c) as Hv;
          destruct (values_masked p S ob) as [[st4 v] w'] end.
        cbn [fst snd st_heap e_writes] in *. intros H. apply in_or_app. right. apply Hv.
        rewrite hget_app_old by exact Hc1. rewrite hget_app_old by exact Hc. exact H.
      * match goal with |- context [values_masked p ?S ob] => pose proof (values_masked_heap p S ob c) as Hv;
          destruct (values_masked p S ob) as [[st4 v] w'] end.
        cbn [fst snd st_heap e_writes] in *. intros H.
        destruct (Nat.eq_dec cm c) as [E|E]; [left; exact E|]. right. apply Hv.
        rewrite hget_hset_other by exact E. rewrite hget_app_old by exact Hc. exact H.
    + match goal with |- context [values_masked p ?S ob] => pose proof (values_masked_heap p S ob c) as Hv;
        destruct (values_masked p S ob) as [[st4 v] w'] end.
      cbn [fst snd st_heap e_writes app] in *. intros H. apply Hv. rewrite hget_app_old by exact Hc. exact H.
  - destruct (nth_error (st_inputs st) i) as [c1|]; [|sc; congruence].
    destruct (p_interf_mutates_settings p); sc; [|congruence].
    intros H. destruct (Nat.eq_dec c1 c) as [E|E]; [now left|]. rewrite hget_hset_other in H by exact E. congruence.
  - destruct (nth_error (st_inputs st) i); sc; congruence.
Qed.

(* ------------------------------------------------------------------ histories *)
Section Hist.
Context (qf : qfn).

Lemma run_sim p ops : forall st sp, R qf st sp ->
  snd (fst (run qf p st ops)) = true ->
  fst (fst (run qf p st ops)) = fst (srun qf sp ops) /\ R qf (snd (run qf p st ops)) (snd (srun qf sp ops)).
Proof.
  induction ops as [|o t IH]; intros st sp HR Hok; cbn in *; [auto|].
  destruct (step qf p st o) as [[st1 ob] e] eqn:Es.
  destruct (run qf p st1 t) as [[l ok] st2] eqn:Er.
  destruct (sstep qf sp o) as [sp1 ob'] eqn:Ess.
  destruct (srun qf sp1 t) as [l' sp2] eqn:Esr.
  cbn in *. apply andb_true_iff in Hok. destruct Hok as [Hok1 Hok2].
  pose proof (step_sim qf p st sp o HR) as Hs. rewrite Es, Ess in Hs. cbn in Hs. destruct (Hs Hok1) as [HR1 ->].
  specialize (IH st1 sp1 HR1). rewrite Er, Esr in IH. cbn in IH. destruct (IH Hok2) as [-> HR2]. auto.
Qed.

(* THE MAIN THEOREM: if every step of the history respects the discipline (read off its effect summary), every
   observation is the one of the value semantics *)
Lemma discipline_implies_purity p ops :
  run_ok qf p ops = true -> observations qf p ops = spec_observations qf ops.
Proof. intros H. apply (run_sim p ops st0 sst0 (R_st0 qf) H). Qed.

Lemma discipline_final_R p ops : run_ok qf p ops = true -> R qf (final qf p ops) (spec_final qf ops).
Proof. intros H. apply (run_sim p ops st0 sst0 (R_st0 qf) H). Qed.

(* a safe policy respects the discipline at every step, whatever the state *)
Lemma safe_step_ok p st o : safe p = true -> step_ok (snd (step qf p st o)) = true.
Proof.
  destruct p as [a b c d e f]. unfold safe; cbn [p_construct_copies p_derive_keeps_cache p_trim_keeps_cache
    p_values_masked_in_place p_maprecon_copies p_interf_mutates_settings].
  intros H. destruct a, b, c, d, e, f; try discriminate. clear H.
  destruct o as [v | s mask isn sn nrm | j | j ks b | j keep | j | j keep | j q | j q | i | j | i mask | j | j m q | i | i];
    cbn [step p_construct_copies p_derive_keeps_cache p_trim_keeps_cache
         p_values_masked_in_place p_maprecon_copies p_interf_mutates_settings].
  - reflexivity.
  - destruct (match s with
              | SIn i => option_map (fun c => (c, isn)) (nth_error (st_inputs st) i)
              | SObj j => option_map (fun ob => (o_cell ob, o_native ob)) (nth_error (st_objs st) j)
              end) as [[c0 n0]|]; [|reflexivity].
    unfold halloc. rewrite hget_app_new.
    destruct (negb (Nat.eqb (length (hget (st_heap st) c0)) (if n0 then length mask else count_false mask))); [reflexivity|].
    destruct n0, sn, nrm as [qn|]; unfold step_ok; cbn; rewrite ?andb_true_r; repeat (apply andb_true_iff; split);
      try reflexivity; apply Nat.leb_le; repeat (rewrite ?hset_length, ?app_length); cbn; lia.
  - destruct (nth_error (st_objs st) j); reflexivity.
  - destruct (nth_error (st_objs st) j); reflexivity.
  - destruct (nth_error (st_objs st) j); reflexivity.
  - destruct (nth_error (st_objs st) j); reflexivity.
  - destruct (nth_error (st_objs st) j); reflexivity.
  - destruct (read_cached qf st j q) as [st1 [[c v]|]]; reflexivity.
  - destruct (nth_error (st_objs st) j); reflexivity.
  - destruct (nth_error (st_inputs st) i); reflexivity.
  - destruct (nth_error (st_objs st) j); reflexivity.
  - destruct (nth_error (st_inputs st) i); reflexivity.
  - destruct (nth_error (st_objs st) j) as [ob|]; [|reflexivity].
    unfold values_masked; cbn. destruct (any_true (o_mask ob)); reflexivity.
  - destruct (nth_error (st_objs st) j) as [ob|]; [|reflexivity].
    destruct (read_cached qf st m q) as [st1 [[cm vm]|]]; [|reflexivity].
    unfold values_masked, halloc; cbn.
    destruct (any_true (o_mask ob)); unfold step_ok; cbn; rewrite ?Nat.leb_refl; reflexivity.
  - destruct (nth_error (st_inputs st) i); reflexivity.
  - destruct (nth_error (st_inputs st) i); reflexivity.
Qed.

Lemma safe_run_ok p ops : safe p = true -> forall st, snd (fst (run qf p st ops)) = true.
Proof.
  intros Hs. induction ops as [|o t IH]; intros st; cbn; [reflexivity|].
  pose proof (safe_step_ok p st o Hs) as H1.
  destruct (step qf p st o) as [[st1 ob] e]. specialize (IH st1).
  destruct (run qf p st1 t) as [[l ok] st2]. cbn in *. now rewrite H1, IH.
Qed.

Lemma safe_implies_purity p ops : safe p = true -> observations qf p ops = spec_observations qf ops.
Proof. intros Hs. apply discipline_implies_purity. apply safe_run_ok; assumption. Qed.

(* the code of today outside the recorded finding class *)
Lemma faithful_step_ok st o : finding_class st o = false -> step_ok (snd (step qf faithful st o)) = true.
Proof.
  destruct o as [v | s mask isn sn nrm | j | j ks b | j keep | j | j keep | j q | j q | i | j | i mask | j | j m q | i | i];
    cbn [step finding_class faithful p_construct_copies p_derive_keeps_cache p_trim_keeps_cache
         p_values_masked_in_place p_maprecon_copies p_interf_mutates_settings]; intros Hf; try discriminate.
  - reflexivity.
  - destruct (match s with
              | SIn i => option_map (fun c => (c, isn)) (nth_error (st_inputs st) i)
              | SObj j => option_map (fun ob => (o_cell ob, o_native ob)) (nth_error (st_objs st) j)
              end) as [[c0 n0]|]; [|reflexivity].
    unfold halloc. rewrite hget_app_new.
    destruct (negb (Nat.eqb (length (hget (st_heap st) c0)) (if n0 then length mask else count_false mask))); [reflexivity|].
    destruct n0, sn, nrm as [qn|]; unfold step_ok; cbn; rewrite ?andb_true_r; repeat (apply andb_true_iff; split);
      try reflexivity; apply Nat.leb_le; repeat (rewrite ?hset_length, ?app_length); cbn; lia.
  - destruct (nth_error (st_objs st) j); reflexivity.
  - destruct (nth_error (st_objs st) j); reflexivity.
  - destruct (nth_error (st_objs st) j); reflexivity.
  - destruct (nth_error (st_objs st) j); reflexivity.
  - destruct (nth_error (st_objs st) j); reflexivity.
  - destruct (read_cached qf st j q) as [st1 [[c v]|]]; reflexivity.
  - destruct (nth_error (st_objs st) j); reflexivity.
  - destruct (nth_error (st_inputs st) i); reflexivity.
  - destruct (nth_error (st_objs st) j); reflexivity.
  - destruct (nth_error (st_inputs st) i); reflexivity.
  - unfold mask_any in Hf. destruct (nth_error (st_objs st) j) as [ob|]; [|reflexivity].
    unfold values_masked; cbn. rewrite Hf. reflexivity.
  - unfold mask_any in Hf. destruct (nth_error (st_objs st) j) as [ob|]; [|reflexivity].
    destruct (read_cached qf st m q) as [st1 [[cm vm]|]]; [|reflexivity].
    unfold values_masked, halloc; cbn. rewrite Hf. reflexivity.
  - destruct (nth_error (st_inputs st) i); reflexivity.
  - destruct (nth_error (st_inputs st) i); reflexivity.
Qed.

Lemma avoids_run_ok ops : forall st, run_avoids qf faithful st ops = true -> snd (fst (run qf faithful st ops)) = true.
Proof.
  induction ops as [|o t IH]; intros st Ha; cbn in *; [reflexivity|].
  apply andb_true_iff in Ha. destruct Ha as [Hf Ha]. apply negb_true_iff in Hf.
  pose proof (faithful_step_ok st o Hf) as H1.
  destruct (step qf faithful st o) as [[st1 ob] e]. cbn in *. specialize (IH st1 Ha).
  destruct (run qf faithful st1 t) as [[l ok] st2]. cbn in *. now rewrite H1, IH.
Qed.

Lemma faithful_pure_outside_findings ops :
  avoids_findings qf ops = true -> observations qf faithful ops = spec_observations qf ops.
Proof. intros Ha. apply discipline_implies_purity. now apply avoids_run_ok. Qed.

(* ---- consequences on the specification side ---- *)
Lemma query_no_state sp o : is_query o = true -> fst (sstep qf sp o) = sp.
Proof.
  destruct o; cbn; try discriminate; intros _.
  - destruct (nth_error (sp_objs sp) j); reflexivity.
  - destruct (nth_error (sp_objs sp) j); reflexivity.
  - destruct (nth_error (sp_inputs sp) i); reflexivity.
  - destruct (nth_error (sp_objs sp) j); reflexivity.
  - destruct (nth_error (sp_objs sp) j); reflexivity.
  - destruct (nth_error (sp_objs sp) j), (nth_error (sp_objs sp) m); reflexivity.
  - destruct (nth_error (sp_inputs sp) i); reflexivity.
  - destruct (nth_error (sp_inputs sp) i); reflexivity.
Qed.

Lemma srun_derivations ops : forall sp, snd (srun qf sp ops) = snd (srun qf sp (derivations ops)).
Proof.
  unfold derivations. induction ops as [|o t IH]; intros sp; cbn [filter srun]; [reflexivity|].
  destruct (is_query o) eqn:Eq; cbn [negb].
  - pose proof (query_no_state sp o Eq) as Hq. destruct (sstep qf sp o) as [sp1 ob]. cbn in Hq. subst sp1.
    rewrite <- IH. destruct (srun qf sp t) as [l sp2]. reflexivity.
  - cbn [srun]. destruct (sstep qf sp o) as [sp1 ob]. specialize (IH sp1).
    destruct (srun qf sp1 t) as [l sp2].
    destruct (srun qf sp1 (filter (fun o0 : op => negb (is_query o0)) t)) as [l' sp2']. cbn in *. exact IH.
Qed.

Lemma spec_inputs_are_news ops : forall sp, sp_inputs (snd (srun qf sp ops)) = sp_inputs sp ++ news ops.
Proof.
  induction ops as [|o t IH]; intros sp; cbn [srun]; [cbn; now rewrite app_nil_r|].
  destruct (sstep qf sp o) as [sp1 ob] eqn:Es. specialize (IH sp1).
  destruct (srun qf sp1 t) as [l sp2]. cbn [snd] in *. rewrite IH. clear IH.
  assert (Hin : sp_inputs sp1 = sp_inputs sp ++ (match o with ONew v => [v] | _ => [] end)).
  { destruct o; cbn in Es.
    - inversion Es; reflexivity.
    - destruct (match s with
                | SIn i => option_map (fun v => (v, is_native)) (nth_error (sp_inputs sp) i)
                | SObj j => option_map (fun so => (so_val so, so_native so)) (nth_error (sp_objs sp) j)
                end) as [[v n0]|]; [|inversion Es; now rewrite app_nil_r].
      destruct (negb (Nat.eqb (length v) (if n0 then length mask else count_false mask))); inversion Es; cbn; now rewrite app_nil_r.
    - destruct (nth_error (sp_objs sp) j); inversion Es; cbn; now rewrite app_nil_r.
    - destruct (nth_error (sp_objs sp) j); inversion Es; cbn; now rewrite app_nil_r.
    - destruct (nth_error (sp_objs sp) j); inversion Es; cbn; now rewrite app_nil_r.
    - destruct (nth_error (sp_objs sp) j); inversion Es; cbn; now rewrite app_nil_r.
    - destruct (nth_error (sp_objs sp) j); inversion Es; cbn; now rewrite app_nil_r.
    - destruct (nth_error (sp_objs sp) j); inversion Es; cbn; now rewrite app_nil_r.
    - destruct (nth_error (sp_objs sp) j); inversion Es; cbn; now rewrite app_nil_r.
    - destruct (nth_error (sp_inputs sp) i); inversion Es; cbn; now rewrite app_nil_r.
    - destruct (nth_error (sp_objs sp) j); inversion Es; cbn; now rewrite app_nil_r.
    - destruct (nth_error (sp_inputs sp) i); inversion Es; cbn; now rewrite app_nil_r.
    - destruct (nth_error (sp_objs sp) j); inversion Es; cbn; now rewrite app_nil_r.
    - destruct (nth_error (sp_objs sp) j), (nth_error (sp_objs sp) m); inversion Es; cbn; now rewrite app_nil_r.
    - destruct (nth_error (sp_inputs sp) i); inversion Es; cbn; now rewrite app_nil_r.
    - destruct (nth_error (sp_inputs sp) i); inversion Es; cbn; now rewrite app_nil_r. }
  rewrite Hin. destruct o; cbn; rewrite <- ?app_assoc, ?app_nil_r; reflexivity.
Qed.

(* caller-owned arrays keep the value they were created with, after any history *)
Lemma inputs_never_modified p ops :
  run_ok qf p ops = true ->
  map (hget (st_heap (final qf p ops))) (st_inputs (final qf p ops)) = news ops.
Proof.
  intros Hok. destruct (discipline_final_R p ops Hok) as [HI _].
  pose proof (spec_inputs_are_news ops sst0) as Hn. cbn in Hn. unfold spec_final in HI. rewrite Hn in HI.
  revert HI. generalize (news ops) (st_inputs (final qf p ops)). intros vs ins H.
  induction H as [|c v ins vs [_ Hv] _ IH]; cbn; [reflexivity|]. now rewrite Hv, IH.
Qed.

(* what an operation reports after a history *)
Definition obs_after (p : policy) (h : list op) (o : op) : obs := snd (fst (step qf p (final qf p h) o)).

(* ORDER / NUMBER INDEPENDENCE: two histories that differ only in their queries (which, how many, in which
   order, interleaved anywhere) give the same answer to any further operation *)
Lemma order_independence p h1 h2 o :
  safe p = true -> derivations h1 = derivations h2 -> obs_after p h1 o = obs_after p h2 o.
Proof.
  intros Hs Hd. unfold obs_after.
  pose proof (discipline_final_R p h1 (safe_run_ok p h1 Hs st0)) as R1.
  pose proof (discipline_final_R p h2 (safe_run_ok p h2 Hs st0)) as R2.
  destruct (step_sim qf p _ _ o R1 (safe_step_ok p _ o Hs)) as [_ ->].
  destruct (step_sim qf p _ _ o R2 (safe_step_ok p _ o Hs)) as [_ ->].
  unfold spec_final. now rewrite (srun_derivations h1), (srun_derivations h2), Hd.
Qed.

(* same, for the code of today, on histories outside the finding classes *)
Lemma order_independence_faithful h1 h2 o :
  avoids_findings qf (h1 ++ [o]) = true -> avoids_findings qf (h2 ++ [o]) = true ->
  derivations h1 = derivations h2 ->
  last (observations qf faithful (h1 ++ [o])) bad = last (observations qf faithful (h2 ++ [o])) bad.
Proof.
  intros A1 A2 Hd.
  rewrite (faithful_pure_outside_findings _ A1), (faithful_pure_outside_findings _ A2).
  unfold spec_observations.
  assert (Hlen : forall h sp, length (fst (srun qf sp h)) = length h).
  { induction h as [|x t IH]; intros sp; cbn; [reflexivity|]. destruct (sstep qf sp x) as [sp1 ob]. specialize (IH sp1).
    destruct (srun qf sp1 t); cbn in *; now rewrite IH. }
  assert (Hl : forall h sp, last (fst (srun qf sp (h ++ [o]))) bad = snd (sstep qf (snd (srun qf sp h)) o)).
  { induction h as [|x t IH]; intros sp; cbn.
    - destruct (sstep qf sp o) as [sp1 ob]. reflexivity.
    - destruct (sstep qf sp x) as [sp1 ob]. specialize (IH sp1).
      destruct (srun qf sp1 (t ++ [o])) as [l sp2] eqn:E1. destruct (srun qf sp1 t) as [l' sp2'] eqn:E2. cbn in *.
      rewrite <- IH. destruct l; [|reflexivity].
      exfalso. pose proof (Hlen (t ++ [o]) sp1) as Hx. rewrite E1 in Hx. cbn in Hx. rewrite app_length in Hx.
      cbn in Hx. lia. }
  rewrite !Hl. now rewrite (srun_derivations h1), (srun_derivations h2), Hd.
Qed.

(* every cached or plain read reports the pure function of the object's own contents *)
Lemma read_is_pure_function p h j q :
  safe p = true ->
  obs_after p h (ORead j q) =
  match nth_error (sp_objs (spec_final qf h)) j with
  | Some so => Ok (qf q (so_mask so) (so_val so))
  | None => bad
  end.
Proof.
  intros Hs. unfold obs_after.
  pose proof (discipline_final_R p h (safe_run_ok p h Hs st0)) as R1.
  destruct (step_sim qf p _ _ (ORead j q) R1 (safe_step_ok p _ _ Hs)) as [_ ->].
  cbn. destruct (nth_error (sp_objs (spec_final qf h)) j); reflexivity.
Qed.

Lemma srun_length h : forall sp, length (fst (srun qf sp h)) = length h.
Proof.
  induction h as [|x t IH]; intros sp; cbn; [reflexivity|]. destruct (sstep qf sp x) as [sp1 ob]. specialize (IH sp1).
  destruct (srun qf sp1 t); cbn in *; now rewrite IH.
Qed.
Lemma srun_last o h : forall sp, last (fst (srun qf sp (h ++ [o]))) bad = snd (sstep qf (snd (srun qf sp h)) o).
Proof.
  induction h as [|x t IH]; intros sp; cbn.
  - destruct (sstep qf sp o) as [sp1 ob]. reflexivity.
  - destruct (sstep qf sp x) as [sp1 ob]. specialize (IH sp1).
    destruct (srun qf sp1 (t ++ [o])) as [l sp2] eqn:E1. destruct (srun qf sp1 t) as [l' sp2'] eqn:E2. cbn in *.
    rewrite <- IH. destruct l; [|reflexivity].
    exfalso. pose proof (srun_length (t ++ [o]) sp1) as Hx. rewrite E1 in Hx. cbn in Hx. rewrite app_length in Hx.
    cbn in Hx. lia.
Qed.

Lemma faithful_inputs_never_modified ops :
  avoids_findings qf ops = true ->
  map (hget (st_heap (final qf faithful ops))) (st_inputs (final qf faithful ops)) = news ops.
Proof. intros Ha. apply inputs_never_modified. now apply avoids_run_ok. Qed.

Lemma read_is_pure_function_faithful h j q :
  avoids_findings qf (h ++ [ORead j q]) = true ->
  last (observations qf faithful (h ++ [ORead j q])) bad =
  match nth_error (sp_objs (spec_final qf h)) j with
  | Some so => Ok (qf q (so_mask so) (so_val so))
  | None => bad
  end.
Proof.
  intros Ha. rewrite (faithful_pure_outside_findings _ Ha). unfold spec_observations, spec_final.
  rewrite srun_last. cbn. destruct (nth_error (sp_objs (snd (srun qf sst0 h))) j); reflexivity.
Qed.
End Hist.

(* ------------------------------------------------------------------ refutations for PART A (concrete histories) *)
Definition qf_sum : qfn := fun q m a => [fold_right Z.add 0%Z a; Z.of_nat q].
Local Open Scope Z_scope.
Definition mask3 := [false; true; false].

(* D8 (present, known finding): MapperValued.values_masked zeroes the caller's `values` *)
Definition hist_D8 : list op := [ONew [5; 6; 7]; OValued 0 mask3; OValuesMasked 0; OPeekIn 0].
(* the policies of the seeded reverts of one repair each *)
Definition policy_D7 : policy := mkPolicy false false false true true false.
Definition policy_D9 : policy := mkPolicy true false false true false false.
Definition policy_D10 : policy := mkPolicy true true false true true false.
Definition policy_D11 : policy := mkPolicy true false true true true false.
Definition policy_D12 : policy := mkPolicy true false false true true true.
(* D10 (repaired): is_uniform / amplitudes read, then x * 2 reported the cached value of x *)
Definition hist_D10 : list op := [ONew [1; 2; 3]; OConstruct (SIn 0) [false; false; false] false false None; ORead 0 1; OArith 0 [2] 0; ORead 1 1].
(* D11 (repaired): grids read, then the trimmed dataset reported the untrimmed grids *)
Definition hist_D11 : list op :=
  [ONew [1; 2; 3; 4]; OConstruct (SIn 0) [false; false; false; false] true true None; OAlias 0; ORead 1 7;
   OTrim 1 [false; true; true; false]; ORead 2 7].
(* D12 (repaired): an interferometer inversion flipped use_w_tilde on the settings object it was given *)
Definition hist_D12 : list op := [ONew [1]; OImaging 0; OInterf 0; OImaging 0].
(* D7 (repaired): Grid2D(values=native) zeroed the caller's array *)
Definition hist_D7 : list op := [ONew [5; 6; 7]; OConstruct (SIn 0) mask3 true false None; OPeekIn 0].
(* D9 (repaired): mapped_reconstructed_image_from zeroed the cached mapping matrix *)
Definition qf_mm : qfn := fun q m a => [1; 0; 0; 0; 1; 0; 0; 0; 1].
Definition hist_D9 : list op :=
  [ONew [1; 2; 3]; OConstruct (SIn 0) [false; false; false] false false None; ONew [5; 6; 7]; OValued 1 mask3;
   OMapRecon 1 0 0; ORead 0 0].

Lemma purity_refuted_D8 : observations qf_sum faithful hist_D8 <> spec_observations qf_sum hist_D8
  /\ map (hget (st_heap (final qf_sum faithful hist_D8))) (st_inputs (final qf_sum faithful hist_D8)) <> news hist_D8.
Proof. split; vm_compute; discriminate. Qed.
Lemma purity_refuted_D10_revert : observations qf_sum policy_D10 hist_D10 <> spec_observations qf_sum hist_D10.
Proof. vm_compute; discriminate. Qed.
Lemma purity_refuted_D11_revert : observations qf_sum policy_D11 hist_D11 <> spec_observations qf_sum hist_D11.
Proof. vm_compute; discriminate. Qed.
Lemma purity_refuted_D12_revert : observations qf_sum policy_D12 hist_D12 <> spec_observations qf_sum hist_D12
  /\ map (hget (st_heap (final qf_sum policy_D12 hist_D12))) (st_inputs (final qf_sum policy_D12 hist_D12)) <> news hist_D12.
Proof. split; vm_compute; discriminate. Qed.
Lemma purity_refuted_D7_revert : observations qf_sum policy_D7 hist_D7 <> spec_observations qf_sum hist_D7.
Proof. vm_compute; discriminate. Qed.
Lemma purity_refuted_D9_revert : observations qf_mm policy_D9 hist_D9 <> spec_observations qf_mm hist_D9.
Proof. vm_compute; discriminate. Qed.
(* Kernel2D.__init__ normalises IN PLACE (`self._array[:] = ...`): without the eager copy of convert_array_2d the array it writes
   into is the caller's (a slim ndarray stored slim) or the source kernel's (`psf.normalized` = Kernel2D(values=self, normalize=True)) *)
Definition qf_norm : qfn := fun q m a => map (fun x => 10 * x) a.
Definition hist_norm_in : list op := [ONew [2; 2]; OConstruct (SIn 0) [false; false] false false (Some 5%nat); OPeekIn 0].
Definition hist_norm_obj : list op :=
  [ONew [2; 2]; OConstruct (SIn 0) [false; false] false false None; OConstruct (SObj 0) [false; false] false false (Some 5%nat); OPeekObj 0].
Lemma purity_refuted_normalize_without_copy :
  observations qf_norm policy_D7 hist_norm_in <> spec_observations qf_norm hist_norm_in /\
  map (hget (st_heap (final qf_norm policy_D7 hist_norm_in))) (st_inputs (final qf_norm policy_D7 hist_norm_in)) <> news hist_norm_in /\
  observations qf_norm policy_D7 hist_norm_obj <> spec_observations qf_norm hist_norm_obj /\
  observations qf_norm faithful hist_norm_in = spec_observations qf_norm hist_norm_in /\
  observations qf_norm faithful hist_norm_obj = spec_observations qf_norm hist_norm_obj /\
  nth 1 (observations qf_norm faithful hist_norm_in) bad = Ok [20; 20].
Proof. repeat split; vm_compute; discriminate. Qed.
(* the D8 history is in the finding class; the histories of the repaired sites are outside it and pure today *)
Lemma refutations_and_finding_class :
  avoids_findings qf_sum hist_D8 = false /\
  avoids_findings qf_sum hist_D7 = true /\ avoids_findings qf_mm hist_D9 = false /\
  avoids_findings qf_sum hist_D10 = true /\ avoids_findings qf_sum hist_D11 = true /\ avoids_findings qf_sum hist_D12 = true /\
  observations qf_sum faithful hist_D7 = spec_observations qf_sum hist_D7 /\
  observations qf_sum faithful hist_D10 = spec_observations qf_sum hist_D10 /\
  observations qf_sum faithful hist_D11 = spec_observations qf_sum hist_D11 /\
  observations qf_sum faithful hist_D12 = spec_observations qf_sum hist_D12.
Proof. vm_compute. repeat split. Qed.
Local Close Scope Z_scope.

(* ------------------------------------------------------------------ PART B *)
Section B.
Context (add : adder) (F H D U : arr).

Definition iinv (st : istate) : Prop :=
  (1 < length (i_heap st))%nat /\ hget (i_heap st) 0 = F /\ hget (i_heap st) 1 = D /\
  (forall c, i_cF st = Some c -> (1 < c < length (i_heap st))%nat /\ hget (i_heap st) c = F) /\
  (forall c, i_cFR st = Some c -> (1 < c < length (i_heap st))%nat /\ hget (i_heap st) c = add F H).

Lemma iinv0 : iinv (ist0 F D).
Proof. repeat split; cbn; try lia; try discriminate. Qed.

Lemma iread_F_inv pre st :
  iinv st -> let r := iread_F ifaithful pre F D U st in
  iinv (fst r) /\ i_cF (fst r) = Some (snd r) /\ i_cFR (fst r) = i_cFR st.
Proof.
  intros (Hl & H0 & H1 & HF & HFR). unfold iread_F.
  destruct (i_cF st) as [c|] eqn:Ec.
  - cbn. split; [|split; [exact Ec | reflexivity]]. split; [exact Hl|]. split; [exact H0|]. split; [exact H1|]. split; [|exact HFR].
    intros c0 Hc0. rewrite Ec in Hc0. apply HF. exact Hc0.
  - (* appending cells after the existing ones, the new last cell holding F *)
    assert (Hgen : forall l, iinv (mkIState ((i_heap st ++ l) ++ [F]) (Some (length (i_heap st ++ l))) (i_cFR st))).
    { intros l. unfold iinv. cbn [i_heap i_cF i_cFR].
      assert (Hlen : (length ((i_heap st ++ l) ++ [F]) = length (i_heap st) + length l + 1)%nat)
        by (rewrite !app_length; cbn; lia).
      split; [lia|].
      split; [rewrite <- app_assoc, hget_app_old by lia; exact H0|].
      split; [rewrite <- app_assoc, hget_app_old by lia; exact H1|]. split.
      - intros c Hc. inversion Hc; subst. split; [rewrite app_length; lia | apply hget_app_new].
      - intros c Hc. destruct (HFR c Hc) as [Hr Hv]. split; [lia|].
        rewrite <- app_assoc, hget_app_old by lia. exact Hv. }
    destruct pre; cbn [ifaithful ip_preload_copied ip_diag_copied]; unfold halloc; cbn [fst snd].
    + (* PNone *) specialize (Hgen []). rewrite app_nil_r in Hgen. split; [exact Hgen | split; reflexivity].
    + (* PCurv: a copy of cell 0 *) rewrite H0. specialize (Hgen []). rewrite app_nil_r in Hgen.
      split; [exact Hgen | split; reflexivity].
    + (* PDiag: a copy of cell 1, overwritten with U, then F in a new cell *)
      rewrite hset_app_new. specialize (Hgen [U]). split; [exact Hgen | split; reflexivity].
Qed.

Lemma istep_inv pre st q :
  iinv st -> iinv (fst (istep add ifaithful pre F H D U st q)) /\ snd (istep add ifaithful pre F H D U st q) = ispec add F H D q.
Proof.
  intros Hi. pose proof Hi as (Hl & H0 & H1 & HF & HFR). destruct q; cbn [istep ispec].
  - pose proof (iread_F_inv pre st Hi) as Hr. cbn zeta in Hr.
    destruct (iread_F ifaithful pre F D U st) as [st1 c]. cbn [fst snd] in *. destruct Hr as (Hi1 & Hc & _).
    split; [exact Hi1|]. destruct Hi1 as (_ & _ & _ & HF1 & _). now destruct (HF1 c Hc).
  - destruct (i_cFR st) as [c|] eqn:Ec.
    + cbn. split; [exact Hi|]. now destruct (HFR c eq_refl).
    + pose proof (iread_F_inv pre st Hi) as Hr. cbn zeta in Hr.
      destruct (iread_F ifaithful pre F D U st) as [st1 c]. cbn [fst snd] in *. destruct Hr as (Hi1 & Hc & HcFR).
      destruct Hi1 as (Hl1 & H01 & H11 & HF1 & HFR1). destruct (HF1 c Hc) as [Hcr Hcv].
      cbn [ifaithful ip_entry_deleted fst snd]. rewrite Hcv.
      split; [|apply hget_hset_same; lia].
      split; [cbn; rewrite hset_length; lia|]. cbn [i_heap i_cF i_cFR].
      split; [rewrite hget_hset_other by lia; exact H01|].
      split; [rewrite hget_hset_other by lia; exact H11|]. split; [discriminate|].
      intros c' Hc'. inversion Hc'; subst c'. rewrite hset_length. split; [lia | apply hget_hset_same; lia].
  - cbn. split; [exact Hi | exact H0].
  - cbn. split; [exact Hi | exact H1].
Qed.

Lemma irun_pure pre qs : forall st, iinv st -> irun add ifaithful pre F H D U st qs = map (ispec add F H D) qs.
Proof.
  induction qs as [|q t IH]; intros st Hi; cbn; [reflexivity|].
  pose proof (istep_inv pre st q Hi) as [Hi1 Hv].
  destruct (istep add ifaithful pre F H D U st q) as [st1 v]. cbn in *. now rewrite Hv, IH.
Qed.

Lemma inversion_reads_pure pre qs : irun add ifaithful pre F H D U (ist0 F D) qs = map (ispec add F H D) qs.
Proof. apply irun_pure, iinv0. Qed.
End B.

Definition vadd (a b : arr) : arr := map (fun xy => (fst xy + snd xy)%Z) (combine a b).
(* without the copy.copy of the preloaded matrix the caller's preload is overwritten *)
Lemma inversion_preload_alias_refuted :
  irun vadd (mkIPolicy false true true) PCurv [1; 2]%Z [10; 10]%Z [1; 0]%Z [1; 0]%Z (ist0 [1; 2]%Z [1; 0]%Z) [QFR; QPre]
  <> map (ispec vadd [1; 2]%Z [10; 10]%Z [1; 0]%Z) [QFR; QPre].
Proof. vm_compute; discriminate. Qed.
(* without `del self.__dict__["curvature_matrix"]` a later curvature_matrix read reports F + H *)
Lemma inversion_entry_kept_refuted :
  irun vadd (mkIPolicy true false true) PNone [1; 2]%Z [10; 10]%Z [1; 0]%Z [1; 0]%Z (ist0 [1; 2]%Z [1; 0]%Z) [QF; QFR; QF]
  <> map (ispec vadd [1; 2]%Z [10; 10]%Z [1; 0]%Z) [QF; QFR; QF].
Proof. vm_compute; discriminate. Qed.
(* D20 (repaired): without the copy.copy of the preloaded block-diagonal matrix the off-diagonal blocks are written
   into the caller's array: D = [[1,0],[0,4]], U = [[1,2],[0,4]], F = mirror U *)
Lemma inversion_preload_diag_alias_refuted :
  irun vadd (mkIPolicy true true false) PDiag [1; 2; 2; 4]%Z [10; 0; 0; 10]%Z [1; 0; 0; 4]%Z [1; 2; 0; 4]%Z
       (ist0 [1; 2; 2; 4]%Z [1; 0; 0; 4]%Z) [QF; QPreDiag]
  <> map (ispec vadd [1; 2; 2; 4]%Z [10; 0; 0; 10]%Z [1; 0; 0; 4]%Z) [QF; QPreDiag].
Proof. vm_compute; discriminate. Qed.

(* ------------------------------------------------------------------ PART C *)
Lemma rng_seeded_is_state_independent {S : Type} (init : Z -> S) (draw : S -> Z -> Z * S) (randint : S -> Z * S)
      (g1 g2 : S) (seed : Z) (counts : arr) :
  seed <> (-1)%Z -> poisson_noise init draw randint g1 seed counts = poisson_noise init draw randint g2 seed counts.
Proof.
  intros Hs. unfold poisson_noise, setup_random_seed. apply Z.eqb_neq in Hs. now rewrite Hs.
Qed.
Lemma rng_unseeded_depends_on_state :
  fst (poisson_noise lcg_init lcg_draw lcg_randint 1%Z (-1)%Z [4; 4; 4]%Z)
  <> fst (poisson_noise lcg_init lcg_draw lcg_randint 2%Z (-1)%Z [4; 4; 4]%Z).
Proof. vm_compute; discriminate. Qed.

(* ------------------------------------------------------------------ the non-vacuity example of Props/C11.v *)
Local Open Scope Z_scope.
Definition example_history : list op :=
  [ONew [5; 6; 7; 8]; OConstruct (SIn 0) [false; true; false; false] true false None; ORead 0 1; OArith 0 [2; 3] 1;
   ORead 1 1; OSlice 1 [true; false; true]; ORead 2 1; OConstruct (SIn 0) [false; false; false; false] true true None;
   OAlias 3; ORead 4 7; OTrim 4 [false; true; true; false]; ORead 5 7; OCopy 0; ORead 6 1;
   ONew [1; 2; 3]; OValued 1 [false; false; false]; OValuesMasked 7; OMapRecon 7 0 0; OPeekIn 1;
   ONew [1]; OImaging 2; OInterf 2; OImaging 2; OPeekIn 0;
   OConstruct (SObj 0) [false; true; false; false] false true None; OConstruct (SObj 8) [false; true; false; false] true false (Some 9%nat);
   OPeekObj 8; OPeekIn 0].
Local Close Scope Z_scope.
