(* C02 -- proofs (at ROps) about the CLASS layer generated in Gen/Gen_geometry.v: Mask2D constructors and the geometry they hand out,
   Grid2D.uniform / from_mask / derive_grid, Geometry2D methods on a Grid2D with its own mask, the native 3-D index routine,
   1-D counterparts, extent edges *)
From Coq Require Import ZArith Reals Lra Lia List Bool Psatz.
From PAV Require Import Base.NumOps Gen.Gen_geometry Model.C02 Model.C02x Proofs.C02 Proofs.C02r.
Import ListNotations.
Local Open Scope R_scope.

(* ------------------------------------------------------------------ lists: row-major coordinates *)
Lemma seqZ_length n : length (seqZ n) = Z.to_nat n.
Proof. unfold seqZ. now rewrite map_length, seq_length. Qed.
Lemma seqZ_nth n k : (k < Z.to_nat n)%nat -> nth k (seqZ n) 0%Z = Z.of_nat k.
Proof.
  intros Hk. unfold seqZ. change 0%Z with (Z.of_nat 0). rewrite map_nth, seq_nth by assumption. reflexivity.
Qed.
Lemma seqZ_of_nat_to_nat n : seqZ (Z.of_nat (Z.to_nat n)) = seqZ n.
Proof. unfold seqZ. now rewrite Nat2Z.id. Qed.

Lemma nth_flat_map_const {A B} (f : A -> list B) (l : list A) (n a b : nat) (d : B) (da : A) :
  (forall x, length (f x) = n) -> (b < n)%nat -> (a < length l)%nat ->
  nth (a * n + b) (flat_map f l) d = nth b (f (nth a l da)) d.
Proof.
  intros Hlen Hb. revert a. induction l as [|x l IH]; intros a Ha; [cbn in Ha; lia|].
  cbn [flat_map]. destruct a as [|a].
  - cbn [Nat.mul Nat.add nth]. rewrite app_nth1 by (rewrite Hlen; lia). reflexivity.
  - cbn [nth]. rewrite app_nth2 by (rewrite Hlen; lia). rewrite Hlen.
    replace (S a * n + b - n)%nat with (a * n + b)%nat by lia. apply IH. cbn in Ha. lia.
Qed.
Lemma length_flat_map_const {A B} (f : A -> list B) (l : list A) (n : nat) :
  (forall x, length (f x) = n) -> length (flat_map f l) = (length l * n)%nat.
Proof. intros Hlen. induction l as [|x l IH]; [reflexivity|]. cbn [flat_map length]. rewrite app_length, Hlen, IH. lia. Qed.

Lemma coords_length H W : length (coords H W) = (Z.to_nat H * Z.to_nat W)%nat.
Proof.
  unfold coords. rewrite (length_flat_map_const _ _ (Z.to_nat W)), seqZ_length; [reflexivity|].
  intros x. now rewrite map_length, seqZ_length.
Qed.
(* the k-th row-major coordinate, k = i * W + j *)
Lemma coords_nth H W i j : (0 <= i < H)%Z -> (0 <= j < W)%Z ->
  nth (Z.to_nat (i * W + j)) (coords H W) (0, 0)%Z = (i, j).
Proof.
  intros Hi Hj. unfold coords.
  replace (Z.to_nat (i * W + j)) with (Z.to_nat i * Z.to_nat W + Z.to_nat j)%nat by nia.
  rewrite (nth_flat_map_const _ _ (Z.to_nat W) _ _ _ 0%Z).
  - rewrite seqZ_nth by lia.
    rewrite nth_indep with (d' := (fun j0 => (Z.of_nat (Z.to_nat i), j0)) 0%Z) by (rewrite map_length, seqZ_length; lia).
    rewrite map_nth, seqZ_nth by lia. rewrite !Z2Nat.id by lia. reflexivity.
  - intros x. now rewrite map_length, seqZ_length.
  - lia.
  - rewrite seqZ_length. lia.
Qed.
Lemma coords_in H W p : In p (coords H W) -> (0 <= fst p < H)%Z /\ (0 <= snd p < W)%Z.
Proof.
  unfold coords. rewrite in_flat_map. intros [i [Hi Hp]]. rewrite in_map_iff in Hp. destruct Hp as [j [E Hj]]. subst p.
  apply seqZ_nonneg in Hi, Hj. split; assumption.
Qed.
(* the flat index i * W + j enumerates the row-major coordinates: 0, 1, ..., H W - 1 *)
Lemma coords_flat_index H W : (0 <= H)%Z -> (0 <= W)%Z -> map (fun p => (fst p * W + snd p)%Z) (coords H W) = seqZ (H * W).
Proof.
  intros HH HW. rewrite <- (Z2Nat.id H HH), <- (Z2Nat.id W HW). generalize (Z.to_nat H) (Z.to_nat W). clear. intros h w.
  apply (nth_ext _ _ 0%Z 0%Z).
  - rewrite map_length, coords_length, seqZ_length, !Nat2Z.id. lia.
  - intros k Hk. rewrite map_length, coords_length, !Nat2Z.id in Hk.
    assert (HWp : (0 < w)%nat) by (destruct w; lia).
    set (a := (k / w)%nat). set (b := (k mod w)%nat).
    assert (Ek : k = (a * w + b)%nat) by (unfold a, b; rewrite Nat.mul_comm; apply Nat.div_mod; lia).
    assert (Hb : (b < w)%nat) by (apply Nat.mod_upper_bound; lia).
    assert (Ha : (a < h)%nat) by (apply Nat.div_lt_upper_bound; [lia | rewrite Nat.mul_comm; exact Hk]).
    rewrite seqZ_nth by (rewrite <- Nat2Z.inj_mul, Nat2Z.id; exact Hk).
    change 0%Z with ((fun p : Z * Z => (fst p * Z.of_nat w + snd p)%Z) (0, 0)%Z) at 1. rewrite map_nth.
    assert (E2 : k = Z.to_nat (Z.of_nat a * Z.of_nat w + Z.of_nat b)) by (rewrite <- Nat2Z.inj_mul, <- Nat2Z.inj_add, Nat2Z.id; exact Ek).
    assert (En : nth k (coords (Z.of_nat h) (Z.of_nat w)) (0, 0)%Z = (Z.of_nat a, Z.of_nat b)) by (rewrite E2; apply coords_nth; lia).
    rewrite En. cbn [fst snd]. rewrite <- Nat2Z.inj_mul, <- Nat2Z.inj_add. f_equal. symmetry. exact Ek.
Qed.

(* ------------------------------------------------------------------ masks given by a predicate *)
Lemma rows_mask_of sh inside : rows (mask_of sh inside) = Z.of_nat (Z.to_nat (fst sh)).
Proof. unfold rows, mask_of. now rewrite map_length, seqZ_length. Qed.
Lemma cols_mask_of sh inside : (1 <= fst sh)%Z -> cols (mask_of sh inside) = Z.of_nat (Z.to_nat (snd sh)).
Proof.
  intros Hh. unfold cols, mask_of, seqZ. destruct (Z.to_nat (fst sh)) eqn:E; [lia|].
  cbn [seq map hd]. now rewrite !map_length, seq_length.
Qed.
Lemma coords_rows_cols_mask_of sh inside : coords (rows (mask_of sh inside)) (cols (mask_of sh inside)) = coords (fst sh) (snd sh).
Proof.
  destruct (Z_lt_le_dec (fst sh) 1) as [Hs|Hb].
  - rewrite rows_mask_of. unfold coords, seqZ. replace (Z.to_nat (fst sh)) with 0%nat by lia. reflexivity.
  - rewrite rows_mask_of, cols_mask_of by assumption. unfold coords. now rewrite !seqZ_of_nat_to_nat.
Qed.
Lemma unmasked_mask_of sh inside : unmasked (mask_of sh inside) = filter inside (coords (fst sh) (snd sh)).
Proof.
  unfold unmasked. rewrite coords_rows_cols_mask_of. apply filter_ext_in. intros [i j] Hp. apply coords_in in Hp. cbn [fst snd] in Hp.
  rewrite mask_of_get by tauto. now rewrite negb_involutive.
Qed.
Lemma shape_mask_of H W inside : (1 <= H)%Z -> (0 <= W)%Z -> (rows (mask_of (H, W) inside), cols (mask_of (H, W) inside)) = (H, W).
Proof. intros HH HW. rewrite rows_mask_of, cols_mask_of by (cbn; lia). cbn [fst snd]. f_equal; lia. Qed.
Lemma mshape_rows_cols m : mshape m = (rows m, cols m).
Proof. reflexivity. Qed.

Lemma map_const_repeat {A B} (c : B) (l : list A) : map (fun _ => c) l = repeat c (length l).
Proof. induction l as [|a l IH]; [reflexivity|]. cbn. now rewrite IH. Qed.
(* np.full(shape, False) is the mask given by the predicate `every pixel` *)
Lemma full2_false_mask_of sh : full2 false sh = mask_of sh (fun _ => true).
Proof.
  unfold full2, mask_of. cbn [negb]. rewrite (map_const_repeat false (seqZ (snd sh))), seqZ_length.
  rewrite (map_const_repeat _ (seqZ (fst sh))), seqZ_length. reflexivity.
Qed.
Lemma filter_true {A} (l : list A) : filter (fun _ => true) l = l.
Proof. induction l as [|a l IH]; [reflexivity|]. cbn. now rewrite IH. Qed.
Lemma unmasked_full2_false sh : unmasked (full2 false sh) = coords (fst sh) (snd sh).
Proof. rewrite full2_false_mask_of, unmasked_mask_of. apply filter_true. Qed.

(* ------------------------------------------------------------------ Mask2D constructors (class layer) *)
(* the object built by the public constructor: the documented shape evaluated with pixel centres measured from origin (0,0) --
   `origin` is stored in the object and does not enter the shape --, complemented when invert = True *)
Lemma Mask2D_all_false_obj sh s o inv : @Mask2D_all_false ROps sh s o inv = (mask_inv inv (mask_of sh (fun _ => true)), s, o).
Proof. unfold Mask2D_all_false, Mask2D_new, mask_inv. now rewrite full2_false_mask_of. Qed.
Lemma Mask2D_circular_obj H W r sy sx o cy cx inv : sy <> 0 -> sx <> 0 ->
  @Mask2D_circular ROps (H, W) r (sy, sx) o (cy, cx) inv = (mask_inv inv (mask_of (H, W) (@circ_inside ROps (H, W) (sy, sx) r (cy, cx))), (sy, sx), o).
Proof. intros Hy Hx. unfold Mask2D_circular, Mask2D_new, mask_inv. cbv zeta. now rewrite circular_is_spec. Qed.
Lemma Mask2D_annular_obj H W ri ro sy sx o cy cx inv : sy <> 0 -> sx <> 0 ->
  @Mask2D_circular_annular ROps (H, W) ri ro (sy, sx) o (cy, cx) inv =
  (mask_inv inv (mask_of (H, W) (@ann_inside ROps (H, W) (sy, sx) ri ro (cy, cx))), (sy, sx), o).
Proof. intros Hy Hx. unfold Mask2D_circular_annular, Mask2D_new, mask_inv. cbv zeta. now rewrite annular_is_spec. Qed.
Lemma Mask2D_anti_annular_obj H W ri ro ro2 sy sx o cy cx inv : sy <> 0 -> sx <> 0 ->
  @Mask2D_circular_anti_annular ROps (H, W) ri ro ro2 (sy, sx) o (cy, cx) inv =
  (mask_inv inv (mask_of (H, W) (@anti_inside ROps (H, W) (sy, sx) ri ro ro2 (cy, cx))), (sy, sx), o).
Proof. intros Hy Hx. unfold Mask2D_circular_anti_annular, Mask2D_new, mask_inv. cbv zeta. now rewrite anti_annular_is_spec. Qed.
Lemma Mask2D_elliptical_obj H W R q angle sy sx o cy cx inv : sy <> 0 -> sx <> 0 -> q <> 0 ->
  Mask2D_elliptical (H, W) R q angle (sy, sx) o (cy, cx) inv =
  (mask_inv inv (mask_of (H, W) (@ell_inside ROps (H, W) (sy, sx) R q (cos (angle * PI / 180), sin (angle * PI / 180)) (cy, cx))), (sy, sx), o).
Proof. intros Hy Hx Hq. unfold Mask2D_elliptical, Mask2D_new, mask_inv. cbv zeta. now rewrite elliptical_R_is_spec. Qed.
Lemma Mask2D_elliptical_annular_obj H W Ri qi ai Ro qo ao sy sx o cy cx inv : sy <> 0 -> sx <> 0 -> qi <> 0 -> qo <> 0 ->
  Mask2D_elliptical_annular (H, W) Ri qi ai Ro qo ao (sy, sx) o (cy, cx) inv =
  (mask_inv inv (mask_of (H, W) (@ellann_inside ROps (H, W) (sy, sx) Ri qi (cos (ai * PI / 180), sin (ai * PI / 180)) Ro qo
                                                (cos (ao * PI / 180), sin (ao * PI / 180)) (cy, cx))), (sy, sx), o).
Proof. intros Hy Hx Hi Ho. unfold Mask2D_elliptical_annular, Mask2D_new, mask_inv. cbv zeta. now rewrite elliptical_annular_R_is_spec. Qed.
(* the executable class-layer form run against the implementation is the generated one, for every angle *)
Lemma Mask2D_elliptical_is_cs H W R q angle sy sx o cy cx inv : sy <> 0 -> sx <> 0 -> q <> 0 ->
  Mask2D_elliptical (H, W) R q angle (sy, sx) o (cy, cx) inv =
  @Mask2D_elliptical_cs ROps (H, W) R q (cos (angle * PI / 180), sin (angle * PI / 180)) (sy, sx) o (cy, cx) inv.
Proof. intros Hy Hx Hq. unfold Mask2D_elliptical, Mask2D_elliptical_cs. cbv zeta. now rewrite elliptical_R_is_cs. Qed.
Lemma Mask2D_elliptical_annular_is_cs H W Ri qi ai Ro qo ao sy sx o cy cx inv : sy <> 0 -> sx <> 0 -> qi <> 0 -> qo <> 0 ->
  Mask2D_elliptical_annular (H, W) Ri qi ai Ro qo ao (sy, sx) o (cy, cx) inv =
  @Mask2D_elliptical_annular_cs ROps (H, W) Ri qi (cos (ai * PI / 180), sin (ai * PI / 180)) Ro qo
                                (cos (ao * PI / 180), sin (ao * PI / 180)) (sy, sx) o (cy, cx) inv.
Proof. intros Hy Hx Hi Ho. unfold Mask2D_elliptical_annular, Mask2D_elliptical_annular_cs. cbv zeta. now rewrite elliptical_annular_R_is_cs. Qed.

(* the geometry the constructed mask hands out: the requested shape, the pixel scales and the origin as given *)
Lemma Mask2D_geometry_of m s o : @Mask2D_geometry ROps (m, s, o) = ((rows m, cols m), s, o).
Proof. reflexivity. Qed.
Lemma Mask2D_circular_geometry H W r sy sx o cy cx : (1 <= H)%Z -> (0 <= W)%Z -> sy <> 0 -> sx <> 0 ->
  @Mask2D_geometry ROps (@Mask2D_circular ROps (H, W) r (sy, sx) o (cy, cx) false) = ((H, W), (sy, sx), o).
Proof.
  intros HH HW Hy Hx. rewrite Mask2D_circular_obj by assumption. unfold mask_inv. rewrite Mask2D_geometry_of, shape_mask_of by assumption.
  reflexivity.
Qed.

(* WHERE the shape sits in the mask's own coordinates.  Grid2D.from_mask(M) reports pixel (i,j) of M at centre_spec sh s o (i,j), i.e.
   WITH the origin.  Pixel (i,j) of Mask2D.circular(.., origin=o, centre=c) is unmasked iff that reported centre lies within the
   radius of the point o + c: `centre` is an offset from the mask origin. *)
Lemma circular_about_origin_plus_centre H W r sy sx oy ox cy cx i j : sy <> 0 -> sx <> 0 -> (0 <= i < H)%Z -> (0 <= j < W)%Z ->
  let M := @Mask2D_circular ROps (H, W) r (sy, sx) (oy, ox) (cy, cx) false in
  let p := @centre_spec ROps (H, W) (sy, sx) (oy, ox) (i, j) in
  getm (fst (fst M)) (i, j) = false <-> sqrt ((fst p - (oy + cy)) ^ 2 + (snd p - (ox + cx)) ^ 2) <= r.
Proof.
  intros Hy Hx Hi Hj M p. unfold M. rewrite Mask2D_circular_obj by assumption. unfold mask_inv. cbn [fst snd].
  rewrite <- circular_is_spec by assumption. rewrite (circular_element_explicit H W sy sx r cy cx i j Hy Hx Hi Hj).
  unfold p, centre_spec, cy_spec, cx_spec, two. cbn [T add sub mul div ofZ ROps fst snd].
  replace (oy + (IZR (H - 1) / 2 - IZR i) * sy - (oy + cy)) with ((IZR (H - 1) / 2 - IZR i) * sy - cy) by lra.
  replace (ox + (IZR j - IZR (W - 1) / 2) * sx - (ox + cx)) with ((IZR j - IZR (W - 1) / 2) * sx - cx) by lra.
  reflexivity.
Qed.

(* the pixel-centre grid of a mask given by a predicate: the centres (with the origin) of the pixels that satisfy it, row-major *)
Lemma grid_of_mask_of H W inside sy sx oy ox : (1 <= H)%Z -> (0 <= W)%Z -> sy <> 0 -> sx <> 0 ->
  @grid_2d_slim_via_mask_from ROps (mask_of (H, W) inside) (sy, sx) (oy, ox) =
  map (@centre_spec ROps (H, W) (sy, sx) (oy, ox)) (filter inside (coords H W)).
Proof.
  intros HH HW Hy Hx. rewrite grid_mask_centres by assumption. rewrite shape_mask_of by assumption. now rewrite unmasked_mask_of.
Qed.
Lemma circular_grid H W r sy sx oy ox cy cx : (1 <= H)%Z -> (0 <= W)%Z -> sy <> 0 -> sx <> 0 ->
  let M := @Mask2D_circular ROps (H, W) r (sy, sx) (oy, ox) (cy, cx) false in
  @Grid2D_from_mask ROps M =
  (map (@centre_spec ROps (H, W) (sy, sx) (oy, ox)) (filter (@circ_inside ROps (H, W) (sy, sx) r (cy, cx)) (coords H W)), M).
Proof.
  intros HH HW Hy Hx M. unfold M. rewrite Mask2D_circular_obj by assumption. unfold mask_inv, Grid2D_from_mask. cbv zeta. cbn [fst snd].
  now rewrite grid_of_mask_of by assumption.
Qed.

(* ------------------------------------------------------------------ Grid2D.uniform, Grid2D.from_mask, derive_grid *)
Lemma grid_via_shape_native H W sy sx oy ox : (1 <= H)%Z -> (0 <= W)%Z -> sy <> 0 -> sx <> 0 ->
  @grid_2d_slim_via_shape_native_from ROps (H, W) (sy, sx) (oy, ox) = map (@centre_spec ROps (H, W) (sy, sx) (oy, ox)) (coords H W).
Proof.
  intros HH HW Hy Hx. unfold grid_2d_slim_via_shape_native_from. rewrite full2_false_mask_of, grid_of_mask_of by assumption.
  now rewrite filter_true.
Qed.
Lemma uniform_obj H W sy sx oy ox : (1 <= H)%Z -> (0 <= W)%Z -> sy <> 0 -> sx <> 0 ->
  @Grid2D_uniform ROps (H, W) (sy, sx) (oy, ox) =
  (map (@centre_spec ROps (H, W) (sy, sx) (oy, ox)) (coords H W), (mask_of (H, W) (fun _ => true), (sy, sx), (oy, ox))).
Proof.
  intros HH HW Hy Hx. unfold Grid2D_uniform, Grid2D_no_mask. cbv zeta. rewrite grid_via_shape_native, Mask2D_all_false_obj by assumption.
  reflexivity.
Qed.
(* entry i * W + j of the uniform grid is the centre of pixel (i, j) *)
Lemma uniform_nth H W sy sx oy ox i j d : (0 <= i < H)%Z -> (0 <= j < W)%Z -> sy <> 0 -> sx <> 0 ->
  nth (Z.to_nat (i * W + j)) (fst (@Grid2D_uniform ROps (H, W) (sy, sx) (oy, ox))) d = @centre_spec ROps (H, W) (sy, sx) (oy, ox) (i, j).
Proof.
  intros Hi Hj Hy Hx. rewrite uniform_obj by (assumption || lia). cbn [fst].
  rewrite nth_indep with (d' := @centre_spec ROps (H, W) (sy, sx) (oy, ox) (0, 0)%Z) by (rewrite map_length, coords_length; nia).
  rewrite map_nth, coords_nth by assumption. reflexivity.
Qed.
Lemma uniform_length H W sy sx oy ox : (1 <= H)%Z -> (0 <= W)%Z -> sy <> 0 -> sx <> 0 ->
  length (fst (@Grid2D_uniform ROps (H, W) (sy, sx) (oy, ox))) = Z.to_nat (H * W).
Proof. intros HH HW Hy Hx. rewrite uniform_obj by assumption. cbn [fst]. rewrite map_length, coords_length. nia. Qed.
(* the uniform grid converts to the flat indices 0, 1, ..., H W - 1 *)
Lemma uniform_indexes H W sy sx oy ox : (1 <= H)%Z -> (0 <= W)%Z -> 0 < sy -> 0 < sx ->
  @grid_pixel_indexes_2d_slim_from ROps (fst (@Grid2D_uniform ROps (H, W) (sy, sx) (oy, ox))) (H, W) (sy, sx) (oy, ox) = map IZR (seqZ (H * W)).
Proof.
  intros HH HW Hy Hx.
  pose proof (grid_of_mask_indexes_to_itself (mask_of (H, W) (fun _ => true)) sy sx oy ox Hy Hx) as [_ E]. cbv zeta in E.
  rewrite shape_mask_of in E by assumption. rewrite cols_mask_of in E by (cbn; lia). cbn [snd] in E. rewrite Z2Nat.id in E by lia.
  unfold Grid2D_uniform, Grid2D_no_mask, grid_2d_slim_via_shape_native_from. cbv zeta. cbn [fst]. rewrite full2_false_mask_of, E.
  rewrite unmasked_mask_of, filter_true. cbn [fst snd].
  rewrite <- (coords_flat_index H W) by lia. now rewrite map_map.
Qed.
Lemma from_mask_obj m sy sx oy ox : sy <> 0 -> sx <> 0 ->
  @Grid2D_from_mask ROps (m, (sy, sx), (oy, ox)) = (map (@centre_spec ROps (rows m, cols m) (sy, sx) (oy, ox)) (unmasked m), (m, (sy, sx), (oy, ox))).
Proof. intros Hy Hx. unfold Grid2D_from_mask. cbv zeta. cbn [fst snd]. now rewrite grid_mask_centres. Qed.
Lemma derive_unmasked_is_from_mask M : @DeriveGrid2D_unmasked ROps M = @Grid2D_from_mask ROps M.
Proof. reflexivity. Qed.
Lemma derive_all_false_obj m sy sx oy ox : (1 <= rows m)%Z -> sy <> 0 -> sx <> 0 ->
  @DeriveGrid2D_all_false ROps (m, (sy, sx), (oy, ox)) =
  (map (@centre_spec ROps (rows m, cols m) (sy, sx) (oy, ox)) (coords (rows m) (cols m)),
   (mask_of (rows m, cols m) (fun _ => true), (sy, sx), (oy, ox))).
Proof.
  intros Hr Hy Hx. unfold DeriveGrid2D_all_false, DeriveMask2D_all_false. cbv zeta. cbn [fst snd]. rewrite mshape_rows_cols.
  rewrite grid_via_shape_native, Mask2D_all_false_obj by (try assumption; unfold cols; lia). reflexivity.
Qed.

(* ------------------------------------------------------------------ Geometry2D methods on a Grid2D that has its OWN mask *)
(* .astype('int') on values that are already integers (every entry written by the index routines is int(..)) *)
Lemma astype_int_centres g sh s o :
  @astype_int_grid ROps (@grid_pixel_centres_2d_slim_from ROps g sh s o) = @grid_pixel_centres_2d_slim_from ROps g sh s o.
Proof.
  unfold astype_int_grid, grid_pixel_centres_2d_slim_from. cbv zeta. rewrite map_map. apply map_ext. intros c. cbn [fst snd]. rops.
  now rewrite !trunc_IZR.
Qed.
Lemma astype_int_indexes g sh s o :
  @astype_int_vec ROps (@grid_pixel_indexes_2d_slim_from ROps g sh s o) = @grid_pixel_indexes_2d_slim_from ROps g sh s o.
Proof.
  unfold astype_int_vec, grid_pixel_indexes_2d_slim_from. cbv zeta. rewrite map_map. apply map_ext. intros c. rops. now rewrite trunc_IZR.
Qed.
(* the class methods are the util routines applied with the GEOMETRY's (shape_native, pixel_scales, origin); the Grid2D argument only
   supplies the points and the mask that the result carries *)
Lemma geometry_grid_methods sh s o vals GM :
  @Geometry2D_grid_pixels_2d_from ROps sh s o (vals, GM) = (@grid_pixels_2d_slim_from ROps vals sh s o, GM) /\
  @Geometry2D_grid_pixel_centres_2d_from ROps sh s o (vals, GM) = (@grid_pixel_centres_2d_slim_from ROps vals sh s o, GM) /\
  @Geometry2D_grid_pixel_indexes_2d_from ROps sh s o (vals, GM) = (@grid_pixel_indexes_2d_slim_from ROps vals sh s o, GM) /\
  @Geometry2D_grid_scaled_2d_from ROps sh s o (vals, GM) = (@grid_scaled_2d_slim_from ROps vals sh s o, GM).
Proof.
  unfold Geometry2D_grid_pixels_2d_from, Geometry2D_grid_pixel_centres_2d_from, Geometry2D_grid_pixel_indexes_2d_from,
    Geometry2D_grid_scaled_2d_from. cbv zeta. cbn [fst snd]. rewrite astype_int_centres, astype_int_indexes. repeat split.
Qed.
(* hence: points inside pixels of the GEOMETRY (H x W) convert to those pixels and to i * W + j with the geometry's W, whatever the
   shape of the mask GM that the Grid2D carries *)
Lemma geometry_index_of_interior_points H W sy sx oy ox vals GM ps : 0 < sy -> 0 < sx ->
  Forall2 (fun c p => in_array (H, W) p /\ in_pixel (H, W) (sy, sx) (oy, ox) p c) vals ps ->
  @Geometry2D_grid_pixel_centres_2d_from ROps (H, W) (sy, sx) (oy, ox) (vals, GM) = (map (fun p => (IZR (fst p), IZR (snd p))) ps, GM) /\
  @Geometry2D_grid_pixel_indexes_2d_from ROps (H, W) (sy, sx) (oy, ox) (vals, GM) = (map (fun p => IZR (fst p * W + snd p)) ps, GM).
Proof.
  intros Hy Hx HF. destruct (geometry_grid_methods (H, W) (sy, sx) (oy, ox) vals GM) as [_ [E1 [E2 _]]].
  destruct (index_of_interior_points H W sy sx oy ox vals ps Hy Hx HF) as [F1 F2].
  split; (etransitivity; [first [exact E1 | exact E2]|]); [rewrite F1 | rewrite F2]; reflexivity.
Qed.
Lemma geometry_pixels_scaled_inverse H W sy sx oy ox vals GM : sy <> 0 -> sx <> 0 ->
  @Geometry2D_grid_scaled_2d_from ROps (H, W) (sy, sx) (oy, ox) (@Geometry2D_grid_pixels_2d_from ROps (H, W) (sy, sx) (oy, ox) (vals, GM)) = (vals, GM) /\
  @Geometry2D_grid_pixels_2d_from ROps (H, W) (sy, sx) (oy, ox) (@Geometry2D_grid_scaled_2d_from ROps (H, W) (sy, sx) (oy, ox) (vals, GM)) = (vals, GM).
Proof.
  intros Hy Hx.
  unfold Geometry2D_grid_pixels_2d_from, Geometry2D_grid_scaled_2d_from. cbv zeta. cbn [fst snd].
  rewrite scaled_of_pixels, pixels_of_scaled by assumption. split; reflexivity.
Qed.

(* scalar methods: the class methods are the util functions at the geometry's attributes *)
Lemma geometry_scalar_methods sh s o c p :
  @Geometry2D_pixel_coordinates_2d_from ROps sh s o c = @pixel_coordinates_2d_from ROps c sh s o /\
  @Geometry2D_scaled_coordinates_2d_from ROps sh s o p = @scaled_coordinates_2d_from ROps p sh s o /\
  @Geometry2D_central_pixel_coordinates ROps sh s o = @central_pixel_coordinates_2d_from ROps sh /\
  @Geometry2D_central_scaled_coordinates ROps sh s o = @central_scaled_coordinate_2d_from ROps sh s o.
Proof. repeat split. Qed.
(* snapping a coordinate to the centre of its pixel *)
Lemma snap_to_pixel_centre H W sy sx oy ox c p : 0 < sy -> 0 < sx -> in_array (H, W) p -> in_pixel (H, W) (sy, sx) (oy, ox) p c ->
  @Geometry2D_scaled_coordinate_2d_to_scaled_at_pixel_centre_from ROps (H, W) (sy, sx) (oy, ox) c = @centre_spec ROps (H, W) (sy, sx) (oy, ox) p.
Proof.
  intros Hy Hx Ha Hp. unfold Geometry2D_scaled_coordinate_2d_to_scaled_at_pixel_centre_from, Geometry2D_pixel_coordinates_2d_from,
    Geometry2D_scaled_coordinates_2d_from. cbv zeta.
  destruct (index_of_interior_point H W sy sx oy ox c p Hy Hx Ha Hp) as [E _]. rewrite E. rops.
  destruct p as [i j]. cbn [fst snd]. rewrite scaled2_is_centre by lra. reflexivity.
Qed.
Lemma snap_idempotent H W sy sx oy ox c p : 0 < sy -> 0 < sx -> in_array (H, W) p -> in_pixel (H, W) (sy, sx) (oy, ox) p c ->
  let snap := @Geometry2D_scaled_coordinate_2d_to_scaled_at_pixel_centre_from ROps (H, W) (sy, sx) (oy, ox) in snap (snap c) = snap c.
Proof.
  intros Hy Hx Ha Hp snap. unfold snap. rewrite (snap_to_pixel_centre H W sy sx oy ox c p) by assumption.
  apply snap_to_pixel_centre; try assumption. destruct p as [i j]. unfold in_pixel, centre_spec. cbn [fst snd]. rops. split; lra.
Qed.

(* ------------------------------------------------------------------ the native (3-D) index routine *)
Lemma native_is_rowwise g sh s o :
  @grid_pixel_centres_2d_from ROps g sh s o = map (fun row => @grid_pixel_centres_2d_slim_from ROps row sh s o) g.
Proof. reflexivity. Qed.
Lemma native_index_of_interior_points H W sy sx oy ox g ps : 0 < sy -> 0 < sx ->
  Forall2 (Forall2 (fun c p => in_array (H, W) p /\ in_pixel (H, W) (sy, sx) (oy, ox) p c)) g ps ->
  @grid_pixel_centres_2d_from ROps g (H, W) (sy, sx) (oy, ox) = map (map (fun p => (IZR (fst p), IZR (snd p)))) ps.
Proof.
  intros Hy Hx HF. rewrite native_is_rowwise. induction HF as [|row prow g ps Hrow HF IH]; [reflexivity|].
  cbn [map]. rewrite IH. f_equal. apply (index_of_interior_points H W sy sx oy ox row prow Hy Hx Hrow).
Qed.

(* ------------------------------------------------------------------ extent edges: outermost pixel centres -/+ half a pixel *)
Lemma extent_edges H W sy sx oy ox :
  @Geometry2D_extent ROps (H, W) (sy, sx) (oy, ox) =
  (@cx_spec ROps W sx ox 0 - sx / 2, @cx_spec ROps W sx ox (IZR (W - 1)) + sx / 2,
   @cy_spec ROps H sy oy (IZR (H - 1)) - sy / 2, @cy_spec ROps H sy oy 0 + sy / 2).
Proof. rewrite extent2_eq. unfold extent_spec, lo_spec, hi_spec, cx_spec, cy_spec. rsimp. rewrite !minus_IZR. tup; field. Qed.
Lemma extent1_edges n s o :
  @Geometry1D_extent ROps n s o = (@cx_spec ROps n s o 0 - s / 2, @cx_spec ROps n s o (IZR (n - 1)) + s / 2).
Proof. rewrite extent1_eq. unfold extent1_spec, lo_spec, hi_spec, cx_spec. rsimp. rewrite !minus_IZR. tup; field. Qed.

(* ------------------------------------------------------------------ 1-D counterparts *)
Lemma unmasked1_in m j : In j (unmasked1 m) -> (0 <= j < Z.of_nat (length m))%Z.
Proof. unfold unmasked1. rewrite filter_In. intros [Hj _]. apply seqZ_nonneg in Hj. exact Hj. Qed.
(* the pixel-centre grid of any 1-D mask (any origin, any pixel scale > 0) converts back to the indices of its unmasked pixels *)
Lemma grid1_of_mask_indexes_to_itself m s o : 0 < s ->
  map (fun x => @pixel_coordinates_1d_from ROps x (Z.of_nat (length m)) s o) (@grid_1d_slim_via_mask_from ROps m s o) = unmasked1 m.
Proof.
  intros Hs. rewrite grid1_mask_centres by lra. rewrite map_map.
  pose proof (unmasked1_in m) as HA. induction (unmasked1 m) as [|j l IH]; [reflexivity|].
  cbn [map]. rewrite IH by (intros q Hq; apply HA; right; exact Hq). f_equal.
  apply pix1_inside; [assumption | destruct (HA j (or_introl eq_refl)); assumption |]. unfold centre1_spec. rops. lra.
Qed.
Lemma unmasked1_full1_false n : unmasked1 (full1 false n) = seqZ n.
Proof.
  unfold unmasked1, full1. rewrite repeat_length, seqZ_of_nat_to_nat.
  rewrite <- (filter_true (seqZ n)) at 2. apply filter_ext_in. intros j Hj. apply seqZ_nonneg in Hj.
  rewrite nth_indep with (d' := false) by (rewrite repeat_length; lia). now rewrite nth_repeat.
Qed.
Lemma full1_length b n : Z.of_nat (length (full1 b n)) = Z.of_nat (Z.to_nat n).
Proof. unfold full1. now rewrite repeat_length. Qed.
Lemma uniform1_obj n s o : (0 <= n)%Z -> s <> 0 ->
  @Grid1D_uniform ROps n s o = (map (@centre1_spec ROps n s o) (seqZ n), (full1 false n, s, o)).
Proof.
  intros Hn Hs. unfold Grid1D_uniform, Grid1D_no_mask, grid_1d_slim_via_shape_slim_from, Mask1D_all_false, Mask1D_new. cbv zeta.
  rewrite grid1_mask_centres by assumption. rewrite full1_length, Z2Nat.id by assumption. rewrite unmasked1_full1_false.
  rewrite map_length, seqZ_length, Z2Nat.id by assumption. reflexivity.
Qed.
Lemma from_mask1_obj m s o : s <> 0 ->
  @Grid1D_from_mask ROps (m, s, o) = (map (@centre1_spec ROps (Z.of_nat (length m)) s o) (unmasked1 m), (m, s, o)).
Proof. intros Hs. unfold Grid1D_from_mask. cbv zeta. cbn [fst snd]. now rewrite grid1_mask_centres. Qed.
Lemma Mask1D_geometry_extent m s o :
  let g := @Mask1D_geometry ROps (m, s, o) in
  @Geometry1D_extent ROps (fst (fst g)) (snd (fst g)) (snd g) = @extent1_spec ROps (Z.of_nat (length m)) s o.
Proof. cbv zeta. unfold Mask1D_geometry. cbn [fst snd]. apply extent1_eq. Qed.
(* what Mask1D.derive_grid.all_false SHOULD be (and is for the 2-D twin): every pixel's centre, with the all-false mask.  The current
   code builds the values with grid_1d_slim_via_mask_from on the mask itself: a hand transcription of that body, refuted on a witness *)
Definition DeriveGrid1D_all_false_current (M : list bool * R * R) : list R * (list bool * R * R) :=
  (@grid_1d_slim_via_mask_from ROps (fst (fst M)) (snd (fst M)) (snd M), @DeriveMask1D_all_false ROps M).
Lemma derive_all_false_1d_refuted :
  exists M, length (fst (DeriveGrid1D_all_false_current M)) <> length (unmasked1 (fst (fst (snd (DeriveGrid1D_all_false_current M))))).
Proof.
  exists ([false; true; false; false], 1 / 2, 1). unfold DeriveGrid1D_all_false_current. cbn [fst snd].
  rewrite grid1_mask_centres by lra. rewrite map_length.
  unfold DeriveMask1D_all_false, Mask1D_all_false, Mask1D_new. cbn [fst snd length]. rewrite unmasked1_full1_false, seqZ_length.
  vm_compute. lia.
Qed.

(* ------------------------------------------------------------------ every point of the extent has its pixel; outside the extent *)
(* one axis: the continuous pixel position of a point of [lo, hi) lies in [0, n); its integer part j is a valid index and the point
   lies in the half-open interval of pixel j *)
Lemma axis_position n s o x : 0 < s -> @lo_spec ROps n s o <= x < @hi_spec ROps n s o ->
  let pos := (x - o) / s + IZR (n - 1) / 2 + 1 / 2 in
  0 <= pos < IZR n /\ x = o + (pos - IZR (n - 1) / 2 - 1 / 2) * s.
Proof.
  intros Hs [H1 H2] pos. unfold lo_spec, hi_spec in *. rsimp.
  assert (B : - (IZR n / 2) <= (x - o) / s < IZR n / 2) by (apply div_bounds; [assumption | nra]).
  unfold pos. rewrite minus_IZR. split; [lra | field; lra].
Qed.
Lemma floor_index pos n : 0 <= pos < IZR n -> (0 <= Rfloor pos < n)%Z /\ IZR (Rfloor pos) <= pos < IZR (Rfloor pos) + 1.
Proof.
  intros [H0 Hn]. pose proof (Rfloor_spec pos) as [F1 F2]. split; [|lra]. split.
  - assert (A : IZR (-1) < IZR (Rfloor pos)) by (cbn; lra). apply lt_IZR in A. lia.
  - apply lt_IZR. lra.
Qed.
(* 1-D: every x in [x_min, x_max) converts to a valid index j, and x lies in the half-open interval of pixel j *)
Lemma every_point_has_its_pixel_1d n s o x : 0 < s -> @lo_spec ROps n s o <= x < @hi_spec ROps n s o ->
  let j := @pixel_coordinates_1d_from ROps x n s o in
  (0 <= j < n)%Z /\ @cx_spec ROps n s o (IZR j) - s / 2 <= x < @cx_spec ROps n s o (IZR j) + s / 2.
Proof.
  intros Hs Hx. destruct (axis_position n s o x Hs Hx) as [Hp Ex]. cbv zeta in Hp, Ex.
  set (pos := (x - o) / s + IZR (n - 1) / 2 + 1 / 2) in *.
  destruct (floor_index pos n Hp) as [Hj Hf].
  assert (E : @pixel_coordinates_1d_from ROps x n s o = Rfloor pos).
  { unfold pixel_coordinates_1d_from, central_pixel_coordinates_1d_from. rsimp. fold pos. apply trunc_R_nonneg. lra. }
  cbv zeta. rewrite E. split; [exact Hj|]. unfold cx_spec. rsimp. clear E. clearbody pos. nra.
Qed.
(* 2-D: every (y, x) with y_min < y <= y_max, x_min <= x < x_max converts to a pixel of the array whose half-open square contains it *)
Lemma every_point_has_its_pixel H W sy sx oy ox y x : 0 < sy -> 0 < sx ->
  @lo_spec ROps H sy oy < y <= @hi_spec ROps H sy oy -> @lo_spec ROps W sx ox <= x < @hi_spec ROps W sx ox ->
  let p := @pixel_coordinates_2d_from ROps (y, x) (H, W) (sy, sx) (oy, ox) in
  in_array (H, W) p /\ in_pixel (H, W) (sy, sx) (oy, ox) p (y, x).
Proof.
  intros Hsy Hsx Hy Hx.
  (* the row axis is the column axis mirrored about the origin *)
  assert (Hy' : @lo_spec ROps H sy oy <= 2 * oy - y < @hi_spec ROps H sy oy) by (unfold lo_spec, hi_spec in *; rsimp; lra).
  destruct (axis_position H sy oy (2 * oy - y) Hsy Hy') as [Hpy Ey]. destruct (axis_position W sx ox x Hsx Hx) as [Hpx Ex].
  cbv zeta in Hpy, Ey, Hpx, Ex.
  set (py := (2 * oy - y - oy) / sy + IZR (H - 1) / 2 + 1 / 2) in *. set (px := (x - ox) / sx + IZR (W - 1) / 2 + 1 / 2) in *.
  destruct (floor_index py H Hpy) as [Hi Hfy]. destruct (floor_index px W Hpx) as [Hj Hfx].
  assert (E : @pixel_coordinates_2d_from ROps (y, x) (H, W) (sy, sx) (oy, ox) = (Rfloor py, Rfloor px)).
  { unfold pixel_coordinates_2d_from, central_pixel_coordinates_2d_from. rsimp. fold px.
    replace ((- y + oy) / sy + IZR (H - 1) / 2 + 1 / 2) with py by (unfold py; field; lra).
    f_equal; apply trunc_R_nonneg; lra. }
  cbv zeta. rewrite E. split; [split; assumption|].
  unfold in_pixel, cy_spec, cx_spec. cbn [fst snd]. rsimp. clear E. clearbody py px. split; nra.
Qed.
(* the half-open squares of distinct pixels are disjoint: the pixel of a point is unique *)
Lemma in_pixel_unique H W sy sx oy ox p q c : 0 < sy -> 0 < sx ->
  in_pixel (H, W) (sy, sx) (oy, ox) p c -> in_pixel (H, W) (sy, sx) (oy, ox) q c -> p = q.
Proof.
  intros Hsy Hsx [Py Px] [Qy Qx]. destruct p as [i j], q as [i' j']. unfold cy_spec, cx_spec in *. cbn [fst snd] in *. rsimp.
  f_equal; apply eq_IZR.
  - assert (A : -1 < IZR i - IZR i' < 1) by nra. assert (B : (-1 < i - i' < 1)%Z) by (split; apply lt_IZR; rewrite minus_IZR; cbn; lra).
    f_equal. lia.
  - assert (A : -1 < IZR j - IZR j' < 1) by nra. assert (B : (-1 < j - j' < 1)%Z) by (split; apply lt_IZR; rewrite minus_IZR; cbn; lra).
    f_equal. lia.
Qed.
(* int() truncates toward zero: a point LESS than one pixel outside the low edge is still attributed to index 0 (a valid index although
   the point is outside the extent); from one pixel outside on the index is negative; at or beyond the high edge it is >= n *)
Lemma index_outside_extent_1d n s o x : 0 < s ->
  (@lo_spec ROps n s o - s < x < @lo_spec ROps n s o -> @pixel_coordinates_1d_from ROps x n s o = 0%Z) /\
  (x <= @lo_spec ROps n s o - s -> (@pixel_coordinates_1d_from ROps x n s o <= -1)%Z) /\
  (@hi_spec ROps n s o <= x -> (n <= @pixel_coordinates_1d_from ROps x n s o)%Z).
Proof.
  intros Hs. unfold lo_spec, hi_spec, pixel_coordinates_1d_from, central_pixel_coordinates_1d_from. rsimp. rewrite minus_IZR.
  set (pos := (x - o) / s + (IZR n - 1) / 2 + 1 / 2).
  assert (Ex : x = o + (pos - (IZR n - 1) / 2 - 1 / 2) * s) by (unfold pos; field; lra).
  repeat split.
  - intros [H1 H2]. assert (Hp : -1 < pos < 0) by (split; nra).
    rewrite trunc_R_neg by lra. assert (E : Rfloor (- pos) = 0%Z) by (apply Rfloor_unique; cbn; lra). rewrite E. reflexivity.
  - intros H1. assert (Hp : pos <= -1) by nra.
    rewrite trunc_R_neg by lra. pose proof (Rfloor_spec (- pos)) as [F1 F2].
    assert (A : IZR 0 < IZR (Rfloor (- pos))) by (cbn; lra). apply lt_IZR in A. lia.
  - intros H1. assert (Hp : IZR n <= pos) by nra.
    destruct (Rlt_dec pos 0) as [Hneg|Hpos].
    + rewrite trunc_R_neg by lra. pose proof (Rfloor_spec (- pos)) as [F1 F2].
      assert (A : IZR n < IZR (- Rfloor (- pos)) + 1) by (rewrite opp_IZR; lra). rewrite <- plus_IZR in A. apply lt_IZR in A. lia.
    + rewrite trunc_R_nonneg by lra. pose proof (Rfloor_spec pos) as [F1 F2].
      assert (A : IZR n < IZR (Rfloor pos) + 1) by lra. rewrite <- plus_IZR in A. apply lt_IZR in A. lia.
Qed.
(* orientation: y decreases with the row index, x increases with the column index *)
Lemma orientation H W sy sx oy ox i i' j j' : 0 < sy -> 0 < sx -> (i < i')%Z -> (j < j')%Z ->
  fst (@centre_spec ROps (H, W) (sy, sx) (oy, ox) (i', j)) < fst (@centre_spec ROps (H, W) (sy, sx) (oy, ox) (i, j)) /\
  snd (@centre_spec ROps (H, W) (sy, sx) (oy, ox) (i, j)) < snd (@centre_spec ROps (H, W) (sy, sx) (oy, ox) (i, j')).
Proof.
  intros Hsy Hsx Hi Hj. apply IZR_lt in Hi, Hj. unfold centre_spec, cy_spec, cx_spec. cbn [fst snd]. rsimp. split; nra.
Qed.
Lemma every_point_of_extent H W sy sx oy ox y x : 0 < sy -> 0 < sx ->
  let '(xmin, xmax, ymin, ymax) := @Geometry2D_extent ROps (H, W) (sy, sx) (oy, ox) in
  ymin < y <= ymax -> xmin <= x < xmax ->
  let p := @pixel_coordinates_2d_from ROps (y, x) (H, W) (sy, sx) (oy, ox) in
  in_array (H, W) p /\ in_pixel (H, W) (sy, sx) (oy, ox) p (y, x) /\
  @grid_pixel_indexes_2d_slim_from ROps [(y, x)] (H, W) (sy, sx) (oy, ox) = [IZR (fst p * W + snd p)].
Proof.
  intros Hsy Hsx. rewrite extent2_eq. unfold extent_spec. cbn [fst snd]. intros Hy Hx.
  destruct (every_point_has_its_pixel H W sy sx oy ox y x Hsy Hsx Hy Hx) as [Ha Hp]. cbv zeta in Ha, Hp. cbv zeta.
  split; [exact Ha|]. split; [exact Hp|].
  destruct (index_of_interior_point H W sy sx oy ox (y, x) _ Hsy Hsx Ha Hp) as [_ [_ E]]. exact E.
Qed.
Lemma every_point_of_extent_1d n s o x : 0 < s ->
  let '(xmin, xmax) := @Geometry1D_extent ROps n s o in
  xmin <= x < xmax ->
  let j := @pixel_coordinates_1d_from ROps x n s o in
  (0 <= j < n)%Z /\ @cx_spec ROps n s o (IZR j) - s / 2 <= x < @cx_spec ROps n s o (IZR j) + s / 2.
Proof. intros Hs. rewrite extent1_eq. unfold extent1_spec. intros Hx. now apply every_point_has_its_pixel_1d. Qed.

(* the offset used by all five shape predicates is the pixel's centre in the mask's own coordinates (any origin o) minus (o + centre) *)
Lemma offset_relative_to_origin_plus_centre H W sy sx oy ox cy cx i j :
  @offset ROps (H, W) (sy, sx) (cy, cx) (i, j) =
  (fst (@centre_spec ROps (H, W) (sy, sx) (oy, ox) (i, j)) - (oy + cy), snd (@centre_spec ROps (H, W) (sy, sx) (oy, ox) (i, j)) - (ox + cx)).
Proof. unfold offset, centre_spec, cy_spec, cx_spec. cbn [fst snd]. rsimp. f_equal; lra. Qed.
(* every pixel centre of the array lies at least half a pixel inside the extent *)
Lemma centres_half_pixel_inside_extent H W sy sx oy ox i j : 0 < sy -> 0 < sx -> (0 <= i < H)%Z -> (0 <= j < W)%Z ->
  let '(xmin, xmax, ymin, ymax) := @Geometry2D_extent ROps (H, W) (sy, sx) (oy, ox) in
  let c := @centre_spec ROps (H, W) (sy, sx) (oy, ox) (i, j) in
  xmin + sx / 2 <= snd c <= xmax - sx / 2 /\ ymin + sy / 2 <= fst c <= ymax - sy / 2.
Proof.
  intros Hsy Hsx [Hi0 Hi1] [Hj0 Hj1]. rewrite extent2_eq. unfold extent_spec, lo_spec, hi_spec, centre_spec, cy_spec, cx_spec. cbn [fst snd]. rsimp.
  rewrite !minus_IZR. apply IZR_le in Hi0, Hj0.
  assert (A : IZR i <= IZR H - 1) by (rewrite <- minus_IZR; apply IZR_le; lia).
  assert (B : IZR j <= IZR W - 1) by (rewrite <- minus_IZR; apply IZR_le; lia).
  repeat split; nra.
Qed.
(* the REPAIRED body (fixes/C02_derive_grid_1d_all_false.diff: values from grid_1d_slim_via_shape_slim_from, as the 2-D twin does), hand
   transcription: every pixel's centre, with the all-false mask of the same geometry *)
Definition DeriveGrid1D_all_false_repaired (M : list bool * R * R) : list R * (list bool * R * R) :=
  (@grid_1d_slim_via_shape_slim_from ROps (Z.of_nat (length (fst (fst M)))) (snd (fst M)) (snd M), @DeriveMask1D_all_false ROps M).
Lemma derive_all_false_1d_repaired_ok m s o : s <> 0 ->
  DeriveGrid1D_all_false_repaired (m, s, o) =
  (map (@centre1_spec ROps (Z.of_nat (length m)) s o) (seqZ (Z.of_nat (length m))), (full1 false (Z.of_nat (length m)), s, o)).
Proof.
  intros Hs. unfold DeriveGrid1D_all_false_repaired, grid_1d_slim_via_shape_slim_from, DeriveMask1D_all_false, Mask1D_all_false, Mask1D_new.
  cbn [fst snd]. rewrite grid1_mask_centres by assumption. rewrite full1_length, Nat2Z.id, unmasked1_full1_false. reflexivity.
Qed.

(* ------------------------------------------------------------------ Grid1D.uniform_from_zero (sibling constructor; hand model in Model/C02x.v) *)
Lemma fold_min_head (l : list R) (h : R) : (forall x, In x l -> h <= x) ->
  fold_left (fun a b => if ltb ROps b a then b else a) l h = h.
Proof.
  induction l as [|a l IH]; intros H; cbn [fold_left]; [reflexivity|].
  assert (Ha : h <= a) by (apply H; now left).
  destruct (ltb ROps a h) eqn:E.
  - cbn [ltb ROps] in E. apply Rltb_true in E. lra.
  - apply IH. intros x Hx. apply H. now right.
Qed.
Lemma centre1_increasing n s j k : 0 < s -> (j <= k)%Z -> @centre1_spec ROps n s 0 j <= @centre1_spec ROps n s 0 k.
Proof.
  intros Hs Hjk. unfold centre1_spec, cx_spec. rsimp. apply IZR_le in Hjk. nra.
Qed.
Lemma uniform_from_zero_obj n s : (0 <= n)%Z -> 0 < s ->
  @Grid1D_uniform_from_zero ROps n s = (map (fun k => IZR k * s) (seqZ n), (full1 false n, s, 0)).
Proof.
  intros Hn Hs. assert (Hs0 : s <> 0) by lra.
  unfold Grid1D_uniform_from_zero, Grid1D_no_mask, grid_1d_slim_via_shape_slim_from, Mask1D_all_false, Mask1D_new. cbv zeta.
  change (@zero ROps) with 0. 
  rewrite grid1_mask_centres by assumption. rewrite full1_length, Z2Nat.id by assumption. rewrite unmasked1_full1_false.
  rewrite !map_length, seqZ_length, Z2Nat.id by assumption.
  f_equal. rewrite map_map.
  assert (Hmin : @list_min ROps (map (@centre1_spec ROps n s 0) (seqZ n)) = @centre1_spec ROps n s 0 0%Z \/ seqZ n = []).
  { destruct (seqZ n) as [|z l] eqn:E; [now right|left].
    assert (Hz : z = 0%Z). { unfold seqZ in E. destruct (Z.to_nat n); cbn in E; [discriminate|]. now inversion E. }
    subst z. unfold list_min. cbn [map hd]. apply fold_min_head.
    intros x [<- | Hx]; [apply Rle_refl|]. apply in_map_iff in Hx. destruct Hx as (k & <- & Hk).
    apply centre1_increasing; [assumption|].
    assert (Hk' : In k (seqZ n)) by (rewrite E; now right). apply seqZ_nonneg in Hk'. lia. }
  destruct Hmin as [Hmin | Hnil]; [| rewrite Hnil; reflexivity].
  apply map_ext. intros k. rewrite Hmin. unfold centre1_spec, cx_spec. rsimp. field.
Qed.
(* entry k of Grid1D.uniform_from_zero is k pixel scales from zero, on the all-false mask with origin 0 *)
Lemma uniform_from_zero_nth n s k : (0 <= k < n)%Z -> 0 < s ->
  nth (Z.to_nat k) (fst (@Grid1D_uniform_from_zero ROps n s)) 0 = IZR k * s /\
  snd (@Grid1D_uniform_from_zero ROps n s) = (full1 false n, s, 0).
Proof.
  intros Hk Hs. rewrite uniform_from_zero_obj by (lia || assumption). cbn [fst snd]. split; [|reflexivity].
  set (f := fun k : Z => IZR k * s).
  rewrite nth_indep with (d' := f 0%Z) by (rewrite map_length, seqZ_length; lia).
  rewrite map_nth. rewrite seqZ_nth by lia. subst f. cbv beta. now rewrite Z2Nat.id by lia.
Qed.
