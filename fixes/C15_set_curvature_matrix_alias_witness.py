import numpy as np
import autoarray as aa
mask = aa.Mask2D(mask=np.array([[True]*4,[True,False,False,True],[True,False,False,True],[True]*4]), pixel_scales=1.0)
ds = aa.Imaging(data=aa.Array2D.no_mask(np.arange(16.).reshape(4,4), pixel_scales=1.0),
                noise_map=aa.Array2D.no_mask(np.ones((4,4)), pixel_scales=1.0),
                psf=aa.Kernel2D.no_mask(np.array([[1.0]]), pixel_scales=1.0, normalize=False), use_normalized_psf=False).apply_mask(mask=mask)
os_ = aa.OverSamplerUniform(mask=mask, sub_size=1)
grid = os_.over_sampled_grid
mesh = aa.Mesh2DRectangular.overlay_grid(shape_native=(2,2), grid=grid)
mapper = aa.MapperRectangular(mapper_grids=aa.MapperGrids(mask=mask, source_plane_data_grid=grid, source_plane_mesh_grid=mesh),
                              over_sampler=os_, border_relocator=None, regularization=aa.reg.Constant(coefficient=1.0))
for wt in (False, True):
    st = lambda: aa.SettingsInversion(use_w_tilde=wt, use_positive_only_solver=False)
    inv0 = aa.Inversion(dataset=ds, linear_obj_list=[mapper], settings=st())
    inv1 = aa.Inversion(dataset=ds, linear_obj_list=[mapper], settings=st())
    pre = aa.Preloads()
    pre.set_curvature_matrix(aa.m.MockFitImaging(dataset=ds, inversion=inv0), aa.m.MockFitImaging(dataset=ds, inversion=inv1))
    before = pre.curvature_matrix.copy()
    inv0.curvature_reg_matrix          # e.g. fit_0.log_evidence evaluated after the preloads were set
    fresh = aa.Inversion(dataset=ds, linear_obj_list=[mapper], settings=st())
    withp = aa.Inversion(dataset=ds, linear_obj_list=[mapper], settings=st(), preloads=pre)
    print(type(inv0).__name__, "preload diag before", np.diag(before), "after", np.diag(pre.curvature_matrix))
    print("   reconstruction fresh", fresh.reconstruction, "with preloads", withp.reconstruction)
