(* C17 -- class dispatch of the decorators (structures/decorators/abstract.py AbstractMaker.evaluate_func / .result,
   project_grid.py): the branch is chosen by `isinstance` tests, i.e. by looking for Grid2D, Grid2DIrregular, Grid1D along
   the MRO of the input object's class -- NOT by the class itself.  An object handed to a decorator is modelled by the MRO of
   its class (the class first) and the data it holds (a [grid] of Model/C17.v: mask + coordinates, coordinates, ...).
   A subclass instance (aa.Grid2DIrregularUniform, any class a user derives from Grid2D / Grid2DIrregular / Grid1D, a class
   derived from those ...) holds the data of the accepted class it derives from and has that class further down its MRO.
   The correspondence cases of Model/C17.v are wrapped: [KObj mros k] carries, for every grid object of the case [k], the
   MRO of its class as observed on the Python side.  No proofs here. *)
From Coq Require Import ZArith List Bool QArith.
From PAV Require Import Base.Res Base.Check Base.NumOps Model.C17.
Import ListNotations.

(* the classes the decorators test for; every other class along an MRO (Grid2DIrregularUniform, PavGrid2D, Structure,
   AbstractNDArray, ABC, object ...) is NOther *)
Inductive cname := NGrid2D | NGrid2DIrregular | NGrid1D | NNdarray | NOther.
Definition cname_eqb (a b : cname) : bool :=
  match a, b with
  | NGrid2D, NGrid2D | NGrid2DIrregular, NGrid2DIrregular | NGrid1D, NGrid1D | NNdarray, NNdarray | NOther, NOther => true
  | _, _ => false
  end.
Definition accepted (c : cname) : bool := negb (cname_eqb c NOther).
(* isinstance(obj, c) for an object whose class has the MRO [mro] *)
Definition isinstance (mro : list cname) (c : cname) : bool := existsb (cname_eqb c) mro.

Inductive branch := BUniform | BIrregular | B1D | BRaw.
Definition branch_eqb (a b : branch) : bool :=
  match a, b with BUniform, BUniform | BIrregular, BIrregular | B1D, B1D | BRaw, BRaw => true | _, _ => false end.
(* the if / elif chain of AbstractMaker.result (and of project_grid's wrapper) *)
Definition dispatch (mro : list cname) : branch :=
  if isinstance mro NGrid2D then BUniform
  else if isinstance mro NGrid2DIrregular then BIrregular
  else if isinstance mro NGrid1D then B1D
  else BRaw.
(* what a look-up keyed by type(grid) does instead: only the class itself counts (shown NOT to be the code's behaviour) *)
Definition dispatch_exact (mro : list cname) : branch :=
  match mro with
  | NGrid2D :: _ => BUniform | NGrid2DIrregular :: _ => BIrregular | NGrid1D :: _ => B1D | _ => BRaw
  end.
Definition branch_of_class (c : cname) : branch :=
  match c with NGrid2D => BUniform | NGrid2DIrregular => BIrregular | NGrid1D => B1D | _ => BRaw end.

Section Obj.
  Context {O : NumOps}.
  Notation grid := (@grid O).
  Notation result := (@result O).
  Notation output := (@output O).

  (* the accepted class whose data layout the object has *)
  Definition class_of (g : grid) : cname :=
    match g with G2D _ _ => NGrid2D | GIrr _ => NGrid2DIrregular | G1D _ _ => NGrid1D | GRaw _ => NNdarray end.
  Definition branch_of (g : grid) : branch := branch_of_class (class_of g).

  (* AbstractMaker.evaluate_func: `if isinstance(self.grid, Grid1D)` project, else hand the grid over *)
  Definition evaluate_func_obj (f : grid -> res result) (mro : list cname) (g : grid) : res result :=
    if isinstance mro NGrid1D then f (eval_arg g) else f g.
  (* AbstractMaker.result: via_grid_2d / via_grid_2d_irr / via_grid_1d need the attributes of their class (mask ...): an
     object whose class promises them without having them does not exist -- placeholder; no branch: the function's own
     result is handed back *)
  Definition via (d : maker) (b : branch) (g : grid) (r : result) : res output :=
    match b with
    | BRaw => wrap d (GRaw (coords_of g)) r
    | _ => if branch_eqb b (branch_of g) then wrap d g r else unmodelled
    end.
  Definition maker_result_obj (d : maker) (f : grid -> res result) (mro : list cname) (g : grid) : res output :=
    bind (evaluate_func_obj f mro g) (via d (dispatch mro) g).
  (* project_grid's wrapper: the same chain, GridException at the end *)
  Definition project_grid_obj (o : profile) (remove_centre : bool) (f : grid -> res result) (mro : list cname) (g : grid)
    : res output :=
    match dispatch mro with
    | BRaw => Raise OtherException
    | b => if branch_eqb b (branch_of g) then project_grid o remove_centre f g else unmodelled
    end.
End Obj.

(* ====================================================================== correspondence *)
(* specification side, independent of [dispatch]: the class of the data is somewhere along the MRO and no other accepted
   class is (single inheritance from exactly one accepted class) *)
Definition well_classedb (mro : list cname) (c : cname) : bool :=
  isinstance mro c && forallb (fun c' => negb (accepted c') || cname_eqb c' c) mro.
Definition spec_class (s : gspec) : cname :=
  match spec_mask2 s, spec_mask1 s, s with
  | Some _, _, _ => NGrid2D
  | _, Some _, _ => NGrid1D
  | _, _, SIrr _ => NGrid2DIrregular
  | _, _, _ => NNdarray
  end.

Inductive casex := KObj (mros : list (list cname)) (k : case).
Definition grids_of (k : case) : list gspec :=
  match k with
  | KMake _ s _ _ _ | KProject _ _ _ s _ _ _ | KRelocate _ _ s _ _ _ | KStack _ _ _ _ _ s _ _ _ => [s]
  | KShape _ _ _ => []
  | KHist _ gs _ => gs
  end.
Definition agree_x (k : casex) : bool :=
  match k with
  | KObj mros k =>
      Nat.eqb (length mros) (length (grids_of k))
      && forallb (fun ms => branch_eqb (dispatch (fst ms)) (@branch_of QOps (build (snd ms)))) (combine mros (grids_of k))
      && agree k
  end.
Definition spec_ok_x (k : casex) : bool :=
  match k with
  | KObj mros k =>
      Nat.eqb (length mros) (length (grids_of k))
      && forallb (fun ms => well_classedb (fst ms) (spec_class (snd ms))) (combine mros (grids_of k))
      && spec_ok k
  end.
Definition checkx (k : casex) : nat := verdict (agree_x k) (spec_ok_x k).
