"""py2v plug-in `geometry`: FAIL-CLOSED translation of the float geometry code of PyAutoArray to Gallina over NumOps.

Emits coq/Gen/Gen_geometry.v from
  autoarray/geometry/geometry_util.py   (scalar conversions, the slim-grid conversion loops)
  autoarray/geometry/geometry_2d.py     (Geometry2D: shape_native_scaled, scaled_maxima, scaled_minima, extent)
  autoarray/geometry/geometry_1d.py     (Geometry1D: the same four properties)
  autoarray/mask/mask_2d_util.py        (mask_2d_centres_from; the circular / annular / anti-annular constructor loops)
  autoarray/structures/grids/grid_2d_util.py, grid_1d_util.py  (pixel-centre grids from a mask)

Scope (everything else raises py2v.Fail naming the node -- never guessed):
  * straight-line functions: `name = expr` assignments, a final `return expr`; docstrings skipped;
  * expressions: int / float constants (floats must be dyadic, emitted as exact fractions), names, tuples, constant
    subscripts of tuples, + - * / unary -, x**2, int(), float(), np.sqrt, comparisons (also chained), and/or/not,
    keyword calls of other translated functions, `self.<attr>` inside the pinned geometry classes;
  * three loop shapes, recognised literally (see LOOPS below): the row-wise map over a slim grid, the masked
    row-major gather with a running index, and the `np.full(shape, True)` + conditional `= False` double loop.
Types are declared (SPEC tables), not inferred: Z (python int), T (python/numpy float -> NumOps carrier), tuples of these,
`grid` = list (T*T), `vec` = list T, `mask` = list (list bool).  A python 1-tuple is its single component.
Semantics kept: operation ORDER and association exactly as written (so that exact-rational execution follows the
code's own arithmetic), `int()` = truncation toward zero (NumOps.trunc), `/` = NumOps.div (division by zero is not
modelled: theorems carry `pixel_scale > 0`), values written into a float array by `a[i] = int(..)` are re-injected by ofZ.
"""
import ast, os, textwrap
from fractions import Fraction
import py2v
from py2v import Fail, fail, find_def, pinned, write_if_changed

# ------------------------------------------------------------------ types
Z, T, B = "Z", "T", "bool"
def Tup(*ts): return ("tup",) + tuple(ts)
ZZ, TT, T4 = Tup(Z, Z), Tup(T, T), Tup(T, T, T, T)
GRID, VEC, MASK, MASK1 = "grid", "vec", "mask", "mask1"

def coq_ty(t):
    if t == Z: return "Z"
    if t == T: return "T O"
    if t == B: return "bool"
    if t == GRID: return "list (T O * T O)"
    if t == VEC: return "list (T O)"
    if t == MASK: return "list (list bool)"
    if t == MASK1: return "list bool"
    if isinstance(t, tuple) and t[0] == "tup":
        return "(" + " * ".join(coq_ty(x) for x in t[1:]) + ")"
    raise Fail(f"py2v: no Coq type for {t}")

def proj(e, t, k):
    """k-th component of a Coq tuple expression of python type t (left-nested pairs)"""
    n = len(t) - 1
    if not (0 <= k < n): raise Fail(f"py2v: tuple index {k} out of range for {t}")
    s = e
    for _ in range(n - 1 - k if k > 0 else n - 1): s = f"(fst {s})"
    if k > 0: s = f"(snd {s})"
    return s, t[1 + k]

class Ctx:
    def __init__(self, funcs, env, selfinfo=None):
        self.funcs = funcs        # name -> (coq_name, [(pname, type)], ret_type)
        self.env = dict(env)      # local name -> type
        self.selfinfo = selfinfo  # (class prefix, {attr: type}, {prop: type}, coq args string)
        self.subst = {}           # ast.dump(node) -> (coq, type): array reads `a[i, 0]` bound by a loop pattern
        self.real = False         # True: a real-number-only function (np.arctan2 / sin / cos / radians allowed)

def const(v, node):
    if isinstance(v, bool): fail(node, "boolean constant")
    if isinstance(v, int): return (f"({v})" if v < 0 else str(v)), Z
    if isinstance(v, float):
        f = Fraction(v)
        if f.denominator & (f.denominator - 1): fail(node, "non-dyadic float constant")
        if f.denominator > 2 ** 20 or abs(f.numerator) > 2 ** 40: fail(node, "float constant is not a short dyadic")
        num = f"(ofZ O ({f.numerator}))" if f.numerator < 0 else f"(ofZ O {f.numerator})"
        return (num if f.denominator == 1 else f"(div O {num} (ofZ O {f.denominator}))"), T
    fail(node, "constant")

def to_T(e, t, node):
    if t == T: return e
    if t == Z: return f"(ofZ O {e})"
    fail(node, f"expected a number, got {t}")

def is_np(node, name):
    return isinstance(node, ast.Attribute) and isinstance(node.value, ast.Name) and node.value.id == "np" and node.attr == name

def tr(node, cx):
    """-> (coq expression, type)"""
    key = ast.dump(node)
    if key in cx.subst: return cx.subst[key]
    if isinstance(node, ast.Constant): return const(node.value, node)
    if isinstance(node, ast.Name):
        if node.id not in cx.env: fail(node, "unknown name")
        return node.id, cx.env[node.id]
    if isinstance(node, ast.Tuple):
        parts = [tr(e, cx) for e in node.elts]
        if len(parts) == 1: return parts[0]
        return "(" + ", ".join(p[0] for p in parts) + ")", Tup(*[p[1] for p in parts])
    if isinstance(node, ast.Attribute):
        if isinstance(node.value, ast.Name) and node.value.id == "self" and cx.selfinfo:
            prefix, attrs, props, args = cx.selfinfo
            if node.attr in attrs: return node.attr, attrs[node.attr]
            if node.attr in props: return f"({prefix}_{node.attr} {args})", props[node.attr]
        fail(node, "attribute")
    if isinstance(node, ast.Subscript):
        idx = node.slice
        if isinstance(idx, ast.Constant) and isinstance(idx.value, int) and not isinstance(idx.value, bool):
            e, t = tr(node.value, cx)
            if t in (Z, T):                 # a python 1-tuple is represented by its component
                if idx.value != 0: fail(node, "index into a 1-tuple")
                return e, t
            if isinstance(t, tuple) and t[0] == "tup": return proj(e, t, idx.value)
        fail(node, "subscript")
    if isinstance(node, ast.UnaryOp):
        if isinstance(node.op, ast.USub):
            e, t = tr(node.operand, cx)
            if t == Z: return f"(- {e})", Z
            if t == T: return f"(opp O {e})", T
        if isinstance(node.op, ast.Not):
            e, t = tr(node.operand, cx)
            if t == B: return f"(negb {e})", B
        fail(node, "unary operator")
    if isinstance(node, ast.BinOp):
        a, ta = tr(node.left, cx); b, tb = tr(node.right, cx)
        if isinstance(node.op, ast.Pow):
            if isinstance(node.right, ast.Constant) and node.right.value in (2, 2.0) and not isinstance(node.right.value, bool):
                if ta == T: return f"(mul O {a} {a})", T
                if ta == Z: return f"({a} * {a})", Z
            fail(node, "power other than **2")
        if ta not in (Z, T) or tb not in (Z, T): fail(node, "arithmetic on non-numbers")
        if isinstance(node.op, ast.Div):
            return f"(div O {to_T(a, ta, node)} {to_T(b, tb, node)})", T
        ops = {ast.Add: ("+", "add"), ast.Sub: ("-", "sub"), ast.Mult: ("*", "mul")}
        for k, (zo, to) in ops.items():
            if isinstance(node.op, k):
                if ta == Z and tb == Z: return f"({a} {zo} {b})", Z
                return f"({to} O {to_T(a, ta, node)} {to_T(b, tb, node)})", T
        fail(node, "binary operator")
    if isinstance(node, ast.Compare):
        terms = [tr(node.left, cx)] + [tr(c, cx) for c in node.comparators]
        outs = []
        for (a, ta), op, (b, tb) in zip(terms, node.ops, terms[1:]):
            if ta not in (Z, T) or tb not in (Z, T): fail(node, "comparison of non-numbers")
            if ta == Z and tb == Z:
                m = {ast.LtE: f"({a} <=? {b})", ast.Lt: f"({a} <? {b})", ast.GtE: f"({b} <=? {a})", ast.Gt: f"({b} <? {a})"}
            else:
                a2, b2 = to_T(a, ta, node), to_T(b, tb, node)
                m = {ast.LtE: f"(leb O {a2} {b2})", ast.Lt: f"(ltb O {a2} {b2})",
                     ast.GtE: f"(leb O {b2} {a2})", ast.Gt: f"(ltb O {b2} {a2})"}
            if type(op) not in m: fail(node, "comparison operator")
            outs.append(m[type(op)])
        e = outs[0]
        for o in outs[1:]: e = f"(andb {e} {o})"
        return e, B
    if isinstance(node, ast.BoolOp):
        parts = [tr(v, cx) for v in node.values]
        if any(t != B for _, t in parts): fail(node, "and/or of non-booleans")
        f = "andb" if isinstance(node.op, ast.And) else "orb"
        e = parts[0][0]
        for p, _ in parts[1:]: e = f"({f} {e} {p})"
        return e, B
    if isinstance(node, ast.Call):
        fn = node.func
        if isinstance(fn, ast.Name) and fn.id in ("int", "float") and len(node.args) == 1 and not node.keywords:
            e, t = tr(node.args[0], cx)
            if t not in (Z, T): fail(node, "int()/float() of a non-number")
            if fn.id == "float": return to_T(e, t, node), T
            return (e if t == Z else f"(trunc {e})"), Z
        if is_np(fn, "sqrt") and len(node.args) == 1 and not node.keywords:
            e, t = tr(node.args[0], cx)
            return f"(sqrtT O {to_T(e, t, node)})", T
        if cx.real and not node.keywords:
            for np_name, arity, coq in (("arctan2", 2, "atan2R"), ("radians", 1, "radiansR"), ("sin", 1, "sin"), ("cos", 1, "cos")):
                if is_np(fn, np_name) and len(node.args) == arity:
                    args = [to_T(*tr(a, cx), node) for a in node.args]
                    return f"({coq} " + " ".join(args) + ")", T
        name = None
        if isinstance(fn, ast.Name): name = fn.id
        elif isinstance(fn, ast.Attribute) and isinstance(fn.value, ast.Name) and fn.value.id in ("geometry_util", "mask_2d_util"):
            name = fn.attr
        if name in cx.funcs:
            cname, params, ret = cx.funcs[name]
            if node.args and (node.keywords or len(node.args) != len(params)):
                fail(node, "mixed / partial positional arguments in a call of a translated function")
            kw = {p: a for (p, _), a in zip(params, node.args)} if node.args else {k.arg: k.value for k in node.keywords}
            if set(kw) != {p for p, _ in params}: fail(node, f"arguments of {name} are not exactly {[p for p, _ in params]}")
            args = []
            for p, pt in params:
                e, t = tr(kw[p], cx)
                if t != pt:
                    if pt == T and t == Z: e = to_T(e, t, node)
                    else: fail(node, f"argument {p} of {name}: expected {pt}, got {t}")
                args.append(e)
            if cx.real and name not in REAL_ONLY: cname = f"@{cname} ROps"      # a polymorphic definition used at the reals
            if (not cx.real) and name in REAL_ONLY: fail(node, "a real-number-only function called from executable code")
            return f"({cname} " + " ".join(args) + ")", ret
        fail(node, "call")
    fail(node, "expression")

REAL_ONLY = set()     # names of the functions emitted over R only (they use arctan2 / sin / cos)

def as_real(txt):
    """a definition emitted over the section variable O, specialised to ROps (placed after the section)"""
    import re
    txt = re.sub(r"\bO\b", "ROps", txt)
    return re.sub(r"\(trunc ", "(@trunc ROps ", txt)

def strip_doc(body):
    if body and isinstance(body[0], ast.Expr) and isinstance(body[0].value, ast.Constant) and isinstance(body[0].value.value, str):
        return body[1:]
    return body

def check_args(fn, params, allow_self=False):
    a = fn.args
    names = [x.arg for x in a.args]
    if allow_self:
        if names[:1] != ["self"]: fail(fn, "method without self")
        names = names[1:]
    if a.vararg or a.kwarg or a.kwonlyargs or a.posonlyargs: fail(fn, "unsupported parameter kinds")
    if names != [p for p, _ in params]: fail(fn, f"parameters are {names}, expected {[p for p, _ in params]}")

def lets(stmts, cx):
    """straight-line `name = expr` prefix -> list of `let` lines; extends cx.env"""
    out = []
    for s in stmts:
        if not (isinstance(s, ast.Assign) and len(s.targets) == 1 and isinstance(s.targets[0], ast.Name)): fail(s, "statement")
        e, t = tr(s.value, cx)
        n = s.targets[0].id
        if n in cx.env and cx.env[n] != t: fail(s, "re-assignment at a different type")
        cx.env[n] = t
        out.append(f"let {n} := {e} in")
    return out

def emit(cname, params, ret, body_lines, extra_params=""):
    ps = " ".join(f"({p} : {coq_ty(t)})" for p, t in params)
    return f"Definition {cname} {extra_params}{ps} : {coq_ty(ret)} :=\n  " + "\n  ".join(body_lines) + ".\n"

def tr_straight(fn, cname, params, ret, funcs, selfinfo=None, real=False):
    check_args(fn, params if not selfinfo else [], allow_self=bool(selfinfo))
    cx = Ctx(funcs, {} if selfinfo else dict(params), selfinfo)   # a method sees its object's state only as self.<attr>
    cx.real = real
    body = strip_doc(fn.body)
    if not body or not isinstance(body[-1], ast.Return) or body[-1].value is None: fail(fn, "function does not end in `return expr`")
    lines = lets(body[:-1], cx)
    e, t = tr(body[-1].value, cx)
    if t != ret: fail(body[-1], f"return type {t}, declared {ret}")
    return emit(cname, params, ret, lines + [e])

# ------------------------------------------------------------------ loop shapes (recognised literally)
def key(src):
    return ast.dump(ast.parse(src, mode="eval").body)

def same(node, src):
    """node is literally the expression / assignment target `src`"""
    return ast.dump(node).replace("Store()", "Load()") == key(src)

def stmt_is(node, src):
    return ast.unparse(node) == ast.unparse(ast.parse(src).body[0])

def range_over(node):
    """`for v in range(E):` (no else) -> (v, E)"""
    if not (isinstance(node, ast.For) and isinstance(node.target, ast.Name) and not node.orelse
            and isinstance(node.iter, ast.Call) and isinstance(node.iter.func, ast.Name) and node.iter.func.id == "range"
            and len(node.iter.args) == 1 and not node.iter.keywords):
        fail(node, "loop header is not `for v in range(E)`")
    return node.target.id, node.iter.args[0]

def assigned_name(s):
    if isinstance(s, ast.Assign) and len(s.targets) == 1 and isinstance(s.targets[0], ast.Name): return s.targets[0].id
    return None

def store_value(s, target_src):
    """`target_src = E` -> E"""
    if not (isinstance(s, ast.Assign) and len(s.targets) == 1 and same(s.targets[0], target_src)):
        fail(s, f"statement is not `{target_src} = E`")
    return s.value

def tr_rowmap(fn, cname, params, funcs, src, width):
    """
        OUT = np.zeros((SRC.shape[0], 2))      |  OUT = np.zeros(SRC.shape[0])
        <name = expr>*                          (SRC is a parameter, or bound here by a call that returns a grid)
        for i in range(SRC.shape[0]):           (or OUT.shape[0]: the same number, by the allocation)
            OUT[i, 0] = E0 ; OUT[i, 1] = E1    |  OUT[i] = E
        return OUT
    where the E read SRC only as SRC[i, 0] / SRC[i, 1] and never read OUT or i:   OUT = map (fun row => (E0, E1)) SRC.
    """
    check_args(fn, params)
    cx = Ctx(funcs, dict(params))
    body = strip_doc(fn.body)
    if len(body) < 3 or not (isinstance(body[-1], ast.Return) and isinstance(body[-1].value, ast.Name)):
        fail(fn, "row-map: does not end in `return OUT`")
    out = body[-1].value.id
    loop = body[-2]
    i, bound = range_over(loop)
    pre = body[:-2]
    allocs = [k for k, s in enumerate(pre) if assigned_name(s) == out]
    if len(allocs) != 1: fail(fn, "row-map: OUT is not allocated exactly once")
    if src not in dict(params):
        binds = [k for k, s in enumerate(pre) if assigned_name(s) == src]
        if len(binds) != 1 or binds[0] > allocs[0]: fail(fn, "row-map: SRC is not bound once before the allocation")
    lines = lets([s for k, s in enumerate(pre) if k != allocs[0]], cx)
    if cx.env.get(src) != GRID or out in cx.env or i in cx.env: fail(fn, "row-map: name clash / source is not a grid")
    if not same(pre[allocs[0]].value, f"np.zeros(({src}.shape[0], 2))" if width == 2 else f"np.zeros({src}.shape[0])"):
        fail(pre[allocs[0]], "row-map: allocation is not np.zeros over the rows of the source")
    if not (same(bound, f"{src}.shape[0]") or same(bound, f"{out}.shape[0]")): fail(loop, "row-map: loop bound is not the row count")
    cxb = Ctx(funcs, {k: v for k, v in cx.env.items() if k != src})     # SRC, OUT, i are unreadable except as SRC[i, k]
    cxb.subst = {key(f"{src}[{i}, 0]"): ("(fst row)", T), key(f"{src}[{i}, 1]"): ("(snd row)", T)}
    targets = [f"{out}[{i}, 0]", f"{out}[{i}, 1]"] if width == 2 else [f"{out}[{i}]"]
    if len(loop.body) != len(targets): fail(loop, "row-map: loop body is not one store per output column")
    es = []
    for s, tg in zip(loop.body, targets):
        e, t = tr(store_value(s, tg), cxb)
        es.append(to_T(e, t, s))
    rowfun = f"(fun row : {coq_ty(TT)} => " + (f"({es[0]}, {es[1]})" if width == 2 else es[0]) + ")"
    return emit(cname, params, GRID if width == 2 else VEC, lines + [f"map {rowfun} {src}"])

def tr_gather(fn, cname, params, funcs, mask, dims, total_call):
    """
        total_pixels = <total_call>(MASK)                 (pinned: the number of False entries)
        OUT = np.zeros(shape=(total_pixels, 2))           | np.zeros(shape=(total_pixels,))
        <name = expr>*                                    (MASK.shape is the mask's shape)
        index = 0
        for y in range(MASK.shape[0]):
            for x in range(MASK.shape[1]):                (dims = 1: a single loop over x)
                if not MASK[y, x]:
                    OUT[index, 0] = E0 ; OUT[index, 1] = E1 ; index += 1      | OUT[index] = E ; index += 1
        return OUT
    = the row-major concatenation, over the unmasked pixels, of [(E0, E1)]  (E may read y, x but not index / OUT / MASK).
    """
    check_args(fn, params)
    cx = Ctx(funcs, {k: v for k, v in params if k != mask})
    body = strip_doc(fn.body)
    if len(body) < 6 or not (isinstance(body[-1], ast.Return) and isinstance(body[-1].value, ast.Name)):
        fail(fn, "gather: does not end in `return OUT`")
    out = body[-1].value.id
    if not stmt_is(body[0], f"total_pixels = {total_call}({mask})"): fail(body[0], "gather: first statement is not the unmasked count")
    if not stmt_is(body[1], f"{out} = np.zeros(shape=(total_pixels, 2))" if dims == 2 else f"{out} = np.zeros(shape=(total_pixels,))"):
        fail(body[1], "gather: allocation is not np.zeros(shape=(total_pixels, ..))")
    if not stmt_is(body[-3], "index = 0"): fail(body[-3], "gather: `index = 0` does not precede the loop")
    shape_ty = ZZ if dims == 2 else Z
    shape_coq = f"(mshape {mask})" if dims == 2 else f"(Z.of_nat (length {mask}))"
    cx.subst[key(f"{mask}.shape")] = (shape_coq, shape_ty)
    lines = lets(body[2:-3], cx)
    for n in ("index", "total_pixels", out):
        if n in cx.env: fail(fn, "gather: name clash")
    loop = body[-2]
    vs = []
    for d in range(dims):
        v, bound = range_over(loop)
        if not same(bound, f"{mask}.shape[{d}]"): fail(loop, "gather: loop bound is not the mask's shape")
        if v in cx.env or v in vs: fail(loop, "gather: loop variable shadows a name")
        vs.append(v)
        if len(loop.body) != 1: fail(loop, "gather: loop body is not a single statement")
        loop = loop.body[0]
    test = loop
    cond = f"not {mask}[{vs[0]}, {vs[1]}]" if dims == 2 else f"not {mask}[{vs[0]}]"
    if not (isinstance(test, ast.If) and not test.orelse and same(test.test, cond)): fail(test, f"gather: not `if {cond}:` without else")
    targets = [f"{out}[index, 0]", f"{out}[index, 1]"] if dims == 2 else [f"{out}[index]"]
    if len(test.body) != len(targets) + 1 or not stmt_is(test.body[-1], "index += 1"): fail(test, "gather: body is not the stores followed by `index += 1`")
    cxb = Ctx(funcs, dict(cx.env)); cxb.subst = dict(cx.subst)
    for v in vs: cxb.env[v] = Z
    es = []
    for s, tg in zip(test.body, targets):
        e, t = tr(store_value(s, tg), cxb)
        es.append(to_T(e, t, s))
    if dims == 2:
        y, x = vs
        expr = (f"flat_map (fun {y} : Z => flat_map (fun {x} : Z => if mget2 {mask} {y} {x} then [] else [({es[0]}, {es[1]})]) "
                f"(zrange (snd (mshape {mask})))) (zrange (fst (mshape {mask})))")
        ret = GRID
    else:
        x = vs[0]
        expr = f"flat_map (fun {x} : Z => if mget1 {mask} {x} then [] else [{es[0]}]) (zrange (Z.of_nat (length {mask})))"
        ret = VEC
    return emit(cname, params, ret, lines + [expr])

def tr_maskfill(fn, cname, params, funcs, shape, real=False):
    """
        MASK = np.full(SHAPE, True)
        <name = expr>*                                   (MASK.shape is SHAPE)
        for y in range(MASK.shape[0]):
            for x in range(MASK.shape[1]):
                <name = expr>*
                if COND:
                    MASK[y, x] = False
        return MASK
    = the SHAPE-d array whose (y, x) entry is `if COND then False else True`.
    """
    check_args(fn, params)
    cx = Ctx(funcs, dict(params))
    cx.real = real
    body = strip_doc(fn.body)
    if len(body) < 3 or not (isinstance(body[-1], ast.Return) and isinstance(body[-1].value, ast.Name)):
        fail(fn, "mask-fill: does not end in `return MASK`")
    m = body[-1].value.id
    if m in cx.env: fail(fn, "mask-fill: name clash")
    if not stmt_is(body[0], f"{m} = np.full({shape}, True)"): fail(body[0], "mask-fill: first statement is not np.full(shape, True)")
    if cx.env.get(shape) != ZZ: fail(fn, "mask-fill: shape is not a pair of ints")
    cx.subst[key(f"{m}.shape")] = (shape, ZZ)
    lines = lets(body[1:-2], cx)
    loop = body[-2]
    vs = []
    for d in range(2):
        v, bound = range_over(loop)
        if not same(bound, f"{m}.shape[{d}]"): fail(loop, "mask-fill: loop bound is not the mask's shape")
        if v in cx.env or v in vs: fail(loop, "mask-fill: loop variable shadows a name")
        vs.append(v)
        if d == 0:
            if len(loop.body) != 1: fail(loop, "mask-fill: outer loop body is not the inner loop")
            loop = loop.body[0]
    y, x = vs
    cxb = Ctx(funcs, dict(cx.env)); cxb.subst = dict(cx.subst); cxb.real = real
    cxb.env[y] = Z; cxb.env[x] = Z
    inner = loop.body
    if not inner or not isinstance(inner[-1], ast.If): fail(loop, "mask-fill: inner body does not end in an `if`")
    inner_lets = lets(inner[:-1], cxb)
    test = inner[-1]
    if test.orelse or len(test.body) != 1 or not stmt_is(test.body[0], f"{m}[{y}, {x}] = False"):
        fail(test, "mask-fill: the `if` is not `if COND: MASK[y, x] = False`")
    c, t = tr(test.test, cxb)
    if t != B: fail(test, "mask-fill: condition is not boolean")
    expr = (f"map (fun {y} : Z => map (fun {x} : Z =>\n      " + "\n      ".join(inner_lets + [f"if {c} then false else true"])
            + f")\n    (zrange (snd {shape}))) (zrange (fst {shape}))")
    return emit(cname, params, MASK, lines + [expr])

# ------------------------------------------------------------------ classes: an instance is its constructor arguments
def check_init(fn, names, convert, what):
    """__init__ stores exactly its arguments (pixel_scales optionally through the pinned float -> pair widening)"""
    got = [ast.unparse(s) for s in strip_doc(fn.body)]
    exp = ([f"pixel_scales = geometry_util.{convert}(pixel_scales=pixel_scales)"] if convert else []) + [f"self.{n} = {n}" for n in names]
    if got != exp or [a.arg for a in fn.args.args] != ["self"] + names:
        raise Fail(f"py2v: pinned glue changed: {what}")

def tr_class(cls, cnode, attrs, plan, funcs, out):
    params = list(attrs.items())
    args = " ".join(attrs)
    props = {}
    for pname, ret in plan:
        fn = find_def(cnode.body, pname)
        if not py2v.is_property(fn): raise Fail(f"py2v: {cls}.{pname} is not a property")
        txt = tr_straight(fn, f"{cls}_{pname}", params, ret, funcs, selfinfo=(cls, attrs, dict(props), args))
        props[pname] = ret
        out.append(f"(* {cls}.{pname}: line {fn.lineno} *)\n" + txt)

HEADER = """(* GENERATED by /verif/py2v/gen_geometry.py (py2v plug-in) from {src} -- do not edit; regenerated on every run *)
From Coq Require Import ZArith List Bool Reals.
From PAV Require Import Base.NumOps.
Import ListNotations.
Local Open Scope Z_scope.

(* the fixed vocabulary of the translation of the real-number-only functions (NumPy's oracle contract):
   numpy.arctan2(y, x) = the angle of the point (x, y) in (-pi, pi], 0 at the origin;  numpy.radians(d) = d pi / 180;
   numpy.sin / cos / sqrt = the mathematical functions *)
Definition atan2R (y x : R) : R :=
  (if Rlt_dec 0 x then atan (y / x)
   else if Rlt_dec x 0 then (if Rle_dec 0 y then atan (y / x) + PI else atan (y / x) - PI)
   else if Rlt_dec 0 y then PI / 2 else if Rlt_dec y 0 then - (PI / 2) else 0)%R.
Definition radiansR (deg : R) : R := (deg * PI / 180)%R.

(* the fixed vocabulary of the translation: range(n), array shape, array reads (a read outside the array is never reached
   by the translated loops, whose bounds are the array's own shape) *)
Definition zrange (n : Z) : list Z := map Z.of_nat (seq 0 (Z.to_nat n)).
Definition mshape (m : list (list bool)) : Z * Z := (Z.of_nat (length m), Z.of_nat (length (hd [] m))).
Definition mget2 (m : list (list bool)) (y x : Z) : bool := nth (Z.to_nat x) (nth (Z.to_nat y) m []) true.
Definition mget1 (m : list bool) (x : Z) : bool := nth (Z.to_nat x) m true.

Section Gen.
Context {{O : NumOps}}.
"""
FOOTER = "End Gen.\n"

COUNT2 = '''
    def total_pixels_2d_from(mask_2d):
        total_regular_pixels = 0
        for y in range(mask_2d.shape[0]):
            for x in range(mask_2d.shape[1]):
                if not mask_2d[y, x]:
                    total_regular_pixels += 1
        return total_regular_pixels
    '''
COUNT1 = '''
    def total_pixels_1d_from(mask_1d):
        total_regular_pixels = 0
        for x in range(mask_1d.shape[0]):
            if not mask_1d[x]:
                total_regular_pixels += 1
        return total_regular_pixels
    '''

def parse(repo, rel):
    return ast.parse(open(os.path.join(repo, rel)).read())

def unannotated(fn):
    """pinned() compares with un-annotated source"""
    fn = ast.parse(ast.unparse(fn)).body[0]
    fn.returns = None; fn.decorator_list = []
    for a in fn.args.args: a.annotation = None
    return fn

def gen_geometry(repo, outdir):
    os.makedirs(outdir, exist_ok=True)
    out = []
    out_real = []
    funcs = {}
    REAL_ONLY.clear()
    def add(tree, name, params, ret, kind="straight", real=False, **kw):
        fn = find_def(tree.body, name)
        if not isinstance(fn, ast.FunctionDef): raise Fail(f"py2v: {name} is not a function")
        if kind == "straight": txt = tr_straight(fn, name, params, ret, funcs, real=real)
        elif kind == "rowmap": txt = tr_rowmap(fn, name, params, funcs, **kw)
        elif kind == "gather": txt = tr_gather(fn, name, params, funcs, **kw)
        elif kind == "maskfill": txt = tr_maskfill(fn, name, params, funcs, real=real, **kw)
        else: raise Fail("py2v: unknown kind " + kind)
        funcs[name] = (name, params, ret)
        if real:
            REAL_ONLY.add(name)
            out_real.append(f"(* {name}: line {fn.lineno} *)\n" + as_real(txt))
        else:
            out.append(f"(* {name}: line {fn.lineno} *)\n" + txt)

    gu = parse(repo, "autoarray/geometry/geometry_util.py")
    add(gu, "central_pixel_coordinates_1d_from", [("shape_slim", Z)], T)
    add(gu, "central_scaled_coordinate_1d_from", [("shape_slim", Z), ("pixel_scales", T), ("origin", T)], T)
    add(gu, "pixel_coordinates_1d_from", [("scaled_coordinates_1d", T), ("shape_slim", Z), ("pixel_scales", T), ("origins", T)], Z)
    add(gu, "scaled_coordinates_1d_from", [("pixel_coordinates_1d", T), ("shape_slim", Z), ("pixel_scales", T), ("origins", T)], T)
    add(gu, "central_pixel_coordinates_2d_from", [("shape_native", ZZ)], TT)
    add(gu, "central_scaled_coordinate_2d_from", [("shape_native", ZZ), ("pixel_scales", TT), ("origin", TT)], TT)
    add(gu, "pixel_coordinates_2d_from", [("scaled_coordinates_2d", TT), ("shape_native", ZZ), ("pixel_scales", TT), ("origins", TT)], ZZ)
    add(gu, "scaled_coordinates_2d_from", [("pixel_coordinates_2d", TT), ("shape_native", ZZ), ("pixel_scales", TT), ("origins", TT)], TT)
    P = [("shape_native", ZZ), ("pixel_scales", TT), ("origin", TT)]
    add(gu, "grid_pixels_2d_slim_from", [("grid_scaled_2d_slim", GRID)] + P, GRID, kind="rowmap", src="grid_scaled_2d_slim", width=2)
    add(gu, "grid_pixel_centres_2d_slim_from", [("grid_scaled_2d_slim", GRID)] + P, GRID, kind="rowmap", src="grid_scaled_2d_slim", width=2)
    add(gu, "grid_pixel_indexes_2d_slim_from", [("grid_scaled_2d_slim", GRID)] + P, VEC, kind="rowmap", src="grid_pixels_2d_slim", width=1)
    add(gu, "grid_scaled_2d_slim_from", [("grid_pixels_2d_slim", GRID)] + P, GRID, kind="rowmap", src="grid_pixels_2d_slim", width=2)

    mu = parse(repo, "autoarray/mask/mask_2d_util.py")
    pinned(unannotated(find_def(mu.body, "total_pixels_2d_from")), COUNT2, "mask_2d_util.total_pixels_2d_from")
    add(mu, "mask_2d_centres_from", [("shape_native", ZZ), ("pixel_scales", TT), ("centre", TT)], TT)
    S = [("shape_native", ZZ), ("pixel_scales", TT)]
    add(mu, "mask_2d_circular_from", S + [("radius", T), ("centre", TT)], MASK, kind="maskfill", shape="shape_native")
    add(mu, "mask_2d_circular_annular_from", S + [("inner_radius", T), ("outer_radius", T), ("centre", TT)], MASK,
        kind="maskfill", shape="shape_native")
    add(mu, "mask_2d_circular_anti_annular_from",
        S + [("inner_radius", T), ("outer_radius", T), ("outer_radius_2_scaled", T), ("centre", TT)], MASK,
        kind="maskfill", shape="shape_native")

    add(mu, "elliptical_radius_from", [("y_scaled", T), ("x_scaled", T), ("angle", T), ("axis_ratio", T)], T, real=True)
    add(mu, "mask_2d_elliptical_from", S + [("major_axis_radius", T), ("axis_ratio", T), ("angle", T), ("centre", TT)], MASK,
        kind="maskfill", real=True, shape="shape_native")
    add(mu, "mask_2d_elliptical_annular_from",
        S + [("inner_major_axis_radius", T), ("inner_axis_ratio", T), ("inner_phi", T),
             ("outer_major_axis_radius", T), ("outer_axis_ratio", T), ("outer_phi", T), ("centre", TT)], MASK,
        kind="maskfill", real=True, shape="shape_native")

    g2u = parse(repo, "autoarray/structures/grids/grid_2d_util.py")
    add(g2u, "grid_2d_slim_via_mask_from", [("mask_2d", MASK), ("pixel_scales", TT), ("origin", TT)], GRID,
        kind="gather", mask="mask_2d", dims=2, total_call="mask_2d_util.total_pixels_2d_from")
    m1u = parse(repo, "autoarray/mask/mask_1d_util.py")
    pinned(unannotated(find_def(m1u.body, "total_pixels_1d_from")), COUNT1, "mask_1d_util.total_pixels_1d_from")
    g1u = parse(repo, "autoarray/structures/grids/grid_1d_util.py")
    add(g1u, "grid_1d_slim_via_mask_from", [("mask_1d", MASK1), ("pixel_scales", T), ("origin", T)], VEC,
        kind="gather", mask="mask_1d", dims=1, total_call="mask_1d_util.total_pixels_1d_from")

    # ---- Geometry2D / Geometry1D
    g2 = find_def(parse(repo, "autoarray/geometry/geometry_2d.py").body, "Geometry2D")
    check_init(find_def(g2.body, "__init__"), ["shape_native", "pixel_scales", "origin"],
               convert="convert_pixel_scales_2d", what="Geometry2D.__init__")
    pinned(unannotated(find_def(gu.body, "convert_pixel_scales_2d")), '''
        def convert_pixel_scales_2d(pixel_scales):
            if type(pixel_scales) is float:
                pixel_scales = (pixel_scales, pixel_scales)
            return pixel_scales
        ''', "geometry_util.convert_pixel_scales_2d")
    tr_class("Geometry2D", g2, {"shape_native": ZZ, "pixel_scales": TT, "origin": TT},
             [("shape_native_scaled", TT), ("scaled_maxima", TT), ("scaled_minima", TT), ("extent", T4)], funcs, out)
    g1 = find_def(parse(repo, "autoarray/geometry/geometry_1d.py").body, "Geometry1D")
    check_init(find_def(g1.body, "__init__"), ["shape_native", "pixel_scales", "origin"], convert=None, what="Geometry1D.__init__")
    tr_class("Geometry1D", g1, {"shape_native": Z, "pixel_scales": T, "origin": T},
             [("shape_slim_scaled", T), ("scaled_maxima", T), ("scaled_minima", T), ("extent", TT)], funcs, out)

    srcs = ("autoarray/geometry/{geometry_util,geometry_2d,geometry_1d}.py, autoarray/mask/mask_2d_util.py, "
            "autoarray/structures/grids/{grid_2d_util,grid_1d_util}.py")
    text = (HEADER.format(src=srcs) + "\n" + "\n".join(out) + "\n" + FOOTER
            + "\n(* ---- real-number-only definitions (arctan2 / sin / cos: not executable; see Model/C02x.v for the executable form) *)\n"
            + "\n".join(out_real))
    write_if_changed(os.path.join(outdir, "Gen_geometry.v"), text)

TARGETS = {"geometry": gen_geometry}
