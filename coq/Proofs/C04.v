(* C04 -- proofs about the model of the two inversion formalisms (Model/C04.v), at ROps (real numbers). *)
From Coq Require Import ZArith Reals Lra Lia List Bool Arith Permutation.
From PAV Require Import Base.Res Base.NumOps Base.Sum Model.C03 Model.C04 Model.C04Lib.
Import ListNotations.
Local Open Scope R_scope.

Ltac ropen := cbn [T add sub mul div opp ofZ eqb ltb leb ROps] in *.
Ltac rfix := change (T ROps) with R in *.
Ltac runfold := unfold nthT, sq, zero, one, two in *; ropen.

(* ================================================================== generic list / sum facts *)
Lemma nth_map_seq {A} (f : nat -> A) n i d : (i < n)%nat -> nth i (map f (seq 0 n)) d = f i.
Proof.
  intros H. rewrite (nth_indep _ d (f 0%nat)) by (rewrite map_length, seq_length; exact H).
  rewrite (map_nth f (seq 0 n) 0%nat i), seq_nth by exact H. reflexivity.
Qed.
Lemma nth_map_seq_ge {A} (f : nat -> A) n i d : (n <= i)%nat -> nth i (map f (seq 0 n)) d = d.
Proof. intros H. apply nth_overflow. rewrite map_length, seq_length. exact H. Qed.
Lemma hd_nth {A} (l : list A) d : hd d l = nth 0 l d.
Proof. destruct l; reflexivity. Qed.

Lemma sumR_seq_pick (g : nat -> R) a n p : (a <= p < a + n)%nat ->
  sumR (map (fun x => if Nat.eqb x p then g x else 0) (seq a n)) = g p.
Proof.
  revert a. induction n as [|n IH]; intros a H; [lia|]. cbn [seq map sumR].
  destruct (Nat.eqb a p) eqn:E.
  - apply Nat.eqb_eq in E; subst a. rewrite sumR_map_zero; [lra|].
    intros x Hx. apply in_seq in Hx. destruct (Nat.eqb x p) eqn:E'; auto. apply Nat.eqb_eq in E'. lia.
  - apply Nat.eqb_neq in E. rewrite IH by lia. lra.
Qed.
Lemma sumR_seq_pick_none (g : nat -> R) a n p : ~ (a <= p < a + n)%nat ->
  sumR (map (fun x => if Nat.eqb x p then g x else 0) (seq a n)) = 0.
Proof.
  intros H. apply sumR_map_zero. intros x Hx. apply in_seq in Hx.
  destruct (Nat.eqb x p) eqn:E; auto. apply Nat.eqb_eq in E. lia.
Qed.
Lemma sumR_map_mul_l {A} (f : A -> R) c l : sumR (map (fun x => f x * c) l) = sumR (map f l) * c.
Proof. induction l; cbn; lra. Qed.
Lemma sumR_map_const0 {A} (l : list A) : sumR (map (fun _ => 0) l) = 0.
Proof. apply sumR_map_zero. reflexivity. Qed.
Lemma sumR_flat_map {A B} (f : A -> list B) (g : B -> R) l :
  sumR (map g (flat_map f l)) = sumR (map (fun x => sumR (map g (f x))) l).
Proof. induction l; cbn; auto. rewrite map_app, sumR_app, IHl. reflexivity. Qed.
Lemma sumR_map_map {A B} (f : A -> B) (g : B -> R) l : sumR (map g (map f l)) = sumR (map (fun x => g (f x)) l).
Proof. rewrite map_map. reflexivity. Qed.

(* ---- hits of structured entry lists ---- *)
Lemma hits_as_map t (es : list (nat * R)) :
  sumR (hits t es) = sumR (map (fun e => if Nat.eqb (fst e) t then snd e else 0) es).
Proof. unfold hits. induction es as [|e es IH]; cbn; auto. destruct (Nat.eqb (fst e) t); cbn; lra. Qed.
Lemma hits_flat_map {A} t (f : A -> list (nat * R)) l :
  sumR (hits t (flat_map f l)) = sumR (map (fun x => sumR (hits t (f x))) l).
Proof.
  rewrite hits_as_map, sumR_flat_map. apply sumR_map_ext. intros x _. rewrite hits_as_map. reflexivity.
Qed.
Lemma hits_map {A} t (k : A -> nat) (v : A -> R) l :
  sumR (hits t (map (fun x => (k x, v x)) l)) = sumR (map (fun x => if Nat.eqb (k x) t then v x else 0) l).
Proof. rewrite hits_as_map, map_map. reflexivity. Qed.

(* row-major index decoding *)
Lemma rowmajor_inj (P a b i j : nat) : (b < P)%nat -> (j < P)%nat -> (i * P + j = a * P + b)%nat -> i = a /\ j = b.
Proof.
  intros Hb Hj H.
  assert (i = a).
  { destruct (Nat.lt_trichotomy i a) as [L|[E|L]]; auto; exfalso.
    - assert ((i + 1) * P <= a * P)%nat by (apply Nat.mul_le_mono_r; lia). lia.
    - assert ((a + 1) * P <= i * P)%nat by (apply Nat.mul_le_mono_r; lia). lia. }
  subst. split; auto. lia.
Qed.
Lemma rowmajor_eqb (P a b i j : nat) : (b < P)%nat -> (j < P)%nat ->
  Nat.eqb (i * P + j) (a * P + b) = Nat.eqb i a && Nat.eqb j b.
Proof.
  intros Hb Hj. destruct (Nat.eqb (i * P + j) (a * P + b)) eqn:E.
  - apply Nat.eqb_eq in E. destruct (rowmajor_inj P a b i j Hb Hj E); subst. now rewrite !Nat.eqb_refl.
  - symmetry. apply andb_false_iff. destruct (Nat.eqb i a) eqn:E1; auto. right.
    destruct (Nat.eqb j b) eqn:E2; auto. apply Nat.eqb_eq in E1, E2; subst. rewrite Nat.eqb_refl in E. discriminate.
Qed.
Lemma rowmajor_lt (P n a b : nat) : (a < n)%nat -> (b < P)%nat -> (a * P + b < n * P)%nat.
Proof. intros Ha Hb. assert ((a + 1) * P <= n * P)%nat by (apply Nat.mul_le_mono_r; lia). lia. Qed.

(* ================================================================== matrices as nested lists *)

Lemma mget_R (M : @mat ROps) i j : mget M i j = nth j (nth i M []) 0.
Proof. reflexivity. Qed.
Lemma nthT_R (l : list R) i : @nthT ROps l i = nth i l 0.
Proof. reflexivity. Qed.

Lemma shape_zmat n p : shape n p (@zmat ROps n p).
Proof.
  unfold zmat. split; [apply repeat_length|]. intros a Ha.
  rewrite (nth_indep _ [] (@zeros ROps p)) by (rewrite repeat_length; exact Ha).
  rewrite nth_repeat. unfold zeros. apply repeat_length.
Qed.
Lemma mget_zmat n p a b : mget (@zmat ROps n p) a b = 0.
Proof.
  rewrite mget_R. unfold zmat. destruct (lt_dec a n) as [H|H].
  - rewrite (nth_indep _ [] (@zeros ROps p)) by (rewrite repeat_length; exact H). rewrite nth_repeat. apply nth_zeros_R.
  - rewrite (nth_overflow (repeat (@zeros ROps p) n)) by (rewrite repeat_length; lia). destruct b; reflexivity.
Qed.

Lemma shape_mat_set n p F i j v : shape n p F -> shape n p (@mat_set ROps F i j v).
Proof.
  intros [HL HR]. unfold mat_set. split; [rewrite upd_set_length; exact HL|]. intros a Ha.
  destruct (lt_dec i n) as [Hi|Hi].
  - rewrite nth_upd_set by lia. destruct (Nat.eqb i a) eqn:E; [|auto].
    apply Nat.eqb_eq in E; subst. rewrite upd_set_length. auto.
  - assert (E : upd_set F i (upd_set (nth i F []) j v) = F).
    { clear HR. revert i Hi. rewrite <- HL. clear. induction F as [|x F IH]; intros [|i] Hi; cbn in *; auto; try lia. f_equal. apply IH. lia. }
    rewrite E. auto.
Qed.
Lemma mget_mat_set n p F i j v a b : shape n p F -> (i < n)%nat -> (j < p)%nat ->
  mget (@mat_set ROps F i j v) a b = if Nat.eqb i a && Nat.eqb j b then v else mget F a b.
Proof.
  intros [HL HR] Hi Hj. unfold mat_set. rewrite !mget_R. rewrite nth_upd_set by lia.
  destruct (Nat.eqb i a) eqn:E; cbn [andb]; auto. apply Nat.eqb_eq in E; subst a.
  rewrite nth_upd_set by (rewrite HR; lia). reflexivity.
Qed.
Lemma shape_mat_add n p F i j v : shape n p F -> shape n p (@mat_add ROps F i j v).
Proof.
  intros [HL HR]. unfold mat_add. split; [rewrite upd_set_length; exact HL|]. intros a Ha.
  destruct (lt_dec i n) as [Hi|Hi].
  - rewrite nth_upd_set by lia. destruct (Nat.eqb i a) eqn:E; [|auto].
    apply Nat.eqb_eq in E; subst. rewrite upd_add_length. auto.
  - assert (E : forall r, upd_set F i r = F).
    { clear HR. revert i Hi. rewrite <- HL. clear. induction F as [|x F IH]; intros [|i] Hi r; cbn in *; auto; try lia. f_equal. apply IH. lia. }
    rewrite E. auto.
Qed.
Lemma mget_mat_add n p F i j v a b : shape n p F -> (i < n)%nat -> (j < p)%nat ->
  mget (@mat_add ROps F i j v) a b = mget F a b + (if Nat.eqb i a && Nat.eqb j b then v else 0).
Proof.
  intros [HL HR] Hi Hj. unfold mat_add. rewrite !mget_R. rewrite nth_upd_set by lia.
  destruct (Nat.eqb i a) eqn:E; cbn [andb]; [|lra]. apply Nat.eqb_eq in E; subst a.
  rewrite nth_upd_add by (rewrite HR; lia). reflexivity.
Qed.

Lemma mget_reshape n p (flat : list R) a b : (a < n)%nat -> (b < p)%nat ->
  mget (@reshape ROps n p flat) a b = nth (a * p + b) flat 0.
Proof.
  intros Ha Hb. rewrite mget_R. unfold reshape. rewrite nth_map_seq by exact Ha. rewrite nth_map_seq by exact Hb. reflexivity.
Qed.
Lemma shape_reshape n p (flat : list R) : shape n p (@reshape ROps n p flat).
Proof.
  unfold reshape. split; [now rewrite map_length, seq_length|]. intros a Ha.
  rewrite nth_map_seq by exact Ha. now rewrite map_length, seq_length.
Qed.

(* ================================================================== A. mapping formalism *)
(* ---- data_vector_via_blurred_mapping_matrix_from ---- *)
Lemma dv_blurred_length (B : @mat ROps) d s : length (dv_blurred B d s) = ncols B.
Proof. unfold dv_blurred. rewrite scatter_length. unfold zeros. apply repeat_length. Qed.
Theorem dv_blurred_spec (B : @mat ROps) (d s : list R) p : (p < ncols B)%nat ->
  nth p (dv_blurred B d s) 0 =
  sumR (map (fun i => nth i d 0 * mget B i p / (nth i s 0 * nth i s 0)) (seq 0 (length B))).
Proof.
  intros Hp. unfold dv_blurred. rewrite scatter_gather_zeros.
  - rewrite hits_flat_map. apply sumR_map_ext. intros i _.
    rewrite (hits_map p (fun q => q) (fun q => div ROps (mul ROps (@nthT ROps d i) (@mget ROps B i q)) (@sq ROps (@nthT ROps s i)))).
    rewrite sumR_seq_pick by lia. reflexivity.
  - apply Forall_forall. intros e He. apply in_flat_map in He. destruct He as [i [_ He]].
    apply in_map_iff in He. destruct He as [q [<- Hq]]. apply in_seq in Hq. cbn. lia.
Qed.

(* ---- mapping_matrix / noise_map[:, None] and np.dot(array.T, array) ---- *)
Lemma div_rows_length (B : @mat ROps) s : length (div_rows B s) = length B.
Proof. unfold div_rows. now rewrite map_length, seq_length. Qed.
Lemma mget_div_rows (B : @mat ROps) s i p : (i < length B)%nat -> mget (div_rows B s) i p = mget B i p / nth i s 0.
Proof.
  intros Hi. rewrite !mget_R. unfold div_rows. rewrite nth_map_seq by exact Hi.
  change 0 with (0 : R) at 1. replace (0 : R) with (div ROps 0 (@nthT ROps s i)) at 1 by (cbn; unfold Rdiv; ring).
  rewrite (map_nth (fun b => div ROps b (@nthT ROps s i))). reflexivity.
Qed.
Lemma ncols_div_rows (B : @mat ROps) s : ncols (div_rows B s) = ncols B.
Proof.
  unfold ncols, div_rows. destruct B as [|r B]; [reflexivity|]. cbn [length seq map hd nth]. now rewrite map_length.
Qed.
Lemma div_rows_sq_length (B : @mat ROps) s : length (div_rows_sq B s) = length B.
Proof. unfold div_rows_sq. now rewrite map_length, seq_length. Qed.
Lemma mget_div_rows_sq (B : @mat ROps) s i p : (i < length B)%nat ->
  mget (div_rows_sq B s) i p = mget B i p / (nth i s 0 * nth i s 0).
Proof.
  intros Hi. rewrite !mget_R. unfold div_rows_sq. rewrite nth_map_seq by exact Hi.
  change 0 with (0 : R) at 1. replace (0 : R) with (div ROps 0 (sq (@nthT ROps s i))) at 1 by (cbn; unfold Rdiv; ring).
  rewrite (map_nth (fun b => div ROps b (sq (@nthT ROps s i)))). reflexivity.
Qed.
Lemma ncols_div_rows_sq (B : @mat ROps) s : ncols (div_rows_sq B s) = ncols B.
Proof.
  unfold ncols, div_rows_sq. destruct B as [|r B]; [reflexivity|]. cbn [length seq map hd nth]. now rewrite map_length.
Qed.

Lemma shape_dotTN (A A' : @mat ROps) : shape (ncols A) (ncols A') (dotTN A A').
Proof.
  unfold dotTN. split; [now rewrite map_length, seq_length|]. intros a Ha.
  rewrite nth_map_seq by exact Ha. now rewrite map_length, seq_length.
Qed.
Lemma mget_dotTN (A A' : @mat ROps) p q : (p < ncols A)%nat -> (q < ncols A')%nat ->
  mget (dotTN A A') p q = sumR (map (fun i => mget A i p * mget A' i q) (seq 0 (length A))).
Proof.
  intros Hp Hq. rewrite mget_R. unfold dotTN. rewrite nth_map_seq by exact Hp. rewrite nth_map_seq by exact Hq.
  rewrite sumT_sumR. reflexivity.
Qed.
Lemma shape_dotNN (A A' : @mat ROps) : shape (length A) (ncols A') (dotNN A A').
Proof.
  unfold dotNN. split; [now rewrite map_length, seq_length|]. intros a Ha.
  rewrite nth_map_seq by exact Ha. now rewrite map_length, seq_length.
Qed.
Lemma mget_dotNN (A A' : @mat ROps) i q : (i < length A)%nat -> (q < ncols A')%nat ->
  mget (dotNN A A') i q = sumR (map (fun k => mget A i k * mget A' k q) (seq 0 (length A'))).
Proof.
  intros Hp Hq. rewrite mget_R. unfold dotNN. rewrite nth_map_seq by exact Hp. rewrite nth_map_seq by exact Hq.
  rewrite sumT_sumR. reflexivity.
Qed.

(* ---- curvature_matrix_with_added_to_diag_from ---- *)
Lemma shape_add_to_diag n F v idx : shape n n F -> shape n n (@add_to_diag ROps F v idx).
Proof. unfold add_to_diag. revert F. induction idx as [|i idx IH]; intros F H; cbn; auto. apply IH. now apply shape_mat_add. Qed.
Theorem add_to_diag_spec n (F : @mat ROps) v idx a b : shape n n F -> Forall (fun i => (i < n)%nat) idx ->
  mget (add_to_diag F v idx) a b = mget F a b + (if Nat.eqb a b then INR (count_occ Nat.eq_dec idx a) * v else 0).
Proof.
  unfold add_to_diag. revert F. induction idx as [|i idx IH]; intros F HS HF; cbn [fold_left count_occ].
  - destruct (Nat.eqb a b); cbn; lra.
  - inversion HF as [|? ? Hi HF']; subst. rewrite IH; [|now apply shape_mat_add|exact HF'].
    rewrite (mget_mat_add n n) by auto.
    destruct (Nat.eq_dec i a) as [E|E].
    + subst i. rewrite Nat.eqb_refl. cbn [andb]. destruct (Nat.eqb a b); [|lra]. rewrite S_INR. lra.
    + apply Nat.eqb_neq in E. rewrite E. cbn [andb]. lra.
Qed.
Corollary add_to_diag_nodup n (F : @mat ROps) v idx a b : shape n n F -> Forall (fun i => (i < n)%nat) idx -> NoDup idx ->
  mget (add_to_diag F v idx) a b = mget F a b + (if Nat.eqb a b && existsb (Nat.eqb a) idx then v else 0).
Proof.
  intros HS HF HN. rewrite (add_to_diag_spec n) by auto. f_equal. destruct (Nat.eqb a b); cbn [andb]; auto.
  destruct (existsb (Nat.eqb a) idx) eqn:E.
  - apply existsb_exists in E. destruct E as [x [Hx E]]. apply Nat.eqb_eq in E; subst x.
    apply (NoDup_count_occ' Nat.eq_dec) in Hx; auto. rewrite Hx. cbn. lra.
  - assert (~ In a idx). { intros Hin. assert (existsb (Nat.eqb a) idx = true) by (apply existsb_exists; exists a; split; auto; apply Nat.eqb_refl). congruence. }
    apply (count_occ_not_In Nat.eq_dec) in H. rewrite H. cbn. lra.
Qed.

Lemma div_mul_div (x y z : R) : z <> 0 -> x / z * (y / z) = x * y / (z * z).
Proof. intros. field. assumption. Qed.
(* ---- curvature_matrix_via_mapping_matrix_from ---- *)
Theorem curv_mapping_spec (B : @mat ROps) (s : list R) add idx eps p q :
  (forall i, (i < length B)%nat -> nth i s 0 <> 0) ->
  Forall (fun i => (i < ncols B)%nat) idx -> NoDup idx -> (p < ncols B)%nat -> (q < ncols B)%nat ->
  mget (curv_mapping B s add idx eps) p q =
  sumR (map (fun i => mget B i p * mget B i q / (nth i s 0 * nth i s 0)) (seq 0 (length B)))
  + (if add && Nat.eqb p q && existsb (Nat.eqb p) idx then eps else 0).
Proof.
  intros Hs HF HN Hp Hq. unfold curv_mapping.
  assert (E : mget (dotTN (div_rows B s) (div_rows B s)) p q =
              sumR (map (fun i => mget B i p * mget B i q / (nth i s 0 * nth i s 0)) (seq 0 (length B)))).
  { rewrite mget_dotTN by (rewrite ncols_div_rows; assumption). rewrite div_rows_length.
    apply sumR_map_ext. intros i Hi. apply in_seq in Hi. rewrite !mget_div_rows by lia.
    specialize (Hs i ltac:(lia)). apply div_mul_div. exact Hs. }
  destruct add; cbn [andb].
  - destruct (Nat.eqb (length idx) 0) eqn:L; cbn [negb].
    + apply Nat.eqb_eq in L. destruct idx; [|discriminate]. cbn [existsb]. rewrite andb_false_r. rewrite E. now rewrite Rplus_0_r.
    + rewrite (add_to_diag_nodup (ncols B)); auto.
      * rewrite E. reflexivity.
      * pose proof (shape_dotTN (div_rows B s) (div_rows B s)) as H. now rewrite ncols_div_rows in H.
  - rewrite E. now rewrite Rplus_0_r.
Qed.
Lemma shape_curv_mapping (B : @mat ROps) s add idx eps : shape (ncols B) (ncols B) (curv_mapping B s add idx eps).
Proof.
  unfold curv_mapping.
  pose proof (shape_dotTN (div_rows B s) (div_rows B s)) as H. rewrite ncols_div_rows in H.
  destruct (add && negb (Nat.eqb (length idx) 0)); auto. now apply shape_add_to_diag.
Qed.

(* ================================================================== curvature_matrix_mirrored_from *)

Lemma shape_mirror_step n (C M : @mat ROps) ij : shape n n M -> shape n n (@mirror_step ROps C M ij).
Proof.
  intros H. unfold mirror_step. repeat match goal with |- context [if ?c then _ else _] => destruct c end;
  repeat apply shape_mat_set; exact H.
Qed.
Lemma shape_fold_mirror n (C : @mat ROps) L : forall M, shape n n M -> shape n n (fold_left (@mirror_step ROps C) L M).
Proof. induction L as [|ij L IH]; intros M H; cbn; auto. apply IH. now apply shape_mirror_step. Qed.

Lemma mirror_step_untouched n (C M : @mat ROps) i j a b : shape n n M -> (i < n)%nat -> (j < n)%nat ->
  (i, j) <> (a, b) -> (i, j) <> (b, a) -> mget (@mirror_step ROps C M (i, j)) a b = mget M a b.
Proof.
  intros HS Hi Hj N1 N2. unfold mirror_step. cbn [fst snd].
  assert (E1 : Nat.eqb i a && Nat.eqb j b = false).
  { apply andb_false_iff. destruct (Nat.eqb i a) eqn:X; auto. destruct (Nat.eqb j b) eqn:Y; auto.
    apply Nat.eqb_eq in X, Y. subst. congruence. }
  assert (E2 : Nat.eqb j a && Nat.eqb i b = false).
  { apply andb_false_iff. destruct (Nat.eqb j a) eqn:X; auto. destruct (Nat.eqb i b) eqn:Y; auto.
    apply Nat.eqb_eq in X, Y. subst. congruence. }
  destruct (negb (eqb ROps (mget C i j) zero)); destruct (negb (eqb ROps (mget C j i) zero));
  repeat (rewrite (mget_mat_set n n); [rewrite ?E1, ?E2| repeat apply shape_mat_set; exact HS | assumption | assumption]); reflexivity.
Qed.
Lemma mirror_step_hit n (C M : @mat ROps) i j a b : shape n n M -> (i < n)%nat -> (j < n)%nat ->
  (a, b) = (i, j) \/ (a, b) = (j, i) ->
  mget (@mirror_step ROps C M (i, j)) a b =
  if Reqb (mget C j i) 0 then (if Reqb (mget C i j) 0 then mget M a b else mget C i j) else mget C j i.
Proof.
  intros HS Hi Hj Hab. unfold mirror_step. cbn [fst snd]. runfold.
  assert (E : (Nat.eqb i a && Nat.eqb j b) || (Nat.eqb j a && Nat.eqb i b) = true).
  { destruct Hab as [H|H]; inversion H; subst; rewrite !Nat.eqb_refl; cbn; auto using orb_true_r. }
  destruct (Reqb (mget C i j) 0); destruct (Reqb (mget C j i) 0); cbn [negb];
  repeat (rewrite (mget_mat_set n n); [| repeat apply shape_mat_set; exact HS | assumption | assumption]);
  try reflexivity;
  destruct (Nat.eqb i a && Nat.eqb j b); destruct (Nat.eqb j a && Nat.eqb i b); cbn in E; try discriminate; reflexivity.
Qed.
Lemma mirror_step_noop (C M : @mat ROps) i j : mget C i j = 0 -> mget C j i = 0 -> @mirror_step ROps C M (i, j) = M.
Proof.
  intros H1 H2. unfold mirror_step. cbn [fst snd]. runfold. rewrite H1, H2.
  assert (Reqb 0 0 = true) as -> by (apply Reqb_true; reflexivity). reflexivity.
Qed.

Lemma fold_mirror_untouched n (C : @mat ROps) L a b : forall M, shape n n M ->
  (forall ij, In ij L -> (fst ij < n)%nat /\ (snd ij < n)%nat /\ ij <> (a, b) /\ ij <> (b, a)) ->
  mget (fold_left (@mirror_step ROps C) L M) a b = mget M a b.
Proof.
  induction L as [|[i j] L IH]; intros M HS HL; cbn [fold_left]; auto.
  destruct (HL (i, j) (or_introl eq_refl)) as (Hi & Hj & N1 & N2). cbn in Hi, Hj.
  rewrite IH; [| now apply shape_mirror_step | intros; apply HL; now right].
  now apply (mirror_step_untouched n).
Qed.
Lemma fold_mirror_zero_cell n (C : @mat ROps) L a b : forall M, shape n n M -> mget C a b = 0 -> mget C b a = 0 ->
  (forall ij, In ij L -> (fst ij < n)%nat /\ (snd ij < n)%nat) ->
  mget (fold_left (@mirror_step ROps C) L M) a b = mget M a b.
Proof.
  induction L as [|[i j] L IH]; intros M HS Z1 Z2 HL; cbn [fold_left]; auto.
  destruct (HL (i, j) (or_introl eq_refl)) as (Hi & Hj). cbn in Hi, Hj.
  rewrite IH; [| now apply shape_mirror_step | assumption | assumption | intros; apply HL; now right].
  assert (D : forall x y : nat * nat, {x = y} + {x <> y}) by (decide equality; apply Nat.eq_dec).
  destruct (D (i, j) (a, b)) as [E|N1].
  - inversion E; subst. now rewrite mirror_step_noop.
  - destruct (D (i, j) (b, a)) as [E|N2].
    + inversion E; subst. now rewrite mirror_step_noop.
    + now apply (mirror_step_untouched n).
Qed.

Lemma seq_shift_add a n : seq a n = map (fun x => (a + x)%nat) (seq 0 n).
Proof.
  revert a. induction n as [|n IH]; intros a; [reflexivity|]. cbn [seq map]. f_equal; [lia|].
  rewrite <- (seq_shift n 0), map_map. rewrite (IH (S a)). apply map_ext. intros; lia.
Qed.
Lemma pairs_as_map n m : pairs n m = map (fun k => (k / m, k mod m)%nat) (seq 0 (n * m)).
Proof.
  unfold pairs. induction n as [|n IH]; [reflexivity|].
  rewrite seq_S, flat_map_app, IH. cbn [flat_map]. rewrite app_nil_r. cbn [plus].
  replace (S n * m)%nat with (n * m + m)%nat by lia. rewrite seq_app, map_app. f_equal.
  cbn [plus]. destruct (Nat.eq_dec m 0) as [->|Hm]; [reflexivity|].
  rewrite (seq_shift_add (n * m)). rewrite map_map.
  apply map_ext_in. intros x Hx. apply in_seq in Hx.
  rewrite Nat.div_add_l by exact Hm. rewrite Nat.div_small by lia.
  rewrite (Nat.add_comm (n * m) x), Nat.mod_add by exact Hm. rewrite Nat.mod_small by lia. f_equal. lia.
Qed.

Lemma divmod_bounds n k : (k < n * n)%nat -> (k / n < n)%nat /\ (k mod n < n)%nat.
Proof.
  intros H. assert (n <> 0)%nat by (intros ->; lia). split.
  - apply Nat.div_lt_upper_bound; auto.
  - now apply Nat.mod_upper_bound.
Qed.
Lemma divmod_rowmajor n x y : (y < n)%nat -> ((x * n + y) / n = x /\ (x * n + y) mod n = y)%nat.
Proof.
  intros H. assert (n <> 0)%nat by lia. split.
  - rewrite Nat.div_add_l by auto. rewrite Nat.div_small by lia. lia.
  - rewrite Nat.add_comm, Nat.mod_add by auto. now apply Nat.mod_small.
Qed.

Lemma mirrored_cell n (C : @mat ROps) lo hi a b : shape n n C -> (lo <= hi)%nat -> (hi < n)%nat ->
  (a, b) = (lo, hi) \/ (a, b) = (hi, lo) ->
  mget (mirrored C) a b = if Reqb (mget C lo hi) 0 then mget C hi lo else mget C lo hi.
Proof.
  intros HS Hle Hhi Hab. pose proof HS as [HL HR]. unfold mirrored. rewrite HL.
  assert (ncols C = n) as ->. { unfold ncols. rewrite hd_nth. apply HR. lia. }
  rewrite pairs_as_map.
  set (f := fun k => (k / n, k mod n)%nat).
  set (k1 := (hi * n + lo)%nat).
  assert (Hk1 : (k1 < n * n)%nat) by (apply rowmajor_lt; lia).
  assert (Hf1 : f k1 = (hi, lo)). { unfold f, k1. destruct (divmod_rowmajor n hi lo) as [-> ->]; auto; lia. }
  assert (Hsplit : seq 0 (n * n) = seq 0 k1 ++ k1 :: seq (S k1) (n * n - S k1)).
  { transitivity (seq 0 (k1 + S (n * n - S k1))); [f_equal; lia | rewrite seq_app; reflexivity]. }
  rewrite Hsplit.
  rewrite map_app, fold_left_app. cbn [map fold_left].
  assert (Hb : forall L ij, In ij (map f L) -> (forall k, In k L -> (k < n * n)%nat) -> (fst ij < n)%nat /\ (snd ij < n)%nat).
  { intros L ij Hin HLk. apply in_map_iff in Hin. destruct Hin as [k [<- Hk]]. unfold f. cbn. apply divmod_bounds. auto. }
  rewrite (fold_mirror_untouched n).
  - rewrite Hf1. rewrite (mirror_step_hit n); auto; try lia.
    + destruct (Reqb (mget C lo hi) 0) eqn:E1; auto. destruct (Reqb (mget C hi lo) 0) eqn:E2; auto. rbool.
      rewrite (fold_mirror_zero_cell n).
      * rewrite mget_zmat. symmetry. exact E2.
      * apply shape_zmat.
      * destruct Hab as [H|H]; inversion H; subst; assumption.
      * destruct Hab as [H|H]; inversion H; subst; assumption.
      * intros ij Hin. apply (Hb (seq 0 k1)); auto. intros k Hk. apply in_seq in Hk. lia.
    + apply shape_fold_mirror. apply shape_zmat.
    + destruct Hab as [H|H]; inversion H; subst; auto.
  - apply shape_mirror_step. apply shape_fold_mirror. apply shape_zmat.
  - intros ij Hin. pose proof Hin as Hin'. apply in_map_iff in Hin'. destruct Hin' as [k [Hfk Hk]]. apply in_seq in Hk.
    destruct (Hb _ _ Hin) as [B1 B2]. { intros k' Hk'. apply in_seq in Hk'. lia. }
    split; [exact B1|]. split; [exact B2|].
    assert (Hkk : (k = fst ij * n + snd ij)%nat).
    { subst ij. unfold f. cbn [fst snd]. rewrite Nat.mul_comm. apply Nat.div_mod. lia. }
    assert (Hord : (lo * n + hi <= k1)%nat) by (unfold k1; nia).
    split; intros Heq; rewrite Heq in Hkk; cbn [fst snd] in Hkk; destruct Hab as [H|H]; inversion H; unfold k1 in *; lia.
Qed.

Theorem mirrored_spec n (C : @mat ROps) a b : shape n n C -> (a < n)%nat -> (b < n)%nat ->
  mget (mirrored C) a b = mir C a b.
Proof.
  intros HS Ha Hb. unfold mir. apply (mirrored_cell n); auto; try lia.
  destruct (Nat.le_ge_cases a b).
  - left. rewrite Nat.min_l, Nat.max_r by lia. reflexivity.
  - right. rewrite Nat.min_r, Nat.max_l by lia. reflexivity.
Qed.
Lemma shape_mirrored n (C : @mat ROps) : shape n n C -> shape n n (mirrored C).
Proof.
  intros HS. pose proof HS as [HL HR]. unfold mirrored. rewrite HL.
  destruct n as [|n].
  - cbn. apply shape_zmat.
  - assert (ncols C = S n) as ->. { unfold ncols. rewrite hd_nth. apply HR. lia. }
    apply shape_fold_mirror. apply shape_zmat.
Qed.
Corollary mirrored_symmetric n (C : @mat ROps) a b : shape n n C -> (a < n)%nat -> (b < n)%nat ->
  mget (mirrored C) a b = mget (mirrored C) b a.
Proof. intros. rewrite !(mirrored_spec n) by auto. unfold mir. now rewrite Nat.min_comm, Nat.max_comm. Qed.
(* the mirror completes a matrix of which each off-diagonal pair holds the wanted value on at least one side and
   zero (or the same value) on the other *)
Corollary mirror_completes n (C : @mat ROps) (S : nat -> nat -> R) a b : shape n n C -> (a < n)%nat -> (b < n)%nat ->
  S a b = S b a ->
  (mget C a b = S a b \/ mget C a b = 0) -> (mget C b a = S a b \/ mget C b a = 0) ->
  (mget C a b = S a b \/ mget C b a = S a b) ->
  mget (mirrored C) a b = S a b.
Proof.
  intros HS Ha Hb Hsym H1 H2 H3. rewrite (mirrored_spec n) by auto. unfold mir.
  destruct (Nat.le_ge_cases a b) as [L|L].
  - rewrite Nat.min_l, Nat.max_r by lia. rcase; lra.
  - rewrite Nat.min_r, Nat.max_l by lia. rcase; lra.
Qed.

(* ================================================================== B. w-tilde util functions *)
Lemma rows_of_concat {A} (r : list (list A)) : rows_of (concat r) (map (@length A) r) = r.
Proof.
  induction r as [|x r IH]; cbn; auto.
  rewrite firstn_app, Nat.sub_diag, firstn_all, firstn_O, app_nil_r.
  rewrite skipn_app, skipn_all, Nat.sub_diag. cbn. now rewrite IH.
Qed.
Lemma combine_fst_snd {A B} (l : list (A * B)) : combine (map fst l) (map snd l) = l.
Proof. induction l as [|[a b] l IH]; cbn; auto. now rewrite IH. Qed.
Lemma rows_of_length {A} (flat : list A) lens : length (rows_of flat lens) = length lens.
Proof. revert flat. induction lens; intros; cbn; auto. Qed.
(* the running-index walk over the flat preload recovers the per-pixel rows *)
Theorem preload_rows_recovered (noise : px -> R) (K : @kernel ROps) nfs :
  let '(pre, idx, lens) := @preload ROps noise K nfs in
  rows_of (combine idx pre) lens = @preload_rows ROps noise K nfs.
Proof. unfold preload. rewrite combine_fst_snd. apply rows_of_concat. Qed.

Lemma combine_seq_nth {A} (l : list A) d a :
  combine (seq a (length l)) l = map (fun i => (i, nth (i - a) l d)) (seq a (length l)).
Proof.
  revert a. induction l as [|x l IH]; intros a; cbn [length seq combine map]; auto.
  rewrite Nat.sub_diag. cbn [nth]. f_equal. rewrite IH. apply map_ext_in. intros i Hi. apply in_seq in Hi.
  replace (i - a)%nat with (S (i - S a)) by lia. reflexivity.
Qed.
Lemma sumR_combine_seq {A} (l : list A) d (g : nat * A -> R) :
  sumR (map g (combine (seq 0 (length l)) l)) = sumR (map (fun i => g (i, nth i l d)) (seq 0 (length l))).
Proof.
  rewrite (combine_seq_nth l d 0), map_map. apply sumR_map_ext. intros i _. now rewrite Nat.sub_0_r.
Qed.

(* the matrix an encoding stands for, and the half matrix preload rows stand for *)

Lemma mget_enc_matrix e n P d p : (d < n)%nat -> (p < P)%nat -> mget (@enc_matrix ROps e n P) d p = E e d p.
Proof.
  intros Hd Hp. rewrite mget_R. unfold enc_matrix. rewrite nth_map_seq by exact Hd. rewrite nth_map_seq by exact Hp.
  rewrite sumT_sumR. reflexivity.
Qed.

Lemma group_by_index (row : list (nat * R)) (g : nat -> R) n : (forall iw, In iw row -> (fst iw < n)%nat) ->
  sumR (map (fun iw => g (fst iw) * snd iw) row) = sumR (map (fun j => g j * sumR (hits j row)) (seq 0 n)).
Proof.
  induction row as [|[i w] row IH]; intros H.
  - cbn. symmetry. apply sumR_map_zero. intros; unfold hits; cbn; lra.
  - cbn [map sumR fst snd]. rewrite IH by (intros; apply H; now right).
    assert (Hi : (i < n)%nat) by (apply (H (i, w)); now left).
    rewrite <- (sumR_seq_pick (fun j => g j * w) 0 n i) by lia. rewrite <- sumR_map_add.
    apply sumR_map_ext. intros j _. unfold hits. cbn [filter fst]. rewrite (Nat.eqb_sym j i).
    destruct (Nat.eqb i j); cbn [map snd sumR]; lra.
Qed.

Lemma single_indicator (r1 : list (nat * R)) (c : bool) w0 b w :
  sumR (map (fun pw1 : nat * R => if c && Nat.eqb (fst pw1) b then w0 * snd pw1 * w else 0) r1)
  = (if c then w0 else 0) * sumR (map (fun e => if Nat.eqb (fst e) b then snd e else 0) r1) * w.
Proof.
  induction r1 as [|[p1 w1] r1 IH1]; cbn [map sumR fst snd]; [ring|]. rewrite IH1.
  destruct c; destruct (Nat.eqb p1 b); cbn [andb]; ring.
Qed.
Lemma double_indicator (r0 r1 : list (nat * R)) a b w :
  sumR (map (fun pw0 => sumR (map (fun pw1 =>
      if Nat.eqb (fst pw0) a && Nat.eqb (fst pw1) b then snd pw0 * snd pw1 * w else 0) r1)) r0)
  = sumR (hits a r0) * sumR (hits b r1) * w.
Proof.
  rewrite !hits_as_map. induction r0 as [|[p0 w0] r0 IH]; cbn [map sumR fst snd]; [ring|]. rewrite IH.
  rewrite single_indicator. ring.
Qed.

(* what the quadruple loop accumulates into cell (a, b) *)
Lemma curv_entries_hits rws e0 e1 P1 a b n : (b < P1)%nat -> enc_ok e1 P1 -> rows_ok rws n ->
  sumR (hits (a * P1 + b) (@curv_entries ROps rws e0 e1 P1)) =
  sumR (map (fun d0 => sumR (map (fun d1 => E e0 d0 a * U rws d0 d1 * E e1 d1 b) (seq 0 n))) (seq 0 (length rws))).
Proof.
  intros Hb Hok Hrows. unfold curv_entries. rewrite hits_flat_map.
  rewrite (sumR_combine_seq rws [] (fun dr => sumR (hits (a * P1 + b) _))). cbn [fst snd].
  apply sumR_map_ext. intros d0 _.
  rewrite hits_flat_map.
  transitivity (sumR (map (fun iw => (E e0 d0 a * E e1 (fst iw) b) * snd iw) (nth d0 rws []))).
  - apply sumR_map_ext. intros [d1 w] Hin. cbn [fst snd].
    rewrite hits_flat_map. unfold E. rewrite <- double_indicator. apply sumR_map_ext. intros pw0 _.
    rewrite (hits_map (a * P1 + b) (fun pw1 : nat * R => (fst pw0 * P1 + fst pw1)%nat)
                      (fun pw1 : nat * R => mul ROps (mul ROps (snd pw0) (snd pw1)) w)).
    apply sumR_map_ext. intros pw1 H1. rewrite rowmajor_eqb; auto. apply (Hok d1). exact H1.
  - rewrite (group_by_index _ (fun j => E e0 d0 a * E e1 j b) n) by (intros; now apply (Hrows d0)).
    apply sumR_map_ext. intros d1 _. unfold U. lra.
Qed.
Lemma curv_entries_bound rws e0 e1 P0 P1 : enc_ok e0 P0 -> enc_ok e1 P1 -> 
  Forall (fun en => (fst en < P0 * P1)%nat) (@curv_entries ROps rws e0 e1 P1).
Proof.
  intros H0 H1. apply Forall_forall. intros en Hin. unfold curv_entries in Hin.
  apply in_flat_map in Hin. destruct Hin as [dr [_ Hin]].
  apply in_flat_map in Hin. destruct Hin as [iw [_ Hin]].
  apply in_flat_map in Hin. destruct Hin as [pw0 [Hp0 Hin]].
  apply in_map_iff in Hin. destruct Hin as [pw1 [<- Hp1]]. cbn [fst].
  apply rowmajor_lt; [apply (H0 _ _ Hp0) | apply (H1 _ _ Hp1)].
Qed.


Theorem off_preload_spec pre idx lens e0 P0 e1 P1 a b n :
  let rws := rows_of (combine idx pre) lens in
  enc_ok e0 P0 -> enc_ok e1 P1 -> rows_ok rws n -> (a < P0)%nat -> (b < P1)%nat ->
  mget (@off_preload ROps pre idx lens e0 P0 e1 P1) a b = G rws e0 e1 n a b.
Proof.
  intros rws H0 H1 Hr Ha Hb. unfold off_preload. rewrite mget_reshape by auto.
  rewrite scatter_gather_zeros by (now apply curv_entries_bound).
  now apply curv_entries_hits.
Qed.
Lemma shape_off_preload pre idx lens e0 P0 e1 P1 : shape P0 P1 (@off_preload ROps pre idx lens e0 P0 e1 P1).
Proof. apply shape_reshape. Qed.

(* ---- the two in-place symmetrisation loops of curvature_matrix_via_w_tilde_curvature_preload_imaging_from ---- *)
Definition mem2 (a b : nat) (L : list (nat * nat)) : bool := existsb (fun ij => Nat.eqb (fst ij) a && Nat.eqb (snd ij) b) L.
Lemma mem2_In a b L : mem2 a b L = true <-> In (a, b) L.
Proof.
  unfold mem2. rewrite existsb_exists. split.
  - intros [[i j] [Hin H]]. cbn in H. apply andb_true_iff in H. destruct H as [H1 H2].
    apply Nat.eqb_eq in H1, H2. now subst.
  - intros H. exists (a, b). split; auto. cbn. now rewrite !Nat.eqb_refl.
Qed.

Lemma sym1_general P L : forall (F : list R), length F = (P * P)%nat -> NoDup L ->
  (forall ij, In ij L -> (fst ij <= snd ij)%nat /\ (snd ij < P)%nat) ->
  forall a b, (a < P)%nat -> (b < P)%nat ->
  nth (a * P + b) (fold_left (fun F ij => @upd_add ROps F (fst ij * P + snd ij) (@nthT ROps F (snd ij * P + fst ij))) L F) 0
  = nth (a * P + b) F 0 + (if mem2 a b L then nth (b * P + a) F 0 else 0).
Proof.
  induction L as [|[i j] L IH]; intros F HF HN HL a b Ha Hb; cbn [fold_left fst snd].
  - cbn. ring.
  - inversion HN as [|? ? Hnin HN']; subst.
    destruct (HL (i, j) (or_introl eq_refl)) as [Hij HjP]. cbn [fst snd] in Hij, HjP.
    assert (HiP : (i < P)%nat) by lia.
    assert (Hlt : (i * P + j < length F)%nat) by (rewrite HF; now apply rowmajor_lt).
    rewrite IH; [| rewrite (@upd_add_length ROps); exact HF | exact HN' | intros ij' H'; apply HL; now right | exact Ha | exact Hb].
    rewrite nthT_R. rewrite !nth_upd_add by exact Hlt.
    rewrite !rowmajor_eqb by assumption.
    change (mem2 a b ((i, j) :: L)) with ((Nat.eqb i a && Nat.eqb j b) || mem2 a b L).
    destruct (Nat.eqb i a && Nat.eqb j b) eqn:E1.
    + apply andb_true_iff in E1. destruct E1 as [E1 E2]. apply Nat.eqb_eq in E1, E2. subst i j.
      cbn [orb]. destruct (mem2 a b L) eqn:M; [apply mem2_In in M; contradiction|]. lra.
    + cbn [orb]. destruct (mem2 a b L) eqn:M; [|lra].
      apply mem2_In in M. destruct (HL (a, b) (or_intror M)) as [Hab _]. cbn [fst snd] in Hab.
      destruct (Nat.eqb i b && Nat.eqb j a) eqn:E2; [|rfix; ring].
      apply andb_true_iff in E2. destruct E2 as [E2 E3]. apply Nat.eqb_eq in E2, E3. subst i j.
      assert (a = b) by lia. subst b. rewrite !Nat.eqb_refl in E1. discriminate.
Qed.
Lemma sym2_general P L : forall (F : list R), length F = (P * P)%nat ->
  (forall ij, In ij L -> (fst ij <= snd ij)%nat /\ (snd ij < P)%nat) ->
  forall a b, (a < P)%nat -> (b < P)%nat ->
  nth (a * P + b) (fold_left (fun F ij => upd_set F (snd ij * P + fst ij) (@nthT ROps F (fst ij * P + snd ij))) L F) 0
  = if mem2 b a L then nth (b * P + a) F 0 else nth (a * P + b) F 0.
Proof.
  induction L as [|[i j] L IH]; intros F HF HL a b Ha Hb; cbn [fold_left fst snd].
  - reflexivity.
  - destruct (HL (i, j) (or_introl eq_refl)) as [Hij HjP]. cbn [fst snd] in Hij, HjP.
    assert (HiP : (i < P)%nat) by lia.
    assert (Hlt : (j * P + i < length F)%nat) by (rewrite HF; now apply rowmajor_lt).
    rewrite IH; [| rewrite upd_set_length; exact HF | intros ij' H'; apply HL; now right | exact Ha | exact Hb].
    rewrite nthT_R. rewrite !nth_upd_set by exact Hlt.
    rewrite !rowmajor_eqb by assumption.
    change (mem2 b a ((i, j) :: L)) with ((Nat.eqb i b && Nat.eqb j a) || mem2 b a L).
    destruct (mem2 b a L) eqn:M.
    + rewrite orb_true_r. destruct (Nat.eqb j b && Nat.eqb i a) eqn:E; auto.
      apply andb_true_iff in E. destruct E as [E1 E2]. apply Nat.eqb_eq in E1, E2. subst i j.
      apply mem2_In in M. destruct (HL (b, a) (or_intror M)) as [Hba _]. cbn [fst snd] in Hba.
      assert (a = b) by lia. now subst.
    + rewrite orb_false_r. destruct (Nat.eqb j a) eqn:E1; destruct (Nat.eqb i b) eqn:E2; cbn [andb]; auto.
      apply Nat.eqb_eq in E1, E2. now subst.
Qed.

Lemma NoDup_app_intro {B} (l1 l2 : list B) :
  NoDup l1 -> NoDup l2 -> (forall x, In x l1 -> In x l2 -> False) -> NoDup (l1 ++ l2).
Proof.
  induction 1 as [|a l1 Ha Hd IH]; intros H2 Hx; cbn; auto. constructor.
  - rewrite in_app_iff. intros [H|H]; [contradiction | apply (Hx a); [now left | assumption]].
  - apply IH; auto. intros x H1 H2'. apply (Hx x); [now right | assumption].
Qed.
Lemma NoDup_flat_map_pair (l : list nat) (g : nat -> list nat) :
  NoDup l -> (forall i, NoDup (g i)) -> NoDup (flat_map (fun i => map (pair i) (g i)) l).
Proof.
  induction 1 as [|a l Ha Hd IH]; intros Hg; cbn; [constructor|].
  apply NoDup_app_intro.
  - apply FinFun.Injective_map_NoDup; auto. intros x y H. now inversion H.
  - now apply IH.
  - intros [i j] H1 H2. apply in_map_iff in H1. destruct H1 as [x [H1 _]]. inversion H1; subst.
    apply in_flat_map in H2. destruct H2 as [i' [Hi' H2]]. apply in_map_iff in H2. destruct H2 as [y [H2 _]].
    inversion H2; subst. contradiction.
Qed.
Lemma upper_pairs_NoDup P : NoDup (upper_pairs P).
Proof. apply NoDup_flat_map_pair; [apply seq_NoDup | intros; apply seq_NoDup]. Qed.
Lemma upper_pairs_In P a b : In (a, b) (upper_pairs P) <-> (a <= b)%nat /\ (b < P)%nat.
Proof.
  unfold upper_pairs. rewrite in_flat_map. split.
  - intros [i [Hi H]]. apply in_map_iff in H. destruct H as [j [H Hj]]. inversion H; subst.
    apply in_seq in Hi, Hj. lia.
  - intros [H1 H2]. exists a. split; [apply in_seq; lia|]. apply in_map_iff. exists b. split; auto. apply in_seq. lia.
Qed.
Lemma mem2_upper P a b : mem2 a b (upper_pairs P) = Nat.leb a b && Nat.ltb b P.
Proof.
  destruct (mem2 a b (upper_pairs P)) eqn:M.
  - apply mem2_In, upper_pairs_In in M. symmetry. apply andb_true_iff. split; [apply Nat.leb_le | apply Nat.ltb_lt]; lia.
  - symmetry. apply andb_false_iff. destruct (Nat.leb a b) eqn:L; auto. right. destruct (Nat.ltb b P) eqn:L2; auto.
    apply Nat.leb_le in L. apply Nat.ltb_lt in L2.
    assert (mem2 a b (upper_pairs P) = true) by (apply mem2_In, upper_pairs_In; lia). congruence.
Qed.

Lemma fold_upd_add_length (P : nat) L : forall F : list R,
  length (fold_left (fun F ij => @upd_add ROps F (fst ij * P + snd ij) (@nthT ROps F (snd ij * P + fst ij))) L F) = length F.
Proof. induction L; intros; cbn; auto. rewrite IHL. apply (@upd_add_length ROps). Qed.

Lemma G_sum_swap rws e n a b : length rws = n ->
  G rws e e n a b + G rws e e n b a =
  sumR (map (fun d0 => sumR (map (fun d1 => E e d0 a * (U rws d0 d1 + U rws d1 d0) * E e d1 b) (seq 0 n))) (seq 0 n)).
Proof.
  intros Hn. unfold G. rewrite Hn.
  rewrite (sumR_swap (fun d0 d1 => E e d0 b * U rws d0 d1 * E e d1 a) (seq 0 n) (seq 0 n)).
  rewrite <- sumR_map_add. apply sumR_map_ext. intros d0 _. rewrite <- sumR_map_add.
  apply sumR_map_ext. intros d1 _. ring.
Qed.

Theorem curv_preload_spec pre idx lens e P a b :
  let rws := rows_of (combine idx pre) lens in
  let n := length lens in
  enc_ok e P -> rows_ok rws n -> (a < P)%nat -> (b < P)%nat ->
  mget (@curv_preload ROps pre idx lens e P) a b =
  sumR (map (fun d0 => sumR (map (fun d1 => E e d0 a * (U rws d0 d1 + U rws d1 d0) * E e d1 b) (seq 0 n))) (seq 0 n)).
Proof.
  intros rws n He Hr Ha Hb. unfold curv_preload. fold rws.
  assert (Hn : length rws = n) by apply rows_of_length.
  rewrite mget_reshape by auto.
  set (F0 := @scatter ROps (@curv_entries ROps rws e e P) (@zeros ROps (P * P))).
  assert (HF0 : length F0 = (P * P)%nat) by (unfold F0; rewrite (@scatter_length ROps); unfold zeros; apply repeat_length).
  assert (HG : forall x y, (x < P)%nat -> (y < P)%nat -> nth (x * P + y) F0 0 = G rws e e n x y).
  { intros x y Hx Hy. unfold F0. rewrite scatter_gather_zeros by (now apply curv_entries_bound).
    now apply curv_entries_hits. }
  assert (HU : forall ij, In ij (upper_pairs P) -> (fst ij <= snd ij)%nat /\ (snd ij < P)%nat).
  { intros [i j] H. now apply upper_pairs_In in H. }
  rewrite sym2_general; auto; [| now rewrite fold_upd_add_length].
  rewrite !sym1_general; auto using upper_pairs_NoDup.
  rewrite !mem2_upper, !HG by auto. rewrite <- G_sum_swap by exact Hn.
  destruct (Nat.leb b a) eqn:L1; destruct (Nat.leb a b) eqn:L2;
    destruct (Nat.ltb a P) eqn:L3; destruct (Nat.ltb b P) eqn:L4; cbn [andb];
    try apply Nat.leb_le in L1; try apply Nat.leb_le in L2; try apply Nat.leb_gt in L1; try apply Nat.leb_gt in L2;
    try apply Nat.ltb_ge in L3; try apply Nat.ltb_ge in L4; try lia; try lra.
Qed.
Lemma shape_curv_preload pre idx lens e P : shape P P (@curv_preload ROps pre idx lens e P).
Proof. apply shape_reshape. Qed.

(* ---- data_vector_via_w_tilde_data_imaging_from ---- *)
Lemma sumR_indicator_scal {A} (l : list A) (c : A -> bool) (f : A -> R) x :
  sumR (map (fun y => if c y then f y * x else 0) l) = sumR (map (fun y => if c y then f y else 0) l) * x.
Proof. induction l as [|y l IH]; cbn [map sumR]; [ring|]. rewrite IH. destruct (c y); ring. Qed.
Theorem dv_wtd_spec (wd : list R) e P p : enc_ok e P -> (p < P)%nat ->
  nth p (@dv_wtd ROps wd e P) 0 = sumR (map (fun d => E e d p * nth d wd 0) (seq 0 (length wd))).
Proof.
  intros He Hp. unfold dv_wtd. rewrite scatter_gather_zeros.
  - rewrite hits_flat_map. apply sumR_map_ext. intros d _.
    rewrite (hits_map p (fun pw : nat * R => fst pw) (fun pw : nat * R => mul ROps (snd pw) (@nthT ROps wd d))).
    ropen. rewrite nthT_R. rewrite (sumR_indicator_scal _ (fun pw => Nat.eqb (fst pw) p) snd).
    unfold E. now rewrite hits_as_map.
  - apply Forall_forall. intros en Hin. apply in_flat_map in Hin. destruct Hin as [d [_ Hin]].
    apply in_map_iff in Hin. destruct Hin as [pw [<- Hpw]]. cbn [fst]. now apply (He d).
Qed.
Lemma dv_wtd_length (wd : list R) e P : length (@dv_wtd ROps wd e P) = P.
Proof. unfold dv_wtd. rewrite (@scatter_length ROps). unfold zeros. apply repeat_length. Qed.

(* ---- curvature_matrix_off_diags_via_mapper_and_linear_func_curvature_vector_from ---- *)
Theorem off_mapper_func_spec e P (cw : @mat ROps) (frames : list (list (nat * R))) a l :
  enc_ok e P -> (a < P)%nat -> (l < ncols cw)%nat ->
  mget (@off_mapper_func ROps e P cw frames) a l =
  sumR (map (fun d0 => E e d0 a * sumR (map (fun ik => snd ik * mget cw (fst ik) l) (nth d0 frames [])))
            (seq 0 (length (e_dw e)))).
Proof.
  intros He Ha Hl. unfold off_mapper_func. rewrite mget_reshape by auto. rewrite scatter_gather_zeros.
  - rewrite hits_flat_map. apply sumR_map_ext. intros d0 _. rewrite hits_flat_map.
    unfold E. rewrite hits_as_map. rewrite <- sumR_map_mul_l. apply sumR_map_ext. intros pw Hpw.
    rewrite hits_flat_map.
    transitivity (sumR (map (fun ik : nat * R => if Nat.eqb (fst pw) a then snd pw * (snd ik * mget cw (fst ik) l) else 0) (nth d0 frames []))).
    + apply sumR_map_ext. intros ik _.
      rewrite (hits_map (a * ncols cw + l) (fun l' => (fst pw * ncols cw + l')%nat)
                        (fun l' => mul ROps (mul ROps (snd pw) (@mget ROps cw (fst ik) l')) (snd ik))).
      transitivity (sumR (map (fun l' => if Nat.eqb l' l then (if Nat.eqb (fst pw) a then snd pw * (snd ik * mget cw (fst ik) l') else 0) else 0) (seq 0 (ncols cw)))).
      * apply sumR_map_ext. intros l' Hl'. apply in_seq in Hl'. rewrite rowmajor_eqb by lia. ropen.
        destruct (Nat.eqb (fst pw) a); destruct (Nat.eqb l' l); cbn [andb]; try reflexivity. ring.
      * rewrite sumR_seq_pick by lia. reflexivity.
    + rfix. destruct (Nat.eqb (fst pw) a).
      * apply (sumR_map_scal (fun ik : nat * R => snd ik * mget cw (fst ik) l) (snd pw)).
      * rewrite sumR_map_const0. symmetry. apply Rmult_0_l.
  - apply Forall_forall. intros en Hin. apply in_flat_map in Hin. destruct Hin as [d [_ Hin]].
    apply in_flat_map in Hin. destruct Hin as [pw [Hpw Hin]].
    apply in_flat_map in Hin. destruct Hin as [ik [_ Hin]].
    apply in_map_iff in Hin. destruct Hin as [l' [<- Hl']]. apply in_seq in Hl'. cbn [fst].
    apply rowmajor_lt; [now apply (He d) | lia].
Qed.
Lemma shape_off_mapper_func e P (cw : @mat ROps) frames : shape P (ncols cw) (@off_mapper_func ROps e P cw frames).
Proof. apply shape_reshape. Qed.

(* ---- mapped_reconstructed_data_via_image_to_pix_unique_from ---- *)
Theorem mapped_via_unique_spec e (r : list R) d : enc_ok e (length r) -> (d < length (e_du e))%nat ->
  nth d (@mapped_via_unique ROps e r) 0 = sumR (map (fun p => E e d p * nth p r 0) (seq 0 (length r))).
Proof.
  intros He Hd. unfold mapped_via_unique. rewrite nth_map_seq by exact Hd. rewrite sumT_sumR.
  transitivity (sumR (map (fun pw : nat * R => nth (fst pw) r 0 * snd pw) (enc_row e d))).
  - apply sumR_map_ext. intros pw _. ropen. rewrite nthT_R. ring.
  - rewrite (group_by_index _ (fun p => nth p r 0) (length r)) by (intros; now apply (He d)).
    apply sumR_map_ext. intros p _. unfold E. ring.
Qed.
(* ---- mapped_reconstructed_data_via_mapping_matrix_from ---- *)
Theorem mapped_via_matrix_spec (B : @mat ROps) (r : list R) i : (i < length B)%nat ->
  nth i (mapped_via_matrix B r) 0 = sumR (map (fun j => mget B i j * nth j r 0) (seq 0 (length r))).
Proof.
  intros Hi. unfold mapped_via_matrix. rewrite nth_map_seq by exact Hi. rewrite sumT_sumR.
  apply sumR_map_ext. intros j _. ropen. rewrite nthT_R. ring.
Qed.

(* ---- the preload rows stand for the upper triangle (diagonal halved) of the dense overlap matrix ---- *)
Theorem preload_rows_U noise K nfs d0 d1 : (d0 < length nfs)%nat -> (d1 < length nfs)%nat ->
  U (@preload_rows ROps noise K nfs) d0 d1 =
  if Nat.ltb d0 d1 then Wv noise K nfs d0 d1 else if Nat.eqb d0 d1 then Wv noise K nfs d0 d0 / 2 else 0.
Proof.
  intros H0 H1. unfold U, preload_rows. rewrite nth_map_seq by exact H0.
  rewrite hits_flat_map.
  transitivity (sumR (map (fun i1 => if Nat.eqb i1 d1 then (if Nat.eqb d0 i1 then Wv noise K nfs d0 i1 / 2 else Wv noise K nfs d0 i1) else 0)
                          (seq d0 (length nfs - d0)))).
  - apply sumR_map_ext. intros i1 _. fold (Wv noise K nfs d0 i1). runfold.
    destruct (Reqb (if Nat.eqb d0 i1 then Wv noise K nfs d0 i1 / 2 else Wv noise K nfs d0 i1) 0) eqn:Ez.
    + rbool. unfold hits. cbn. destruct (Nat.eqb i1 d1); lra.
    + unfold hits. cbn [filter fst]. destruct (Nat.eqb i1 d1); cbn; lra.
  - destruct (Nat.ltb d0 d1) eqn:L.
    + apply Nat.ltb_lt in L. rewrite sumR_seq_pick by lia.
      destruct (Nat.eqb d0 d1) eqn:X; [apply Nat.eqb_eq in X; lia | reflexivity].
    + apply Nat.ltb_ge in L. destruct (Nat.eqb d0 d1) eqn:X.
      * apply Nat.eqb_eq in X. subst d1. rewrite sumR_seq_pick by lia. now rewrite Nat.eqb_refl.
      * apply Nat.eqb_neq in X. apply sumR_seq_pick_none. lia.
Qed.
Lemma preload_rows_ok noise K nfs : rows_ok (@preload_rows ROps noise K nfs) (length nfs).
Proof.
  intros d0 iw Hin. unfold preload_rows in Hin.
  destruct (lt_dec d0 (length nfs)) as [H|H].
  - rewrite nth_map_seq in Hin by exact H. apply in_flat_map in Hin. destruct Hin as [i1 [Hi1 Hin]].
    apply in_seq in Hi1. match type of Hin with In _ (if ?c then _ else _) => destruct c end; [contradiction|].
    destruct Hin as [<-|[]]. cbn. lia.
  - rewrite nth_map_seq_ge in Hin by lia. contradiction.
Qed.
Lemma preload_rows_length noise K nfs : length (@preload_rows ROps noise K nfs) = length nfs.
Proof. unfold preload_rows. now rewrite map_length, seq_length. Qed.
Lemma mget_wt_dense noise K nfs d0 d1 : (d0 < length nfs)%nat -> (d1 < length nfs)%nat ->
  mget (@wt_dense ROps noise K nfs) d0 d1 = if Nat.leb d0 d1 then Wv noise K nfs d0 d1 else Wv noise K nfs d1 d0.
Proof.
  intros H0 H1. rewrite mget_R. unfold wt_dense. rewrite nth_map_seq by exact H0. rewrite nth_map_seq by exact H1. reflexivity.
Qed.
(* U + U^T of the preload is the dense matrix of w_tilde_curvature_imaging_from: every non-zero entry is kept *)
Theorem preload_represents_dense noise K nfs d0 d1 : (d0 < length nfs)%nat -> (d1 < length nfs)%nat ->
  U (@preload_rows ROps noise K nfs) d0 d1 + U (@preload_rows ROps noise K nfs) d1 d0 = mget (@wt_dense ROps noise K nfs) d0 d1.
Proof.
  intros H0 H1. rewrite !preload_rows_U, mget_wt_dense by assumption.
  destruct (lt_eq_lt_dec d0 d1) as [[L|Eq]|L].
  - assert (Nat.ltb d0 d1 = true) as -> by (apply Nat.ltb_lt; lia).
    assert (Nat.ltb d1 d0 = false) as -> by (apply Nat.ltb_ge; lia).
    assert (Nat.eqb d1 d0 = false) as -> by (apply Nat.eqb_neq; lia).
    assert (Nat.leb d0 d1 = true) as -> by (apply Nat.leb_le; lia). lra.
  - subst d1. rewrite Nat.ltb_irrefl, Nat.eqb_refl, Nat.leb_refl. lra.
  - assert (Nat.ltb d0 d1 = false) as -> by (apply Nat.ltb_ge; lia).
    assert (Nat.ltb d1 d0 = true) as -> by (apply Nat.ltb_lt; lia).
    assert (Nat.eqb d0 d1 = false) as -> by (apply Nat.eqb_neq; lia).
    assert (Nat.leb d0 d1 = false) as -> by (apply Nat.leb_gt; lia). lra.
Qed.

(* ================================================================== C. the convolution operator of the frames (model C03) *)
Lemma combine_nth_map {A B} (l1 : list A) (l2 : list B) d1 d2 n : length l1 = n -> length l2 = n ->
  combine l1 l2 = map (fun s => (nth s l1 d1, nth s l2 d2)) (seq 0 n).
Proof.
  revert l2 n. induction l1 as [|a l1 IH]; intros [|b l2] [|n] H1 H2; cbn in *; try discriminate; auto.
  f_equal. rewrite <- seq_shift, map_map. apply IH; lia.
Qed.
Lemma hits_entries_nz (v : list R) (frames : list (list (nat * R))) i n : length v = n -> length frames = n ->
  sumR (hits i (@entries_nz ROps v frames)) = sumR (map (fun s => nth s v 0 * sumR (hits i (nth s frames []))) (seq 0 n)).
Proof.
  intros Hv Hf. unfold entries_nz. rewrite hits_flat_map. rfix. rewrite (combine_nth_map v frames 0 [] n) by assumption.
  rewrite map_map. apply sumR_map_ext. intros s _. cbn [fst snd]. runfold.
  destruct (Reqb (nth s v 0) 0) eqn:Ez.
  - rbool. rewrite Ez. unfold hits at 1. cbn. ring.
  - rewrite (hits_map i (fun tk : nat * R => fst tk) (fun tk : nat * R => nth s v 0 * snd tk)).
    rewrite hits_as_map. rewrite <- sumR_map_scal. apply sumR_map_ext. intros tk _. destruct (Nat.eqb (fst tk) i); ring.
Qed.
Lemma hits_entries (v : list R) (frames : list (list (nat * R))) i n : length v = n -> length frames = n ->
  sumR (hits i (@entries ROps v frames)) = sumR (map (fun s => nth s v 0 * sumR (hits i (nth s frames []))) (seq 0 n)).
Proof.
  intros Hv Hf. unfold entries. rewrite hits_flat_map. rfix. rewrite (combine_nth_map v frames 0 [] n) by assumption.
  rewrite map_map. apply sumR_map_ext. intros s _. cbn [fst snd]. ropen.
  rewrite (hits_map i (fun tk : nat * R => fst tk) (fun tk : nat * R => nth s v 0 * snd tk)).
  rewrite hits_as_map. rewrite <- sumR_map_scal. apply sumR_map_ext. intros tk _. destruct (Nat.eqb (fst tk) i); ring.
Qed.
Lemma entries_nz_bound (v : list R) frames n : (forall s tk, In tk (nth s frames []) -> (fst tk < n)%nat) ->
  Forall (fun e => (fst e < n)%nat) (@entries_nz ROps v frames).
Proof.
  intros H. apply Forall_forall. intros en Hin. unfold entries_nz in Hin. apply in_flat_map in Hin.
  destruct Hin as [[x f] [Hc Hin]]. cbn [fst snd] in Hin.
  destruct (eqb ROps x zero); [contradiction|]. apply in_map_iff in Hin. destruct Hin as [tk [<- Htk]]. cbn [fst].
  apply in_combine_r in Hc. apply In_nth with (d := []) in Hc. destruct Hc as [s [_ Hs]]. apply (H s). now rewrite Hs.
Qed.
Lemma entries_bound (v : list R) frames n : (forall s tk, In tk (nth s frames []) -> (fst tk < n)%nat) ->
  Forall (fun e => (fst e < n)%nat) (@entries ROps v frames).
Proof.
  intros H. apply Forall_forall. intros en Hin. unfold entries in Hin. apply in_flat_map in Hin.
  destruct Hin as [[x f] [Hc Hin]]. cbn [fst snd] in Hin.
  apply in_map_iff in Hin. destruct Hin as [tk [<- Htk]]. cbn [fst].
  apply in_combine_r in Hc. apply In_nth with (d := []) in Hc. destruct Hc as [s [_ Hs]]. apply (H s). now rewrite Hs.
Qed.
Lemma nth_column (M : @mat ROps) p s : nth s (@column ROps M p) 0 = mget M s p.
Proof.
  unfold column. rewrite mget_R. destruct (lt_dec s (length M)) as [H|H].
  - rewrite (nth_indep _ 0 (nth p (@nil R) 0)) by (now rewrite map_length).
    now rewrite (map_nth (fun row : list R => nth p row 0) M []).
  - rewrite (nth_overflow (map _ M)) by (rewrite map_length; lia). rewrite (nth_overflow M) by lia. destruct p; reflexivity.
Qed.

Theorem convolve_matrix_is_Cop (c : @convolver ROps) (M : @mat ROps) n i p :
  length M = n -> frames_ok c n -> (i < n)%nat -> (p < ncols M)%nat ->
  mget (convolve_matrix c M) i p = sumR (map (fun s => mget M s p * Cop c i s) (seq 0 n)).
Proof.
  intros HM [Hfl Hfb] Hi Hp. unfold convolve_matrix. rewrite mget_R. rewrite HM.
  rewrite nth_map_seq by exact Hi. rewrite map_map. unfold ncols in Hp. rewrite nth_map_seq by exact Hp.
  runfold. rewrite scatter_gather_zeros by (now apply entries_nz_bound).
  rewrite (hits_entries_nz _ _ i n); [| unfold column; now rewrite map_length | exact Hfl].
  apply sumR_map_ext. intros s _. rewrite nth_column. reflexivity.
Qed.
Lemma shape_convolve_matrix (c : @convolver ROps) (M : @mat ROps) : shape (length M) (ncols M) (convolve_matrix c M).
Proof.
  unfold convolve_matrix. split; [now rewrite map_length, seq_length|]. intros a Ha.
  rewrite nth_map_seq by exact Ha. now rewrite !map_length, seq_length.
Qed.
Theorem convolve_no_blurring_is_Cop (c : @convolver ROps) (img : list R) n i :
  length img = n -> frames_ok c n -> (i < n)%nat ->
  nth i (convolve_no_blurring c img) 0 = sumR (map (fun s => nth s img 0 * Cop c i s) (seq 0 n)).
Proof.
  intros HM [Hfl Hfb] Hi. unfold convolve_no_blurring. rfix. rewrite HM.
  rewrite scatter_gather_zeros by (now apply entries_bound).
  now rewrite (hits_entries _ _ i n).
Qed.

(* ================================================================== D. the blocks of both formalisms are B_i^T N^-1 B_j *)
Lemma sumR_mul_distr {A B} (f : A -> R) (g : B -> R) la lb :
  sumR (map f la) * sumR (map g lb) = sumR (map (fun a => sumR (map (fun b => f a * g b) lb)) la).
Proof. induction la as [|a la IH]; cbn [map sumR]; [ring|]. rewrite <- IH, sumR_map_scal. ring. Qed.
Lemma sumR_scal2 {A} (f : A -> R) x y l : sumR (map (fun a => x * f a * y) l) = x * sumR (map f l) * y.
Proof. induction l as [|a l IH]; cbn [map sumR]; [ring|]. rewrite IH. ring. Qed.

Lemma quad_factor {A B C} (x : A -> R) (y : B -> R) (c : C -> A -> R) (c' : C -> B -> R) (w : C -> R) la lb lc :
  sumR (map (fun a => sumR (map (fun b => x a * sumR (map (fun i => c i a * c' i b * w i) lc) * y b) lb)) la)
  = sumR (map (fun i => sumR (map (fun a => x a * c i a) la) * sumR (map (fun b => y b * c' i b) lb) * w i) lc).
Proof.
  transitivity (sumR (map (fun a => sumR (map (fun b => sumR (map (fun i => (x a * c i a) * (y b * c' i b) * w i) lc)) lb)) la)).
  - apply sumR_map_ext. intros a _. apply sumR_map_ext. intros b _. rewrite <- sumR_scal2.
    apply sumR_map_ext. intros i _. ring.
  - transitivity (sumR (map (fun i => sumR (map (fun a => sumR (map (fun b => (x a * c i a) * (y b * c' i b) * w i) lb)) la)) lc)).
    + rewrite (sumR_swap (fun i a => sumR (map (fun b => x a * c i a * (y b * c' i b) * w i) lb)) lc la).
      apply sumR_map_ext. intros a _.
      rewrite (sumR_swap (fun i b => x a * c i a * (y b * c' i b) * w i) lc lb). reflexivity.
    + apply sumR_map_ext. intros i _. rewrite sumR_mul_distr. rewrite <- sumR_map_mul_l.
      apply sumR_map_ext. intros a _. rewrite <- sumR_map_mul_l. reflexivity.
Qed.

(* blurred mapping matrix of a mapper, written through its encoding *)
Definition Bm (e : @enc ROps) (c : @convolver ROps) (n i p : nat) : R := sumR (map (fun s => E e s p * Cop c i s) (seq 0 n)).

(* mapper / mapper block through a dense overlap matrix W = C^T N^-1 C *)
Lemma block_via_W e0 e1 (c : @convolver ROps) (s : list R) (W : nat -> nat -> R) n a b :
  (forall d0 d1, (d0 < n)%nat -> (d1 < n)%nat ->
      W d0 d1 = sumR (map (fun i => Cop c i d0 * Cop c i d1 * / (nth i s 0 * nth i s 0)) (seq 0 n))) ->
  sumR (map (fun d0 => sumR (map (fun d1 => E e0 d0 a * W d0 d1 * E e1 d1 b) (seq 0 n))) (seq 0 n))
  = sumR (map (fun i => Bm e0 c n i a * Bm e1 c n i b / (nth i s 0 * nth i s 0)) (seq 0 n)).
Proof.
  intros HW.
  transitivity (sumR (map (fun d0 => sumR (map (fun d1 => E e0 d0 a *
       sumR (map (fun i => Cop c i d0 * Cop c i d1 * / (nth i s 0 * nth i s 0)) (seq 0 n)) * E e1 d1 b) (seq 0 n))) (seq 0 n))).
  - apply sumR_map_ext. intros d0 H0. apply sumR_map_ext. intros d1 H1. apply in_seq in H0, H1. rewrite HW by lia. reflexivity.
  - rewrite (quad_factor (fun d0 => E e0 d0 a) (fun d1 => E e1 d1 b) (fun i d0 => Cop c i d0) (fun i d1 => Cop c i d1)
                         (fun i => / (nth i s 0 * nth i s 0))).
    apply sumR_map_ext. intros i _. unfold Bm, Rdiv. reflexivity.
Qed.

Lemma G_sum_swap2 rws e0 e1 n a b : length rws = n ->
  G rws e0 e1 n a b + G rws e1 e0 n b a =
  sumR (map (fun d0 => sumR (map (fun d1 => E e0 d0 a * (U rws d0 d1 + U rws d1 d0) * E e1 d1 b) (seq 0 n))) (seq 0 n)).
Proof.
  intros Hn. unfold G. rewrite Hn.
  rewrite (sumR_swap (fun d0 d1 => E e1 d0 b * U rws d0 d1 * E e0 d1 a) (seq 0 n) (seq 0 n)).
  rewrite <- sumR_map_add. apply sumR_map_ext. intros d0 _. rewrite <- sumR_map_add.
  apply sumR_map_ext. intros d1 _. ring.
Qed.

(* hypothesis shapes used below:
   HW : the dense overlap matrix of the model is C^T N^-1 C          (discharged by wt_dense_is_overlap)
   Hwd: w_tilde_data is C^T N^-1 d                                    (discharged by wt_data_is_adjoint) *)
Definition W_is_overlap (c : @convolver ROps) (s : list R) (W : @mat ROps) (n : nat) : Prop :=
  forall d0 d1, (d0 < n)%nat -> (d1 < n)%nat ->
    mget W d0 d1 = sumR (map (fun i => Cop c i d0 * Cop c i d1 * / (nth i s 0 * nth i s 0)) (seq 0 n)).
Definition wd_is_adjoint (c : @convolver ROps) (d s wd : list R) (n : nat) : Prop :=
  forall k, (k < n)%nat -> nth k wd 0 = sumR (map (fun i => Cop c i k * (nth i d 0 / (nth i s 0 * nth i s 0))) (seq 0 n)).

(* mapper diagonal block of the w-tilde formalism *)
Theorem wt_diag_block noise K nfs (c : @convolver ROps) s e P a b :
  let n := length nfs in
  W_is_overlap c s (@wt_dense ROps noise K nfs) n -> enc_ok e P -> (a < P)%nat -> (b < P)%nat ->
  let '(pre, idx, lens) := @preload ROps noise K nfs in
  mget (@curv_preload ROps pre idx lens e P) a b =
  sumR (map (fun i => Bm e c n i a * Bm e c n i b / (nth i s 0 * nth i s 0)) (seq 0 n)).
Proof.
  intros n HW He Ha Hb. pose proof (preload_rows_recovered noise K nfs) as HR.
  destruct (@preload ROps noise K nfs) as [[pre idx] lens] eqn:EP. cbv beta iota in HR.
  assert (Hlens : length lens = n).
  { unfold preload in EP. inversion EP. now rewrite map_length, preload_rows_length. }
  rewrite curv_preload_spec; auto.
  - rfix. rewrite HR, Hlens. rewrite <- (block_via_W e e c s (fun d0 d1 => mget (@wt_dense ROps noise K nfs) d0 d1)) by exact HW.
    apply sumR_map_ext. intros d0 H0. apply sumR_map_ext. intros d1 H1. apply in_seq in H0, H1.
    rewrite preload_represents_dense by (unfold n in *; lia). reflexivity.
  - rfix. rewrite HR, Hlens. apply preload_rows_ok.
Qed.
(* off-diagonal block between two mappers: off(e0,e1) + off(e1,e0)^T *)
Lemma mget_transpose (M : @mat ROps) n p a b : shape n p M -> (0 < n)%nat -> (a < p)%nat -> (b < n)%nat ->
  mget (transpose M) a b = mget M b a.
Proof.
  intros [HL HR] Hn Ha Hb. rewrite mget_R. unfold transpose.
  assert (ncols M = p) as -> by (unfold ncols; rewrite hd_nth; apply HR; lia).
  rewrite nth_map_seq by exact Ha. rewrite HL. rewrite nth_map_seq by exact Hb. reflexivity.
Qed.
Lemma mget_madd (A B : @mat ROps) n p a b : shape n p A -> shape n p B -> (a < n)%nat -> (b < p)%nat ->
  mget (madd A B) a b = mget A a b + mget B a b.
Proof.
  intros [HA1 HA2] [HB1 HB2] Ha Hb. rewrite !mget_R. unfold madd.
  rewrite (combine_nth_map A B [] [] n) by assumption. rewrite map_map. rewrite nth_map_seq by exact Ha. cbn [fst snd].
  unfold vadd. rewrite (combine_nth_map _ _ 0 0 p) by auto. rewrite map_map. rewrite nth_map_seq by exact Hb. reflexivity.
Qed.
Theorem wt_off_block noise K nfs (c : @convolver ROps) s e0 P0 e1 P1 a b :
  let n := length nfs in
  W_is_overlap c s (@wt_dense ROps noise K nfs) n -> enc_ok e0 P0 -> enc_ok e1 P1 -> (a < P0)%nat -> (b < P1)%nat ->
  let '(pre, idx, lens) := @preload ROps noise K nfs in
  mget (@off_diag ROps pre idx lens e0 P0 e1 P1) a b =
  sumR (map (fun i => Bm e0 c n i a * Bm e1 c n i b / (nth i s 0 * nth i s 0)) (seq 0 n)).
Proof.
  intros n HW He0 He1 Ha Hb. pose proof (preload_rows_recovered noise K nfs) as HR.
  destruct (@preload ROps noise K nfs) as [[pre idx] lens] eqn:EP. cbv beta iota in HR.
  assert (Hlens : length lens = n).
  { unfold preload in EP. inversion EP. now rewrite map_length, preload_rows_length. }
  unfold off_diag.
  rewrite (mget_madd _ _ P0 P1); auto using shape_off_preload.
  2:{ unfold transpose. split; [now rewrite map_length, seq_length; unfold ncols, off_preload, reshape; destruct P1; [lia|]; cbn; rewrite map_length, seq_length|].
      intros x Hx. destruct P1 as [|P1]; [lia|].
      assert (ncols (@off_preload ROps pre idx lens e1 (S P1) e0 P0) = P0) as ->.
      { unfold ncols, off_preload, reshape. cbn. now rewrite map_length, seq_length. }
      rewrite nth_map_seq by exact Hx. rewrite map_length, seq_length. unfold off_preload, reshape. now rewrite map_length, seq_length. }
  rewrite (mget_transpose _ P1 P0); auto using shape_off_preload; try lia.
  assert (Hok : rows_ok (rows_of (combine idx pre) lens) n) by (rfix; rewrite HR; apply preload_rows_ok).
  rewrite (off_preload_spec pre idx lens e0 P0 e1 P1 a b n); auto.
  rewrite (off_preload_spec pre idx lens e1 P1 e0 P0 b a n); auto.
  rewrite G_sum_swap2 by (rewrite rows_of_length; exact Hlens).
  rfix. rewrite HR. rewrite <- (block_via_W e0 e1 c s (fun d0 d1 => mget (@wt_dense ROps noise K nfs) d0 d1)) by exact HW.
  apply sumR_map_ext. intros d0 H0. apply sumR_map_ext. intros d1 H1. apply in_seq in H0, H1.
  rewrite preload_represents_dense by (unfold n in *; lia). reflexivity.
Qed.

(* mapper / function-list block *)
Theorem wt_mapper_func_block (c : @convolver ROps) e P (Bf : @mat ROps) (s : list R) n a l :
  frames_ok c n -> length Bf = n -> length (e_dw e) = n -> enc_ok e P -> (a < P)%nat -> (l < ncols Bf)%nat ->
  mget (@off_mapper_func ROps e P (div_rows_sq Bf s) (image_frames c)) a l =
  sumR (map (fun i => Bm e c n i a * mget Bf i l / (nth i s 0 * nth i s 0)) (seq 0 n)).
Proof.
  intros [Hfl Hfb] HB Hdw He Ha Hl. rewrite off_mapper_func_spec by (rewrite ?ncols_div_rows_sq; auto).
  rewrite Hdw.
  transitivity (sumR (map (fun d0 => sumR (map (fun i => E e d0 a * Cop c i d0 * (mget Bf i l / (nth i s 0 * nth i s 0))) (seq 0 n))) (seq 0 n))).
  - apply sumR_map_ext. intros d0 _.
    transitivity (E e d0 a * sumR (map (fun iw : nat * R => mget (div_rows_sq Bf s) (fst iw) l * snd iw) (nth d0 (image_frames c) []))).
    { f_equal. apply sumR_map_ext. intros ik _. ring. }
    rewrite (group_by_index _ (fun i => mget (div_rows_sq Bf s) i l) n) by (intros iw Hin; now apply (Hfb d0)).
    rewrite <- sumR_map_scal. apply sumR_map_ext. intros i Hi. apply in_seq in Hi. rewrite mget_div_rows_sq by lia. unfold Cop, Rdiv. rfix. ring.
  - rewrite (sumR_swap (fun d0 i => E e d0 a * Cop c i d0 * (mget Bf i l / (nth i s 0 * nth i s 0))) (seq 0 n) (seq 0 n)).
    apply sumR_map_ext. intros i _. unfold Bm. unfold Rdiv. rewrite <- !sumR_map_mul_l. apply sumR_map_ext. intros d0 _. ring.
Qed.

(* function-list / function-list block *)
Theorem ff_block (B0 B1 : @mat ROps) (s : list R) n a b :
  length B0 = n -> length B1 = n -> (forall i, (i < n)%nat -> nth i s 0 <> 0) -> (a < ncols B0)%nat -> (b < ncols B1)%nat ->
  mget (dotTN (div_rows B0 s) (div_rows B1 s)) a b =
  sumR (map (fun i => mget B0 i a * mget B1 i b / (nth i s 0 * nth i s 0)) (seq 0 n)).
Proof.
  intros H0 H1 Hs Ha Hb. rewrite mget_dotTN by (rewrite ncols_div_rows; assumption). rewrite div_rows_length, H0.
  apply sumR_map_ext. intros i Hi. apply in_seq in Hi. rewrite !mget_div_rows by lia. apply div_mul_div. apply Hs. lia.
Qed.

(* ================================================================== E. block assembly *)
(* ---- slices and blocks ---- *)
Lemma nth_firstn_lt {A} (l : list A) k i d : (i < k)%nat -> nth i (firstn k l) d = nth i l d.
Proof. revert k i. induction l as [|x l IH]; intros [|k] [|i] H; cbn; auto; try lia. apply IH. lia. Qed.
Lemma nth_skipn_add {A} (l : list A) k i d : nth i (skipn k l) d = nth (k + i) l d.
Proof. revert k. induction l as [|x l IH]; intros [|k]; cbn; auto. destruct i; reflexivity. Qed.
Lemma set_slice_length (v w : list R) lo : (lo + length w <= length v)%nat -> length (@set_slice ROps v lo w) = length v.
Proof. intros H. unfold set_slice. rewrite !app_length, firstn_length, skipn_length. rfix. lia. Qed.
Lemma nth_set_slice (v w : list R) lo b : (lo + length w <= length v)%nat ->
  nth b (@set_slice ROps v lo w) 0 = if Nat.leb lo b && Nat.ltb b (lo + length w) then nth (b - lo) w 0 else nth b v 0.
Proof.
  intros H. unfold set_slice. rfix.
  destruct (Nat.leb lo b) eqn:L1; cbn [andb].
  - apply Nat.leb_le in L1. rewrite app_nth2 by (rewrite firstn_length; lia). rewrite firstn_length, Nat.min_l by lia.
    destruct (Nat.ltb b (lo + length w)) eqn:L2.
    + apply Nat.ltb_lt in L2. rewrite app_nth1 by lia. reflexivity.
    + apply Nat.ltb_ge in L2. rewrite app_nth2 by lia. rewrite nth_skipn_add. f_equal. lia.
  - apply Nat.leb_gt in L1. rewrite app_nth1 by (rewrite firstn_length; lia). apply nth_firstn_lt. lia.
Qed.

Lemma set_block_rows N (F Bk : @mat ROps) r0 c0 h : length F = N -> (r0 + h <= N)%nat ->
  let F' := fold_left (fun F i => upd_set F (r0 + i) (@set_slice ROps (nth (r0 + i) F []) c0 (nth i Bk []))) (seq 0 h) F in
  length F' = N /\
  forall a, nth a F' [] = if Nat.leb r0 a && Nat.ltb a (r0 + h) then @set_slice ROps (nth a F []) c0 (nth (a - r0) Bk []) else nth a F [].
Proof.
  intros HL. induction h as [|h IH]; intros Hh F'.
  - cbn in F'. subst F'. split; auto. intros a. destruct (Nat.leb r0 a) eqn:L; cbn [andb]; auto.
    destruct (Nat.ltb a (r0 + 0)) eqn:L2; auto. apply Nat.leb_le in L. apply Nat.ltb_lt in L2. lia.
  - subst F'. rewrite seq_S, fold_left_app. cbn [fold_left plus].
    destruct IH as [IH1 IH2]; [lia|]. split; [rewrite upd_set_length; exact IH1|]. intros a.
    rewrite nth_upd_set by lia. rewrite IH2.
    assert (Nat.leb r0 (r0 + h) && Nat.ltb (r0 + h) (r0 + h) = false) as ->.
    { apply andb_false_iff. right. apply Nat.ltb_ge. lia. }
    destruct (Nat.eqb (r0 + h) a) eqn:X.
    + apply Nat.eqb_eq in X. subst a.
      assert (Nat.leb r0 (r0 + h) && Nat.ltb (r0 + h) (r0 + S h) = true) as ->.
      { apply andb_true_iff. split; [apply Nat.leb_le | apply Nat.ltb_lt]; lia. }
      replace (r0 + h - r0)%nat with h by lia. reflexivity.
    + apply Nat.eqb_neq in X. rewrite IH2.
      destruct (Nat.leb r0 a) eqn:L; cbn [andb]; auto. apply Nat.leb_le in L.
      destruct (lt_dec a (r0 + h)) as [L2|L2].
      * assert (Nat.ltb a (r0 + h) = true) as -> by (apply Nat.ltb_lt; lia).
        assert (Nat.ltb a (r0 + S h) = true) as -> by (apply Nat.ltb_lt; lia). reflexivity.
      * assert (Nat.ltb a (r0 + h) = false) as -> by (apply Nat.ltb_ge; lia).
        assert (Nat.ltb a (r0 + S h) = false) as -> by (apply Nat.ltb_ge; lia). reflexivity.
Qed.
Lemma set_block_spec N (F Bk : @mat ROps) r0 c0 h w : shape N N F -> shape h w Bk -> (r0 + h <= N)%nat -> (c0 + w <= N)%nat ->
  shape N N (@set_block ROps F r0 c0 Bk) /\
  forall a b, mget (@set_block ROps F r0 c0 Bk) a b =
    if Nat.leb r0 a && Nat.ltb a (r0 + h) && (Nat.leb c0 b && Nat.ltb b (c0 + w)) then mget Bk (a - r0) (b - c0) else mget F a b.
Proof.
  intros [HF1 HF2] [HB1 HB2] Hr Hc. unfold set_block. rewrite HB1.
  destruct (set_block_rows N F Bk r0 c0 h HF1 Hr) as [L R]. split.
  - split; [exact L|]. intros a Ha. rewrite R.
    destruct (Nat.leb r0 a && Nat.ltb a (r0 + h)) eqn:X; [|auto].
    apply andb_true_iff in X. destruct X as [X1 X2]. apply Nat.leb_le in X1. apply Nat.ltb_lt in X2.
    rewrite set_slice_length; [auto|]. rewrite HB2 by lia. rewrite HF2 by lia. lia.
  - intros a b. rewrite !mget_R. rewrite R.
    destruct (Nat.leb r0 a && Nat.ltb a (r0 + h)) eqn:X; cbn [andb]; [|reflexivity].
    apply andb_true_iff in X. destruct X as [X1 X2]. apply Nat.leb_le in X1. apply Nat.ltb_lt in X2.
    rewrite nth_set_slice by (rewrite HB2, HF2 by lia; lia). rewrite HB2 by lia. reflexivity.
Qed.

(* ---- offsets of the objects ---- *)
Definition dflt : @lobj ROps := LFunc [] None 0%nat true.
Definition ob (objs : list (@lobj ROps)) (k : nat) : @lobj ROps := nth k objs dflt.
Definition tp (l : list (@lobj ROps)) : nat := list_sum (map params l).
Definition off (objs : list (@lobj ROps)) (k : nat) : nat := tp (firstn k objs).

Lemma total_params_tp objs : @total_params ROps objs = tp objs.
Proof.
  unfold total_params, tp. assert (G : forall l a, fold_left (fun a o => (a + @params ROps o)%nat) l a = (a + list_sum (map params l))%nat).
  { unfold list_sum. induction l as [|o l IH]; intros a; cbn [fold_left map fold_right]; [lia|]. rewrite IH. lia. }
  apply G.
Qed.
Lemma tp_app l1 l2 : tp (l1 ++ l2) = (tp l1 + tp l2)%nat.
Proof. unfold tp. now rewrite map_app, list_sum_app. Qed.
Lemma tp_single o : tp [o] = params o.
Proof. unfold tp. cbn. lia. Qed.
Lemma firstn_S_nth {A} (l : list A) k d : (k < length l)%nat -> firstn (S k) l = firstn k l ++ [nth k l d].
Proof. revert k. induction l as [|x l IH]; intros [|k] H; cbn in *; try lia; auto. f_equal. apply IH. lia. Qed.
Lemma off_S objs k : (k < length objs)%nat -> off objs (S k) = (off objs k + params (ob objs k))%nat.
Proof. intros H. unfold off, ob. rewrite (firstn_S_nth objs k dflt H), tp_app. unfold tp at 2. cbn. lia. Qed.
Lemma off_mono objs k k' : (k < k')%nat -> (k' <= length objs)%nat -> (off objs k + params (ob objs k) <= off objs k')%nat.
Proof.
  intros H1 H2. induction k' as [|k' IH]; [lia|].
  destruct (Nat.eq_dec k k') as [->|N].
  - rewrite off_S by lia. lia.
  - rewrite off_S by lia. assert (off objs k + params (ob objs k) <= off objs k')%nat by (apply IH; lia). lia.
Qed.
Lemma off_all objs : off objs (length objs) = tp objs.
Proof. unfold off. now rewrite firstn_all. Qed.
Lemma off_bound objs k : (k < length objs)%nat -> (off objs k + params (ob objs k) <= tp objs)%nat.
Proof. intros H. rewrite <- off_all. apply off_mono; lia. Qed.
Lemma locate_range objs i k la x : (i < length objs)%nat -> (k < length objs)%nat -> (la < params (ob objs i))%nat ->
  x = (off objs i + la)%nat -> (off objs k <= x)%nat -> (x < off objs k + params (ob objs k))%nat -> k = i.
Proof.
  intros Hi Hk Hla -> H1 H2. destruct (Nat.lt_trichotomy k i) as [L|[E|L]]; auto; exfalso.
  - pose proof (off_mono objs k i L ltac:(lia)). lia.
  - pose proof (off_mono objs i k L ltac:(lia)). lia.
Qed.

(* ---- param_range_list_from / cls_list_from through object indices ---- *)
Definition idxs (cls : @lobj ROps -> bool) (objs : list (@lobj ROps)) : list nat :=
  filter (fun k => cls (ob objs k)) (seq 0 (length objs)).
Definition ent (objs : list (@lobj ROps)) (k : nat) : @lobj ROps * (nat * nat) :=
  (ob objs k, (off objs k, (off objs k + params (ob objs k))%nat)).

Lemma nth_app_len {A} (l1 l2 : list A) x d : nth (length l1) (l1 ++ x :: l2) d = x.
Proof. rewrite app_nth2 by lia. now rewrite Nat.sub_diag. Qed.
Lemma firstn_app_len {A} (l1 l2 : list A) : firstn (length l1) (l1 ++ l2) = l1.
Proof. rewrite firstn_app, Nat.sub_diag, firstn_all. cbn. apply app_nil_r. Qed.
Lemma ranges_from_idx cls suf : forall pre,
  @ranges_from ROps cls suf (tp pre) =
  map (fun k => snd (ent (pre ++ suf) k)) (filter (fun k => cls (ob (pre ++ suf) k)) (seq (length pre) (length suf))).
Proof.
  induction suf as [|o t IH]; intros pre; [reflexivity|].
  cbn [ranges_from length seq filter]. unfold ob at 1. rewrite nth_app_len.
  specialize (IH (pre ++ [o])). rewrite tp_app, tp_single in IH. rewrite IH. rewrite <- app_assoc. cbn [app]. rewrite app_length. cbn [length].
  rewrite Nat.add_1_r.
  destruct (cls o); cbn [app map]; [|reflexivity]. f_equal.
  unfold ent, off, ob. cbn [snd]. rewrite firstn_app_len, nth_app_len. reflexivity.
Qed.
Lemma filter_idx cls suf : forall pre,
  filter cls suf = map (ob (pre ++ suf)) (filter (fun k => cls (ob (pre ++ suf) k)) (seq (length pre) (length suf))).
Proof.
  induction suf as [|o t IH]; intros pre; [reflexivity|].
  cbn [length seq filter]. unfold ob at 2. rewrite nth_app_len.
  specialize (IH (pre ++ [o])). rewrite <- app_assoc in IH. cbn [app] in IH. rewrite app_length in IH. cbn [length] in IH.
  rewrite Nat.add_1_r in IH.
  destruct (cls o); cbn [map]; rewrite IH; [|reflexivity]. f_equal. unfold ob. now rewrite nth_app_len.
Qed.
Lemma combine_map_same {A B C} (f : A -> B) (g : A -> C) l : combine (map f l) (map g l) = map (fun x => (f x, g x)) l.
Proof. induction l; cbn; auto. now rewrite IHl. Qed.
Lemma entries_idx cls objs :
  combine (filter cls objs) (@ranges_from ROps cls objs 0) = map (ent objs) (idxs cls objs).
Proof.
  change 0%nat with (tp []). rewrite (ranges_from_idx cls objs []), (filter_idx cls objs []). cbn [app length].
  rewrite combine_map_same. unfold idxs. apply map_ext. intros k. reflexivity.
Qed.

(* ---- the w-tilde assembly as a list of tagged blocks ---- *)
Definition place (objs : list (@lobj ROps)) (C : @mat ROps) (t : (nat * nat) * @mat ROps) : @mat ROps :=
  @set_block ROps C (off objs (fst (fst t))) (off objs (snd (fst t))) (snd t).
Lemma fold_left_map {A B C} (f : A -> B -> A) (g : C -> B) l a :
  fold_left f (map g l) a = fold_left (fun a x => f a (g x)) l a.
Proof. revert a. induction l; intros; cbn; auto. Qed.
Lemma pairs_lt_map {A B} (f : A -> B) l : pairs_lt (map f l) = map (fun p => (f (fst p), f (snd p))) (pairs_lt l).
Proof. induction l as [|a l IH]; cbn; [reflexivity|]. rewrite map_app, IH, !map_map. reflexivity. Qed.
Lemma list_prod_map {A B C D} (f : A -> B) (g : C -> D) l l' :
  list_prod (map f l) (map g l') = map (fun p => (f (fst p), g (snd p))) (list_prod l l').
Proof. induction l as [|a l IH]; cbn; [reflexivity|]. rewrite map_app, IH, !map_map. reflexivity. Qed.

Section Assembly.
  Variables (c : @convolver ROps) (pre : list R) (idx lens : list nat) (objs : list (@lobj ROps)) (s : list R).
  Definition diagB (k : nat) : @mat ROps := @curv_preload ROps pre idx lens (enc_of (ob objs k)) (params (ob objs k)).
  Definition offB (kl : nat * nat) : @mat ROps :=
    @off_diag ROps pre idx lens (enc_of (ob objs (fst kl))) (params (ob objs (fst kl))) (enc_of (ob objs (snd kl))) (params (ob objs (snd kl))).
  Definition mfB (kl : nat * nat) : @mat ROps :=
    @off_mapper_func ROps (enc_of (ob objs (fst kl))) (params (ob objs (fst kl))) (@div_rows_sq ROps (opmat c (ob objs (snd kl))) s) (image_frames c).
  Definition ffB (kl : nat * nat) : @mat ROps :=
    @dotTN ROps (@div_rows ROps (opmat c (ob objs (fst kl))) s) (@div_rows ROps (opmat c (ob objs (snd kl))) s).
  Definition wt_blocks : list ((nat * nat) * @mat ROps) :=
    let Im := idxs is_mapper objs in let If := idxs is_func objs in
    map (fun k => ((k, k), diagB k)) Im ++ map (fun kl => (kl, offB kl)) (pairs_lt Im) ++
    (if existsb is_func objs then map (fun kl => (kl, mfB kl)) (list_prod Im If) ++ map (fun kl => (kl, ffB kl)) (list_prod If If)
     else []).
  Lemma F_wt_pre_blocks :
    @F_wt_pre ROps c pre idx lens objs s = fold_left (place objs) wt_blocks (@zmat ROps (tp objs) (tp objs)).
  Proof.
    unfold F_wt_pre, wt_blocks. rewrite total_params_tp. rewrite !entries_idx.
    rewrite pairs_lt_map, !list_prod_map.
    destruct (existsb is_func objs); rewrite !fold_left_app, ?fold_left_map; reflexivity.
  Qed.
  (* the content of a block is a function of its tag *)
  Definition Gf (kl : nat * nat) : @mat ROps :=
    if is_mapper (ob objs (fst kl)) then
      (if is_mapper (ob objs (snd kl)) then (if Nat.eqb (fst kl) (snd kl) then diagB (fst kl) else offB kl) else mfB kl)
    else ffB kl.
End Assembly.

Definition tag_eqb (t1 t2 : nat * nat) : bool := Nat.eqb (fst t1) (fst t2) && Nat.eqb (snd t1) (snd t2).
Lemma tag_eqb_true t1 t2 : tag_eqb t1 t2 = true <-> t1 = t2.
Proof.
  unfold tag_eqb. destruct t1, t2. cbn. rewrite andb_true_iff, !Nat.eqb_eq. split; [intros [-> ->]; auto | intros H; inversion H; auto].
Qed.
Definition blk_ok (objs : list (@lobj ROps)) (G : nat * nat -> @mat ROps) (t : (nat * nat) * @mat ROps) : Prop :=
  (fst (fst t) < length objs)%nat /\ (snd (fst t) < length objs)%nat /\ snd t = G (fst t) /\
  shape (params (ob objs (fst (fst t)))) (params (ob objs (snd (fst t)))) (snd t).

Lemma place_cell objs G (C : @mat ROps) t i j la lb : shape (tp objs) (tp objs) C -> blk_ok objs G t ->
  (i < length objs)%nat -> (j < length objs)%nat -> (la < params (ob objs i))%nat -> (lb < params (ob objs j))%nat ->
  shape (tp objs) (tp objs) (place objs C t) /\
  mget (place objs C t) (off objs i + la) (off objs j + lb) =
    if tag_eqb (fst t) (i, j) then mget (snd t) la lb else mget C (off objs i + la) (off objs j + lb).
Proof.
  intros HS (Hk & Hl & _ & HB) Hi Hj Hla Hlb. destruct t as [[k l] Bk]. cbn [fst snd] in *. unfold place. cbn [fst snd].
  destruct (set_block_spec (tp objs) C Bk (off objs k) (off objs l) _ _ HS HB (off_bound objs k Hk) (off_bound objs l Hl)) as [S1 S2].
  split; [exact S1|]. rewrite S2. unfold tag_eqb. cbn [fst snd].
  match goal with |- (if ?c then _ else _) = _ => destruct c eqn:X end.
  - apply andb_true_iff in X. destruct X as [X1 X2]. apply andb_true_iff in X1, X2.
    destruct X1 as [A1 A2]. destruct X2 as [B1 B2]. apply Nat.leb_le in A1, B1. apply Nat.ltb_lt in A2, B2.
    assert (k = i) by (eapply locate_range; eauto). assert (l = j) by (eapply locate_range; eauto). subst k l.
    rewrite !Nat.eqb_refl. cbn [andb]. f_equal; lia.
  - destruct (Nat.eqb k i) eqn:E1; cbn [andb]; auto. destruct (Nat.eqb l j) eqn:E2; auto.
    apply Nat.eqb_eq in E1, E2. subst k l. exfalso.
    assert (Nat.leb (off objs i) (off objs i + la) && Nat.ltb (off objs i + la) (off objs i + params (ob objs i)) = true) as Y1.
    { apply andb_true_iff. split; [apply Nat.leb_le | apply Nat.ltb_lt]; lia. }
    assert (Nat.leb (off objs j) (off objs j + lb) && Nat.ltb (off objs j + lb) (off objs j + params (ob objs j)) = true) as Y2.
    { apply andb_true_iff. split; [apply Nat.leb_le | apply Nat.ltb_lt]; lia. }
    rewrite Y1, Y2 in X. discriminate.
Qed.
Lemma blocks_cell objs G bl i j la lb : forall (C : @mat ROps), shape (tp objs) (tp objs) C -> (forall t, In t bl -> blk_ok objs G t) ->
  (i < length objs)%nat -> (j < length objs)%nat -> (la < params (ob objs i))%nat -> (lb < params (ob objs j))%nat ->
  shape (tp objs) (tp objs) (fold_left (place objs) bl C) /\
  mget (fold_left (place objs) bl C) (off objs i + la) (off objs j + lb) =
    if existsb (fun t => tag_eqb (fst t) (i, j)) bl then mget (G (i, j)) la lb else mget C (off objs i + la) (off objs j + lb).
Proof.
  induction bl as [|t bl IH]; intros C HS Hok Hi Hj Hla Hlb; cbn [fold_left existsb]; [split; auto|].
  destruct (place_cell objs G C t i j la lb HS (Hok t (or_introl eq_refl)) Hi Hj Hla Hlb) as [P1 P2].
  destruct (IH (place objs C t) P1 (fun t' H => Hok t' (or_intror H)) Hi Hj Hla Hlb) as [Q1 Q2].
  split; [exact Q1|]. rewrite Q2.
  destruct (existsb (fun t0 => tag_eqb (fst t0) (i, j)) bl); [now rewrite orb_true_r|]. rewrite orb_false_r. rewrite P2.
  destruct (tag_eqb (fst t) (i, j)) eqn:X; [|reflexivity].
  apply tag_eqb_true in X. destruct (Hok t (or_introl eq_refl)) as (_ & _ & HG & _). rewrite HG, X. reflexivity.
Qed.

Lemma pairs_lt_filter_seq (p : nat -> bool) n : forall a x y,
  In (x, y) (pairs_lt (filter p (seq a n))) <-> (x < y)%nat /\ In x (filter p (seq a n)) /\ In y (filter p (seq a n)).
Proof.
  induction n as [|n IH]; intros a x y; cbn [seq filter].
  - cbn. tauto.
  - assert (Hgt : forall z, In z (filter p (seq (S a) n)) -> (a < z)%nat).
    { intros z Hz. apply filter_In in Hz. destruct Hz as [Hz _]. apply in_seq in Hz. lia. }
    destruct (p a); [|apply IH]. cbn [pairs_lt]. rewrite in_app_iff, in_map_iff, IH. cbn [In]. split.
    + intros [[z [Hz Hin]]|(H1 & H2 & H3)].
      * inversion Hz; subst. pose proof (Hgt _ Hin). auto.
      * auto.
    + intros (H1 & [H2|H2] & [H3|H3]); subst.
      * lia.
      * left. exists y. auto.
      * pose proof (Hgt _ H2). lia.
      * right. auto.
Qed.
Lemma idxs_In cls objs k : In k (idxs cls objs) <-> (k < length objs)%nat /\ cls (ob objs k) = true.
Proof. unfold idxs. rewrite filter_In, in_seq. split; intros [H1 H2]; split; auto; lia. Qed.

Lemma shape_transpose (M : @mat ROps) n p : shape n p M -> (0 < n)%nat -> shape p n (transpose M).
Proof.
  intros [HL HR] Hn. unfold transpose.
  assert (ncols M = p) as -> by (unfold ncols; rewrite hd_nth; apply HR; lia).
  split; [now rewrite map_length, seq_length|]. intros a Ha. rewrite nth_map_seq by exact Ha. now rewrite map_length, seq_length.
Qed.
Lemma shape_madd (A B : @mat ROps) n p : shape n p A -> shape n p B -> shape n p (madd A B).
Proof.
  intros [HA1 HA2] [HB1 HB2]. unfold madd. rewrite (combine_nth_map A B [] [] n) by assumption. rewrite map_map.
  split; [now rewrite map_length, seq_length|]. intros a Ha. rewrite nth_map_seq by exact Ha. cbn [fst snd].
  unfold vadd. rewrite map_length, combine_length. rfix. rewrite HA2, HB2 by auto. apply Nat.min_id.
Qed.
Lemma shape_off_diag pre idx lens e0 P0 e1 P1 : (0 < P1)%nat -> shape P0 P1 (@off_diag ROps pre idx lens e0 P0 e1 P1).
Proof.
  intros H. unfold off_diag. apply shape_madd; [apply shape_off_preload|]. apply shape_transpose; [apply shape_off_preload | exact H].
Qed.

(* ---- the stacked operated mapping matrix ---- *)
Lemma off_cons o t k : off (o :: t) (S k) = (params o + off t k)%nat.
Proof. unfold off, tp. cbn. reflexivity. Qed.
Lemma hstack_row_cell (c : @convolver ROps) n k : forall objs i la,
  (forall o, In o objs -> shape n (params o) (opmat c o)) -> (k < n)%nat -> (i < length objs)%nat -> (la < params (ob objs i))%nat ->
  nth (off objs i + la) (concat (map (fun M : @mat ROps => nth k M []) (map (opmat c) objs))) 0 = mget (opmat c (ob objs i)) k la.
Proof.
  induction objs as [|o t IH]; intros i la Hsh Hk Hi Hla; [cbn in Hi; lia|].
  assert (Ho : length (nth k (opmat c o) []) = params o) by (destruct (Hsh o (or_introl eq_refl)) as [_ H]; now apply H).
  cbn [map concat]. destruct i as [|i].
  - unfold off, ob in *. cbn [firstn nth] in *. cbn. rewrite app_nth1 by (rfix; lia). reflexivity.
  - rewrite off_cons. rewrite app_nth2 by (rfix; lia). rfix. rewrite Ho.
    replace (params o + off t i + la - params o)%nat with (off t i + la)%nat by lia.
    unfold ob in *. cbn [nth] in *. apply IH; auto; [intros; apply Hsh; now right | cbn in Hi; lia].
Qed.
Lemma hstack_row_length (c : @convolver ROps) n k : forall objs,
  (forall o, In o objs -> shape n (params o) (opmat c o)) -> (k < n)%nat ->
  length (concat (map (fun M : @mat ROps => nth k M []) (map (opmat c) objs))) = tp objs.
Proof.
  induction objs as [|o t IH]; intros Hsh Hk; [reflexivity|]. cbn [map concat]. rewrite app_length, IH; auto; [|intros; apply Hsh; now right].
  destruct (Hsh o (or_introl eq_refl)) as [_ H]. rfix. rewrite H by exact Hk. unfold tp. cbn. reflexivity.
Qed.
Lemma shape_op_matrix (c : @convolver ROps) objs n : (forall o, In o objs -> shape n (params o) (opmat c o)) ->
  shape n (tp objs) (op_matrix c objs n).
Proof.
  intros H. unfold op_matrix, hstack. split; [now rewrite map_length, seq_length|]. intros a Ha.
  rewrite nth_map_seq by exact Ha. now apply (hstack_row_length c n).
Qed.
Lemma op_matrix_cell (c : @convolver ROps) objs n k i la :
  (forall o, In o objs -> shape n (params o) (opmat c o)) -> (k < n)%nat -> (i < length objs)%nat -> (la < params (ob objs i))%nat ->
  mget (op_matrix c objs n) k (off objs i + la) = mget (opmat c (ob objs i)) k la.
Proof.
  intros Hsh Hk Hi Hla. rewrite mget_R. unfold op_matrix, hstack. rewrite nth_map_seq by exact Hk. now apply (hstack_row_cell c n).
Qed.
Lemma tp_cons o t : tp (o :: t) = (params o + tp t)%nat.
Proof. reflexivity. Qed.
Lemma locate_exists objs a : (a < tp objs)%nat -> exists i la, (i < length objs)%nat /\ (la < params (ob objs i))%nat /\ a = (off objs i + la)%nat.
Proof.
  revert a. induction objs as [|o t IH]; intros a Ha; [unfold tp in Ha; cbn in Ha; lia|].
  destruct (lt_dec a (params o)) as [L|L].
  - exists 0%nat, a. split; [cbn; lia|]. split; [exact L|]. reflexivity.
  - assert (Ha' : (a - params o < tp t)%nat) by (rewrite tp_cons in Ha; lia).
    destruct (IH _ Ha') as (i & la & H1 & H2 & H3). exists (S i), la. rewrite off_cons. unfold ob in *. cbn [nth length].
    split; [lia|]. split; [exact H2|]. lia.
Qed.

(* normal-equation entry (without the diagonal term) on the stacked matrix *)
Definition Snorm (B : @mat ROps) (s : list R) (n a b : nat) : R :=
  sumR (map (fun k => mget B k a * mget B k b / (nth k s 0 * nth k s 0)) (seq 0 n)).
Lemma Snorm_sym B s n a b : Snorm B s n a b = Snorm B s n b a.
Proof. unfold Snorm. apply sumR_map_ext. intros k _. unfold Rdiv. ring. Qed.

(* well-formed linear objects on n data pixels *)
Definition wf_obj (c : @convolver ROps) (n : nat) (o : @lobj ROps) : Prop :=
  (0 < params o)%nat /\ shape n (params o) (opmat c o) /\
  match o with
  | LMapper e M P _ => enc_ok e P /\ represents e M n P /\ length (e_dw e) = n /\ length (e_du e) = n /\ length M = n /\ ncols M = P
  | LFunc _ _ _ _ => True
  end.

Lemma mapper_block_is_Bm (c : @convolver ROps) n e M P r k la : wf_obj c n (LMapper e M P r) -> frames_ok c n ->
  (k < n)%nat -> (la < P)%nat -> mget (opmat c (LMapper e M P r)) k la = Bm e c n k la.
Proof.
  intros (_ & _ & He & Hrep & _ & _ & HM & HP) Hfr Hk Hla. cbn [opmat].
  rewrite (convolve_matrix_is_Cop c M n) by (auto; lia). unfold Bm.
  apply sumR_map_ext. intros s0 Hs0. apply in_seq in Hs0. rewrite Hrep by lia. reflexivity.
Qed.

Lemma dotTN_div_rows_Snorm (B : @mat ROps) (s : list R) p q :
  (forall i, (i < length B)%nat -> nth i s 0 <> 0) -> (p < ncols B)%nat -> (q < ncols B)%nat ->
  mget (dotTN (div_rows B s) (div_rows B s)) p q = Snorm B s (length B) p q.
Proof.
  intros Hs Hp Hq. rewrite mget_dotTN by (rewrite ncols_div_rows; assumption). rewrite div_rows_length. unfold Snorm.
  apply sumR_map_ext. intros i Hi. apply in_seq in Hi. rewrite !mget_div_rows by lia. apply div_mul_div. apply Hs. lia.
Qed.
Lemma ncols_shape (M : @mat ROps) n p : shape n p M -> (0 < n)%nat -> ncols M = p.
Proof. intros [HL HR] Hn. unfold ncols. rewrite hd_nth. apply HR. exact Hn. Qed.

Lemma filter_true {A} (l : list A) : filter (fun _ => true) l = l.
Proof. induction l; cbn; congruence. Qed.
Lemma noreg_bound objs : Forall (fun i => (i < tp objs)%nat) (@noreg_index_list ROps objs).
Proof.
  unfold noreg_index_list. rewrite <- (filter_true objs) at 1. rewrite entries_idx.
  apply Forall_forall. intros x Hx. apply in_flat_map in Hx. destruct Hx as [orr [Hin Hx]].
  apply in_map_iff in Hin. destruct Hin as [k [<- Hk]]. apply idxs_In in Hk. destruct Hk as [Hk _].
  unfold ent in Hx. cbn [fst snd] in Hx. destruct (has_reg (ob objs k)); [contradiction|].
  apply in_seq in Hx. pose proof (off_bound objs k Hk). lia.
Qed.

Section Main.
  Variables (c : @convolver ROps) (noise : px -> R) (K : @kernel ROps) (nfs : list px) (objs : list (@lobj ROps)) (s : list R).
  Let n := length nfs.
  Hypothesis Hn : (0 < n)%nat.
  Hypothesis Hfr : frames_ok c n.
  Hypothesis Hs : forall i, (i < n)%nat -> nth i s 0 <> 0.
  Hypothesis HW : W_is_overlap c s (@wt_dense ROps noise K nfs) n.
  Hypothesis Hwf : forall o, In o objs -> wf_obj c n o.
  Let pre := fst (fst (@preload ROps noise K nfs)).
  Let idx := snd (fst (@preload ROps noise K nfs)).
  Let lens := snd (@preload ROps noise K nfs).
  Let B := op_matrix c objs n.

  Lemma EP : @preload ROps noise K nfs = (pre, idx, lens).
  Proof. unfold pre, idx, lens. destruct (@preload ROps noise K nfs) as [[? ?] ?]. reflexivity. Qed.
  Lemma Hsh : forall o, In o objs -> shape n (params o) (opmat c o).
  Proof. intros o Ho. now destruct (Hwf o Ho) as (_ & H & _). Qed.
  Lemma ob_In i : (i < length objs)%nat -> In (ob objs i) objs.
  Proof. intros. unfold ob. now apply nth_In. Qed.
  Lemma B_cell k i la : (k < n)%nat -> (i < length objs)%nat -> (la < params (ob objs i))%nat ->
    mget B k (off objs i + la) = mget (opmat c (ob objs i)) k la.
  Proof. intros. unfold B. apply op_matrix_cell; auto using Hsh. Qed.
  Lemma Snorm_cell i j la lb : (i < length objs)%nat -> (j < length objs)%nat -> (la < params (ob objs i))%nat -> (lb < params (ob objs j))%nat ->
    Snorm B s n (off objs i + la) (off objs j + lb) =
    sumR (map (fun k => mget (opmat c (ob objs i)) k la * mget (opmat c (ob objs j)) k lb / (nth k s 0 * nth k s 0)) (seq 0 n)).
  Proof.
    intros. unfold Snorm. apply sumR_map_ext. intros k Hk. apply in_seq in Hk. rewrite !B_cell by (auto; lia). reflexivity.
  Qed.

  (* every block the w-tilde formalism writes is the normal-equation block of its pair of objects *)
  Lemma Gf_value i j la lb : (i < length objs)%nat -> (j < length objs)%nat -> (la < params (ob objs i))%nat -> (lb < params (ob objs j))%nat ->
    is_mapper (ob objs i) = true \/ is_mapper (ob objs j) = false ->
    mget (Gf c pre idx lens objs s (i, j)) la lb = Snorm B s n (off objs i + la) (off objs j + lb).
  Proof.
    intros Hi Hj Hla Hlb Hkind. rewrite Snorm_cell by assumption. unfold Gf. cbn [fst snd].
    pose proof (Hwf _ (ob_In i Hi)) as Wi. pose proof (Hwf _ (ob_In j Hj)) as Wj.
    destruct (ob objs i) as [e0 M0 P0 r0|M0 ov0 P0 r0] eqn:Ei; cbn [is_mapper params] in *.
    - destruct (ob objs j) as [e1 M1 P1 r1|M1 ov1 P1 r1] eqn:Ej; cbn [is_mapper params] in *.
      + (* mapper / mapper *)
        transitivity (sumR (map (fun k => Bm e0 c n k la * Bm e1 c n k lb / (nth k s 0 * nth k s 0)) (seq 0 n))).
        2:{ apply sumR_map_ext. intros k Hk. apply in_seq in Hk.
            rewrite (mapper_block_is_Bm c n e0 M0 P0 r0), (mapper_block_is_Bm c n e1 M1 P1 r1) by (auto; lia). reflexivity. }
        pose proof Wi as (_ & _ & He0 & _). pose proof Wj as (_ & _ & He1 & _).
        destruct (Nat.eqb i j) eqn:X.
        * apply Nat.eqb_eq in X. subst j. rewrite Ei in Ej. inversion Ej; subst e1 M1 P1 r1.
          unfold diagB. rewrite Ei. cbn [enc_of params].
          pose proof (wt_diag_block noise K nfs c s e0 P0 la lb HW He0 Hla Hlb) as H. rewrite EP in H. exact H.
        * unfold offB. cbn [fst snd]. rewrite Ei, Ej. cbn [enc_of params].
          pose proof (wt_off_block noise K nfs c s e0 P0 e1 P1 la lb HW He0 He1 Hla Hlb) as H. rewrite EP in H. exact H.
      + (* mapper / function list *)
        unfold mfB. cbn [fst snd]. rewrite Ei, Ej. cbn [enc_of params].
        pose proof Wi as (_ & _ & He0 & _ & Hdw & _). pose proof Wj as (_ & Hshj & _). cbn [params] in Hshj.
        rewrite (wt_mapper_func_block c e0 P0 _ s n la lb); auto.
        * apply sumR_map_ext. intros k Hk. apply in_seq in Hk.
          rewrite (mapper_block_is_Bm c n e0 M0 P0 r0) by (auto; lia). reflexivity.
        * now destruct Hshj.
        * rewrite (ncols_shape _ n P1); auto.
    - destruct Hkind as [Hk|Hk]; [discriminate|].
      destruct (ob objs j) as [e1 M1 P1 r1|M1 ov1 P1 r1] eqn:Ej; cbn [is_mapper params] in *; [discriminate|].
      unfold ffB. cbn [fst snd]. rewrite Ei, Ej.
      destruct Wi as (_ & Hshi & _). destruct Wj as (_ & Hshj & _). cbn [params] in Hshi, Hshj.
      apply ff_block; auto; try (now destruct Hshi); try (now destruct Hshj).
      * rewrite (ncols_shape _ n P0); auto.
      * rewrite (ncols_shape _ n P1); auto.
  Qed.

  (* all blocks written by the w-tilde assembly are well placed, well shaped and determined by their tag *)
  Lemma ob_wf i : (i < length objs)%nat -> wf_obj c n (ob objs i).
  Proof. intros. apply Hwf, ob_In. assumption. Qed.
  Lemma opmat_ncols i : (i < length objs)%nat -> ncols (opmat c (ob objs i)) = params (ob objs i).
  Proof. intros Hi. destruct (ob_wf i Hi) as (_ & H & _). now apply (ncols_shape _ n). Qed.
  Lemma wt_blocks_ok t : In t (wt_blocks c pre idx lens objs s) ->
    blk_ok objs (Gf c pre idx lens objs s) t /\ (is_mapper (ob objs (fst (fst t))) = true \/ is_mapper (ob objs (snd (fst t))) = false).
  Proof.
    unfold wt_blocks. rewrite !in_app_iff. intros [H|[H|H]].
    - apply in_map_iff in H. destruct H as [k [<- Hk]]. apply idxs_In in Hk. destruct Hk as [Hk Hm].
      cbn [fst snd]. split; [|now left]. split; [exact Hk|]. split; [exact Hk|]. split.
      + unfold Gf. cbn [fst snd]. now rewrite Hm, Nat.eqb_refl.
      + unfold diagB. apply shape_curv_preload.
    - apply in_map_iff in H. destruct H as [[k l] [<- Hkl]]. unfold idxs in Hkl. apply pairs_lt_filter_seq in Hkl.
      destruct Hkl as (Hlt & Hk & Hl). fold (idxs is_mapper objs) in Hk, Hl. apply idxs_In in Hk, Hl.
      destruct Hk as [Hk Hmk]. destruct Hl as [Hl Hml]. cbn [fst snd]. split; [|now left]. split; [exact Hk|]. split; [exact Hl|]. split.
      + unfold Gf. cbn [fst snd]. rewrite Hmk, Hml. assert (Nat.eqb k l = false) as -> by (apply Nat.eqb_neq; lia). reflexivity.
      + unfold offB. cbn [fst snd]. apply shape_off_diag. now destruct (ob_wf l Hl).
    - destruct (existsb is_func objs); [|contradiction]. rewrite in_app_iff in H. destruct H as [H|H].
      + apply in_map_iff in H. destruct H as [[k l] [<- Hkl]]. apply in_prod_iff in Hkl. destruct Hkl as [Hk Hl].
        apply idxs_In in Hk, Hl. destruct Hk as [Hk Hmk]. destruct Hl as [Hl Hml]. unfold is_func in Hml. apply negb_true_iff in Hml.
        cbn [fst snd]. split; [|now left]. split; [exact Hk|]. split; [exact Hl|]. split.
        * unfold Gf. cbn [fst snd]. now rewrite Hmk, Hml.
        * unfold mfB. cbn [fst snd]. rewrite <- (opmat_ncols l Hl). rewrite <- (ncols_div_rows_sq (opmat c (ob objs l)) s).
          apply shape_off_mapper_func.
      + apply in_map_iff in H. destruct H as [[k l] [<- Hkl]]. apply in_prod_iff in Hkl. destruct Hkl as [Hk Hl].
        apply idxs_In in Hk, Hl. destruct Hk as [Hk Hmk]. destruct Hl as [Hl Hml]. unfold is_func in Hmk, Hml.
        apply negb_true_iff in Hmk, Hml. cbn [fst snd]. split; [|now right]. split; [exact Hk|]. split; [exact Hl|]. split.
        * unfold Gf. cbn [fst snd]. now rewrite Hmk.
        * unfold ffB. cbn [fst snd]. rewrite <- (opmat_ncols k Hk), <- (opmat_ncols l Hl).
          rewrite <- (ncols_div_rows (opmat c (ob objs k)) s), <- (ncols_div_rows (opmat c (ob objs l)) s). apply shape_dotTN.
  Qed.
  (* every pair of objects is written on at least one side of the diagonal *)
  Definition tagged (i j : nat) : bool := existsb (fun t => tag_eqb (fst t) (i, j)) (wt_blocks c pre idx lens objs s).
  Lemma tagged_intro i j B0 : In ((i, j), B0) (wt_blocks c pre idx lens objs s) -> tagged i j = true.
  Proof. intros H. unfold tagged. apply existsb_exists. exists ((i, j), B0). split; auto. now apply tag_eqb_true. Qed.
  Lemma tagged_some i j : (i < length objs)%nat -> (j < length objs)%nat -> tagged i j = true \/ tagged j i = true.
  Proof.
    intros Hi Hj.
    assert (Hfunc : forall k, (k < length objs)%nat -> is_mapper (ob objs k) = false -> existsb is_func objs = true).
    { intros k Hk Hm. apply existsb_exists. exists (ob objs k). split; [now apply ob_In|]. unfold is_func. now rewrite Hm. }
    destruct (is_mapper (ob objs i)) eqn:Mi; destruct (is_mapper (ob objs j)) eqn:Mj.
    - (* two mappers *)
      destruct (lt_eq_lt_dec i j) as [[L|E]|L].
      + left. apply (tagged_intro i j (offB pre idx lens objs (i, j))). unfold wt_blocks. rewrite !in_app_iff. right; left.
        apply in_map_iff. exists (i, j). split; auto. unfold idxs. apply pairs_lt_filter_seq. fold (idxs is_mapper objs).
        rewrite !idxs_In. auto.
      + subst j. left. apply (tagged_intro i i (diagB pre idx lens objs i)). unfold wt_blocks. rewrite !in_app_iff. left.
        apply in_map_iff. exists i. split; auto. apply idxs_In. auto.
      + right. apply (tagged_intro j i (offB pre idx lens objs (j, i))). unfold wt_blocks. rewrite !in_app_iff. right; left.
        apply in_map_iff. exists (j, i). split; auto. unfold idxs. apply pairs_lt_filter_seq. fold (idxs is_mapper objs).
        rewrite !idxs_In. auto.
    - left. apply (tagged_intro i j (mfB c objs s (i, j))). unfold wt_blocks. rewrite !in_app_iff. right; right.
      rewrite (Hfunc j Hj Mj). rewrite in_app_iff. left. apply in_map_iff. exists (i, j). split; auto.
      apply in_prod_iff. rewrite !idxs_In. unfold is_func. rewrite Mj. auto.
    - right. apply (tagged_intro j i (mfB c objs s (j, i))). unfold wt_blocks. rewrite !in_app_iff. right; right.
      rewrite (Hfunc i Hi Mi). rewrite in_app_iff. left. apply in_map_iff. exists (j, i). split; auto.
      apply in_prod_iff. rewrite !idxs_In. unfold is_func. rewrite Mi. auto.
    - left. apply (tagged_intro i j (ffB c objs s (i, j))). unfold wt_blocks. rewrite !in_app_iff. right; right.
      rewrite (Hfunc i Hi Mi). rewrite in_app_iff. right. apply in_map_iff. exists (i, j). split; auto.
      apply in_prod_iff. rewrite !idxs_In. unfold is_func. rewrite Mi, Mj. auto.
  Qed.

  (* the matrix before the mirror: each cell is the normal-equation value or (structurally) zero *)
  Lemma premirror_cell i j la lb : (i < length objs)%nat -> (j < length objs)%nat -> (la < params (ob objs i))%nat -> (lb < params (ob objs j))%nat ->
    let C := @F_wt_pre ROps c pre idx lens objs s in
    shape (tp objs) (tp objs) C /\ mget C (off objs i + la) (off objs j + lb) = if tagged i j then Snorm B s n (off objs i + la) (off objs j + lb) else 0.
  Proof.
    intros Hi Hj Hla Hlb C. unfold C. rewrite F_wt_pre_blocks.
    destruct (blocks_cell objs (Gf c pre idx lens objs s) (wt_blocks c pre idx lens objs s) i j la lb
                (@zmat ROps (tp objs) (tp objs)) (shape_zmat _ _) (fun t H => proj1 (wt_blocks_ok t H)) Hi Hj Hla Hlb) as [S1 S2].
    split; [exact S1|]. rewrite S2. fold (tagged i j). rewrite mget_zmat.
    destruct (tagged i j) eqn:Tg; [|reflexivity].
    apply Gf_value; auto. unfold tagged in Tg. apply existsb_exists in Tg. destruct Tg as [t [Hin Ht]].
    apply tag_eqb_true in Ht. destruct (wt_blocks_ok t Hin) as [_ Hk]. rewrite Ht in Hk. exact Hk.
  Qed.

  Lemma B_shape : shape n (tp objs) B.
  Proof. unfold B. apply shape_op_matrix. exact Hsh. Qed.

  (* after the mirror every entry is the normal-equation entry of the stacked operated matrix *)
  Theorem mirrored_wt_is_normal a b : (a < tp objs)%nat -> (b < tp objs)%nat ->
    shape (tp objs) (tp objs) (@F_wt_pre ROps c pre idx lens objs s) /\
    mget (mirrored (@F_wt_pre ROps c pre idx lens objs s)) a b = Snorm B s n a b.
  Proof.
    intros Ha Hb. destruct (locate_exists objs a Ha) as (i & la & Hi & Hla & ->).
    destruct (locate_exists objs b Hb) as (j & lb & Hj & Hlb & ->).
    destruct (premirror_cell i j la lb Hi Hj Hla Hlb) as [S1 C1].
    destruct (premirror_cell j i lb la Hj Hi Hlb Hla) as [_ C2].
    split; [exact S1|].
    apply (mirror_completes (tp objs) _ (Snorm B s n)); auto.
    - apply Snorm_sym.
    - rewrite C1. destruct (tagged i j); auto.
    - rewrite C2. rewrite (Snorm_sym B s n (off objs j + lb)). destruct (tagged j i); auto.
    - rewrite C1, C2. rewrite (Snorm_sym B s n (off objs j + lb)).
      destruct (tagged_some i j Hi Hj) as [T|T]; rewrite T; auto.
  Qed.
End Main.

(* InversionImagingWTilde.curvature_matrix on arbitrary native noise / pixel list (F_wt is the instance native m s / unmasked m) *)
Definition F_wt_gen (c : @convolver ROps) (noise : px -> R) (K : @kernel ROps) (nfs : list px) (objs : list (@lobj ROps)) (s : list R) (eps : R) : @mat ROps :=
  let '(pre, idx, lens) := @preload ROps noise K nfs in
  let C := mirrored (@F_wt_pre ROps c pre idx lens objs s) in
  let nr := @noreg_index_list ROps objs in
  if negb (Nat.eqb (length nr) 0) then add_to_diag C eps nr else C.
Lemma F_wt_is_gen c m K objs s eps : @F_wt ROps c m K objs s eps = F_wt_gen c (@native ROps m s) K (unmasked m) objs s eps.
Proof. reflexivity. Qed.

Theorem F_wt_eq_F_mapping (c : @convolver ROps) noise K nfs objs (s : list R) eps a b :
  let n := length nfs in
  (0 < n)%nat -> frames_ok c n -> (forall i, (i < n)%nat -> nth i s 0 <> 0) ->
  W_is_overlap c s (@wt_dense ROps noise K nfs) n -> (forall o, In o objs -> wf_obj c n o) ->
  (a < tp objs)%nat -> (b < tp objs)%nat ->
  mget (F_wt_gen c noise K nfs objs s eps) a b = mget (@F_mapping ROps c objs n s eps) a b.
Proof.
  intros n Hn Hfr Hs HW Hwf Ha Hb.
  pose proof (mirrored_wt_is_normal c noise K nfs objs s Hn Hfr Hs HW Hwf) as HM.
  pose proof (B_shape c nfs objs Hwf) as HB. fold n in HB.
  unfold F_wt_gen. rewrite (EP noise K nfs). cbv beta iota.
  set (C := @F_wt_pre ROps c _ _ _ objs s) in *.
  set (B := op_matrix c objs n) in *.
  assert (HC : forall x y, (x < tp objs)%nat -> (y < tp objs)%nat -> mget (mirrored C) x y = Snorm B s n x y) by (intros; now apply HM).
  assert (HSC : shape (tp objs) (tp objs) (mirrored C)) by (apply shape_mirrored; apply (HM a b Ha Hb)).
  unfold F_mapping, curv_mapping. fold B.
  assert (HncB : ncols B = tp objs) by (apply (ncols_shape B n); auto).
  assert (HlB : length B = n) by (now destruct HB).
  assert (HD : forall x y, (x < tp objs)%nat -> (y < tp objs)%nat -> mget (dotTN (div_rows B s) (div_rows B s)) x y = Snorm B s n x y).
  { intros x y Hx Hy. rewrite dotTN_div_rows_Snorm; rewrite ?HlB, ?HncB; auto. }
  assert (HSD : shape (tp objs) (tp objs) (dotTN (div_rows B s) (div_rows B s))).
  { pose proof (shape_dotTN (div_rows B s) (div_rows B s)) as H. now rewrite ncols_div_rows, HncB in H. }
  cbn [andb]. destruct (negb (Nat.eqb (length (@noreg_index_list ROps objs)) 0)).
  - rewrite !(add_to_diag_spec (tp objs)) by (auto; apply noreg_bound). rewrite HC, HD by assumption. reflexivity.
  - rewrite HC, HD by assumption. reflexivity.
Qed.

(* ---- no_regularization_index_list = the parameter ranges of the objects without regularization ---- *)
Lemma noreg_as_flat_map objs :
  @noreg_index_list ROps objs =
  flat_map (fun k => if has_reg (ob objs k) then [] else seq (off objs k) (params (ob objs k))) (seq 0 (length objs)).
Proof.
  unfold noreg_index_list. rewrite <- (filter_true objs) at 1. rewrite entries_idx.
  unfold idxs. rewrite filter_true. rewrite flat_map_concat_map, map_map, <- flat_map_concat_map.
  apply flat_map_ext. intros k. unfold ent. cbn [fst snd]. destruct (has_reg (ob objs k)); auto. f_equal. lia.
Qed.
Lemma noreg_In objs a : In a (@noreg_index_list ROps objs) <->
  exists k la, (k < length objs)%nat /\ (la < params (ob objs k))%nat /\ has_reg (ob objs k) = false /\ a = (off objs k + la)%nat.
Proof.
  rewrite noreg_as_flat_map, in_flat_map. split.
  - intros [k [Hk Ha]]. apply in_seq in Hk. destruct (has_reg (ob objs k)) eqn:R; [contradiction|].
    apply in_seq in Ha. exists k, (a - off objs k)%nat. repeat split; auto; lia.
  - intros (k & la & Hk & Hla & R & ->). exists k. split; [apply in_seq; lia|]. rewrite R. apply in_seq. lia.
Qed.
Lemma NoDup_flat_map_disjoint {A B} (f : A -> list B) l : NoDup l -> (forall x, In x l -> NoDup (f x)) ->
  (forall x y z, In x l -> In y l -> In z (f x) -> In z (f y) -> x = y) -> NoDup (flat_map f l).
Proof.
  induction 1 as [|a l Ha Hd IH]; intros Hn Hdis; cbn; [constructor|].
  apply NoDup_app_intro.
  - apply Hn. now left.
  - apply IH; [intros; apply Hn; now right | intros x y z Hx Hy; apply Hdis; now right].
  - intros z H1 H2. apply in_flat_map in H2. destruct H2 as [y [Hy H2]].
    assert (a = y) by (apply (Hdis a y z); auto; [now left | now right]). subst. contradiction.
Qed.
Lemma noreg_NoDup objs : NoDup (@noreg_index_list ROps objs).
Proof.
  rewrite noreg_as_flat_map. apply NoDup_flat_map_disjoint.
  - apply seq_NoDup.
  - intros k _. destruct (has_reg (ob objs k)); [constructor | apply seq_NoDup].
  - intros x y z Hx Hy H1 H2. apply in_seq in Hx, Hy.
    destruct (has_reg (ob objs x)); [contradiction|]. destruct (has_reg (ob objs y)); [contradiction|].
    apply in_seq in H1, H2.
    apply (locate_range objs y x (z - off objs y) z); try lia.
Qed.

(* InversionImagingMapping.curvature_matrix: block (i, j) is B_i^T N^-1 B_j, plus eps exactly on the diagonal of the objects
   without regularization *)
Theorem F_mapping_blocks (c : @convolver ROps) objs n (s : list R) eps i j la lb :
  (0 < n)%nat -> (forall o, In o objs -> shape n (params o) (opmat c o)) -> (forall k, (k < n)%nat -> nth k s 0 <> 0) ->
  (i < length objs)%nat -> (j < length objs)%nat -> (la < params (ob objs i))%nat -> (lb < params (ob objs j))%nat ->
  mget (@F_mapping ROps c objs n s eps) (off objs i + la) (off objs j + lb) =
  sumR (map (fun k => mget (opmat c (ob objs i)) k la * mget (opmat c (ob objs j)) k lb / (nth k s 0 * nth k s 0)) (seq 0 n))
  + (if Nat.eqb i j && Nat.eqb la lb && negb (has_reg (ob objs i)) then eps else 0).
Proof.
  intros Hn Hsh Hs Hi Hj Hla Hlb. unfold F_mapping.
  pose proof (shape_op_matrix c objs n Hsh) as HB. set (B := op_matrix c objs n) in *.
  assert (HncB : ncols B = tp objs) by (apply (ncols_shape B n); auto).
  assert (HlB : length B = n) by (now destruct HB).
  pose proof (off_bound objs i Hi). pose proof (off_bound objs j Hj).
  rewrite curv_mapping_spec; rewrite ?HlB, ?HncB; auto using noreg_NoDup, noreg_bound; try lia.
  f_equal.
  - apply sumR_map_ext. intros k Hk. apply in_seq in Hk. subst B. rewrite !op_matrix_cell by (auto; lia). reflexivity.
  - cbn [andb].
    destruct (Nat.eqb (off objs i + la) (off objs j + lb)) eqn:X.
    + apply Nat.eqb_eq in X.
      assert (j = i) by (apply (locate_range objs i j la (off objs i + la)); auto; lia). subst j.
      assert (la = lb) by lia. subst lb. rewrite !Nat.eqb_refl. cbn [andb].
      destruct (has_reg (ob objs i)) eqn:R; cbn [negb].
      * destruct (existsb (Nat.eqb (off objs i + la)) (@noreg_index_list ROps objs)) eqn:Ex; auto.
        apply existsb_exists in Ex. destruct Ex as [x [Hx Ex]]. apply Nat.eqb_eq in Ex. subst x.
        apply noreg_In in Hx. destruct Hx as (k & la' & Hk & Hla' & R' & Heq).
        assert (k = i) by (apply (locate_range objs i k la (off objs i + la)); auto; lia). subst k. congruence.
      * assert (existsb (Nat.eqb (off objs i + la)) (@noreg_index_list ROps objs) = true) as ->; auto.
        apply existsb_exists. exists (off objs i + la)%nat. split; [|apply Nat.eqb_refl].
        apply noreg_In. exists i, la. auto.
    + cbn [andb]. destruct (Nat.eqb i j) eqn:Y; cbn [andb]; auto. destruct (Nat.eqb la lb) eqn:Z; cbn [andb]; auto.
      apply Nat.eqb_eq in Y, Z. subst j lb. rewrite Nat.eqb_refl in X. discriminate.
Qed.
(* hence symmetric *)
Theorem F_mapping_symmetric (c : @convolver ROps) objs n (s : list R) eps a b :
  (0 < n)%nat -> (forall o, In o objs -> shape n (params o) (opmat c o)) -> (forall k, (k < n)%nat -> nth k s 0 <> 0) ->
  (a < tp objs)%nat -> (b < tp objs)%nat ->
  mget (@F_mapping ROps c objs n s eps) a b = mget (@F_mapping ROps c objs n s eps) b a.
Proof.
  intros Hn Hsh Hs Ha Hb. destruct (locate_exists objs a Ha) as (i & la & Hi & Hla & ->).
  destruct (locate_exists objs b Hb) as (j & lb & Hj & Hlb & ->).
  rewrite !F_mapping_blocks by auto. f_equal.
  - apply sumR_map_ext. intros k _. unfold Rdiv. ring.
  - rewrite (Nat.eqb_sym j i), (Nat.eqb_sym lb la).
    destruct (Nat.eqb i j) eqn:Y; cbn [andb]; auto. apply Nat.eqb_eq in Y. now subst.
Qed.
(* data vector of the mapping formalism, block by block *)
Theorem D_mapping_blocks (c : @convolver ROps) objs (d s : list R) n i la :
  length d = n -> (0 < n)%nat -> (forall o, In o objs -> shape n (params o) (opmat c o)) -> (i < length objs)%nat -> (la < params (ob objs i))%nat ->
  nth (off objs i + la) (@D_mapping ROps c objs d s) 0 =
  sumR (map (fun k => nth k d 0 * mget (opmat c (ob objs i)) k la / (nth k s 0 * nth k s 0)) (seq 0 n)).
Proof.
  intros Hd Hn Hsh Hi Hla. unfold D_mapping. rfix. rewrite Hd.
  pose proof (shape_op_matrix c objs n Hsh) as HB.
  assert (HncB : ncols (op_matrix c objs n) = tp objs) by (apply (ncols_shape _ n); auto).
  assert (HlB : length (op_matrix c objs n) = n) by (now destruct HB).
  pose proof (off_bound objs i Hi).
  rewrite dv_blurred_spec by (rewrite HncB; lia). rewrite HlB.
  apply sumR_map_ext. intros k Hk. apply in_seq in Hk. rewrite op_matrix_cell by (auto; lia). reflexivity.
Qed.
(* w-tilde data vector of one mapper = its block of the mapping data vector, given w_tilde_data = C^T N^-1 d *)
Theorem wt_data_vector_block (c : @convolver ROps) (d s wd : list R) e P n p :
  length wd = n -> wd_is_adjoint c d s wd n -> enc_ok e P -> (p < P)%nat ->
  nth p (@dv_wtd ROps wd e P) 0 = sumR (map (fun i => nth i d 0 * Bm e c n i p / (nth i s 0 * nth i s 0)) (seq 0 n)).
Proof.
  intros Hl Hwd He Hp. rewrite dv_wtd_spec by auto. rewrite Hl.
  transitivity (sumR (map (fun k => sumR (map (fun i => E e k p * Cop c i k * (nth i d 0 / (nth i s 0 * nth i s 0))) (seq 0 n))) (seq 0 n))).
  - apply sumR_map_ext. intros k Hk. apply in_seq in Hk. rewrite Hwd by lia. rewrite <- sumR_map_scal.
    apply sumR_map_ext. intros i _. ring.
  - rewrite (sumR_swap (fun k i => E e k p * Cop c i k * (nth i d 0 / (nth i s 0 * nth i s 0))) (seq 0 n) (seq 0 n)).
    apply sumR_map_ext. intros i _. unfold Bm, Rdiv. rewrite sumR_map_mul_l.
    transitivity (sumR (map (fun k => E e k p * Cop c i k) (seq 0 n)) * (nth i d 0 * / (nth i s 0 * nth i s 0))); [|ring].
    rewrite <- sumR_map_mul_l. reflexivity.
Qed.

Theorem F_wt_symmetric (c : @convolver ROps) noise K nfs objs (s : list R) eps a b :
  let n := length nfs in
  (0 < n)%nat -> frames_ok c n -> (forall i, (i < n)%nat -> nth i s 0 <> 0) ->
  W_is_overlap c s (@wt_dense ROps noise K nfs) n -> (forall o, In o objs -> wf_obj c n o) ->
  (a < tp objs)%nat -> (b < tp objs)%nat ->
  mget (F_wt_gen c noise K nfs objs s eps) a b = mget (F_wt_gen c noise K nfs objs s eps) b a.
Proof.
  intros n Hn Hfr Hs HW Hwf Ha Hb. unfold n. rewrite !F_wt_eq_F_mapping by assumption.
  apply F_mapping_symmetric; auto. intros o Ho. now destruct (Hwf o Ho) as (_ & H & _).
Qed.

(* ---- w-tilde data vector when every object is a mapper (branches _data_vector_x1_mapper / _data_vector_multi_mapper) ---- *)
Lemma all_mappers_no_func objs : forallb (@is_mapper ROps) objs = true -> existsb (@is_func ROps) objs = false.
Proof.
  induction objs as [|o t IH]; cbn; auto. intros H. apply andb_true_iff in H. destruct H as [H1 H2].
  unfold is_func at 1. rewrite H1. cbn. auto.
Qed.
Lemma D_wt_mappers_only (c : @convolver ROps) m K objs (d s : list R) : forallb (@is_mapper ROps) objs = true -> objs <> [] ->
  @D_wt ROps c m K objs d s =
  concat (map (fun o => @dv_wtd ROps (@wt_data ROps (@native ROps m d) (@native ROps m s) K (unmasked m)) (enc_of o) (params o)) objs).
Proof.
  intros Hall Hne. unfold D_wt. rewrite (all_mappers_no_func objs Hall).
  destruct (Nat.eqb (length (filter is_mapper objs)) 1) eqn:L; [|reflexivity].
  assert (filter is_mapper objs = objs) as E.
  { clear L Hne. induction objs as [|o t IH]; cbn in *; auto. apply andb_true_iff in Hall. destruct Hall as [H1 H2]. rewrite H1. now rewrite IH. }
  rewrite E in L. apply Nat.eqb_eq in L. destruct objs as [|o [|o' t]]; cbn in L; try lia; try congruence.
  cbn. now rewrite app_nil_r.
Qed.
Lemma concat_cell (wd : list R) : forall objs i la, (i < length objs)%nat -> (la < params (ob objs i))%nat ->
  nth (off objs i + la) (concat (map (fun o => @dv_wtd ROps wd (enc_of o) (params o)) objs)) 0 =
  nth la (@dv_wtd ROps wd (enc_of (ob objs i)) (params (ob objs i))) 0.
Proof.
  induction objs as [|o t IH]; intros i la Hi Hla; [cbn in Hi; lia|]. cbn [map concat]. destruct i as [|i].
  - unfold off, ob in *. cbn [firstn nth] in *. cbn. rewrite app_nth1 by (rewrite dv_wtd_length; lia). reflexivity.
  - rewrite off_cons. rewrite app_nth2 by (rewrite dv_wtd_length; lia). rewrite dv_wtd_length.
    replace (params o + off t i + la - params o)%nat with (off t i + la)%nat by lia.
    unfold ob in *. cbn [nth] in *. apply IH; auto. cbn in Hi. lia.
Qed.
(* InversionImagingWTilde.data_vector = InversionImagingMapping.data_vector for any ordered list of mappers,
   given w_tilde_data = C^T N^-1 d *)
Theorem D_wt_eq_D_mapping_mappers (c : @convolver ROps) m K objs (d s : list R) n a :
  forallb (@is_mapper ROps) objs = true -> length d = n -> (0 < n)%nat -> frames_ok c n ->
  length (unmasked m) = n ->
  wd_is_adjoint c d s (@wt_data ROps (@native ROps m d) (@native ROps m s) K (unmasked m)) n ->
  (forall o, In o objs -> wf_obj c n o) -> (a < tp objs)%nat ->
  nth a (@D_wt ROps c m K objs d s) 0 = nth a (@D_mapping ROps c objs d s) 0.
Proof.
  intros Hall Hd Hn Hfr Hu Hwd Hwf Ha.
  destruct (locate_exists objs a Ha) as (i & la & Hi & Hla & ->).
  assert (Hne : objs <> []) by (intros ->; cbn in Hi; lia).
  rewrite D_wt_mappers_only by assumption. rewrite concat_cell by assumption.
  assert (Hsh : forall o, In o objs -> shape n (params o) (opmat c o)) by (intros o Ho; now destruct (Hwf o Ho) as (_ & H & _)).
  rewrite (D_mapping_blocks c objs d s n) by auto.
  assert (Hin : In (ob objs i) objs) by (unfold ob; now apply nth_In).
  pose proof (Hwf _ Hin) as W.
  assert (Hm : is_mapper (ob objs i) = true) by (rewrite forallb_forall in Hall; now apply Hall).
  destruct (ob objs i) as [e M P r|] eqn:Eo; [|discriminate]. cbn [enc_of params] in *.
  destruct W as (_ & _ & He & _).
  rewrite (wt_data_vector_block c d s _ e P n la); auto.
  - apply sumR_map_ext. intros k Hk. apply in_seq in Hk.
    rewrite (mapper_block_is_Bm c n e M P r) by (auto; try lia; apply Hwf; rewrite <- Eo; exact Hin). reflexivity.
  - unfold wt_data. now rewrite map_length.
Qed.
