(* C17 -- class dispatch: a subclass instance is treated as an instance of the accepted class it derives from *)
From Coq Require Import ZArith List Bool QArith.
From PAV Require Import Base.Res Base.Check Base.NumOps Model.C17.
From PAV Require Import Model.C17x.
Import ListNotations.

Lemma cname_eqb_eq a b : cname_eqb a b = true <-> a = b.
Proof. destruct a, b; cbn; split; intro H; try reflexivity; try discriminate. Qed.

Lemma isinstance_In mro c : isinstance mro c = true <-> In c mro.
Proof.
  unfold isinstance. rewrite existsb_exists. split.
  - intros [x [Hin Hx]]. apply cname_eqb_eq in Hx. subst. exact Hin.
  - intro H. exists c. split; [exact H | apply cname_eqb_eq; reflexivity].
Qed.

Lemma isinstance_false mro c : isinstance mro c = false <-> ~ In c mro.
Proof.
  rewrite <- isinstance_In. destruct (isinstance mro c).
  - split; intro H; [discriminate | exfalso; apply H; reflexivity].
  - split; intro H; [intro K; discriminate | reflexivity].
Qed.

(* [mro] is the MRO of a class deriving from exactly one accepted class, [c] *)
Definition well_classed (mro : list cname) (c : cname) : Prop :=
  In c mro /\ forall c', In c' mro -> c' <> NOther -> c' = c.

Lemma well_classedb_iff mro c : well_classedb mro c = true <-> well_classed mro c.
Proof.
  unfold well_classedb, well_classed. rewrite andb_true_iff, isinstance_In, forallb_forall. split.
  - intros [H1 H2]. split; [exact H1|]. intros c' Hin Hn. specialize (H2 c' Hin).
    apply orb_true_iff in H2. destruct H2 as [H2 | H2].
    + unfold accepted in H2. rewrite negb_involutive in H2. apply cname_eqb_eq in H2. contradiction.
    + apply cname_eqb_eq in H2. exact H2.
  - intros [H1 H2]. split; [exact H1|]. intros c' Hin. apply orb_true_iff.
    destruct c'; try (right; apply cname_eqb_eq; apply H2; [exact Hin | discriminate]).
    left. reflexivity.
Qed.

Lemma dispatch_well_classed mro c : c <> NOther -> well_classed mro c -> dispatch mro = branch_of_class c.
Proof.
  intros Hc [Hin Huniq]. unfold dispatch.
  assert (N : forall c', c' <> NOther -> c' <> c -> isinstance mro c' = false).
  { intros c' H1 H2. apply isinstance_false. intro K. apply H2. apply Huniq; assumption. }
  apply isinstance_In in Hin.
  destruct c; try (exfalso; apply Hc; reflexivity); cbn [branch_of_class].
  - rewrite Hin. reflexivity.
  - rewrite (N NGrid2D) by discriminate. rewrite Hin. reflexivity.
  - rewrite (N NGrid2D) by discriminate. rewrite (N NGrid2DIrregular) by discriminate. rewrite Hin. reflexivity.
  - rewrite (N NGrid2D) by discriminate. rewrite (N NGrid2DIrregular) by discriminate. rewrite (N NGrid1D) by discriminate.
    reflexivity.
Qed.

Lemma dispatch_derive mro : dispatch (NOther :: mro) = dispatch mro.
Proof. reflexivity. Qed.

Lemma well_classed_derive mro c : c <> NOther -> (well_classed (NOther :: mro) c <-> well_classed mro c).
Proof.
  intro Hc. unfold well_classed. split; intros [H1 H2]; split.
  - destruct H1 as [H1 | H1]; [exfalso; apply Hc; symmetry; exact H1 | exact H1].
  - intros c' Hin. apply H2. right. exact Hin.
  - right. exact H1.
  - intros c' [Hin | Hin] Hn; [exfalso; apply Hn; symmetry; exact Hin | apply H2; assumption].
Qed.

Section Obj.
  Context {O : NumOps}.

  Lemma class_of_accepted (g : @grid O) : class_of g <> NOther.
  Proof. destruct g; discriminate. Qed.

  Lemma dispatch_subclass mro (g : @grid O) : well_classed mro (class_of g) -> dispatch mro = branch_of g.
  Proof. intro H. apply dispatch_well_classed; [apply class_of_accepted | exact H]. Qed.

  Lemma branch_eqb_refl b : branch_eqb b b = true.
  Proof. destruct b; reflexivity. Qed.

  Lemma maker_result_subclass d f mro (g : @grid O) :
    well_classed mro (class_of g) -> maker_result_obj d f mro g = maker_result d f g.
  Proof.
    intro H. unfold maker_result_obj, maker_result. rewrite (dispatch_subclass mro g H).
    assert (E : evaluate_func_obj f mro g = f (eval_arg g)).
    { unfold evaluate_func_obj. destruct (isinstance mro NGrid1D) eqn:I; [reflexivity|].
      destruct g; try reflexivity. exfalso. apply isinstance_false in I. apply I. exact (proj1 H). }
    rewrite E. destruct (f (eval_arg g)) as [r|e]; [|reflexivity]. cbn [bind].
    destruct g; reflexivity.
  Qed.

  Lemma project_grid_subclass o rc f mro (g : @grid O) :
    well_classed mro (class_of g) -> project_grid_obj o rc f mro g = project_grid o rc f g.
  Proof.
    intro H. unfold project_grid_obj. rewrite (dispatch_subclass mro g H).
    destruct g; reflexivity.
  Qed.
End Obj.

(* a look-up keyed by the class itself is NOT what the code does: an instance of a class derived from Grid2DIrregular *)
Lemma exact_type_dispatch_refuted :
  let mro := [NOther; NGrid2DIrregular; NOther] in
  well_classed mro NGrid2DIrregular /\ dispatch mro = BIrregular /\ dispatch_exact mro = BRaw.
Proof.
  cbn. split; [|split; reflexivity]. split; [right; left; reflexivity|].
  intros c' [H | [H | [H | []]]] Hn; subst; try reflexivity; exfalso; apply Hn; reflexivity.
Qed.

(* correspondence: an accepted wrapped case is an accepted case whose objects all dispatch as their data's class *)
Lemma agree_x_sound mros k : agree_x (KObj mros k) = true -> agree k = true.
Proof. cbn. intro H. apply andb_true_iff in H. exact (proj2 H). Qed.
Lemma spec_ok_x_sound mros k :
  spec_ok_x (KObj mros k) = true ->
  spec_ok k = true /\ Forall (fun ms => well_classed (fst ms) (spec_class (snd ms))) (combine mros (grids_of k)).
Proof.
  cbn. intro H. apply andb_true_iff in H. destruct H as [H1 H2]. apply andb_true_iff in H1. destruct H1 as [_ H1].
  split; [exact H2|]. apply Forall_forall. intros ms Hin. apply well_classedb_iff.
  rewrite forallb_forall in H1. apply H1. exact Hin.
Qed.
