(* C13 -- direct Fourier transform, preloaded variant, adjoint, interferometer normal equations.
   Statements only; every theorem is about the executable model of coq/Model/C13.v instantiated at the real
   numbers (ROps: cos2pi t = cos (2 PI t), sin2pi t = sin (2 PI t)), for all inputs. *)
From Coq Require Import ZArith QArith Reals Lra List Bool.
From PAV Require Import Base.Res Base.Check Base.NumOps Base.Sum Model.C13Lib Model.C13 Proofs.C13.
Import ListNotations.
Local Open Scope R_scope.

(* 1. visibilities_jit returns V_k = sum_p I_p exp(-2 pi i (x_p u_k + y_p v_k)) *)
Theorem C13_visibilities_formula : forall (img : list R) (grid uv : list (R * R)), length img = length grid ->
  @visibilities_jit ROps img grid uv = @dft_spec ROps img grid uv.
Proof. exact T_visibilities_formula. Qed.
(* ... where dft_spec at R is literally the formula of the property text *)
Theorem C13_dft_spec_is_the_formula : forall (img : list R) (grid uv : list (R * R)),
  @dft_spec ROps img grid uv
  = map (fun uvk : R * R =>
           (sumR (map (fun ig : R * (R * R) => fst ig * cos (2 * PI * (snd (snd ig) * fst uvk + fst (snd ig) * snd uvk))) (combine img grid)),
            - sumR (map (fun ig : R * (R * R) => fst ig * sin (2 * PI * (snd (snd ig) * fst uvk + fst (snd ig) * snd uvk))) (combine img grid)))) uv.
Proof. exact dft_spec_unfold. Qed.
(* ... and is the complex matrix A[k][p] = exp(-2 pi i phi_pk) applied to the (real) image *)
Theorem C13_dft_is_operator : forall (img : list R) (grid uv : list (R * R)),
  @dft_spec ROps img grid uv = @cmatvec ROps (@dft_matrix ROps grid uv) (map (@ofre ROps) img).
Proof. exact dft_spec_operator. Qed.

(* 2. identically with and without preloaded tables; the tables are cos(phi) and -sin(phi) *)
Theorem C13_preload_equivalent : forall (img : list R) (grid uv : list (R * R)), length img = length grid ->
  @visibilities_via_preload ROps (length uv) img (@preload_real ROps grid uv) (@preload_imag ROps grid uv)
  = @visibilities_jit ROps img grid uv.
Proof. exact T_preload_equivalent. Qed.
Theorem C13_preload_tables : forall (grid uv : list (R * R)),
  @preload_real ROps grid uv = @table_spec ROps (fun s => cos2pi ROps s) grid uv /\
  @preload_imag ROps grid uv = @table_spec ROps (fun s => opp ROps (sin2pi ROps s)) grid uv.
Proof. exact preload_tables_spec. Qed.
(* the via-preload loop on ANY rectangular tables: V_k = sum_i img_i (R[i][k] + i I[i][k]) *)
Theorem C13_via_preload_any_tables : forall K (img : list R) (preR preI : list (list R)),
  length img = length preR -> rectn K preR = true -> rectn K preI = true -> length preI = length preR ->
  @visibilities_via_preload ROps K img preR preI = @tab_spec ROps K img preR preI.
Proof. exact T_via_preload_any_tables. Qed.

(* 3. the transformed mapping matrix is the operator applied to each column of ANY real matrix (either routine;
      the sparsity test changes nothing) *)
Theorem C13_mapping_matrix_is_operator_on_columns : forall P (M : list (list R)) (grid uv : list (R * R)),
  length M = length grid -> rectn P M = true ->
  @tmm_jit ROps P M grid uv = @tmm_spec ROps P M grid uv /\
  @tmm_via_preload ROps (length uv) P M (@preload_real ROps grid uv) (@preload_imag ROps grid uv) = @tmm_spec ROps P M grid uv /\
  forall j, (j < P)%nat ->
    map (fun row => nth j row (@czero ROps)) (@tmm_spec ROps P M grid uv) = @dft_spec ROps (@column ROps M j) grid uv.
Proof. exact T_mapping_matrix_is_operator_on_columns. Qed.
Theorem C13_mapping_matrix_via_any_tables : forall K P (M preR preI : list (list R)) j,
  length M = length preR -> rectn P M = true -> rectn K preR = true -> rectn K preI = true -> (j < P)%nat ->
  map (fun row => nth j row (@czero ROps)) (@tmm_via_preload ROps K P M preR preI)
  = @tab_spec ROps K (@column ROps M j) preR preI.
Proof. exact T_mapping_matrix_via_any_tables. Qed.

(* 4. the image from visibilities is Re (A^H V); adjoint identity Re <V, A I> = <Re (A^H V), I> *)
Theorem C13_image_is_real_part_of_adjoint : forall (grid uv vis : list (R * R)), length vis = length uv ->
  @image_via ROps (length grid) grid uv vis = Ok (@adjoint_re_spec ROps grid uv vis).
Proof. exact T_image_is_real_part_of_adjoint. Qed.
Theorem C13_image_prefix : forall n (grid uv vis : list (R * R)), length vis = length uv -> (n <= length grid)%nat ->
  @image_via ROps n grid uv vis = Ok (@adjoint_re_spec ROps (firstn n grid) uv vis).
Proof. exact T_image_prefix. Qed.
Theorem C13_image_too_many_pixels_raises : forall n (grid uv vis : list (R * R)), (length grid < n)%nat -> uv <> [] ->
  @image_via ROps n grid uv vis = Raise IndexError.
Proof. exact image_via_raises. Qed.
Theorem C13_adjoint_identity : forall (img : list R) (grid uv vis : list (R * R)), length img = length grid -> length vis = length uv ->
  sumR (map (fun wv : (R * R) * (R * R) => fst (fst wv) * fst (snd wv) + snd (fst wv) * snd (snd wv))
            (combine (@dft_spec ROps img grid uv) vis))
  = sumR (map (fun xi : R * R => fst xi * snd xi) (combine (@adjoint_re_spec ROps grid uv vis) img)).
Proof. exact T_adjoint_identity. Qed.

(* 5. data vector and curvature matrix: noise-weighted real-plus-imaginary Gram products (+ the diagonal term of the
      linear objects without regularization) *)
Theorem C13_data_vector_is_gram : forall (P : nat) (TM : list (list (R * R))) (vis noise : list (R * R)),
  rectn P TM = true -> length vis = length TM -> length noise = length TM -> @noise_pos ROps noise = true ->
  @data_vector ROps P TM vis noise = @D_spec ROps P TM vis noise.
Proof. exact T_data_vector. Qed.
Theorem C13_curvature_is_gram_plus_diag : forall P (TM : list (list (R * R))) (noise : list (R * R)) (noreg : list nat) (value : R),
  rectn P TM = true -> length noise = length TM -> @noise_pos ROps noise = true -> Forall (fun i => (i < P)%nat) noreg ->
  @curvature_matrix ROps P TM noise noreg value = @F_spec ROps P TM noise noreg value.
Proof. exact T_curvature_matrix. Qed.
Theorem C13_reconstructed_visibilities : forall (TM : list (list (R * R))) (s : list R), rectn (length s) TM = true ->
  @recon_visibilities ROps TM s = @recon_spec ROps TM s.
Proof. exact T_reconstructed_visibilities. Qed.

(* 6. TransformerDFT: the grid is the unmasked pixel centres in radians; the three public methods; the inversion *)
Theorem C13_grid_is_unmasked_centres : forall (pi_ : R) (G : @geom ROps),
  rectn (Wn (g_mask G)) (g_mask G) = true -> @scales_ok ROps (g_sy G) (g_sx G) = true ->
  @grid_radians ROps pi_ G = @centres_spec ROps pi_ G.
Proof. exact grid_is_centres. Qed.
Theorem C13_transformer_visibilities : forall (pi_ : R) (G : @geom ROps),
  rectn (Wn (g_mask G)) (g_mask G) = true -> @scales_ok ROps (g_sy G) (g_sx G) = true ->
  forall uv preload (img : list R),
  @tr_visibilities ROps pi_ G uv preload img = @dft_spec ROps img (@centres_spec ROps pi_ G) uv.
Proof. exact tr_visibilities_spec. Qed.
Theorem C13_transformer_image : forall (pi_ : R) (G : @geom ROps),
  rectn (Wn (g_mask G)) (g_mask G) = true -> @scales_ok ROps (g_sy G) (g_sx G) = true ->
  forall uv (vis : list (R * R)),
  @tr_image ROps pi_ G uv vis = Ok (@adjoint_re_spec ROps (@centres_spec ROps pi_ G) uv vis).
Proof. exact tr_image_spec. Qed.
Theorem C13_transformer_mapping_matrix : forall (pi_ : R) (G : @geom ROps),
  rectn (Wn (g_mask G)) (g_mask G) = true -> @scales_ok ROps (g_sy G) (g_sx G) = true ->
  forall uv preload P (M : list (list R)),
  @tr_mapping_matrix ROps pi_ G uv preload P M = @tmm_spec ROps P M (@centres_spec ROps pi_ G) uv.
Proof. exact tr_mapping_matrix_spec. Qed.
Theorem C13_inversion_D_and_F_are_gram_products :
  forall pi_ (G : @geom ROps) uv preload (objs : list (nat * list (list R) * bool)) (data noise : list (R * R)) value,
  rectn (Wn (g_mask G)) (g_mask G) = true -> @scales_ok ROps (g_sy G) (g_sx G) = true ->
  @noise_pos ROps noise = true -> length data = length uv -> length noise = length uv ->
  @inv_operated ROps pi_ G uv preload objs = inv_matrix_spec pi_ G uv objs /\
  @inv_data_vector ROps pi_ G uv preload objs data noise = @D_spec ROps (@inv_P ROps objs) (inv_matrix_spec pi_ G uv objs) data noise /\
  @inv_curvature ROps pi_ G uv preload objs noise value
    = @F_spec ROps (@inv_P ROps objs) (inv_matrix_spec pi_ G uv objs) noise (@inv_noreg ROps objs) value.
Proof. exact T_inversion. Qed.

(* 6b. sibling entry points of the same operator.  mapped_reconstructed_data_dict: for every linear object, the operator
   applied to the columns of ITS mapping matrix, times ITS slice of the reconstruction (any reconstruction vector: the
   solver is not part of this property).  SimulatorInterferometer with the noise switched off: the simulated data are
   the transform of the image over the unmasked pixel centres of the image's own mask. *)
Theorem C13_reconstructed_visibilities_per_object :
  forall pi_ (G : @geom ROps) uv preload (objs : list (nat * list (list R) * bool)) (s : list R),
  rectn (Wn (g_mask G)) (g_mask G) = true -> @scales_ok ROps (g_sy G) (g_sx G) = true ->
  @inv_recon_dict ROps pi_ G uv preload objs s = @recon_dict_spec ROps (@centres_spec ROps pi_ G) uv objs s.
Proof. exact T_recon_dict. Qed.
Theorem C13_simulated_data_is_transform : forall pi_ (G : @geom ROps) uv (img : list R),
  rectn (Wn (g_mask G)) (g_mask G) = true -> @scales_ok ROps (g_sy G) (g_sx G) = true ->
  @sim_data ROps pi_ G uv img = @dft_spec ROps img (@centres_spec ROps pi_ G) uv.
Proof. exact T_sim. Qed.

(* 7. histories: any number of TransformerDFT objects alive in one process (constructed in any order, with or without
   preloaded tables, over masks / baselines that differ in as little as one pixel), their three methods called in any order
   any number of times: what every step returns is the pure function of (the geometry and baselines the addressed object
   was constructed from, the contents of the argument of this call) -- nothing is carried over from another object or an
   earlier call *)
Theorem C13_history_is_pure : forall (pi_ : R) (steps : list (@hstep ROps)), @hist_geoms_ok ROps steps = true ->
  @run_hist ROps pi_ [] steps = @pure_hist ROps pi_ [] steps.
Proof. exact T_history. Qed.

(* ---------------------------------------------------------------- non-vacuity of the hypothesis sets *)
(* a 2 x 3 mask with a masked corner and an outer-ring pixel, unequal pixel scales, shifted origin *)
Definition exG : @geom ROps :=
  @Build_geom ROps [[true; false; false]; [false; false; true]] 2 (1 / 2) (1 / 4) (-1).
Example ex_geometry : rectn (Wn (g_mask exG)) (g_mask exG) = true /\ @scales_ok ROps (g_sy exG) (g_sx exG) = true.
Proof.
  split; [reflexivity|]. unfold scales_ok. cbn.
  apply andb_true_intro. split; apply negb_true_iff, Reqb_false; lra.
Qed.
(* complex positive noise map; signed image, mapping matrix with negative and zero entries; zero and repeated baselines *)
Example ex_noise : @noise_pos ROps [(1, 2); (1 / 2, 4); (2, 1)] = true.
Proof. unfold noise_pos. cbn. repeat (apply andb_true_intro; split); try reflexivity; apply Rltb_true; lra. Qed.
Example ex_shapes :
  let img := [1; -2; 0; 3] in let grid := [(1, 0); (1, 1 / 2); (-1, -1 / 2); (-1, 0)] in let uv := [(1, 2); (0, 0); (1, 2)] in
  let M := [[1; -1]; [0; 2]; [-3; 0]; [0; 0]] in
  length img = length grid /\ length M = length grid /\ rectn 2 M = true /\ length [(1, 2); (1 / 2, 4); (2, 1)] = length uv
  /\ Forall (fun i => (i < 2)%nat) [0%nat; 1%nat].
Proof. cbn. repeat split; repeat constructor. Qed.
(* the executable model on a signed matrix (quarter-turn phases: exact): the negative entry IS transformed (defect D13 repaired) *)
Example ex_signed_matrix :
  @tmm_jit QOpsT 2 [[(-1)%Q; 1%Q]; [0%Q; 2%Q]] [(1 # 2, 0)%Q; (0, 1 # 2)%Q] [(0, 0)%Q; (1 # 2, 1)%Q]
  = [[((-1)%Q, 0%Q); (3%Q, 0%Q)]; [(1%Q, 0%Q); ((-1)%Q, (-2)%Q)]].
Proof. vm_compute. reflexivity. Qed.

(* two transformers over masks with the same pixel count (the second is the first shifted by one pixel), preload on / off,
   calls interleaved, the same image given to both *)
Definition exG' : @geom ROps :=
  @Build_geom ROps [[false; false; true]; [true; false; false]] 2 (1 / 2) (1 / 4) (-1).
Example ex_history :
  @hist_geoms_ok ROps [@HNew ROps exG [(1, 2); (0, 0)] true; @HNew ROps exG' [(1, 2); (0, 0)] false;
                       @HVis ROps 0%nat [1; -2; 0; 3]; @HVis ROps 1%nat [1; -2; 0; 3];
                       @HTmm ROps 0%nat 1%nat [[1]; [0]; [-1]; [2]]; @HImage ROps 1%nat [(1, -1); (2, 0)];
                       @HVis ROps 0%nat [3; 1; -2; 0]] = true.
Proof.
  unfold hist_geoms_ok. cbn [forallb]. rewrite !andb_true_r. unfold geom_ok, scales_ok. cbn.
  repeat (apply andb_true_intro; split); try reflexivity; apply negb_true_iff, Reqb_false; lra.
Qed.
(* on the executable model two siblings (one pixel, shifted by one) DO give different visibilities for the same image
   (pi_ := 648000 makes radians = arc-seconds; quarter-turn phases: exact) *)
Example ex_siblings_differ :
  let G1 := @Build_geom QOpsT [[false; true]] 1%Q 1%Q 0%Q 0%Q in let G2 := @Build_geom QOpsT [[true; false]] 1%Q 1%Q 0%Q 0%Q in
  map (fun o : @hout QOpsT => match o with ONew g => g | OVis v => v | _ => [] end)
    (@run_hist QOpsT (648000 # 1)%Q [] [@HNew QOpsT G1 [(1 # 2, 0)%Q] true; @HNew QOpsT G2 [(1 # 2, 0)%Q] true;
                                        @HVis QOpsT 0%nat [1%Q]; @HVis QOpsT 1%nat [1%Q]])
  = [[(0, -1 # 2)%Q]; [(0, 1 # 2)%Q]; [(0, 1)%Q]; [(0, -1)%Q]].
Proof. vm_compute. reflexivity. Qed.

(* an image whose values cancel exactly (a +1 / -1 dipole: sum = 0, l1 norm = 2) does NOT transform to zero: on the
   executable model, two pixels one unit apart in x, baseline u = 1/2 (half a turn between the pixels) *)
Example ex_dipole_is_not_empty :
  @visibilities_jit QOpsT [1%Q; (-1)%Q] [(0, 0)%Q; (0, 1)%Q] [(0, 0)%Q; (1 # 2, 0)%Q] = [(0, 0)%Q; (2, 0)%Q]
  /\ @dft_spec QOpsT [1%Q; (-1)%Q] [(0, 0)%Q; (0, 1)%Q] [(0, 0)%Q; (1 # 2, 0)%Q] = [(0, 0)%Q; (2, 0)%Q].
Proof. split; vm_compute; reflexivity. Qed.
(* two linear objects with 1 and 2 parameters: the reconstruction [5; 6; 7] is cut into [5] and [6; 7] *)
Example ex_split_params : @split_params ROps [1%nat; 2%nat] [5; 6; 7] = [[5]; [6; 7]].
Proof. reflexivity. Qed.

Print Assumptions C13_visibilities_formula.
Print Assumptions C13_dft_spec_is_the_formula.
Print Assumptions C13_dft_is_operator.
Print Assumptions C13_preload_equivalent.
Print Assumptions C13_preload_tables.
Print Assumptions C13_via_preload_any_tables.
Print Assumptions C13_mapping_matrix_is_operator_on_columns.
Print Assumptions C13_mapping_matrix_via_any_tables.
Print Assumptions C13_image_is_real_part_of_adjoint.
Print Assumptions C13_image_prefix.
Print Assumptions C13_image_too_many_pixels_raises.
Print Assumptions C13_adjoint_identity.
Print Assumptions C13_data_vector_is_gram.
Print Assumptions C13_curvature_is_gram_plus_diag.
Print Assumptions C13_reconstructed_visibilities.
Print Assumptions C13_grid_is_unmasked_centres.
Print Assumptions C13_transformer_visibilities.
Print Assumptions C13_transformer_image.
Print Assumptions C13_transformer_mapping_matrix.
Print Assumptions C13_inversion_D_and_F_are_gram_products.
Print Assumptions C13_history_is_pure.
Print Assumptions C13_reconstructed_visibilities_per_object.
Print Assumptions C13_simulated_data_is_transform.
