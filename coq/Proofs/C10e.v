(* C10 -- lemmas, part 5 (hardening pass): facts that justify two devices of the correspondence harness.
     - geometry scaling: the harness also builds masks whose pixel scales and origin are g * 2^e (tiny and huge
       magnitudes) and divides the observed coordinates by 2^e before printing them; the coordinate views of the model
       are homogeneous of degree one in the geometry, so comparing the descaled observation with the model at g is
       comparing the observation with the model at the scaled geometry (integer factors; for 2^-e the same identity
       holds over the dyadic rationals, where binary floating point is exact -- that part is trusted);
     - repeated calls: every single-operation case of the new streams is evaluated twice on the same objects; in the
       model a repeated read is the same judgement on the same state. *)
From Coq Require Import ZArith List Bool Lia.
From PAV Require Import Base.Res Base.Check Model.C10 Proofs.C10 Proofs.C10b Proofs.C10c Proofs.C10d.
Import ListNotations.
Local Open Scope Z_scope.

Definition scale_geom (c : Z) (g : geom) : geom := let '(sy, sx, oy, ox) := g in (c * sy, c * sx, c * oy, c * ox).
Definition scale_pt (c : Z) (p : Z * Z) : Z * Z := (c * fst p, c * snd p).

Lemma coord2_scale H W c g p : coord2 H W (scale_geom c g) p = scale_pt c (coord2 H W g p).
Proof. destruct g as [[[sy sx] oy] ox]. unfold coord2, scale_geom, scale_pt. cbn [fst snd]. f_equal; ring. Qed.

Lemma grid_slim_scale m c g :
  grid_2d_slim_via_mask_from m (scale_geom c g) = map (scale_pt c) (grid_2d_slim_via_mask_from m g).
Proof. unfold grid_2d_slim_via_mask_from. rewrite map_map. apply map_ext. intros p. apply coord2_scale. Qed.

Lemma take_map {A B} (f : A -> B) l d idx : take (map f l) (f d) idx = map f (take l d idx).
Proof. unfold take. rewrite map_map. apply map_ext. intros k. apply map_nth. Qed.

Lemma scale_pt_00 c : scale_pt c (0, 0) = (0, 0).
Proof. unfold scale_pt. cbn [fst snd]. f_equal; lia. Qed.

Lemma grid_edge_scale m c g : grid_edge m (scale_geom c g) = map (scale_pt c) (grid_edge m g).
Proof.
  unfold grid_edge. rewrite grid_slim_scale.
  transitivity (take (map (scale_pt c) (grid_2d_slim_via_mask_from m g)) (scale_pt c (0, 0)) (edge_slim m)).
  - now rewrite scale_pt_00.
  - apply take_map.
Qed.
Lemma grid_border_scale m c g : grid_border m (scale_geom c g) = map (scale_pt c) (grid_border m g).
Proof.
  unfold grid_border. rewrite grid_slim_scale.
  transitivity (take (map (scale_pt c) (grid_2d_slim_via_mask_from m g)) (scale_pt c (0, 0)) (border_slim m)).
  - now rewrite scale_pt_00.
  - apply take_map.
Qed.
Lemma blurring_grid_scale m kh kw c g :
  blurring_grid_from m kh kw (scale_geom c g)
  = match blurring_grid_from m kh kw g with Ok l => Ok (map (scale_pt c) l) | Raise e => Raise e end.
Proof. unfold blurring_grid_from. destruct (blurring_from m kh kw); [now rewrite grid_slim_scale|reflexivity]. Qed.
Lemma grid_of_scale m c g l : grid_of m (scale_geom c g) l = map (scale_pt c) (grid_of m g l).
Proof. unfold grid_of. rewrite map_map. apply map_ext. intros p. apply coord2_scale. Qed.

Lemma scale_pt_inj c p q : c <> 0 -> scale_pt c p = scale_pt c q -> p = q.
Proof.
  intros Hc E. destruct p as [a b], q as [a' b']. unfold scale_pt in E. cbn [fst snd] in E. inversion E as [[E1 E2]].
  f_equal; eapply Z.mul_reg_l; eauto.
Qed.

(* the same read twice on an unchanged object is one judgement *)
Lemma hist_repeat_read P D st o k t :
  hist_ok P D st (HRead o k :: HRead o k :: t) = hist_ok P D st (HRead o k :: t).
Proof.
  cbn [hist_ok]. rewrite read_keeps_state. destruct (step_ok P D st (HRead o k)); reflexivity.
Qed.

Lemma grid_views_scale m c g :
  grid_edge m (scale_geom c g) = map (scale_pt c) (grid_edge m g)
  /\ grid_border m (scale_geom c g) = map (scale_pt c) (grid_border m g)
  /\ (forall kh kw, blurring_grid_from m kh kw (scale_geom c g)
                    = match blurring_grid_from m kh kw g with Ok l => Ok (map (scale_pt c) l) | Raise e => Raise e end)
  /\ (forall l, grid_of m (scale_geom c g) l = map (scale_pt c) (grid_of m g l)).
Proof.
  split; [apply grid_edge_scale|]. split; [apply grid_border_scale|]. split; [intros; apply blurring_grid_scale|intros; apply grid_of_scale].
Qed.
