(* C11c -- the correspondence cases of C11: the cases of PARTS A-C (Model/C11.v), the graph cases of PART D (Model/C11g.v), the
   shared-argument cases of PART E (Model/C11s.v) and the re-masking chains of PART F (Model/C11r.v) *)
From Coq Require Import ZArith List Bool Lia.
From PAV Require Import Base.Res Base.Check.
From PAV Require Export Model.C11 Model.C11g Model.C11s Model.C11r.
Import ListNotations.

(* ---- PART D: a run on a real object graph.  [inst]: which graph of the library (Model/C11g.v [ginstance]); [table]: per node, the
   value of the quantity measured on a never-read twin (a digest); [reads]: the nodes read, in order; [out]: per read, what it
   returned, which cached_property entries exist afterwards in the instance __dict__s of the graph's objects, and which entries
   (or caller inputs) that existed before the read hold other bytes after it *)
Fixpoint insert_nat (x : nat) (l : list nat) : list nat :=
  match l with
  | [] => [x]
  | y :: t => if Nat.leb x y then x :: l else y :: insert_nat x t
  end.
Definition sort_nat (l : list nat) : list nat := fold_right insert_nat [] l.
Definition filled (g : graph) (st : gstate) : list nat :=
  sort_nat (filter (fun n => negb (node_is_input g n)) (map fst (gs_cache st))).
(* the nodes whose cache entry (or input cell) is in the write list, in the state before the read *)
Definition gwritten (st : gstate) (w : list cell) : list nat :=
  map fst (filter (fun nc => cell_mem (snd nc) w) (gs_cache st)).
Fixpoint gtrace (g : graph) (vf : vfn) (st : gstate) (reads : list nat) : list (arr * list nat * list nat) :=
  match reads with
  | [] => []
  | n :: t => let '(st1, v, w) := gread g vf st n in (v, filled g st1, gwritten st w) :: gtrace g vf st1 t
  end.
Definition tbl_vf (table : list arr) : vfn := fun n _ => nth n table [].
Definition nat_mem (n : nat) (l : list nat) : bool := existsb (Nat.eqb n) l.

Inductive case :=
| KA (k : C11.case)
| KGraph (inst : nat) (table : list arr) (reads : list nat) (out : list (arr * list nat * list nat))
  (* PART E: a history of OverSamplingDataset arguments shared between dataset constructors and apply_over_sampling calls, run on
     the real datasets: per step the record observed and the names whose record changed *)
| KShare (ops : list sop) (out : list (obs * list (nat * arr)))
  (* PART F: a chain of apply_mask calls (and looks at datasets) on a real Imaging dataset built from the data array [data0] and the
     noise covariance matrix [cov0]: per step the data (slim) and the covariance matrix of the dataset derived / looked at *)
| KRemask (data0 : arr) (cov0 : option (list arr)) (ops : list rop) (out : list robs).

Definition agree (k : case) : bool :=
  match k with
  | KA k0 => C11.agree k0
  | KGraph inst table reads out =>
      let g := ginstance inst in
      all2 (fun m i => arr_eqb (fst (fst m)) (fst (fst i))
                           && list_eqb Nat.eqb (snd (fst m)) (snd (fst i))
                           && forallb (fun ch => nat_mem ch (snd m)) (snd i))
           (gtrace g (tbl_vf table) (ginit g (tbl_vf table)) reads) out
  | KShare ops out => share_agree ops out
  | KRemask data0 cov0 ops out => remask_agree data0 cov0 ops out
  end.
(* the pure values: every read reports the value of its node (for a node that returns the array of another one: that node's
   value), and nothing that existed before a read changes.  Does not call the machine. *)
Definition spec_ok (k : case) : bool :=
  match k with
  | KA k0 => C11.spec_ok k0
  | KGraph inst table reads out =>
      let g := ginstance inst in
      negb (is_nil g) &&
      all2 (fun n i => arr_eqb (gspec g (tbl_vf table) n) (fst (fst i)) && is_nil (snd i)) reads out
  | KShare ops out => share_spec_ok ops out
  | KRemask data0 cov0 ops out => remask_spec_ok data0 cov0 ops out
  end.
Definition check (k : case) : nat := verdict (agree k) (spec_ok k).
