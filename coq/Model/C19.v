(* C19 -- specification side.  The MODEL of the code is coq/Gen/Gen_layout.v, regenerated from
   /repo by py2v on every run.  This file holds the independent, set-theoretic specification the
   theorems compare it with, the case type of the correspondence run and [spec_ok], the verdict of
   the specification on an IMPLEMENTATION result (it does not depend on the generated model, so it
   still builds when the generated file or a proof about it breaks).  No proofs here. *)
From Coq Require Import ZArith List Bool Lia.
From PAV Require Import Base.Res Base.Check.
Import ListNotations.
Local Open Scope Z_scope.

Definition reg2 := (Z * Z * Z * Z)%type.
Definition reg1 := (Z * Z)%type.

(* ---- specification ---- *)
Definition valid1b (r : reg1) : bool := let '(a, b) := r in (0 <=? a) && (a <? b).
Definition valid2b (r : reg2) : bool :=
  let '(y0, y1, x0, x1) := r in (0 <=? y0) && (y0 <? y1) && (0 <=? x0) && (x0 <? x1).
Definition inside2b (s : Z * Z) (r : reg2) : bool :=
  let '(y0, y1, x0, x1) := r in valid2b r && (y1 <=? fst s) && (x1 <=? snd s).

(* python slicing l[a:b] for 0 <= a <= b *)
Definition slice1 {A} (l : list A) (a b : Z) : list A :=
  firstn (Z.to_nat (b - a)) (skipn (Z.to_nat a) l).
Definition slice2 {A} (m : list (list A)) (r : reg2) : list (list A) :=
  let '(y0, y1, x0, x1) := r in map (fun row => slice1 row x0 x1) (slice1 m y0 y1).
Definition rectb {A} (H W : Z) (m : list (list A)) : bool :=
  (Z.of_nat (length m) =? H) && forallb (fun row => Z.of_nat (length row) =? W) m.

Definition cornerb (c : Z * Z) : bool :=
  let '(a, b) := c in ((a =? 0) || (a =? 1)) && ((b =? 0) || (b =? 1)).

(* rotation, written independently: flip rows iff corner row = 0, flip columns iff corner col = 1 *)
Definition rot_array_spec {A} (m : list (list A)) (c : Z * Z) : list (list A) :=
  let m1 := if fst c =? 0 then rev m else m in
  if snd c =? 1 then map (@rev A) m1 else m1.
Definition rot_region_spec (r : reg2) (s : Z * Z) (c : Z * Z) : reg2 :=
  let '(y0, y1, x0, x1) := r in
  let '(y0', y1') := if fst c =? 0 then (fst s - y1, fst s - y0) else (y0, y1) in
  let '(x0', x1') := if snd c =? 1 then (snd s - x1, snd s - x0) else (x0, x1) in
  (y0', y1', x0', x1').

(* overlap of [x0o,x1o) with the window [x0e,x1e), in window coordinates *)
Definition overlap1 (x0o x1o x0e x1e : Z) : option (Z * Z) :=
  let lo := Z.max x0o x0e in let hi := Z.min x1o x1e in
  if lo <? hi then Some (lo - x0e, hi - x0e) else None.
Definition overlap2 (o e : reg2) : option reg2 :=
  let '(oy0, oy1, ox0, ox1) := o in let '(ey0, ey1, ex0, ex1) := e in
  match overlap1 oy0 oy1 ey0 ey1, overlap1 ox0 ox1 ex0 ex1 with
  | Some (a, b), Some (c, d) => Some (a, b, c, d)
  | _, _ => None
  end.

(* ---- boolean equalities ---- *)
Definition reg1_eqb (a b : reg1) := (fst a =? fst b) && (snd a =? snd b).
Definition reg2_eqb (a b : reg2) : bool :=
  let '(a0, a1, a2, a3) := a in let '(b0, b1, b2, b3) := b in
  (a0 =? b0) && (a1 =? b1) && (a2 =? b2) && (a3 =? b3).
Definition arr_eqb := list_eqb (list_eqb Z.eqb).

(* ---- correspondence cases: operation + arguments + what the IMPLEMENTATION returned ---- *)
Inductive case :=
| KInit1 (r : reg1) (out : res reg1)
| KInit2 (r : reg2) (out : res reg2)
| KFront1 (self : reg1) (p : option reg1) (e : option Z) (out : res reg1)
| KTrail1 (self : reg1) (p : reg1) (out : res reg1)
| KParFront (self : reg2) (p : option reg1) (e : option Z) (out : res reg2)
| KParTrail (self : reg2) (p : reg1) (out : res reg2)
| KParFull (self : reg2) (s : reg1) (out : res reg2)
| KSerFront (self : reg2) (p : option reg1) (e : option Z) (out : res reg2)
| KSerTrail (self : reg2) (p : reg1) (out : res reg2)
| KSerRoe (self : reg2) (s : reg1) (p : reg1) (out : res reg2)
| KX0X1 (x0o x1o x0e x1e : Z) (out : option Z * option Z)
| KExtract (o : option reg2) (e : reg2) (out : res (option reg2))
| KRotRegion (r : option reg2) (s c : reg1) (out : res (option reg2))
| KRotArray (m : list (list Z)) (c : reg1) (out : option (list (list Z)))
  (* implementation: slice (rotated array) by (rotated region) *)
| KCommute (m : list (list Z)) (r : reg2) (c : reg1) (out : list (list Z))
  (* implementation: rotate twice *)
| KTwice (m : list (list Z)) (r : reg2) (c : reg1) (out : list (list Z) * reg2).

Definition r1e := res_eqb reg1_eqb.
Definition r2e := res_eqb reg2_eqb.
Definition or2e := res_eqb (option_eqb reg2_eqb).

(* spec verdict on an implementation result of a region-producing call: what the property demands *)
Definition expect2 (want : reg2) (out : res reg2) : bool :=
  if valid2b want then r2e out (Ok want) else r2e out (Raise RegionException).
Definition expect1 (want : reg1) (out : res reg1) : bool :=
  if valid1b want then r1e out (Ok want) else r1e out (Raise RegionException).

Definition shape_of (m : list (list Z)) : Z * Z :=
  (Z.of_nat (length m), Z.of_nat (length (hd [] m))).


(* verdict of the SPECIFICATION on what the implementation returned *)
Definition spec_ok (k : case) : bool :=
  match k with
  | KInit1 r out => expect1 r out
  | KInit2 r out => expect2 r out
  | KFront1 s p e out =>
        match e, p with
         | Some n, _ => expect1 (snd s - n, snd s) out
         | None, Some (a, b) => expect1 (fst s + a, fst s + b) out
         | None, None => r1e out (Raise TypeError)
         end
  | KTrail1 s (a, b) out => expect1 (snd s + a, snd s + b) out
  | KParFront s p e out =>
      let '(y0, y1, x0, x1) := s in
        match e, p with
         | Some n, _ => expect2 (y1 - n, y1, x0, x1) out
         | None, Some (a, b) => expect2 (y0 + a, y0 + b, x0, x1) out
         | None, None => r2e out (Raise TypeError)
         end
  | KParTrail s (a, b) out => let '(y0, y1, x0, x1) := s in expect2 (y1 + a, y1 + b, x0, x1) out
  | KParFull s sh out => let '(y0, y1, x0, x1) := s in expect2 (y0, y1, 0, snd sh) out
  | KSerFront s p e out =>
      let '(y0, y1, x0, x1) := s in
        match e, p with
         | Some n, _ => expect2 (y0, y1, x1 - n, x1) out
         | None, Some (a, b) => expect2 (y0, y1, x0 + a, x0 + b) out
         | None, None => r2e out (Raise TypeError)
         end
  | KSerTrail s (a, b) out => let '(y0, y1, x0, x1) := s in expect2 (y0, y1, x1 + a, x1 + b) out
  | KSerRoe s sh (a, b) out => let '(y0, y1, x0, x1) := s in expect2 (0, fst sh, x0 + a, x0 + b) out
  | KX0X1 a b c d out =>
      let eq := prod_eqb (option_eqb Z.eqb) (option_eqb Z.eqb) in
        negb (valid1b (a, b) && valid1b (c, d)) ||
         match overlap1 a b c d with
         | Some (u, v) => eq out (Some u, Some v)
         | None => eq out (None, None)
         end
  | KExtract o e out =>
        match o with
         | None => or2e out (Ok None)
         | Some o' => negb (valid2b o' && valid2b e) || or2e out (Ok (overlap2 o' e))
         end
  | KRotRegion r s c out =>
        match r with
         | None => or2e out (Ok None)
         | Some r' => negb (inside2b s r' && cornerb c) || or2e out (Ok (Some (rot_region_spec r' s c)))
         end
  | KRotArray m c out => negb (cornerb c) || option_eqb arr_eqb out (Some (rot_array_spec m c))
  | KCommute m r c out =>
      let s := shape_of m in
      negb (inside2b s r && cornerb c && rectb (fst s) (snd s) m) || arr_eqb out (rot_array_spec (slice2 m r) c)
  | KTwice m r c out =>
      let s := shape_of m in
      negb (inside2b s r && cornerb c && rectb (fst s) (snd s) m) || prod_eqb arr_eqb reg2_eqb out (m, r)
  end.
